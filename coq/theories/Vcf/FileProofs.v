(* C09 -- the whole FILE round trip (NV.Vcf.File): a header and records written into one text and
   read back by read_header (C12's hdr_closed + the header parser with the reserved-definition
   check) followed by EITHER the eager loop through one reused RecordBuf OR the lazy loop through
   one reused Record, the lookup tables computed from the PARSED header incl. the reserved keys of
   the file format. *)
From Coq Require Import List NArith ZArith Arith Bool Lia.
From NV Require Import Text.TextBase Text.TextBaseProofs Vcf.Values Vcf.Span Vcf.Line Vcf.LineProofs
  Vcf.FrameProofs Vcf.Header Vcf.HeaderProofs Vcf.LazyRec Vcf.LazyRecProofs Vcf.LazyFileProofs Vcf.File.
From NV Require Io.BufReader Io.HeaderRead.
Import ListNotations.
Open Scope nat_scope.

Module BR := NV.Io.BufReader.
Module HR := NV.Io.HeaderRead.

(* ---------------------------------------------------------------------------------------- *)
(* line splitting of the header text *)

Lemma take_line_app : forall l x, ~ In 10%N l -> BR.take_line BR.LF (l ++ 10%N :: x) = l ++ [10%N].
Proof.
  induction l as [|b l IH]; intros x H; cbn [app BR.take_line].
  - reflexivity.
  - assert (E : (b =? BR.LF)%N = false) by (apply N.eqb_neq; intro X; apply H; left; exact X).
    rewrite E. rewrite IH; [reflexivity|]. intro X. apply H. now right.
Qed.

Lemma with_lf_cons : forall l ls, with_lf (l :: ls) = l ++ 10%N :: with_lf ls.
Proof. intros. unfold with_lf. cbn [map concat]. rewrite <- app_assoc. reflexivity. Qed.

Lemma skipn_line : forall (l : list N) x, skipn (length (l ++ [10%N])) (l ++ 10%N :: x) = x.
Proof.
  intros l x. replace (l ++ 10%N :: x) with ((l ++ [10%N]) ++ x) by (rewrite <- app_assoc; reflexivity).
  rewrite skipn_app, skipn_all, Nat.sub_diag. reflexivity.
Qed.

Definition no_hash (rest : list N) : Prop := match rest with [] => True | x :: _ => x <> 35%N end.

Lemma hdr_closed_lines : forall ls rest k,
  Forall (fun l => (exists t, l = 35%N :: t) /\ ~ In 10%N l) ls -> no_hash rest ->
  length (with_lf ls ++ rest) < k ->
  HR.hdr_closed k 35%N (with_lf ls ++ rest) = (map (fun l => l ++ [10%N]) ls, rest).
Proof.
  induction ls as [|l ls IH]; intros rest k Hls Hrest Hk.
  - destruct k as [|k]; [lia|]. unfold with_lf. cbn [map concat app HR.hdr_closed].
    destruct rest as [|x t]; [reflexivity|].
    cbn [no_hash] in Hrest. apply N.eqb_neq in Hrest. rewrite Hrest. reflexivity.
  - inversion Hls as [|? ? ((t & El) & H10) Hls']; subst.
    destruct k as [|k]; [lia|].
    rewrite with_lf_cons, <- app_assoc. cbn [app].
    assert (Hlen : length (with_lf ls ++ rest) < k).
    { rewrite with_lf_cons in Hk. rewrite !app_length in Hk. cbn [length] in Hk.
      rewrite app_length. lia. }
    change ((35%N :: t) ++ 10%N :: with_lf ls ++ rest) with (35%N :: (t ++ 10%N :: with_lf ls ++ rest)).
    cbn [HR.hdr_closed]. change (35 =? 35)%N with true. cbv iota.
    change (35%N :: t ++ 10%N :: with_lf ls ++ rest) with ((35%N :: t) ++ 10%N :: with_lf ls ++ rest).
    rewrite (take_line_app (35%N :: t) _ H10), skipn_line.
    rewrite (IH rest k Hls' Hrest Hlen). reflexivity.
Qed.

Lemma ends_with_cr : forall l, ends_cr l = false -> BR.ends_with BR.CR l = false.
Proof.
  intros l H. unfold BR.ends_with. unfold ends_cr in H. destruct (rev l) as [|x r]; [reflexivity|].
  destruct (N.eqb_spec x BR.CR) as [E|E]; [|reflexivity]. subst x. discriminate H.
Qed.

Lemma strip_eol_line : forall l, ends_cr l = false -> BR.strip_eol (l ++ [10%N]) = l.
Proof.
  intros l H. unfold BR.strip_eol.
  assert (E : BR.ends_with BR.LF (l ++ [10%N]) = true).
  { unfold BR.ends_with. rewrite rev_app_distr. reflexivity. }
  rewrite E, removelast_last, (ends_with_cr l H). reflexivity.
Qed.

(* every line the header writer emits starts with '#' *)
Lemma write_header_hash : forall h ls, write_header h = Some ls ->
  Forall (fun l => exists t, l = 35%N :: t) ls.
Proof.
  intros h ls Hw. unfold write_header in Hw.
  destruct (sequence (map (w_other_group (hh_ff h)) (hh_others h))) as [groups|] eqn:Eg; [|discriminate].
  inversion Hw; subst ls. clear Hw.
  assert (Hm : forall k ms, Forall (fun l => exists t, l = 35%N :: t) (map (w_map_line k) ms)).
  { intros k ms. apply Forall_forall. intros l Hl. apply in_map_iff in Hl. destruct Hl as (m & <- & _).
    unfold w_map_line, w_line. eexists. reflexivity. }
  constructor; [unfold w_fileformat, w_line; eexists; reflexivity|].
  apply Forall_app. split; [apply Hm|]. apply Forall_app. split; [apply Hm|].
  apply Forall_app. split; [apply Hm|]. apply Forall_app. split; [apply Hm|].
  apply Forall_app. split; [apply Hm|]. apply Forall_app. split.
  - apply Forall_forall. intros l Hl. apply in_concat in Hl. destruct Hl as (g & Hg & Hl).
    destruct (sequence_map_in _ _ _ _ _ _ Eg Hg) as (og & _ & Eog).
    unfold w_other_group in Eog. destruct (snd og) as [vs|ms].
    + destruct (sequence_map_in _ _ _ _ _ _ Eog Hl) as (v & _ & Ev).
      destruct (w_other_value (hh_ff h) v); [|discriminate]. inversion Ev. unfold w_line. eexists. reflexivity.
    + inversion Eog; subst g. apply in_map_iff in Hl. destruct Hl as (m & <- & _).
      unfold w_omap_line, w_line. eexists. reflexivity.
  - constructor; [|constructor]. unfold w_columns, columns8. cbn [app]. rewrite join_cons2.
    unfold c_CHROM. eexists. reflexivity.
Qed.

(* ---------------------------------------------------------------------------------------- *)
(* the record loops *)

Lemma sequence_map_Forall2 : forall A B (f : A -> option B) l ps,
  sequence (map f l) = Some ps -> Forall2 (fun a p => f a = Some p) l ps.
Proof.
  intros A B f. induction l as [|x l IH]; intros ps Hs; cbn [map sequence] in Hs.
  - inversion Hs. constructor.
  - destruct (f x) as [y|] eqn:Ey; [|discriminate].
    destruct (sequence (map f l)) as [r|] eqn:Er; [|discriminate]. inversion Hs; subst ps.
    constructor; [exact Ey|apply IH; reflexivity].
Qed.

Lemma lazy_view_app_eof : forall l rs,
  map lres_view l = map (fun r => Some (Some r)) rs -> lazy_view (l ++ [LEof]) = (map Some rs, true).
Proof.
  induction l as [|x l IH]; intros rs H; destruct rs as [|r rs]; cbn [map] in H; try discriminate.
  - reflexivity.
  - inversion H as [[Hx Hl]]. destruct x as [| | |n f r' rest]; cbn [lres_view] in Hx; try discriminate.
    inversion Hx; subst r'. cbn [app lazy_view]. rewrite (IH rs Hl). reflexivity.
Qed.

Section F.
Variable fmt_float : N -> list N.
Variable prs_float : list N -> option N.
Variable FOK : N -> Prop.
Hypothesis float_rt : forall b, FOK b -> prs_float (fmt_float b) = Some b.
Hypothesis float_chars : forall b x, FOK b -> In x (fmt_float b) ->
  (x <> 44 /\ x <> 9 /\ x <> 10 /\ x <> 59 /\ x <> 58)%N.
Hypothesis float_not_dot : forall b, FOK b -> fmt_float b <> dot.
Hypothesis float_nonempty : forall b, FOK b -> fmt_float b <> [].
Hypothesis float_cr : forall b x, FOK b -> In x (fmt_float b) -> x <> 13%N.

Let feol := float_eol fmt_float FOK float_chars float_cr.

Lemma line_bytes_line : forall (t : list N) rest, ~ In 10%N t -> line_bytes (t ++ 10%N :: rest) = t ++ [10%N].
Proof.
  intros t rest H. unfold line_bytes.
  replace (mem 10%N (t ++ 10%N :: rest)) with true
    by (symmetry; apply mem_In; apply in_or_app; right; now left).
  now rewrite take_until_app.
Qed.

Lemma eager_file_step : forall k valid h prev text, text <> [] ->
  eager_file prs_float (S k) valid h prev text =
  if valid (line_bytes text) then
    match read_eager_into prs_float prev h (frame text) with
    | None => ([], false)
    | Some r => let '(rs, ok) := eager_file prs_float k valid h r (skipn (length (line_bytes text)) text) in
                (r :: rs, ok)
    end
  else ([], false).
Proof. intros k valid h prev text H. destruct text; [contradiction|reflexivity]. Qed.

(* the eager loop through one reused RecordBuf on written lines *)
Lemma eager_file_written : forall valid h rs ts,
  Forall2 (fun r t => rec_ok fmt_float FOK h r /\ write_line fmt_float h r = Some t) rs ts ->
  (forall t, In t ts -> valid (t ++ [10%N]) = true) ->
  forall fuel prev, length (with_lf ts) < fuel ->
  eager_file prs_float fuel valid h prev (with_lf ts) = (map (canon h) rs, true).
Proof.
  intros valid h rs ts H2. induction H2 as [|r t rs ts (Hok & Hw) _ IH]; intros Hval fuel prev Hfuel.
  - destruct fuel as [|k]; [lia|]. reflexivity.
  - destruct fuel as [|k]; [lia|]. rewrite with_lf_cons in *.
    assert (H10 : ~ In 10%N t)
      by (apply (written_line_no_eol fmt_float FOK feol h r t 10%N Hok Hw); now left).
    destruct (written_line_frames fmt_float FOK feol h r t (with_lf ts) Hok Hw) as [Fr _].
    destruct (line_roundtrip fmt_float prs_float FOK float_rt float_chars float_not_dot float_nonempty h r t Hok Hw)
      as (He & _ & _).
    rewrite eager_file_step by (destruct t; discriminate).
    rewrite (line_bytes_line t _ H10), (Hval t (or_introl eq_refl)), Fr.
    rewrite (reused_recordbuf_independent prs_float prev h t), He, skipn_line.
    rewrite (IH (fun t' Ht' => Hval t' (or_intror Ht')) k (canon h r)).
    + reflexivity.
    + rewrite app_length in Hfuel. cbn [length] in Hfuel. lia.
Qed.

(* the first byte of a written line is the first byte of CHROM *)
Lemma written_line_first : forall h r t, write_line fmt_float h r = Some t ->
  (forall tl, r_chrom r <> 35%N :: tl) -> no_hash t /\ t <> [].
Proof.
  intros h r t Hw Hc. unfold write_line in Hw.
  destruct (w_chrom (r_chrom r)) as [c|] eqn:Ec; [|discriminate].
  destruct (w_list 59 id_valid (r_ids r)); [|discriminate].
  destruct (w_ref (r_ref r)); [|discriminate].
  destruct (w_list 44 alt_valid (r_alts r)); [|discriminate].
  destruct (w_list 59 id_valid (r_filters r)); [|discriminate].
  destruct (w_info fmt_float (r_info r)); [|discriminate].
  destruct (w_sample_cols fmt_float h r); [|discriminate].
  inversion Hw as [Ht]. clear Hw Ht.
  unfold w_chrom in Ec.
  destruct (chrom_name_valid match strip_symbol (r_chrom r) with Some t0 => t0 | None => r_chrom r end) eqn:Ev;
    [|discriminate].
  inversion Ec; subst c.
  destruct (r_chrom r) as [|x tl] eqn:Er.
  - cbn in Ev. discriminate.
  - cbn [app no_hash]. split; [|discriminate]. intro X. subst x. exact (Hc tl eq_refl).
Qed.

(* the header text can be split into its lines again: no LF inside a line, no CR at its end
   (quoted values may hold any byte, so this is a condition on the header VALUE, stated on what
   the writer emits for it) *)
Definition header_framed (hd : vheader) : Prop :=
  forall ls, write_header hd = Some ls -> Forall (fun l => ~ In 10%N l /\ ends_cr l = false) ls.

Definition first_chrom_ok (rs : list vrec) : Prop :=
  match rs with [] => True | r :: _ => forall tl, r_chrom r <> 35%N :: tl end.

(* THE FILE THEOREM *)
Theorem file_roundtrip : forall valid hd rs text,
  header_ok hd -> hdr_defs_ok hd = true -> header_framed hd ->
  Forall (rec_ok fmt_float FOK (hctx_of_header hd)) rs -> first_chrom_ok rs ->
  (forall s, (forall b, In b s -> In b text) -> valid s = true) ->
  write_file fmt_float hd rs = Some text ->
  read_file_eager prs_float valid text =
    Some (hd, (map (canon (hctx_of_header hd)) rs, true)) /\
  read_file_lazy prs_float valid text =
    Some (hd, (map (fun r => Some (canon (hctx_of_header hd) r)) rs, true)).
Proof.
  intros valid hd rs text Hh Hd Hfr Hrs Hfirst Hval Hw.
  unfold write_file in Hw.
  destruct (write_header hd) as [ls|] eqn:Eh; [|discriminate].
  destruct (sequence (map (write_line fmt_float (hctx_of_header hd)) rs)) as [ts|] eqn:Es; [|discriminate].
  inversion Hw; subst text. clear Hw.
  set (h := hctx_of_header hd) in *.
  assert (H2 : Forall2 (fun r t => rec_ok fmt_float FOK h r /\ write_line fmt_float h r = Some t) rs ts).
  { pose proof (sequence_map_Forall2 _ _ _ _ _ Es) as F. clear Es Hfirst Hval.
    induction F as [|r t rs ts Hrt _ IH]; [constructor|].
    inversion Hrs; subst. constructor; [split; assumption|apply IH; assumption]. }
  (* the header *)
  assert (Hrest : no_hash (with_lf ts)).
  { destruct H2 as [|r t rs ts (Hok & Hwl) _]; [exact I|].
    destruct (written_line_first h r t Hwl Hfirst) as [A B].
    rewrite with_lf_cons. destruct t as [|x tl]; [contradiction|exact A]. }
  assert (Hhdr : read_header_text (with_lf ls ++ with_lf ts) = (Some hd, with_lf ts)).
  { unfold read_header_text.
    pose proof (write_header_hash hd ls Eh) as Hhash. pose proof (Hfr ls Eh) as Hf.
    rewrite (hdr_closed_lines ls (with_lf ts) (S (length (with_lf ls ++ with_lf ts)))).
    - rewrite map_map.
      replace (map (fun x => BR.strip_eol (x ++ [10%N])) ls) with ls.
      + unfold parse_header_chk. rewrite (header_roundtrip hd ls Hh Eh), Hd. reflexivity.
      + clear - Hf. induction Hf as [|l ls (_ & Hcr) _ IH]; [reflexivity|].
        cbn [map]. rewrite (strip_eol_line l Hcr), <- IH. reflexivity.
    - clear - Hhash Hf. induction Hhash as [|l ls Hl _ IH]; [constructor|].
      inversion Hf as [|? ? (A & _) Hf']; subst. constructor; [split; assumption|apply IH; exact Hf'].
    - exact Hrest.
    - lia. }
  assert (Hin : forall t b, In t ts -> In b t -> In b (with_lf ls ++ with_lf ts)).
  { intros t b Ht Hb. apply in_or_app. right. unfold with_lf. apply in_concat.
    exists (t ++ [10%N]). split; [apply in_map_iff; exists t; split; [reflexivity|exact Ht]|].
    apply in_or_app. now left. }
  assert (Hlf : In 10%N (with_lf ls ++ with_lf ts)).
  { apply in_or_app. left. destruct ls as [|l0 ls'].
    - unfold write_header in Eh. destruct (sequence (map (w_other_group (hh_ff hd)) (hh_others hd))); discriminate Eh.
    - rewrite with_lf_cons. apply in_or_app. right. now left. }
  split.
  - unfold read_file_eager. rewrite Hhdr. fold h. unfold eager_records.
    rewrite (eager_file_written valid h rs ts H2); [reflexivity| |lia].
    intros t Ht. apply Hval. intros b Hb. apply in_app_or in Hb. destruct Hb as [Hb|[<-|[]]].
    + exact (Hin t b Ht Hb).
    + exact Hlf.
  - unfold read_file_lazy. rewrite Hhdr. fold h.
    destruct (lazy_file_roundtrip fmt_float prs_float FOK float_rt float_chars float_not_dot float_nonempty
                float_cr valid h rs ts H2) as (l & El & Em).
    { intros s Hs. apply Hval. intros b Hb. destruct (Hs b Hb) as [->|(t & Ht & Hbt)].
      - exact Hlf.
      - exact (Hin t b Ht Hbt). }
    fold (with_lf ts) in El. rewrite El.
    rewrite (lazy_view_app_eof l (map (canon h) rs)).
    + rewrite map_map. reflexivity.
    + rewrite Em, map_map. reflexivity.
Qed.

End F.

(* ---------------------------------------------------------------------------------------- *)
(* witnesses *)
Open Scope N_scope.

Definition x_info_dp : hmap :=
  {| m_id := [100; 112]; m_num := Some (HCount 1); m_ty := Some HInteger; m_desc := Some [100];
     m_len := None; m_md5 := None; m_url := None; m_idx := None; m_others := [] |}.
Definition x_hdr (ff : N * N) : vheader :=
  {| hh_ff := ff; hh_infos := [x_info_dp]; hh_filters := []; hh_formats := []; hh_alts := [];
     hh_contigs := []; hh_others := []; hh_samples := [[115; 48]] |}.
(* INFO AC (reserved: Number=A Integer -> an array), FORMAT GT:DP (reserved: one Integer), neither
   defined by the header *)
Definition x_rec (chrom : list N) : vrec :=
  {| r_chrom := chrom; r_pos := 5; r_ids := []; r_ref := [65]; r_alts := [[67]]; r_qual := None;
     r_filters := []; r_info := [([100; 112], Some (VInteger 7%Z)); ([65; 67], Some (VIntArr [Some 3%Z]))];
     r_keys := [key_gt; [68; 80]];
     r_samples := [[Some (VGenotype [(Some 0%N, true); (Some 1%N, true)]); Some (VInteger 9%Z)]] |}.

(* non-vacuity: a file whose records rely on the reserved keys of VCF 4.3; under 4.2 (no reserved
   keys) the same INFO AC text is read as a String and FORMAT DP as a String: the tables matter *)
Lemma witness_file :
  let hd := x_hdr (4, 3)%N in let rs := [x_rec [99]; x_rec [99; 50]] in
  exists text, write_file w_fmt hd rs = Some text /\
    read_file_eager w_prs (fun _ => true) text = Some (hd, (rs, true)) /\
    read_file_lazy w_prs (fun _ => true) text = Some (hd, (map Some rs, true)) /\
    assoc [65; 67]%N (h_infos (hctx_of_header hd)) = Some (NOther, TInteger) /\
    assoc [65; 67]%N (h_infos (hctx_of_header (x_hdr (4, 2)%N))) = None /\
    hdr_defs_ok hd = true.
Proof.
  cbv zeta. eexists. split; [vm_compute; reflexivity|].
  split; [vm_compute; reflexivity|]. split; [vm_compute; reflexivity|].
  split; [vm_compute; reflexivity|]. split; vm_compute; reflexivity.
Qed.

(* the reserved-definition check of the header parser: ##INFO=<ID=AC,Number=1,Type=Integer> is an
   error under 4.3 (AC is Number=A) and accepted under 4.2 *)
Lemma witness_reserved_mismatch :
  let m := {| m_id := [65; 67]%N; m_num := Some (HCount 1); m_ty := Some HInteger; m_desc := Some [100]%N;
              m_len := None; m_md5 := None; m_url := None; m_idx := None; m_others := [] |} in
  let hd ff := {| hh_ff := ff; hh_infos := [m]; hh_filters := []; hh_formats := []; hh_alts := [];
                  hh_contigs := []; hh_others := []; hh_samples := [] |} in
  (exists ls, write_header (hd (4, 3)%N) = Some ls /\ parse_header ls = Some (hd (4, 3)%N) /\
              parse_header_chk ls = None) /\
  (exists ls, write_header (hd (4, 2)%N) = Some ls /\ parse_header_chk ls = Some (hd (4, 2)%N)).
Proof.
  cbv zeta. split; eexists; (split; [vm_compute; reflexivity|]).
  - split; vm_compute; reflexivity.
  - vm_compute; reflexivity.
Qed.

(* first_chrom_ok is needed: a first record whose CHROM starts with '#' is written (the name is
   valid for the writer) and its line is then taken for a header line by read_header *)
Lemma witness_first_chrom_hash :
  let hd := x_hdr (4, 3)%N in let rs := [x_rec [35; 99]] in
  exists text, write_file w_fmt hd rs = Some text /\
    read_file_eager w_prs (fun _ => true) text = None /\
    read_file_lazy w_prs (fun _ => true) text = None.
Proof.
  cbv zeta. eexists. split; [vm_compute; reflexivity|]. split; vm_compute; reflexivity.
Qed.
