(* C09 -- the VCF header as text: noodles-vcf io/writer/header.rs (+ header/record/...) and
   header/parser.rs (+ parser/record/...).  Modelled: the fileformat line, INFO / FORMAT / FILTER /
   ALT / contig map lines (ID, Number, Type, Description, length, md5, URL, IDX and "other" fields
   with quoted and backslash-escaped values), unstructured ##key=value lines, and the #CHROM line
   with the sample names, and (wave 8) the STRUCTURED other records: ##META (parse_meta, the
   Values=[..] list, Number/Type/Values written raw), ##PEDIGREE (parse_pedigree, with the
   pre-4.3 Child= / Derived= identifier tag) and any ##key=<ID=..,k="v"> (is_map / parse_other),
   collected per key as Collection::Unstructured / Collection::Structured with the TypeMismatch and
   DuplicateId errors of Collection::add.  The reserved-definition check of INFO/FORMAT IDs is in
   NV.Vcf.File (parse_header_chk); UTF-8 validity is not modelled.
   A header is its list of lines (no terminators).  Definitions only. *)
From Coq Require Import List NArith Bool.
From NV Require Import Text.TextBase Vcf.Values Vcf.Line.
Import ListNotations.
Open Scope N_scope.

Definition k_INFO : list N := [73; 78; 70; 79].
Definition k_FILTER : list N := [70; 73; 76; 84; 69; 82].
Definition k_FORMAT : list N := [70; 79; 82; 77; 65; 84].
Definition k_ALT : list N := [65; 76; 84].
Definition k_contig : list N := [99; 111; 110; 116; 105; 103].
Definition k_fileformat : list N := [102; 105; 108; 101; 102; 111; 114; 109; 97; 116].
Definition t_ID : list N := [73; 68].
Definition t_Number : list N := [78; 117; 109; 98; 101; 114].
Definition t_Type : list N := [84; 121; 112; 101].
Definition t_Description : list N := [68; 101; 115; 99; 114; 105; 112; 116; 105; 111; 110].
Definition t_IDX : list N := [73; 68; 88].
Definition t_length : list N := [108; 101; 110; 103; 116; 104].
Definition t_md5 : list N := [109; 100; 53].
Definition t_URL : list N := [85; 82; 76].
Definition s_VCFv : list N := [86; 67; 70; 118].
Definition s_Integer : list N := [73; 110; 116; 101; 103; 101; 114].
Definition s_Float : list N := [70; 108; 111; 97; 116].
Definition s_Flag : list N := [70; 108; 97; 103].
Definition s_Character : list N := [67; 104; 97; 114; 97; 99; 116; 101; 114].
Definition s_String : list N := [83; 116; 114; 105; 110; 103].
Definition k_META : list N := [77; 69; 84; 65].
Definition k_PEDIGREE : list N := [80; 69; 68; 73; 71; 82; 69; 69].
Definition s_Values : list N := [86; 97; 108; 117; 101; 115].
Definition s_Child : list N := [67; 104; 105; 108; 100].
Definition s_Derived : list N := [68; 101; 114; 105; 118; 101; 100].
Definition c_CHROM : list N := [35; 67; 72; 82; 79; 77].
Definition c_POS : list N := [80; 79; 83].
Definition c_REF : list N := [82; 69; 70].
Definition c_QUAL : list N := [81; 85; 65; 76].
Definition s_IDeq : list N := [73; 68; 61].

(* HLA HLR HLG HP HM: FORMAT only (format::Number::Local*, Ploidy, BaseModifications) *)
Inductive hnum := HCount (n : N) | HA | HR | HG | HDot | HLA | HLR | HLG | HP | HM.
Inductive htype := HInteger | HFloat | HFlag | HCharacter | HString.
Inductive mkind := KInfo | KFormat | KFilter | KAlt | KContig.

(* one map line; which components a kind uses: INFO/FORMAT num ty desc idx; FILTER desc idx;
   ALT desc; contig len md5 url idx; all: others *)
Record hmap := {
  m_id : list N;
  m_num : option hnum; m_ty : option htype; m_desc : option (list N);
  m_len : option N; m_md5 : option (list N); m_url : option (list N);
  m_idx : option N;
  m_others : list (list N * list N)
}.

(* Map<Other>: the identifier tag (ID; Child / Derived for a parsed pre-4.3 PEDIGREE), the
   identifier (the key of the IndexMap), the other fields in insertion order *)
Record omap := { o_idtag : list N; o_id : list N; o_fields : list (list N * list N) }.

(* header::record::value::Collection *)
Inductive hcoll := CU (vs : list (list N)) | CS (ms : list omap).

(* header::record::Value of an other record *)
Inductive oval := OVStr (v : list N) | OVMap (m : omap).

Record vheader := {
  hh_ff : N * N;
  hh_infos : list hmap; hh_filters : list hmap; hh_formats : list hmap; hh_alts : list hmap;
  hh_contigs : list hmap;
  hh_others : list (list N * hcoll);                  (* other records, one collection per key *)
  hh_samples : list (list N)
}.

(* ---------------------------------------------------------------------------------------- *)
(* writer *)

(* value/map.rs::write_string / write_escaped_string: quotes, a backslash before backslash and quote *)
Definition esc (s : list N) : list N :=
  flat_map (fun b => if (b =? 92) || (b =? 34) then [92; b] else [b]) s.
Definition w_hstring (s : list N) : list N := 34 :: esc s ++ [34].

Definition w_raw_field (k v : list N) : list N := k ++ 61 :: v.
Definition w_str_field (k v : list N) : list N := k ++ 61 :: w_hstring v.

Definition num_text (n : hnum) : list N :=
  match n with HCount c => fmt_dec c | HA => [65] | HR => [82] | HG => [71] | HDot => [46]
             | HLA => [76; 65] | HLR => [76; 82] | HLG => [76; 71] | HP => [80] | HM => [77] end.
Definition ty_text (t : htype) : list N :=
  match t with HInteger => s_Integer | HFloat => s_Float | HFlag => s_Flag
             | HCharacter => s_Character | HString => s_String end.

Definition opt_field {A} (o : option A) (f : A -> list N) : list (list N) :=
  match o with Some a => [f a] | None => [] end.

Definition uses_numty (k : mkind) : bool := match k with KInfo | KFormat => true | _ => false end.
Definition uses_desc (k : mkind) : bool := match k with KContig => false | _ => true end.
Definition uses_idx (k : mkind) : bool := match k with KAlt => false | _ => true end.
Definition uses_contig (k : mkind) : bool := match k with KContig => true | _ => false end.

(* the fields of a map line in the order the writer emits them *)
Definition map_fields (k : mkind) (m : hmap) : list (list N) :=
  [w_raw_field t_ID (m_id m)]
  ++ (if uses_numty k then opt_field (m_num m) (fun n => w_raw_field t_Number (num_text n))
                           ++ opt_field (m_ty m) (fun t => w_raw_field t_Type (ty_text t)) else [])
  ++ (if uses_desc k then opt_field (m_desc m) (w_str_field t_Description) else [])
  ++ (if uses_contig k then opt_field (m_len m) (fun n => w_raw_field t_length (fmt_dec n))
                            ++ opt_field (m_md5 m) (w_raw_field t_md5)
                            ++ opt_field (m_url m) (w_raw_field t_URL) else [])
  ++ map (fun kv => w_str_field (fst kv) (snd kv)) (m_others m)
  ++ (if uses_idx k then opt_field (m_idx m) (fun n => w_raw_field t_IDX (fmt_dec n)) else []).

Definition kind_key (k : mkind) : list N :=
  match k with KInfo => k_INFO | KFormat => k_FORMAT | KFilter => k_FILTER | KAlt => k_ALT
             | KContig => k_contig end.

Definition w_line (key value : list N) : list N := 35 :: 35 :: key ++ 61 :: value.

Definition w_map_line (k : mkind) (m : hmap) : list N :=
  w_line (kind_key k) (60 :: join 44 (map_fields k m) ++ [62]).

Definition ff_lt_43 (ff : N * N) : bool :=
  (fst ff <? 4) || ((fst ff =? 4) && (snd ff <? 3)).

(* value/string.rs::write_string: from 4.3 an unstructured value is not empty and does not
   start with '<' (InvalidInput otherwise) *)
Definition w_other_value (ff : N * N) (v : list N) : option (list N) :=
  if ff_lt_43 ff then Some v
  else match v with
       | [] => None
       | b :: _ => if b =? 60 then None else Some v
       end.

(* value/map/meta.rs::write_meta: Number, Type and Values raw, every other field quoted;
   value/map/other.rs::write_other: every field quoted *)
Definition meta_raw_key (k : list N) : bool :=
  bytes_eqb k t_Number || bytes_eqb k t_Type || bytes_eqb k s_Values.

Definition w_ofield (meta : bool) (kv : list N * list N) : list N :=
  if meta && meta_raw_key (fst kv) then w_raw_field (fst kv) (snd kv) else w_str_field (fst kv) (snd kv).

(* write_other_map: '<' id_tag '=' id (raw), the fields, '>' *)
Definition omap_fields (meta : bool) (m : omap) : list (list N) :=
  w_raw_field (o_idtag m) (o_id m) :: map (w_ofield meta) (o_fields m).

Definition w_omap_line (key : list N) (m : omap) : list N :=
  w_line key (60 :: join 44 (omap_fields (bytes_eqb key k_META) m) ++ [62]).

(* record.rs::write_other *)
Definition w_other_group (ff : N * N) (g : list N * hcoll) : option (list (list N)) :=
  match snd g with
  | CU vs => sequence (map (fun v => match w_other_value ff v with
                                     | Some t => Some (w_line (fst g) t)
                                     | None => None end) vs)
  | CS ms => Some (map (w_omap_line (fst g)) ms)
  end.

Definition columns8 : list (list N) := [c_CHROM; c_POS; t_ID; c_REF; k_ALT; c_QUAL; k_FILTER; k_INFO].

Definition w_columns (samples : list (list N)) : list N :=
  join 9 (columns8 ++ match samples with [] => [] | _ => k_FORMAT :: samples end).

Definition w_fileformat (ff : N * N) : list N :=
  w_line k_fileformat (s_VCFv ++ fmt_dec (fst ff) ++ 46 :: fmt_dec (snd ff)).

(* io/writer/header.rs::write_header, as lines; None = the writer's InvalidInput *)
Definition write_header (h : vheader) : option (list (list N)) :=
  match sequence (map (w_other_group (hh_ff h)) (hh_others h)) with
  | Some groups =>
      Some (w_fileformat (hh_ff h)
            :: map (w_map_line KInfo) (hh_infos h) ++ map (w_map_line KFilter) (hh_filters h)
            ++ map (w_map_line KFormat) (hh_formats h) ++ map (w_map_line KAlt) (hh_alts h)
            ++ map (w_map_line KContig) (hh_contigs h) ++ concat groups
            ++ [w_columns (hh_samples h)])
  | None => None
  end.

(* ---------------------------------------------------------------------------------------- *)
(* parser: the generic field layer (parser/record/value/map/field*.rs) *)

(* parse_escaped_string + unescape_string, after the opening quote: (value, rest after the
   closing quote) *)
Fixpoint p_escaped (s : list N) : option (list N * list N) :=
  match s with
  | [] => None
  | b :: t =>
      if b =? 34 then Some ([], t)
      else if b =? 92 then
        match t with
        | c :: t' =>
            if (c =? 92) || (c =? 34) then
              match p_escaped t' with Some (v, r) => Some (c :: v, r) | None => None end
            else None
        | [] => None
        end
      else match p_escaped t with Some (v, r) => Some (b :: v, r) | None => None end
  end.

(* parse_raw_string: up to (not including) the first ',' or '>' *)
Fixpoint p_raw (s : list N) : option (list N * list N) :=
  match s with
  | [] => None
  | b :: t =>
      if (b =? 44) || (b =? 62) then Some ([], s)
      else match p_raw t with Some (v, r) => Some (b :: v, r) | None => None end
  end.

Definition p_value (s : list N) : option (list N * list N) :=
  match s with
  | b :: t => if b =? 34 then p_escaped t else p_raw s
  | [] => p_raw s
  end.

(* split_field iterated until '>' (which stays); fuel = the length of the text *)
Fixpoint p_fields (fuel : nat) (s : list N) : option (list (list N * list N) * list N) :=
  match fuel with
  | O => None
  | S f =>
      match s with
      | b :: _ =>
          if b =? 62 then Some ([], s)
          else
            match split_once 61 s with
            | None => None
            | Some (k, r1) =>
                match p_value r1 with
                | None => None
                | Some (v, r2) =>
                    match r2 with
                    | [] => None
                    | c :: r3 =>
                        match p_fields f (if c =? 44 then r3 else r2) with
                        | Some (fs, rest) => Some ((k, v) :: fs, rest)
                        | None => None
                        end
                    end
                end
            end
      | [] => None
      end
  end.

(* consume_prefix, the fields, consume_suffix; what follows '>' is not looked at *)
Definition p_map_fields (s : list N) : option (list (list N * list N)) :=
  match s with
  | b :: t =>
      if b =? 60 then
        match p_fields (S (length t)) t with
        | Some (fs, _) => Some fs
        | None => None
        end
      else None
  | [] => None
  end.

(* ---------------------------------------------------------------------------------------- *)
(* parser: typed maps (parser/record/value/map/{info,format,filter,alternative_allele,contig}.rs) *)

(* info/number.rs and format/number.rs::parse_number: FORMAT also knows LA LR LG P M (3f7219b) *)
Definition p_num (k : mkind) (s : list N) : option hnum :=
  match s with
  | [] => None
  | _ => if bytes_eqb s [65] then Some HA else if bytes_eqb s [82] then Some HR
         else if bytes_eqb s [71] then Some HG
         else if (match k with KFormat => true | _ => false end) && bytes_eqb s [76; 65] then Some HLA
         else if (match k with KFormat => true | _ => false end) && bytes_eqb s [76; 82] then Some HLR
         else if (match k with KFormat => true | _ => false end) && bytes_eqb s [76; 71] then Some HLG
         else if (match k with KFormat => true | _ => false end) && bytes_eqb s [80] then Some HP
         else if (match k with KFormat => true | _ => false end) && bytes_eqb s [77] then Some HM
         else if bytes_eqb s [46] then Some HDot
         else match parse_usize s with Some n => Some (HCount n) | None => None end
  end.

Definition p_ty (k : mkind) (s : list N) : option htype :=
  if bytes_eqb s s_Integer then Some HInteger else if bytes_eqb s s_Float then Some HFloat
  else if bytes_eqb s s_Flag then (match k with KFormat => None | _ => Some HFlag end)
  else if bytes_eqb s s_Character then Some HCharacter
  else if bytes_eqb s s_String then Some HString else None.

Definition set_once {A} (old : option A) (new : option A) : option (option A) :=
  match old, new with
  | None, Some a => Some (Some a)
  | _, _ => None                               (* duplicate tag, or an invalid value *)
  end.

Record mstate := {
  s_id : option (list N);
  s_num : option hnum; s_ty : option htype; s_desc : option (list N);
  s_len : option N; s_md5 : option (list N); s_url : option (list N);
  s_idx : option N;
  s_others : list (list N * list N)
}.

Definition st0 : mstate :=
  {| s_id := None; s_num := None; s_ty := None; s_desc := None; s_len := None; s_md5 := None;
     s_url := None; s_idx := None; s_others := [] |}.

Definition step (k : mkind) (st : mstate) (kv : list N * list N) : option mstate :=
  let (key, v) := kv in
  if bytes_eqb key t_ID then
    match set_once (s_id st) (Some v) with
    | Some x => Some {| s_id := x; s_num := s_num st; s_ty := s_ty st; s_desc := s_desc st; s_len := s_len st;
                        s_md5 := s_md5 st; s_url := s_url st; s_idx := s_idx st; s_others := s_others st |}
    | None => None end
  else if uses_numty k && bytes_eqb key t_Number then
    match set_once (s_num st) (p_num k v) with
    | Some x => Some {| s_id := s_id st; s_num := x; s_ty := s_ty st; s_desc := s_desc st; s_len := s_len st;
                        s_md5 := s_md5 st; s_url := s_url st; s_idx := s_idx st; s_others := s_others st |}
    | None => None end
  else if uses_numty k && bytes_eqb key t_Type then
    match set_once (s_ty st) (p_ty k v) with
    | Some x => Some {| s_id := s_id st; s_num := s_num st; s_ty := x; s_desc := s_desc st; s_len := s_len st;
                        s_md5 := s_md5 st; s_url := s_url st; s_idx := s_idx st; s_others := s_others st |}
    | None => None end
  else if uses_desc k && bytes_eqb key t_Description then
    match set_once (s_desc st) (Some v) with
    | Some x => Some {| s_id := s_id st; s_num := s_num st; s_ty := s_ty st; s_desc := x; s_len := s_len st;
                        s_md5 := s_md5 st; s_url := s_url st; s_idx := s_idx st; s_others := s_others st |}
    | None => None end
  else if uses_contig k && bytes_eqb key t_length then
    match set_once (s_len st) (parse_usize v) with
    | Some x => Some {| s_id := s_id st; s_num := s_num st; s_ty := s_ty st; s_desc := s_desc st; s_len := x;
                        s_md5 := s_md5 st; s_url := s_url st; s_idx := s_idx st; s_others := s_others st |}
    | None => None end
  else if uses_contig k && bytes_eqb key t_md5 then
    match set_once (s_md5 st) (Some v) with
    | Some x => Some {| s_id := s_id st; s_num := s_num st; s_ty := s_ty st; s_desc := s_desc st; s_len := s_len st;
                        s_md5 := x; s_url := s_url st; s_idx := s_idx st; s_others := s_others st |}
    | None => None end
  else if uses_contig k && bytes_eqb key t_URL then
    match set_once (s_url st) (Some v) with
    | Some x => Some {| s_id := s_id st; s_num := s_num st; s_ty := s_ty st; s_desc := s_desc st; s_len := s_len st;
                        s_md5 := s_md5 st; s_url := x; s_idx := s_idx st; s_others := s_others st |}
    | None => None end
  else if uses_idx k && bytes_eqb key t_IDX then
    match set_once (s_idx st) (parse_usize v) with
    | Some x => Some {| s_id := s_id st; s_num := s_num st; s_ty := s_ty st; s_desc := s_desc st; s_len := s_len st;
                        s_md5 := s_md5 st; s_url := s_url st; s_idx := x; s_others := s_others st |}
    | None => None end
  else
    match assoc key (s_others st) with
    | Some _ => None
    | None => Some {| s_id := s_id st; s_num := s_num st; s_ty := s_ty st; s_desc := s_desc st; s_len := s_len st;
                      s_md5 := s_md5 st; s_url := s_url st; s_idx := s_idx st;
                      s_others := s_others st ++ [(key, v)] |}
    end.

Fixpoint steps (k : mkind) (st : mstate) (fs : list (list N * list N)) : option mstate :=
  match fs with
  | [] => Some st
  | kv :: t => match step k st kv with Some st' => steps k st' t | None => None end
  end.

(* the required tags *)
Definition finish (k : mkind) (st : mstate) : option hmap :=
  match s_id st with
  | None => None
  | Some id =>
      let ok := (if uses_numty k then match s_num st, s_ty st with Some _, Some _ => true | _, _ => false end else true)
                && (if uses_desc k then match s_desc st with Some _ => true | None => false end else true) in
      if ok then Some {| m_id := id; m_num := s_num st; m_ty := s_ty st; m_desc := s_desc st; m_len := s_len st;
                         m_md5 := s_md5 st; m_url := s_url st; m_idx := s_idx st; m_others := s_others st |}
      else None
  end.

Definition p_map (k : mkind) (s : list N) : option hmap :=
  match p_map_fields s with
  | Some fs => match steps k st0 fs with Some st => finish k st | None => None end
  | None => None
  end.

(* ---------------------------------------------------------------------------------------- *)
(* parser: structured other records (parser/record/value/map/other.rs) *)

(* parse_other: the split_field loop; ID once, every other tag once *)
Fixpoint o_steps (id : option (list N)) (os : list (list N * list N)) (fs : list (list N * list N))
  : option (option (list N) * list (list N * list N)) :=
  match fs with
  | [] => Some (id, os)
  | (k, v) :: t =>
      if bytes_eqb k t_ID then
        match id with None => o_steps (Some v) os t | Some _ => None end
      else match assoc k os with Some _ => None | None => o_steps id (os ++ [(k, v)]) t end
  end.

Definition p_omap (s : list N) : option omap :=
  match p_map_fields s with
  | Some fs =>
      match o_steps None [] fs with
      | Some (Some id, os) => Some {| o_idtag := t_ID; o_id := id; o_fields := os |}
      | _ => None
      end
  | None => None
  end.

(* parse_values (for every file format since 1f7dac7): '[' ... up to and including the first ']'
   when there is one, else parse_value *)
Definition p_values (s : list N) : option (list N * list N) :=
  match s with
  | b :: _ => if b =? 91 then
                match split_once 93 s with
                | Some (a, r) => Some (a ++ [93], r)
                | None => p_value s
                end
              else p_value s
  | [] => p_value s
  end.

(* the loop of parse_meta (ped = false) and parse_pedigree (ped = true): key, value, separator,
   until there is no separator; the rest (which must start with '>') is returned.  Unlike
   split_field it does not look for '>' before a key *)
Fixpoint p_sfields (fuel : nat) (ped : bool) (ff : N * N) (s : list N)
    (idtag : list N) (id : option (list N)) (os : list (list N * list N))
  : option (list N * option (list N) * list (list N * list N) * list N) :=
  match fuel with
  | O => None
  | S f =>
      match split_once 61 s with
      | None => None
      | Some (k, r1) =>
          let is_id := bytes_eqb k t_ID in
          let is_ped_id := ped && ff_lt_43 ff && (bytes_eqb k s_Child || bytes_eqb k s_Derived) in
          let next idtag' id' os' r2 :=
            match r2 with
            | [] => None
            | c :: r3 => if c =? 44 then p_sfields f ped ff r3 idtag' id' os'
                         else Some (idtag', id', os', r2)
            end in
          if is_id || is_ped_id then
            match p_value r1 with
            | None => None
            | Some (v, r2) =>
                match id with
                | Some _ => None
                | None => next (if is_id then idtag else k) (Some v) os r2
                end
            end
          else
            match (if negb ped && bytes_eqb k s_Values then p_values r1 else p_value r1) with
            | None => None
            | Some (v, r2) =>
                match assoc k os with
                | Some _ => None
                | None => next idtag id (os ++ [(k, v)]) r2
                end
            end
      end
  end.

Definition p_smap (ped : bool) (ff : N * N) (s : list N) : option omap :=
  match s with
  | b :: t =>
      if b =? 60 then
        match p_sfields (S (length t)) ped ff t t_ID None [] with
        | Some (idtag, Some id, os, 62 :: _) => Some {| o_idtag := idtag; o_id := id; o_fields := os |}
        | _ => None
        end
      else None
  | [] => None
  end.

Definition p_meta (ff : N * N) (s : list N) : option omap := p_smap false ff s.
Definition p_pedigree (ff : N * N) (s : list N) : option omap := p_smap true ff s.

(* ---------------------------------------------------------------------------------------- *)
(* parser: lines (header/parser.rs::parse_partial / finish) *)

Fixpoint strip_prefix (p s : list N) : option (list N) :=
  match p, s with
  | [], _ => Some s
  | a :: p', b :: s' => if a =? b then strip_prefix p' s' else None
  | _ :: _, [] => None
  end.

(* parse_u32 of string/file_format.rs: digits only (also none: 0), u32 range *)
Definition p_u32 (s : list N) : option N :=
  match s with
  | [] => Some 0
  | _ => match parse_dec s with
         | Some n => if n <? 4294967296 then Some n else None
         | None => None
         end
  end.

Definition p_fileformat_value (s : list N) : option (N * N) :=
  match strip_prefix s_VCFv s with
  | Some r => match split_once 46 r with
              | Some (a, b) => match p_u32 a, p_u32 b with
                               | Some x, Some y => Some (x, y)
                               | _, _ => None end
              | None => None
              end
  | None => None
  end.

(* ## key = value *)
Definition p_record (line : list N) : option (list N * list N) :=
  match strip_prefix [35; 35] line with
  | Some r => split_once 61 r
  | None => None
  end.

Fixpoint has_infix (q s : list N) : bool :=
  match strip_prefix q s with
  | Some _ => true
  | None => match s with [] => false | _ :: t => has_infix q t end
  end.

(* map::is_map *)
Definition is_map (ff : N * N) (v : list N) : bool :=
  match v with
  | b :: _ => (b =? 60) && (if ff_lt_43 ff then has_infix s_IDeq v else true)
  | [] => false
  end.

(* parser/record/value.rs::parse_value, the Key::Other arm *)
Definition p_other_value (ff : N * N) (key v : list N) : option oval :=
  if bytes_eqb key k_META then
    match p_meta ff v with Some m => Some (OVMap m) | None => None end
  else if bytes_eqb key k_PEDIGREE then
    match p_pedigree ff v with Some m => Some (OVMap m) | None => None end
  else if is_map ff v then
    match p_omap v with Some m => Some (OVMap m) | None => None end
  else Some (OVStr v).

(* insert_other_record + Collection::add: the first value of a key decides the kind of its
   collection; None = AddError::TypeMismatch / AddError::DuplicateId *)
Fixpoint add_other (key : list N) (val : oval) (l : list (list N * hcoll)) : option (list (list N * hcoll)) :=
  match l with
  | [] => Some [(key, match val with OVStr v => CU [v] | OVMap m => CS [m] end)]
  | (k', c) :: t =>
      if bytes_eqb key k' then
        match c, val with
        | CU vs, OVStr v => Some ((k', CU (vs ++ [v])) :: t)
        | CS ms, OVMap m =>
            if existsb (fun x => bytes_eqb (o_id x) (o_id m)) ms then None
            else Some ((k', CS (ms ++ [m])) :: t)
        | _, _ => None
        end
      else match add_other key val t with Some t' => Some ((k', c) :: t') | None => None end
  end.

Definition add_map (m : hmap) (l : list hmap) : option (list hmap) :=
  if existsb (fun x => bytes_eqb (m_id x) (m_id m)) l then None else Some (l ++ [m]).

(* parse_header (the #CHROM line) *)
Definition p_columns (line : list N) : option (list (list N)) :=
  let ps := split_all 9 line in
  if forallb (fun i => bytes_eqb (nth i ps []) (nth i columns8 [])) (seq 0 8) && (Nat.leb 8 (length ps)) then
    match skipn 8 ps with
    | [] => Some []
    | f :: names => if bytes_eqb f k_FORMAT then (if has_dup names then None else Some names) else None
    end
  else None.

(* one line after the first, before the #CHROM line *)
Definition p_line (h : vheader) (line : list N) : option vheader :=
  match p_record line with
  | None => None
  | Some (key, v) =>
      let upd i fl fo al co ot :=
        {| hh_ff := hh_ff h; hh_infos := i; hh_filters := fl; hh_formats := fo; hh_alts := al;
           hh_contigs := co; hh_others := ot; hh_samples := hh_samples h |} in
      if bytes_eqb key k_fileformat then None
      else if bytes_eqb key k_INFO then
        match p_map KInfo v with
        | Some m => match add_map m (hh_infos h) with
                    | Some l => Some (upd l (hh_filters h) (hh_formats h) (hh_alts h) (hh_contigs h) (hh_others h))
                    | None => None end
        | None => None end
      else if bytes_eqb key k_FILTER then
        match p_map KFilter v with
        | Some m => match add_map m (hh_filters h) with
                    | Some l => Some (upd (hh_infos h) l (hh_formats h) (hh_alts h) (hh_contigs h) (hh_others h))
                    | None => None end
        | None => None end
      else if bytes_eqb key k_FORMAT then
        match p_map KFormat v with
        | Some m => match add_map m (hh_formats h) with
                    | Some l => Some (upd (hh_infos h) (hh_filters h) l (hh_alts h) (hh_contigs h) (hh_others h))
                    | None => None end
        | None => None end
      else if bytes_eqb key k_ALT then
        match p_map KAlt v with
        | Some m => match add_map m (hh_alts h) with
                    | Some l => Some (upd (hh_infos h) (hh_filters h) (hh_formats h) l (hh_contigs h) (hh_others h))
                    | None => None end
        | None => None end
      else if bytes_eqb key k_contig then
        match p_map KContig v with
        | Some m => match add_map m (hh_contigs h) with
                    | Some l => Some (upd (hh_infos h) (hh_filters h) (hh_formats h) (hh_alts h) l (hh_others h))
                    | None => None end
        | None => None end
      else
        match p_other_value (hh_ff h) key v with
        | Some val =>
            match add_other key val (hh_others h) with
            | Some ot => Some (upd (hh_infos h) (hh_filters h) (hh_formats h) (hh_alts h) (hh_contigs h) ot)
            | None => None
            end
        | None => None
        end
  end.

(* the lines after the first: records until the #CHROM line, which must be the last *)
Fixpoint p_lines (h : vheader) (lines : list (list N)) : option vheader :=
  match lines with
  | [] => None                                            (* MissingHeader *)
  | l :: rest =>
      match strip_prefix c_CHROM l with
      | Some _ =>
          match p_columns l, rest with
          | Some names, [] =>
              Some {| hh_ff := hh_ff h; hh_infos := hh_infos h; hh_filters := hh_filters h;
                      hh_formats := hh_formats h; hh_alts := hh_alts h; hh_contigs := hh_contigs h;
                      hh_others := hh_others h; hh_samples := names |}
          | _, _ => None                                  (* InvalidHeader / ExpectedEof *)
          end
      | None => match p_line h l with Some h' => p_lines h' rest | None => None end
      end
  end.

Definition parse_header (lines : list (list N)) : option vheader :=
  match lines with
  | [] => None
  | l :: rest =>
      match p_record l with
      | Some (key, v) =>
          if bytes_eqb key k_fileformat then
            match p_fileformat_value v with
            | Some ff => p_lines {| hh_ff := ff; hh_infos := []; hh_filters := []; hh_formats := [];
                                    hh_alts := []; hh_contigs := []; hh_others := []; hh_samples := [] |} rest
            | None => None
            end
          else None
      | None => None
      end
  end.

(* io/reader/header.rs: the header reader hands the parser the lines up to the first one that
   does not start with '#' *)
Fixpoint header_prefix (lines : list (list N)) : list (list N) :=
  match lines with
  | (35 :: t) :: rest => (35 :: t) :: header_prefix rest
  | _ => []
  end.

Definition read_header (lines : list (list N)) : option vheader := parse_header (header_prefix lines).
