(* C09 -- the file theorems with the framing premise reduced to a condition on the header VALUE
   (NV.Vcf.HdrFrameProofs.hdr_vals_framed: no LF in any byte string the writer copies into a line,
   no CR at the end of an unstructured value and of the last sample name). *)
From Coq Require Import List NArith Bool.
From NV Require Import Text.TextBase Vcf.Values Vcf.Line Vcf.LineProofs Vcf.Header Vcf.HeaderProofs
  Vcf.HdrFrameProofs Vcf.File Vcf.FileProofs Vcf.FileStop Vcf.FileStopProofs.
Import ListNotations.

(* header_framed (stated on the written lines) IS the value condition *)
Lemma header_framed_of_vals : forall hd, hdr_vals_framed hd -> header_framed hd.
Proof. intros hd H ls Hw. exact (header_framed_of_values hd ls H Hw). Qed.

Lemma header_framed_iff_vals : forall hd ls, write_header hd = Some ls ->
  (header_framed hd <-> hdr_vals_framed hd).
Proof.
  intros hd ls Hw. split.
  - intro H. exact (header_values_of_framed hd ls Hw (H ls Hw)).
  - apply header_framed_of_vals.
Qed.

Section F.
Variable fmt_float : N -> list N.
Variable prs_float : list N -> option N.
Variable FOK : N -> Prop.
Hypothesis float_rt : forall b, FOK b -> prs_float (fmt_float b) = Some b.
Hypothesis float_chars : forall b x, FOK b -> In x (fmt_float b) ->
  x <> 44%N /\ x <> 9%N /\ x <> 10%N /\ x <> 59%N /\ x <> 58%N.
Hypothesis float_not_dot : forall b, FOK b -> fmt_float b <> dot.
Hypothesis float_nonempty : forall b, FOK b -> fmt_float b <> [].
Hypothesis float_cr : forall b x, FOK b -> In x (fmt_float b) -> x <> 13%N.

(* the reader of /repo today (every '#' line is a header line) *)
Theorem file_roundtrip_vals : forall valid hd rs text,
  header_ok hd -> hdr_defs_ok hd = true -> hdr_vals_framed hd ->
  Forall (rec_ok fmt_float FOK (hctx_of_header hd)) rs -> first_chrom_ok rs ->
  (forall s, (forall b, In b s -> In b text) -> valid s = true) ->
  write_file fmt_float hd rs = Some text ->
  read_file_eager prs_float valid text =
    Some (hd, (map (canon (hctx_of_header hd)) rs, true)) /\
  read_file_lazy prs_float valid text =
    Some (hd, (map (fun r => Some (canon (hctx_of_header hd) r)) rs, true)).
Proof.
  intros valid hd rs text Hh Hd Hfr. 
  exact (file_roundtrip fmt_float prs_float FOK float_rt float_chars float_not_dot float_nonempty float_cr
           valid hd rs text Hh Hd (header_framed_of_vals hd Hfr)).
Qed.

(* the reader that stops after the #CHROM line (fix 08): no condition on the first CHROM *)
Theorem file_roundtrip_stop_vals : forall valid hd rs text,
  header_ok hd -> hdr_defs_ok hd = true -> hdr_vals_framed hd ->
  Forall (rec_ok fmt_float FOK (hctx_of_header hd)) rs ->
  (forall s, (forall b, In b s -> In b text) -> valid s = true) ->
  write_file fmt_float hd rs = Some text ->
  read_file_eager_sw prs_float true valid text =
    Some (hd, (map (canon (hctx_of_header hd)) rs, true)) /\
  read_file_lazy_sw prs_float true valid text =
    Some (hd, (map (fun r => Some (canon (hctx_of_header hd) r)) rs, true)).
Proof.
  intros valid hd rs text Hh Hd Hfr.
  exact (file_roundtrip_stop fmt_float prs_float FOK float_rt float_chars float_not_dot float_nonempty float_cr
           valid hd rs text Hh Hd (header_framed_of_vals hd Hfr)).
Qed.

(* the readers of the crate as the switch stands (on, since ae9f807) *)
Theorem file_roundtrip_cur_vals : forall valid hd rs text,
  header_ok hd -> hdr_defs_ok hd = true -> hdr_vals_framed hd ->
  Forall (rec_ok fmt_float FOK (hctx_of_header hd)) rs ->
  (forall s, (forall b, In b s -> In b text) -> valid s = true) ->
  write_file fmt_float hd rs = Some text ->
  read_file_eager_cur prs_float valid text =
    Some (hd, (map (canon (hctx_of_header hd)) rs, true)) /\
  read_file_lazy_cur prs_float valid text =
    Some (hd, (map (fun r => Some (canon (hctx_of_header hd) r)) rs, true)).
Proof.
  intros valid hd rs text Hh Hd Hfr Hrs Hval Hw.
  destruct (read_file_cur_is_stop prs_float valid text) as [E1 E2]. rewrite E1, E2.
  exact (file_roundtrip_stop_vals valid hd rs text Hh Hd Hfr Hrs Hval Hw).
Qed.

End F.

(* ---------------------------------------------------------------------------------------- *)
(* the crate's own UTF-8 check (core::str::from_utf8 = NV.Fasta.Fastq.utf8_valid) instead of the
   parameter [valid], for files made of ASCII bytes *)

Lemma utf8_valid_of_ascii : forall s, (forall b, In b s -> (b < 128)%N) -> NV.Fasta.Fastq.utf8_valid s = true.
Proof.
  induction s as [|b t IH]; intros H; [reflexivity|].
  cbn [NV.Fasta.Fastq.utf8_valid].
  assert (Hb : (b <? 128)%N = true) by (apply N.ltb_lt; apply H; now left).
  rewrite Hb. apply IH. intros x Hx. apply H. now right.
Qed.

Section FS.
Variable fmt_float : N -> list N.
Variable prs_float : list N -> option N.
Variable FOK : N -> Prop.
Hypothesis float_rt : forall b, FOK b -> prs_float (fmt_float b) = Some b.
Hypothesis float_chars : forall b x, FOK b -> In x (fmt_float b) ->
  x <> 44%N /\ x <> 9%N /\ x <> 10%N /\ x <> 59%N /\ x <> 58%N.
Hypothesis float_not_dot : forall b, FOK b -> fmt_float b <> dot.
Hypothesis float_nonempty : forall b, FOK b -> fmt_float b <> [].
Hypothesis float_cr : forall b x, FOK b -> In x (fmt_float b) -> x <> 13%N.

Theorem file_roundtrip_ascii_std : forall hd rs text,
  header_ok hd -> hdr_defs_ok hd = true -> hdr_vals_framed hd ->
  Forall (rec_ok fmt_float FOK (hctx_of_header hd)) rs ->
  write_file fmt_float hd rs = Some text ->
  (forall b, In b text -> (b < 128)%N) ->
  read_file_eager_cur_std prs_float text =
    Some (hd, (map (canon (hctx_of_header hd)) rs, true)) /\
  read_file_lazy_cur_std prs_float text =
    Some (hd, (map (fun r => Some (canon (hctx_of_header hd) r)) rs, true)).
Proof.
  intros hd rs text Hh Hd Hfr Hrs Hw Hascii.
  unfold read_file_eager_cur_std, read_file_lazy_cur_std.
  apply (file_roundtrip_cur_vals fmt_float prs_float FOK float_rt float_chars float_not_dot float_nonempty float_cr
           NV.Fasta.Fastq.utf8_valid hd rs text Hh Hd Hfr Hrs); [|exact Hw].
  intros s Hs. apply utf8_valid_of_ascii. intros b Hb. apply Hascii, Hs, Hb.
Qed.

End FS.
