(* C09 -- the whole FILE round trip with the header reader that stops after the #CHROM line
   (NV.Vcf.FileStop, switch = true: /repo after fix 08): the premise first_chrom_ok of
   NV.Vcf.FileProofs.file_roundtrip is gone; with the switch = false the model is the old one. *)
From Coq Require Import List NArith ZArith Arith Bool Lia.
From NV Require Import Text.TextBase Text.TextBaseProofs Vcf.Values Vcf.Span Vcf.Line Vcf.LineProofs
  Vcf.FrameProofs Vcf.Header Vcf.HeaderProofs Vcf.LazyRec Vcf.LazyRecProofs Vcf.LazyFileProofs Vcf.File
  Vcf.FileProofs Vcf.FileStop.
From NV Require Io.BufReader Io.HeaderRead.
Import ListNotations.
Open Scope nat_scope.

Module BR := NV.Io.BufReader.
Module HR := NV.Io.HeaderRead.

(* ---------------------------------------------------------------------------------------- *)
(* the one fact about the header WRITER that the stop needs (kept apart: to be re-proved when the
   header types change): the first line starts with '#', the last line starts with "#CHROM", every
   line between them starts with "##" *)
Lemma write_header_chrom_last : forall h ls, write_header h = Some ls ->
  exists t0 mid c, ls = (35%N :: t0) :: mid ++ [c] /\
    Forall (fun l => exists t, l = 35%N :: 35%N :: t) mid /\ (exists t, c = c_CHROM ++ t).
Proof.
  intros h ls Hw. unfold write_header in Hw.
  destruct (sequence (map (w_other_group (hh_ff h)) (hh_others h))) as [groups|] eqn:Eg; [|discriminate].
  inversion Hw as [Hls]. clear Hw Hls.
  assert (Hm : forall k ms, Forall (fun l => exists t, l = 35%N :: 35%N :: t) (map (w_map_line k) ms)).
  { intros k ms. apply Forall_forall. intros l Hl. apply in_map_iff in Hl. destruct Hl as (m & <- & _).
    unfold w_map_line, w_line. eexists. reflexivity. }
  unfold w_fileformat at 1. unfold w_line at 1.
  eexists. exists (map (w_map_line KInfo) (hh_infos h) ++ map (w_map_line KFilter) (hh_filters h)
            ++ map (w_map_line KFormat) (hh_formats h) ++ map (w_map_line KAlt) (hh_alts h)
            ++ map (w_map_line KContig) (hh_contigs h) ++ concat groups).
  exists (w_columns (hh_samples h)). split; [|split].
  - rewrite <- !app_assoc. reflexivity.
  - apply Forall_app. split; [apply Hm|]. apply Forall_app. split; [apply Hm|].
    apply Forall_app. split; [apply Hm|]. apply Forall_app. split; [apply Hm|].
    apply Forall_app. split; [apply Hm|].
    apply Forall_forall. intros l Hl. apply in_concat in Hl. destruct Hl as (g & Hg & Hl).
    destruct (sequence_map_in _ _ _ _ _ _ Eg Hg) as (og & _ & Eog).
    unfold w_other_group in Eog. destruct (snd og) as [vs|ms].
    + destruct (sequence_map_in _ _ _ _ _ _ Eog Hl) as (v & _ & Ev).
      destruct (w_other_value (hh_ff h) v); [|discriminate]. inversion Ev. unfold w_line. eexists. reflexivity.
    + inversion Eog; subst g. apply in_map_iff in Hl. destruct Hl as (m & <- & _).
      unfold w_omap_line, w_line. eexists. reflexivity.
  - unfold w_columns, columns8. cbn [app]. rewrite join_cons2. eexists. reflexivity.
Qed.

(* ---------------------------------------------------------------------------------------- *)
(* switch = false IS the old model *)

Lemma hdr_stop_false : forall k first d, hdr_stop false k first d = HR.hdr_closed k 35%N d.
Proof.
  induction k as [|k IH]; intros first d; [reflexivity|].
  cbn [hdr_stop HR.hdr_closed andb]. destruct d as [|x t]; [reflexivity|].
  destruct (x =? 35)%N; [|reflexivity]. rewrite IH. reflexivity.
Qed.

Lemma hdr_closed_sw_false : forall k d, hdr_closed_sw false k d = HR.hdr_closed k 35%N d.
Proof. intros k d. unfold hdr_closed_sw. apply hdr_stop_false. Qed.

Lemma read_header_text_sw_false : forall text, read_header_text_sw false text = read_header_text text.
Proof. intros text. unfold read_header_text_sw, read_header_text. rewrite hdr_closed_sw_false. reflexivity. Qed.

Lemma read_file_eager_sw_false : forall prs valid text,
  read_file_eager_sw prs false valid text = read_file_eager prs valid text.
Proof. intros. unfold read_file_eager_sw, read_file_eager. rewrite read_header_text_sw_false. reflexivity. Qed.

Lemma read_file_lazy_sw_false : forall prs valid text,
  read_file_lazy_sw prs false valid text = read_file_lazy prs valid text.
Proof. intros. unfold read_file_lazy_sw, read_file_lazy. rewrite read_header_text_sw_false. reflexivity. Qed.

Lemma header_prefix_sw_false : forall lines first, header_prefix_sw false first lines = header_prefix lines.
Proof.
  induction lines as [|l rest IH]; intros first; [reflexivity|].
  destruct l as [|b t]; [reflexivity|].
  cbn [header_prefix_sw header_prefix andb].
  destruct b as [|p]; [reflexivity|].
  do 6 (destruct p as [p|p|]; try reflexivity). now rewrite IH.
Qed.

Lemma read_header_chk_sw_false : forall lines, read_header_chk_sw false lines = read_header_chk lines.
Proof. intros. unfold read_header_chk_sw, read_header_chk. now rewrite header_prefix_sw_false. Qed.

(* as the switch stands today (true since ae9f807): the readers of the crate are the stopping ones *)
Lemma read_file_cur_is_stop : forall prs valid text,
  read_file_eager_cur prs valid text = read_file_eager_sw prs true valid text /\
  read_file_lazy_cur prs valid text = read_file_lazy_sw prs true valid text.
Proof. intros. split; reflexivity. Qed.

(* ---------------------------------------------------------------------------------------- *)
(* the stopping reader on written header lines *)

(* one line that starts with '#' and holds no LF *)
Lemma hdr_stop_step : forall sw k first t x, ~ In 10%N (35%N :: t) ->
  hdr_stop sw (S k) first ((35%N :: t) ++ 10%N :: x) =
  if sw && negb first && is_chrom_line ((35%N :: t) ++ [10%N]) then ([(35%N :: t) ++ [10%N]], x)
  else let '(ls, r) := hdr_stop sw k false x in (((35%N :: t) ++ [10%N]) :: ls, r).
Proof.
  intros sw k first t x H10.
  change ((35%N :: t) ++ 10%N :: x) with (35%N :: (t ++ 10%N :: x)).
  cbn [hdr_stop]. change (35 =? 35)%N with true. cbv iota.
  change (35%N :: t ++ 10%N :: x) with ((35%N :: t) ++ 10%N :: x).
  rewrite (take_line_app (35%N :: t) x H10), skipn_line. reflexivity.
Qed.

Lemma is_chrom_line_written : forall l, ends_cr l = false ->
  is_chrom_line (l ++ [10%N]) = match strip_prefix c_CHROM l with Some _ => true | None => false end.
Proof. intros l H. unfold is_chrom_line. rewrite (strip_eol_line l H). reflexivity. Qed.

Lemma hdr_stop_mid : forall mid c rest k,
  Forall (fun l => (exists t, l = 35%N :: 35%N :: t) /\ ~ In 10%N l /\ ends_cr l = false) mid ->
  (exists t, c = c_CHROM ++ t) -> ~ In 10%N c -> ends_cr c = false ->
  length (with_lf (mid ++ [c]) ++ rest) < k ->
  hdr_stop true k false (with_lf (mid ++ [c]) ++ rest) = (map (fun l => l ++ [10%N]) (mid ++ [c]), rest).
Proof.
  induction mid as [|l mid IH]; intros c rest k Hmid (tc & Ec) Hc10 Hccr Hk.
  - destruct k as [|k]; [lia|]. cbn [app]. rewrite with_lf_cons. unfold with_lf at 1. cbn [map concat app].
    rewrite <- app_assoc. cbn [app].
    assert (Eis : is_chrom_line (c ++ [10%N]) = true).
    { rewrite (is_chrom_line_written c Hccr), Ec, strip_prefix_app. reflexivity. }
    assert (Ec' : c = 35%N :: (67 :: 72 :: 82 :: 79 :: 77 :: tc)%N) by (rewrite Ec; reflexivity).
    rewrite Ec' in Hc10, Eis |- *.
    rewrite (hdr_stop_step true k false _ rest Hc10), Eis. reflexivity.
  - apply Forall_cons_iff in Hmid. destruct Hmid as (((t & El) & H10 & Hcr) & Hmid'). subst l.
    destruct k as [|k]; [lia|].
    cbn [app]. rewrite with_lf_cons, <- app_assoc. cbn [app].
    assert (Hlen : length (with_lf (mid ++ [c]) ++ rest) < k).
    { cbn [app] in Hk. rewrite with_lf_cons in Hk. rewrite !app_length in Hk. cbn [length] in Hk.
      rewrite app_length. lia. }
    assert (Eis : is_chrom_line ((35%N :: 35%N :: t) ++ [10%N]) = false).
    { rewrite (is_chrom_line_written _ Hcr). reflexivity. }
    change (35%N :: 35%N :: t ++ 10%N :: with_lf (mid ++ [c]) ++ rest)
      with ((35%N :: 35%N :: t) ++ 10%N :: with_lf (mid ++ [c]) ++ rest).
    rewrite (hdr_stop_step true k false (35%N :: t) _ H10), Eis.
    cbn [andb negb]. rewrite (IH c rest k Hmid' (ex_intro _ tc Ec) Hc10 Hccr Hlen). reflexivity.
Qed.

(* the written header followed by ANY text: the header lines are read, the text stays unread *)
Lemma hdr_closed_sw_written : forall t0 mid c rest k,
  ~ In 10%N (35%N :: t0) ->
  Forall (fun l => (exists t, l = 35%N :: 35%N :: t) /\ ~ In 10%N l /\ ends_cr l = false) mid ->
  (exists t, c = c_CHROM ++ t) -> ~ In 10%N c -> ends_cr c = false ->
  length (with_lf ((35%N :: t0) :: mid ++ [c]) ++ rest) < k ->
  hdr_closed_sw true k (with_lf ((35%N :: t0) :: mid ++ [c]) ++ rest) =
    (map (fun l => l ++ [10%N]) ((35%N :: t0) :: mid ++ [c]), rest).
Proof.
  intros t0 mid c rest k H0 Hmid Hc Hc10 Hccr Hk. unfold hdr_closed_sw.
  destruct k as [|k]; [lia|].
  rewrite with_lf_cons in Hk |- *. rewrite <- app_assoc. cbn [app].
  change (35%N :: t0 ++ 10%N :: with_lf (mid ++ [c]) ++ rest)
    with ((35%N :: t0) ++ 10%N :: with_lf (mid ++ [c]) ++ rest).
  rewrite (hdr_stop_step true k true t0 _ H0). cbn [andb negb].
  rewrite (hdr_stop_mid mid c rest k Hmid Hc Hc10 Hccr).
  - reflexivity.
  - rewrite !app_length in Hk. cbn [length] in Hk. rewrite app_length. lia.
Qed.

Section F.
Variable fmt_float : N -> list N.
Variable prs_float : list N -> option N.
Variable FOK : N -> Prop.
Hypothesis float_rt : forall b, FOK b -> prs_float (fmt_float b) = Some b.
Hypothesis float_chars : forall b x, FOK b -> In x (fmt_float b) ->
  (x <> 44 /\ x <> 9 /\ x <> 10 /\ x <> 59 /\ x <> 58)%N.
Hypothesis float_not_dot : forall b, FOK b -> fmt_float b <> dot.
Hypothesis float_nonempty : forall b, FOK b -> fmt_float b <> [].
Hypothesis float_cr : forall b x, FOK b -> In x (fmt_float b) -> x <> 13%N.

(* THE FILE THEOREM after fix 08: no condition on the first record's CHROM *)
Theorem file_roundtrip_stop : forall valid hd rs text,
  header_ok hd -> hdr_defs_ok hd = true -> header_framed hd ->
  Forall (rec_ok fmt_float FOK (hctx_of_header hd)) rs ->
  (forall s, (forall b, In b s -> In b text) -> valid s = true) ->
  write_file fmt_float hd rs = Some text ->
  read_file_eager_sw prs_float true valid text =
    Some (hd, (map (canon (hctx_of_header hd)) rs, true)) /\
  read_file_lazy_sw prs_float true valid text =
    Some (hd, (map (fun r => Some (canon (hctx_of_header hd) r)) rs, true)).
Proof.
  intros valid hd rs text Hh Hd Hfr Hrs Hval Hw.
  unfold write_file in Hw.
  destruct (write_header hd) as [ls|] eqn:Eh; [|discriminate].
  destruct (sequence (map (write_line fmt_float (hctx_of_header hd)) rs)) as [ts|] eqn:Es; [|discriminate].
  inversion Hw; subst text. clear Hw.
  set (h := hctx_of_header hd) in *.
  assert (H2 : Forall2 (fun r t => rec_ok fmt_float FOK h r /\ write_line fmt_float h r = Some t) rs ts).
  { pose proof (sequence_map_Forall2 _ _ _ _ _ Es) as F. clear Es Hval.
    induction F as [|r t rs ts Hrt _ IH]; [constructor|].
    inversion Hrs; subst. constructor; [split; assumption|apply IH; assumption]. }
  (* the header *)
  assert (Hhdr : read_header_text_sw true (with_lf ls ++ with_lf ts) = (Some hd, with_lf ts)).
  { unfold read_header_text_sw.
    pose proof (Hfr ls Eh) as Hf.
    destruct (write_header_chrom_last hd ls Eh) as (t0 & mid & c & Els & Hmid & Hc).
    assert (Hf0 : ~ In 10%N (35%N :: t0) /\
                  Forall (fun l => ~ In 10%N l /\ ends_cr l = false) mid /\
                  ~ In 10%N c /\ ends_cr c = false).
    { pose proof Hf as Hf1. rewrite Els in Hf1. apply Forall_cons_iff in Hf1. destruct Hf1 as ((A & _) & Hf').
      apply Forall_app in Hf'. destruct Hf' as [Hfm Hfc].
      apply Forall_cons_iff in Hfc. destruct Hfc as ((B & C) & _). repeat split; assumption. }
    destruct Hf0 as (H0 & Hfm & Hc10 & Hccr).
    assert (Hmid' : Forall (fun l => (exists t, l = 35%N :: 35%N :: t) /\ ~ In 10%N l /\ ends_cr l = false) mid).
    { clear - Hmid Hfm. induction Hmid as [|l mid Hl _ IH]; [constructor|].
      apply Forall_cons_iff in Hfm. destruct Hfm as ((A & B) & Hfm').
      constructor; [split; [exact Hl|split; assumption]|apply IH; exact Hfm']. }
    remember (S (length (with_lf ls ++ with_lf ts))) as k eqn:Ek.
    assert (Hk : length (with_lf ((35%N :: t0) :: mid ++ [c]) ++ with_lf ts) < k) by (rewrite <- Els; lia).
    rewrite Els.
    rewrite (hdr_closed_sw_written t0 mid c (with_lf ts) k H0 Hmid' Hc Hc10 Hccr Hk).
    rewrite <- Els. rewrite map_map.
    replace (map (fun x => BR.strip_eol (x ++ [10%N])) ls) with ls.
    + unfold parse_header_chk. rewrite (header_roundtrip hd ls Hh Eh), Hd. reflexivity.
    + clear - Hf. induction Hf as [|l ls (_ & Hcr) _ IH]; [reflexivity|].
      cbn [map]. rewrite (strip_eol_line l Hcr), <- IH. reflexivity. }
  assert (Hin : forall t b, In t ts -> In b t -> In b (with_lf ls ++ with_lf ts)).
  { intros t b Ht Hb. apply in_or_app. right. unfold with_lf. apply in_concat.
    exists (t ++ [10%N]). split; [apply in_map_iff; exists t; split; [reflexivity|exact Ht]|].
    apply in_or_app. now left. }
  assert (Hlf : In 10%N (with_lf ls ++ with_lf ts)).
  { apply in_or_app. left.
    destruct (write_header_chrom_last hd ls Eh) as (t0 & mid & c & Els & _). rewrite Els.
    rewrite with_lf_cons. apply in_or_app. right. now left. }
  split.
  - unfold read_file_eager_sw. rewrite Hhdr. fold h. unfold eager_records.
    rewrite (eager_file_written fmt_float prs_float FOK float_rt float_chars float_not_dot float_nonempty
               float_cr valid h rs ts H2); [reflexivity| |lia].
    intros t Ht. apply Hval. intros b Hb. apply in_app_or in Hb. destruct Hb as [Hb|[<-|[]]].
    + exact (Hin t b Ht Hb).
    + exact Hlf.
  - unfold read_file_lazy_sw. rewrite Hhdr. fold h.
    destruct (lazy_file_roundtrip fmt_float prs_float FOK float_rt float_chars float_not_dot float_nonempty
                float_cr valid h rs ts H2) as (l & El & Em).
    { intros s Hs. apply Hval. intros b Hb. destruct (Hs b Hb) as [->|(t & Ht & Hbt)].
      - exact Hlf.
      - exact (Hin t b Ht Hbt). }
    fold (with_lf ts) in El. rewrite El.
    rewrite (lazy_view_app_eof l (map (canon h) rs)).
    + rewrite map_map. reflexivity.
    + rewrite Em, map_map. reflexivity.
Qed.

End F.

(* ---------------------------------------------------------------------------------------- *)
(* witnesses *)
Open Scope N_scope.

(* the file of FileProofs.witness_first_chrom_hash (first record's CHROM = "#c"): the readers of
   /repo today fail on it, the stopping readers read it back *)
Lemma witness_first_chrom_hash_stop :
  let hd := x_hdr (4, 3)%N in let rs := [x_rec [35; 99]] in
  exists text, write_file w_fmt hd rs = Some text /\
    read_file_eager_sw w_prs false (fun _ => true) text = None /\
    read_file_lazy_sw w_prs false (fun _ => true) text = None /\
    read_file_eager_sw w_prs true (fun _ => true) text =
      Some (hd, (map (canon (hctx_of_header hd)) rs, true)) /\
    read_file_lazy_sw w_prs true (fun _ => true) text =
      Some (hd, (map (fun r => Some (canon (hctx_of_header hd) r)) rs, true)).
Proof.
  cbv zeta. eexists. split; [vm_compute; reflexivity|].
  split; [vm_compute; reflexivity|]. split; [vm_compute; reflexivity|].
  split; vm_compute; reflexivity.
Qed.

(* a header followed by a second line that starts with "#CHROM": the stopping reader leaves it
   unread (the old one hands it to the parser: ExpectedEof) *)
Lemma witness_stop_leaves_next_hash_line :
  let text := [35; 35; 10; 35; 67; 72; 82; 79; 77; 10; 35; 67; 72; 82; 79; 77; 10] in
  hdr_closed_sw true (S (length text)) text = ([[35; 35; 10]; [35; 67; 72; 82; 79; 77; 10]], [35; 67; 72; 82; 79; 77; 10]) /\
  hdr_closed_sw false (S (length text)) text =
    ([[35; 35; 10]; [35; 67; 72; 82; 79; 77; 10]; [35; 67; 72; 82; 79; 77; 10]], []) /\
  (* the first line is never a stop line *)
  hdr_closed_sw true 9 [35; 67; 72; 82; 79; 77; 10; 35; 10] = ([[35; 67; 72; 82; 79; 77; 10]; [35; 10]], []).
Proof. cbv zeta. split; [vm_compute; reflexivity|]. split; vm_compute; reflexivity. Qed.

Print Assumptions hdr_closed_sw_false.
Print Assumptions witness_first_chrom_hash_stop.
Print Assumptions file_roundtrip_stop.
