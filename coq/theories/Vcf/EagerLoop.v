(* C09 -- the eager FILE LOOP as a function of the text alone, every call kept.
   vcf::io::Reader::read_record_buf (io/reader.rs) called again and again with ONE RecordBuf:
   buf.clear(); read_line (BufRead::read_line: the bytes up to and including the LF -- or all
   that is left -- are CONSUMED whether or not they are UTF-8; not UTF-8 = Err(InvalidData) and
   nothing appended; then LF and one CR popped); parse_record_buf(buf, header, record).  An Err
   of one call does not end the reader: the next call goes on behind the consumed line (this is
   what `for result in reader.record_bufs(&header)` sees, one item per line).  NV.Vcf.File.eager_file
   is the same loop cut at the first Err.  Definitions only; the lemmas are in Vcf/EagerLoopProofs.v. *)
From Coq Require Import List NArith Bool.
From NV Require Import Text.TextBase Vcf.Values Vcf.Span Vcf.Line Vcf.File.
From NV Require Fasta.Fastq.
Import ListNotations.
Open Scope N_scope.

(* the lines of a text as read_line consumes them: each with its LF, the last one possibly without.
   Every line is non-empty: the fuel S (length text) is never the reason the list ends. *)
Fixpoint file_lines (fuel : nat) (text : list N) : list (list N) :=
  match fuel with
  | O => []
  | S k =>
      match text with
      | [] => []
      | _ => line_bytes text :: file_lines k (skipn (List.length (line_bytes text)) text)
      end
  end.

Definition lines_of (text : list N) : list (list N) := file_lines (S (List.length text)) text.

Section WithFloat.
Variable prs_float : list N -> option N.

(* one call on one consumed line, into a fresh RecordBuf *)
Definition eager_line (valid : list N -> bool) (h : hctx) (l : list N) : option vrec :=
  if valid l then read_eager prs_float h (frame l) else None.

(* the loop: one result per call until Ok(0); [prev] = what the reused RecordBuf holds (after an
   Err the model keeps the last record read: by LineProofs.reused_recordbuf_independent nothing
   of it is observable in a later result) *)
Fixpoint eager_calls (fuel : nat) (valid : list N -> bool) (h : hctx) (prev : vrec) (text : list N)
  : list (option vrec) :=
  match fuel with
  | O => []
  | S k =>
      match text with
      | [] => []
      | _ =>
          let rest := skipn (List.length (line_bytes text)) text in
          if valid (line_bytes text) then
            match read_eager_into prs_float prev h (frame text) with
            | Some r => Some r :: eager_calls k valid h r rest
            | None => None :: eager_calls k valid h prev rest
            end
          else None :: eager_calls k valid h prev rest
      end
  end.

Definition eager_call_list (valid : list N -> bool) (h : hctx) (text : list N) : list (option vrec) :=
  eager_calls (S (List.length text)) valid h rec0 text.

(* a caller that stops at the first Err: the records before it; true = ended with Ok(0) *)
Fixpoint until_err (l : list (option vrec)) : list vrec * bool :=
  match l with
  | [] => ([], true)
  | Some r :: t => let '(rs, ok) := until_err t in (r :: rs, ok)
  | None :: _ => ([], false)
  end.

End WithFloat.

Definition eager_call_list_std (prs_float : list N -> option N) (h : hctx) (text : list N) :=
  eager_call_list prs_float NV.Fasta.Fastq.utf8_valid h text.
