(* C09 -- LINE FRAMING of written record lines: a line that write_line produces for a rec_ok
   record contains neither LF nor CR, so the line terminator the writer appends (LF; also CR LF)
   is found and removed by both readers exactly where the writer put it, and the line theorems
   (NV.Vcf.LineProofs) hold for the text WITH its terminator.
   Needs one more premise on the float oracle than the line theorems: the text of a float
   contains no CR (10 is already excluded there). *)
From Coq Require Import List NArith ZArith Bool Lia ZifyBool ZifyN.
From NV Require Import Base.Percent Base.PercentProofs Text.TextBase Text.TextBaseProofs
  Vcf.Values Vcf.ValuesProofs Vcf.GenotypeProofs Vcf.SampleProofs Vcf.Span Vcf.Line Vcf.LineProofs.
Import ListNotations.
Open Scope N_scope.

Definition eolb (b : N) : Prop := b = 10 \/ b = 13.

Lemma sequence_map_in : forall A B (f : A -> option B) l ps p,
  sequence (map f l) = Some ps -> In p ps -> exists x, In x l /\ f x = Some p.
Proof.
  intros A B f. induction l as [|x l IH]; intros ps p Hs Hp; cbn [map sequence] in Hs.
  - inversion Hs; subst ps. destruct Hp.
  - destruct (f x) as [y|] eqn:Ey; [|discriminate].
    destruct (sequence (map f l)) as [r|] eqn:Er; [|discriminate]. inversion Hs; subst ps.
    destruct Hp as [<-|Hp].
    + exists x. split; [now left|exact Ey].
    + destruct (IH r p eq_refl Hp) as (x' & Hx & Hf). exists x'. split; [now right|exact Hf].
Qed.

Section F.
Variable fmt_float : N -> list N.
Variable FOK : N -> Prop.
Hypothesis float_eol : forall b x, FOK b -> In x (fmt_float b) -> x <> 10 /\ x <> 13.

(* no LF and no CR inside a written value (INFO or FORMAT) *)
Lemma value_avoids_eol : forall c v44 v t b,
  val_ok FOK v -> write_value fmt_float c v44 v = Some t -> eolb b -> ~ In b t.
Proof.
  intros c v44 v t b Hok Hw Hd Hin.
  assert (Hb : b <> 44 /\ b <> 46 /\ b <> 45 /\ (b < 48 \/ 57 < b) /\ b <> 37 /\ is_hex_upper b = false /\ str_set c b = true /\ chr_set c b = true).
  { destruct c; destruct Hd as [E|E]; subst b; repeat split; try discriminate; try reflexivity; try (left; reflexivity). }
  destruct Hb as (B44 & B46 & B45 & Bdig & B37 & Bhex & Bstr & Bchr).
  assert (Hint : forall z, ~ In b (fmt_int z)) by (intro z; now apply fmt_int_avoids).
  assert (Hflt : forall x, FOK x -> ~ In b (fmt_float x)).
  { intros x Hx Hi. destruct (float_eol x b Hx Hi) as (F1 & F2). destruct Hd; congruence. }
  destruct v as [z|x| |ch|s|l|l|l|l|g]; cbn [val_ok write_value] in *; try contradiction.
  - rewrite write_int_ok in Hw by exact Hok. inversion Hw; subst t. now apply (Hint z).
  - inversion Hw; subst t. now apply (Hflt x).
  - inversion Hw; subst t. destruct Hin.
  - inversion Hw; subst t. revert Hin. now apply write_char_avoids.
  - inversion Hw; subst t. revert Hin. now apply write_string_avoids.
  - destruct Hok as [_ Hz]. destruct (items_bytes _ _ _ _ _ Hw Hin) as [E|[E|(a & t' & H1 & H2 & H3)]]; try congruence.
    rewrite write_int_ok in H2 by (now apply Hz). inversion H2; subst t'. exact (Hint a H3).
  - destruct Hok as [_ Hz]. destruct (items_bytes _ _ _ _ _ Hw Hin) as [E|[E|(a & t' & H1 & H2 & H3)]]; try congruence.
    inversion H2; subst t'. exact (Hflt a (Hz a H1) H3).
  - destruct Hok as [_ Hz]. destruct (items_bytes _ _ _ _ _ Hw Hin) as [E|[E|(a & t' & H1 & H2 & H3)]]; try congruence.
    inversion H2; subst t'. pose proof (Hz a H1) as Hc. revert H3. now apply write_char_avoids.
  - destruct Hok as [_ Hz]. destruct (items_bytes _ _ _ _ _ Hw Hin) as [E|[E|(a & t' & H1 & H2 & H3)]]; try congruence.
    inversion H2; subst t'. destruct (Hz a H1) as [Hc _]. revert H3. now apply write_string_avoids.
Qed.

Lemma keych_no_eol : forall k b, (forall x, In x k -> keych x = true) -> eolb b -> ~ In b k.
Proof. intros k b H Hb Hi. pose proof (keych_avoids b (H b Hi)). unfold eolb in Hb. lia. Qed.

Lemma dot_no_eol : forall b, eolb b -> ~ In b dot.
Proof. intros b Hb [E|[]]. unfold eolb in Hb. lia. Qed.

Lemma info_col_no_eol : forall h l t b,
  Forall (info_ok FOK h) l -> w_info fmt_float l = Some t -> eolb b -> ~ In b t.
Proof.
  intros h l t b Hok Hw Hb Hi. unfold w_info in Hw. destruct l as [|kv l].
  { inversion Hw; subst t. exact (dot_no_eol b Hb Hi). }
  destruct (sequence (map (w_info_field fmt_float) (kv :: l))) as [ps|] eqn:Es; [|discriminate].
  inversion Hw; subst t. clear Hw.
  destruct (In_join _ _ _ Hi) as [E|(p & Hp & Hc)]; [unfold eolb in Hb; lia|].
  destruct (sequence_map_in _ _ _ _ _ _ Es Hp) as ([k ov] & Hx & Hf).
  rewrite Forall_forall in Hok. specialize (Hok _ Hx).
  unfold w_info_field in Hf. cbn [fst snd] in Hf.
  destruct (info_key_valid k) eqn:Ek; [|discriminate].
  destruct (info_key_valid_spec k Ek) as (c0 & t0 & _ & _ & Hch).
  pose proof (keych_no_eol k b Hch Hb) as Hk.
  destruct (info_field_shape fmt_float k ov p Hf) as [[_ ->]|[[_ ->]|(v & t' & -> & _ & Hwv & ->)]].
  - contradiction.
  - apply in_app_or in Hc. destruct Hc as [Hc|[Hc|Hc]]; [contradiction|unfold eolb in Hb; lia|exact (dot_no_eol b Hb Hc)].
  - apply in_app_or in Hc. destruct Hc as [Hc|[Hc|Hc]]; [contradiction|unfold eolb in Hb; lia|].
    exact (value_avoids_eol CInfo false v t' b (info_ok_val FOK h k v Hok) Hwv Hb Hc).
Qed.

Lemma fits_in : forall v44 vs ds o, fits FOK v44 ds vs -> In o vs ->
  exists d, match o with Some v => sval_ok FOK v44 d v | None => True end.
Proof.
  intros v44. induction vs as [|x vs IH]; intros ds o Hf Hi; [destruct Hi|].
  destruct ds as [|d ds]; [contradiction|]. destruct Hf as [Hx Hf].
  destruct Hi as [<-|Hi]; [exists d; exact Hx|exact (IH ds o Hf Hi)].
Qed.

Lemma sample_col_no_eol : forall v44 ds vs s b,
  fits FOK v44 ds vs -> write_sample fmt_float v44 vs = Some s -> eolb b -> ~ In b s.
Proof.
  intros v44 ds vs s b Hf Hw Hb Hi. unfold write_sample in Hw.
  change (fun o => match o with None => Some dot | Some v => write_value fmt_float CFormat v44 v end)
    with (one_text fmt_float v44) in Hw.
  destruct (sequence (map (one_text fmt_float v44) vs)) as [ps|] eqn:Es; [|discriminate].
  assert (Hps : forall p, In p ps -> ~ In b p).
  { intros p Hp Hc. destruct (sequence_map_in _ _ _ _ _ _ Es Hp) as (o & Ho & Ht).
    destruct (fits_in v44 vs ds o Hf Ho) as (d & Hd).
    destruct o as [v|]; cbn [one_text] in Ht.
    2:{ inversion Ht; subst p. exact (dot_no_eol b Hb Hc). }
    destruct d as [|num ty].
    - destruct v; cbn [sval_ok] in Hd; try contradiction. cbn [write_value] in Ht. inversion Ht; subst p.
      apply write_genotype_chars in Hc. unfold eolb in Hb. lia.
    - cbn [sval_ok] in Hd. destruct Hd as (Hv & _ & _).
      exact (value_avoids_eol CFormat v44 v p b Hv Ht Hb Hc). }
  destruct ps as [|p ps]; inversion Hw; subst s.
  - exact (dot_no_eol b Hb Hi).
  - change (In b (join 58 (p :: ps))) in Hi.
    destruct (In_join _ _ _ Hi) as [E|(q & Hq & Hc)]; [unfold eolb in Hb; lia|]. exact (Hps q Hq Hc).
Qed.

Lemma keys_col_no_eol : forall ks k b, w_keys ks = Some k -> eolb b -> ~ In b k.
Proof.
  intros ks k b Hw Hb Hi. unfold w_keys in Hw. destruct ks as [|k0 kt].
  { inversion Hw; subst k. exact (dot_no_eol b Hb Hi). }
  destruct (existsb (bytes_eqb key_gt) kt); [discriminate|].
  destruct (forallb key_valid (k0 :: kt)) eqn:F; [|discriminate]. inversion Hw; subst k.
  change (In b (join 58 (k0 :: kt))) in Hi.
  destruct (In_join _ _ _ Hi) as [E|(q & Hq & Hc)]; [unfold eolb in Hb; lia|].
  rewrite forallb_forall in F. destruct (key_valid_spec q (F q Hq)) as (c & t & _ & _ & Hch).
  exact (keych_no_eol q b Hch Hb Hc).
Qed.

Lemma ws_valid_no_eol : forall (P : N -> bool) s b,
  forallb (fun x => negb (is_ws x) && P x) s = true -> eolb b -> ~ In b s.
Proof.
  intros P s b H Hb. apply (forallb_not_in _ _ _ H). unfold is_ws, eolb in *. lia.
Qed.

(* THE FRAMING THEOREM: no LF and no CR anywhere in a written line *)
Theorem written_line_no_eol : forall h r t b,
  rec_ok fmt_float FOK h r -> write_line fmt_float h r = Some t -> eolb b -> ~ In b t.
Proof.
  intros h r t b Hok Hw Hb Hi.
  destruct Hok as (Hpos & _ & _ & _ & Hq & _ & (_ & Hn2) & Hsmp).
  unfold write_line in Hw.
  destruct (w_chrom (r_chrom r)) as [c|] eqn:Ec; [|discriminate].
  destruct (w_list 59 id_valid (r_ids r)) as [i|] eqn:Ei; [|discriminate].
  destruct (w_ref (r_ref r)) as [rf|] eqn:Er; [|discriminate].
  destruct (w_list 44 alt_valid (r_alts r)) as [a|] eqn:Ea; [|discriminate].
  destruct (w_list 59 id_valid (r_filters r)) as [f|] eqn:Ef; [|discriminate].
  destruct (w_info fmt_float (r_info r)) as [inf|] eqn:Einf; [|discriminate].
  destruct (w_sample_cols fmt_float h r) as [cols|] eqn:Ecols; [|discriminate].
  assert (Ht : join 9 (c :: fmt_dec (r_pos r) :: i :: rf :: a :: w_qual fmt_float (r_qual r) :: f :: inf :: cols) = t)
    by (injection Hw as X; exact X).
  clear Hw. rewrite <- Ht in Hi. clear Ht.
  assert (B33 : b < 33) by (unfold eolb in Hb; lia).
  destruct (In_join _ _ _ Hi) as [E|(p & Hp & Hc)]; [unfold eolb in Hb; lia|].
  assert (Hidv : forall s, id_valid s = true -> ~ In b s) by (intros s Hs; exact (ws_valid_no_eol _ s b Hs Hb)).
  assert (Haltv : forall s, alt_valid s = true -> ~ In b s) by (intros s Hs; exact (ws_valid_no_eol _ s b Hs Hb)).
  destruct Hp as [<-|[<-|[<-|[<-|[<-|[<-|[<-|[<-|Hp]]]]]]]].
  - destruct (w_chrom_avoids _ _ b Ec B33) as [_ X]. contradiction.
  - revert Hc. apply fmt_dec_avoids. lia.
  - revert Hc. eapply (w_list_avoids 59 id_valid _ _ b Ei Hidv); unfold eolb in Hb; lia.
  - destruct (w_ref_spec _ _ Er) as [_ Hrc]. specialize (Hrc b Hc). lia.
  - revert Hc. eapply (w_list_avoids 44 alt_valid _ _ b Ea Haltv); unfold eolb in Hb; lia.
  - destruct (r_qual r) as [x|]; cbn [w_qual] in Hc.
    + destruct (float_eol x b Hq Hc). unfold eolb in Hb. lia.
    + exact (dot_no_eol b Hb Hc).
  - revert Hc. eapply (w_list_avoids 59 id_valid _ _ b Ef Hidv); unfold eolb in Hb; lia.
  - exact (info_col_no_eol h _ _ b Hn2 Einf Hb Hc).
  - unfold w_sample_cols in Ecols. destruct (r_samples r) as [|vs rows] eqn:Erows.
    { inversion Ecols; subst cols. destruct Hp. }
    destruct Hsmp as (_ & _ & Hrows).
    destruct (w_keys (r_keys r)) as [k|] eqn:Ek; [|discriminate].
    destruct (sequence (map (fun vs0 => write_sample fmt_float (h_v44 h) (zip_take (r_keys r) vs0)) (vs :: rows))) as [cs|] eqn:Ecs; [|discriminate].
    inversion Ecols; subst cols. destruct Hp as [<-|Hp].
    + exact (keys_col_no_eol _ _ b Ek Hb Hc).
    + destruct (sequence_map_in _ _ _ _ _ _ Ecs Hp) as (row & Hrow & Hwr).
      rewrite Forall_forall in Hrows. destruct (Hrows row Hrow) as [Hf _].
      rewrite zip_take_id in Hwr.
      * exact (sample_col_no_eol _ _ _ _ b Hf Hwr Hb Hc).
      * pose proof (fits_length FOK _ _ _ Hf) as L. rewrite map_length in L. exact L.
Qed.

Lemma strip_cr_id : forall s, ~ In 13 s -> strip_cr s = s.
Proof. exact strip_cr_no13. Qed.

(* ... so the terminated text frames back to the line: LF and CR LF *)
Theorem written_line_frames : forall h r t rest,
  rec_ok fmt_float FOK h r -> write_line fmt_float h r = Some t ->
  frame (t ++ 10 :: rest) = t /\ frame (t ++ 13 :: 10 :: rest) = t.
Proof.
  intros h r t rest Hok Hw.
  assert (H10 : ~ In 10 t) by (apply (written_line_no_eol h r t 10 Hok Hw); now left).
  assert (H13 : ~ In 13 t) by (apply (written_line_no_eol h r t 13 Hok Hw); now right).
  unfold frame, first_line. split.
  - replace (mem 10 (t ++ 10 :: rest)) with true
      by (symmetry; apply mem_In; apply in_or_app; right; now left).
    rewrite take_until_app by exact H10. now apply strip_cr_no13.
  - replace (mem 10 (t ++ 13 :: 10 :: rest)) with true
      by (symmetry; apply mem_In; apply in_or_app; right; right; now left).
    change (t ++ 13 :: 10 :: rest) with (t ++ [13] ++ 10 :: rest). rewrite app_assoc.
    rewrite take_until_app.
    + rewrite strip_cr_app by discriminate. cbn. now rewrite app_nil_r.
    + intro X. apply in_app_or in X. destruct X as [X|[X|[]]]; [contradiction|discriminate].
Qed.

End F.
