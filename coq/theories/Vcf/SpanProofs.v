(* C09 -- the span-relevant fields (INFO END, INFO SVLEN, FORMAT LEN) written by the model
   writer are read back unchanged by the model of either reader; hence the lazy record, the
   eagerly parsed record and the written record report the same variant_end / variant_span. *)
From Coq Require Import List NArith ZArith Bool Lia ZifyBool ZifyN.
From NV Require Import Base.Percent Text.TextBase Text.TextBaseProofs Vcf.Values Vcf.ValuesProofs
  Vcf.Span Vcf.Record.
Import ListNotations.
Open Scope N_scope.

Definition end_ok (o : option (option value)) : Prop :=
  match o with
  | Some (Some v) => exists z, v = VInteger z /\ i32_ok z
  | _ => True
  end.

Definition svlen_ok (o : option (option value)) : Prop :=
  match o with
  | Some (Some v) => exists l, v = VIntArr l /\ arr_shape l /\ forall z, In (Some z) l -> i32_ok z
  | _ => True
  end.

Definition len_ok (v : option value) : Prop :=
  match v with Some x => exists z, x = VInteger z /\ i32_ok z | None => True end.

Definition span_ok (r : span_in) : Prop :=
  end_ok (si_end r) /\ svlen_ok (si_svlen r) /\
  match si_len r with Some l => Forall len_ok l | None => True end.

(* neither method panics, whatever the record; an end before the start is an error *)
Lemma max_lens_no_panic : forall l acc, max_lens l acc <> Panic.
Proof.
  induction l as [|[z|] l IH]; intro acc; cbn [max_lens]; [discriminate| |apply IH].
  destruct (z <? 0)%Z; [discriminate|apply IH].
Qed.

Lemma max_sample_lens_no_panic : forall l acc, max_sample_lens l acc <> Panic.
Proof.
  induction l as [|[v|] l IH]; intro acc; cbn [max_sample_lens]; [discriminate| |apply IH].
  destruct v; try discriminate. destruct (z <? 0)%Z; [discriminate|apply IH].
Qed.

Lemma variant_end_no_panic : forall v45 r, variant_end v45 r <> Panic.
Proof.
  intros v45 r. unfold variant_end, ref_len, end_from_len, info_max_svlen, samples_max_len, info_end.
  destruct v45.
  - destruct (si_reflen r =? 0); [discriminate|].
    destruct (si_svlen r) as [[v|]|].
    + destruct v; try discriminate.
      pose proof (max_lens_no_panic l None) as Hm. destruct (max_lens l None) as [sv|e|]; [|discriminate|contradiction].
      destruct (si_len r) as [ls|].
      * pose proof (max_sample_lens_no_panic ls None) as Hs.
        destruct (max_sample_lens ls None) as [sl|e|]; [|discriminate|contradiction].
        destruct (usize_max <? _); discriminate.
      * destruct (usize_max <? _); discriminate.
    + destruct (si_len r) as [ls|].
      * pose proof (max_sample_lens_no_panic ls None) as Hs.
        destruct (max_sample_lens ls None) as [sl|e|]; [|discriminate|contradiction].
        destruct (usize_max <? _); discriminate.
      * destruct (usize_max <? _); discriminate.
    + destruct (si_len r) as [ls|].
      * pose proof (max_sample_lens_no_panic ls None) as Hs.
        destruct (max_sample_lens ls None) as [sl|e|]; [|discriminate|contradiction].
        destruct (usize_max <? _); discriminate.
      * destruct (usize_max <? _); discriminate.
  - destruct (si_end r) as [[v|]|].
    + destruct v; try discriminate. destruct (1 <=? z)%Z; discriminate.
    + destruct (si_reflen r =? 0); [discriminate|]. destruct (usize_max <? _); discriminate.
    + destruct (si_reflen r =? 0); [discriminate|]. destruct (usize_max <? _); discriminate.
Qed.

Theorem variant_span_no_panic : forall v45 r,
  variant_end v45 r <> Panic /\ variant_span v45 r <> Panic /\
  (forall e, variant_end v45 r = Ok e -> e < start_of r -> variant_span v45 r = Err InvalidData).
Proof.
  intros v45 r. split; [apply variant_end_no_panic|]. unfold variant_span.
  pose proof (variant_end_no_panic v45 r) as H.
  destruct (variant_end v45 r) as [e|x|]; [|split; [discriminate|intros; discriminate]|contradiction].
  split.
  - destruct (e <? start_of r); discriminate.
  - intros e' He Hlt. inversion He; subst e'. destruct (e <? start_of r) eqn:E; [reflexivity|lia].
Qed.

Section F.
Variable fmt_float : N -> list N.
Variable prs_float : list N -> option N.

Let FOK (b : N) : Prop := False.

Lemma key_end_no_eq : ~ In 61 key_end.
Proof. cbn. intuition discriminate. Qed.
Lemma key_svlen_no_eq : ~ In 61 key_svlen.
Proof. cbn. intuition discriminate. Qed.

Lemma reread_info_ok : forall lazy num key o,
  ~ In 61 key ->
  match o with
  | Some (Some v) => val_ok FOK v /\ typed num TInteger v
  | _ => True
  end ->
  reread_info fmt_float prs_float lazy num key o = Some (Some o).
Proof.
  intros lazy num key o Hk Ho. unfold reread_info. destruct o as [ov|]; [|reflexivity].
  destruct (write_info_field fmt_float key ov) as [t|] eqn:Ew.
  - erewrite (info_field_roundtrip fmt_float prs_float FOK); try exact Ew; try exact Hk;
      try (intros; contradiction); try reflexivity.
    destruct ov; [exact Ho|exact I].
  - exfalso. unfold write_info_field in Ew. destruct ov as [v|]; [|discriminate].
    destruct Ho as [Hok Hty].
    destruct v; cbn [typed] in Hty; try (destruct Hty; discriminate); try contradiction.
    + cbn [write_value val_ok] in *. rewrite write_int_ok in Ew by exact Hok. discriminate.
    + cbn [write_value val_ok] in *. destruct Hok as [_ Hz].
      unfold write_items in Ew.
      assert (Hs : exists ps, sequence (map (fun o => match o with None => Some dot | Some a => write_int a end) l) = Some ps).
      { clear Ew. induction l as [|o l IH]; [eexists; reflexivity|].
        destruct IH as [ps Hps]; [intros z Hin; apply Hz; now right|].
        cbn [map sequence]. destruct o as [z|].
        - rewrite write_int_ok by (apply Hz; now left). rewrite Hps. eexists; reflexivity.
        - rewrite Hps. eexists; reflexivity. }
      destruct Hs as [ps Hps]. rewrite Hps in Ew. discriminate.
Qed.

Lemma reread_len1_ok : forall lazy v, len_ok v ->
  reread_len1 fmt_float prs_float lazy v = Some (Some v).
Proof.
  intros lazy v Hv. unfold reread_len1, write_sample. cbn [map sequence].
  destruct v as [x|].
  - destruct Hv as (z & -> & Hz). cbn [write_value]. rewrite write_int_ok by exact Hz. cbn [join].
    assert (Hne : fmt_int z <> []) by apply fmt_int_nonempty.
    assert (Hnd : bytes_eqb (fmt_int z) dot = false) by (apply bytes_eqb_neq, fmt_int_not_dot).
    assert (Hsp : split_all 58 (fmt_int z) = [fmt_int z]) by (apply split_all_none, fmt_int_avoids; lia).
    assert (Hpv : forall lz, parse_sample_value prs_float lz (FDef (NCount 1) TInteger) (fmt_int z) = Some (Some (VInteger z))).
    { intro lz. unfold parse_sample_value. rewrite Hnd. unfold parse_value. cbn.
      rewrite fmt_int_parse by (now apply i32_ok_range). reflexivity. }
    destruct lazy; unfold parse_sample_lazy, parse_sample_eager, len_def;
      destruct (fmt_int z) as [|b t] eqn:E; try contradiction; rewrite <- E in *;
      rewrite Hnd, Hsp; cbn [zip_parse sequence]; rewrite Hpv; reflexivity.
  - cbn [join]. destruct lazy; reflexivity.
Qed.

Lemma reread_lens_ok : forall lazy l, Forall len_ok l ->
  reread_lens fmt_float prs_float lazy l = Some (Some l).
Proof.
  induction 1 as [|v l Hv Hl IH]; [reflexivity|].
  cbn [reread_lens]. rewrite reread_len1_ok by exact Hv. rewrite IH. reflexivity.
Qed.

(* either reader gives back exactly the span-relevant fields that were written *)
Theorem reread_ok : forall lazy r, span_ok r -> reread fmt_float prs_float lazy r = VOk r.
Proof.
  intros lazy r (He & Hs & Hl). unfold reread.
  rewrite (reread_info_ok lazy (NCount 1) key_end (si_end r) key_end_no_eq).
  2:{ destruct (si_end r) as [[v|]|]; try exact I. destruct He as (z & -> & Hz). cbn. auto. }
  rewrite (reread_info_ok lazy NOther key_svlen (si_svlen r) key_svlen_no_eq).
  2:{ destruct (si_svlen r) as [[v|]|]; try exact I. destruct Hs as (l & -> & Ha & Hz). cbn. auto. }
  destruct r as [p rl e s ln]. cbn [si_len si_pos si_reflen si_end si_svlen] in *.
  destruct ln as [l|]; [|reflexivity]. rewrite reread_lens_ok by exact Hl. reflexivity.
Qed.

(* lazy = eager = written, for END- SVLEN- and LEN-driven spans under every file format *)
Theorem span_lazy_eq_eager : forall v45 r, span_ok r ->
  match reread fmt_float prs_float true r, reread fmt_float prs_float false r with
  | VOk rl, VOk re =>
      variant_end v45 rl = variant_end v45 re /\ variant_span v45 rl = variant_span v45 re /\
      variant_end v45 re = variant_end v45 r /\ variant_span v45 re = variant_span v45 r
  | _, _ => False
  end.
Proof.
  intros v45 r H. rewrite (reread_ok true r H), (reread_ok false r H). repeat split.
Qed.

End F.
