(* C09 -- variant_end / variant_span as the provided methods of the vcf::variant::Record trait
   compute them (noodles-vcf/src/variant/record.rs), for both implementors (RecordBuf and the
   lazy vcf::Record): the methods only see the record through its accessors, which is what
   [span_in] holds.  Definitions only. *)
From Coq Require Import List NArith ZArith Bool.
From NV Require Import Text.TextBase Vcf.Values.
Import ListNotations.
Open Scope N_scope.

Record span_in := {
  si_pos : N;                                  (* POS; 0 = telomere, variant_start() = None *)
  si_reflen : N;                               (* reference_bases().len() *)
  si_end : option (option value);              (* info.get(END): absent / missing / value *)
  si_svlen : option (option value);            (* info.get(SVLEN) *)
  si_len : option (list (option value));       (* samples.select(LEN) and its per-sample values *)
}.

Definition usize_max : N := 18446744073709551615.

(* info_end: an Integer n must convert to usize and to Position (n >= 1) *)
Definition info_end (e : option (option value)) : res (option N) :=
  match e with
  | None | Some None => Ok None
  | Some (Some (VInteger z)) => if (1 <=? z)%Z then Ok (Some (Z.to_N z)) else Err InvalidData
  | Some (Some _) => Err InvalidData
  end.

Fixpoint max_lens (l : list (option Z)) (acc : option N) : res (option N) :=
  match l with
  | [] => Ok acc
  | None :: t => max_lens t acc
  | Some z :: t =>
      if (z <? 0)%Z then Err InvalidData
      else let n := Z.to_N z in
           max_lens t (Some (match acc with Some m => N.max m n | None => n end))
  end.

(* info_max_sv_len: only an Integer array is accepted *)
Definition info_max_svlen (e : option (option value)) : res (option N) :=
  match e with
  | None | Some None => Ok None
  | Some (Some (VIntArr l)) => max_lens l None
  | Some (Some _) => Err InvalidData
  end.

Fixpoint max_sample_lens (l : list (option value)) (acc : option N) : res (option N) :=
  match l with
  | [] => Ok acc
  | None :: t => max_sample_lens t acc
  | Some (VInteger z) :: t =>
      if (z <? 0)%Z then Err InvalidData
      else let n := Z.to_N z in
           max_sample_lens t (Some (match acc with Some m => N.max m n | None => n end))
  | Some _ :: _ => Err InvalidData
  end.

Definition samples_max_len (c : option (list (option value))) : res (option N) :=
  match c with None => Ok None | Some l => max_sample_lens l None end.

Definition start_of (r : span_in) : N := if si_pos r =? 0 then 1 else si_pos r.

Definition ref_len (r : span_in) : res N :=
  if si_reflen r =? 0 then Err InvalidData else Ok (si_reflen r).

Definition end_from_len (r : span_in) (len : N) : res N :=
  let e := start_of r + (len - 1) in
  if usize_max <? e then Err InvalidData else Ok e.

(* Record::variant_end: INFO END wins before VCF 4.5; from 4.5 the longest of REF, INFO SVLEN and
   FORMAT LEN *)
Definition variant_end (v45 : bool) (r : span_in) : res N :=
  if v45 then
    match ref_len r with
    | Ok l0 =>
        match info_max_svlen (si_svlen r) with
        | Ok sv =>
            let l1 := match sv with Some n => N.max l0 n | None => l0 end in
            match samples_max_len (si_len r) with
            | Ok sl =>
                let l2 := match sl with Some n => N.max l1 n | None => l1 end in
                end_from_len r l2
            | Err e => Err e
            | Panic => Panic
            end
        | Err e => Err e
        | Panic => Panic
        end
    | Err e => Err e
    | Panic => Panic
    end
  else
    match info_end (si_end r) with
    | Ok (Some p) => Ok p
    | Ok None =>
        match ref_len r with
        | Ok l0 => end_from_len r l0
        | Err e => Err e
        | Panic => Panic
        end
    | Err e => Err e
    | Panic => Panic
    end.

(* Record::variant_span: usize::from(end).checked_sub(usize::from(start)).map(|n| n + 1), an
   InvalidData error when INFO END lies before POS (end <= usize::MAX and start >= 1, so n + 1
   cannot overflow) *)
Definition variant_span (v45 : bool) (r : span_in) : res N :=
  match variant_end v45 r with
  | Ok e => if e <? start_of r then Err InvalidData else Ok (e - start_of r + 1)
  | Err x => Err x
  | Panic => Panic
  end.
