(* C09 -- the eager file loop (NV.Vcf.EagerLoop.eager_calls: read_line + parse into ONE reused
   RecordBuf, every call kept) IS the record reader mapped over the lines of the text, for EVERY
   text, every [valid] and every header context:
     eager_calls_lines   : eager_call_list valid h text = map (eager_line valid h) (lines_of text)
     lines_of_concat     : concat (lines_of text) = text
     lines_of_shape      : each line is non-empty, holds no LF except as its last byte, and only
                           the last line may lack the LF
     lines_of_framed     : lines_of (t1 LF t2 LF .. tn LF tail) = [t1 LF; ..; tn LF] (++ [tail])
     eager_file_until_err: NV.Vcf.File.eager_file (the loop that stops at the first Err) is the
                           prefix of the call list before its first Err
     frame_line          : what the parser sees of a line t LF is strip_cr t. *)
From Coq Require Import List NArith Arith Bool Lia.
From NV Require Import Text.TextBase Text.TextBaseProofs Vcf.Values Vcf.Span Vcf.Line Vcf.LineProofs
  Vcf.File Vcf.EagerLoop.
Import ListNotations.
Open Scope nat_scope.

(* ---------------------------------------------------------------------------------------- *)
(* read_line's bytes *)

Lemma mem_split10 : forall c s, mem c s = true ->
  s = take_until c s ++ c :: skipn (S (length (take_until c s))) s /\ ~ In c (take_until c s).
Proof.
  intros c. induction s as [|b t IH]; intro H; cbn [mem] in H; [discriminate|].
  cbn [take_until]. destruct (b =? c)%N eqn:E.
  - apply N.eqb_eq in E. subst b. split; [reflexivity|intros []].
  - cbn [orb] in H. destruct (IH H) as (A & B). split.
    + exact (f_equal (cons b) A).
    + apply N.eqb_neq in E. intros [X|X]; contradiction.
Qed.

Lemma mem_false_notin : forall c s, mem c s = false -> ~ In c s.
Proof. intros c s H X. apply mem_In in X. congruence. Qed.

Lemma line_bytes_split : forall text,
  line_bytes text ++ skipn (length (line_bytes text)) text = text.
Proof.
  intro text. unfold line_bytes. destruct (mem 10%N text) eqn:M.
  - destruct (mem_split10 10%N text M) as (E & _).
    rewrite app_length. cbn [length]. rewrite Nat.add_1_r.
    rewrite <- app_assoc. cbn [app]. symmetry. exact E.
  - rewrite skipn_all. apply app_nil_r.
Qed.

Lemma line_bytes_nonempty : forall text, text <> [] -> line_bytes text <> [].
Proof.
  intros text H. unfold line_bytes. destruct (mem 10%N text); [|exact H].
  intro X. apply app_eq_nil in X. destruct X as (_ & X). discriminate.
Qed.

Lemma rest_shorter : forall text, text <> [] ->
  length (skipn (length (line_bytes text)) text) < length text.
Proof.
  intros text H. pose proof (line_bytes_nonempty text H) as Hn.
  pose proof (f_equal (@length N) (line_bytes_split text)) as E. rewrite app_length in E.
  destruct (line_bytes text); [contradiction|]. cbn [length] in *. lia.
Qed.

Lemma frame_line_bytes : forall text, frame (line_bytes text) = frame text.
Proof.
  intro text. unfold line_bytes. destruct (mem 10%N text) eqn:M; [|reflexivity].
  destruct (mem_split10 10%N text M) as (_ & H).
  unfold frame. rewrite M.
  replace (mem 10%N (take_until 10%N text ++ [10%N])) with true
    by (symmetry; apply mem_In; apply in_or_app; right; now left).
  unfold first_line. rewrite take_until_app by exact H. reflexivity.
Qed.

Lemma frame_line : forall t, ~ In 10%N t -> frame (t ++ [10%N]) = strip_cr t.
Proof.
  intros t H. unfold frame.
  replace (mem 10%N (t ++ [10%N])) with true
    by (symmetry; apply mem_In; apply in_or_app; right; now left).
  unfold first_line. rewrite take_until_app by exact H. reflexivity.
Qed.

Lemma frame_tail : forall t, ~ In 10%N t -> frame t = t.
Proof.
  intros t H. unfold frame. destruct (mem 10%N t) eqn:M; [|reflexivity].
  apply mem_In in M. contradiction.
Qed.

(* ---------------------------------------------------------------------------------------- *)
(* the lines of a text *)

Lemma file_lines_concat : forall fuel text, length text < fuel -> concat (file_lines fuel text) = text.
Proof.
  induction fuel as [|k IH]; intros text Hf; [lia|].
  destruct text as [|b t] eqn:Et; [reflexivity|]. rewrite <- Et in *.
  assert (Hne : text <> []) by (rewrite Et; discriminate).
  replace (file_lines (S k) text)
    with (line_bytes text :: file_lines k (skipn (length (line_bytes text)) text))
    by (rewrite Et; reflexivity).
  cbn [concat]. rewrite IH by (pose proof (rest_shorter text Hne); lia).
  apply line_bytes_split.
Qed.

Theorem lines_of_concat : forall text, concat (lines_of text) = text.
Proof. intro text. apply file_lines_concat. lia. Qed.

Lemma file_lines_framed : forall ts tail, Forall (fun t => ~ In 10%N t) ts -> ~ In 10%N tail ->
  forall fuel, length (with_lf ts ++ tail) < fuel ->
  file_lines fuel (with_lf ts ++ tail) =
  map (fun t => t ++ [10%N]) ts ++ (match tail with [] => [] | _ => [tail] end).
Proof.
  intros ts tail Hts Htail. induction Hts as [|t ts Ht _ IH]; intros fuel Hf.
  - cbn [with_lf map concat app]. destruct fuel as [|k]; [lia|].
    destruct tail as [|b tl] eqn:Et; [reflexivity|]. rewrite <- Et in *.
    assert (Hne : tail <> []) by (rewrite Et; discriminate).
    replace (file_lines (S k) tail)
      with (line_bytes tail :: file_lines k (skipn (length (line_bytes tail)) tail))
      by (rewrite Et; reflexivity).
    assert (M : mem 10%N tail = false).
    { destruct (mem 10%N tail) eqn:M; [|reflexivity]. apply mem_In in M. contradiction. }
    unfold line_bytes. rewrite M, skipn_all.
    destruct k; reflexivity.
  - destruct fuel as [|k]; [lia|].
    unfold with_lf in *. cbn [map concat] in *. rewrite <- !app_assoc in *. cbn [app] in *.
    set (rest := concat (map (fun l => l ++ [10%N]) ts) ++ tail) in *.
    assert (Hne : t ++ 10%N :: rest <> []) by (destruct t; discriminate).
    assert (L : line_bytes (t ++ 10%N :: rest) = t ++ [10%N]).
    { unfold line_bytes.
      replace (mem 10%N (t ++ 10%N :: rest)) with true
        by (symmetry; apply mem_In; apply in_or_app; right; now left).
      now rewrite take_until_app. }
    assert (S : skipn (length (t ++ [10%N])) (t ++ 10%N :: rest) = rest).
    { rewrite app_length. cbn [length]. rewrite Nat.add_1_r.
      replace (t ++ 10%N :: rest) with ((t ++ [10%N]) ++ rest) by (rewrite <- app_assoc; reflexivity).
      replace (S (length t)) with (length (t ++ [10%N])) by (rewrite app_length; cbn; lia).
      rewrite skipn_app, skipn_all, Nat.sub_diag. reflexivity. }
    destruct (t ++ 10%N :: rest) as [|b0 t0] eqn:Ett; [contradiction|]. rewrite <- Ett in *.
    replace (file_lines (Datatypes.S k) (t ++ 10%N :: rest))
      with (line_bytes (t ++ 10%N :: rest)
            :: file_lines k (skipn (length (line_bytes (t ++ 10%N :: rest))) (t ++ 10%N :: rest)))
      by (rewrite Ett; reflexivity).
    rewrite L, S. cbn [map app]. f_equal. apply IH.
    rewrite app_length in Hf. cbn [length] in Hf. lia.
Qed.

Theorem lines_of_framed : forall ts tail, Forall (fun t => ~ In 10%N t) ts -> ~ In 10%N tail ->
  lines_of (with_lf ts ++ tail) =
  map (fun t => t ++ [10%N]) ts ++ (match tail with [] => [] | _ => [tail] end).
Proof. intros ts tail H1 H2. apply file_lines_framed; [exact H1|exact H2|lia]. Qed.

(* each line: t LF with t free of LF, or -- only as the last one -- a non-empty t free of LF *)
Inductive lines_shape : list (list N) -> Prop :=
| ls_nil : lines_shape []
| ls_last : forall t, t <> [] -> ~ In 10%N t -> lines_shape [t]
| ls_cons : forall t ls, ~ In 10%N t -> lines_shape ls -> lines_shape ((t ++ [10%N]) :: ls).

Lemma file_lines_shape : forall fuel text, lines_shape (file_lines fuel text).
Proof.
  induction fuel as [|k IH]; intro text; [constructor|].
  destruct text as [|b t] eqn:Et; [constructor|]. rewrite <- Et.
  assert (Hne : text <> []) by (rewrite Et; discriminate).
  replace (file_lines (S k) text)
    with (line_bytes text :: file_lines k (skipn (length (line_bytes text)) text))
    by (rewrite Et; reflexivity).
  unfold line_bytes at 1 2. destruct (mem 10%N text) eqn:M.
  - destruct (mem_split10 10%N text M) as (_ & H). apply ls_cons; [exact H|apply IH].
  - rewrite skipn_all. replace (file_lines k []) with (@nil (list N)) by (destruct k; reflexivity).
    apply ls_last; [exact Hne|apply mem_false_notin; exact M].
Qed.

Theorem lines_of_shape : forall text, lines_shape (lines_of text).
Proof. intro text. apply file_lines_shape. Qed.

(* ---------------------------------------------------------------------------------------- *)
(* the loop *)

Section WithFloat.
Variable prs_float : list N -> option N.

Lemma eager_calls_file_lines : forall fuel valid h prev text,
  eager_calls prs_float fuel valid h prev text = map (eager_line prs_float valid h) (file_lines fuel text).
Proof.
  induction fuel as [|k IH]; intros valid h prev text; [reflexivity|].
  destruct text as [|b t] eqn:Et; [reflexivity|]. rewrite <- Et.
  replace (file_lines (S k) text)
    with (line_bytes text :: file_lines k (skipn (length (line_bytes text)) text))
    by (rewrite Et; reflexivity).
  replace (eager_calls prs_float (S k) valid h prev text)
    with (let rest := skipn (length (line_bytes text)) text in
          if valid (line_bytes text) then
            match read_eager_into prs_float prev h (frame text) with
            | Some r => Some r :: eager_calls prs_float k valid h r rest
            | None => None :: eager_calls prs_float k valid h prev rest
            end
          else None :: eager_calls prs_float k valid h prev rest)
    by (rewrite Et; reflexivity).
  cbn zeta. cbn [map]. unfold eager_line at 1. rewrite frame_line_bytes.
  rewrite (reused_recordbuf_independent prs_float prev h (frame text)).
  destruct (valid (line_bytes text)); [|now rewrite IH].
  destruct (read_eager prs_float h (frame text)); now rewrite IH.
Qed.

Theorem eager_calls_lines : forall valid h text,
  eager_call_list prs_float valid h text = map (eager_line prs_float valid h) (lines_of text).
Proof. intros. apply eager_calls_file_lines. Qed.

Lemma eager_file_until_err_fuel : forall fuel valid h prev text, length text < fuel ->
  eager_file prs_float fuel valid h prev text = until_err (eager_calls prs_float fuel valid h prev text).
Proof.
  induction fuel as [|k IH]; intros valid h prev text Hf; [lia|].
  destruct text as [|b t] eqn:Et; [reflexivity|]. rewrite <- Et in *.
  assert (Hne : text <> []) by (rewrite Et; discriminate).
  replace (eager_calls prs_float (S k) valid h prev text)
    with (let rest := skipn (length (line_bytes text)) text in
          if valid (line_bytes text) then
            match read_eager_into prs_float prev h (frame text) with
            | Some r => Some r :: eager_calls prs_float k valid h r rest
            | None => None :: eager_calls prs_float k valid h prev rest
            end
          else None :: eager_calls prs_float k valid h prev rest)
    by (rewrite Et; reflexivity).
  replace (eager_file prs_float (S k) valid h prev text)
    with (if valid (line_bytes text) then
            match read_eager_into prs_float prev h (frame text) with
            | None => ([], false)
            | Some r =>
                let '(rs, ok) := eager_file prs_float k valid h r (skipn (length (line_bytes text)) text) in
                (r :: rs, ok)
            end
          else ([], false))
    by (rewrite Et; reflexivity).
  cbn zeta. destruct (valid (line_bytes text)); [|reflexivity].
  destruct (read_eager_into prs_float prev h (frame text)) as [r|]; [|reflexivity].
  cbn [until_err]. rewrite IH by (pose proof (rest_shorter text Hne); lia). reflexivity.
Qed.

Theorem eager_file_until_err : forall valid h text,
  eager_records prs_float valid h text = until_err (eager_call_list prs_float valid h text).
Proof. intros. apply eager_file_until_err_fuel. lia. Qed.

(* the loop on a text given by its lines: the record reader mapped over them, the parser seeing
   strip_cr of each line *)
Theorem eager_calls_framed : forall valid h ts tail,
  Forall (fun t => ~ In 10%N t) ts -> ~ In 10%N tail ->
  eager_call_list prs_float valid h (with_lf ts ++ tail) =
  map (fun t => if valid (t ++ [10%N]) then read_eager prs_float h (strip_cr t) else None) ts
  ++ match tail with
     | [] => []
     | _ => [if valid tail then read_eager prs_float h tail else None]
     end.
Proof.
  intros valid h ts tail H1 H2. rewrite eager_calls_lines, lines_of_framed by assumption.
  rewrite map_app, map_map. f_equal.
  - apply map_ext_in. intros t Ht. unfold eager_line.
    rewrite frame_line by (rewrite Forall_forall in H1; exact (H1 t Ht)). reflexivity.
  - destruct tail as [|b tl] eqn:Et; [reflexivity|]. rewrite <- Et in *.
    cbn [map]. unfold eager_line. rewrite frame_tail by exact H2. reflexivity.
Qed.

End WithFloat.

Print Assumptions eager_calls_lines.
Print Assumptions eager_file_until_err.
Print Assumptions eager_calls_framed.
Print Assumptions lines_of_shape.
