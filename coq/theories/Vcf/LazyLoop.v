(* C09 -- the LAZY FILE LOOP with every call kept: vcf::io::Reader::read_record (lazy Record,
   io/reader/record.rs) called again and again with ONE Record until Ok(0), GOING ON after Err.
   NV.Vcf.LazyRec.rd_record forgets where a failed call leaves the reader; here the same program
   keeps it: read_field consumes the field and its delimiter even when the field is not UTF-8
   (the error is returned after reader.consume), "unexpected EOL" is returned after the LF was
   consumed, read_line (the samples) consumes its whole line whether or not it is UTF-8.  So after
   an Err the next call starts behind the FIELD that failed -- not behind the line, unlike the
   eager reader (NV.Vcf.EagerLoop), whose read_line always consumes the line.
   Definitions only; the lemmas are in Vcf/LazyLoopProofs.v. *)
From Coq Require Import List NArith Bool.
From NV Require Import Text.TextBase Vcf.Values Vcf.Span Vcf.Line Vcf.File Vcf.LazyRec.
From NV Require Fasta.Fastq.
Import ListNotations.
Open Scope N_scope.

(* what read_field leaves unread: everything behind the first TAB / LF *)
Definition fld_rest (src : list N) : list N := let '(_, _, r) := scan_fld src in r.

Inductive qxres := QXErr (rest : list N) | QXOk (dst : list N) (ends : list nat) (n : nat) (rest : list N).
Inductive xres := XErr (rest : list N) | XOk (n : nat) (buf : list N) (ends : list nat) (rest : list N).

Section WithValid.
Variable valid : list N -> bool.

Fixpoint rdx_required (k : nat) (src dst : list N) (ends : list nat) (n : nat) : qxres :=
  match k with
  | O => QXOk dst ends n src
  | S k' =>
      match rd_field valid src dst with
      | FErr => QXErr (fld_rest src)
      | FOk dst1 n1 eol r =>
          if eol then QXErr r                                     (* unexpected EOL: LF consumed *)
          else rdx_required k' r dst1 (ends ++ [length dst1]) (n + n1)%nat
      end
  end.

Definition rdx_record (src : list N) : xres :=
  match rdx_required 7 src [] [] 0%nat with
  | QXErr r => XErr r
  | QXOk dst1 ends n rest1 =>
      match rd_field valid rest1 dst1 with
      | FErr => XErr (fld_rest rest1)
      | FOk dst2 n2 eol rest2 =>
          let ends2 := ends ++ [length dst2] in
          if eol then XOk (n + n2)%nat dst2 ends2 rest2
          else match rd_tail valid rest2 dst2 with
               | Some (dst3, n3, rest3) => XOk (n + n2 + n3)%nat dst3 ends2 rest3
               | None => XErr (skipn (length (line_bytes rest2)) rest2)
               end
      end
  end.

Definition forget_q (q : qxres) : qres :=
  match q with QXErr _ => QErr | QXOk d e n r => QOk d e n r end.
Definition forget_x (x : xres) : rres :=
  match x with XErr _ => RErr | XOk n b e r => ROk n b e r end.

End WithValid.

Section WithFloat.
Variable prs_float : list N -> option N.

(* one call as its caller sees it (every accessor forced): Err, or Ok(n) with the column texts and
   the record of the views; LCPanic = a slice of Fields panicked *)
Inductive lcall := LCPanic | LCErr | LCRec (n : nat) (f : lfields) (r : option vrec).

(* the loop: one result per call until Ok(0).  Every call that is not the last consumes at least
   one byte when [valid []] holds (an Err on an empty input needs [valid [] = false]), so the fuel
   S (length text) is not the reason the list ends. *)
Fixpoint lazy_calls (fuel : nat) (valid : list N -> bool) (h : hctx) (text : list N) : list lcall :=
  match fuel with
  | O => []
  | S k =>
      match rdx_record valid text with
      | XErr rest => LCErr :: lazy_calls k valid h rest
      | XOk O _ _ _ => []
      | XOk n buf ends rest =>
          match fields_of buf ends with
          | None => [LCPanic]
          | Some f => LCRec n f (view_ps prs_float h (pieces_of f)) :: lazy_calls k valid h rest
          end
      end
  end.

Definition lazy_call_list (valid : list N -> bool) (h : hctx) (text : list N) : list lcall :=
  lazy_calls (S (length text)) valid h text.

(* what the two loops have in common: bytes consumed by an Ok call, and the record *)
Definition lc_rec (c : lcall) : option vrec :=
  match c with LCRec _ _ r => r | _ => None end.

End WithFloat.

Definition lazy_call_list_std (prs_float : list N -> option N) (h : hctx) (text : list N) : list lcall :=
  lazy_call_list prs_float NV.Fasta.Fastq.utf8_valid h text.
