(* C09 -- header lines: the generic field layer (quoted / escaped / raw values, the field loop) and
   the typed map lines round-trip through the text. *)
From Coq Require Import List NArith ZArith Bool Lia ZifyBool ZifyN.
From NV Require Import Text.TextBase Text.TextBaseProofs Vcf.Values Vcf.ValuesProofs Vcf.GenotypeProofs
  Vcf.Line Vcf.LineProofs Vcf.Header.
Import ListNotations.
Open Scope N_scope.

(* ---------------------------------------------------------------------------------------- *)
(* values *)

(* any byte string, quoted and escaped, is read back whatever follows the closing quote *)
Lemma p_escaped_esc : forall s rest, p_escaped (esc s ++ 34 :: rest) = Some (s, rest).
Proof.
  induction s as [|b s IH]; intros rest.
  - reflexivity.
  - unfold esc. cbn [flat_map]. fold (esc s).
    destruct ((b =? 92) || (b =? 34)) eqn:E.
    + cbn [app p_escaped]. assert (Hb : b = 92 \/ b = 34) by lia.
      destruct Hb as [-> | ->]; cbn [N.eqb Pos.eqb orb]; rewrite IH; reflexivity.
    + cbn [app p_escaped].
      assert (H34 : (b =? 34) = false) by lia. assert (H92 : (b =? 92) = false) by lia.
      rewrite H34, H92, IH. reflexivity.
Qed.

Lemma p_value_hstring : forall s rest, p_value (w_hstring s ++ rest) = Some (s, rest).
Proof.
  intros s rest. unfold w_hstring, p_value. cbn [app]. cbn [N.eqb Pos.eqb].
  rewrite <- app_assoc. cbn [app]. apply p_escaped_esc.
Qed.

Definition raw_ok (v : list N) : Prop :=
  ~ In 44 v /\ ~ In 62 v /\ match v with 34 :: _ => False | _ => True end.

Lemma p_raw_app : forall v c rest, ~ In 44 v -> ~ In 62 v -> (c = 44 \/ c = 62) ->
  p_raw (v ++ c :: rest) = Some (v, c :: rest).
Proof.
  induction v as [|b v IH]; intros c rest H44 H62 Hc.
  - cbn [app p_raw]. assert (E : (c =? 44) || (c =? 62) = true) by lia. now rewrite E.
  - cbn [app p_raw]. assert (E : (b =? 44) || (b =? 62) = false).
    { cbn in H44, H62. lia. }
    rewrite E, IH; [reflexivity| | |exact Hc]; intro X; [apply H44|apply H62]; now right.
Qed.

Lemma p_value_raw : forall v c rest, raw_ok v -> (c = 44 \/ c = 62) ->
  p_value (v ++ c :: rest) = Some (v, c :: rest).
Proof.
  intros v c rest (H44 & H62 & Hq) Hc. unfold p_value.
  destruct v as [|b v].
  - cbn [app]. destruct (c =? 34) eqn:E; [lia|]. now apply (p_raw_app [] c rest).
  - cbn [app]. destruct (b =? 34) eqn:E.
    + assert (b = 34) by lia. subst b. contradiction.
    + now apply (p_raw_app (b :: v) c rest).
Qed.

(* ---------------------------------------------------------------------------------------- *)
(* fields *)

(* an abstract field: key, value, and whether the writer quotes the value *)
Record wfield := { wf_key : list N; wf_val : list N; wf_quoted : bool }.

Definition wf_text (f : wfield) : list N :=
  if wf_quoted f then w_str_field (wf_key f) (wf_val f) else w_raw_field (wf_key f) (wf_val f).

Definition wf_ok (f : wfield) : Prop :=
  ~ In 61 (wf_key f) /\ match wf_key f with 62 :: _ => False | _ => True end /\
  (wf_quoted f = false -> raw_ok (wf_val f)).

Lemma length_app_lt : forall (a b : list N), (length b <= length (a ++ b))%nat.
Proof. intros. rewrite app_length. lia. Qed.

Lemma p_fields_step : forall fuel k vt c r v,
  ~ In 61 k -> match k with 62 :: _ => False | _ => True end ->
  p_value (vt ++ c :: r) = Some (v, c :: r) ->
  p_fields (S fuel) (k ++ 61 :: vt ++ c :: r) =
  match p_fields fuel (if c =? 44 then r else c :: r) with
  | Some (fs, rest) => Some ((k, v) :: fs, rest)
  | None => None
  end.
Proof.
  intros fuel k vt c r v K61 K62 Hv. cbn [p_fields].
  destruct k as [|k0 kt].
  - cbn [app]. cbn [N.eqb Pos.eqb]. pose proof (split_once_app 61 [] (vt ++ c :: r) (fun x => x)) as Hs.
    cbn [app] in Hs. rewrite Hs, Hv. reflexivity.
  - cbn [app]. assert (Hk : (k0 =? 62) = false) by (destruct (N.eq_dec k0 62) as [->|]; [contradiction|lia]).
    rewrite Hk. change (k0 :: kt ++ 61 :: vt ++ c :: r) with ((k0 :: kt) ++ 61 :: vt ++ c :: r).
    rewrite (split_once_app 61 (k0 :: kt) (vt ++ c :: r) K61). rewrite Hv. reflexivity.
Qed.

Definition wf_vtext (f : wfield) : list N :=
  if wf_quoted f then w_hstring (wf_val f) else wf_val f.

Lemma wf_text_eq : forall f, wf_text f = wf_key f ++ 61 :: wf_vtext f.
Proof. intros f. unfold wf_text, wf_vtext, w_str_field, w_raw_field. destruct (wf_quoted f); reflexivity. Qed.

Lemma wf_value : forall f c r, wf_ok f -> (c = 44 \/ c = 62) ->
  p_value (wf_vtext f ++ c :: r) = Some (wf_val f, c :: r).
Proof.
  intros f c r (_ & _ & Hraw) Hc. unfold wf_vtext. destruct (wf_quoted f) eqn:Q.
  - apply p_value_hstring.
  - apply p_value_raw; [now apply Hraw|exact Hc].
Qed.

(* the field loop on f1,f2,...,fn> with anything after the '>' *)
Lemma p_fields_join : forall fs fuel rest,
  fs <> [] -> Forall wf_ok fs ->
  Nat.le (length (join 44 (map wf_text fs) ++ 62 :: rest)) fuel ->
  p_fields fuel (join 44 (map wf_text fs) ++ 62 :: rest) =
  Some (map (fun f => (wf_key f, wf_val f)) fs, 62 :: rest).
Proof.
  induction fs as [|f fs IH]; intros fuel rest Hne Hok Hfuel; [contradiction|].
  inversion Hok as [|? ? Hf Hfs]; subst.
  pose proof Hf as (K61 & K62 & _).
  destruct fs as [|g fs'].
  - cbn [map join] in *. rewrite wf_text_eq in *. rewrite <- app_assoc in *. cbn [app] in *.
    destruct fuel as [|fuel]; [rewrite app_length in Hfuel; cbn [length] in Hfuel; unfold Nat.le in Hfuel; lia|].
    rewrite (p_fields_step fuel (wf_key f) (wf_vtext f) 62 rest (wf_val f) K61 K62 (wf_value f 62 rest Hf (or_intror eq_refl))).
    cbn [N.eqb Pos.eqb].
    destruct fuel as [|fuel'].
    { exfalso. rewrite app_length in Hfuel. cbn [length] in Hfuel. rewrite app_length in Hfuel. cbn [length] in Hfuel.
      unfold Nat.le in Hfuel. lia. }
    cbn [p_fields N.eqb Pos.eqb]. reflexivity.
  - remember (g :: fs') as gs eqn:Egs.
    assert (Hgs : gs <> []) by (subst gs; discriminate).
    assert (Ej : join 44 (map wf_text (f :: gs)) = wf_text f ++ 44 :: join 44 (map wf_text gs)).
    { subst gs. cbn [map]. apply join_cons2. }
    rewrite Ej in *. rewrite wf_text_eq in *. repeat rewrite <- app_assoc in *. cbn [app] in *.
    repeat rewrite <- app_assoc in *. cbn [app] in *.
    destruct fuel as [|fuel]; [rewrite app_length in Hfuel; cbn [length] in Hfuel; unfold Nat.le in Hfuel; lia|].
    rewrite (p_fields_step fuel (wf_key f) (wf_vtext f) 44 (join 44 (map wf_text gs) ++ 62 :: rest) (wf_val f) K61 K62
               (wf_value f 44 _ Hf (or_introl eq_refl))).
    cbn [N.eqb Pos.eqb].
    rewrite IH; [reflexivity|exact Hgs|exact Hfs|].
    rewrite app_length in Hfuel. cbn [length] in Hfuel. rewrite app_length in Hfuel. cbn [length] in Hfuel.
    unfold Nat.le in *. lia.
Qed.

Lemma p_map_fields_write : forall fs rest, fs <> [] -> Forall wf_ok fs ->
  p_map_fields (60 :: join 44 (map wf_text fs) ++ 62 :: rest) =
  Some (map (fun f => (wf_key f, wf_val f)) fs).
Proof.
  intros fs rest Hne Hok. unfold p_map_fields. cbn [N.eqb Pos.eqb].
  rewrite p_fields_join; [reflexivity|exact Hne|exact Hok|lia].
Qed.

(* ---------------------------------------------------------------------------------------- *)
(* typed map lines *)

(* the tags the parser of kind k treats as standard *)
Definition is_std (k : mkind) (key : list N) : bool :=
  bytes_eqb key t_ID || (uses_numty k && bytes_eqb key t_Number) || (uses_numty k && bytes_eqb key t_Type) ||
  (uses_desc k && bytes_eqb key t_Description) || (uses_contig k && bytes_eqb key t_length) ||
  (uses_contig k && bytes_eqb key t_md5) || (uses_contig k && bytes_eqb key t_URL) ||
  (uses_idx k && bytes_eqb key t_IDX).

Definition with_others (st : mstate) (os : list (list N * list N)) : mstate :=
  {| s_id := s_id st; s_num := s_num st; s_ty := s_ty st; s_desc := s_desc st; s_len := s_len st;
     s_md5 := s_md5 st; s_url := s_url st; s_idx := s_idx st; s_others := os |}.

Lemma step_other : forall k st key v, is_std k key = false -> assoc key (s_others st) = None ->
  step k st (key, v) = Some (with_others st (s_others st ++ [(key, v)])).
Proof.
  intros k st key v Hs Ha. unfold is_std in Hs.
  repeat (apply orb_false_elim in Hs; destruct Hs as [Hs ?]).
  unfold step. rewrite Hs.
  repeat match goal with H : _ = false |- _ => rewrite H; clear H end.
  rewrite Ha. reflexivity.
Qed.

Lemma assoc_app_none : forall A key (l : list (list N * A)) k' a,
  assoc key l = None -> bytes_eqb key k' = false -> assoc key (l ++ [(k', a)]) = None.
Proof.
  intros A key l k' a. induction l as [|[k0 a0] l IH]; intros H Hk; cbn [app assoc] in *.
  - now rewrite Hk.
  - destruct (bytes_eqb key k0); [discriminate|]. now apply IH.
Qed.

Lemma steps_others : forall k os st,
  Forall (fun kv => is_std k (fst kv) = false) os -> NoDup (map fst os) ->
  (forall kv, In kv os -> assoc (fst kv) (s_others st) = None) ->
  steps k st os = Some (with_others st (s_others st ++ os)).
Proof.
  intros k. induction os as [|[key v] os IH]; intros st Hstd Hnd Hfresh.
  - cbn [steps]. rewrite app_nil_r. destruct st; reflexivity.
  - inversion Hstd as [|? ? H1 H2]; subst. inversion Hnd as [|? ? N1 N2]; subst. cbn [fst] in *.
    cbn [steps]. rewrite (step_other k st key v H1 (Hfresh (key, v) (or_introl eq_refl))).
    rewrite IH; [| exact H2 | exact N2 |].
    + cbn [with_others s_others s_id s_num s_ty s_desc s_len s_md5 s_url s_idx]. rewrite <- app_assoc. reflexivity.
    + intros [k2 v2] Hin. cbn [with_others s_others fst]. apply assoc_app_none.
      * apply (Hfresh (k2, v2)). now right.
      * apply bytes_eqb_neq. intro E. subst k2. apply N1. apply in_map_iff. exists (key, v2). split; [reflexivity|exact Hin].
Qed.

(* the numbers of a kind: counts that fit usize, A R G '.', and for FORMAT LA LR LG P M *)
Definition hnum_ok (k : mkind) (n : hnum) : Prop :=
  match n with
  | HCount c => c <= u64_max
  | HA | HR | HG | HDot => True
  | _ => k = KFormat
  end.

Lemma p_num_text : forall k n, hnum_ok k n -> p_num k (num_text n) = Some n.
Proof.
  intros k [c| | | | | | | | |] H; cbn [hnum_ok] in H; try subst k; try (destruct k; reflexivity); try reflexivity.
  cbn [num_text]. unfold p_num.
  pose proof (fmt_dec_nonempty c) as Hne.
  destruct (fmt_dec c) as [|b t] eqn:E; [contradiction|]. rewrite <- E. clear Hne.
  pose proof (fmt_dec_digits c) as Hd.
  assert (Hno : forall x y, x < 48 \/ 57 < x -> bytes_eqb (fmt_dec c) (x :: y) = false).
  { intros x y Hx. apply bytes_eqb_neq. intro X. apply (fmt_dec_avoids c x Hx). rewrite X. now left. }
  rewrite (Hno 65 []), (Hno 82 []), (Hno 71 []), (Hno 46 []), (Hno 76 [65]), (Hno 76 [82]), (Hno 76 [71]),
          (Hno 80 []), (Hno 77 []) by lia.
  repeat rewrite andb_false_r.
  rewrite parse_usize_digits by exact Hd. rewrite parse_dec_fmt.
  assert (Hle : (c <=? u64_max) = true) by lia. now rewrite Hle.
Qed.

Lemma p_ty_text : forall k t, (k = KFormat -> t <> HFlag) -> p_ty k (ty_text t) = Some t.
Proof. intros k [] H; destruct k; try reflexivity; exfalso; now apply H. Qed.

Lemma parse_usize_fmt : forall n, n <= u64_max -> parse_usize (fmt_dec n) = Some n.
Proof.
  intros n H. rewrite parse_usize_digits by apply fmt_dec_digits. rewrite parse_dec_fmt.
  assert (Hle : (n <=? u64_max) = true) by lia. now rewrite Hle.
Qed.

(* a map line the property quantifies over, by kind *)
Definition okey_ok (k : mkind) (key : list N) : Prop :=
  ~ In 61 key /\ match key with 62 :: _ => False | _ => True end /\ is_std k key = false.

Definition map_ok (k : mkind) (m : hmap) : Prop :=
  raw_ok (m_id m) /\
  (if uses_numty k then (exists n t, m_num m = Some n /\ m_ty m = Some t /\ hnum_ok k n /\ (k = KFormat -> t <> HFlag))
   else m_num m = None /\ m_ty m = None) /\
  (if uses_desc k then exists d, m_desc m = Some d else m_desc m = None) /\
  (if uses_contig k then (match m_len m with Some n => n <= u64_max | None => True end) /\
                         (match m_md5 m with Some v => raw_ok v | None => True end) /\
                         (match m_url m with Some v => raw_ok v | None => True end)
   else m_len m = None /\ m_md5 m = None /\ m_url m = None) /\
  (if uses_idx k then match m_idx m with Some n => n <= u64_max | None => True end else m_idx m = None) /\
  Forall (fun kv => okey_ok k (fst kv)) (m_others m) /\ NoDup (map fst (m_others m)).

Definition F (key v : list N) (q : bool) : wfield := {| wf_key := key; wf_val := v; wf_quoted := q |}.
Definition ofield {A} (o : option A) (f : A -> wfield) : list wfield :=
  match o with Some a => [f a] | None => [] end.

Definition wfs (k : mkind) (m : hmap) : list wfield :=
  [F t_ID (m_id m) false]
  ++ (if uses_numty k then ofield (m_num m) (fun n => F t_Number (num_text n) false)
                           ++ ofield (m_ty m) (fun t => F t_Type (ty_text t) false) else [])
  ++ (if uses_desc k then ofield (m_desc m) (fun d => F t_Description d true) else [])
  ++ (if uses_contig k then ofield (m_len m) (fun n => F t_length (fmt_dec n) false)
                            ++ ofield (m_md5 m) (fun v => F t_md5 v false)
                            ++ ofield (m_url m) (fun v => F t_URL v false) else [])
  ++ map (fun kv => F (fst kv) (snd kv) true) (m_others m)
  ++ (if uses_idx k then ofield (m_idx m) (fun n => F t_IDX (fmt_dec n) false) else []).

Lemma map_ofield : forall A (o : option A) (f : A -> wfield),
  map wf_text (ofield o f) = opt_field o (fun a => wf_text (f a)).
Proof. intros A [a|] f; reflexivity. Qed.

Lemma wfs_text : forall k m, map wf_text (wfs k m) = map_fields k m.
Proof.
  intros k m. unfold wfs, map_fields. repeat rewrite map_app. rewrite map_map.
  destruct k; cbn [uses_numty uses_desc uses_contig uses_idx];
    repeat rewrite map_app; repeat rewrite map_ofield; reflexivity.
Qed.

Lemma digits_raw_ok : forall s, Forall (fun c => 48 <= c <= 57) s -> raw_ok s.
Proof.
  intros s H. rewrite Forall_forall in H. repeat split.
  - intro X. specialize (H 44 X). lia.
  - intro X. specialize (H 62 X). lia.
  - destruct s as [|b t]; [exact I|]. specialize (H b (or_introl eq_refl)).
    destruct (N.eq_dec b 34) as [->|Hn]; [lia|].
    destruct b as [|p]; [exact I|]. do 6 (destruct p; try exact I). exfalso. now apply Hn.
Qed.

Lemma num_raw_ok : forall n, raw_ok (num_text n).
Proof.
  intros [c| | | | | | | | |]; try (cbn; repeat split; try exact I; intros H; repeat (destruct H as [H|H]; [discriminate|]); destruct H).
  apply digits_raw_ok, fmt_dec_digits.
Qed.

Lemma ty_raw_ok : forall t, raw_ok (ty_text t).
Proof.
  intros []; cbn; repeat split; try exact I; intros H; repeat (destruct H as [H|H]; [discriminate|]); destruct H.
Qed.

Ltac const_key := split; [cbn; intros H; repeat (destruct H as [H|H]; [discriminate|]); destruct H|split; [exact I|]].

Lemma wfs_ok : forall k m, map_ok k m -> Forall wf_ok (wfs k m).
Proof.
  intros k m (Hid & Hnt & Hd & Hc & Hi & Ho & _). unfold wfs.
  apply Forall_app; split; [|apply Forall_app; split; [|apply Forall_app; split; [|apply Forall_app; split; [|apply Forall_app; split]]]].
  - constructor; [|constructor]. const_key. intros _. exact Hid.
  - destruct (uses_numty k); [|constructor]. destruct Hnt as (n & t & -> & -> & Hn & _).
    cbn [ofield app]. constructor; [|constructor; [|constructor]].
    + const_key. intros _. apply num_raw_ok.
    + const_key. intros _. apply ty_raw_ok.
  - destruct (uses_desc k); [|constructor]. destruct Hd as (d & ->). cbn [ofield].
    constructor; [|constructor]. const_key. discriminate.
  - destruct (uses_contig k); [|constructor]. destruct Hc as (H1 & H2 & H3).
    apply Forall_app; split; [|apply Forall_app; split].
    + destruct (m_len m); cbn [ofield]; constructor; [|constructor]. const_key. intros _. apply digits_raw_ok, fmt_dec_digits.
    + destruct (m_md5 m); cbn [ofield]; constructor; [|constructor]. const_key. intros _. exact H2.
    + destruct (m_url m); cbn [ofield]; constructor; [|constructor]. const_key. intros _. exact H3.
  - apply Forall_forall. intros f Hf. apply in_map_iff in Hf. destruct Hf as ([key v] & <- & Hin).
    rewrite Forall_forall in Ho. destruct (Ho (key, v) Hin) as (A & B & _). cbn [fst snd].
    split; [exact A|split; [exact B|discriminate]].
  - destruct (uses_idx k); [|constructor]. destruct (m_idx m); cbn [ofield]; constructor; [|constructor].
    const_key. intros _. apply digits_raw_ok, fmt_dec_digits.
Qed.

Lemma steps_app : forall k a b st,
  steps k st (a ++ b) = match steps k st a with Some st' => steps k st' b | None => None end.
Proof.
  intros k. induction a as [|x a IH]; intros b st; [reflexivity|].
  cbn [app steps]. destruct (step k st x); [apply IH|reflexivity].
Qed.

Ltac ev :=
  cbn [steps step bytes_eqb t_ID t_Number t_Type t_Description t_length t_md5 t_URL t_IDX N.eqb Pos.eqb
       andb orb uses_numty uses_desc uses_contig uses_idx s_id s_num s_ty s_desc s_len s_md5 s_url s_idx
       s_others st0 set_once with_others map ofield app fst snd wf_key wf_val F].

(* a written map line is parsed back to the map, for every kind *)
Theorem map_line_roundtrip : forall k m rest, map_ok k m ->
  p_map k (60 :: join 44 (map_fields k m) ++ 62 :: rest) = Some m.
Proof.
  intros k m rest Hok. pose proof (wfs_ok k m Hok) as Hwf.
  unfold p_map. rewrite <- wfs_text.
  rewrite p_map_fields_write; [|unfold wfs; discriminate|exact Hwf].
  destruct Hok as (Hid & Hnt & Hd & Hc & Hi & Ho & Hnd).
  assert (Hstd : Forall (fun kv => is_std k (fst kv) = false) (m_others m)).
  { apply Forall_forall. intros kv Hin. rewrite Forall_forall in Ho. now destruct (Ho kv Hin) as (_ & _ & ?). }
  destruct m as [id num ty desc len md5 url idx others].
  cbn [m_id m_num m_ty m_desc m_len m_md5 m_url m_idx m_others] in *.
  unfold wfs. cbn [m_id m_num m_ty m_desc m_len m_md5 m_url m_idx m_others].
  repeat rewrite map_app. rewrite map_map. cbn [fst snd wf_key wf_val F].
  rewrite (map_ext (fun x : list N * list N => (fst x, snd x)) (fun x => x)) by (intros [? ?]; reflexivity).
  rewrite map_id.
  destruct k; cbn [uses_numty uses_desc uses_contig uses_idx] in *.
  - (* INFO *)
    destruct Hnt as (n & t & -> & -> & Hn & Ht). destruct Hd as (d & ->). destruct Hc as (-> & -> & ->).
    ev. rewrite (p_num_text KInfo n Hn), (p_ty_text KInfo t Ht). ev.
    rewrite steps_app. rewrite steps_others; [|exact Hstd|exact Hnd|intros; reflexivity]. ev.
    destruct idx as [i|]; ev; [rewrite (parse_usize_fmt i Hi); ev|]; reflexivity.
  - (* FORMAT *)
    destruct Hnt as (n & t & -> & -> & Hn & Ht). destruct Hd as (d & ->). destruct Hc as (-> & -> & ->).
    ev. rewrite (p_num_text KFormat n Hn), (p_ty_text KFormat t Ht). ev.
    rewrite steps_app. rewrite steps_others; [|exact Hstd|exact Hnd|intros; reflexivity]. ev.
    destruct idx as [i|]; ev; [rewrite (parse_usize_fmt i Hi); ev|]; reflexivity.
  - (* FILTER *)
    destruct Hnt as (-> & ->). destruct Hd as (d & ->). destruct Hc as (-> & -> & ->).
    ev. rewrite steps_app. rewrite steps_others; [|exact Hstd|exact Hnd|intros; reflexivity]. ev.
    destruct idx as [i|]; ev; [rewrite (parse_usize_fmt i Hi); ev|]; reflexivity.
  - (* ALT *)
    destruct Hnt as (-> & ->). destruct Hd as (d & ->). destruct Hc as (-> & -> & ->). subst idx.
    ev. rewrite app_nil_r. rewrite steps_others; [|exact Hstd|exact Hnd|intros; reflexivity]. ev. reflexivity.
  - (* contig *)
    destruct Hnt as (-> & ->). subst desc. destruct Hc as (Hl & Hm & Hu).
    ev.
    destruct len as [l|]; ev; [rewrite (parse_usize_fmt l Hl); ev|];
      (destruct md5 as [x|]; ev); (destruct url as [u|]; ev);
      rewrite steps_app; (rewrite steps_others; [|exact Hstd|exact Hnd|intros; reflexivity]); ev;
      (destruct idx as [i|]; ev; [rewrite (parse_usize_fmt i Hi); ev|]); reflexivity.
Qed.

(* ---------------------------------------------------------------------------------------- *)
(* witnesses *)

Definition hw_lines_in : list (list N) := [[35; 35; 102; 105; 108; 101; 102; 111; 114; 109; 97; 116; 61; 86; 67; 70; 118; 52; 46; 51]; [35; 35; 73; 78; 70; 79; 61; 60; 78; 117; 109; 98; 101; 114; 61; 43; 49; 44; 73; 68; 61; 100; 112; 44; 84; 121; 112; 101; 61; 73; 110; 116; 101; 103; 101; 114; 44; 68; 101; 115; 99; 114; 105; 112; 116; 105; 111; 110; 61; 34; 100; 34; 62; 116; 114; 97; 105; 108; 105; 110; 103]; [35; 67; 72; 82; 79; 77; 9; 80; 79; 83; 9; 73; 68; 9; 82; 69; 70; 9; 65; 76; 84; 9; 81; 85; 65; 76; 9; 70; 73; 76; 84; 69; 82; 9; 73; 78; 70; 79]].
Definition hw_lines_out : list (list N) := [[35; 35; 102; 105; 108; 101; 102; 111; 114; 109; 97; 116; 61; 86; 67; 70; 118; 52; 46; 51]; [35; 35; 73; 78; 70; 79; 61; 60; 73; 68; 61; 100; 112; 44; 78; 117; 109; 98; 101; 114; 61; 49; 44; 84; 121; 112; 101; 61; 73; 110; 116; 101; 103; 101; 114; 44; 68; 101; 115; 99; 114; 105; 112; 116; 105; 111; 110; 61; 34; 100; 34; 62]; [35; 67; 72; 82; 79; 77; 9; 80; 79; 83; 9; 73; 68; 9; 82; 69; 70; 9; 65; 76; 84; 9; 81; 85; 65; 76; 9; 70; 73; 76; 84; 69; 82; 9; 73; 78; 70; 79]].

(* parse -> write is not a fixed point of the text: field order, a '+' in a number and whatever
   follows the closing '>' are not kept; the rewritten text is one (parse o write o parse = parse) *)
Lemma witness_parse_write_not_fixed :
  exists h, parse_header hw_lines_in = Some h /\ write_header h = Some hw_lines_out /\
            hw_lines_out <> hw_lines_in /\ parse_header hw_lines_out = Some h.
Proof.
  eexists. split; [vm_compute; reflexivity|]. split; [vm_compute; reflexivity|].
  split; [intro X; vm_compute in X; discriminate|vm_compute; reflexivity].
Qed.

(* former defect header-format-number-la-lr-lg-p-m-unparsable (repaired in 3f7219b): the writer emits
   Number=LA (LR, LG, P, M) for a FORMAT map and the parser used to reject the line; now it reads
   it back.  INFO has no such numbers: there the texts are still invalid. *)
Definition m_la : hmap :=
  {| m_id := [103; 113]; m_num := Some HLA; m_ty := Some HInteger; m_desc := Some [100]; m_len := None;
     m_md5 := None; m_url := None; m_idx := None; m_others := [] |}.

Lemma witness_format_number_local :
  p_map KFormat (60 :: join 44 (map_fields KFormat m_la) ++ [62]) = Some m_la /\
  p_num KInfo [76; 65] = None.
Proof. split; vm_compute; reflexivity. Qed.

Lemma format_number_local : forall n, In n [HLA; HLR; HLG; HP; HM] ->
  p_num KFormat (num_text n) = Some n /\ p_num KInfo (num_text n) = None.
Proof. intros n H. cbn in H. repeat (destruct H as [<-|H]; [split; reflexivity|]). destruct H. Qed.

(* ---------------------------------------------------------------------------------------- *)
(* the whole header: lines composed *)

Lemma strip_prefix_app : forall p s, strip_prefix p (p ++ s) = Some s.
Proof. induction p as [|a p IH]; intros s; [reflexivity|]. cbn [app strip_prefix]. rewrite N.eqb_refl. apply IH. Qed.

Lemma p_record_line : forall key v, ~ In 61 key -> p_record (w_line key v) = Some (key, v).
Proof.
  intros key v H. unfold p_record, w_line. cbn [strip_prefix N.eqb Pos.eqb]. now apply split_once_app.
Qed.

Definition get_maps (k : mkind) (h : vheader) : list hmap :=
  match k with KInfo => hh_infos h | KFilter => hh_filters h | KFormat => hh_formats h
             | KAlt => hh_alts h | KContig => hh_contigs h end.

Definition set_maps (k : mkind) (l : list hmap) (h : vheader) : vheader :=
  {| hh_ff := hh_ff h;
     hh_infos := match k with KInfo => l | _ => hh_infos h end;
     hh_filters := match k with KFilter => l | _ => hh_filters h end;
     hh_formats := match k with KFormat => l | _ => hh_formats h end;
     hh_alts := match k with KAlt => l | _ => hh_alts h end;
     hh_contigs := match k with KContig => l | _ => hh_contigs h end;
     hh_others := hh_others h; hh_samples := hh_samples h |}.

Lemma kind_key_no_eq : forall k, ~ In 61 (kind_key k).
Proof. intros []; cbn; intros H; repeat (destruct H as [H|H]; [discriminate|]); destruct H. Qed.

Lemma p_line_map : forall k h m,
  map_ok k m -> existsb (fun x => bytes_eqb (m_id x) (m_id m)) (get_maps k h) = false ->
  p_line h (w_map_line k m) = Some (set_maps k (get_maps k h ++ [m]) h).
Proof.
  intros k h m Hok Hfresh. unfold p_line, w_map_line.
  rewrite (p_record_line (kind_key k) _ (kind_key_no_eq k)).
  pose proof (map_line_roundtrip k m [] Hok) as Hp.
  destruct k; cbn [kind_key bytes_eqb k_fileformat k_INFO k_FILTER k_FORMAT k_ALT k_contig N.eqb Pos.eqb andb get_maps] in *;
    rewrite Hp; unfold add_map; rewrite Hfresh; reflexivity.
Qed.

Lemma existsb_id_fresh : forall (m : hmap) l, ~ In (m_id m) (map m_id l) ->
  existsb (fun x => bytes_eqb (m_id x) (m_id m)) l = false.
Proof.
  intros m l H. destruct (existsb _ l) eqn:E; [|reflexivity]. exfalso.
  apply existsb_exists in E. destruct E as (x & Hx & Hb). apply bytes_eqb_eq in Hb.
  apply H. rewrite <- Hb. now apply in_map.
Qed.

Lemma get_set_maps : forall k l h, get_maps k (set_maps k l h) = l.
Proof. intros [] l h; reflexivity. Qed.

Lemma set_set_maps : forall k l l' h, set_maps k l (set_maps k l' h) = set_maps k l h.
Proof. intros [] l l' h; reflexivity. Qed.

Lemma map_line_not_columns : forall k m, strip_prefix c_CHROM (w_map_line k m) = None.
Proof. intros k m. reflexivity. Qed.

Lemma p_lines_maps : forall k ms h L,
  Forall (map_ok k) ms -> NoDup (map m_id (get_maps k h ++ ms)) ->
  p_lines h (map (w_map_line k) ms ++ L) = p_lines (set_maps k (get_maps k h ++ ms) h) L.
Proof.
  intros k. induction ms as [|m ms IH]; intros h L Hok Hnd.
  - cbn [map app]. rewrite app_nil_r. f_equal. destruct k, h; reflexivity.
  - inversion Hok as [|? ? Hm Hms]; subst. cbn [map app p_lines]. rewrite map_line_not_columns.
    assert (Hfresh : ~ In (m_id m) (map m_id (get_maps k h))).
    { rewrite map_app in Hnd. cbn [map] in Hnd. apply NoDup_remove_2 in Hnd. intro X. apply Hnd.
      apply in_or_app. now left. }
    rewrite (p_line_map k h m Hm (existsb_id_fresh m _ Hfresh)).
    rewrite IH; [|exact Hms|].
    + rewrite get_set_maps, set_set_maps. rewrite <- app_assoc. reflexivity.
    + rewrite get_set_maps. rewrite <- app_assoc. exact Hnd.
Qed.

(* ---- other records: unstructured lines and structured maps ---- *)

Definition set_others (l : list (list N * hcoll)) (h : vheader) : vheader :=
  {| hh_ff := hh_ff h; hh_infos := hh_infos h; hh_filters := hh_filters h; hh_formats := hh_formats h;
     hh_alts := hh_alts h; hh_contigs := hh_contigs h; hh_others := l; hh_samples := hh_samples h |}.

(* a key that is none of the six standard keys *)
Definition okey_nonstd (key : list N) : Prop :=
  ~ In 61 key /\
  (bytes_eqb key k_fileformat || bytes_eqb key k_INFO || bytes_eqb key k_FILTER || bytes_eqb key k_FORMAT ||
   bytes_eqb key k_ALT || bytes_eqb key k_contig) = false.

(* ... and neither META nor PEDIGREE (whose values are always parsed as maps) *)
Definition okey_other (key : list N) : Prop :=
  ~ In 61 key /\
  (bytes_eqb key k_fileformat || bytes_eqb key k_INFO || bytes_eqb key k_FILTER || bytes_eqb key k_FORMAT ||
   bytes_eqb key k_ALT || bytes_eqb key k_contig || bytes_eqb key k_META || bytes_eqb key k_PEDIGREE) = false.

Lemma okey_other_nonstd : forall key, okey_other key -> okey_nonstd key.
Proof.
  intros key [K Hk]. split; [exact K|].
  repeat (apply orb_false_elim in Hk; destruct Hk as [Hk ?]).
  rewrite Hk. repeat match goal with H : bytes_eqb key _ = false |- _ => rewrite H; clear H end. reflexivity.
Qed.

Lemma other_line_not_columns : forall key v, strip_prefix c_CHROM (w_line key v) = None.
Proof. intros. reflexivity. Qed.

Lemma p_line_oval : forall h key t val, okey_nonstd key -> p_other_value (hh_ff h) key t = Some val ->
  p_line h (w_line key t) =
  match add_other key val (hh_others h) with Some ot => Some (set_others ot h) | None => None end.
Proof.
  intros h key t val [K61 Hk] Hv. unfold p_line. rewrite (p_record_line key t K61).
  repeat (apply orb_false_elim in Hk; destruct Hk as [Hk ?]).
  rewrite Hk. repeat match goal with H : bytes_eqb key _ = false |- _ => rewrite H; clear H end.
  rewrite Hv. reflexivity.
Qed.

Lemma p_other_value_str : forall ff key v, okey_other key -> is_map ff v = false ->
  p_other_value ff key v = Some (OVStr v).
Proof.
  intros ff key v [_ Hk] Hm. unfold p_other_value.
  repeat (apply orb_false_elim in Hk; destruct Hk as [Hk ?]).
  repeat match goal with H : bytes_eqb key _ = false |- _ => rewrite H; clear H end.
  rewrite Hm. reflexivity.
Qed.

Definition coll1 (val : oval) : hcoll := match val with OVStr v => CU [v] | OVMap m => CS [m] end.

Lemma add_other_new : forall key val l, ~ In key (map fst l) -> add_other key val l = Some (l ++ [(key, coll1 val)]).
Proof.
  intros key val. induction l as [|[k' c] l IH]; intros H; [reflexivity|].
  cbn [add_other app]. cbn [map fst] in H.
  rewrite bytes_eqb_neq by (intro E; apply H; left; now symmetry).
  rewrite IH; [reflexivity|]. intro X. apply H. now right.
Qed.

Lemma add_other_last_u : forall key v vs l, ~ In key (map fst l) ->
  add_other key (OVStr v) (l ++ [(key, CU vs)]) = Some (l ++ [(key, CU (vs ++ [v]))]).
Proof.
  intros key v vs. induction l as [|[k' c] l IH]; intros H.
  - cbn [app add_other]. now rewrite bytes_eqb_refl.
  - cbn [add_other app]. cbn [map fst] in H.
    rewrite bytes_eqb_neq by (intro E; apply H; left; now symmetry).
    rewrite IH; [reflexivity|]. intro X. apply H. now right.
Qed.

Lemma add_other_last_s : forall key m ms l, ~ In key (map fst l) ->
  existsb (fun x => bytes_eqb (o_id x) (o_id m)) ms = false ->
  add_other key (OVMap m) (l ++ [(key, CS ms)]) = Some (l ++ [(key, CS (ms ++ [m]))]).
Proof.
  intros key m ms. induction l as [|[k' c] l IH]; intros H Hf.
  - cbn [app add_other]. rewrite bytes_eqb_refl, Hf. reflexivity.
  - cbn [add_other app]. cbn [map fst] in H.
    rewrite bytes_eqb_neq by (intro E; apply H; left; now symmetry).
    rewrite IH; [reflexivity| |exact Hf]. intro X. apply H. now right.
Qed.

(* the values of one unstructured group, appended to a group that already holds ws *)
Lemma p_lines_group_tail : forall key vs ws h l L,
  okey_other key -> Forall (fun v => is_map (hh_ff h) v = false) vs ->
  ~ In key (map fst l) -> hh_others h = l ++ [(key, CU ws)] ->
  p_lines h (map (w_line key) vs ++ L) = p_lines (set_others (l ++ [(key, CU (ws ++ vs))]) h) L.
Proof.
  intros key. induction vs as [|v vs IH]; intros ws h l L Hk Hv Hf Ho.
  - cbn [map app]. rewrite app_nil_r. rewrite <- Ho. f_equal. destruct h; reflexivity.
  - inversion Hv as [|? ? H1 H2]; subst. cbn [map app p_lines]. rewrite other_line_not_columns.
    rewrite (p_line_oval h key v (OVStr v) (okey_other_nonstd key Hk) (p_other_value_str _ key v Hk H1)).
    rewrite Ho, (add_other_last_u key v ws l Hf).
    rewrite (IH (ws ++ [v]) (set_others (l ++ [(key, CU (ws ++ [v]))]) h) l L Hk); [|exact H2|exact Hf|reflexivity].
    rewrite <- app_assoc. reflexivity.
Qed.

Lemma p_lines_group : forall key v vs h L,
  okey_other key -> Forall (fun x => is_map (hh_ff h) x = false) (v :: vs) ->
  ~ In key (map fst (hh_others h)) ->
  p_lines h (map (w_line key) (v :: vs) ++ L) = p_lines (set_others (hh_others h ++ [(key, CU (v :: vs))]) h) L.
Proof.
  intros key v vs h L Hk Hv Hf. inversion Hv as [|? ? H1 H2]; subst.
  cbn [map app p_lines]. rewrite other_line_not_columns.
  rewrite (p_line_oval h key v (OVStr v) (okey_other_nonstd key Hk) (p_other_value_str _ key v Hk H1)).
  rewrite (add_other_new key _ _ Hf). cbn [coll1].
  rewrite (p_lines_group_tail key vs [v] (set_others (hh_others h ++ [(key, CU [v])]) h) (hh_others h) L Hk H2 Hf eq_refl).
  reflexivity.
Qed.

(* ---- structured maps: the field loops ---- *)

(* the state of parse_meta / parse_pedigree after one field *)
Definition sstep (ped : bool) (ff : N * N) (st : list N * option (list N) * list (list N * list N))
    (kv : list N * list N) : option (list N * option (list N) * list (list N * list N)) :=
  let '(idtag, id, os) := st in
  let k := fst kv in
  if bytes_eqb k t_ID || (ped && ff_lt_43 ff && (bytes_eqb k s_Child || bytes_eqb k s_Derived)) then
    match id with
    | Some _ => None
    | None => Some ((if bytes_eqb k t_ID then idtag else k), Some (snd kv), os)
    end
  else match assoc k os with Some _ => None | None => Some (idtag, id, os ++ [kv]) end.

Fixpoint ssteps (ped : bool) (ff : N * N) (st : list N * option (list N) * list (list N * list N))
    (fs : list (list N * list N)) : option (list N * option (list N) * list (list N * list N)) :=
  match fs with
  | [] => Some st
  | kv :: t => match sstep ped ff st kv with Some st' => ssteps ped ff st' t | None => None end
  end.

(* the value parser the strict loop selects for a key *)
Definition sval_parser (ped : bool) (ff : N * N) (k : list N) : list N -> option (list N * list N) :=
  if bytes_eqb k t_ID || (ped && ff_lt_43 ff && (bytes_eqb k s_Child || bytes_eqb k s_Derived)) then p_value
  else if negb ped && bytes_eqb k s_Values then p_values else p_value.

(* an abstract written field of the strict loop: key, value, the text written for the value *)
Record sfield := { sf_key : list N; sf_val : list N; sf_vtext : list N }.
Definition sf_text (f : sfield) : list N := sf_key f ++ 61 :: sf_vtext f.
Definition sf_ok (ped : bool) (ff : N * N) (f : sfield) : Prop :=
  ~ In 61 (sf_key f) /\
  forall c r, c = 44 \/ c = 62 ->
    sval_parser ped ff (sf_key f) (sf_vtext f ++ c :: r) = Some (sf_val f, c :: r).

Lemma p_sfields_step : forall fuel ped ff f c r idtag id os, sf_ok ped ff f -> (c = 44 \/ c = 62) ->
  p_sfields (S fuel) ped ff (sf_text f ++ c :: r) idtag id os =
  match sstep ped ff (idtag, id, os) (sf_key f, sf_val f) with
  | None => None
  | Some (a, b, o) => if c =? 44 then p_sfields fuel ped ff r a b o else Some (a, b, o, c :: r)
  end.
Proof.
  intros fuel ped ff f c r idtag id os [K61 Hv] Hc. specialize (Hv c r Hc).
  unfold sf_text. rewrite <- app_assoc. cbn [app p_sfields].
  rewrite (split_once_app 61 (sf_key f) (sf_vtext f ++ c :: r) K61).
  unfold sval_parser in Hv. unfold sstep. cbn [fst snd].
  destruct (bytes_eqb (sf_key f) t_ID || (ped && ff_lt_43 ff && (bytes_eqb (sf_key f) s_Child || bytes_eqb (sf_key f) s_Derived))) eqn:E.
  - rewrite Hv. destruct id; reflexivity.
  - destruct (negb ped && bytes_eqb (sf_key f) s_Values);
      rewrite Hv; destruct (assoc (sf_key f) os); reflexivity.
Qed.

Lemma p_sfields_join : forall ped ff fs fuel rest idtag id os,
  fs <> [] -> Forall (sf_ok ped ff) fs ->
  Nat.le (length (join 44 (map sf_text fs) ++ 62 :: rest)) fuel ->
  p_sfields fuel ped ff (join 44 (map sf_text fs) ++ 62 :: rest) idtag id os =
  match ssteps ped ff (idtag, id, os) (map (fun f => (sf_key f, sf_val f)) fs) with
  | Some (a, b, o) => Some (a, b, o, 62 :: rest)
  | None => None
  end.
Proof.
  intros ped ff. induction fs as [|f fs IH]; intros fuel rest idtag id os Hne Hok Hfuel; [contradiction|].
  inversion Hok as [|? ? Hf Hfs]; subst.
  destruct fs as [|g fs'].
  - cbn [map join] in *.
    destruct fuel as [|fuel]; [rewrite app_length in Hfuel; cbn [length] in Hfuel; unfold Nat.le in Hfuel; lia|].
    rewrite (p_sfields_step fuel ped ff f 62 rest idtag id os Hf (or_intror eq_refl)).
    cbn [ssteps]. destruct (sstep ped ff (idtag, id, os) (sf_key f, sf_val f)) as [[[a b] o]|]; reflexivity.
  - remember (g :: fs') as gs eqn:Egs.
    assert (Hgs : gs <> []) by (subst gs; discriminate).
    assert (Ej : join 44 (map sf_text (f :: gs)) = sf_text f ++ 44 :: join 44 (map sf_text gs)).
    { subst gs. cbn [map]. apply join_cons2. }
    rewrite Ej in *. rewrite <- app_assoc in *. cbn [app] in *.
    destruct fuel as [|fuel]; [rewrite app_length in Hfuel; cbn [length] in Hfuel; unfold Nat.le in Hfuel; lia|].
    rewrite (p_sfields_step fuel ped ff f 44 (join 44 (map sf_text gs) ++ 62 :: rest) idtag id os Hf (or_introl eq_refl)).
    cbn [map ssteps].
    destruct (sstep ped ff (idtag, id, os) (sf_key f, sf_val f)) as [[[a b] o]|]; [|reflexivity].
    cbn [N.eqb Pos.eqb].
    apply IH; [exact Hgs|exact Hfs|].
    rewrite app_length in Hfuel. cbn [length] in Hfuel. unfold Nat.le in *.
    assert (Hl : (length (sf_text f) >= 1)%nat) by (unfold sf_text; rewrite app_length; cbn [length]; lia).
    lia.
Qed.

(* p_values on a written Values text *)
Definition vals_ok (v : list N) : Prop :=
  match v with
  | 91 :: t => exists body, t = body ++ [93] /\ ~ In 93 body
  | _ => raw_ok v
  end.

Lemma p_values_written : forall v c r, vals_ok v -> (c = 44 \/ c = 62) ->
  p_values (v ++ c :: r) = Some (v, c :: r).
Proof.
  intros v c r Hv Hc. unfold p_values.
  destruct v as [|b t].
  - cbn [app]. assert (E : (c =? 91) = false) by lia. rewrite E. now apply (p_value_raw [] c r).
  - cbn [app]. destruct (b =? 91) eqn:Eb.
    + assert (b = 91) by lia. subst b. cbn [vals_ok] in Hv. destruct Hv as (body & -> & Hn).
      replace (91 :: (body ++ [93]) ++ c :: r) with ((91 :: body) ++ 93 :: c :: r)
        by (cbn [app]; rewrite <- app_assoc; reflexivity).
      rewrite split_once_app; [reflexivity|]. intros [X|X]; [discriminate|contradiction].
    + assert (Hraw : raw_ok (b :: t)).
      { unfold vals_ok in Hv. destruct b as [|pb]; [exact Hv|].
        do 7 (destruct pb as [pb|pb|]; try exact Hv). discriminate Eb. }
      apply (p_value_raw (b :: t) c r Hraw Hc).
Qed.

(* ---- structured maps: the conditions and the line round trip ---- *)

Definition ped_idtag (k : list N) : bool := bytes_eqb k s_Child || bytes_eqb k s_Derived.

(* the written fields of a structured map as abstract strict-loop fields *)
Definition sfs (meta : bool) (m : omap) : list sfield :=
  {| sf_key := o_idtag m; sf_val := o_id m; sf_vtext := o_id m |}
  :: map (fun kv => {| sf_key := fst kv; sf_val := snd kv;
                       sf_vtext := if meta && meta_raw_key (fst kv) then snd kv else w_hstring (snd kv) |})
         (o_fields m).

Lemma sfs_text : forall meta m, map sf_text (sfs meta m) = omap_fields meta m.
Proof.
  intros meta m. unfold sfs, omap_fields. cbn [map]. f_equal. rewrite map_map.
  apply map_ext. intros [k v]. unfold sf_text, w_ofield, w_raw_field, w_str_field. cbn [sf_key sf_vtext fst snd].
  destruct (meta && meta_raw_key k); reflexivity.
Qed.

(* what the property asks of a structured map under key [key] and file format [ff] *)
Definition omap_ok (ff : N * N) (key : list N) (m : omap) : Prop :=
  raw_ok (o_id m) /\
  NoDup (map fst (o_fields m)) /\
  Forall (fun kv => ~ In 61 (fst kv) /\ bytes_eqb (fst kv) t_ID = false) (o_fields m) /\
  (if bytes_eqb key k_META then
     o_idtag m = t_ID /\
     Forall (fun kv => meta_raw_key (fst kv) = true ->
                       if bytes_eqb (fst kv) s_Values then vals_ok (snd kv)
                       else raw_ok (snd kv)) (o_fields m)
   else if bytes_eqb key k_PEDIGREE then
     (if ff_lt_43 ff then
        (o_idtag m = t_ID \/ ped_idtag (o_idtag m) = true) /\
        Forall (fun kv => ped_idtag (fst kv) = false) (o_fields m)
      else o_idtag m = t_ID)
   else
     o_idtag m = t_ID /\
     Forall (fun kv => match fst kv with 62 :: _ => False | _ => True end) (o_fields m)).

Lemma ssteps_others : forall ped ff idtag id os fs,
  Forall (fun kv => bytes_eqb (fst kv) t_ID = false /\ (ped && ff_lt_43 ff && ped_idtag (fst kv)) = false) fs ->
  NoDup (map fst fs) -> (forall kv, In kv fs -> assoc (fst kv) os = None) ->
  ssteps ped ff (idtag, id, os) fs = Some (idtag, id, os ++ fs).
Proof.
  intros ped ff idtag id os fs. revert os.
  induction fs as [|[k v] fs IH]; intros os Hk Hnd Hfresh.
  - cbn [ssteps]. now rewrite app_nil_r.
  - inversion Hk as [|? ? [H1 H2] H3]; subst. inversion Hnd as [|? ? N1 N2]; subst. cbn [fst] in *.
    cbn [ssteps]. unfold sstep. cbn [fst snd]. unfold ped_idtag in H2. rewrite H1, H2. cbn [orb].
    pose proof (Hfresh (k, v) (or_introl eq_refl)) as Hf0. cbn [fst] in Hf0. rewrite Hf0.
    rewrite IH; [|exact H3|exact N2|].
    + rewrite <- app_assoc. reflexivity.
    + intros [k2 v2] Hin. cbn [fst]. apply assoc_app_none.
      * apply (Hfresh (k2, v2)). now right.
      * apply bytes_eqb_neq. intro E. subst k2. apply N1. apply in_map_iff. exists (k, v2). split; [reflexivity|exact Hin].
Qed.

Lemma t_ID_no_eq : ~ In 61 t_ID.
Proof. cbn. intros H; repeat (destruct H as [H|H]; [discriminate|]); destruct H. Qed.

Lemma ped_idtag_props : forall k, ped_idtag k = true -> ~ In 61 k /\ bytes_eqb k t_ID = false.
Proof.
  intros k H. unfold ped_idtag in H. apply orb_true_iff in H.
  destruct H as [H|H]; apply bytes_eqb_eq in H; subst k; split; try reflexivity;
    cbn; intros H; repeat (destruct H as [H|H]; [discriminate|]); destruct H.
Qed.

(* META and PEDIGREE lines *)
Lemma p_smap_written : forall ped ff key m rest,
  (ped = false -> key = k_META) -> (ped = true -> key = k_PEDIGREE) -> omap_ok ff key m ->
  p_smap ped ff (60 :: join 44 (omap_fields (negb ped) m) ++ 62 :: rest) = Some m.
Proof.
  intros ped ff key m rest Hm Hp (Hid & Hnd & Hks & Hkind).
  unfold p_smap. cbn [N.eqb Pos.eqb]. rewrite <- sfs_text.
  assert (Hidtag : ~ In 61 (o_idtag m) /\
                   (bytes_eqb (o_idtag m) t_ID || (ped && ff_lt_43 ff && ped_idtag (o_idtag m))) = true /\
                   (if bytes_eqb (o_idtag m) t_ID then t_ID else o_idtag m) = o_idtag m).
  { destruct ped.
    - rewrite (Hp eq_refl) in Hkind. cbn [bytes_eqb k_PEDIGREE k_META N.eqb Pos.eqb andb] in Hkind.
      destruct (ff_lt_43 ff).
      + destruct Hkind as [[E|E] _].
        * rewrite E. split; [exact t_ID_no_eq|split; reflexivity].
        * destruct (ped_idtag_props _ E) as [A B]. split; [exact A|]. rewrite E, B. split; reflexivity.
      + rewrite Hkind. split; [exact t_ID_no_eq|split; reflexivity].
    - rewrite (Hm eq_refl) in Hkind. cbn [bytes_eqb k_META N.eqb Pos.eqb andb] in Hkind.
      destruct Hkind as [E _]. rewrite E. split; [exact t_ID_no_eq|split; reflexivity]. }
  destruct Hidtag as (I61 & Isel & Itag).
  assert (Hok : Forall (sf_ok ped ff) (sfs (negb ped) m)).
  { unfold sfs. constructor.
    - split; [exact I61|]. intros c r Hc. cbn [sf_key sf_vtext sf_val]. unfold sval_parser. unfold ped_idtag in Isel.
      rewrite Isel. now apply p_value_raw.
    - apply Forall_forall. intros f Hf. apply in_map_iff in Hf. destruct Hf as ([k v] & <- & Hin).
      rewrite Forall_forall in Hks. destruct (Hks (k, v) Hin) as [K61 Kid]. cbn [fst snd] in *.
      split; [exact K61|]. intros c r Hc. cbn [sf_key sf_vtext sf_val]. unfold sval_parser. rewrite Kid. cbn [orb].
      destruct ped.
      + cbn [negb andb]. destruct (ff_lt_43 ff && (bytes_eqb k s_Child || bytes_eqb k s_Derived)); apply p_value_hstring.
      + cbn [negb andb orb]. rewrite (Hm eq_refl) in Hkind. cbn [bytes_eqb k_META N.eqb Pos.eqb andb] in Hkind.
        destruct Hkind as [_ Hvals]. rewrite Forall_forall in Hvals. specialize (Hvals (k, v) Hin). cbn [fst snd] in Hvals.
        destruct (meta_raw_key k) eqn:Er.
        * specialize (Hvals eq_refl).
          destruct (bytes_eqb k s_Values); [now apply p_values_written|now apply p_value_raw].
        * assert (Ev : bytes_eqb k s_Values = false).
          { unfold meta_raw_key in Er. apply orb_false_elim in Er. now destruct Er. }
          rewrite Ev. apply p_value_hstring. }
  rewrite p_sfields_join; [|unfold sfs; discriminate|exact Hok|].
  2:{ unfold Nat.le. cbn [length]. lia. }
  unfold sfs. cbn [map sf_key sf_val ssteps]. unfold sstep at 1. cbn [fst snd]. unfold ped_idtag in Isel. rewrite Isel.
  rewrite Itag. rewrite map_map. cbn [sf_key sf_val].
  rewrite (map_ext (fun x : list N * list N => (fst x, snd x)) (fun x => x)) by (intros [? ?]; reflexivity).
  rewrite map_id.
  rewrite ssteps_others; [destruct m; reflexivity| |exact Hnd|intros; reflexivity].
  apply Forall_forall. intros [k v] Hin. rewrite Forall_forall in Hks. destruct (Hks (k, v) Hin) as [_ Kid].
  cbn [fst] in *. split; [exact Kid|].
  destruct ped; [|reflexivity]. cbn [andb]. destruct (ff_lt_43 ff) eqn:Eff; [|reflexivity]. cbn [andb].
  rewrite (Hp eq_refl) in Hkind. cbn [bytes_eqb k_PEDIGREE k_META N.eqb Pos.eqb andb] in Hkind.
  destruct Hkind as [_ Hped]. rewrite Forall_forall in Hped. exact (Hped (k, v) Hin).
Qed.

(* any other ##key=<ID=..> line: the split_field loop *)
Lemma o_steps_others : forall id os fs,
  Forall (fun kv => bytes_eqb (fst kv) t_ID = false) fs ->
  NoDup (map fst fs) -> (forall kv, In kv fs -> assoc (fst kv) os = None) ->
  o_steps id os fs = Some (id, os ++ fs).
Proof.
  intros id os fs. revert os.
  induction fs as [|[k v] fs IH]; intros os Hk Hnd Hfresh.
  - cbn [o_steps]. now rewrite app_nil_r.
  - inversion Hk as [|? ? H1 H3]; subst. inversion Hnd as [|? ? N1 N2]; subst. cbn [fst] in *.
    cbn [o_steps]. rewrite H1. pose proof (Hfresh (k, v) (or_introl eq_refl)) as Hf0. cbn [fst] in Hf0. rewrite Hf0.
    rewrite IH; [|exact H3|exact N2|].
    + rewrite <- app_assoc. reflexivity.
    + intros [k2 v2] Hin. cbn [fst]. apply assoc_app_none.
      * apply (Hfresh (k2, v2)). now right.
      * apply bytes_eqb_neq. intro E. subst k2. apply N1. apply in_map_iff. exists (k, v2). split; [reflexivity|exact Hin].
Qed.

Lemma p_omap_written : forall ff key m rest,
  bytes_eqb key k_META = false -> bytes_eqb key k_PEDIGREE = false -> omap_ok ff key m ->
  p_omap (60 :: join 44 (omap_fields false m) ++ 62 :: rest) = Some m.
Proof.
  intros ff key m rest Hm Hp (Hid & Hnd & Hks & Hkind). rewrite Hm, Hp in Hkind. destruct Hkind as [Etag Hgt].
  unfold p_omap.
  pose (fs := F t_ID (o_id m) false :: map (fun kv => F (fst kv) (snd kv) true) (o_fields m)).
  assert (Et : map wf_text fs = omap_fields false m).
  { unfold fs, omap_fields. cbn [map]. rewrite Etag. f_equal. rewrite map_map. apply map_ext. intros [k v]. reflexivity. }
  rewrite <- Et. rewrite p_map_fields_write; [|unfold fs; discriminate|].
  - unfold fs. cbn [map wf_key wf_val F o_steps bytes_eqb t_ID N.eqb Pos.eqb andb]. rewrite map_map. cbn [wf_key wf_val F].
    rewrite (map_ext (fun x : list N * list N => (fst x, snd x)) (fun x => x)) by (intros [? ?]; reflexivity).
    rewrite map_id. rewrite o_steps_others; [rewrite <- Etag; destruct m; reflexivity| |exact Hnd|intros; reflexivity].
    apply Forall_forall. intros kv Hin. rewrite Forall_forall in Hks. now destruct (Hks kv Hin).
  - unfold fs. constructor.
    + const_key. intros _. exact Hid.
    + apply Forall_forall. intros f Hf. apply in_map_iff in Hf. destruct Hf as ([k v] & <- & Hin).
      rewrite Forall_forall in Hks, Hgt. destruct (Hks (k, v) Hin) as [A _]. specialize (Hgt (k, v) Hin).
      cbn [fst snd] in *. split; [exact A|split; [exact Hgt|discriminate]].
Qed.

Lemma has_infix_prefix : forall q s x, strip_prefix q s = Some x -> has_infix q s = true.
Proof. intros q s x H. destruct s; cbn [has_infix]; rewrite H; reflexivity. Qed.

Lemma has_infix_here : forall q a r, has_infix q (a :: q ++ r) = true.
Proof.
  intros q a r. cbn [has_infix]. destruct (strip_prefix q (a :: q ++ r)); [reflexivity|].
  apply (has_infix_prefix q (q ++ r) r), strip_prefix_app.
Qed.

(* the value of a written structured line, for every key *)
Lemma p_other_value_map : forall ff key m, omap_ok ff key m ->
  p_other_value ff key (60 :: join 44 (omap_fields (bytes_eqb key k_META) m) ++ [62]) = Some (OVMap m).
Proof.
  intros ff key m Hok. unfold p_other_value.
  destruct (bytes_eqb key k_META) eqn:Em.
  - apply bytes_eqb_eq in Em. unfold p_meta.
    pose proof (p_smap_written false ff key m [] (fun _ => Em) (fun X => ltac:(discriminate X)) Hok) as X.
    cbn [negb] in X. rewrite X. reflexivity.
  - destruct (bytes_eqb key k_PEDIGREE) eqn:Ep.
    + apply bytes_eqb_eq in Ep. unfold p_pedigree.
      pose proof (p_smap_written true ff key m [] (fun X => ltac:(discriminate X)) (fun _ => Ep) Hok) as X.
      cbn [negb] in X. rewrite X. reflexivity.
    + assert (Emap : is_map ff (60 :: join 44 (omap_fields false m) ++ [62]) = true).
      { unfold is_map. cbn [N.eqb Pos.eqb andb]. destruct (ff_lt_43 ff); [|reflexivity].
        pose proof Hok as (_ & _ & _ & Hkind). rewrite Em, Ep in Hkind. destruct Hkind as [Etag _].
        unfold omap_fields, w_raw_field. rewrite Etag.
        destruct (map (w_ofield false) (o_fields m)) as [|g gs].
        - cbn [join]. rewrite <- app_assoc. apply (has_infix_here s_IDeq 60).
        - rewrite join_cons2. repeat rewrite <- app_assoc. apply (has_infix_here s_IDeq 60). }
      rewrite Emap. rewrite (p_omap_written ff key m [] Em Ep Hok). reflexivity.
Qed.

(* the maps of one structured group, appended to a group that already holds ws *)
Lemma existsb_oid_fresh : forall (m : omap) l, ~ In (o_id m) (map o_id l) ->
  existsb (fun x => bytes_eqb (o_id x) (o_id m)) l = false.
Proof.
  intros m l H. destruct (existsb _ l) eqn:E; [|reflexivity]. exfalso.
  apply existsb_exists in E. destruct E as (x & Hx & Hb). apply bytes_eqb_eq in Hb.
  apply H. rewrite <- Hb. now apply in_map.
Qed.

Lemma omap_line_not_columns : forall key m, strip_prefix c_CHROM (w_omap_line key m) = None.
Proof. intros. reflexivity. Qed.

Lemma p_line_omap : forall h key m, okey_nonstd key -> omap_ok (hh_ff h) key m ->
  p_line h (w_omap_line key m) =
  match add_other key (OVMap m) (hh_others h) with Some ot => Some (set_others ot h) | None => None end.
Proof.
  intros h key m Hk Hok. unfold w_omap_line. apply (p_line_oval h key _ (OVMap m) Hk (p_other_value_map _ key m Hok)).
Qed.

Lemma p_lines_sgroup_tail : forall key ms ws h l L,
  okey_nonstd key -> Forall (omap_ok (hh_ff h) key) ms -> NoDup (map o_id (ws ++ ms)) ->
  ~ In key (map fst l) -> hh_others h = l ++ [(key, CS ws)] ->
  p_lines h (map (w_omap_line key) ms ++ L) = p_lines (set_others (l ++ [(key, CS (ws ++ ms))]) h) L.
Proof.
  intros key. induction ms as [|m ms IH]; intros ws h l L Hk Hv Hnd Hf Ho.
  - cbn [map app]. rewrite app_nil_r. rewrite <- Ho. f_equal. destruct h; reflexivity.
  - inversion Hv as [|? ? H1 H2]; subst. cbn [map app p_lines]. rewrite omap_line_not_columns.
    rewrite (p_line_omap h key m Hk H1).
    assert (Hfresh : ~ In (o_id m) (map o_id ws)).
    { rewrite map_app in Hnd. cbn [map] in Hnd. apply NoDup_remove_2 in Hnd. intro X. apply Hnd. apply in_or_app. now left. }
    rewrite Ho, (add_other_last_s key m ws l Hf (existsb_oid_fresh m ws Hfresh)).
    rewrite (IH (ws ++ [m]) (set_others (l ++ [(key, CS (ws ++ [m]))]) h) l L Hk); [|exact H2| |exact Hf|reflexivity].
    + rewrite <- app_assoc. reflexivity.
    + rewrite <- app_assoc. exact Hnd.
Qed.

Lemma p_lines_sgroup : forall key m ms h L,
  okey_nonstd key -> Forall (omap_ok (hh_ff h) key) (m :: ms) -> NoDup (map o_id (m :: ms)) ->
  ~ In key (map fst (hh_others h)) ->
  p_lines h (map (w_omap_line key) (m :: ms) ++ L) = p_lines (set_others (hh_others h ++ [(key, CS (m :: ms))]) h) L.
Proof.
  intros key m ms h L Hk Hv Hnd Hf. inversion Hv as [|? ? H1 H2]; subst.
  cbn [map app p_lines]. rewrite omap_line_not_columns.
  rewrite (p_line_omap h key m Hk H1).
  rewrite (add_other_new key _ _ Hf). cbn [coll1].
  rewrite (p_lines_sgroup_tail key ms [m] (set_others (hh_others h ++ [(key, CS [m])]) h) (hh_others h) L Hk H2 Hnd Hf eq_refl).
  reflexivity.
Qed.

(* a group of other records the property quantifies over: not empty (an empty collection is
   written as no line at all); unstructured values under a key other than META / PEDIGREE that
   the parser does not take for a map; structured maps with distinct IDs *)
Definition group_ok (ff : N * N) (g : list N * hcoll) : Prop :=
  match snd g with
  | CU vs => okey_other (fst g) /\ vs <> [] /\ Forall (fun v => is_map ff v = false) vs
  | CS ms => okey_nonstd (fst g) /\ ms <> [] /\ Forall (omap_ok ff (fst g)) ms /\ NoDup (map o_id ms)
  end.

Lemma w_other_group_lines : forall ff key vs ls, w_other_group ff (key, CU vs) = Some ls ->
  ls = map (w_line key) vs.
Proof.
  intros ff key vs ls. unfold w_other_group. cbn [fst snd]. revert ls.
  induction vs as [|v vs IH]; intros ls H; cbn [map sequence] in H.
  - inversion H. reflexivity.
  - destruct (w_other_value ff v) as [t|] eqn:E; [|discriminate].
    destruct (sequence (map _ vs)) as [r|] eqn:Er; [|discriminate]. inversion H; subst ls.
    cbn [map]. f_equal; [|now apply IH].
    unfold w_other_value in E. destruct (ff_lt_43 ff); [now inversion E|].
    destruct v as [|b t0]; [discriminate|]. destruct (b =? 60); [discriminate|now inversion E].
Qed.

Lemma p_lines_groups : forall gs h groups L,
  Forall (group_ok (hh_ff h)) gs -> NoDup (map fst (hh_others h ++ gs)) ->
  sequence (map (w_other_group (hh_ff h)) gs) = Some groups ->
  p_lines h (concat groups ++ L) = p_lines (set_others (hh_others h ++ gs) h) L.
Proof.
  induction gs as [|[key c] gs IH]; intros h groups L Hok Hnd Hs; cbn [map sequence] in Hs.
  - inversion Hs. cbn [concat app]. rewrite app_nil_r. f_equal. destruct h; reflexivity.
  - inversion Hok as [|? ? Hg Hgs]; subst. unfold group_ok in Hg. cbn [fst snd] in *.
    destruct (w_other_group (hh_ff h) (key, c)) as [ls|] eqn:Eg; [|discriminate].
    destruct (sequence (map (w_other_group (hh_ff h)) gs)) as [r|] eqn:Er; [|discriminate].
    inversion Hs; subst groups. cbn [concat]. rewrite <- app_assoc.
    assert (Hf : ~ In key (map fst (hh_others h))).
    { rewrite map_app in Hnd. cbn [map fst] in Hnd. apply NoDup_remove_2 in Hnd. intro X. apply Hnd.
      apply in_or_app. now left. }
    destruct c as [vs|ms].
    + destruct Hg as (Hk & Hne & Hv).
      rewrite (w_other_group_lines _ _ _ _ Eg).
      destruct vs as [|v vs]; [contradiction|].
      rewrite (p_lines_group key v vs h _ Hk Hv Hf).
      rewrite (IH _ r L); [| exact Hgs | | exact Er].
      * cbn [set_others hh_others]. rewrite <- app_assoc. reflexivity.
      * cbn [set_others hh_others]. rewrite <- app_assoc. exact Hnd.
    + destruct Hg as (Hk & Hne & Hv & Hids).
      unfold w_other_group in Eg. cbn [fst snd] in Eg. inversion Eg; subst ls.
      destruct ms as [|m ms]; [contradiction|].
      rewrite (p_lines_sgroup key m ms h _ Hk Hv Hids Hf).
      rewrite (IH _ r L); [| exact Hgs | | exact Er].
      * cbn [set_others hh_others]. rewrite <- app_assoc. reflexivity.
      * cbn [set_others hh_others]. rewrite <- app_assoc. exact Hnd.
Qed.

(* ---- fileformat and #CHROM lines, and the whole header ---- *)

Lemma p_u32_fmt : forall n, n < 4294967296 -> p_u32 (fmt_dec n) = Some n.
Proof.
  intros n H. unfold p_u32. pose proof (fmt_dec_nonempty n) as Hne.
  destruct (fmt_dec n) as [|b t] eqn:E; [contradiction|]. rewrite <- E. rewrite parse_dec_fmt.
  assert (Hlt : (n <? 4294967296) = true) by lia. now rewrite Hlt.
Qed.

Lemma p_fileformat_write : forall a b, a < 4294967296 -> b < 4294967296 ->
  p_record (w_fileformat (a, b)) = Some (k_fileformat, s_VCFv ++ fmt_dec a ++ 46 :: fmt_dec b) /\
  p_fileformat_value (s_VCFv ++ fmt_dec a ++ 46 :: fmt_dec b) = Some (a, b).
Proof.
  intros a b Ha Hb. split.
  - unfold w_fileformat. cbn [fst snd]. apply p_record_line.
    cbn. intros H; repeat (destruct H as [H|H]; [discriminate|]); destruct H.
  - unfold p_fileformat_value. rewrite strip_prefix_app.
    rewrite split_once_app by (apply fmt_dec_avoids; lia).
    rewrite (p_u32_fmt a Ha), (p_u32_fmt b Hb). reflexivity.
Qed.

Definition set_samples (l : list (list N)) (h : vheader) : vheader :=
  {| hh_ff := hh_ff h; hh_infos := hh_infos h; hh_filters := hh_filters h; hh_formats := hh_formats h;
     hh_alts := hh_alts h; hh_contigs := hh_contigs h; hh_others := hh_others h; hh_samples := l |}.

Lemma columns8_no_tab : Forall (fun p => ~ In 9 p) columns8.
Proof. repeat constructor; cbn; intros H; repeat (destruct H as [H|H]; [discriminate|]); destruct H. Qed.

Lemma p_lines_columns : forall h samples,
  Forall (fun s => ~ In 9 s) samples -> NoDup samples ->
  p_lines h [w_columns samples] = Some (set_samples samples h).
Proof.
  intros h samples Ht Hnd. cbn [p_lines].
  assert (Hpre : strip_prefix c_CHROM (w_columns samples) <> None).
  { unfold w_columns. destruct samples; cbn [columns8 app]; rewrite join_cons2; rewrite strip_prefix_app; discriminate. }
  destruct (strip_prefix c_CHROM (w_columns samples)); [|contradiction].
  assert (Hc : p_columns (w_columns samples) = Some samples).
  { unfold p_columns, w_columns.
    assert (Hall : Forall (fun p => ~ In 9 p) (columns8 ++ match samples with [] => [] | _ => k_FORMAT :: samples end)).
    { apply Forall_app. split; [exact columns8_no_tab|]. destruct samples; [constructor|].
      constructor; [cbn; intros H; repeat (destruct H as [H|H]; [discriminate|]); destruct H|exact Ht]. }
    rewrite split_all_join; [|discriminate|exact Hall].
    destruct samples as [|s0 ss].
    - reflexivity.
    - cbn [columns8 app]. cbn [seq forallb nth length Nat.leb andb skipn].
      repeat rewrite bytes_eqb_refl. cbn [andb]. rewrite has_dup_nodup by exact Hnd. reflexivity. }
  rewrite Hc. reflexivity.
Qed.

Definition header_ok (h : vheader) : Prop :=
  fst (hh_ff h) < 4294967296 /\ snd (hh_ff h) < 4294967296 /\
  (forall k, Forall (map_ok k) (get_maps k h) /\ NoDup (map m_id (get_maps k h))) /\
  Forall (group_ok (hh_ff h)) (hh_others h) /\ NoDup (map fst (hh_others h)) /\
  Forall (fun s => ~ In 9 s) (hh_samples h) /\ NoDup (hh_samples h).

Definition h_init (ff : N * N) : vheader :=
  {| hh_ff := ff; hh_infos := []; hh_filters := []; hh_formats := []; hh_alts := []; hh_contigs := [];
     hh_others := []; hh_samples := [] |}.

(* write -> parse identity for the whole header *)
Theorem header_roundtrip : forall h ls, header_ok h -> write_header h = Some ls -> parse_header ls = Some h.
Proof.
  intros h ls (Ha & Hb & Hmaps & Hgs & Hgnd & Hst & Hsnd) Hw.
  unfold write_header in Hw.
  destruct (sequence (map (w_other_group (hh_ff h)) (hh_others h))) as [groups|] eqn:Eg; [|discriminate].
  inversion Hw; subst ls. clear Hw.
  destruct h as [[a b] infos filters formats alts contigs others samples].
  cbn [hh_ff hh_infos hh_filters hh_formats hh_alts hh_contigs hh_others hh_samples fst snd] in *.
  destruct (p_fileformat_write a b Ha Hb) as [Pr Pv].
  unfold parse_header. rewrite Pr. cbn [bytes_eqb k_fileformat N.eqb Pos.eqb andb]. rewrite Pv.
  fold (h_init (a, b)).
  pose proof (Hmaps KInfo) as [M1 N1]. pose proof (Hmaps KFilter) as [M2 N2]. pose proof (Hmaps KFormat) as [M3 N3].
  pose proof (Hmaps KAlt) as [M4 N4]. pose proof (Hmaps KContig) as [M5 N5].
  cbn [get_maps hh_infos hh_filters hh_formats hh_alts hh_contigs] in *.
  rewrite (p_lines_maps KInfo infos); [|exact M1|exact N1].
  rewrite (p_lines_maps KFilter filters); [|exact M2|exact N2].
  rewrite (p_lines_maps KFormat formats); [|exact M3|exact N3].
  rewrite (p_lines_maps KAlt alts); [|exact M4|exact N4].
  rewrite (p_lines_maps KContig contigs); [|exact M5|exact N5].
  rewrite (p_lines_groups others _ groups); [|exact Hgs|exact Hgnd|exact Eg].
  rewrite (p_lines_columns _ samples Hst Hsnd). reflexivity.
Qed.

(* ---------------------------------------------------------------------------------------- *)
(* structured other records: witnesses *)

(* "Assay" "[WholeGenome, Exome]" etc. as bytes *)
Definition x_meta (ff : N * N) : vheader :=
  {| hh_ff := ff; hh_infos := []; hh_filters := []; hh_formats := []; hh_alts := []; hh_contigs := [];
     hh_others := [(k_META, CS [{| o_idtag := t_ID; o_id := [65; 115; 115; 97; 121];
                                    o_fields := [(t_Type, s_String); (t_Number, [46]);
                                                 (s_Values, [91; 87; 71; 44; 32; 69; 120; 93]);
                                                 ([68], [100; 34; 113])] |}]);
                   ([110; 111; 116; 101], CU [[120]]);
                   (k_PEDIGREE, CS [{| o_idtag := t_ID; o_id := [99; 49]; o_fields := [([70], [102; 49]); ([77], [109; 44; 49])] |};
                                    {| o_idtag := t_ID; o_id := [99; 50]; o_fields := [] |}]);
                   ([83; 65; 77; 80; 76; 69], CS [{| o_idtag := t_ID; o_id := [115]; o_fields := [([71], [62; 60])] |}])];
     hh_samples := [] |}.

(* a 4.3 header with META (Values list, raw Number / Type), an unstructured line, PEDIGREE and
   SAMPLE maps: inside header_ok, written and parsed back *)
Lemma x_meta_ok : header_ok (x_meta (4, 3)).
Proof.
  unfold header_ok, x_meta. cbn [hh_ff hh_infos hh_filters hh_formats hh_alts hh_contigs hh_others hh_samples fst snd].
  split; [reflexivity|]. split; [reflexivity|]. split.
  { intros []; cbn [get_maps hh_infos hh_filters hh_formats hh_alts hh_contigs map]; split; constructor. }
  split; [|split; [|split; constructor]].
  - repeat constructor; unfold group_ok, okey_nonstd, okey_other, omap_ok, raw_ok, vals_ok; cbn -[In];
      repeat split; try discriminate; try exact I; try reflexivity;
      try (intros H; cbn in H; repeat (destruct H as [H|H]; [discriminate|]); destruct H);
      try (repeat constructor; cbn; try (intros H; repeat (destruct H as [H|H]; [discriminate|]); destruct H); try discriminate; try reflexivity; try exact I).
    all: try (exists [87; 71; 44; 32; 69; 120]; split; [reflexivity|]; cbn; intros H; repeat (destruct H as [H|H]; [discriminate|]); destruct H).
    all: let X := fresh "X" in intros X; cbn in X; repeat (destruct X as [X|X]; [discriminate X|]); destruct X.
  - repeat constructor; cbn; intros H; repeat (destruct H as [H|H]; [discriminate|]); destruct H.
Qed.

Lemma witness_structured_roundtrip :
  exists ls, write_header (x_meta (4, 3)) = Some ls /\ parse_header ls = Some (x_meta (4, 3)) /\ length ls = 7%nat.
Proof. eexists. split; [vm_compute; reflexivity|]. split; vm_compute; reflexivity. Qed.

(* FORMER DEFECT header-meta-values-list-before-4.3-unparsable (repaired in 1f7dac7: parse_meta
   reads the Values list for every file format): the same value under VCF 4.2 is written with the
   same lines and now parsed back; it is inside header_ok (vals_ok is asked of Values whatever the
   file format) *)
Lemma x_meta_ok_42 : header_ok (x_meta (4, 2)).
Proof.
  unfold header_ok, x_meta. cbn [hh_ff hh_infos hh_filters hh_formats hh_alts hh_contigs hh_others hh_samples fst snd].
  split; [reflexivity|]. split; [reflexivity|]. split.
  { intros []; cbn [get_maps hh_infos hh_filters hh_formats hh_alts hh_contigs map]; split; constructor. }
  split; [|split; [|split; constructor]].
  - repeat constructor; unfold group_ok, okey_nonstd, okey_other, omap_ok, raw_ok, vals_ok; cbn -[In];
      repeat split; try discriminate; try exact I; try reflexivity;
      try (intros H; cbn in H; repeat (destruct H as [H|H]; [discriminate|]); destruct H);
      try (repeat constructor; cbn; try (intros H; repeat (destruct H as [H|H]; [discriminate|]); destruct H); try discriminate; try reflexivity; try exact I).
    all: try (exists [87; 71; 44; 32; 69; 120]; split; [reflexivity|]; cbn; intros H; repeat (destruct H as [H|H]; [discriminate|]); destruct H).
    all: let X := fresh "X" in intros X; cbn in X; repeat (destruct X as [X|X]; [discriminate X|]); destruct X.
  - repeat constructor; cbn; intros H; repeat (destruct H as [H|H]; [discriminate|]); destruct H.
Qed.

Lemma witness_meta_values_before_43 :
  exists ls, write_header (x_meta (4, 2)) = Some ls /\ parse_header ls = Some (x_meta (4, 2)) /\
    (exists ls', write_header (x_meta (4, 3)) = Some ls' /\ tl ls' = tl ls).
Proof.
  eexists. split; [vm_compute; reflexivity|]. split; [vm_compute; reflexivity|].
  eexists. split; vm_compute; reflexivity.
Qed.
