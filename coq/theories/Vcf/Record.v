(* C09 -- the span-relevant part of a record taken through the text: the INFO fields END and
   SVLEN and the FORMAT column LEN are written with the model writer and read back with the model
   of the eager (RecordBuf) or of the lazy (vcf::Record) reader; variant_end / variant_span are
   then computed on what was read.  Definitions only. *)
From Coq Require Import List NArith ZArith Bool.
From NV Require Import Base.Percent Text.TextBase Vcf.Values Vcf.Span.
Import ListNotations.
Open Scope N_scope.

Section WithFloat.
Variable fmt_float : N -> list N.
Variable prs_float : list N -> option N.

Definition key_end : list N := [69; 78; 68].
Definition key_svlen : list N := [83; 86; 76; 69; 78].

(* None = the writer rejects; Some None = the reader rejects; Some (Some x) = what is read *)
Definition reread_info (lazy : bool) (num : vnumber) (key : list N) (o : option (option value))
  : option (option (option (option value))) :=
  match o with
  | None => Some (Some None)
  | Some ov =>
      match write_info_field fmt_float key ov with
      | None => None
      | Some t =>
          match parse_info_field prs_float lazy num TInteger t with
          | Some r => Some (Some (Some r))
          | None => Some None
          end
      end
  end.

Definition len_def : list fdef := [FDef (NCount 1) TInteger].

Definition reread_len1 (lazy : bool) (v : option value) : option (option (option value)) :=
  match write_sample fmt_float false [v] with
  | None => None
  | Some t =>
      match (if lazy then parse_sample_lazy prs_float len_def t
             else parse_sample_eager prs_float len_def t) with
      | Some vs => Some (Some (match vs with x :: _ => x | [] => None end))
      | None => Some None
      end
  end.

Fixpoint reread_lens (lazy : bool) (l : list (option value))
  : option (option (list (option value))) :=
  match l with
  | [] => Some (Some [])
  | v :: t =>
      match reread_len1 lazy v, reread_lens lazy t with
      | Some (Some x), Some (Some r) => Some (Some (x :: r))
      | None, _ | _, None => None
      | _, _ => Some None
      end
  end.

Inductive view := VWErr | VRErr | VOk (r : span_in).

(* svlen_arr: SVLEN is Number=. (4.2 header line / 4.3 reserved definition) or Number=A (4.4+);
   both select the array grammar *)
Definition reread (lazy : bool) (r : span_in) : view :=
  let e := reread_info lazy (NCount 1) key_end (si_end r) in
  let s := reread_info lazy NOther key_svlen (si_svlen r) in
  let l := match si_len r with
           | None => Some (Some None)
           | Some ls => match reread_lens lazy ls with
                        | Some (Some x) => Some (Some (Some x))
                        | Some None => Some None
                        | None => None
                        end
           end in
  match e, s, l with
  | None, _, _ | _, None, _ | _, _, None => VWErr
  | Some (Some e'), Some (Some s'), Some (Some l') =>
      VOk {| si_pos := si_pos r; si_reflen := si_reflen r; si_end := e'; si_svlen := s'; si_len := l' |}
  | _, _, _ => VRErr
  end.

End WithFloat.
