(* C09 -- sample columns: values written by write_sample come back through parse_sample_eager /
   parse_sample_lazy (trailing values may be absent; a missing value is "."). *)
From Coq Require Import List NArith ZArith Bool Lia ZifyBool ZifyN.
From NV Require Import Base.Percent Text.TextBase Text.TextBaseProofs Vcf.Values Vcf.ValuesProofs
  Vcf.GenotypeProofs.
Import ListNotations.
Open Scope N_scope.

Section F.
Variable fmt_float : N -> list N.
Variable prs_float : list N -> option N.
Variable FOK : N -> Prop.
Hypothesis float_rt : forall b, FOK b -> prs_float (fmt_float b) = Some b.
Hypothesis float_chars : forall b x, FOK b -> In x (fmt_float b) ->
  x <> 44 /\ x <> 9 /\ x <> 10 /\ x <> 59 /\ x <> 58.
Hypothesis float_not_dot : forall b, FOK b -> fmt_float b <> dot.
Hypothesis float_nonempty : forall b, FOK b -> fmt_float b <> [].

(* a value fits its FORMAT key (FORMAT has no Flag type); the haploid missing genotype before
   4.4 (text ".") is outside: it reads back as a missing value *)
Definition sval_ok (v44 : bool) (d : fdef) (v : value) : Prop :=
  match d, v with
  | FGt, VGenotype g => gt_ok g /\ write_genotype v44 g <> dot
  | FGt, _ => False
  | FDef num ty, v => val_ok FOK v /\ typed num ty v /\ v <> VFlag
  end.

Definition norm_value (v44 : bool) (v : value) : value :=
  match v with
  | VGenotype g => if v44 then v else VGenotype (normalize_first g)
  | _ => v
  end.

Definition one_text (v44 : bool) (o : option value) : option (list N) :=
  match o with None => Some dot | Some v => write_value fmt_float CFormat v44 v end.

Theorem sample_value_roundtrip : forall lazy v44 d o t,
  match o with Some v => sval_ok v44 d v | None => True end ->
  one_text v44 o = Some t ->
  parse_sample_value prs_float lazy d t = Some (option_map (norm_value v44) o).
Proof.
  intros lazy v44 d o t Hok Hw. destruct o as [v|]; cbn [one_text option_map] in *.
  2:{ inversion Hw; subst t. unfold parse_sample_value. now rewrite bytes_eqb_refl. }
  unfold parse_sample_value. destruct d as [|num ty].
  - destruct v; cbn [sval_ok] in Hok; try contradiction. destruct Hok as [Hg Hnd].
    cbn [write_value] in Hw. inversion Hw; subst t. rewrite (bytes_eqb_neq _ _ Hnd).
    rewrite (genotype_lazy_eq_eager v44 g Hg). cbn [norm_value].
    destruct v44.
    + rewrite (genotype_roundtrip_v44 g Hg). destruct lazy; reflexivity.
    + rewrite (genotype_roundtrip_pre44 g Hg). destruct lazy; reflexivity.
  - cbn [sval_ok] in Hok. destruct Hok as (Hv & Hty & Hnf).
    rewrite (bytes_eqb_neq _ _ (value_not_dot fmt_float FOK float_not_dot CFormat v44 v t Hv Hnf Hw)).
    rewrite (value_roundtrip fmt_float prs_float FOK float_rt float_chars float_not_dot float_nonempty
               CFormat lazy v44 num ty v t Hv Hty Hnf Hw).
    destruct v; try reflexivity. cbn in Hty. contradiction.
Qed.


(* the values of one sample fit a prefix of the FORMAT keys *)
Fixpoint fits (v44 : bool) (ds : list fdef) (vs : list (option value)) : Prop :=
  match vs, ds with
  | [], _ => True
  | o :: vs', d :: ds' =>
      match o with Some v => sval_ok v44 d v | None => True end /\ fits v44 ds' vs'
  | _ :: _, [] => False
  end.

Lemma one_text_no_colon : forall v44 d o t,
  match o with Some v => sval_ok v44 d v | None => True end ->
  one_text v44 o = Some t -> ~ In 58 t.
Proof.
  intros v44 d o t Hok Hw. destruct o as [v|]; cbn [one_text] in Hw.
  2:{ inversion Hw. cbn. intros [H|[]]. discriminate. }
  destruct d as [|num ty].
  - destruct v; cbn [sval_ok] in Hok; try contradiction. cbn [write_value] in Hw. inversion Hw; subst t.
    intro Hin. apply write_genotype_chars in Hin. lia.
  - cbn [sval_ok] in Hok. destruct Hok as (Hv & _ & _).
    eapply (value_avoids fmt_float FOK float_chars CFormat v44 v t 58 Hv Hw).
    cbn. right; right; reflexivity.
Qed.

Lemma column_aux : forall lazy v44 vs ds ps,
  fits v44 ds vs ->
  sequence (map (one_text v44) vs) = Some ps ->
  Forall (fun p => ~ In 58 p) ps /\
  sequence (zip_parse prs_float lazy ds ps) = Some (map (option_map (norm_value v44)) vs) /\
  length ps = length vs.
Proof.
  intros lazy v44. induction vs as [|o vs IH]; intros ds ps Hf Hs.
  - cbn in Hs. inversion Hs; subst. repeat split; [constructor|]. destruct ds; reflexivity.
  - destruct ds as [|d ds]; [contradiction|]. cbn [fits] in Hf. destruct Hf as [Ho Hf].
    cbn [map sequence] in Hs. destruct (one_text v44 o) as [t|] eqn:Et; [|discriminate].
    destruct (sequence (map (one_text v44) vs)) as [r|] eqn:Er; [|discriminate]. inversion Hs; subst ps.
    destruct (IH ds r Hf eq_refl) as (F1 & F2 & F3).
    repeat split.
    + constructor; [eapply one_text_no_colon; eassumption|exact F1].
    + cbn [zip_parse sequence map].
      rewrite (sample_value_roundtrip lazy v44 d o t Ho Et), F2. reflexivity.
    + cbn [length]. now rewrite F3.
Qed.

Lemma parse_sample_lazy_ne : forall ds s, s <> [] ->
  parse_sample_lazy prs_float ds s =
  if bytes_eqb s dot then Some [] else sequence (zip_parse prs_float true ds (split_all 58 s)).
Proof. intros ds [|b t] H; [contradiction|reflexivity]. Qed.

Lemma parse_sample_eager_ne : forall ds s, s <> [] ->
  parse_sample_eager prs_float ds s =
  if bytes_eqb s dot then Some []
  else match sequence (zip_parse prs_float false ds (split_all 58 s)) with
       | Some vs => if (length ds <? length (split_all 58 s))%nat then None else Some vs
       | None => None
       end.
Proof. intros ds [|b t] H; [contradiction|reflexivity]. Qed.

(* a whole sample column, either reader: every value of the sample comes back (the genotype
   with its first phasing normalised before 4.4); fewer values than FORMAT keys are allowed *)
Theorem sample_column_roundtrip : forall (lazy : bool) v44 ds vs s,
  fits v44 ds vs -> vs <> [] ->
  write_sample fmt_float v44 vs = Some s -> s <> [] -> s <> dot ->
  (if lazy then parse_sample_lazy prs_float ds s else parse_sample_eager prs_float ds s)
  = Some (map (option_map (norm_value v44)) vs).
Proof.
  intros lazy v44 ds vs s Hf Hne Hw Hs0 Hsd. unfold write_sample in Hw.
  change (fun o => match o with None => Some dot | Some v => write_value fmt_float CFormat v44 v end)
    with (one_text v44) in Hw.
  destruct (sequence (map (one_text v44) vs)) as [ps|] eqn:Es; [|discriminate].
  destruct (column_aux lazy v44 vs ds ps Hf Es) as (F1 & F2 & F3).
  assert (Hps : ps <> []) by (intro E; subst ps; destruct vs; [contradiction|discriminate]).
  assert (Hs : s = join 58 ps) by (destruct ps; [contradiction|inversion Hw; reflexivity]).
  clear Hw. subst s.
  assert (Hlen : (length ds <? length ps)%nat = false).
  { rewrite F3. apply Nat.ltb_ge. clear -Hf. revert ds Hf. induction vs as [|o vs IH]; intros ds Hf; [cbn; lia|].
    destruct ds as [|d ds]; [contradiction|]. destruct Hf as [_ Hf]. cbn [length]. specialize (IH ds Hf). lia. }
  destruct lazy.
  - rewrite parse_sample_lazy_ne by exact Hs0.
    rewrite (bytes_eqb_neq _ _ Hsd). rewrite split_all_join by assumption. exact F2.
  - rewrite parse_sample_eager_ne by exact Hs0.
    rewrite (bytes_eqb_neq _ _ Hsd). rewrite split_all_join by assumption. rewrite F2, Hlen. reflexivity.
Qed.

End F.
