(* C09 -- lemmas about NV.Vcf.Values: strings, characters, integers, arrays, genotypes, INFO
   fields and sample columns written by the model writer are read back by the model readers. *)
From Coq Require Import List NArith ZArith Bool Lia ZifyBool ZifyN.
From NV Require Import Base.Percent Base.PercentProofs Text.TextBase Text.TextBaseProofs Vcf.Values.
Import ListNotations.
Open Scope N_scope.

Arguments N.add : simpl never.
Arguments N.sub : simpl never.
Arguments N.mul : simpl never.
Arguments N.div : simpl never.
Arguments N.modulo : simpl never.

(* ---------------------------------------------------------------------------------------- *)
(* strings *)

Lemma str_set_pct : forall c, str_set c 37 = true.
Proof. destruct c; reflexivity. Qed.

Lemma pct_dec_dot : pct_dec (pct_byte 46) = [46].
Proof. reflexivity. Qed.

Lemma write_string_dec : forall c s, bytes_ok s -> pct_dec (write_string c s) = s.
Proof.
  intros c s Hb. unfold write_string. destruct (bytes_eqb s dot) eqn:E.
  - apply bytes_eqb_eq in E. subst s. reflexivity.
  - apply pct_dec_enc; [apply str_set_pct|exact Hb].
Qed.

Lemma pct_enc_singleton : forall S s b, pct_enc S s = [b] -> s = [b].
Proof.
  intros S [|x t] b H; [discriminate|]. rewrite pct_enc_cons in H. destruct (S x).
  - unfold pct_byte in H. cbn [app] in H. discriminate.
  - cbn [app] in H. inversion H as [[Hx Ht]]. apply pct_enc_nil_inv in Ht. now subst.
Qed.

Lemma write_string_not_dot : forall c s, write_string c s <> dot.
Proof.
  intros c s H. unfold write_string in H. destruct (bytes_eqb s dot) eqn:E.
  - discriminate.
  - apply pct_enc_singleton in H. subst s. cbn in E. discriminate.
Qed.

(* a byte of the escape set other than '%' and the hex digits never occurs in written text *)
Lemma write_string_avoids : forall c s b, bytes_ok s ->
  str_set c b = true -> b <> 37 -> is_hex_upper b = false -> ~ In b (write_string c s).
Proof.
  intros c s b Hb HS H37 Hhex. unfold write_string. destruct (bytes_eqb s dot).
  - unfold pct_byte. cbn. intros [E|[E|[E|[]]]]; subst b; try contradiction; cbn in Hhex; discriminate.
  - now apply pct_enc_avoids.
Qed.

Lemma write_string_no_comma : forall c s, bytes_ok s -> ~ In 44 (write_string c s).
Proof. intros c s H. apply write_string_avoids; [exact H|destruct c; reflexivity|discriminate|reflexivity]. Qed.

Lemma write_string_no_tab : forall c s, bytes_ok s -> ~ In 9 (write_string c s).
Proof. intros c s H. apply write_string_avoids; [exact H|destruct c; reflexivity|discriminate|reflexivity]. Qed.

Lemma write_string_no_lf : forall c s, bytes_ok s -> ~ In 10 (write_string c s).
Proof. intros c s H. apply write_string_avoids; [exact H|destruct c; reflexivity|discriminate|reflexivity]. Qed.

Lemma write_string_info_no_semi : forall s, bytes_ok s -> ~ In 59 (write_string CInfo s).
Proof. intros s H. apply write_string_avoids; [exact H|reflexivity|discriminate|reflexivity]. Qed.

Lemma write_string_info_no_eq : forall s, bytes_ok s -> ~ In 61 (write_string CInfo s).
Proof. intros s H. apply write_string_avoids; [exact H|reflexivity|discriminate|reflexivity]. Qed.

Lemma write_string_format_no_colon : forall s, bytes_ok s -> ~ In 58 (write_string CFormat s).
Proof. intros s H. apply write_string_avoids; [exact H|reflexivity|discriminate|reflexivity]. Qed.

(* ---------------------------------------------------------------------------------------- *)
(* characters (ASCII) *)

Lemma write_char_dec : forall c ch, ch < 128 -> parse_char (write_char c ch) = Some ch.
Proof.
  intros c ch H. unfold parse_char, write_char. destruct (chr_set c ch) eqn:E.
  - rewrite <- (app_nil_r (pct_byte ch)). rewrite pct_dec_pct_byte by lia. reflexivity.
  - cbn [pct_dec]. destruct (ch =? 37) eqn:E37.
    + apply N.eqb_eq in E37. subst ch. destruct c; cbn in E; discriminate.
    + reflexivity.
Qed.

Lemma chr_set_cases : forall c ch b, ch < 128 -> In b (write_char c ch) ->
  (b = ch /\ chr_set c ch = false) \/ b = 37 \/ is_hex_upper b = true.
Proof.
  intros c ch b H Hin. unfold write_char in Hin. destruct (chr_set c ch) eqn:E.
  - unfold pct_byte in Hin. assert (H1 : ch / 16 < 16) by (apply N.div_lt_upper_bound; lia).
    assert (H2 : ch mod 16 < 16) by (apply N.mod_lt; lia).
    destruct Hin as [Hb|[Hb|[Hb|[]]]]; subst b.
    + right; now left.
    + right; right. now apply hex_digit_upper.
    + right; right. now apply hex_digit_upper.
  - destruct Hin as [Hb|[]]. left. now subst.
Qed.

Lemma write_char_avoids : forall c ch b, ch < 128 ->
  chr_set c b = true -> b <> 37 -> is_hex_upper b = false -> ~ In b (write_char c ch).
Proof.
  intros c ch b H HS H37 Hhex Hin. destruct (chr_set_cases c ch b H Hin) as [[E1 E2]|[E|E]]; subst; congruence.
Qed.

Lemma write_char_not_dot : forall c ch, ch < 128 -> write_char c ch <> dot.
Proof.
  intros c ch H E. assert (Hin : In 46 (write_char c ch)) by (rewrite E; now left).
  revert Hin. apply write_char_avoids; [exact H|destruct c; reflexivity|discriminate|reflexivity].
Qed.

(* ---------------------------------------------------------------------------------------- *)
(* integers *)

Lemma fmt_int_parse : forall z, (-2147483648 <= z <= 2147483647)%Z -> parse_i32 (fmt_int z) = Some z.
Proof.
  intros z Hz. unfold fmt_int. destruct z as [|p|p].
  - reflexivity.
  - cbn [Z.to_N]. unfold parse_i32.
    pose proof (fmt_dec_digits (Npos p)) as Hd. pose proof (parse_dec_fmt (Npos p)) as Hp.
    destruct (fmt_dec (Npos p)) as [|b t] eqn:E; [discriminate|].
    inversion Hd as [|? ? Hb Ht]; subst.
    destruct (N.eq_dec b 45) as [E45|N45]; [lia|]. destruct (N.eq_dec b 43) as [E43|N43]; [lia|].
    assert (Hm : match b with 45 | 43 => False | _ => True end).
    { destruct b as [|q]; [exact I|]. do 6 (destruct q; try exact I); try lia. }
    assert (Hgoal : match parse_dec (b :: t) with
                    | Some n => if ((-2147483648 <=? Z.of_N n) && (Z.of_N n <=? 2147483647))%Z then Some (Z.of_N n) else None
                    | None => None end = Some (Z.pos p)).
    { rewrite Hp. cbn [Z.of_N].
      destruct ((-2147483648 <=? Z.pos p) && (Z.pos p <=? 2147483647))%Z eqn:R; [reflexivity|lia]. }
    destruct b as [|q]; [exact Hgoal|].
    do 6 (destruct q; try exact Hgoal); lia.
  - unfold parse_i32. rewrite parse_dec_fmt. cbn [Z.of_N Z.opp].
    destruct ((-2147483648 <=? Z.neg p) && (Z.neg p <=? 2147483647))%Z eqn:R; [reflexivity|lia].
Qed.

Lemma fmt_int_chars : forall z b, In b (fmt_int z) -> b = 45 \/ 48 <= b <= 57.
Proof.
  intros z b H. unfold fmt_int in H. destruct z as [|p|p].
  - cbn in H. destruct H as [H|[]]. right. lia.
  - right. pose proof (fmt_dec_digits (Z.to_N (Z.pos p))) as Hd. rewrite Forall_forall in Hd. now apply Hd.
  - destruct H as [H|H]; [now left|]. right.
    pose proof (fmt_dec_digits (Npos p)) as Hd. rewrite Forall_forall in Hd. now apply Hd.
Qed.

Lemma fmt_int_not_dot : forall z, fmt_int z <> dot.
Proof.
  intros z E. assert (H : In 46 (fmt_int z)) by (rewrite E; now left).
  apply fmt_int_chars in H. lia.
Qed.

Lemma fmt_int_avoids : forall z b, b <> 45 -> (b < 48 \/ 57 < b) -> ~ In b (fmt_int z).
Proof. intros z b H1 H2 H. apply fmt_int_chars in H. lia. Qed.

Definition i32_ok (z : Z) : Prop := (-2147483641 < z <= 2147483647)%Z.

Lemma write_int_ok : forall z, i32_ok z -> write_int z = Some (fmt_int z).
Proof.
  intros z H. unfold write_int, int_min_valid. unfold i32_ok in H.
  destruct (-2147483641 <? z)%Z eqn:E; [reflexivity|lia].
Qed.

(* ---------------------------------------------------------------------------------------- *)
(* arrays *)

Lemma dot_no_comma : ~ In 44 dot.
Proof. cbn. intros [H|[]]. discriminate. Qed.

Lemma items_aux : forall A (w : A -> option (list N)) (f : list N -> option A) (l : list (option A)) ps,
  (forall a t, In (Some a) l -> w a = Some t -> ~ In 44 t /\ t <> dot /\ f t = Some a) ->
  sequence (map (fun o => match o with None => Some dot | Some a => w a end) l) = Some ps ->
  Forall (fun p => ~ In 44 p) ps /\
  sequence (map (fun t => if bytes_eqb t dot then Some None
                          else match f t with Some a => Some (Some a) | None => None end) ps) = Some l /\
  (l <> [] -> ps <> []).
Proof.
  intros A w f. induction l as [|o l IH]; intros ps Hw Hs.
  - cbn in Hs. inversion Hs; subst. repeat split; [constructor|tauto].
  - cbn [map sequence] in Hs. destruct o as [a|].
    + destruct (w a) as [t|] eqn:Ew; [|discriminate].
      destruct (sequence (map _ l)) as [r|] eqn:Er; [|discriminate]. inversion Hs; subst ps.
      destruct (Hw a t (or_introl eq_refl) Ew) as (H1 & H2 & H3).
      destruct (IH r (fun a' t' Hin => Hw a' t' (or_intror Hin)) eq_refl) as (F1 & F2 & _).
      split; [constructor; assumption|]. split; [|discriminate].
      cbn [map sequence]. rewrite (bytes_eqb_neq _ _ H2), H3, F2. reflexivity.
    + destruct (sequence (map _ l)) as [r|] eqn:Er; [|discriminate]. inversion Hs; subst ps.
      destruct (IH r (fun a' t' Hin => Hw a' t' (or_intror Hin)) eq_refl) as (F1 & F2 & _).
      split; [constructor; [exact dot_no_comma|assumption]|]. split; [|discriminate].
      cbn [map sequence]. rewrite bytes_eqb_refl, F2. reflexivity.
Qed.

Lemma items_roundtrip : forall A (w : A -> option (list N)) (f : list N -> option A) (l : list (option A)) out,
  l <> [] ->
  (forall a t, In (Some a) l -> w a = Some t -> ~ In 44 t /\ t <> dot /\ f t = Some a) ->
  write_items w l = Some out -> parse_items f out = Some l.
Proof.
  intros A w f l out Hne Hw Hout. unfold write_items in Hout.
  destruct (sequence _) as [ps|] eqn:Es; [|discriminate]. inversion Hout; subst out.
  destruct (items_aux A w f l ps Hw Es) as (F1 & F2 & F3).
  unfold parse_items. rewrite split_all_join; [exact F2|now apply F3|exact F1].
Qed.

(* every byte of a written array is the separator, a '.', or a byte of an entry's text *)
Lemma items_bytes : forall A (w : A -> option (list N)) (l : list (option A)) out b,
  write_items w l = Some out -> In b out ->
  b = 44 \/ b = 46 \/ exists a t, In (Some a) l /\ w a = Some t /\ In b t.
Proof.
  intros A w l out b Hout Hin. unfold write_items in Hout.
  destruct (sequence _) as [ps|] eqn:Es; [|discriminate]. inversion Hout; subst out.
  apply In_join in Hin. destruct Hin as [E|(p & Hp & Hb)]; [now left|]. right. clear Hout.
  revert ps Es Hp. induction l as [|o l IH]; intros ps Es Hp.
  - cbn in Es. inversion Es; subst. destruct Hp.
  - cbn [map sequence] in Es. destruct o as [a|].
    + destruct (w a) as [t|] eqn:Ew; [|discriminate].
      destruct (sequence (map _ l)) as [r|] eqn:Er; [|discriminate]. inversion Es; subst ps.
      destruct Hp as [Hp|Hp].
      * subst p. right. exists a, t. repeat split; [now left|exact Ew|exact Hb].
      * destruct (IH r eq_refl Hp) as [E|(a' & t' & H1 & H2 & H3)]; [now left|].
        right. exists a', t'. repeat split; [now right|exact H2|exact H3].
    + destruct (sequence (map _ l)) as [r|] eqn:Er; [|discriminate]. inversion Es; subst ps.
      destruct Hp as [Hp|Hp].
      * subst p. cbn in Hb. destruct Hb as [Hb|[]]. now left.
      * destruct (IH r eq_refl Hp) as [E|(a' & t' & H1 & H2 & H3)]; [now left|].
        right. exists a', t'. repeat split; [now right|exact H2|exact H3].
Qed.

(* a written array with at least two entries, or whose single entry is present, is not "." *)
Lemma items_not_dot : forall A (w : A -> option (list N)) (l : list (option A)) out,
  (forall a t, In (Some a) l -> w a = Some t -> t <> dot) ->
  l <> [None] -> l <> [] ->
  write_items w l = Some out -> out <> dot.
Proof.
  intros A w l out Hw Hn1 Hn0 Hout. unfold write_items in Hout.
  destruct (sequence _) as [ps|] eqn:Es; [|discriminate]. inversion Hout; subst out.
  destruct l as [|o [|o2 l]]; [contradiction| |].
  - destruct o as [a|]; [|contradiction]. cbn in Es. destruct (w a) as [t|] eqn:Ew; [|discriminate].
    inversion Es; subst ps. cbn [join]. apply (Hw a t); [now left|exact Ew].
  - cbn [map sequence] in Es.
    destruct (match o with Some a => w a | None => Some dot end) as [t1|]; [|discriminate].
    destruct (match o2 with Some a => w a | None => Some dot end) as [t2|]; [|discriminate].
    destruct (sequence (map _ l)) as [r|]; [|discriminate]. inversion Es; subst ps.
    rewrite join_cons2. intro E.
    assert (Hin : In 44 (t1 ++ 44 :: join 44 (t2 :: r))) by (apply in_or_app; right; now left).
    rewrite E in Hin. cbn in Hin. destruct Hin as [H|[]]. discriminate.
Qed.

Lemma items_nonempty : forall A (w : A -> option (list N)) (l : list (option A)) out,
  l <> [] -> (forall a t, In (Some a) l -> w a = Some t -> t <> []) ->
  write_items w l = Some out -> out <> [].
Proof.
  intros A w l out Hne Hw Hout. unfold write_items in Hout.
  destruct (sequence _) as [ps|] eqn:Es; [|discriminate]. inversion Hout; subst out.
  destruct l as [|o l]; [contradiction|]. cbn [map sequence] in Es.
  destruct (match o with Some a => w a | None => Some dot end) as [t1|] eqn:E1; [|discriminate].
  destruct (sequence (map _ l)) as [r|]; [|discriminate]. inversion Es; subst ps.
  assert (Ht1 : t1 <> []).
  { destruct o as [a|]; [apply (Hw a t1); [now left|exact E1]|inversion E1; discriminate]. }
  cbn [join]. destruct r; [exact Ht1|]. destruct t1; [contradiction|discriminate].
Qed.

Lemma write_string_nonempty : forall c s, s <> [] -> write_string c s <> [].
Proof.
  intros c s H E. unfold write_string in E. destruct (bytes_eqb s dot); [discriminate|].
  apply pct_enc_nil_inv in E. contradiction.
Qed.

Lemma write_char_nonempty : forall c ch, write_char c ch <> [].
Proof. intros c ch. unfold write_char, pct_byte. destruct (chr_set c ch); discriminate. Qed.

Lemma fmt_int_nonempty : forall z, fmt_int z <> [].
Proof. intros z. unfold fmt_int. destruct z; try discriminate; apply fmt_dec_nonempty. Qed.

(* ---------------------------------------------------------------------------------------- *)
(* typed values *)

Definition is_arr (num : vnumber) : Prop :=
  match num with NCount n => 2 <= n | NOther => True end.

(* the value is one the header type (num, ty) describes *)
Definition typed (num : vnumber) (ty : vtype) (v : value) : Prop :=
  match v with
  | VInteger _ => num = NCount 1 /\ ty = TInteger
  | VFloat _ => num = NCount 1 /\ ty = TFloat
  | VFlag => num = NCount 0 /\ ty = TFlag
  | VCharacter _ => num = NCount 1 /\ ty = TCharacter
  | VString _ => num = NCount 1 /\ ty = TString
  | VIntArr _ => is_arr num /\ ty = TInteger
  | VFloatArr _ => is_arr num /\ ty = TFloat
  | VCharArr _ => is_arr num /\ ty = TCharacter
  | VStrArr _ => is_arr num /\ ty = TString
  | VGenotype _ => False
  end.

(* delimiters that must not occur inside a value's text: ',' is excluded separately *)
Definition delim (c : ctx) (b : N) : Prop :=
  b = 9 \/ b = 10 \/ match c with CInfo => b = 59 | CFormat => b = 58 end.

Section Float.
Variable fmt_float : N -> list N.
Variable prs_float : list N -> option N.
Variable FOK : N -> Prop.
Hypothesis float_rt : forall b, FOK b -> prs_float (fmt_float b) = Some b.
Hypothesis float_chars : forall b x, FOK b -> In x (fmt_float b) ->
  x <> 44 /\ x <> 9 /\ x <> 10 /\ x <> 59 /\ x <> 58.
Hypothesis float_not_dot : forall b, FOK b -> fmt_float b <> dot.
Hypothesis float_nonempty : forall b, FOK b -> fmt_float b <> [].

Definition chr_ok (ch : N) : Prop := ch < 128.

Definition arr_shape {A} (l : list (option A)) : Prop := l <> [] /\ l <> [None].

(* the values the property quantifies over (the same for both readers) *)
Definition val_ok (v : value) : Prop :=
  match v with
  | VInteger z => i32_ok z
  | VFloat b => FOK b
  | VFlag => True
  | VCharacter ch => chr_ok ch
  | VString s => bytes_ok s
  | VIntArr l => arr_shape l /\ forall z, In (Some z) l -> i32_ok z
  | VFloatArr l => arr_shape l /\ forall b, In (Some b) l -> FOK b
  | VCharArr l => arr_shape l /\ forall ch, In (Some ch) l -> chr_ok ch
  | VStrArr l => arr_shape l /\ forall s, In (Some s) l -> bytes_ok s /\ s <> []
  | VGenotype _ => False
  end.

Lemma parse_char_write : forall c ch, chr_ok ch -> parse_char (write_char c ch) = Some ch.
Proof. intros c ch H. now apply write_char_dec. Qed.

Lemma i32_ok_range : forall z, i32_ok z -> (-2147483648 <= z <= 2147483647)%Z.
Proof. unfold i32_ok. lia. Qed.

Lemma parse_arr_nonempty : forall A lazy (f : list N -> option A) s, s <> [] ->
  parse_arr lazy f s = parse_items f s.
Proof. intros A lazy f s H. unfold parse_arr. destruct lazy; [|reflexivity]. destruct s; [contradiction|reflexivity]. Qed.

Lemma is_arr_flags : forall num, is_arr num ->
  match num with NCount n => n =? 0 | NOther => false end = false /\
  match num with NCount n => n =? 1 | NOther => false end = false.
Proof. intros [n|] H; cbn in *; [split; lia|split; reflexivity]. Qed.

(* write then parse, any value of the modelled fragment, either reader *)
Theorem value_roundtrip : forall c lazy v44 num ty v t,
  val_ok v -> typed num ty v -> v <> VFlag ->
  write_value fmt_float c v44 v = Some t ->
  parse_value prs_float lazy num ty t = Some v.
Proof.
  intros c lazy v44 num ty v t Hok Hty Hnf Hw.
  destruct v as [z|b| |ch|s|l|l|l|l|g]; cbn [typed val_ok write_value] in *; try contradiction.
  - destruct Hty as [-> ->]. rewrite write_int_ok in Hw by exact Hok. inversion Hw; subst t.
    unfold parse_value. cbn. rewrite fmt_int_parse by (now apply i32_ok_range). reflexivity.
  - destruct Hty as [-> ->]. inversion Hw; subst t. unfold parse_value. cbn. now rewrite float_rt.
  - destruct Hty as [-> ->]. inversion Hw; subst t. unfold parse_value. cbn.
    now rewrite parse_char_write.
  - destruct Hty as [-> ->]. inversion Hw; subst t. unfold parse_value. cbn.
    now rewrite write_string_dec.
  - destruct Hty as [Ha ->]. destruct Hok as [[Hne Hn1] Hz].
    destruct (is_arr_flags num Ha) as [E0 E1]. unfold parse_value. rewrite E0, E1.
    rewrite parse_arr_nonempty.
    + erewrite items_roundtrip; [reflexivity|exact Hne| |exact Hw].
      intros a t' Hin Hwa. rewrite write_int_ok in Hwa by (now apply Hz). inversion Hwa; subst t'.
      repeat split; [apply fmt_int_avoids; lia|apply fmt_int_not_dot|].
      apply fmt_int_parse. now apply i32_ok_range, Hz.
    + eapply items_nonempty; [exact Hne| |exact Hw]. intros a t' Hin Hwa.
      rewrite write_int_ok in Hwa by (now apply Hz). inversion Hwa. apply fmt_int_nonempty.
  - destruct Hty as [Ha ->]. destruct Hok as [[Hne Hn1] Hz].
    destruct (is_arr_flags num Ha) as [E0 E1]. unfold parse_value. rewrite E0, E1.
    rewrite parse_arr_nonempty.
    + erewrite items_roundtrip; [reflexivity|exact Hne| |exact Hw].
      intros a t' Hin Hwa. inversion Hwa; subst t'. specialize (Hz a Hin).
      repeat split; [|now apply float_not_dot|now apply float_rt].
      intro Hc. destruct (float_chars a 44 Hz Hc) as [Hx _]. now apply Hx.
    + eapply items_nonempty; [exact Hne| |exact Hw]. intros a t' Hin Hwa.
      inversion Hwa. now apply float_nonempty, Hz.
  - destruct Hty as [Ha ->]. destruct Hok as [[Hne Hn1] Hz].
    destruct (is_arr_flags num Ha) as [E0 E1]. unfold parse_value. rewrite E0, E1.
    rewrite parse_arr_nonempty.
    + erewrite items_roundtrip; [reflexivity|exact Hne| |exact Hw].
      intros a t' Hin Hwa. inversion Hwa; subst t'. specialize (Hz a Hin).
      repeat split; [|now apply write_char_not_dot|now apply parse_char_write].
      apply write_char_avoids; [exact Hz|destruct c; reflexivity|discriminate|reflexivity].
    + eapply items_nonempty; [exact Hne| |exact Hw]. intros a t' Hin Hwa.
      inversion Hwa. apply write_char_nonempty.
  - destruct Hty as [Ha ->]. destruct Hok as [[Hne Hn1] Hz].
    destruct (is_arr_flags num Ha) as [E0 E1]. unfold parse_value. rewrite E0, E1.
    rewrite parse_arr_nonempty.
    + erewrite items_roundtrip; [reflexivity|exact Hne| |exact Hw].
      intros a t' Hin Hwa. inversion Hwa; subst t'. destruct (Hz a Hin) as [Hz1 Hz2].
      repeat split; [now apply write_string_no_comma|apply write_string_not_dot|].
      now rewrite write_string_dec.
    + eapply items_nonempty; [exact Hne| |exact Hw]. intros a t' Hin Hwa.
      inversion Hwa. apply write_string_nonempty. now destruct (Hz a Hin).
Qed.


Lemma value_not_dot : forall c v44 v t,
  val_ok v -> v <> VFlag -> write_value fmt_float c v44 v = Some t -> t <> dot.
Proof.
  intros c v44 v t Hok Hnf Hw.
  destruct v as [z|b| |ch|s|l|l|l|l|g]; cbn [val_ok write_value] in *; try contradiction.
  - rewrite write_int_ok in Hw by exact Hok. inversion Hw. apply fmt_int_not_dot.
  - inversion Hw. now apply float_not_dot.
  - inversion Hw. now apply write_char_not_dot.
  - inversion Hw. apply write_string_not_dot.
  - destruct Hok as [[Hne Hn1] Hz]. eapply items_not_dot; [|exact Hn1|exact Hne|exact Hw].
    intros a t' Hin Hwa. rewrite write_int_ok in Hwa by (now apply Hz). inversion Hwa. apply fmt_int_not_dot.
  - destruct Hok as [[Hne Hn1] Hz]. eapply items_not_dot; [|exact Hn1|exact Hne|exact Hw].
    intros a t' Hin Hwa. inversion Hwa. now apply float_not_dot, Hz.
  - destruct Hok as [[Hne Hn1] Hz]. eapply items_not_dot; [|exact Hn1|exact Hne|exact Hw].
    intros a t' Hin Hwa. inversion Hwa. apply write_char_not_dot. exact (Hz a Hin).
  - destruct Hok as [[Hne Hn1] Hz]. eapply items_not_dot; [|exact Hn1|exact Hne|exact Hw].
    intros a t' Hin Hwa. inversion Hwa. apply write_string_not_dot.
Qed.

(* no TAB, LF, and no ';' (INFO) / ':' (FORMAT) inside a written value *)
Lemma value_avoids : forall c v44 v t b,
  val_ok v -> write_value fmt_float c v44 v = Some t -> delim c b -> ~ In b t.
Proof.
  intros c v44 v t b Hok Hw Hd Hin.
  assert (Hb : b <> 44 /\ b <> 46 /\ b <> 45 /\ (b < 48 \/ 57 < b) /\ b <> 37 /\ is_hex_upper b = false /\ str_set c b = true /\ chr_set c b = true).
  { destruct c; cbn [delim] in Hd; destruct Hd as [E|[E|E]]; subst b; repeat split; try discriminate; try reflexivity; try (left; reflexivity); try (right; reflexivity). }
  destruct Hb as (B44 & B46 & B45 & Bdig & B37 & Bhex & Bstr & Bchr).
  assert (Hint : forall z, ~ In b (fmt_int z)) by (intro z; now apply fmt_int_avoids).
  assert (Hflt : forall x, FOK x -> ~ In b (fmt_float x)).
  { intros x Hx Hi. destruct (float_chars x b Hx Hi) as (F1 & F2 & F3 & F4 & F5).
    destruct c; cbn [delim] in Hd; destruct Hd as [E|[E|E]]; congruence. }
  destruct v as [z|x| |ch|s|l|l|l|l|g]; cbn [val_ok write_value] in *; try contradiction.
  - rewrite write_int_ok in Hw by exact Hok. inversion Hw; subst t. now apply (Hint z).
  - inversion Hw; subst t. now apply (Hflt x).
  - inversion Hw; subst t. destruct Hin.
  - inversion Hw; subst t. revert Hin. now apply write_char_avoids.
  - inversion Hw; subst t. revert Hin. now apply write_string_avoids.
  - destruct Hok as [_ Hz]. destruct (items_bytes _ _ _ _ _ Hw Hin) as [E|[E|(a & t' & H1 & H2 & H3)]]; try congruence.
    rewrite write_int_ok in H2 by (now apply Hz). inversion H2; subst t'. exact (Hint a H3).
  - destruct Hok as [_ Hz]. destruct (items_bytes _ _ _ _ _ Hw Hin) as [E|[E|(a & t' & H1 & H2 & H3)]]; try congruence.
    inversion H2; subst t'. exact (Hflt a (Hz a H1) H3).
  - destruct Hok as [_ Hz]. destruct (items_bytes _ _ _ _ _ Hw Hin) as [E|[E|(a & t' & H1 & H2 & H3)]]; try congruence.
    inversion H2; subst t'. pose proof (Hz a H1) as Hc. revert H3. now apply write_char_avoids.
  - destruct Hok as [_ Hz]. destruct (items_bytes _ _ _ _ _ Hw Hin) as [E|[E|(a & t' & H1 & H2 & H3)]]; try congruence.
    inversion H2; subst t'. destruct (Hz a H1) as [Hc _]. revert H3. now apply write_string_avoids.
Qed.

(* one INFO field: key=value, key (Flag) or key=. ; both readers *)
Theorem info_field_roundtrip : forall lazy num ty key ov t,
  ~ In 61 key ->
  match ov with Some v => val_ok v /\ typed num ty v | None => True end ->
  write_info_field fmt_float key ov = Some t ->
  parse_info_field prs_float lazy num ty t = Some ov.
Proof.
  intros lazy num ty key ov t Hkey Hov Hw. unfold write_info_field in Hw.
  destruct ov as [v|].
  - destruct Hov as [Hok Hty].
    assert (Hcases : v = VFlag \/ v <> VFlag) by (destruct v; (now left) || (right; discriminate)).
    destruct Hcases as [->|Hnf].
    + inversion Hw; subst t. cbn [typed] in Hty. destruct Hty as [-> ->].
      unfold parse_info_field. rewrite (split_once_none 61 key Hkey). destruct lazy; reflexivity.
    + assert (Hw' : exists t', write_value fmt_float CInfo false v = Some t' /\ t = key ++ 61 :: t').
      { destruct v; try contradiction;
          (destruct (write_value fmt_float CInfo false _) as [t'|] eqn:E; [|discriminate]);
          inversion Hw; eexists; split; reflexivity. }
      destruct Hw' as (t' & Hw' & ->).
      pose proof (value_roundtrip CInfo lazy false num ty v t' Hok Hty Hnf Hw') as Hp.
      pose proof (value_not_dot CInfo false v t' Hok Hnf Hw') as Hd.
      unfold parse_info_field. rewrite (split_once_app 61 key t' Hkey).
      rewrite (bytes_eqb_neq _ _ Hd), Hp.
      destruct lazy; [reflexivity|]. destruct ty; try reflexivity.
  - inversion Hw; subst t. unfold parse_info_field. rewrite (split_once_app 61 key dot Hkey).
    rewrite bytes_eqb_refl. destruct lazy; [reflexivity|]. destruct ty; reflexivity.
Qed.

End Float.

(* ---------------------------------------------------------------------------------------- *)
(* statements used by props/C09.v *)

Lemma encode_sets_spec : forall b, b < 256 ->
  (str_set CInfo b = true <-> (b < 32 \/ b = 127 \/ 128 <= b \/ b = 37 \/ b = 44 \/ b = 59 \/ b = 61)) /\
  (str_set CFormat b = true <-> (b < 32 \/ b = 127 \/ 128 <= b \/ b = 37 \/ b = 44 \/ b = 58)).
Proof. intros b H. unfold str_set, is_control. split; split; intro; lia. Qed.

Lemma string_roundtrip : forall prs c lazy s, bytes_ok s ->
  parse_value prs lazy (NCount 1) TString (write_string c s) = Some (VString s) /\
  write_string c s <> dot /\
  ~ In 44 (write_string c s) /\ ~ In 9 (write_string c s) /\ ~ In 10 (write_string c s) /\
  match c with
  | CInfo => ~ In 59 (write_string c s) /\ ~ In 61 (write_string c s)
  | CFormat => ~ In 58 (write_string c s)
  end.
Proof.
  intros prs c lazy s H. split; [unfold parse_value; cbn; now rewrite write_string_dec|].
  split; [apply write_string_not_dot|]. split; [now apply write_string_no_comma|].
  split; [now apply write_string_no_tab|]. split; [now apply write_string_no_lf|].
  destruct c; [split; [now apply write_string_info_no_semi|now apply write_string_info_no_eq]
              |now apply write_string_format_no_colon].
Qed.

Lemma value_lazy_eq_eager :
  forall fmt_float prs_float (FOK : N -> Prop),
  (forall b, FOK b -> prs_float (fmt_float b) = Some b) ->
  (forall b x, FOK b -> In x (fmt_float b) -> x <> 44 /\ x <> 9 /\ x <> 10 /\ x <> 59 /\ x <> 58) ->
  (forall b, FOK b -> fmt_float b <> dot) ->
  (forall b, FOK b -> fmt_float b <> []) ->
  forall c v44 num ty v t,
  val_ok FOK v -> typed num ty v -> v <> VFlag ->
  write_value fmt_float c v44 v = Some t ->
  parse_value prs_float true num ty t = parse_value prs_float false num ty t.
Proof.
  intros fmt prs FOK H1 H2 H3 H4 c v44 num ty v t Hok Hty Hnf Hw.
  rewrite (value_roundtrip fmt prs FOK H1 H2 H3 H4 c false v44 num ty v t Hok Hty Hnf Hw).
  exact (value_roundtrip fmt prs FOK H1 H2 H3 H4 c true v44 num ty v t Hok Hty Hnf Hw).
Qed.

(* every ASCII Character, also those of the writers' escape sets, through either reader *)
Lemma char_roundtrip : forall prs c lazy ch, ch < 128 ->
  parse_value prs lazy (NCount 1) TCharacter (write_char c ch) = Some (VCharacter ch).
Proof. intros prs c lazy ch H. unfold parse_value. cbn. now rewrite write_char_dec. Qed.

(* a sample without values is written "." and read back as a sample without values *)
Lemma empty_sample_roundtrip : forall fmt prs v44 ds,
  write_sample fmt v44 [] = Some dot /\
  parse_sample_eager prs ds dot = Some [] /\ parse_sample_lazy prs ds dot = Some [].
Proof. intros. repeat split. Qed.
