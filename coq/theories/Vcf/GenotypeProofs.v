(* C09 -- genotype strings: write_genotype then either genotype parser gives the alleles back
   (from VCF 4.4: exactly; before 4.4 the first allele's phasing is the one the reader derives). *)
From Coq Require Import List NArith ZArith Bool Lia ZifyBool ZifyN.
From NV Require Import Base.Percent Text.TextBase Text.TextBaseProofs Vcf.Values.
Import ListNotations.
Open Scope N_scope.

Definition allele := (option N * bool)%type.

Definition allele_ok (a : allele) : Prop :=
  match fst a with Some n => n <= u64_max | None => True end.

Definition allele_text (a : allele) : list N := ph_char (snd a) :: pos_text (fst a).

Definition no_ph (s : list N) : Prop := Forall (fun b => is_ph b = false) s.

Lemma pos_text_chars : forall p, Forall (fun b => b = 46 \/ 48 <= b <= 57) (pos_text p).
Proof.
  intros [n|]; cbn [pos_text].
  - pose proof (fmt_dec_digits n) as H. eapply Forall_impl; [|exact H]. intros; now right.
  - repeat constructor.
Qed.

Lemma pos_text_no_ph : forall p, no_ph (pos_text p).
Proof.
  intro p. eapply Forall_impl; [|apply pos_text_chars]. intros b [->|H]; [reflexivity|].
  unfold is_ph. destruct (b =? 47) eqn:E1; [lia|]. destruct (b =? 124) eqn:E2; [lia|]. reflexivity.
Qed.

Lemma pos_text_nonempty : forall p, pos_text p <> [].
Proof. intros [n|]; cbn [pos_text]; [apply fmt_dec_nonempty|discriminate]. Qed.

Lemma parse_usize_digits : forall s, Forall (fun c => 48 <= c <= 57) s ->
  parse_usize s = match parse_dec s with
                  | Some n => if n <=? u64_max then Some n else None
                  | None => None end.
Proof.
  intros s H. unfold parse_usize. destruct s as [|b t]; [reflexivity|].
  inversion H as [|? ? Hb Ht]; subst.
  destruct b as [|q]; [reflexivity|]. do 6 (destruct q; try reflexivity). lia.
Qed.

Lemma parse_gt_pos_text : forall p, allele_ok (p, true) -> parse_gt_pos (pos_text p) = Some p.
Proof.
  intros [n|] H; cbn [pos_text]; unfold parse_gt_pos.
  - rewrite (bytes_eqb_neq (fmt_dec n) dot (fmt_dec_not_dot n)).
    rewrite parse_usize_digits by apply fmt_dec_digits. rewrite parse_dec_fmt.
    cbn in H. destruct (n <=? u64_max) eqn:E; [reflexivity|lia].
  - reflexivity.
Qed.

Lemma parse_gt_phasing_char : forall ph, parse_gt_phasing (ph_char ph) = Some ph.
Proof. destruct ph; reflexivity. Qed.

Lemma parse_allele_text : forall a, allele_ok a -> parse_gt_allele (allele_text a) = Some a.
Proof.
  intros [p ph] H. unfold allele_text, parse_gt_allele. cbn [fst snd].
  rewrite parse_gt_phasing_char, parse_gt_pos_text; [reflexivity|exact H].
Qed.

Lemma parse_alleles_text : forall g, Forall allele_ok g ->
  sequence (map parse_gt_allele (map allele_text g)) = Some g.
Proof.
  induction 1 as [|a g Ha Hg IH]; [reflexivity|].
  cbn [map sequence]. now rewrite parse_allele_text, IH.
Qed.

Lemma chunks_body : forall body cur rest, no_ph body ->
  gt_chunks cur (body ++ rest) = gt_chunks (rev body ++ cur) rest.
Proof.
  induction body as [|b body IH]; intros cur rest H; [reflexivity|].
  inversion H as [|? ? Hb Hbody]; subst. cbn [app gt_chunks]. rewrite Hb.
  rewrite IH by exact Hbody. cbn [rev]. now rewrite <- app_assoc.
Qed.

Lemma write_gt_tail_cons : forall a g, write_gt_tail (a :: g) = allele_text a ++ write_gt_tail g.
Proof. intros [p ph] g. reflexivity. Qed.

Lemma is_ph_char : forall ph, is_ph (ph_char ph) = true.
Proof. destruct ph; reflexivity. Qed.

Lemma chunks_tail : forall g cur,
  gt_chunks cur (write_gt_tail g) = rev cur :: map allele_text g.
Proof.
  induction g as [|[p ph] g IH]; intro cur; [reflexivity|].
  cbn [write_gt_tail gt_chunks]. rewrite is_ph_char.
  rewrite chunks_body by apply pos_text_no_ph. rewrite IH.
  cbn [map]. f_equal. f_equal. rewrite rev_app_distr, rev_involutive. reflexivity.
Qed.

Lemma split_v44 : forall a g, gt_split (write_genotype true (a :: g)) = map allele_text (a :: g).
Proof.
  intros [p ph] g. unfold write_genotype. cbn [write_gt_tail gt_split].
  rewrite chunks_body by apply pos_text_no_ph. rewrite chunks_tail.
  cbn [map]. f_equal. rewrite rev_app_distr, rev_involutive. reflexivity.
Qed.

Lemma split_pre44 : forall p ph g,
  gt_split (write_genotype false ((p, ph) :: g)) = pos_text p :: map allele_text g.
Proof.
  intros p ph g. unfold write_genotype.
  pose proof (pos_text_no_ph p) as Hn. pose proof (pos_text_nonempty p) as Hne.
  destruct (pos_text p) as [|b body] eqn:E; [contradiction|].
  inversion Hn as [|? ? Hb Hbody]; subst. cbn [app gt_split].
  rewrite chunks_body by exact Hbody. rewrite chunks_tail. f_equal.
  rewrite rev_app_distr, rev_involutive. reflexivity.
Qed.

Lemma parse_first_explicit : forall a, allele_ok a ->
  parse_gt_first (allele_text a) = Some (fst a, Some (snd a)).
Proof.
  intros [p ph] H. unfold allele_text, parse_gt_first. cbn [fst snd].
  rewrite parse_gt_phasing_char, parse_gt_pos_text; [reflexivity|exact H].
Qed.

Lemma parse_first_implicit : forall p, allele_ok (p, true) ->
  parse_gt_first (pos_text p) = Some (p, None).
Proof.
  intros p H. unfold parse_gt_first.
  pose proof (pos_text_chars p) as Hc. pose proof (pos_text_nonempty p) as Hne.
  pose proof (parse_gt_pos_text p H) as Hp.
  destruct (pos_text p) as [|b t] eqn:E; [contradiction|].
  inversion Hc as [|? ? Hb Ht]; subst.
  assert (Hph : parse_gt_phasing b = None).
  { unfold parse_gt_phasing. destruct (b =? 124) eqn:E1; [lia|]. destruct (b =? 47) eqn:E2; [lia|]. reflexivity. }
  rewrite Hph, Hp. reflexivity.
Qed.

Definition gt_ok (g : list allele) : Prop := g <> [] /\ Forall allele_ok g.

(* the first allele's phasing as the readers derive it when it is not written *)
Definition normalize_first (g : list allele) : list allele :=
  match g with
  | [] => []
  | (p, _) :: t => (p, negb (existsb (fun a => negb (snd a)) t)) :: t
  end.

Theorem genotype_roundtrip_v44 : forall g, gt_ok g ->
  parse_genotype (write_genotype true g) = Some g.
Proof.
  intros g [Hne Hok]. destruct g as [|a g]; [contradiction|].
  inversion Hok as [|? ? Ha Hg]; subst.
  unfold parse_genotype. rewrite split_v44. cbn [map].
  rewrite parse_first_explicit by exact Ha. rewrite parse_alleles_text by exact Hg.
  destruct a; reflexivity.
Qed.

Theorem genotype_roundtrip_pre44 : forall g, gt_ok g ->
  parse_genotype (write_genotype false g) = Some (normalize_first g).
Proof.
  intros g [Hne Hok]. destruct g as [|[p ph] g]; [contradiction|].
  inversion Hok as [|? ? Ha Hg]; subst.
  unfold parse_genotype. rewrite split_pre44.
  rewrite parse_first_implicit by exact Ha. rewrite parse_alleles_text by exact Hg. reflexivity.
Qed.

Lemma existsb_slash : forall g,
  existsb (fun x => x =? 47) (concat (map allele_text g)) = existsb (fun a : allele => negb (snd a)) g.
Proof.
  induction g as [|[p ph] g IH]; [reflexivity|].
  cbn [map concat]. rewrite existsb_app, IH. cbn [existsb snd]. f_equal.
  unfold allele_text. cbn [fst snd existsb].
  assert (Hpos : existsb (fun x => x =? 47) (pos_text p) = false).
  { pose proof (pos_text_chars p) as Hc. induction Hc as [|b t Hb Ht IHc]; [reflexivity|].
    cbn [existsb]. rewrite IHc. destruct (b =? 47) eqn:E; [lia|reflexivity]. }
  rewrite Hpos. destruct ph; reflexivity.
Qed.

Theorem genotype_lazy_roundtrip_v44 : forall g, gt_ok g ->
  parse_genotype_lazy (write_genotype true g) = Some g.
Proof.
  intros g [Hne Hok]. destruct g as [|[p ph] g]; [contradiction|].
  inversion Hok as [|? ? Ha Hg]; subst.
  unfold parse_genotype_lazy. rewrite split_v44. cbn [map]. unfold allele_text at 1. cbn [fst snd].
  rewrite is_ph_char, parse_gt_phasing_char, parse_gt_pos_text by exact Ha.
  rewrite parse_alleles_text by exact Hg. reflexivity.
Qed.

Theorem genotype_lazy_roundtrip_pre44 : forall g, gt_ok g ->
  parse_genotype_lazy (write_genotype false g) = Some (normalize_first g).
Proof.
  intros g [Hne Hok]. destruct g as [|[p ph] g]; [contradiction|].
  inversion Hok as [|? ? Ha Hg]; subst.
  unfold parse_genotype_lazy. rewrite split_pre44.
  pose proof (pos_text_no_ph p) as Hn. pose proof (pos_text_nonempty p) as Hne'.
  pose proof (parse_gt_pos_text p Ha) as Hp.
  destruct (pos_text p) as [|b t] eqn:E; [contradiction|].
  inversion Hn as [|? ? Hb Ht]; subst. rewrite Hb, Hp.
  rewrite parse_alleles_text by exact Hg. rewrite existsb_slash. reflexivity.
Qed.

(* consequently the two genotype readers agree on everything the writer emits *)
Corollary genotype_lazy_eq_eager : forall v44 g, gt_ok g ->
  parse_genotype_lazy (write_genotype v44 g) = parse_genotype (write_genotype v44 g).
Proof.
  intros [|] g H.
  - now rewrite (genotype_lazy_roundtrip_v44 g H), (genotype_roundtrip_v44 g H).
  - now rewrite (genotype_lazy_roundtrip_pre44 g H), (genotype_roundtrip_pre44 g H).
Qed.

(* written genotype text: no ':' , TAB, LF; it is "." only for a haploid missing genotype
   before 4.4 *)
Lemma write_gt_tail_chars : forall g b, In b (write_gt_tail g) ->
  b = 47 \/ b = 124 \/ b = 46 \/ 48 <= b <= 57.
Proof.
  induction g as [|[p ph] g IH]; intros b H; [destruct H|].
  cbn [write_gt_tail] in H. destruct H as [H|H].
  - subst b. destruct ph; cbn; tauto.
  - apply in_app_or in H. destruct H as [H|H]; [|now apply IH].
    pose proof (pos_text_chars p) as Hc. rewrite Forall_forall in Hc. destruct (Hc b H); tauto.
Qed.

Lemma write_genotype_chars : forall v44 g b, In b (write_genotype v44 g) ->
  b = 47 \/ b = 124 \/ b = 46 \/ 48 <= b <= 57.
Proof.
  intros [|] g b H; unfold write_genotype in H.
  - now apply (write_gt_tail_chars g).
  - destruct g as [|[p ph] g]; [destruct H|]. apply in_app_or in H. destruct H as [H|H].
    + pose proof (pos_text_chars p) as Hc. rewrite Forall_forall in Hc. destruct (Hc b H); tauto.
    + now apply (write_gt_tail_chars g).
Qed.
