(* C14 — composition: a format layer over the BGZF writer over a faulty sink. *)
From Coq Require Import List NArith Arith Bool Lia.
From NV Require Import Sinks.Sink Sinks.SinkProofs Sinks.LayerProofs Sinks.BgzfProofs Sinks.Mt Sinks.MtProofs
  Sinks.Format.
Import ListNotations.

Section FobProofs.
  Variable maxbuf : nat.
  Variable frames : list (list byte).
  Hypothesis maxbuf_pos : 0 < maxbuf.

  Notation bspec := (bop_spec maxbuf frames).
  Notation inv := (binv maxbuf).

  (* the fault-free specification of a chain is the composition of its calls' specifications *)
  Definition chain_spec (os : list bop) : spec bw :=
    mkSpec (fun st => ideal_out (map bspec os) st) (fun st => ideal_state (map bspec os) st).

  Lemma bw_chain_good : forall os, sgood inv (chain_spec os) (bw_chain maxbuf frames os).
  Proof.
    induction os as [|o t IH]; intros st s Hinv; cbn [bw_chain chain_spec sp_out sp_next map ideal_out ideal_state].
    - split; [reflexivity|]. split; [exact Hinv|apply ok_post_refl].
    - pose proof (bw_exec_good maxbuf frames maxbuf_pos o st s Hinv) as H.
      destruct (bw_exec maxbuf frames o st s) as [[[|e|] st1] s1].
      + destruct H as [Hst [Hi Hok]]. specialize (IH st1 s1 Hi).
        cbn [chain_spec sp_out sp_next] in IH. rewrite <- Hst.
        destruct (bw_chain maxbuf frames t st1 s1) as [[[|e|] st2] s2].
        * destruct IH as [I1 [I2 I3]]. split; [exact I1|]. split; [exact I2|]. eapply ok_ok; eassumption.
        * eapply ok_err; eassumption.
        * exact IH.
      + apply err_weaken. exact H.
      + exact H.
  Qed.

  Lemma fob_good_all : forall ops,
    Forall2 (sgood inv) (map chain_spec ops) (map (bw_chain maxbuf frames) ops).
  Proof.
    induction ops as [|o t IH]; cbn [map]; constructor; [apply bw_chain_good|exact IH].
  Qed.

  Lemma chain_ideal : forall ops st,
    ideal_out (map chain_spec ops) st = ideal_out (map bspec (concat ops)) st /\
    ideal_state (map chain_spec ops) st = ideal_state (map bspec (concat ops)) st.
  Proof.
    induction ops as [|o t IH]; intros st; cbn [map concat ideal_out ideal_state]; [split; reflexivity|].
    cbn [chain_spec sp_out sp_next]. rewrite map_app, ideal_out_app, ideal_state_app.
    destruct (IH (ideal_state (map bspec o) st)) as [I1 I2]. rewrite I1, I2. split; reflexivity.
  Qed.

  (* what the format layer's calls, flattened, write on a sink that never fails *)
  Definition fob_out (ops : list (list bop)) : list byte := bw_ideal_out maxbuf frames (concat ops).
  Definition fob_state (ops : list (list bop)) : bw := bw_ideal_state maxbuf frames (concat ops).

  Lemma fob_init_inv : inv bw_init.
  Proof. exact maxbuf_pos. Qed.

  (* COMPOSITION THEOREM.  Whatever calls the format layer makes: (a) if every explicit operation
     returned Ok, the sink holds exactly what the BGZF writer produces for the flattened call
     sequence; (b) if the sink's script reached a Fail e, the last operation called returned Err e
     and nothing was called after it; (c) a sink that only writes short / interrupts changes
     nothing; (d) in every case the sink holds a prefix of the fault-free stream. *)
  Theorem format_over_bgzf : forall ops s rs st' s',
    fob_run_ops maxbuf frames ops s = (rs, st', s') ->
    (Forall (fun r => r = Ok) rs ->
       length rs = length ops /\ st' = fob_state ops /\ sbytes s' = sbytes s ++ fob_out ops) /\
    (forall c e, sscript s = c ++ sscript s' -> In (Fail e) c -> e <> e_interrupted ->
       In (Err e) rs /\ exists j, rs = repeat Ok j ++ [Err e]) /\
    (no_fail (sscript s) ->
       rs = repeat Ok (length ops) /\ st' = fob_state ops /\ sbytes s' = sbytes s ++ fob_out ops) /\
    (exists p, sbytes s' = sbytes s ++ p /\ prefix p (fob_out ops)).
  Proof.
    intros ops s rs st' s' Hrun. unfold fob_run_ops in Hrun.
    pose proof (fob_good_all ops) as G.
    destruct (chain_ideal ops bw_init) as [Co Cs].
    unfold fob_out, fob_state, bw_ideal_out, bw_ideal_state. rewrite <- Co, <- Cs.
    split; [|split; [|split]].
    - intros Hall.
      destruct (srun_all_ok_complete _ _ _ _ G bw_init s rs st' s' fob_init_inv Hrun Hall) as [H1 [H2 H3]].
      rewrite map_length in H1. repeat split; assumption.
    - intros c e Hc Hin Hne.
      exact (srun_failure_reported _ _ _ _ G bw_init s rs st' s' c e fob_init_inv Hrun Hc Hin Hne).
    - intros Hnf.
      destruct (srun_short_write_invariant _ _ _ _ G bw_init s rs st' s' fob_init_inv Hrun Hnf) as [H1 [H2 H3]].
      rewrite map_length in H1. repeat split; assumption.
    - exact (srun_prefix _ _ _ _ G bw_init s rs st' s' fob_init_inv Hrun).
  Qed.

  (* ------------------------------------------------------------------------------------- *)
  (* the byte stream only depends on the concatenation of the buffers: closed form of
     write_all(n) on the BGZF writer *)

  Lemma wa_spec_closed : forall fuel n st, n < fuel -> staged st < maxbuf ->
    let st' := snd (wa_spec maxbuf frames fuel n st) in
    staged st' = (staged st + n) mod maxbuf /\
    nfl st' = nfl st + (staged st + n) / maxbuf /\
    fin st' = (if Nat.eqb ((staged st + n) / maxbuf) 0 then fin st else false).
  Proof.
    induction fuel as [|f IH]; intros n st Hlt Hs; [lia|]. cbv zeta.
    destruct n as [|n'].
    - cbn [wa_spec snd]. rewrite Nat.add_0_r.
      rewrite (Nat.mod_small _ _ Hs), (Nat.div_small _ _ Hs). cbn [Nat.eqb]. repeat split; lia.
    - cbn [wa_spec]. cbv zeta. cbn [staged].
      set (amt := Nat.min (maxbuf - staged st) (S n')).
      destruct (Nat.ltb (staged st + amt) maxbuf) eqn:E.
      + apply Nat.ltb_lt in E.
        assert (Hamt : amt = S n') by (subst amt; lia).
        rewrite Hamt, Nat.sub_diag. destruct f; cbn [wa_spec snd staged nfl fin];
          rewrite Hamt in E;
          rewrite (Nat.mod_small _ _ E), (Nat.div_small _ _ E); cbn [Nat.eqb]; repeat split; lia.
      + apply Nat.ltb_ge in E.
        assert (Hamt : amt = maxbuf - staged st) by (subst amt; lia).
        assert (Hle : maxbuf - staged st <= S n') by (subst amt; lia).
        specialize (IH (S n' - amt) (mkBw 0 (S (nfl st)) (alive st) false)).
        cbv zeta in IH. cbn [staged nfl fin] in IH.
        destruct (wa_spec maxbuf frames f (S n' - amt) (mkBw 0 (S (nfl st)) (alive st) false)) as [o st3].
        cbn [snd] in *.
        destruct IH as [I1 [I2 I3]]; [lia|exact maxbuf_pos|].
        assert (Ht : staged st + S n' = (S n' - amt) + 1 * maxbuf) by lia.
        rewrite Ht, Nat.mod_add, Nat.div_add by lia.
        cbn [Nat.add] in I1, I2, I3.
        split; [exact I1|]. split; [lia|].
        replace (Nat.eqb ((S n' - amt) / maxbuf + 1) 0) with false
          by (symmetry; apply Nat.eqb_neq; lia).
        destruct (Nat.eqb ((S n' - amt) / maxbuf) 0); exact I3.
  Qed.

  Definition blocks_of (total : nat) : nat :=
    total / maxbuf + (if Nat.eqb (total mod maxbuf) 0 then 0 else 1).

  (* BGZF(b): the frames of a buffer of [total] bytes, then the EOF block *)
  Definition bgzf_of_len (total : nat) : list byte := frames_from frames 0 (blocks_of total) ++ BGZF_EOF.

  Lemma writes_state : forall ns st, alive st = true -> staged st < maxbuf ->
    let st' := ideal_state (map bspec (map BWriteAll ns)) st in
    staged st' = (staged st + list_sum ns) mod maxbuf /\
    nfl st' = nfl st + (staged st + list_sum ns) / maxbuf /\ alive st' = true.
  Proof.
    induction ns as [|n t IH]; intros st Ha Hs; cbv zeta; cbn [map ideal_state];
      [change (list_sum []) with 0|change (list_sum (n :: t)) with (n + list_sum t)].
    - rewrite Nat.add_0_r, (Nat.mod_small _ _ Hs), (Nat.div_small _ _ Hs). repeat split; [lia|exact Ha].
    - cbn [bop_spec sp_next]. rewrite Ha. unfold wa_next.
      pose proof (wa_spec_closed (S n) n st (Nat.lt_succ_diag_r n) Hs) as C. cbv zeta in C.
      pose proof (wa_spec_frames maxbuf frames maxbuf_pos (S n) n st) as F. cbv zeta in F.
      set (st1 := snd (wa_spec maxbuf frames (S n) n st)) in *.
      destruct C as [C1 [C2 _]]. destruct F as [_ [_ [F3 _]]].
      assert (Hs1 : staged st1 < maxbuf) by (rewrite C1; apply Nat.mod_upper_bound; lia).
      assert (Ha1 : alive st1 = true) by congruence.
      destruct (IH st1 Ha1 Hs1) as [I1 [I2 I3]]. cbv zeta in I1, I2, I3.
      rewrite I1, I2, C1, C2. split; [|split; [|exact I3]].
      + rewrite Nat.add_mod_idemp_l by lia. f_equal. lia.
      + assert (Hd : (staged st + n + list_sum t) / maxbuf
                     = (staged st + n) / maxbuf + ((staged st + n) mod maxbuf + list_sum t) / maxbuf).
        { pose proof (Nat.div_mod (staged st + n) maxbuf) as D.
          assert (Hm : maxbuf <> 0) by lia. specialize (D Hm).
          set (q := (staged st + n) / maxbuf) in *. set (r := (staged st + n) mod maxbuf) in *.
          replace (staged st + n + list_sum t) with (r + list_sum t + q * maxbuf) by lia.
          rewrite Nat.div_add by lia. lia. }
        rewrite Nat.add_assoc, Hd. lia.
  Qed.

  (* the format layer writes buffers of lengths ns (in any grouping into operations, see
     [format_over_bgzf]) and finishes: the fault-free stream is BGZF of the concatenation *)
  Theorem writes_then_finish_out : forall ns o, o = BTryFinish \/ o = BFinish ->
    bw_ideal_out maxbuf frames (map BWriteAll ns ++ [o]) = bgzf_of_len (list_sum ns).
  Proof.
    intros ns o Ho.
    set (mops := map MWriteAll ns).
    assert (Hm : map BWriteAll ns = map mop_bop mops).
    { subst mops. rewrite map_map. reflexivity. }
    assert (Hx : bw_ideal_out maxbuf frames (map BWriteAll ns ++ [o])
                 = bw_ideal_out maxbuf frames (map BWriteAll ns ++ [BFinish])).
    { unfold bw_ideal_out. rewrite !map_app, !ideal_out_app.
      destruct Ho as [Ho|Ho]; subst o; reflexivity. }
    rewrite Hx, Hm, <- (mt_out_is_st_out maxbuf frames maxbuf_pos mops).
    unfold mt_out, bgzf_of_len, frames_from. f_equal. f_equal. f_equal.
    rewrite (mt_nblocks_ideal maxbuf maxbuf_pos). unfold bw_ideal_state.
    rewrite map_app, ideal_state_app, <- Hm.
    destruct (writes_state ns bw_init eq_refl maxbuf_pos) as [W1 [W2 W3]]. cbv zeta in W1, W2, W3.
    rewrite (ideal_state_indep maxbuf frames [] (map BWriteAll ns) bw_init) in W1, W2, W3.
    set (st1 := ideal_state (map (bop_spec maxbuf []) (map BWriteAll ns)) bw_init) in *.
    cbn [map ideal_state bop_spec sp_next]. rewrite W3. unfold flush_next, blocks_of.
    cbn [staged nfl bw_init Nat.add] in W1, W2. rewrite W1.
    f_equal. destruct (Nat.eqb (list_sum ns mod maxbuf) 0); cbn [nfl]; lia.
  Qed.

  (* ------------------------------------------------------------------------------------- *)
  (* The staging-buffer case (CSI / tabix indexes, small bgzipped SAM / VCF, small BAM / BCF):
     everything the format layer writes fits the staging buffer, so no call before the finishing
     one reaches the sink, and a destination failure can only happen inside try_finish / finish —
     which reports it. *)

  Lemma bw_write_all_staged : forall n st s, alive st = true -> staged st + n < maxbuf ->
    bw_exec maxbuf frames (BWriteAll n) st s
    = (Ok, mkBw (staged st + n) (nfl st) (alive st) (fin st), s).
  Proof.
    intros n st s Ha Hlt. destruct st as [sg nf al fi]. cbn [alive staged nfl fin] in *. subst al.
    unfold bw_exec. cbn [alive]. unfold bw_write_all.
    destruct n as [|n'].
    - cbn [bw_write_all_fuel]. rewrite Nat.add_0_r. reflexivity.
    - cbn [bw_write_all_fuel]. unfold bw_write. cbn [staged nfl alive fin].
      replace (Nat.min (maxbuf - sg) (S n')) with (S n') by lia.
      replace (Nat.ltb (sg + S n') maxbuf) with true
        by (symmetry; apply Nat.ltb_lt; exact Hlt).
      rewrite Nat.sub_diag. destruct n'; reflexivity.
  Qed.

  Lemma staged_writes_run : forall ns st s, alive st = true -> staged st + list_sum ns < maxbuf ->
    srun (map (bw_exec maxbuf frames) (map BWriteAll ns)) st s
    = (repeat Ok (length ns), mkBw (staged st + list_sum ns) (nfl st) (alive st) (fin st), s).
  Proof.
    induction ns as [|n t IH]; intros st s Ha Hlt; cbn [map srun length repeat];
      [change (list_sum []) with 0 in *|change (list_sum (n :: t)) with (n + list_sum t) in *].
    - rewrite Nat.add_0_r. destruct st; reflexivity.
    - rewrite (bw_write_all_staged n st s Ha) by lia.
      rewrite IH; cbn [staged alive nfl fin]; [|exact Ha|lia].
      rewrite Nat.add_assoc. reflexivity.
  Qed.

  Lemma srun_app : forall (A : Type) (o1 o2 : list (scomp A)) st s,
    srun (o1 ++ o2) st s =
    let '(rs1, st1, s1) := srun o1 st s in
    if forallb (fun r => match r with Ok => true | _ => false end) rs1
    then let '(rs2, st2, s2) := srun o2 st1 s1 in (rs1 ++ rs2, st2, s2)
    else (rs1, st1, s1).
  Proof.
    intros A. induction o1 as [|o t IH]; intros o2 st s; cbn [app srun].
    - cbn [forallb]. destruct (srun o2 st s) as [[rs2 st2] s2]. reflexivity.
    - destruct (o st s) as [[r st1] s1]. destruct r as [|e|]; cbn [forallb]; try reflexivity.
      rewrite IH. destruct (srun t st1 s1) as [[rs1 st2] s2]. cbn [forallb].
      destruct (forallb _ rs1); [|reflexivity].
      destruct (srun o2 st2 s2) as [[rs2 st3] s3]. reflexivity.
  Qed.

  Lemma forallb_repeat_ok : forall n,
    forallb (fun r => match r with Ok => true | _ => false end) (repeat Ok n) = true.
  Proof. induction n; cbn; auto. Qed.

  Theorem small_file_error_at_finish : forall ns o s rs st' s',
    o = BTryFinish \/ o = BFinish -> list_sum ns < maxbuf ->
    bw_run_ops maxbuf frames (map BWriteAll ns ++ [o]) s = (rs, st', s') ->
    (* the writes all return Ok without touching the sink; the finishing call decides *)
    exists r, rs = repeat Ok (length ns) ++ [r] /\
      (r = Ok -> sbytes s' = sbytes s ++ bgzf_of_len (list_sum ns)) /\
      (forall c e, sscript s = c ++ sscript s' -> In (Fail e) c -> e <> e_interrupted -> r = Err e) /\
      (no_fail (sscript s) -> r = Ok).
  Proof.
    intros ns o s rs st' s' Ho Hlt Hrun.
    pose proof Hrun as Hrun0.
    unfold bw_run_ops in Hrun. rewrite map_app, srun_app in Hrun.
    rewrite (staged_writes_run ns bw_init s eq_refl) in Hrun by (cbn [staged bw_init]; lia).
    rewrite forallb_repeat_ok in Hrun. cbn [map srun] in Hrun.
    destruct (bw_exec maxbuf frames o _ s) as [[r st1] s1] eqn:Eo.
    assert (Hrs : rs = repeat Ok (length ns) ++ [r]).
    { destruct r; inversion Hrun; reflexivity. }
    exists r. split; [exact Hrs|].
    split; [|split].
    - intros Hr. subst r.
      assert (Hall : Forall (fun r => r = Ok) rs).
      { rewrite Hrs. apply Forall_app. split; [|repeat constructor].
        apply Forall_forall. intros x Hx. apply repeat_spec in Hx. exact Hx. }
      destruct (bw_all_ok_complete maxbuf frames maxbuf_pos _ s rs st' s' Hrun0 Hall) as [_ [_ Hb]].
      rewrite Hb. f_equal. apply writes_then_finish_out. exact Ho.
    - intros c e Hc Hin Hne.
      destruct (bw_failure_reported maxbuf frames maxbuf_pos _ s rs st' s' c e Hrun0 Hc Hin Hne) as [_ [j Hj]].
      rewrite Hrs in Hj.
      assert (Hlast : forall (l1 l2 : list res) a b, l1 ++ [a] = l2 ++ [b] -> a = b).
      { intros l1 l2 a b H. apply app_inj_tail in H. tauto. }
      exact (Hlast _ _ _ _ Hj).
    - intros Hnf.
      destruct (bw_short_write_invariant maxbuf frames maxbuf_pos _ s rs st' s' Hrun0 Hnf) as [Hr _].
      rewrite Hrs in Hr. rewrite app_length, map_length in Hr. cbn [length] in Hr.
      replace (length ns + 1) with (S (length ns)) in Hr by lia.
      rewrite <- (Nat.add_1_r (length ns)), repeat_app in Hr. cbn [repeat] in Hr.
      apply app_inj_tail in Hr. tauto.
  Qed.
End FobProofs.

(* ------------------------------------------------------------------------------------- *)
(* CRAM: the generic layered-writer theorems at the level of its sink usage *)
Lemma cram_op_length : forall l, length (calls_out (cram_op l)) = list_sum l.
Proof.
  induction l as [|n l IH]; [reflexivity|].
  unfold calls_out in *. cbn [cram_op map call_out concat]. fold (cram_op l).
  rewrite app_length, repeat_length, IH. reflexivity.
Qed.

Lemma cram_out_length : forall ops, length (lw_out (map cram_op ops)) = cram_total ops.
Proof.
  induction ops as [|o t IH]; [reflexivity|].
  unfold lw_out, cram_total in *. cbn [map concat]. rewrite app_length, IH, cram_op_length. reflexivity.
Qed.

Theorem cram_failure_reported_partial : forall ops s rs s',
  cram_run ops s = (rs, s') ->
  (Forall (fun r => r = Ok) rs -> length rs = length ops /\ length (sbytes s') = length (sbytes s) + cram_total ops) /\
  (forall c e, sscript s = c ++ sscript s' -> In (Fail e) c -> e <> e_interrupted -> In (Err e) rs) /\
  (no_fail (sscript s) -> rs = repeat Ok (length ops) /\ length (sbytes s') = length (sbytes s) + cram_total ops).
Proof.
  intros ops s rs s' H. unfold cram_run in H. split; [|split].
  - intros Hall. destruct (lw_all_ok_complete _ _ _ _ H Hall) as [H1 H2].
    rewrite map_length in H1. split; [exact H1|]. rewrite H2, app_length, cram_out_length. reflexivity.
  - intros c e Hc Hin Hne. exact (lw_failure_reported _ _ _ _ c e H Hc Hin Hne).
  - intros Hnf. destruct (lw_short_write_invariant _ _ _ _ H Hnf) as [H1 H2].
    rewrite map_length in H1. split; [exact H1|]. rewrite H2, app_length, cram_out_length. reflexivity.
Qed.

(* "whenever all calls return Ok the destination holds a complete file that decodes to exactly
   what was written", for ANY writer that is a layered writer over its sink (CRAM, and the twelve
   unbuffered writers), given the codec's own round trip on a healthy destination (the business of
   the codec properties) *)
Theorem layered_all_ok_decodes :
  forall (R : Type) (encode : R -> list (list call)) (decode : list byte -> option R),
    (forall r, decode (lw_out (encode r)) = Some r) ->
    forall r s rs s', sbytes s = [] -> lw_run (encode r) s = (rs, s') ->
      Forall (fun x => x = Ok) rs -> decode (sbytes s') = Some r.
Proof.
  intros R encode decode Hrt r s rs s' Hs H Hall.
  destruct (lw_all_ok_complete _ _ _ _ H Hall) as [_ Hb]. rewrite Hb, Hs. apply Hrt.
Qed.
