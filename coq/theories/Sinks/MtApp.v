(* C14 — bgzf::io::MultithreadedWriter: the APPLICATION thread, and which call reports a failure.

   NV.Sinks.Mt models the pool and the writer thread (the ticket pipeline NV.Io.Sched over this
   property's sink) and says what the joined io::Result is.  This file adds the thread that makes
   the API calls (noodles-bgzf/src/io/multithreaded_writer.rs):

     write(buf)    amt = min(remaining, len); buf.extend(..amt); if !has_remaining { flush()? }; Ok(amt)
     flush()       if buf.is_empty() { Ok(()) } else { send() }
     send()        if write_tx.send(buffered_rx).is_err() { return finish_inner().map(|_| ()) }
                   ... rayon::spawn(compress) ...; Ok(())
     finish()      flush()?; finish_inner()
     finish_inner  drop(write_tx); writer_handle.join().unwrap()

   write_all / flush / finish are therefore sequences of send() calls separated by thread-local
   staging; the staging is line for line the single-threaded writer's (Sink.bw_write / bw_flush with
   send() in place of flush_block()), so the number of send() calls an operation makes is the
   number of frames the single-threaded machine emits for it on the sink that never fails.  The
   program of the application thread is the list of its synchronisation events [aev]:

     ASend   one send(): blocks while the bounded channel is full; fails -- and returns the writer
             thread's io::Result through finish_inner() -- iff the writer thread has exited
             (it only exits early with an Err: the receiver is dropped with the thread's closure);
     ARet    the current write_all / flush returns Ok(());
     AJoin   finish_inner() of finish(): drop the sender, join: enabled once the writer thread can
             exit (channel drained, or stopped on an error); returns the thread's result (after the
             thread has appended the EOF block, Mt.mtc_finish).

   A joint schedule is a list of [jact]: the application thread performs its next event (JApp) or
   the pipeline makes an internal step (JPipe Start / Complete t / Take / Emit; Submit belongs to the
   application thread).  The caller stops at the first Err (`?`). *)
From Coq Require Import List NArith Arith Bool.
From NV Require Import Sinks.Sink Io.Sched Sinks.Mt.
Import ListNotations.

Inductive aev := ASend | ARet | AJoin.

(* the send() calls of one operation of the application thread, and the staging state after it *)
Definition mta_op_events (maxbuf : nat) (o : bop) (st : bw) : list aev * bw :=
  let '(_, st1, _) := bw_exec maxbuf [] o st ideal_sink in (repeat ASend (nfl st1 - nfl st), st1).

(* ops, then finish() = flush()?; finish_inner() *)
Fixpoint mta_prog (maxbuf : nat) (ops : list mop) (st : bw) : list aev :=
  match ops with
  | [] => let (sends, _) := mta_op_events maxbuf BFlush st in sends ++ [AJoin]
  | o :: t =>
      let (sends, st1) := mta_op_events maxbuf (mop_bop o) st in
      sends ++ ARet :: mta_prog maxbuf t st1
  end.

Record mta := mkMta {
  m_pipe : st nat mtc;      (* channel, pool, writer thread *)
  m_prog : list aev;        (* what the application thread still has to do *)
  m_rs : list res;          (* results of the API calls returned so far *)
  m_done : bool             (* finish() has returned, or a call returned Err *)
}.

Inductive jact := JApp | JPipe (a : act).

Section MtApp.
  Variable P : nat.
  Variable maxbuf : nat.
  Variable frames : list (list byte).

  Definition mta_en (p : st nat mtc) (a : act) : bool := enabled mtc_stopped (mt_can_submit P) P p a.

  (* would JApp change the state? (false = the application thread is blocked, or done) *)
  Definition mta_app_enabled (x : mta) : bool :=
    negb (m_done x) &&
    match m_prog x with
    | [] => false
    | ARet :: _ => true
    | ASend :: _ => mtc_stopped (cs (m_pipe x)) || mta_en (m_pipe x) Submit
    | AJoin :: _ => mt_final (m_pipe x)
    end.

  Definition mta_step (x : mta) (a : jact) : mta :=
    match a with
    | JPipe Submit => x
    | JPipe b => mkMta (mt_step P frames (m_pipe x) b) (m_prog x) (m_rs x) (m_done x)
    | JApp =>
        if m_done x then x else
        match m_prog x with
        | [] => x
        | ARet :: t => mkMta (m_pipe x) t (m_rs x ++ [Ok]) false
        | ASend :: t =>
            if mtc_stopped (cs (m_pipe x))
            then (* write_tx.send() found the channel closed: finish_inner() *)
              mkMta (m_pipe x) t (m_rs x ++ [mt_res (cs (m_pipe x))]) true
            else if mta_en (m_pipe x) Submit
            then mkMta (mt_step P frames (m_pipe x) Submit) t (m_rs x) false
            else x
        | AJoin :: t =>
            if mt_final (m_pipe x)
            then mkMta (m_pipe x) t (m_rs x ++ [fst (mt_result (m_pipe x))]) true
            else x
        end
    end.

  Definition mta_init (s : sink) (ops : list mop) : mta :=
    mkMta (mt_init maxbuf s ops) (mta_prog maxbuf ops bw_init) [] false.

  Definition mta_run (ops : list mop) (sched : list jact) (s : sink) : mta :=
    fold_left mta_step sched (mta_init s ops).

  (* ---- an executable family of strategies (for the correspondence check) ----
     [pol i] = after operation i has done its work and before it returns, let the pool and the
     writer thread run until nothing is left to do (the harness: open the gate for every submitted
     block and wait until the writer thread has written them all or has exited); otherwise the
     application thread runs alone (the harness: gate closed, no compress task completes), the
     pipeline stepping only when the application thread is blocked. *)
  Definition mta_pipe_act (p : st nat mtc) : option act :=
    if mta_en p Emit then Some Emit
    else if mta_en p Take then Some Take
    else if mta_en p Start then Some Start
    else match running p with t :: _ => Some (Complete t) | [] => None end.

  Definition mta_pick (pol : nat -> bool) (x : mta) : jact :=
    let pipe := match mta_pipe_act (m_pipe x) with Some a => JPipe a | None => JApp end in
    match m_prog x with
    | ARet :: _ => if pol (length (m_rs x)) then pipe else JApp
    | _ => if mta_app_enabled x then JApp else pipe
    end.

  Fixpoint mta_iter (pick : mta -> jact) (n : nat) (x : mta) : mta :=
    match n with
    | O => x
    | S k => if m_done x then x else mta_iter pick k (mta_step x (pick x))
    end.

  Definition mta_fuel (ops : list mop) : nat := 6 * mt_nblocks maxbuf ops + length ops + 1.

  (* per-call results (ops in order, then finish(), stopping at the first Err) and the sink *)
  Definition mta_model (pol : nat -> bool) (ops : list mop) (s : sink) : option (list res * sink) :=
    let x := mta_iter (mta_pick pol) (mta_fuel ops) (mta_init s ops) in
    if m_done x then Some (m_rs x, snd (mt_result (m_pipe x))) else None.
End MtApp.

Definition mta_pol (plan : list bool) (i : nat) : bool := nth i plan false.
