(* C14 — the CRAM data-container encoder as the sequence of write_all calls it makes on the sink.

     noodles-cram/src/io/writer/container.rs          write_container: build_container (in memory),
                                                      write_header, then write_block per block
     noodles-cram/src/io/writer/container/header.rs   write_header through a CrcWriter: length (i32 LE),
                                                      reference context (3 ITF8), record count (ITF8),
                                                      record counter (LTF8), base count (LTF8), block
                                                      count (ITF8), landmark count (ITF8), the landmarks
                                                      (ITF8 each), CRC32 (4 bytes)
     noodles-cram/src/io/writer/container/block.rs    write_block through a CrcWriter: method (1 byte),
                                                      content type (1), content id (ITF8), compressed
                                                      size (ITF8), uncompressed size (ITF8), the data
                                                      (one write_all; no inner call when empty), CRC32 (4)
     noodles-cram/src/io/writer.rs                    try_finish = flush (the data container of the
                                                      buffered records) then write_eof_container (ONE
                                                      write_all of the 38-byte EOF container)

   CrcWriter::write forwards to the inner write, so each write_all above is a write_all on the sink.
   The BYTES (and the lengths of the variable-length integers and of the compressed data) are not
   reproducible between two runs (hash-map order in the compression header); the CALL STRUCTURE is:
   a container is described by the lengths of its header fields and, per block, the lengths of its
   three ITF8 fields and of its data -- an oracle of the run -- and this file derives the calls. *)
From Coq Require Import List NArith Arith Bool.
From NV Require Import Sinks.Sink Sinks.Format Sinks.IndexCalls.
Import ListNotations.
Close Scope N_scope.

Record cblock := mkCblock { cb_id : nat; cb_csize : nat; cb_usize : nat; cb_data : nat }.
Record ccont := mkCcont {
  cc_ctx : list nat;        (* reference id, alignment start, alignment span *)
  cc_nrec : nat; cc_counter : nat; cc_bases : nat; cc_nblocks : nat; cc_nland : nat;
  cc_landmarks : list nat;
  cc_blocks : list cblock
}.

Definition EOF_CONTAINER_LEN : nat := 38.

Definition cb_lens (b : cblock) : list nat :=
  [1; 1; cb_id b; cb_csize b; cb_usize b] ++ (if Nat.eqb (cb_data b) 0 then [] else [cb_data b]) ++ [4].

Definition cc_header_lens (c : ccont) : list nat :=
  [4] ++ cc_ctx c ++ [cc_nrec c; cc_counter c; cc_bases c; cc_nblocks c; cc_nland c] ++ cc_landmarks c ++ [4].

Definition cc_lens (c : ccont) : list nat := cc_header_lens c ++ concat (map cb_lens (cc_blocks c)).

(* the shape write_header / write_block impose: every variable-length integer has 1..5 (ITF8) or
   1..9 (LTF8) bytes, three context fields *)
Definition itf8_len (n : nat) : bool := Nat.leb 1 n && Nat.leb n 5.
Definition ltf8_len (n : nat) : bool := Nat.leb 1 n && Nat.leb n 9.
Definition cb_wf (b : cblock) : bool := itf8_len (cb_id b) && itf8_len (cb_csize b) && itf8_len (cb_usize b).
Definition cc_wf (c : ccont) : bool :=
  Nat.eqb (length (cc_ctx c)) 3 && forallb itf8_len (cc_ctx c) && itf8_len (cc_nrec c)
  && ltf8_len (cc_counter c) && ltf8_len (cc_bases c) && itf8_len (cc_nblocks c) && itf8_len (cc_nland c)
  && forallb itf8_len (cc_landmarks c) && forallb cb_wf (cc_blocks c).

(* the calls as a `?`-chain (content opaque) *)
Definition cc_calls (lens : list nat) : list icall := map (fun n => IW (repeat 0%N n)) lens.

Definition cramc_write_container (c : ccont) (s : sink) : res * sink := ix_run (cc_calls (cc_lens c)) s.

(* try_finish: the data containers still to be written (none when no record is buffered), then EOF *)
Definition cramc_finish_lens (cs : list ccont) : list nat := concat (map cc_lens cs) ++ [EOF_CONTAINER_LEN].

(* the life of the harness: write_header (its calls are handed in), one write_alignment_record call
   per record -- it buffers the record, after writing the data container of the buffered records
   when the buffer is full ([recs]: the containers each such call writes, usually none) --, then
   try_finish *)
Definition cramc_run (hdr : list nat) (recs : list (list ccont)) (fin : list ccont) (s : sink)
  : list res * sink :=
  cram_run ([hdr] ++ map (fun cs => concat (map cc_lens cs)) recs ++ [cramc_finish_lens fin]) s.
