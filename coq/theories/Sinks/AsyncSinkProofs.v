(* C14 — async write_all / `?`-chains over a destination whose polls return Pending, accept part
   of the buffer, or fail: an injected error is returned by the awaiting call, the destination holds
   a prefix; without error events the output is byte-identical whatever the Pending / partial
   pattern. *)
From Coq Require Import List NArith Arith Bool Lia.
From NV Require Import Sinks.Sink Sinks.SinkProofs Sinks.AsyncSink.
Import ListNotations.

Definition a_noerr (c : list aevent) : Prop := Forall (fun ev => forall e, ev <> AErr e) c.

Definition a_ok (s s' : asink) (out : list byte) : Prop :=
  as_bytes s' = as_bytes s ++ out /\ exists c, as_script s = c ++ as_script s' /\ a_noerr c.

Definition a_err (s s' : asink) (e : errk) (out : list byte) : Prop :=
  exists p c, as_bytes s' = as_bytes s ++ p /\ prefix p out /\
              as_script s = c ++ AErr e :: as_script s' /\ a_noerr c.

Definition a_good (out : list byte) (a : asink -> res * asink) : Prop :=
  forall s, match a s with
            | (Ok, s') => a_ok s s' out
            | (Err e, s') => a_err s s' e out
            | (OutOfFuel, _) => False
            end.

Lemma a_noerr_app : forall a b, a_noerr a -> a_noerr b -> a_noerr (a ++ b).
Proof. intros a b Ha Hb. unfold a_noerr. apply Forall_app. split; assumption. Qed.

Lemma a_ok_refl : forall s, a_ok s s [].
Proof. intros s. split; [rewrite app_nil_r; reflexivity|]. exists []. split; [reflexivity|constructor]. Qed.

Lemma as_write_all_from_spec : forall script bytes polls buf,
  match as_write_all_from script bytes polls buf with
  | (Ok, s') => a_ok (mkAs bytes script polls) s' buf
  | (Err e, s') => a_err (mkAs bytes script polls) s' e buf
  | (OutOfFuel, _) => False
  end.
Proof.
  induction script as [|ev p IH]; intros bytes polls buf.
  - destruct buf as [|b0 bt]; cbn [as_write_all_from].
    + apply a_ok_refl.
    + split; [reflexivity|]. exists []. split; [reflexivity|constructor].
  - destruct buf as [|b0 bt]; [cbn [as_write_all_from]; apply a_ok_refl|].
    destruct ev as [|k|e]; cbn [as_write_all_from].
    + (* Pending *)
      specialize (IH bytes (S polls) (b0 :: bt)).
      destruct (as_write_all_from p bytes (S polls) (b0 :: bt)) as [[|e|] s'].
      * destruct IH as [Hb [c [Hs Hc]]]. cbn [as_bytes as_script] in *. split; [exact Hb|].
        exists (APending :: c). cbn [app]. rewrite Hs. split; [reflexivity|].
        constructor; [intros e; discriminate|exact Hc].
      * destruct IH as [q [c [Hb [Hp [Hs Hc]]]]]. cbn [as_bytes as_script] in *.
        exists q, (APending :: c). cbn [app]. rewrite Hs. repeat split; auto.
        constructor; [intros e0; discriminate|exact Hc].
      * exact IH.
    + (* Accept *)
      set (n := Nat.min (Nat.max k 1) (length (b0 :: bt))).
      assert (Hn : 0 < n) by (subst n; cbn [length]; lia).
      destruct (Nat.eqb n 0) eqn:E; [apply Nat.eqb_eq in E; lia|].
      specialize (IH (bytes ++ firstn n (b0 :: bt)) (S polls) (skipn n (b0 :: bt))).
      destruct (as_write_all_from p (bytes ++ firstn n (b0 :: bt)) (S polls) (skipn n (b0 :: bt))) as [[|e|] s'].
      * destruct IH as [Hb [c [Hs Hc]]]. cbn [as_bytes as_script] in *. split.
        { rewrite Hb, <- app_assoc, firstn_skipn. reflexivity. }
        exists (AAccept k :: c). cbn [app]. rewrite Hs. split; [reflexivity|].
        constructor; [intros e; discriminate|exact Hc].
      * destruct IH as [q [c [Hb [Hp [Hs Hc]]]]]. cbn [as_bytes as_script] in *.
        exists (firstn n (b0 :: bt) ++ q), (AAccept k :: c). cbn [app]. rewrite Hs. repeat split.
        { rewrite Hb, app_assoc. reflexivity. }
        { rewrite <- (firstn_skipn n (b0 :: bt)) at 2. apply prefix_app_l. exact Hp. }
        { constructor; [intros e0; discriminate|exact Hc]. }
      * exact IH.
    + (* Err *)
      exists [], []. cbn [as_bytes as_script app]. rewrite app_nil_r. repeat split.
      * apply prefix_nil.
      * constructor.
Qed.

Lemma as_write_all_good : forall buf, a_good buf (as_write_all buf).
Proof.
  intros buf [bytes script polls]. unfold as_write_all. cbn [as_script as_bytes as_polls].
  apply as_write_all_from_spec.
Qed.

Lemma a_ok_ok : forall s s1 s2 o1 o2, a_ok s s1 o1 -> a_ok s1 s2 o2 -> a_ok s s2 (o1 ++ o2).
Proof.
  intros s s1 s2 o1 o2 [Hb1 [c1 [Hs1 Hc1]]] [Hb2 [c2 [Hs2 Hc2]]]. split.
  - rewrite Hb2, Hb1, app_assoc. reflexivity.
  - exists (c1 ++ c2). split; [rewrite Hs1, Hs2, app_assoc; reflexivity|apply a_noerr_app; assumption].
Qed.

Lemma a_ok_err : forall s s1 s2 o1 o2 e, a_ok s s1 o1 -> a_err s1 s2 e o2 -> a_err s s2 e (o1 ++ o2).
Proof.
  intros s s1 s2 o1 o2 e [Hb1 [c1 [Hs1 Hc1]]] [p [c2 [Hb2 [Hp [Hs2 Hc2]]]]].
  exists (o1 ++ p), (c1 ++ c2). repeat split.
  - rewrite Hb2, Hb1, app_assoc. reflexivity.
  - apply prefix_app_l. exact Hp.
  - rewrite Hs1, Hs2, app_assoc. reflexivity.
  - apply a_noerr_app; assumption.
Qed.

Lemma a_err_weaken : forall s s1 e o1 o2, a_err s s1 e o1 -> a_err s s1 e (o1 ++ o2).
Proof.
  intros s s1 e o1 o2 [p [c [Hb [Hp [Hs Hc]]]]]. exists p, c. repeat split; try assumption.
  apply prefix_app_r. exact Hp.
Qed.

Lemma as_chain_good : forall bufs, a_good (concat bufs) (as_chain bufs).
Proof.
  induction bufs as [|b t IH]; intros s; cbn [as_chain concat]; [apply a_ok_refl|].
  pose proof (as_write_all_good b s) as G.
  destruct (as_write_all b s) as [[|e|] s1].
  - specialize (IH s1). destruct (as_chain t s1) as [[|e|] s2].
    + eapply a_ok_ok; eassumption.
    + eapply a_ok_err; eassumption.
    + exact IH.
  - apply a_err_weaken. exact G.
  - exact G.
Qed.

(* the shape of a life: all operations Ok, or Ok^j then Err e and nothing after *)
Lemma as_run_shape : forall ops s,
  let (rs, s') := as_run ops s in
  (rs = repeat Ok (length ops) /\ a_ok s s' (as_out ops)) \/
  (exists j e, j < length ops /\ rs = repeat Ok j ++ [Err e] /\ a_err s s' e (as_out ops)).
Proof.
  induction ops as [|o t IH]; intros s; cbn [as_run].
  - left. split; [reflexivity|apply a_ok_refl].
  - pose proof (as_chain_good o s) as G. unfold as_out. cbn [map concat length].
    destruct (as_chain o s) as [[|e|] s1].
    + specialize (IH s1). destruct (as_run t s1) as [rs s2].
      destruct IH as [[Hrs Hok]|[j [e [Hj [Hrs Herr]]]]].
      * left. split; [cbn [repeat]; rewrite Hrs; reflexivity|eapply a_ok_ok; eassumption].
      * right. exists (S j), e. split; [lia|]. split; [cbn [repeat app]; rewrite Hrs; reflexivity|].
        eapply a_ok_err; eassumption.
    + right. exists 0, e. split; [lia|]. split; [reflexivity|apply a_err_weaken; exact G].
    + contradiction.
Qed.

Lemma a_noerr_not_in : forall c e, a_noerr c -> ~ In (AErr e) c.
Proof. intros c e H Hin. unfold a_noerr in H. rewrite Forall_forall in H. exact (H _ Hin e eq_refl). Qed.

(* MAIN (async): the whole property for a life of `?`-chains of write_all(..).await *)
Theorem as_run_property : forall ops s rs s',
  as_run ops s = (rs, s') ->
  (Forall (fun r => r = Ok) rs -> length rs = length ops /\ as_bytes s' = as_bytes s ++ as_out ops) /\
  (forall c e, as_script s = c ++ as_script s' -> In (AErr e) c ->
     exists j, j < length ops /\ rs = repeat Ok j ++ [Err e]) /\
  (a_noerr (as_script s) -> rs = repeat Ok (length ops) /\ as_bytes s' = as_bytes s ++ as_out ops) /\
  (exists p, as_bytes s' = as_bytes s ++ p /\ prefix p (as_out ops)).
Proof.
  intros ops s rs s' H. pose proof (as_run_shape ops s) as Sh. rewrite H in Sh.
  destruct Sh as [[Hrs [Hb [c0 [Hs0 Hc0]]]]|[j [e0 [Hj [Hrs [p [c0 [Hb [Hp [Hs0 Hc0]]]]]]]]]].
  - repeat split.
    + rewrite Hrs, repeat_length. reflexivity.
    + exact Hb.
    + intros c e Hc Hin. exfalso. rewrite Hs0 in Hc. apply app_inv_tail in Hc. subst c0.
      exact (a_noerr_not_in _ _ Hc0 Hin).
    + exact Hrs.
    + exact Hb.
    + exists (as_out ops). split; [exact Hb|apply prefix_refl].
  - repeat split.
    + exfalso. rewrite Hrs in H0. rewrite Forall_forall in H0.
      assert (E : Err e0 = Ok) by (apply H0; apply in_or_app; right; left; reflexivity). discriminate.
    + exfalso. rewrite Hrs in H0. rewrite Forall_forall in H0.
      assert (E : Err e0 = Ok) by (apply H0; apply in_or_app; right; left; reflexivity). discriminate.
    + intros c e Hc Hin.
      assert (Hc' : c = c0 ++ [AErr e0]).
      { rewrite Hs0 in Hc. change (AErr e0 :: as_script s') with ([AErr e0] ++ as_script s') in Hc.
        rewrite app_assoc in Hc. apply app_inv_tail in Hc. symmetry. exact Hc. }
      rewrite Hc' in Hin. apply in_app_or in Hin. destruct Hin as [Hin|Hin].
      * exfalso. exact (a_noerr_not_in _ _ Hc0 Hin).
      * destruct Hin as [Hin|[]]. injection Hin as Hin. subst e0. exists j. auto.
    + exfalso. rewrite Hs0 in H0. unfold a_noerr in H0. apply Forall_app in H0. destruct H0 as [_ H0].
      inversion H0 as [|x l Hx _]. exact (Hx e0 eq_refl).
    + exfalso. rewrite Hs0 in H0. unfold a_noerr in H0. apply Forall_app in H0. destruct H0 as [_ H0].
      inversion H0 as [|x l Hx _]. exact (Hx e0 eq_refl).
    + exists p. auto.
Qed.

(* one write_all(..).await *)
Theorem as_write_all_property : forall buf s r s',
  as_write_all buf s = (r, s') ->
  (r = Ok -> as_bytes s' = as_bytes s ++ buf) /\
  (forall c e, as_script s = c ++ as_script s' -> In (AErr e) c -> r = Err e) /\
  (a_noerr (as_script s) -> r = Ok) /\
  (exists p, as_bytes s' = as_bytes s ++ p /\ prefix p buf).
Proof.
  intros buf s r s' H. pose proof (as_write_all_good buf s) as G. rewrite H in G.
  destruct r as [|e0|]; [| |contradiction].
  - destruct G as [Hb [c0 [Hs0 Hc0]]]. repeat split; auto.
    + intros c e Hc Hin. exfalso. rewrite Hs0 in Hc. apply app_inv_tail in Hc. subst c0.
      exact (a_noerr_not_in _ _ Hc0 Hin).
    + exists buf. split; [exact Hb|apply prefix_refl].
  - destruct G as [p [c0 [Hb [Hp [Hs0 Hc0]]]]]. repeat split.
    + discriminate.
    + intros c e Hc Hin.
      assert (Hc' : c = c0 ++ [AErr e0]).
      { rewrite Hs0 in Hc. change (AErr e0 :: as_script s') with ([AErr e0] ++ as_script s') in Hc.
        rewrite app_assoc in Hc. apply app_inv_tail in Hc. symmetry. exact Hc. }
      rewrite Hc' in Hin. apply in_app_or in Hin. destruct Hin as [Hin|Hin].
      * exfalso. exact (a_noerr_not_in _ _ Hc0 Hin).
      * destruct Hin as [Hin|[]]. injection Hin as Hin. subst e0. reflexivity.
    + intros Hn. exfalso. rewrite Hs0 in Hn. unfold a_noerr in Hn. apply Forall_app in Hn.
      destruct Hn as [_ Hn]. inversion Hn as [|x l Hx _]. exact (Hx e0 eq_refl).
    + exists p. auto.
Qed.

(* the async FASTQ writer: the file is the records' text *)
Lemma afq_out : forall recs, as_out (map fq_calls recs) = concat (map fq_text recs).
Proof. intros recs. unfold as_out, fq_text. rewrite map_map. reflexivity. Qed.

(* on scripts without error events this model and C16's NV.Async.WriteAll (read-only) agree: same
   result, same bytes *)
From NV Require Async.WriteAll Async.WriteAllProofs.

Definition a_to_w (ev : aevent) : NV.Async.WriteAll.wevent :=
  match ev with AAccept k => NV.Async.WriteAll.WAccept k | _ => NV.Async.WriteAll.WPending end.

Theorem as_chain_agrees_with_c16 : forall bufs s, a_noerr (as_script s) ->
  exists s' p lg,
    as_chain bufs s = (Ok, s') /\
    NV.Async.WriteAll.write_calls
      (NV.Async.WriteAll.mkASink (as_bytes s) (map a_to_w (as_script s)) []) bufs
    = (NV.Async.WriteAll.WOk, NV.Async.WriteAll.mkASink (as_bytes s') p lg).
Proof.
  intros bufs s Hn. pose proof (as_chain_good bufs s) as G.
  destruct (NV.Async.WriteAllProofs.write_calls_spec bufs
              (NV.Async.WriteAll.mkASink (as_bytes s) (map a_to_w (as_script s)) [])) as [p [lg E]].
  cbn [NV.Async.WriteAll.k_bytes NV.Async.WriteAll.k_log app] in E.
  destruct (as_chain bufs s) as [[|e|] s1].
  - destruct G as [Hb _]. exists s1, p, lg. split; [reflexivity|]. rewrite Hb. exact E.
  - exfalso. destruct G as [q [c [_ [_ [Hs _]]]]]. rewrite Hs in Hn. unfold a_noerr in Hn.
    apply Forall_app in Hn. destruct Hn as [_ Hn]. inversion Hn as [|x l Hx _]. exact (Hx e eq_refl).
  - contradiction.
Qed.
