(* C14 — the multithreaded BGZF writer seen from the application thread: under EVERY joint schedule
   of application thread, pool and writer thread, the API calls return Ok until one of them returns
   the writer thread's io::Result; that call is the first send()/join made after the writer thread
   stopped; the result and the sink are those of the sequential `?`-chain of Mt.mt_calls. *)
From Coq Require Import List NArith Arith Bool Lia.
From NV Require Import Sinks.Sink Sinks.SinkProofs Sinks.LayerProofs Sinks.BgzfProofs.
From NV Require Import Io.Sched Io.SchedProofs Sinks.Mt Sinks.MtProofs Sinks.MtApp.
Import ListNotations.

(* ---- shape of the application thread's program ---- *)
Fixpoint prog_ok (p : list aev) : bool :=
  match p with
  | [] => false
  | AJoin :: t => match t with [] => true | _ :: _ => false end
  | _ :: t => prog_ok t
  end.

Fixpoint count_ret (p : list aev) : nat :=
  match p with [] => 0 | ARet :: t => S (count_ret t) | _ :: t => count_ret t end.

Fixpoint count_send (p : list aev) : nat :=
  match p with [] => 0 | ASend :: t => S (count_send t) | _ :: t => count_send t end.

Lemma prog_ok_sends : forall k p, prog_ok (repeat ASend k ++ p) = prog_ok p.
Proof. induction k as [|k IH]; intros p; cbn [repeat app prog_ok]; [reflexivity|apply IH]. Qed.

Lemma count_ret_sends : forall k p, count_ret (repeat ASend k ++ p) = count_ret p.
Proof. induction k as [|k IH]; intros p; cbn [repeat app count_ret]; [reflexivity|apply IH]. Qed.

Lemma count_send_sends : forall k p, count_send (repeat ASend k ++ p) = k + count_send p.
Proof. induction k as [|k IH]; intros p; cbn [repeat app count_send]; [reflexivity|rewrite IH; reflexivity]. Qed.

Lemma mta_prog_ok : forall maxbuf ops st, prog_ok (mta_prog maxbuf ops st) = true.
Proof.
  intros maxbuf. induction ops as [|o t IH]; intros st; cbn [mta_prog]; unfold mta_op_events.
  - destruct (bw_exec maxbuf [] BFlush st ideal_sink) as [[r st1] s1].
    rewrite prog_ok_sends. reflexivity.
  - destruct (bw_exec maxbuf [] (mop_bop o) st ideal_sink) as [[r st1] s1].
    rewrite prog_ok_sends. cbn [prog_ok]. apply IH.
Qed.

Lemma mta_prog_rets : forall maxbuf ops st, count_ret (mta_prog maxbuf ops st) = length ops.
Proof.
  intros maxbuf. induction ops as [|o t IH]; intros st; cbn [mta_prog]; unfold mta_op_events.
  - destruct (bw_exec maxbuf [] BFlush st ideal_sink) as [[r st1] s1].
    rewrite count_ret_sends. reflexivity.
  - destruct (bw_exec maxbuf [] (mop_bop o) st ideal_sink) as [[r st1] s1].
    rewrite count_ret_sends. cbn [count_ret length]. rewrite IH. reflexivity.
Qed.

Lemma repeat_snoc : forall (A : Type) (a : A) n, repeat a n ++ [a] = repeat a (S n).
Proof. intros A a. induction n as [|n IH]; cbn [repeat app]; [reflexivity|]. rewrite IH. reflexivity. Qed.

(* ---- the number of send() calls is the number of blocks of NV.Sinks.Mt ---- *)
Section Sends.
  Variable maxbuf : nat.
  Hypothesis maxbuf_pos : 0 < maxbuf.

  Lemma bw_exec_ideal : forall o st, binv maxbuf st ->
    exists s1, bw_exec maxbuf [] o st ideal_sink = (Ok, sp_next (bop_spec maxbuf [] o) st, s1)
               /\ binv maxbuf (sp_next (bop_spec maxbuf [] o) st).
  Proof.
    intros o st Hinv. pose proof (bw_exec_good maxbuf [] maxbuf_pos o st ideal_sink Hinv) as H.
    destruct (bw_exec maxbuf [] o st ideal_sink) as [[[|e|] st1] s1].
    - destruct H as [H1 [H2 _]]. subst st1. exists s1. split; [reflexivity|exact H2].
    - exfalso. destruct H as [p [c [_ [_ [Hs _]]]]]. cbn [ideal_sink sscript] in Hs.
      destruct c; discriminate.
    - contradiction.
  Qed.

  Lemma wa_spec_nfl : forall (fr : list (list byte)) fuel n st,
    nfl st <= nfl (snd (wa_spec maxbuf fr fuel n st)).
  Proof.
    intros fr. induction fuel as [|f IH]; intros n st; destruct n as [|n]; cbn [wa_spec snd]; try lia.
    cbn [staged]. set (amt := Nat.min (maxbuf - staged st) (S n)).
    destruct (Nat.ltb (staged st + amt) maxbuf).
    - specialize (IH (S n - amt) (mkBw (staged st + amt) (nfl st) (alive st) (fin st))).
      cbn [nfl] in IH. exact IH.
    - specialize (IH (S n - amt) (mkBw 0 (S (nfl st)) (alive st) false)).
      destruct (wa_spec maxbuf fr f (S n - amt) (mkBw 0 (S (nfl st)) (alive st) false)) as [o st3].
      cbn [snd nfl] in *. lia.
  Qed.

  Lemma bop_next_nfl : forall o st, (o = BFlush \/ exists n, o = BWriteAll n) ->
    nfl st <= nfl (sp_next (bop_spec maxbuf [] o) st).
  Proof.
    intros o st [Ho|[n Ho]]; subst o; cbn [bop_spec sp_next]; destruct (alive st); try lia.
    - unfold flush_next. destruct (Nat.eqb (staged st) 0); cbn [nfl]; lia.
    - unfold wa_next. apply wa_spec_nfl.
  Qed.

  Lemma mop_bop_shape : forall o, mop_bop o = BFlush \/ exists n, mop_bop o = BWriteAll n.
  Proof. intros [n|]; cbn [mop_bop]; [right; exists n; reflexivity|left; reflexivity]. Qed.

  Lemma mta_prog_sends_from : forall ops st, binv maxbuf st ->
    count_send (mta_prog maxbuf ops st) + nfl st
    = nfl (ideal_state (map (bop_spec maxbuf []) (map mop_bop ops ++ [BFlush])) st).
  Proof.
    induction ops as [|o t IH]; intros st Hinv; cbn [mta_prog map app ideal_state]; unfold mta_op_events.
    - destruct (bw_exec_ideal BFlush st Hinv) as [s1 [He _]]. rewrite He.
      rewrite count_send_sends. cbn [count_send].
      pose proof (bop_next_nfl BFlush st (or_introl eq_refl)). lia.
    - destruct (bw_exec_ideal (mop_bop o) st Hinv) as [s1 [He Hinv1]]. rewrite He.
      rewrite count_send_sends. cbn [count_send].
      specialize (IH _ Hinv1).
      pose proof (bop_next_nfl (mop_bop o) st (mop_bop_shape o)). lia.
  Qed.

  Theorem mta_prog_sends : forall ops,
    count_send (mta_prog maxbuf ops bw_init) = mt_nblocks maxbuf ops.
  Proof.
    intros ops. rewrite (mt_nblocks_ideal maxbuf maxbuf_pos ops). unfold bw_ideal_state.
    rewrite <- (mta_prog_sends_from ops bw_init (bw_init_inv maxbuf maxbuf_pos)).
    cbn [bw_init nfl]. lia.
  Qed.
End Sends.

(* ---- pipeline steps seen from the application thread ---- *)
Section Joint.
  Variable P : nat.
  Variable maxbuf : nat.
  Variable frames : list (list byte).

  Notation pstep := (mt_step P frames).

  Lemma mt_step_final : forall p a,
    mt_final p = true -> mt_final (pstep p a) = true /\ cs (pstep p a) = cs p.
  Proof.
    intros p a F. unfold mt_step, step.
    destruct (enabled mtc_stopped (mt_can_submit P) P p a) eqn:E; [|split; [exact F|reflexivity]].
    destruct p as [td n ch h pe r d co c]. unfold mt_final, final, drained in *.
    cbn [todo chan hold cs] in *.
    destruct a as [| |t| |]; cbn [enabled todo chan hold pending running done cs] in E.
    - destruct td as [|x xs]; [discriminate|]. apply andb_prop in E. destruct E as [_ E].
      rewrite orb_false_r in F. rewrite F in E. discriminate.
    - destruct pe as [|t pe]; [discriminate|]. cbn [todo chan hold cs]. split; [exact F|reflexivity].
    - cbn [todo chan hold cs]. split; [exact F|reflexivity].
    - destruct h; [discriminate|]. destruct ch as [|q ch]; [discriminate|].
      destruct td; cbn in F; rewrite orb_false_r in F; rewrite F in E; discriminate.
    - destruct h as [[t x]|]; [|discriminate]. apply andb_prop in E. destruct E as [_ E].
      destruct td; [destruct ch|]; cbn in F; rewrite orb_false_r in F; rewrite F in E; discriminate.
  Qed.

  Lemma mt_step_todo : forall p a, a <> Submit -> todo (pstep p a) = todo p.
  Proof.
    intros p a Ha. unfold mt_step, step.
    destruct (enabled mtc_stopped (mt_can_submit P) P p a); [|reflexivity].
    destruct a as [| |t| |]; [contradiction| | | |].
    - destruct (pending p); reflexivity.
    - reflexivity.
    - destruct (chan p); reflexivity.
    - destruct (hold p) as [[t x]|]; reflexivity.
  Qed.

  Lemma mt_step_submit_todo : forall p,
    mta_en P p Submit = true -> length (todo p) = S (length (todo (pstep p Submit))).
  Proof.
    intros p E. unfold mt_step, step. unfold mta_en in E. rewrite E.
    destruct (todo p) as [|x xs] eqn:Et; [cbn [enabled] in E; rewrite Et in E; discriminate|].
    unfold mt_ready. reflexivity.
  Qed.

  (* every joint schedule projects to a schedule of the pipeline alone *)
  Lemma mta_step_pipe : forall x a,
    exists l, m_pipe (mta_step P frames x a) = fold_left pstep l (m_pipe x).
  Proof.
    intros x a. destruct a as [|b]; cbn [mta_step].
    - destruct (m_done x); [exists []; reflexivity|].
      destruct (m_prog x) as [|[| |] t]; try (exists []; reflexivity).
      + destruct (mtc_stopped (cs (m_pipe x))); [exists []; reflexivity|].
        destruct (mta_en P (m_pipe x) Submit); [exists [Submit]; reflexivity|exists []; reflexivity].
      + destruct (mt_final (m_pipe x)); exists []; reflexivity.
    - destruct b; try (exists []; reflexivity);
        match goal with |- context [pstep _ ?c] => exists [c]; reflexivity end.
  Qed.

  Lemma mta_fold_pipe : forall sched x,
    exists l, m_pipe (fold_left (mta_step P frames) sched x) = fold_left pstep l (m_pipe x).
  Proof.
    induction sched as [|a t IH]; intros x; cbn [fold_left]; [exists []; reflexivity|].
    destruct (IH (mta_step P frames x a)) as [l2 H2]. destruct (mta_step_pipe x a) as [l1 H1].
    exists (l1 ++ l2). rewrite fold_left_app, <- H1. exact H2.
  Qed.

  Theorem mta_pipe_is_mt_state : forall ops sched s,
    exists sched', m_pipe (mta_run P maxbuf frames ops sched s) = mt_state P maxbuf frames ops sched' s.
  Proof.
    intros ops sched s. unfold mta_run, mt_state.
    destruct (mta_fold_pipe sched (mta_init maxbuf s ops)) as [l H]. exists l. exact H.
  Qed.

  (* ---- the invariant of the application thread ---- *)
  Definition minv (nops : nat) (x : mta) : Prop :=
    if m_done x
    then mt_final (m_pipe x) = true /\
         exists j, j <= nops /\ m_rs x = repeat Ok j ++ [fst (mt_result (m_pipe x))] /\
                   (fst (mt_result (m_pipe x)) = Ok -> j = nops)
    else prog_ok (m_prog x) = true /\ m_rs x = repeat Ok (length (m_rs x)) /\
         length (m_rs x) + count_ret (m_prog x) = nops.

  Lemma mt_result_stopped : forall p, mtc_stopped (cs p) = true ->
    fst (mt_result p) = mt_res (cs p) /\ mt_res (cs p) <> Ok.
  Proof.
    intros p H. unfold mt_result, mtc_finish. rewrite H. cbn [fst]. split; [reflexivity|].
    unfold mtc_stopped in H. destruct (mt_res (cs p)); [discriminate| |]; discriminate.
  Qed.

  Lemma minv_step : forall nops x a, minv nops x -> minv nops (mta_step P frames x a).
  Proof.
    intros nops x a H. unfold minv in *. destruct a as [|b]; cbn [mta_step].
    - destruct (m_done x) eqn:D; [rewrite D; exact H|].
      destruct H as [Hok [Hrs Hn]].
      destruct (m_prog x) as [|[| |] t] eqn:Ep.
      + rewrite D. rewrite Ep. auto.
      + (* ASend *)
        destruct (mtc_stopped (cs (m_pipe x))) eqn:St.
        * cbn [m_done m_pipe m_rs]. destruct (mt_result_stopped _ St) as [R1 R2]. split.
          { unfold mt_final, final. rewrite St. reflexivity. }
          exists (length (m_rs x)). split; [lia|]. split.
          { rewrite R1, <- Hrs. reflexivity. }
          { rewrite R1. intros C. contradiction. }
        * destruct (mta_en P (m_pipe x) Submit).
          { cbn [m_done m_prog m_rs]. cbn [prog_ok count_ret] in *. auto. }
          { rewrite D, Ep. cbn [prog_ok count_ret]. auto. }
      + (* ARet *)
        cbn [m_done m_prog m_rs]. cbn [prog_ok count_ret] in *. split; [exact Hok|].
        rewrite app_length. cbn [length]. split; [|lia].
        rewrite Nat.add_1_r. rewrite <- repeat_snoc. rewrite <- Hrs. reflexivity.
      + (* AJoin *)
        destruct (mt_final (m_pipe x)) eqn:F.
        * cbn [m_done m_pipe m_rs]. split; [exact F|].
          cbn [prog_ok] in Hok. destruct t; [|discriminate]. cbn [count_ret] in Hn.
          exists (length (m_rs x)). split; [lia|]. split; [rewrite <- Hrs; reflexivity|intros _; lia].
        * rewrite D, Ep. auto.
    - assert (G : forall c, c <> Submit ->
                minv nops (mkMta (pstep (m_pipe x) c) (m_prog x) (m_rs x) (m_done x))).
      { intros c Hc. unfold minv. cbn [m_done m_pipe m_prog m_rs].
        destruct (m_done x); [|exact H].
        destruct H as [F [j [Hj [Hrs Hok]]]].
        destruct (mt_step_final (m_pipe x) c F) as [F' C'].
        assert (R : mt_result (pstep (m_pipe x) c) = mt_result (m_pipe x))
          by (unfold mt_result; rewrite C'; reflexivity).
        split; [exact F'|]. exists j. rewrite R. auto. }
      destruct b; [exact H| | | |]; apply G; discriminate.
  Qed.

  Lemma minv_init : forall ops s, minv (length ops) (mta_init maxbuf s ops).
  Proof.
    intros ops s. unfold minv, mta_init. cbn [m_done m_prog m_rs length repeat].
    split; [apply mta_prog_ok|]. split; [reflexivity|]. rewrite mta_prog_rets. reflexivity.
  Qed.

  Lemma minv_run : forall ops sched s, minv (length ops) (mta_run P maxbuf frames ops sched s).
  Proof.
    intros ops sched s. unfold mta_run. generalize (minv_init ops s).
    generalize (mta_init maxbuf s ops). induction sched as [|a t IH]; intros x H; cbn [fold_left]; [exact H|].
    apply IH. apply minv_step. exact H.
  Qed.

  (* MAIN: once the application thread is done (finish() returned, or a call returned Err), under
     whatever joint schedule: the calls before the last returned Ok, the last one returned the writer
     thread's result, and result and sink are those of the sequential chain *)
  Theorem mta_attribution : forall ops sched s,
    let x := mta_run P maxbuf frames ops sched s in
    m_done x = true ->
    exists j r s',
      run_calls (mt_calls maxbuf frames ops) s = (r, s') /\
      mt_result (m_pipe x) = (r, s') /\
      m_rs x = repeat Ok j ++ [r] /\ j <= length ops /\ (r = Ok -> j = length ops).
  Proof.
    intros ops sched s x D. pose proof (minv_run ops sched s) as H. fold x in H.
    unfold minv in H. rewrite D in H. destruct H as [F [j [Hj [Hrs Hok]]]].
    destruct (mta_pipe_is_mt_state ops sched s) as [sched' Hp]. fold x in Hp.
    rewrite Hp in F. pose proof (mt_equals_sequential P maxbuf frames ops sched' s F) as E.
    unfold mt_life in E. rewrite <- Hp in E.
    destruct (mt_result (m_pipe x)) as [r s'] eqn:Er. cbn [fst] in *.
    exists j, r, s'. repeat split; auto.
  Qed.

  Theorem mta_failure_reported : forall ops sched s c e,
    let x := mta_run P maxbuf frames ops sched s in
    m_done x = true ->
    sscript s = c ++ sscript (snd (mt_result (m_pipe x))) -> In (Fail e) c -> e <> e_interrupted ->
    (exists j, j <= length ops /\ m_rs x = repeat Ok j ++ [Err e]) /\
    exists p, sbytes (snd (mt_result (m_pipe x))) = sbytes s ++ p /\ prefix p (mt_out maxbuf frames ops).
  Proof.
    intros ops sched s c e x D Hc Hin Hne.
    destruct (mta_attribution ops sched s D) as [j [r [s' [Hseq [Hres [Hrs [Hj _]]]]]]]. fold x in Hres, Hrs.
    rewrite Hres in *. cbn [snd] in *.
    destruct (mta_pipe_is_mt_state ops sched s) as [sched' Hp]. fold x in Hp.
    pose proof (minv_run ops sched s) as H. fold x in H. unfold minv in H. rewrite D in H.
    destruct H as [F _]. rewrite Hp in F.
    assert (L : mt_life P maxbuf frames ops sched' s = (r, s'))
      by (unfold mt_life; rewrite <- Hp; exact Hres).
    destruct (mt_failure_reported P maxbuf frames ops sched' s r s' c e F L Hc Hin Hne) as [Hr Hpre].
    subst r. split; [exists j; auto|exact Hpre].
  Qed.

  Theorem mta_all_ok_complete : forall ops sched s,
    let x := mta_run P maxbuf frames ops sched s in
    m_done x = true -> Forall (fun r => r = Ok) (m_rs x) ->
    m_rs x = repeat Ok (S (length ops)) /\
    sbytes (snd (mt_result (m_pipe x))) = sbytes s ++ mt_out maxbuf frames ops.
  Proof.
    intros ops sched s x D Hall.
    destruct (mta_attribution ops sched s D) as [j [r [s' [Hseq [Hres [Hrs [Hj Hok]]]]]]]. fold x in Hres, Hrs.
    assert (Hr : r = Ok).
    { rewrite Hrs in Hall. rewrite Forall_forall in Hall. apply Hall. apply in_or_app. right. left. reflexivity. }
    subst r. rewrite (Hok eq_refl) in Hrs. rewrite repeat_snoc in Hrs. split; [exact Hrs|].
    rewrite Hres. cbn [snd].
    pose proof (mt_good maxbuf frames ops s) as G. rewrite Hseq in G. exact (proj1 G).
  Qed.

  Theorem mta_short_write_invariant : forall ops sched s,
    let x := mta_run P maxbuf frames ops sched s in
    m_done x = true -> no_fail (sscript s) ->
    m_rs x = repeat Ok (S (length ops)) /\
    sbytes (snd (mt_result (m_pipe x))) = sbytes s ++ mt_out maxbuf frames ops.
  Proof.
    intros ops sched s x D Hnf.
    destruct (mta_attribution ops sched s D) as [j [r [s' [Hseq [Hres [Hrs [Hj Hok]]]]]]]. fold x in Hres, Hrs.
    pose proof (mt_good maxbuf frames ops s) as G. rewrite Hseq in G.
    destruct r as [|e|].
    - rewrite (Hok eq_refl) in Hrs. rewrite repeat_snoc in Hrs. split; [exact Hrs|].
      rewrite Hres. cbn [snd]. exact (proj1 G).
    - exfalso. destruct G as [p [c [_ [_ [Hs _]]]]].
      unfold no_fail in Hnf. rewrite Forall_forall in Hnf.
      apply (Hnf (Fail e)) with (e := e); [|reflexivity].
      rewrite Hs. apply in_or_app. right. left. reflexivity.
    - contradiction.
  Qed.

  (* WHICH call: as soon as the writer thread has stopped, the very next channel operation of the
     application thread (a send() inside write/flush/finish, or the join of finish()) is never
     blocked and returns the thread's error; calls returning in between made no channel operation *)
  Theorem mta_first_observer : forall x ev t,
    m_done x = false -> m_prog x = ev :: t -> mtc_stopped (cs (m_pipe x)) = true ->
    let x' := mta_step P frames x JApp in
    match ev with
    | ARet => m_pipe x' = m_pipe x /\ m_rs x' = m_rs x ++ [Ok] /\ m_done x' = false
    | _ => m_done x' = true /\ m_pipe x' = m_pipe x /\
           exists e, mt_res (cs (m_pipe x)) = e /\ e <> Ok /\ m_rs x' = m_rs x ++ [e]
    end.
  Proof.
    intros x ev t D Ep St x'. subst x'. cbn [mta_step]. rewrite D, Ep.
    destruct (mt_result_stopped _ St) as [R1 R2].
    destruct ev.
    - rewrite St. cbn [m_done m_pipe m_rs]. split; [reflexivity|]. split; [reflexivity|].
      exists (mt_res (cs (m_pipe x))). auto.
    - cbn [m_done m_pipe m_rs]. auto.
    - assert (F : mt_final (m_pipe x) = true) by (unfold mt_final, final; rewrite St; reflexivity).
      rewrite F. cbn [m_done m_pipe m_rs]. split; [reflexivity|]. split; [reflexivity|].
      exists (mt_res (cs (m_pipe x))). rewrite R1. auto.
  Qed.
End Joint.

(* ---- the executable strategies are joint schedules, and every one of them finishes ---- *)
Section Strategies.
  Variable P : nat.
  Variable maxbuf : nat.
  Variable frames : list (list byte).
  Hypothesis P_pos : 0 < P.
  Hypothesis maxbuf_pos : 0 < maxbuf.

  Notation pstep := (mt_step P frames).
  Notation jstep := (mta_step P frames).
  Notation pwf := (wf nat mtc).

  Lemma mta_iter_is_run : forall pick n x,
    exists sched, mta_iter P frames pick n x = fold_left jstep sched x.
  Proof.
    intros pick. induction n as [|n IH]; intros x; cbn [mta_iter]; [exists []; reflexivity|].
    destruct (m_done x); [exists []; reflexivity|].
    destruct (IH (jstep x (pick x))) as [sched H]. exists (pick x :: sched). exact H.
  Qed.

  Theorem mta_model_is_run : forall pol ops s rs s',
    mta_model P maxbuf frames pol ops s = Some (rs, s') ->
    exists sched, let x := mta_run P maxbuf frames ops sched s in
      m_done x = true /\ rs = m_rs x /\ s' = snd (mt_result (m_pipe x)).
  Proof.
    intros pol ops s rs s' H. unfold mta_model in H.
    destruct (mta_iter_is_run (mta_pick P pol) (mta_fuel maxbuf ops) (mta_init maxbuf s ops)) as [sched Hs].
    exists sched. unfold mta_run. rewrite <- Hs.
    destruct (m_done (mta_iter P frames (mta_pick P pol) (mta_fuel maxbuf ops) (mta_init maxbuf s ops)));
      [|discriminate].
    injection H as H1 H2. cbn zeta. auto.
  Qed.

  Definition mmeasure (x : mta) : nat := measure (m_pipe x) + length (m_prog x).

  (* well-formed pipeline; while the application thread runs, what it still has to send is what
     the pipeline still expects *)
  Definition tinv (x : mta) : Prop :=
    pwf (m_pipe x) /\ (m_done x = false -> length (todo (m_pipe x)) = count_send (m_prog x)).

  Lemma tinv_step : forall x a, tinv x -> tinv (jstep x a).
  Proof.
    intros x a [W T]. unfold tinv.
    assert (Wp : forall c, pwf (pstep (m_pipe x) c)) by (intros c; apply step_wf; exact W).
    destruct a as [|b]; cbn [mta_step].
    - destruct (m_done x) eqn:D; [split; [exact W|rewrite D; discriminate]|].
      specialize (T eq_refl).
      destruct (m_prog x) as [|[| |] t] eqn:Ep.
      + split; [exact W|]. rewrite Ep. auto.
      + destruct (mtc_stopped (cs (m_pipe x))).
        * cbn [m_pipe m_done]. split; [exact W|discriminate].
        * destruct (mta_en P (m_pipe x) Submit) eqn:E.
          { cbn [m_pipe m_done m_prog]. split; [apply Wp|]. intros _.
            pose proof (mt_step_submit_todo P frames (m_pipe x) E) as L.
            cbn [count_send] in T. lia. }
          { split; [exact W|]. rewrite Ep. auto. }
      + cbn [m_pipe m_done m_prog]. split; [exact W|]. cbn [count_send] in T. auto.
      + destruct (mt_final (m_pipe x)).
        * cbn [m_pipe m_done]. split; [exact W|discriminate].
        * split; [exact W|]. rewrite Ep. auto.
    - destruct b; [split; assumption| | | |]; cbn [m_pipe m_done m_prog];
        (split; [apply Wp|]); intros D; rewrite mt_step_todo by discriminate; auto.
  Qed.

  Lemma mta_pipe_act_enabled : forall p a,
    mta_pipe_act P p = Some a -> mta_en P p a = true /\ a <> Submit.
  Proof.
    intros p a H. unfold mta_pipe_act in H.
    destruct (mta_en P p Emit) eqn:E1; [injection H as H; subst a; split; [exact E1|discriminate]|].
    destruct (mta_en P p Take) eqn:E2; [injection H as H; subst a; split; [exact E2|discriminate]|].
    destruct (mta_en P p Start) eqn:E3; [injection H as H; subst a; split; [exact E3|discriminate]|].
    destruct (running p) as [|t r] eqn:Er; [discriminate|]. injection H as H. subst a.
    split; [|discriminate]. unfold mta_en. cbn [enabled]. rewrite Er. unfold mem. cbn [existsb].
    rewrite Nat.eqb_refl. reflexivity.
  Qed.

  Lemma mta_pipe_act_some : forall p,
    pwf p -> mt_final p = false -> mta_en P p Submit = false -> exists a, mta_pipe_act P p = Some a.
  Proof.
    intros p W F S.
    assert (C0 : mt_can_submit P 0 false = true) by (unfold mt_can_submit; apply Nat.ltb_lt; exact P_pos).
    pose proof (default_pick_enabled nat mtc mtc_stopped (mt_can_submit P) P P_pos C0 p W F) as E.
    unfold default_pick, auto_act in E. unfold mta_pipe_act, mta_en in *.
    destruct (enabled mtc_stopped (mt_can_submit P) P p Emit); [eauto|].
    destruct (enabled mtc_stopped (mt_can_submit P) P p Take); [eauto|].
    rewrite S in E.
    destruct (enabled mtc_stopped (mt_can_submit P) P p Start); [eauto|].
    destruct (running p) as [|t r]; [rewrite S in E; discriminate|eauto].
  Qed.

  Lemma pipe_step_measure : forall x a, mta_en P (m_pipe x) a = true -> a <> Submit ->
    mmeasure (jstep x (JPipe a)) < mmeasure x.
  Proof.
    intros x a E Ha. unfold mmeasure.
    pose proof (step_measure nat (list byte) mtc (frame_at frames) mt_ready mtc_step mtc_stopped
                  (mt_can_submit P) P P_pos (m_pipe x) a E) as M.
    destruct a; [contradiction| | | |]; cbn [mta_step m_pipe m_prog]; unfold mt_step; lia.
  Qed.

  (* every step chosen by the strategy makes progress *)
  Lemma mta_pick_measure : forall pol nops x,
    m_done x = false -> minv nops x -> tinv x ->
    mmeasure (jstep x (mta_pick P pol x)) < mmeasure x.
  Proof.
    intros pol nops x D Hm [W T]. specialize (T D). unfold minv in Hm. rewrite D in Hm.
    destruct Hm as [Hok _].
    assert (App : mta_app_enabled P x = true -> mmeasure (jstep x JApp) < mmeasure x).
    { unfold mta_app_enabled. cbn [mta_step]. rewrite D. cbn [negb andb]. unfold mmeasure.
      destruct (m_prog x) as [|[| |] t]; [discriminate| | |].
      - intros E. destruct (mtc_stopped (cs (m_pipe x))); [cbn [m_pipe m_prog length]; lia|].
        cbn [orb] in E. rewrite E. cbn [m_pipe m_prog length].
        pose proof (step_measure nat (list byte) mtc (frame_at frames) mt_ready mtc_step mtc_stopped
                      (mt_can_submit P) P P_pos (m_pipe x) Submit E) as M. unfold mt_step. lia.
      - intros _. cbn [m_pipe m_prog length]. lia.
      - intros E. rewrite E. cbn [m_pipe m_prog length]. lia. }
    assert (Pipe : forall a, mta_pipe_act P (m_pipe x) = Some a -> mmeasure (jstep x (JPipe a)) < mmeasure x).
    { intros a Ha. destruct (mta_pipe_act_enabled _ _ Ha) as [E N]. apply pipe_step_measure; assumption. }
    unfold mta_pick.
    destruct (m_prog x) as [|[| |] t] eqn:Ep.
    - cbn [prog_ok] in Hok. discriminate.
    - (* ASend *)
      destruct (mta_app_enabled P x) eqn:EA; [exact (App eq_refl)|].
      unfold mta_app_enabled in EA. rewrite D, Ep in EA. cbn [negb andb] in EA.
      apply orb_false_elim in EA. destruct EA as [St Sub].
      assert (F : mt_final (m_pipe x) = false).
      { unfold mt_final, final, drained. rewrite St. cbn [orb]. cbn [count_send] in T.
        destruct (todo (m_pipe x)); [discriminate|reflexivity]. }
      destruct (mta_pipe_act_some _ W F Sub) as [a Ha]. rewrite Ha. exact (Pipe a Ha).
    - (* ARet *)
      assert (EA : mta_app_enabled P x = true) by (unfold mta_app_enabled; rewrite D, Ep; reflexivity).
      destruct (pol (length (m_rs x))); [|exact (App EA)].
      destruct (mta_pipe_act P (m_pipe x)) as [a|] eqn:Ha; [exact (Pipe a eq_refl)|exact (App EA)].
    - (* AJoin *)
      destruct (mta_app_enabled P x) eqn:EA; [exact (App eq_refl)|].
      unfold mta_app_enabled in EA. rewrite D, Ep in EA. cbn [negb andb] in EA.
      assert (Sub : mta_en P (m_pipe x) Submit = false).
      { unfold mta_en. cbn [enabled]. cbn [prog_ok] in Hok. destruct t; [|discriminate].
        cbn [count_send] in T. destruct (todo (m_pipe x)); [reflexivity|discriminate]. }
      destruct (mta_pipe_act_some _ W EA Sub) as [a Ha]. rewrite Ha. exact (Pipe a Ha).
  Qed.

  Lemma mta_iter_done : forall pol nops n x,
    minv nops x -> tinv x -> mmeasure x <= n -> m_done (mta_iter P frames (mta_pick P pol) n x) = true.
  Proof.
    intros pol nops. induction n as [|n IH]; intros x Hm Ht M; cbn [mta_iter].
    - destruct (m_done x) eqn:D; [reflexivity|]. exfalso.
      unfold minv in Hm. rewrite D in Hm. destruct Hm as [Hok _].
      unfold mmeasure in M. destruct (m_prog x); [discriminate|cbn [length] in M; lia].
    - destruct (m_done x) eqn:D; [exact D|].
      apply IH; [apply minv_step; exact Hm|apply tinv_step; exact Ht|].
      pose proof (mta_pick_measure pol nops x D Hm Ht). lia.
  Qed.

  Lemma count_len : forall p, count_send p + count_ret p <= length p.
  Proof. induction p as [|[| |] t IH]; cbn [count_send count_ret length]; lia. Qed.

  Lemma prog_length : forall ops st,
    length (mta_prog maxbuf ops st) = count_send (mta_prog maxbuf ops st) + length ops + 1.
  Proof.
    induction ops as [|o t IH]; intros st; cbn [mta_prog]; unfold mta_op_events.
    - destruct (bw_exec maxbuf [] BFlush st ideal_sink) as [[r st1] s1].
      rewrite app_length, count_send_sends, repeat_length. cbn [length count_send]. lia.
    - destruct (bw_exec maxbuf [] (mop_bop o) st ideal_sink) as [[r st1] s1].
      rewrite app_length, count_send_sends, repeat_length. cbn [length count_send]. rewrite IH. lia.
  Qed.

  (* TOTALITY: whatever the synchronisation plan, the strategy reaches the end of the life (no
     deadlock between application thread, bounded channel, pool and writer thread) *)
  Theorem mta_model_total : forall pol ops s, mta_model P maxbuf frames pol ops s <> None.
  Proof.
    intros pol ops s. unfold mta_model.
    rewrite (mta_iter_done pol (length ops) (mta_fuel maxbuf ops) (mta_init maxbuf s ops)); [discriminate| | |].
    - apply minv_init.
    - unfold tinv, mta_init. cbn [m_pipe m_done m_prog]. split; [apply init_wf|]. intros _.
      unfold mt_init, init. cbn [todo]. rewrite seq_length.
      symmetry. apply mta_prog_sends. exact maxbuf_pos.
    - unfold mmeasure, mta_init, mta_fuel. cbn [m_pipe m_prog]. rewrite prog_length.
      rewrite (mta_prog_sends maxbuf maxbuf_pos ops).
      unfold mt_init, init, measure. cbn [todo chan hold pending running olist length].
      rewrite seq_length. lia.
  Qed.
  Lemma tinv_run : forall ops sched s, tinv (mta_run P maxbuf frames ops sched s).
  Proof.
    intros ops sched s. unfold mta_run.
    assert (H0 : tinv (mta_init maxbuf s ops)).
    { unfold tinv, mta_init. cbn [m_pipe m_done m_prog]. split; [apply init_wf|]. intros _.
      unfold mt_init, init. cbn [todo]. rewrite seq_length. symmetry. apply mta_prog_sends. exact maxbuf_pos. }
    revert H0. generalize (mta_init maxbuf s ops).
    induction sched as [|a t IH]; intros y H; cbn [fold_left]; [exact H|]. apply IH. apply tinv_step. exact H.
  Qed.

  (* NO REACHABLE DEADLOCK: whatever has happened so far (any joint schedule prefix), the life can
     still be brought to its end *)
  Theorem mta_no_deadlock : forall ops sched s,
    exists sched2, m_done (mta_run P maxbuf frames ops (sched ++ sched2) s) = true.
  Proof.
    intros ops sched s.
    pose proof (minv_run P maxbuf frames ops sched s) as Hm. pose proof (tinv_run ops sched s) as Ht.
    pose proof (mta_iter_done (fun _ => false) (length ops) _ _ Hm Ht (le_n _)) as D.
    destruct (mta_iter_is_run (mta_pick P (fun _ => false))
                (mmeasure (mta_run P maxbuf frames ops sched s)) (mta_run P maxbuf frames ops sched s)) as [sched2 H2].
    exists sched2. unfold mta_run at 1. rewrite fold_left_app.
    change (fold_left jstep sched (mta_init maxbuf s ops)) with (mta_run P maxbuf frames ops sched s).
    rewrite <- H2. exact D.
  Qed.
End Strategies.
