(* C14 — format writers layered on a BGZF writer, and the CRAM writer's use of its sink.

   BAM / BCF / CSI / tabix / bgzipped SAM and VCF writers never touch the destination themselves:
   every explicit operation of the format layer (write_header, write_record, write_index, ...) is
   a `?`-chain of write_all / flush calls on a bgzf::io::Writer, and the life ends with
   try_finish() or finish(self) on that BGZF writer (then Drop).  [bw_chain] is one such
   operation, [fob_run] the whole life.  Which calls the format layer makes (the buffer lengths)
   is an input of the model: the harness records them from the real writers. *)
From Coq Require Import List NArith Arith Bool.
From NV Require Import Sinks.Sink.
Import ListNotations.

Section Fob.
  Variable maxbuf : nat.
  Variable frames : list (list byte).

  (* one format-layer operation: calls on the BGZF writer joined by `?` *)
  Fixpoint bw_chain (os : list bop) : scomp bw := fun st s =>
    match os with
    | [] => (Ok, st, s)
    | o :: t =>
        let '(r, st1, s1) := bw_exec maxbuf frames o st s in
        match r with
        | Ok => bw_chain t st1 s1
        | _ => (r, st1, s1)
        end
    end.

  Definition fob_run_ops (ops : list (list bop)) (s : sink) : list res * bw * sink :=
    srun (map bw_chain ops) bw_init s.

  (* the whole life: the explicit operations (the caller stops at the first Err), then Drop *)
  Definition fob_run (ops : list (list bop)) (s : sink) : list res * sink :=
    let '(rs, st, s1) := fob_run_ops ops s in
    let (_, s2) := bw_drop frames st s1 in (rs, s2).
End Fob.

(* ------------------------------------------------------------------------------------- *)
(* cram::io::Writer<W>: no BGZF layer; the writer hands its sink
     write_file_definition   magic, format version, file id            (write_all each)
     write_file_header       the header container: header + block(s)
     write_record            nothing until the record buffer is full, then one data container
     try_finish              the remaining records as a data container, then the EOF container
   each container being a `?`-chain of write_all calls.  An operation is therefore a list of
   buffers (possibly empty); byte content is opaque to the model (the compression header is laid
   out from hash-map iteration, so even two fault-free runs differ), only the lengths matter for
   the sink protocol.  This is the generic layered writer [lw_run] applied to these chains. *)
Definition cram_op (lens : list nat) : list call := map (fun n => CWrite (repeat 0%N n)) lens.

Definition cram_run (ops : list (list nat)) (s : sink) : list res * sink :=
  lw_run (map cram_op ops) s.

Definition cram_total (ops : list (list nat)) : nat := list_sum (map (fun l => list_sum l) ops).
