(* C14 — the multithreaded BGZF writer over a faulty sink: under EVERY schedule its result and its
   sink are those of the sequential `?`-chain "all frames, then the EOF block". *)
From Coq Require Import List NArith Arith Bool Lia.
From NV Require Import Sinks.Sink Sinks.SinkProofs Sinks.LayerProofs Sinks.BgzfProofs Sinks.Mt.
From NV Require Import Io.Sched Io.SchedProofs.
Import ListNotations.

Lemma run_calls_app : forall cs1 cs2 s,
  run_calls (cs1 ++ cs2) s =
  let (r, s1) := run_calls cs1 s in match r with Ok => run_calls cs2 s1 | _ => (r, s1) end.
Proof.
  induction cs1 as [|c t IH]; intros cs2 s; cbn [app run_calls]; [reflexivity|].
  destruct (run_call c s) as [[|e|] s1]; [apply IH|reflexivity|reflexivity].
Qed.

(* the writer thread's state as a pair *)
Definition mtc_pair (c : mtc) : res * sink := (mt_res c, mt_sink c).

(* feeding frames to the writer thread, stopping at the first error = one `?`-chain over all
   their pieces *)
Lemma mt_consume_flat : forall (frs : list (list byte)) s,
  mtc_pair (st_consume mtc_step mtc_stopped (mkMtc s Ok) frs)
  = run_calls (map CWrite (concat (map frame_pieces frs))) s.
Proof.
  induction frs as [|fr frs IH]; intros s; cbn [st_consume map concat]; [reflexivity|].
  cbn [mtc_stopped mt_res]. rewrite map_app, run_calls_app.
  unfold mtc_step at 2. cbn [mtc_stopped mt_res mt_sink]. unfold emit_frame.
  destruct (run_calls (map CWrite (frame_pieces fr)) s) as [[|e|] s1].
  - apply IH.
  - destruct frs; reflexivity.
  - destruct frs; reflexivity.
Qed.

Lemma mtc_finish_pair : forall c,
  mtc_pair (mtc_finish c) =
  match mt_res c with Ok => write_all BGZF_EOF (mt_sink c) | r => (r, mt_sink c) end.
Proof.
  intros [s r]. unfold mtc_finish, mtc_stopped. cbn [mt_res mt_sink].
  destruct r; try reflexivity.
  destruct (write_all BGZF_EOF s) as [r1 s1]. reflexivity.
Qed.

Lemma run_calls_single : forall b s, run_calls [CWrite b] s = write_all b s.
Proof.
  intros b s. cbn [run_calls run_call]. destruct (write_all b s) as [[|e|] s1]; reflexivity.
Qed.

Section MtProofs.
  Variable P : nat.
  Variable maxbuf : nat.
  Variable frames : list (list byte).

  (* MAIN: whatever the schedule (completion order of the compress tasks, window, interleaving of
     the application thread and the writer thread), a finished life has the result and the sink of
     the sequential chain *)
  Theorem mt_equals_sequential : forall ops sched s,
    mt_final (mt_state P maxbuf frames ops sched s) = true ->
    mt_life P maxbuf frames ops sched s = run_calls (mt_calls maxbuf frames ops) s.
  Proof.
    intros ops sched s F. unfold mt_life, mt_result, mt_state, mt_init in *.
    set (n := mt_nblocks maxbuf ops) in *.
    pose proof (pipeline_output_is_submission_order nat (list byte) mtc (frame_at frames) mt_ready
                  mtc_step mtc_stopped (mt_can_submit P) P (mkMtc s Ok) (seq 0 n) sched) as H.
    unfold run in H. unfold mt_final, mt_step in *. specialize (H F).
    rewrite H. clear H F.
    change (mtc_pair (mtc_finish (st_consume mtc_step mtc_stopped (mkMtc s Ok) (map (frame_at frames) (seq 0 n))))
            = run_calls (mt_calls maxbuf frames ops) s).
    rewrite mtc_finish_pair. unfold mt_calls. fold n.
    rewrite map_app, run_calls_app. rewrite <- (map_map (frame_at frames) frame_pieces).
    pose proof (mt_consume_flat (map (frame_at frames) (seq 0 n)) s) as Hc.
    unfold mtc_pair in Hc.
    destruct (st_consume mtc_step mtc_stopped (mkMtc s Ok) (map (frame_at frames) (seq 0 n))) as [s1 r1].
    cbn [mt_res mt_sink] in *. rewrite <- Hc.
    destruct r1; try reflexivity.
    cbn [map]. rewrite run_calls_single. reflexivity.
  Qed.

  Lemma mt_calls_out : forall ops, calls_out (mt_calls maxbuf frames ops) = mt_out maxbuf frames ops.
  Proof.
    intros ops. unfold mt_calls, mt_out. rewrite calls_out_writes, concat_app.
    cbn [concat]. rewrite app_nil_r. f_equal.
    induction (seq 0 (mt_nblocks maxbuf ops)) as [|i t IH]; [reflexivity|].
    cbn [map concat]. rewrite concat_app, frame_pieces_concat, IH. reflexivity.
  Qed.

  Lemma mt_good : forall ops, good (mt_out maxbuf frames ops) (run_calls (mt_calls maxbuf frames ops)).
  Proof. intros ops. rewrite <- mt_calls_out. apply run_calls_good. Qed.

  Theorem mt_all_ok_complete : forall ops sched s s',
    mt_final (mt_state P maxbuf frames ops sched s) = true ->
    mt_life P maxbuf frames ops sched s = (Ok, s') ->
    sbytes s' = sbytes s ++ mt_out maxbuf frames ops.
  Proof.
    intros ops sched s s' F H. rewrite (mt_equals_sequential ops sched s F) in H.
    pose proof (mt_good ops s) as G. rewrite H in G. exact (proj1 G).
  Qed.

  Theorem mt_failure_reported : forall ops sched s r s' c e,
    mt_final (mt_state P maxbuf frames ops sched s) = true ->
    mt_life P maxbuf frames ops sched s = (r, s') ->
    sscript s = c ++ sscript s' -> In (Fail e) c -> e <> e_interrupted ->
    r = Err e /\ exists p, sbytes s' = sbytes s ++ p /\ prefix p (mt_out maxbuf frames ops).
  Proof.
    intros ops sched s r s' c e F H Hc Hin Hne. rewrite (mt_equals_sequential ops sched s F) in H.
    pose proof (mt_good ops s) as G. rewrite H in G. destruct r as [|e'|].
    - exfalso. destruct G as [_ [c1 [Hs1 Hb1]]]. rewrite Hs1 in Hc. apply app_inv_tail in Hc. subst c1.
      unfold benign in Hb1. rewrite Forall_forall in Hb1. exact (Hne (Hb1 _ Hin e eq_refl)).
    - destruct G as [p [c2 [Hb [Hp [Hs2 Hb2]]]]].
      assert (Hc' : c = c2 ++ [Fail e']).
      { rewrite Hs2 in Hc. change (Fail e' :: sscript s') with ([Fail e'] ++ sscript s') in Hc.
        rewrite app_assoc in Hc. apply app_inv_tail in Hc. symmetry. exact Hc. }
      rewrite Hc' in Hin. apply in_app_or in Hin. destruct Hin as [Hin|Hin].
      + exfalso. unfold benign in Hb2. rewrite Forall_forall in Hb2. exact (Hne (Hb2 _ Hin e eq_refl)).
      + destruct Hin as [Hin|[]]. injection Hin as Hin. subst e'. split; [reflexivity|eauto].
    - contradiction.
  Qed.

  (* conversely an Err result is always a Fail event of the script *)
  Theorem mt_err_from_script : forall ops sched s e s',
    mt_final (mt_state P maxbuf frames ops sched s) = true ->
    mt_life P maxbuf frames ops sched s = (Err e, s') ->
    exists c, sscript s = c ++ Fail e :: sscript s' /\ benign c.
  Proof.
    intros ops sched s e s' F H. rewrite (mt_equals_sequential ops sched s F) in H.
    pose proof (mt_good ops s) as G. rewrite H in G.
    destruct G as [p [c [_ [_ [Hs Hb]]]]]. eauto.
  Qed.

  Theorem mt_short_write_invariant : forall ops sched s,
    mt_final (mt_state P maxbuf frames ops sched s) = true -> no_fail (sscript s) ->
    exists s', mt_life P maxbuf frames ops sched s = (Ok, s') /\
               sbytes s' = sbytes s ++ mt_out maxbuf frames ops.
  Proof.
    intros ops sched s F Hnf. rewrite (mt_equals_sequential ops sched s F).
    pose proof (mt_good ops s) as G.
    destruct (run_calls (mt_calls maxbuf frames ops) s) as [[|e|] s1].
    - exists s1. split; [reflexivity|exact (proj1 G)].
    - exfalso. destruct G as [p [c [_ [_ [Hs _]]]]].
      unfold no_fail in Hnf. rewrite Forall_forall in Hnf.
      apply (Hnf (Fail e)) with (e := e); [|reflexivity].
      rewrite Hs. apply in_or_app. right. left. reflexivity.
    - contradiction.
  Qed.

  (* ---- the executable strategies are schedules, and FIFO always finishes ---- *)
  Lemma mt_iter_is_run : forall pick n x,
    exists sched, mt_iter P frames pick n x = fold_left (mt_step P frames) sched x.
  Proof.
    intros pick. induction n as [|n IH]; intros x; unfold mt_iter in *; cbn [iter].
    - exists []. reflexivity.
    - destruct (final mtc_stopped x).
      + exists []. reflexivity.
      + destruct (IH (step (frame_at frames) mt_ready mtc_step mtc_stopped (mt_can_submit P) P x (pick x)))
          as [sched Hs].
        exists (pick x :: sched). cbn [fold_left]. exact Hs.
  Qed.

  Theorem mt_model_sequential : forall lifo ops s r,
    mt_model P maxbuf frames lifo ops s = Some r -> r = run_calls (mt_calls maxbuf frames ops) s.
  Proof.
    intros lifo ops s r H. unfold mt_model in H.
    set (pick := if lifo then mt_pick_lifo P else mt_pick_fifo P) in *.
    destruct (mt_iter_is_run pick (5 * mt_nblocks maxbuf ops) (mt_init maxbuf s ops)) as [sched Hs].
    rewrite Hs in H.
    destruct (mt_final (fold_left (mt_step P frames) sched (mt_init maxbuf s ops))) eqn:F; [|discriminate].
    injection H as H. subst r.
    exact (mt_equals_sequential ops sched s F).
  Qed.

  Theorem mt_model_fifo_total : 0 < P -> forall ops s,
    mt_model P maxbuf frames false ops s <> None.
  Proof.
    intros HP ops s. unfold mt_model.
    assert (C0 : mt_can_submit P 0 false = true) by (unfold mt_can_submit; apply Nat.ltb_lt; exact HP).
    pose proof (pipeline_terminates_default nat (list byte) mtc (frame_at frames) mt_ready mtc_step
                  mtc_stopped (mt_can_submit P) P HP C0 (mkMtc s Ok) (seq 0 (mt_nblocks maxbuf ops))) as T.
    rewrite seq_length in T.
    unfold mt_final, mt_iter, mt_pick_fifo, mt_init. rewrite T. discriminate.
  Qed.
End MtProofs.

(* ------------------------------------------------------------------------------------- *)
(* The sequential chain is the single-threaded writer's file: for operations made of
   write_all and flush only, what bgzf::io::Writer emits is frame 0, frame 1, ... in order. *)
Section SameFile.
  Variable maxbuf : nat.
  Variable frames : list (list byte).
  Hypothesis maxbuf_pos : 0 < maxbuf.

  Definition frames_from (a n : nat) : list byte := concat (map (frame_at frames) (seq a n)).

  Lemma frames_from_S : forall a n,
    frame_at frames a ++ frames_from (S a) n = frames_from a (S n).
  Proof. intros a n. unfold frames_from. cbn [seq map concat]. reflexivity. Qed.

  Lemma wa_spec_frames : forall fuel n st,
    let o := fst (wa_spec maxbuf frames fuel n st) in
    let st' := snd (wa_spec maxbuf frames fuel n st) in
    nfl st <= nfl st' /\ o = frames_from (nfl st) (nfl st' - nfl st) /\ alive st' = alive st /\
    (fin st = false -> fin st' = false).
  Proof.
    induction fuel as [|f IH]; intros n st; cbv zeta.
    - destruct n; cbn [wa_spec fst snd]; rewrite Nat.sub_diag; repeat split; try lia; auto.
    - destruct n as [|n']; cbn [wa_spec]; [cbn [fst snd]; rewrite Nat.sub_diag; repeat split; try lia; auto|].
      cbv zeta. cbn [staged].
      set (amt := Nat.min (maxbuf - staged st) (S n')).
      destruct (Nat.ltb (staged st + amt) maxbuf) eqn:E.
      + specialize (IH (S n' - amt) (mkBw (staged st + amt) (nfl st) (alive st) (fin st))).
        cbv zeta in IH. cbn [nfl alive fin] in IH. exact IH.
      + specialize (IH (S n' - amt) (mkBw 0 (S (nfl st)) (alive st) false)).
        cbv zeta in IH. cbn [nfl alive fin] in IH.
        destruct (wa_spec maxbuf frames f (S n' - amt) (mkBw 0 (S (nfl st)) (alive st) false)) as [o st'].
        cbn [fst snd] in *.
        destruct IH as [H1 [H2 [H3 H4]]]. split; [lia|]. split; [|split; [exact H3|intros _; apply H4; reflexivity]].
        rewrite H2. replace (nfl st' - nfl st) with (S (nfl st' - S (nfl st))) by lia.
        apply frames_from_S.
  Qed.

  Lemma frames_from_app : forall a n m,
    frames_from a n ++ frames_from (a + n) m = frames_from a (n + m).
  Proof.
    intros a n m. unfold frames_from. rewrite seq_app, map_app, concat_app. reflexivity.
  Qed.

  (* write_all / flush sequences starting in a live, unfinished state *)
  Lemma wf_ops_frames : forall (ops : list mop) st, alive st = true -> fin st = false ->
    let sps := map (bop_spec maxbuf frames) (map mop_bop ops) in
    nfl st <= nfl (ideal_state sps st) /\
    ideal_out sps st = frames_from (nfl st) (nfl (ideal_state sps st) - nfl st) /\
    alive (ideal_state sps st) = true /\ fin (ideal_state sps st) = false.
  Proof.
    induction ops as [|o t IH]; intros st Ha Hf; cbn [map ideal_state ideal_out].
    - rewrite Nat.sub_diag. repeat split; [lia|exact Ha|exact Hf].
    - set (sp := bop_spec maxbuf frames (mop_bop o)).
      assert (Hone : nfl st <= nfl (sp_next sp st) /\
                     sp_out sp st = frames_from (nfl st) (nfl (sp_next sp st) - nfl st) /\
                     alive (sp_next sp st) = true /\ fin (sp_next sp st) = false).
      { subst sp. destruct o as [n|]; cbn [mop_bop bop_spec sp_out sp_next]; rewrite Ha.
        - unfold wa_out, wa_next. pose proof (wa_spec_frames (S n) n st) as H. cbv zeta in H.
          destruct H as [H1 [H2 [H3 H4]]]. repeat split; [exact H1|exact H2|rewrite H3; exact Ha|exact (H4 Hf)].
        - unfold flush_out, flush_next. destruct (Nat.eqb (staged st) 0).
          + rewrite Nat.sub_diag. repeat split; [lia|exact Ha|exact Hf].
          + cbn [nfl alive fin]. replace (S (nfl st) - nfl st) with 1 by lia.
            unfold frames_from. cbn [seq map concat]. rewrite app_nil_r.
            repeat split; [lia|exact Ha]. }
      destruct Hone as [H1 [H2 [H3 H4]]].
      set (st1 := sp_next sp st) in *.
      destruct (IH st1 H3 H4) as [I1 [I2 [I3 I4]]]. cbv zeta in I1, I2, I3, I4.
      split; [lia|]. split; [|split; [exact I3|exact I4]].
      rewrite H2, I2.
      pose proof (frames_from_app (nfl st) (nfl st1 - nfl st)
                    (nfl (ideal_state (map (bop_spec maxbuf frames) (map mop_bop t)) st1) - nfl st1)) as Hx.
      replace (nfl st + (nfl st1 - nfl st)) with (nfl st1) in Hx by lia.
      rewrite Hx. f_equal. lia.
  Qed.

  Lemma ideal_out_app : forall (A : Type) (sps1 sps2 : list (spec A)) st,
    ideal_out (sps1 ++ sps2) st = ideal_out sps1 st ++ ideal_out sps2 (ideal_state sps1 st).
  Proof.
    intros A. induction sps1 as [|sp t IH]; intros sps2 st; cbn [app ideal_out ideal_state]; [reflexivity|].
    rewrite IH, app_assoc. reflexivity.
  Qed.

  Lemma mt_nblocks_ideal : forall ops,
    mt_nblocks maxbuf ops = nfl (bw_ideal_state maxbuf [] (map mop_bop ops ++ [BFlush])).
  Proof.
    intros ops. unfold mt_nblocks.
    pose proof (bw_ideal maxbuf [] maxbuf_pos (map mop_bop ops ++ [BFlush])) as H.
    destruct (bw_run_ops maxbuf [] (map mop_bop ops ++ [BFlush]) ideal_sink) as [[rs st] s1].
    destruct H as [_ [H _]]. rewrite H. reflexivity.
  Qed.

  (* the state reached does not depend on what the frames are *)
  Lemma wa_spec_state_indep : forall (fr1 fr2 : list (list byte)) fuel n st,
    snd (wa_spec maxbuf fr1 fuel n st) = snd (wa_spec maxbuf fr2 fuel n st).
  Proof.
    intros fr1 fr2. induction fuel as [|f IH]; intros n st; destruct n as [|n']; cbn [wa_spec]; try reflexivity.
    cbv zeta. cbn [staged].
    set (amt := Nat.min (maxbuf - staged st) (S n')).
    destruct (Nat.ltb (staged st + amt) maxbuf) eqn:E.
    - apply IH.
    - specialize (IH (S n' - amt) (mkBw 0 (S (nfl st)) (alive st) false)).
      destruct (wa_spec maxbuf fr1 f (S n' - amt) _) as [o1 s1].
      destruct (wa_spec maxbuf fr2 f (S n' - amt) _) as [o2 s2]. exact IH.
  Qed.

  Lemma bop_next_indep : forall (fr1 fr2 : list (list byte)) o st,
    sp_next (bop_spec maxbuf fr1 o) st = sp_next (bop_spec maxbuf fr2 o) st.
  Proof.
    intros fr1 fr2 o st. destruct o as [n| | |]; cbn [bop_spec sp_next]; try reflexivity.
    destruct (alive st); [|reflexivity]. unfold wa_next. apply wa_spec_state_indep.
  Qed.

  Lemma ideal_state_indep : forall (fr1 fr2 : list (list byte)) ops st,
    ideal_state (map (bop_spec maxbuf fr1) ops) st = ideal_state (map (bop_spec maxbuf fr2) ops) st.
  Proof.
    intros fr1 fr2. induction ops as [|o t IH]; intros st; cbn [map ideal_state]; [reflexivity|].
    rewrite (bop_next_indep fr1 fr2 o st). apply IH.
  Qed.

  (* the multithreaded writer's fault-free file is the single-threaded writer's *)
  Theorem mt_out_is_st_out : forall ops,
    mt_out maxbuf frames ops = bw_ideal_out maxbuf frames (map mop_bop ops ++ [BFinish]).
  Proof.
    intros ops. unfold mt_out. rewrite mt_nblocks_ideal.
    unfold bw_ideal_out, bw_ideal_state. rewrite !map_app, ideal_out_app, ideal_state_app.
    rewrite (ideal_state_indep [] frames (map mop_bop ops) bw_init).
    destruct (wf_ops_frames ops bw_init eq_refl eq_refl) as [_ [H2 [H3 H4]]]. cbv zeta in H2, H3, H4.
    set (st1 := ideal_state (map (bop_spec maxbuf frames) (map mop_bop ops)) bw_init) in *.
    rewrite H2. cbn [nfl bw_init]. rewrite Nat.sub_0_r.
    cbn [map ideal_state ideal_out]. cbn [bop_spec sp_out sp_next]. rewrite H3, app_nil_r.
    fold (frames_from 0 (nfl (flush_next st1))).
    unfold tf_out, flush_out, flush_next.
    destruct (Nat.eqb (staged st1) 0) eqn:E.
    - rewrite H4. reflexivity.
    - cbn [nfl fin]. rewrite app_assoc. f_equal.
      pose proof (frames_from_app 0 (nfl st1) 1) as Hx. cbn [Nat.add] in Hx.
      replace (nfl st1 + 1) with (S (nfl st1)) in Hx by lia. rewrite <- Hx.
      unfold frames_from at 2. cbn [seq map concat]. rewrite app_nil_r. reflexivity.
  Qed.
End SameFile.
