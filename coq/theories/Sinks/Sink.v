(* C14 — writers over a faulty destination.

   A sink is the bytes accepted so far plus a fault script; exactly one script event is
   consumed per inner [write] call and per inner [flush] call
   (harness/src/adversary.rs::FaultySink):
     Full         accept the whole buffer
     Short k      accept min (max k 1) (length buf) bytes
     Interrupted  write: Err(ErrorKind::Interrupted), nothing accepted; flush: Ok
     Fail e       Err(kind e), nothing accepted
   An exhausted script behaves like Full for ever.

   On top of it:
     * [write_all]     std::io::Write::write_all (library/std/src/io/mod.rs): loop while the
                       buffer is non-empty; Ok(0) -> Err(WriteZero); Ok(n) -> advance;
                       Err(Interrupted) -> retry; any other Err is returned as is;
     * [lw_*]          a generic layered writer: an operation of a noodles writer is a sequence
                       of [write_all] / [flush] calls on the layer below joined by `?`;
     * [bw_*]          noodles-bgzf/src/io/writer.rs over such a sink (staging counter, flush =
                       one frame = 14 [write_all] calls as in writer/frame.rs, try_finish =
                       flush + EOF block unless the stream is already finished, finish(self),
                       Drop = try_finish with the result ignored); DEFLATE is not modelled: the i-th emitted frame is an opaque
                       byte list handed in from outside.
   Error kinds are numbered; only two codes matter to the logic. *)
From Coq Require Import List NArith Arith Bool.
Import ListNotations.

Definition byte := N.
Definition errk := N.
Definition e_interrupted : errk := 0%N.   (* io::ErrorKind::Interrupted *)
Definition e_write_zero : errk := 1%N.    (* io::ErrorKind::WriteZero *)

Inductive fault := Full | Short (k : nat) | Interrupted | Fail (e : errk).

Record sink := mkSink { sbytes : list byte; sscript : list fault; scalls : nat }.

Definition ideal_sink : sink := mkSink [] [] 0.

(* result of one inner write() *)
Inductive wres := WOk (n : nat) | WErr (e : errk).
(* result of an io::Result<()> operation; OutOfFuel is the model's own loop bound *)
Inductive res := Ok | Err (e : errk) | OutOfFuel.

Definition next_event (s : sink) : fault * list fault :=
  match sscript s with
  | [] => (Full, [])
  | ev :: rest => (ev, rest)
  end.

Definition sink_write (s : sink) (buf : list byte) : wres * sink :=
  let (ev, rest) := next_event s in
  let c := S (scalls s) in
  match ev with
  | Full => (WOk (length buf), mkSink (sbytes s ++ buf) rest c)
  | Short k =>
      let n := Nat.min (Nat.max k 1) (length buf) in
      (WOk n, mkSink (sbytes s ++ firstn n buf) rest c)
  | Interrupted => (WErr e_interrupted, mkSink (sbytes s) rest c)
  | Fail e => (WErr e, mkSink (sbytes s) rest c)
  end.

Definition sink_flush (s : sink) : res * sink :=
  let (ev, rest) := next_event s in
  let s' := mkSink (sbytes s) rest (S (scalls s)) in
  match ev with
  | Fail e => (Err e, s')
  | _ => (Ok, s')
  end.

(* std::io::Write::write_all *)
Fixpoint write_all_fuel (fuel : nat) (s : sink) (buf : list byte) : res * sink :=
  match buf with
  | [] => (Ok, s)
  | _ :: _ =>
      match fuel with
      | O => (OutOfFuel, s)
      | S f =>
          let (r, s') := sink_write s buf in
          match r with
          | WOk O => (Err e_write_zero, s')
          | WOk n => write_all_fuel f s' (skipn n buf)
          | WErr e =>
              if N.eqb e e_interrupted then write_all_fuel f s' buf else (Err e, s')
          end
      end
  end.

(* every iteration consumes a script event, and an exhausted script accepts everything *)
Definition write_all (buf : list byte) (s : sink) : res * sink :=
  write_all_fuel (S (length (sscript s))) s buf.

(* ------------------------------------------------------------------------------------- *)
(* Stateful computations over a sink and `?` sequencing. *)

Definition scomp (A : Type) := A -> sink -> res * A * sink.

(* run operations in order; the caller stops at the first operation that does not return Ok *)
Fixpoint srun {A : Type} (ops : list (scomp A)) (st : A) (s : sink) : list res * A * sink :=
  match ops with
  | [] => ([], st, s)
  | o :: t =>
      let '(r, st1, s1) := o st s in
      match r with
      | Ok => let '(rs, st2, s2) := srun t st1 s1 in (Ok :: rs, st2, s2)
      | _ => ([r], st1, s1)
      end
  end.

(* ------------------------------------------------------------------------------------- *)
(* Generic layered writer: one operation = a `?`-chain of write_all / flush calls. *)

Inductive call := CWrite (buf : list byte) | CFlush.

Definition run_call (c : call) (s : sink) : res * sink :=
  match c with
  | CWrite b => write_all b s
  | CFlush => sink_flush s
  end.

Fixpoint run_calls (cs : list call) (s : sink) : res * sink :=
  match cs with
  | [] => (Ok, s)
  | c :: t =>
      let (r, s1) := run_call c s in
      match r with
      | Ok => run_calls t s1
      | _ => (r, s1)
      end
  end.

Definition call_out (c : call) : list byte :=
  match c with CWrite b => b | CFlush => [] end.

Definition calls_out (cs : list call) : list byte := concat (map call_out cs).

Definition lw_exec (cs : list call) : scomp unit :=
  fun st s => let (r, s1) := run_calls cs s in (r, st, s1).

Definition lw_run (ops : list (list call)) (s : sink) : list res * sink :=
  let '(rs, _, s1) := srun (map lw_exec ops) tt s in (rs, s1).

Definition lw_out (ops : list (list call)) : list byte := concat (map calls_out ops).

(* ------------------------------------------------------------------------------------- *)
(* bgzf::io::Writer over a faulty sink. *)

Definition BGZF_EOF : list byte :=
  [31; 139; 8; 4; 0; 0; 0; 0; 0; 255; 6; 0; 66; 67; 2; 0; 27; 0; 3; 0; 0; 0; 0; 0; 0; 0; 0; 0]%N.

(* writer/frame.rs: write_header is 11 write_all calls of these sizes (magic, CM, FLG, MTIME,
   XFL, OS, XLEN, SI1, SI2, SLEN, BSIZE), then one write_all of the compressed data, then
   write_trailer = 2 write_all calls (CRC32, ISIZE). *)
Definition HEADER_PIECES : list nat := [2; 1; 1; 4; 1; 1; 2; 1; 1; 2; 2].

Fixpoint split_sizes (sizes : list nat) (bs : list byte) : list (list byte) :=
  match sizes with
  | [] => [bs]
  | n :: t => firstn n bs :: split_sizes t (skipn n bs)
  end.

(* the 14 pieces of a frame, in emission order (a 15th, empty, piece is the remainder) *)
Definition frame_pieces (f : list byte) : list (list byte) :=
  split_sizes (HEADER_PIECES ++ [length f - 26; 4; 4]) f.

Record bw := mkBw {
  staged : nat;     (* staging_buf.len() *)
  nfl : nat;        (* number of frames emitted successfully so far *)
  alive : bool;     (* inner.is_some() *)
  fin : bool        (* is_finished: an EOF block terminates what has been written *)
}.

Definition bw_init : bw := mkBw 0 0 true false.

Section Bgzf.
  Variable maxbuf : nat.                 (* MAX_BUF_SIZE = 65495 *)
  Variable frames : list (list byte).    (* the i-th frame the compressor would produce *)

  Definition frame_at (i : nat) : list byte := nth i frames [].

  Definition emit_frame (f : list byte) (s : sink) : res * sink :=
    run_calls (map CWrite (frame_pieces f)) s.

  (* flush_block: deflate (cannot fail here), is_finished = false, write_frame, then
     position += .., staging.clear() *)
  Definition bw_flush_block : scomp bw := fun st s =>
    let (r, s1) := emit_frame (frame_at (nfl st)) s in
    match r with
    | Ok => (Ok, mkBw 0 (S (nfl st)) (alive st) false, s1)
    | _ => (r, mkBw (staged st) (nfl st) (alive st) false, s1)
    end.

  (* <Writer as Write>::flush — never calls the inner flush *)
  Definition bw_flush : scomp bw := fun st s =>
    if Nat.eqb (staged st) 0 then (Ok, st, s) else bw_flush_block st s.

  (* <Writer as Write>::write *)
  Definition bw_write (n : nat) (st : bw) (s : sink) : wres * bw * sink :=
    let amt := Nat.min (maxbuf - staged st) n in
    let st1 := mkBw (staged st + amt) (nfl st) (alive st) (fin st) in
    if Nat.ltb (staged st1) maxbuf then (WOk amt, st1, s)
    else
      let '(r, st2, s2) := bw_flush st1 s in
      match r with
      | Ok => (WOk amt, st2, s2)
      | Err e => (WErr e, st2, s2)
      | OutOfFuel => (WErr e_write_zero, st2, s2)  (* unreachable: see bw_flush_no_fuel *)
      end.

  (* write_all on the BGZF writer (what every format writer calls), n = buffer length *)
  Fixpoint bw_write_all_fuel (fuel n : nat) (st : bw) (s : sink) : res * bw * sink :=
    match n with
    | O => (Ok, st, s)
    | S _ =>
        match fuel with
        | O => (OutOfFuel, st, s)
        | S f =>
            let '(r, st1, s1) := bw_write n st s in
            match r with
            | WOk O => (Err e_write_zero, st1, s1)
            | WOk k => bw_write_all_fuel f (n - k) st1 s1
            | WErr e =>
                if N.eqb e e_interrupted then bw_write_all_fuel f n st1 s1
                else (Err e, st1, s1)
            end
        end
    end.

  Definition bw_write_all (n : nat) : scomp bw := fun st s => bw_write_all_fuel (S n) n st s.

  (* try_finish: self.flush()?; if self.is_finished { return Ok(()) };
     result = inner.write_all(&BGZF_EOF); self.is_finished = result.is_ok(); result *)
  Definition bw_try_finish : scomp bw := fun st s =>
    let '(r, st1, s1) := bw_flush st s in
    match r with
    | Ok =>
        if fin st1 then (Ok, st1, s1)
        else
          let (r2, s2) := write_all BGZF_EOF s1 in
          (r2, mkBw (staged st1) (nfl st1) (alive st1) (match r2 with Ok => true | _ => false end), s2)
    | _ => (r, st1, s1)
    end.

  (* finish(self): try_finish()?; inner.take() — on Err `self` is dropped with inner present *)
  Definition bw_finish : scomp bw := fun st s =>
    let '(r, st1, s1) := bw_try_finish st s in
    match r with
    | Ok => (Ok, mkBw (staged st1) (nfl st1) false (fin st1), s1)
    | _ => (r, st1, s1)
    end.

  (* Drop: if inner.is_some() { let _ = self.try_finish(); } *)
  Definition bw_drop (st : bw) (s : sink) : bw * sink :=
    if alive st then let '(_, st1, s1) := bw_try_finish st s in (st1, s1) else (st, s).

  Inductive bop := BWriteAll (n : nat) | BFlush | BTryFinish | BFinish.

  (* operations on a writer that has been consumed by finish() cannot be written in Rust;
     the model makes them no-ops *)
  Definition bw_exec (o : bop) : scomp bw := fun st s =>
    if alive st then
      match o with
      | BWriteAll n => bw_write_all n st s
      | BFlush => bw_flush st s
      | BTryFinish => bw_try_finish st s
      | BFinish => bw_finish st s
      end
    else (Ok, st, s).

  Definition bw_run_ops (ops : list bop) (s : sink) : list res * bw * sink :=
    srun (map bw_exec ops) bw_init s.

  (* the whole life of a writer: the explicit operations (stopping at the first error), then
     the value goes out of scope *)
  Definition bw_run (ops : list bop) (s : sink) : list res * sink :=
    let '(rs, st, s1) := bw_run_ops ops s in
    let (_, s2) := bw_drop st s1 in (rs, s2).
End Bgzf.
