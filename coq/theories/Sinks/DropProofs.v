(* C14 — the residual class "the EOF marker is written by Drop" characterised exactly.

   Two API paths of /repo end a BGZF-backed writer with a call that can only FLUSH it:
     * sam::alignment::io::Write::finish on bam::io::Writer<bgzf::io::Writer<W>> (generic over W);
     * sam / vcf io::writer::Builder with CompressionMethod::Bgzf (Writer<Box<dyn Write>>: the only
       calls are write_all and flush).
   In the model such a life is  ops ++ [BFlush]  with ops made of BWriteAll / BFlush only, then Drop.
   Theorems: every destination failure during the explicit calls is reported (that is
   bw_failure_reported); when all explicit calls returned Ok the destination already holds EVERY
   data frame, and Drop makes exactly ONE write_all -- of the 28-byte EOF marker; so the only
   destination calls whose failure no call reports are the inner write calls of that one
   write_all, and then the destination holds all data frames plus a prefix of the marker. *)
From Coq Require Import List NArith Arith Bool Lia.
From NV Require Import Sinks.Sink Sinks.SinkProofs Sinks.LayerProofs Sinks.BgzfProofs Sinks.Mt Sinks.MtProofs
  Sinks.IndexCalls Sinks.IndexCallsProofs.
Import ListNotations.
Close Scope N_scope.

Definition no_finish (o : bop) : Prop := match o with BWriteAll _ | BFlush => True | _ => False end.

Section DropProofs.
  Variable maxbuf : nat.
  Variable frames : list (list byte).
  Hypothesis maxbuf_pos : 0 < maxbuf.

  Notation bspec := (bop_spec maxbuf frames).

  Lemma no_finish_ideal : forall ops st, Forall no_finish ops -> alive st = true -> fin st = false ->
    alive (ideal_state (map bspec ops) st) = true /\ fin (ideal_state (map bspec ops) st) = false.
  Proof.
    induction ops as [|o t IH]; intros st Hf Ha Hn; cbn [map ideal_state]; [auto|].
    inversion Hf as [|x l Ho Ht]; subst. apply IH; [exact Ht| |].
    - destruct o as [n| | |]; cbn [no_finish] in Ho; try contradiction; cbn [bop_spec sp_next]; rewrite Ha.
      + unfold wa_next. destruct (wa_spec_frames maxbuf frames maxbuf_pos (S n) n st) as [_ [_ [A _]]]. congruence.
      + unfold flush_next. destruct (Nat.eqb (staged st) 0); [exact Ha|exact Ha].
    - destruct o as [n| | |]; cbn [no_finish] in Ho; try contradiction; cbn [bop_spec sp_next]; rewrite Ha.
      + unfold wa_next. destruct (wa_spec_frames maxbuf frames maxbuf_pos (S n) n st) as [_ [_ [_ F]]]. exact (F Hn).
      + unfold flush_next. destruct (Nat.eqb (staged st) 0); [exact Hn|reflexivity].
  Qed.

  (* THE CHARACTERISATION *)
  Theorem flush_only_life : forall ops s rs st1 s1,
    Forall no_finish ops ->
    bw_run_ops maxbuf frames (ops ++ [BFlush]) s = (rs, st1, s1) ->
    Forall (fun r => r = Ok) rs ->
    (* every data frame is on the destination, nothing is staged *)
    sbytes s1 = sbytes s ++ bw_ideal_out maxbuf frames (ops ++ [BFlush]) /\ staged st1 = 0 /\
    (* Drop = exactly one write_all(&BGZF_EOF) *)
    snd (bw_drop frames st1 s1) = snd (write_all BGZF_EOF s1) /\
    forall r s2, write_all BGZF_EOF s1 = (r, s2) ->
      (* the destination ends with a prefix of the marker; complete iff that write_all succeeded *)
      (exists p, sbytes s2 = sbytes s ++ bw_ideal_out maxbuf frames (ops ++ [BFlush]) ++ p /\ prefix p BGZF_EOF) /\
      (r = Ok -> sbytes s2 = sbytes s ++ bw_ideal_out maxbuf frames (ops ++ [BFlush]) ++ BGZF_EOF) /\
      (no_fail (sscript s1) -> r = Ok) /\
      (* the lost error: a Fail consumed by that write_all is its result, which Drop discards *)
      (forall c e, sscript s1 = c ++ sscript s2 -> In (Fail e) c -> e <> e_interrupted -> r = Err e).
  Proof.
    intros ops s rs st1 s1 Hnf Hrun Hall.
    destruct (bw_all_ok_complete maxbuf frames maxbuf_pos _ s rs st1 s1 Hrun Hall) as [_ [Hst Hb]].
    assert (Hshape : alive st1 = true /\ fin st1 = false /\ staged st1 = 0).
    { rewrite Hst. unfold bw_ideal_state. rewrite map_app, ideal_state_app.
      destruct (no_finish_ideal ops bw_init Hnf eq_refl eq_refl) as [A F].
      set (st0 := ideal_state (map bspec ops) bw_init) in *.
      cbn [map ideal_state bop_spec sp_next]. rewrite A. unfold flush_next.
      destruct (Nat.eqb (staged st0) 0) eqn:E; [|cbn [alive fin staged]; auto].
      apply Nat.eqb_eq in E. auto. }
    destruct Hshape as [Ha [Hf Hs0]].
    split; [exact Hb|]. split; [exact Hs0|].
    assert (Hdrop : snd (bw_drop frames st1 s1) = snd (write_all BGZF_EOF s1)).
    { unfold bw_drop. rewrite Ha. unfold bw_try_finish, bw_flush. rewrite Hs0. cbn [Nat.eqb]. rewrite Hf.
      destruct (write_all BGZF_EOF s1) as [r2 s2]. reflexivity. }
    split; [exact Hdrop|].
    intros r s2 Hw.
    destruct (good_property _ _ (write_all_good BGZF_EOF) s1 r s2 Hw) as [P1 [P2 [P3 [p [P4 P5]]]]].
    split; [|split; [|split]].
    - exists p. rewrite P4, Hb, <- app_assoc. split; [reflexivity|exact P5].
    - intros Hr. rewrite (P1 Hr), Hb, <- app_assoc. reflexivity.
    - exact P3.
    - exact P2.
  Qed.
End DropProofs.

(* the class is not empty: one write, flush, drop; the destination fails in the EOF marker: every
   call returned Ok, the destination holds the data frame and 5 bytes of the marker *)
Definition drop_wit_frame : list byte := map N.of_nat (seq 1 30).
Lemma eof_in_drop_refuted :
  bw_run 100 [drop_wit_frame] [BWriteAll 3; BFlush] (mkSink [] (repeat Full 14 ++ [Short 5; Fail 2%N]) 0)
  = ([Ok; Ok], mkSink (drop_wit_frame ++ firstn 5 BGZF_EOF) [] 16).
Proof. vm_compute. reflexivity. Qed.
