(* C14 — the CRAM data-container encoder's calls: how many there are, failure reported at EVERY call
   index, the destination holds the calls made so far. *)
From Coq Require Import List NArith Arith Bool Lia.
From NV Require Import Sinks.Sink Sinks.SinkProofs Sinks.LayerProofs Sinks.BgzfProofs Sinks.Format Sinks.FormatProofs
  Sinks.IndexCalls Sinks.IndexCallsProofs Sinks.CramCalls.
Import ListNotations.
Close Scope N_scope.

Definition cb_empty (b : cblock) : nat := if Nat.eqb (cb_data b) 0 then 1 else 0.
Definition cc_empties (c : ccont) : nat := list_sum (map cb_empty (cc_blocks c)).

Lemma cb_lens_count : forall b, length (cb_lens b) + cb_empty b = 7.
Proof. intros b. unfold cb_lens, cb_empty. destruct (Nat.eqb (cb_data b) 0); reflexivity. Qed.

Lemma blocks_count : forall bs,
  length (concat (map cb_lens bs)) + list_sum (map cb_empty bs) = 7 * length bs.
Proof.
  induction bs as [|b t IH]; [reflexivity|]. cbn [map concat length].
  change (list_sum (cb_empty b :: map cb_empty t)) with (cb_empty b + list_sum (map cb_empty t)).
  rewrite app_length. pose proof (cb_lens_count b). lia.
Qed.

(* 4-byte length, 3 context fields, 5 counters, the landmarks, CRC; 7 calls per block, 6 when its
   data is empty *)
Theorem cc_lens_count : forall c, cc_wf c = true ->
  length (cc_lens c) + cc_empties c = 10 + length (cc_landmarks c) + 7 * length (cc_blocks c).
Proof.
  intros c H. unfold cc_wf in H. repeat (apply andb_prop in H; destruct H as [H ?]).
  apply Nat.eqb_eq in H. unfold cc_lens, cc_header_lens, cc_empties.
  rewrite !app_length. cbn [length]. rewrite H. pose proof (blocks_count (cc_blocks c)). lia.
Qed.

Lemma forallb_itf8_pos : forall l, forallb itf8_len l = true -> Forall (fun n => 0 < n) l.
Proof.
  induction l as [|x t IH]; intros H; [constructor|]. cbn [forallb] in H. apply andb_prop in H. destruct H as [H1 H2].
  constructor; [|exact (IH H2)]. unfold itf8_len in H1. apply andb_prop in H1. destruct H1 as [H1 _].
  apply Nat.leb_le in H1. lia.
Qed.

Lemma itf8_pos : forall n, itf8_len n = true -> 0 < n.
Proof. intros n H. unfold itf8_len in H. apply andb_prop in H. destruct H as [H _]. apply Nat.leb_le in H. lia. Qed.
Lemma ltf8_pos : forall n, ltf8_len n = true -> 0 < n.
Proof. intros n H. unfold ltf8_len in H. apply andb_prop in H. destruct H as [H _]. apply Nat.leb_le in H. lia. Qed.

Lemma cb_lens_pos : forall b, cb_wf b = true -> Forall (fun n => 0 < n) (cb_lens b).
Proof.
  intros b H. unfold cb_wf in H. repeat (apply andb_prop in H; destruct H as [H ?]).
  unfold cb_lens. repeat (constructor; [first [lia|apply itf8_pos; assumption]|]).
  destruct (Nat.eqb (cb_data b) 0) eqn:E; cbn [app].
  - repeat constructor.
  - apply Nat.eqb_neq in E. repeat constructor; lia.
Qed.

Theorem cc_lens_pos : forall c, cc_wf c = true -> Forall (fun n => 0 < n) (cc_lens c).
Proof.
  intros c H. unfold cc_wf in H. repeat (apply andb_prop in H; destruct H as [H ?]).
  unfold cc_lens, cc_header_lens. repeat (apply Forall_app; split).
  - repeat constructor.
  - apply forallb_itf8_pos. assumption.
  - repeat (constructor; [first [apply itf8_pos; assumption|apply ltf8_pos; assumption]|]). constructor.
  - apply forallb_itf8_pos. assumption.
  - repeat constructor.
  - match goal with Hb : forallb cb_wf _ = true |- _ => rename Hb into HB end.
    induction (cc_blocks c) as [|b t IH]; [constructor|]. cbn [forallb] in HB. apply andb_prop in HB.
    destruct HB as [B1 B2]. cbn [map concat]. apply Forall_app. split; [apply cb_lens_pos; exact B1|exact (IH B2)].
Qed.

(* ---- chains of opaque buffers of positive lengths ---- *)
Lemma cc_calls_clean : forall lens, ix_clean (cc_calls lens) = true.
Proof. induction lens as [|n t IH]; [reflexivity|]. cbn [cc_calls map ix_clean forallb ic_clean andb]. exact IH. Qed.

Lemma cc_calls_ne : forall lens, Forall (fun n => 0 < n) lens -> ix_ne (cc_calls lens) = true.
Proof.
  induction lens as [|n t IH]; intros H; [reflexivity|]. inversion H as [|x l H1 H2]; subst.
  change (ix_ne (cc_calls (n :: t))) with (ic_ne (IW (repeat 0%N n)) && ix_ne (cc_calls t)).
  rewrite (IH H2). destruct n; [lia|reflexivity].
Qed.

Lemma cc_calls_out : forall lens, ix_out (cc_calls lens) = repeat 0%N (list_sum lens).
Proof.
  induction lens as [|n t IH]; [reflexivity|].
  change (ix_out (cc_calls (n :: t))) with (repeat 0%N n ++ ix_out (cc_calls t)).
  change (list_sum (n :: t)) with (n + list_sum t). rewrite IH, repeat_app. reflexivity.
Qed.

Lemma cc_calls_firstn : forall k lens,
  concat (firstn k (map ic_out (cc_calls lens))) = repeat 0%N (list_sum (firstn k lens)).
Proof.
  induction k as [|k IH]; intros lens; [reflexivity|]. destruct lens as [|n t]; [reflexivity|].
  change (concat (firstn (S k) (map ic_out (cc_calls (n :: t)))))
    with (repeat 0%N n ++ concat (firstn k (map ic_out (cc_calls t)))).
  change (list_sum (firstn (S k) (n :: t))) with (n + list_sum (firstn k t)). rewrite IH, repeat_app. reflexivity.
Qed.

(* one write_container on any destination *)
Theorem cramc_container_property : forall c s r s', cramc_write_container c s = (r, s') ->
  (r = Ok -> sbytes s' = sbytes s ++ repeat 0%N (list_sum (cc_lens c))) /\
  (forall sc e, sscript s = sc ++ sscript s' -> In (Fail e) sc -> e <> e_interrupted -> r = Err e) /\
  (no_fail (sscript s) -> r = Ok) /\
  (exists n, n <= list_sum (cc_lens c) /\ sbytes s' = sbytes s ++ repeat 0%N n).
Proof.
  intros c s r s' H. unfold cramc_write_container in H.
  pose proof (good_property _ _ (ix_good _ (cc_calls_clean (cc_lens c))) s r s' H) as [P1 [P2 [P3 [p [P4 [q P5]]]]]].
  rewrite cc_calls_out in *. repeat split; auto.
  exists (length p). assert (Hl : length p + length q = list_sum (cc_lens c)).
  { rewrite <- app_length, <- P5, repeat_length. reflexivity. }
  split; [lia|]. rewrite P4. f_equal.
  apply Forall_eq_repeat. apply Forall_forall. intros x Hx. symmetry.
  apply (repeat_spec (list_sum (cc_lens c)) 0%N x). rewrite P5. apply in_or_app. left. exact Hx.
Qed.

(* for EVERY index k of the container's calls: a failure there is returned after exactly k + 1 inner
   calls and the destination holds exactly the first k buffers *)
Theorem cramc_fail_at_every_call : forall c, cc_wf c = true -> forall k, k < length (cc_lens c) ->
  forall e b0 rest c0, e <> e_interrupted ->
  cramc_write_container c (mkSink b0 (repeat Full k ++ Fail e :: rest) c0)
  = (Err e, mkSink (b0 ++ repeat 0%N (list_sum (firstn k (cc_lens c)))) rest (c0 + k + 1)).
Proof.
  intros c Hwf k Hk e b0 rest c0 He. unfold cramc_write_container.
  rewrite (ix_fail_at_call _ (cc_calls_clean _) (cc_calls_ne _ (cc_lens_pos c Hwf)) k) by
    (try (unfold cc_calls; rewrite map_length); assumption).
  rewrite cc_calls_firstn. reflexivity.
Qed.

(* the whole life is an instance of cram_run *)
Theorem cramc_life : forall hdr recs fin s rs s',
  cramc_run hdr recs fin s = (rs, s') ->
  (forall c e, sscript s = c ++ sscript s' -> In (Fail e) c -> e <> e_interrupted -> In (Err e) rs) /\
  (no_fail (sscript s) -> rs = repeat Ok (2 + length recs)).
Proof.
  intros hdr recs fin s rs s' H. unfold cramc_run in H.
  destruct (cram_failure_reported_partial _ _ _ _ H) as [_ [P2 P3]].
  split; [exact P2|]. intros Hnf. destruct (P3 Hnf) as [R _]. rewrite R.
  f_equal. rewrite !app_length, map_length. cbn [length]. lia.
Qed.
