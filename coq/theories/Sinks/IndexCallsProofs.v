(* C14 — BAI / GZI write_index as `?`-chains of write_all calls: failure reported at every call,
   the sink holds the calls made so far, all Ok => the file C17's reader decodes to the index. *)
From Coq Require Import List NArith Arith Bool Lia.
From NV Require Import Base.LE Index.Layout Index.LayoutProofs.
From NV Require Import Sinks.Sink Sinks.SinkProofs Sinks.LayerProofs Sinks.BgzfProofs Sinks.IndexCalls.
Import ListNotations.
Local Open Scope nat_scope.

(* ---- a clean chain is a run_calls chain ---- *)
Lemma ix_run_clean : forall cs s, ix_clean cs = true ->
  ix_run cs s = run_calls (map CWrite (map ic_out cs)) s.
Proof.
  induction cs as [|[b|e] t IH]; intros s H; cbn [ix_run map run_calls run_call ic_out]; [reflexivity| |].
  - cbn [ix_clean forallb ic_clean andb] in H.
    destruct (write_all b s) as [[|e|] s1]; [apply IH; exact H|reflexivity|reflexivity].
  - cbn [ix_clean forallb ic_clean andb] in H. discriminate.
Qed.

Lemma ix_good : forall cs, ix_clean cs = true -> good (ix_out cs) (ix_run cs).
Proof.
  intros cs H s. rewrite (ix_run_clean cs s H). unfold ix_out.
  rewrite <- calls_out_writes. apply run_calls_good.
Qed.

(* an encoder error ends the chain with that error, whatever the sink does before *)
Lemma ix_run_result : forall cs s r s', ix_run cs s = (r, s') -> r <> OutOfFuel.
Proof.
  induction cs as [|[b|e] t IH]; intros s r s' H; cbn [ix_run] in H.
  - injection H as H _. subst r. discriminate.
  - pose proof (write_all_good b s) as G.
    destruct (write_all b s) as [[|e|] s1]; [exact (IH _ _ _ H)| |contradiction];
      injection H as H _; subst r; discriminate.
  - injection H as H _. subst r. discriminate.
Qed.

(* ---- distribution lemmas ---- *)
Lemma ix_out_app : forall a b, ix_out (a ++ b) = ix_out a ++ ix_out b.
Proof. intros a b. unfold ix_out. rewrite map_app, concat_app. reflexivity. Qed.

Lemma ix_clean_app : forall a b, ix_clean (a ++ b) = ix_clean a && ix_clean b.
Proof. intros a b. unfold ix_clean. apply forallb_app. Qed.

Lemma ix_out_concat : forall (A : Type) (f : A -> list icall) (g : A -> list byte) l,
  (forall x, In x l -> ix_out (f x) = g x) -> ix_out (concat (map f l)) = concat (map g l).
Proof.
  intros A f g. induction l as [|x t IH]; intros H; cbn [map concat]; [reflexivity|].
  rewrite ix_out_app, (H x (or_introl eq_refl)), IH; [reflexivity|].
  intros y Hy. apply H. right. exact Hy.
Qed.

Lemma ix_clean_concat : forall (A : Type) (f : A -> list icall) l,
  (forall x, In x l -> ix_clean (f x) = true) -> ix_clean (concat (map f l)) = true.
Proof.
  intros A f. induction l as [|x t IH]; intros H; cbn [map concat]; [reflexivity|].
  rewrite ix_clean_app, (H x (or_introl eq_refl)), IH; [reflexivity|].
  intros y Hy. apply H. right. exact Hy.
Qed.

Lemma ix_u32_ok : forall n, u32 n -> ix_u32 n = [IW (le32 n)].
Proof.
  intros n H. unfold ix_u32, u32 in *. destruct (N.leb_spec 4294967296 n) as [L|L]; [lia|reflexivity].
Qed.

Lemma u32_out : forall n, u32 n -> ix_out (ix_u32 n) = le32 n /\ ix_clean (ix_u32 n) = true.
Proof.
  intros n H. rewrite (ix_u32_ok n H). unfold ix_out, ix_clean.
  cbn [map concat ic_out forallb ic_clean andb]. rewrite app_nil_r. auto.
Qed.

Lemma u64_out : forall n, ix_out (ix_u64 n) = le64 n /\ ix_clean (ix_u64 n) = true.
Proof.
  intros n. unfold ix_u64, ix_out, ix_clean.
  cbn [map concat ic_out forallb ic_clean andb]. rewrite app_nil_r. auto.
Qed.

Lemma c_chunk_out : forall c, ix_out (c_chunk c) = w_chunk c /\ ix_clean (c_chunk c) = true.
Proof.
  intros c. unfold c_chunk, w_chunk. rewrite ix_out_app, ix_clean_app.
  destruct (u64_out (fst c)) as [A1 A2]. destruct (u64_out (snd c)) as [B1 B2].
  rewrite A1, A2, B1, B2. auto.
Qed.

Lemma c_chunks_out : forall cs, (N.of_nat (length cs) < 2147483648)%N ->
  ix_out (c_chunks cs) = w_chunks cs /\ ix_clean (c_chunks cs) = true.
Proof.
  intros cs H. unfold c_chunks, w_chunks. rewrite ix_out_app, ix_clean_app.
  assert (U : u32 (N.of_nat (length cs))) by (unfold u32; lia).
  destruct (u32_out _ U) as [A1 A2]. rewrite A1, A2.
  rewrite (ix_out_concat _ c_chunk w_chunk) by (intros x _; apply c_chunk_out).
  rewrite ix_clean_concat by (intros x _; apply c_chunk_out). auto.
Qed.

Lemma c_bin_out : forall b, bin_ok b -> ix_out (c_bin b) = w_bin b /\ ix_clean (c_bin b) = true.
Proof.
  intros b (H1 & _ & H3 & _). unfold c_bin, w_bin. rewrite ix_out_app, ix_clean_app.
  destruct (u32_out _ H1) as [A1 A2]. destruct (c_chunks_out _ H3) as [B1 B2].
  rewrite A1, A2, B1, B2. auto.
Qed.

Lemma c_metadata_out : forall m,
  ix_out (c_metadata m) = le32 bai_metadata_id ++ w_metadata_body m /\ ix_clean (c_metadata m) = true.
Proof.
  intros m. split; [|reflexivity]. unfold c_metadata, w_metadata_body.
  assert (U1 : u32 bai_metadata_id) by (unfold u32, bai_metadata_id; lia).
  assert (U2 : u32 2) by (unfold u32; lia).
  rewrite !ix_out_app. rewrite (proj1 (u32_out _ U1)), (proj1 (u32_out _ U2)).
  rewrite !(proj1 (u64_out _)). reflexivity.
Qed.

Lemma c_bai_ref_out : forall r, ref_ok r ->
  ix_out (c_bai_ref r) = w_bai_ref r /\ ix_clean (c_bai_ref r) = true.
Proof.
  intros r (Hb & _ & Hlen & _ & Hil & _). unfold c_bai_ref, w_bai_ref, c_bins, w_bins, c_intervals, w_intervals.
  rewrite !ix_out_app, !ix_clean_app. rewrite Forall_forall in Hb.
  assert (U1 : u32 (N.of_nat (length (br_bins r)) + match br_meta r with Some _ => 1 | None => 0 end))
    by (unfold u32; destruct (br_meta r); lia).
  destruct (u32_out _ U1) as [A1 A2]. rewrite A1, A2.
  rewrite (ix_out_concat _ c_bin w_bin) by (intros x Hx; apply c_bin_out; auto).
  rewrite ix_clean_concat by (intros x Hx; apply c_bin_out; auto).
  assert (U2 : u32 (N.of_nat (length (br_intervals r)))) by exact Hil.
  destruct (u32_out _ U2) as [B1 B2]. rewrite B1, B2.
  rewrite (ix_out_concat _ ix_u64 le64) by (intros x _; apply u64_out).
  rewrite ix_clean_concat by (intros x _; apply u64_out).
  destruct (br_meta r) as [md|].
  - destruct (c_metadata_out md) as [C1 C2]. rewrite C1, C2. auto.
  - auto.
Qed.

Theorem c_bai_out : forall i, bai_ok i -> ix_out (c_bai i) = w_bai i /\ ix_clean (c_bai i) = true.
Proof.
  intros i (Hlen & Hrefs & _). unfold c_bai, w_bai. rewrite !ix_out_app, !ix_clean_app.
  rewrite Forall_forall in Hrefs.
  destruct (u32_out _ Hlen) as [A1 A2]. rewrite A1, A2.
  rewrite (ix_out_concat _ c_bai_ref w_bai_ref) by (intros x Hx; apply c_bai_ref_out; auto).
  rewrite ix_clean_concat by (intros x Hx; apply c_bai_ref_out; auto).
  assert (M : ix_out [IW bai_magic] = bai_magic) by reflexivity. rewrite M.
  destruct (bi_unplaced i) as [n|].
  - destruct (u64_out n) as [C1 C2]. rewrite C1, C2. auto.
  - auto.
Qed.

Theorem c_gzi_out : forall idx, ix_out (c_gzi idx) = w_gzi idx /\ ix_clean (c_gzi idx) = true.
Proof.
  intros idx. unfold c_gzi, w_gzi. rewrite ix_out_app, ix_clean_app.
  destruct (u64_out (N.of_nat (length idx))) as [A1 A2]. rewrite A1, A2.
  rewrite (ix_out_concat _ c_chunk w_chunk) by (intros x _; apply c_chunk_out).
  rewrite ix_clean_concat by (intros x _; apply c_chunk_out). auto.
Qed.

(* ---- what `good` gives for one call of write_index ---- *)
Lemma good_property : forall out a, good out a -> forall s r s', a s = (r, s') ->
  (r = Ok -> sbytes s' = sbytes s ++ out) /\
  (forall c e, sscript s = c ++ sscript s' -> In (Fail e) c -> e <> e_interrupted -> r = Err e) /\
  (no_fail (sscript s) -> r = Ok) /\
  (exists p, sbytes s' = sbytes s ++ p /\ prefix p out).
Proof.
  intros out a G s r s' H. specialize (G s). rewrite H in G. destruct r as [|e'|]; [| |contradiction].
  - destruct G as [Hb [c1 [Hs1 Hb1]]]. repeat split; auto.
    + intros c e Hc Hin Hne. exfalso. rewrite Hs1 in Hc. apply app_inv_tail in Hc. subst c1.
      unfold benign in Hb1. rewrite Forall_forall in Hb1. exact (Hne (Hb1 _ Hin e eq_refl)).
    + exists out. split; [exact Hb|apply prefix_refl].
  - destruct G as [p [c2 [Hb [Hp [Hs2 Hb2]]]]]. repeat split.
    + discriminate.
    + intros c e Hc Hin Hne.
      assert (Hc' : c = c2 ++ [Fail e']).
      { rewrite Hs2 in Hc. change (Fail e' :: sscript s') with ([Fail e'] ++ sscript s') in Hc.
        rewrite app_assoc in Hc. apply app_inv_tail in Hc. symmetry. exact Hc. }
      rewrite Hc' in Hin. apply in_app_or in Hin. destruct Hin as [Hin|Hin].
      * exfalso. unfold benign in Hb2. rewrite Forall_forall in Hb2. exact (Hne (Hb2 _ Hin e eq_refl)).
      * destruct Hin as [Hin|[]]. injection Hin as Hin. subst e'. reflexivity.
    + intros Hnf. exfalso. unfold no_fail in Hnf. rewrite Forall_forall in Hnf.
      apply (Hnf (Fail e')) with (e := e'); [|reflexivity].
      rewrite Hs2. apply in_or_app. right. left. reflexivity.
    + exists p. auto.
Qed.

(* BAI: the whole property for one write_index call on an empty destination *)
Theorem bai_write_index_property : forall i, bai_ok i -> forall s r s',
  bai_write_index i s = (r, s') ->
  (r = Ok -> sbytes s' = sbytes s ++ w_bai i /\ (sbytes s = [] -> read_bai (sbytes s') = Some i)) /\
  (forall c e, sscript s = c ++ sscript s' -> In (Fail e) c -> e <> e_interrupted -> r = Err e) /\
  (no_fail (sscript s) -> r = Ok) /\
  (exists p, sbytes s' = sbytes s ++ p /\ prefix p (w_bai i)).
Proof.
  intros i Hok s r s' H. destruct (c_bai_out i Hok) as [Ho Hc].
  pose proof (good_property _ _ (ix_good _ Hc) s r s' H) as [P1 [P2 [P3 P4]]]. rewrite Ho in *.
  split; [|repeat split; auto].
  intros He. split; [exact (P1 He)|]. rewrite (P1 He). intros E. rewrite E. cbn [app].
  apply bai_roundtrip. exact Hok.
Qed.

Theorem gzi_write_index_property : forall idx,
  (N.of_nat (length idx) < 18446744073709551616)%N -> Forall chunk_ok idx -> forall s r s',
  gzi_write_index idx s = (r, s') ->
  (r = Ok -> sbytes s' = sbytes s ++ w_gzi idx /\ (sbytes s = [] -> read_gzi (sbytes s') = Some idx)) /\
  (forall c e, sscript s = c ++ sscript s' -> In (Fail e) c -> e <> e_interrupted -> r = Err e) /\
  (no_fail (sscript s) -> r = Ok) /\
  (exists p, sbytes s' = sbytes s ++ p /\ prefix p (w_gzi idx)).
Proof.
  intros idx Hl Hc s r s' H. destruct (c_gzi_out idx) as [Ho Hcl].
  pose proof (good_property _ _ (ix_good _ Hcl) s r s' H) as [P1 [P2 [P3 P4]]]. rewrite Ho in *.
  split; [|repeat split; auto].
  intros He. split; [exact (P1 He)|]. rewrite (P1 He). intros E. rewrite E. cbn [app].
  apply gzi_roundtrip; assumption.
Qed.

(* ---- a failure at call k, for EVERY k: reported, and the sink holds exactly the first k buffers ---- *)
Definition ic_ne (c : icall) : bool := match c with IW [] => false | _ => true end.
Definition ix_ne (cs : list icall) : bool := forallb ic_ne cs.

Lemma ix_ne_app : forall a b, ix_ne (a ++ b) = ix_ne a && ix_ne b.
Proof. intros a b. unfold ix_ne. apply forallb_app. Qed.

Lemma ix_ne_concat : forall (A : Type) (f : A -> list icall) l,
  (forall x, ix_ne (f x) = true) -> ix_ne (concat (map f l)) = true.
Proof.
  intros A f l H. induction l as [|x t IH]; cbn [map concat]; [reflexivity|].
  rewrite ix_ne_app, H, IH. reflexivity.
Qed.

Lemma ix_ne_u32 : forall n, ix_ne (ix_u32 n) = true.
Proof. intros n. unfold ix_u32. destruct (4294967296 <=? n)%N; reflexivity. Qed.

Lemma ix_ne_u64 : forall n, ix_ne (ix_u64 n) = true.
Proof. intros n. reflexivity. Qed.

Lemma ix_ne_chunk : forall c, ix_ne (c_chunk c) = true.
Proof. intros c. reflexivity. Qed.

Lemma ix_ne_bin : forall b, ix_ne (c_bin b) = true.
Proof.
  intros b. unfold c_bin, c_chunks. rewrite !ix_ne_app, !ix_ne_u32.
  rewrite ix_ne_concat by apply ix_ne_chunk. reflexivity.
Qed.

Lemma ix_ne_ref : forall r, ix_ne (c_bai_ref r) = true.
Proof.
  intros r. unfold c_bai_ref, c_bins, c_intervals. rewrite !ix_ne_app, !ix_ne_u32.
  rewrite ix_ne_concat by apply ix_ne_bin. rewrite ix_ne_concat by apply ix_ne_u64.
  destruct (br_meta r); reflexivity.
Qed.

Lemma c_bai_ne : forall i, ix_ne (c_bai i) = true.
Proof.
  intros i. unfold c_bai. rewrite !ix_ne_app, ix_ne_u32.
  rewrite ix_ne_concat by apply ix_ne_ref. destruct (bi_unplaced i); reflexivity.
Qed.

Lemma c_gzi_ne : forall idx, ix_ne (c_gzi idx) = true.
Proof.
  intros idx. unfold c_gzi. rewrite ix_ne_app. rewrite ix_ne_concat by apply ix_ne_chunk. reflexivity.
Qed.

Lemma write_all_full : forall b s rest, b <> [] -> sscript s = Full :: rest ->
  write_all b s = (Ok, mkSink (sbytes s ++ b) rest (S (scalls s))).
Proof.
  intros b s rest Hb Hs. unfold write_all. rewrite Hs. cbn [length].
  destruct b as [|b0 bt]; [contradiction|]. cbn [write_all_fuel].
  unfold sink_write, next_event. rewrite Hs. cbn [length].
  replace (skipn (S (length bt)) (b0 :: bt)) with (@nil byte).
  - destruct (length rest); reflexivity.
  - cbn [skipn]. symmetry. apply skipn_all.
Qed.

Lemma write_all_fail : forall b s e rest, b <> [] -> e <> e_interrupted -> sscript s = Fail e :: rest ->
  write_all b s = (Err e, mkSink (sbytes s) rest (S (scalls s))).
Proof.
  intros b s e rest Hb He Hs. unfold write_all. rewrite Hs. cbn [length].
  destruct b as [|b0 bt]; [contradiction|]. cbn [write_all_fuel].
  unfold sink_write, next_event. rewrite Hs.
  destruct (N.eqb e e_interrupted) eqn:E; [apply N.eqb_eq in E; contradiction|reflexivity].
Qed.

Theorem ix_fail_at_call : forall cs, ix_clean cs = true -> ix_ne cs = true ->
  forall k, k < length cs -> forall e b0 rest c0, e <> e_interrupted ->
  ix_run cs (mkSink b0 (repeat Full k ++ Fail e :: rest) c0)
  = (Err e, mkSink (b0 ++ concat (firstn k (map ic_out cs))) rest (c0 + k + 1)).
Proof.
  induction cs as [|[b|e0] t IH]; intros Hc Hn k Hk e b0 rest c0 He.
  - cbn [length] in Hk. lia.
  - cbn [ix_clean forallb ic_clean andb] in Hc. cbn [ix_ne forallb andb] in Hn.
    apply andb_prop in Hn. destruct Hn as [Hb Hn].
    assert (Hbne : b <> []) by (destruct b; [discriminate|discriminate]).
    cbn [ix_run]. destruct k as [|k].
    + cbn [repeat app]. rewrite (write_all_fail b (mkSink b0 (Fail e :: rest) c0) e rest Hbne He eq_refl).
      cbn [sbytes scalls firstn concat]. rewrite app_nil_r. f_equal. f_equal. lia.
    + cbn [repeat app].
      rewrite (write_all_full b (mkSink b0 (Full :: repeat Full k ++ Fail e :: rest) c0)
                 (repeat Full k ++ Fail e :: rest) Hbne eq_refl).
      cbn [sbytes scalls]. cbn [length] in Hk.
      rewrite (IH Hc Hn k (proj2 (Nat.succ_lt_mono _ _) Hk) e (b0 ++ b) rest (S c0) He).
      cbn [map firstn concat ic_out]. rewrite app_assoc. f_equal. f_equal. lia.
  - cbn [ix_clean forallb ic_clean andb] in Hc. discriminate.
Qed.

(* BAI / GZI instances: for EVERY call index k of write_index *)
Theorem bai_fail_at_call : forall i, bai_ok i -> forall k, k < length (c_bai i) ->
  forall e rest, e <> e_interrupted ->
  exists p, bai_write_index i (mkSink [] (repeat Full k ++ Fail e :: rest) 0) = (Err e, mkSink p rest (k + 1))
            /\ p = concat (firstn k (map ic_out (c_bai i))) /\ prefix p (w_bai i).
Proof.
  intros i Hok k Hk e rest He. destruct (c_bai_out i Hok) as [Ho Hc].
  exists (concat (firstn k (map ic_out (c_bai i)))). split; [|split; [reflexivity|]].
  - unfold bai_write_index. rewrite (ix_fail_at_call _ Hc (c_bai_ne i) k Hk e [] rest 0 He). reflexivity.
  - rewrite <- Ho. unfold ix_out. exists (concat (skipn k (map ic_out (c_bai i)))).
    rewrite <- concat_app, firstn_skipn. reflexivity.
Qed.

Theorem gzi_fail_at_call : forall idx k, k < length (c_gzi idx) ->
  forall e rest, e <> e_interrupted ->
  exists p, gzi_write_index idx (mkSink [] (repeat Full k ++ Fail e :: rest) 0) = (Err e, mkSink p rest (k + 1))
            /\ p = concat (firstn k (map ic_out (c_gzi idx))) /\ prefix p (w_gzi idx).
Proof.
  intros idx k Hk e rest He. destruct (c_gzi_out idx) as [Ho Hc].
  exists (concat (firstn k (map ic_out (c_gzi idx)))). split; [|split; [reflexivity|]].
  - unfold gzi_write_index. rewrite (ix_fail_at_call _ Hc (c_gzi_ne idx) k Hk e [] rest 0 He). reflexivity.
  - rewrite <- Ho. unfold ix_out. exists (concat (skipn k (map ic_out (c_gzi idx)))).
    rewrite <- concat_app, firstn_skipn. reflexivity.
Qed.

(* the encoder's own error (a bin id that does not fit u32): InvalidInput, reported by the same
   call, the sink keeps what the steps before it wrote *)
Theorem ix_encoder_error : forall pre e post s,
  ix_clean pre = true -> no_fail (sscript s) ->
  exists s', ix_run (pre ++ IE e :: post) s = (Err e, s') /\ sbytes s' = sbytes s ++ ix_out pre.
Proof.
  induction pre as [|[b|e0] t IH]; intros e post s Hc Hnf.
  - exists s. cbn [app ix_run ix_out map concat]. rewrite app_nil_r. auto.
  - cbn [ix_clean forallb ic_clean andb] in Hc. cbn [app ix_run].
    pose proof (write_all_good b s) as G.
    destruct (write_all b s) as [[|e1|] s1].
    + destruct G as [Hb [c [Hs Hbn]]].
      assert (Hnf1 : no_fail (sscript s1)).
      { unfold no_fail in *. rewrite Hs in Hnf. apply Forall_app in Hnf. tauto. }
      destruct (IH e post s1 Hc Hnf1) as [s' [H1 H2]]. exists s'. split; [exact H1|].
      rewrite H2, Hb. unfold ix_out. cbn [map concat ic_out]. rewrite app_assoc. reflexivity.
    + exfalso. destruct G as [p [c [_ [_ [Hs _]]]]]. unfold no_fail in Hnf. rewrite Forall_forall in Hnf.
      apply (Hnf (Fail e1)) with (e := e1); [|reflexivity]. rewrite Hs. apply in_or_app. right. left. reflexivity.
    + contradiction.
  - cbn [ix_clean forallb ic_clean andb] in Hc. discriminate.
Qed.
