(* C14 wave 10 -- proofs about NV.Sinks.FaiCalls: the ten-call chain of fai write_record writes
   C17's w_fai, satisfies the whole sink property for every fault script (with the converse: an
   Err comes from a consumed Fail event), and fails at EVERY destination call k with exactly the
   first k buffers on the destination. *)
From Coq Require Import List NArith Arith Bool Lia.
From NV Require Import Base.Decimal Base.DecimalProofs Index.TextIndex Index.TextIndexProofs.
From NV Require Import Sinks.Sink Sinks.SinkProofs Sinks.LayerProofs Sinks.BgzfProofs Sinks.IndexCalls
  Sinks.IndexCallsProofs Sinks.FaiCalls.
Import ListNotations.
Close Scope N_scope.

(* ---- bytes: the calls concatenate to C17's layout, and the encoder cannot fail ---- *)
Lemma c_fai_rec_out : forall r, ix_out (c_fai_rec r) = w_fai_rec r /\ ix_clean (c_fai_rec r) = true.
Proof.
  intros r. split; [|reflexivity].
  unfold ix_out, c_fai_rec, w_fai_rec. cbn [map ic_out concat]. rewrite app_nil_r.
  repeat (rewrite <- app_assoc; cbn [app]). reflexivity.
Qed.

Theorem c_fai_out : forall l, ix_out (c_fai l) = w_fai l /\ ix_clean (c_fai l) = true.
Proof.
  intros l. unfold c_fai, w_fai. split.
  - apply (ix_out_concat _ c_fai_rec w_fai_rec). intros x _. apply c_fai_rec_out.
  - apply ix_clean_concat. intros x _. apply c_fai_rec_out.
Qed.

(* ---- the calls that reach the destination: a write_all of no bytes does not ---- *)
Definition ix_live (cs : list icall) : list icall := filter ic_ne cs.

Lemma write_all_nil : forall s, write_all [] s = (Ok, s).
Proof. reflexivity. Qed.

Lemma ix_run_live : forall cs s, ix_run cs s = ix_run (ix_live cs) s.
Proof.
  induction cs as [|[b|e] t IH]; intros s; [reflexivity| |reflexivity].
  destruct b as [|b0 bt].
  - cbn [ix_live filter ic_ne]. cbn [ix_run]. rewrite write_all_nil. apply IH.
  - cbn [ix_live filter ic_ne]. cbn [ix_run].
    destruct (write_all (b0 :: bt) s) as [[|e|] s1]; [apply IH|reflexivity|reflexivity].
Qed.

Lemma ix_live_clean : forall cs, ix_clean cs = true -> ix_clean (ix_live cs) = true.
Proof.
  induction cs as [|c t IH]; intros H; [reflexivity|].
  cbn [ix_clean forallb] in H. apply andb_prop in H. destruct H as [H1 H2].
  cbn [ix_live filter]. destruct (ic_ne c); [|exact (IH H2)].
  cbn [ix_clean forallb]. rewrite H1. exact (IH H2).
Qed.

Lemma ix_live_ne : forall cs, ix_ne (ix_live cs) = true.
Proof.
  induction cs as [|c t IH]; [reflexivity|].
  cbn [ix_live filter]. destruct (ic_ne c) eqn:E; [|exact IH].
  cbn [ix_ne forallb]. rewrite E. exact IH.
Qed.

Lemma ix_live_out : forall cs, ix_out (ix_live cs) = ix_out cs.
Proof.
  induction cs as [|c t IH]; [reflexivity|].
  unfold ix_out in *. cbn [ix_live filter map concat].
  fold (ix_live t). destruct c as [[|b0 bt]|e]; cbn [ic_ne map concat ic_out app]; rewrite ?IH; reflexivity.
Qed.

Lemma ix_ne_live_id : forall cs, ix_ne cs = true -> ix_live cs = cs.
Proof.
  induction cs as [|c t IH]; intros H; [reflexivity|].
  cbn [ix_ne forallb] in H. apply andb_prop in H. destruct H as [H1 H2].
  cbn [ix_live filter]. rewrite H1. f_equal. exact (IH H2).
Qed.

(* ---- the whole property for one write_index call, every fault script ---- *)
Lemma good_err_from_script : forall out a, good out a -> forall s e s', a s = (Err e, s') ->
  exists c, sscript s = c ++ Fail e :: sscript s' /\ benign c.
Proof.
  intros out a G s e s' H. specialize (G s). rewrite H in G.
  destruct G as [p [c [_ [_ [Hs Hb]]]]]. exists c. auto.
Qed.

Theorem fai_write_index_property : forall l, Forall fai_ok l -> forall s r s',
  fai_write_index l s = (r, s') ->
  (r = Ok -> sbytes s' = sbytes s ++ w_fai l /\ (sbytes s = [] -> read_fai (sbytes s') = Some l)) /\
  (forall c e, sscript s = c ++ sscript s' -> In (Fail e) c -> e <> e_interrupted -> r = Err e) /\
  (no_fail (sscript s) -> r = Ok) /\
  (exists p, sbytes s' = sbytes s ++ p /\ prefix p (w_fai l)).
Proof.
  intros l Hok s r s' H. destruct (c_fai_out l) as [Ho Hc].
  pose proof (good_property _ _ (ix_good _ Hc) s r s' H) as [P1 [P2 [P3 P4]]]. rewrite Ho in *.
  split; [|repeat split; auto].
  intros He. split; [exact (P1 He)|]. rewrite (P1 He). intros E. rewrite E. cbn [app].
  apply fai_roundtrip. exact Hok.
Qed.

(* the converse, with no premise on the index: an Err is the LAST event write_index consumed, a
   Fail e of the script (everything consumed before it was a Full / Short / Interrupted event), so
   together with the second clause above: Err e <-> the destination refused with e *)
Theorem fai_write_index_err_from_sink : forall l s r s',
  fai_write_index l s = (r, s') ->
  r <> OutOfFuel /\
  (forall e, r = Err e -> exists c, sscript s = c ++ Fail e :: sscript s' /\ benign c) /\
  (r = Ok -> exists c, sscript s = c ++ sscript s' /\ benign c) /\
  (exists p, sbytes s' = sbytes s ++ p /\ prefix p (w_fai l)).
Proof.
  intros l s r s' H. destruct (c_fai_out l) as [Ho Hc].
  pose proof (ix_good _ Hc) as G. rewrite Ho in G.
  pose proof (G s) as Gs. unfold fai_write_index in H. rewrite H in Gs.
  destruct r as [|e0|]; [| |contradiction].
  - destruct Gs as [Hb [c [Hs Hbn]]]. split; [discriminate|]. split; [intros e; discriminate|].
    split; [intros _; exists c; auto|]. exists (w_fai l). split; [exact Hb|apply prefix_refl].
  - destruct Gs as [p [c [Hb [Hp [Hs Hbn]]]]]. split; [discriminate|]. split.
    + intros e E. injection E as E. subst e0. exists c. auto.
    + split; [discriminate|]. exists p. auto.
Qed.

(* ---- a failure at EVERY destination call k: Err e after exactly k+1 calls, the destination
   holds exactly the first k (non-empty) buffers ---- *)
Theorem fai_fail_at_call : forall l k, k < length (ix_live (c_fai l)) ->
  forall e rest, e <> e_interrupted ->
  exists p, fai_write_index l (mkSink [] (repeat Full k ++ Fail e :: rest) 0) = (Err e, mkSink p rest (k + 1))
            /\ p = concat (firstn k (map ic_out (ix_live (c_fai l)))) /\ prefix p (w_fai l).
Proof.
  intros l k Hk e rest He. destruct (c_fai_out l) as [Ho Hc].
  exists (concat (firstn k (map ic_out (ix_live (c_fai l))))). split; [|split; [reflexivity|]].
  - unfold fai_write_index. rewrite ix_run_live.
    rewrite (ix_fail_at_call _ (ix_live_clean _ Hc) (ix_live_ne _) k Hk e [] rest 0 He). reflexivity.
  - rewrite <- Ho, <- ix_live_out. unfold ix_out. exists (concat (skipn k (map ic_out (ix_live (c_fai l))))).
    rewrite <- concat_app, firstn_skipn. reflexivity.
Qed.

(* with non-empty names every one of the ten calls of a record reaches the destination *)
Lemma c_fai_rec_ne : forall r, f_name r <> [] -> ix_ne (c_fai_rec r) = true.
Proof.
  intros r Hn. unfold c_fai_rec. cbn [ix_ne forallb].
  pose proof (fmt_N_nonempty (f_len r)). pose proof (fmt_N_nonempty (f_pos r)).
  pose proof (fmt_N_nonempty (f_lb r)). pose proof (fmt_N_nonempty (f_lw r)).
  destruct (f_name r); [contradiction|].
  destruct (fmt_N (f_len r)); [contradiction|]. destruct (fmt_N (f_pos r)); [contradiction|].
  destruct (fmt_N (f_lb r)); [contradiction|]. destruct (fmt_N (f_lw r)); [contradiction|].
  reflexivity.
Qed.

Theorem c_fai_live_named : forall l, Forall (fun r => f_name r <> []) l ->
  ix_live (c_fai l) = c_fai l /\ length (c_fai l) = 10 * length l.
Proof.
  intros l H. split.
  - apply ix_ne_live_id. unfold c_fai. induction H as [|x t Hx _ IH]; [reflexivity|].
    cbn [map concat]. rewrite ix_ne_app, (c_fai_rec_ne x Hx), IH. reflexivity.
  - unfold c_fai. clear H. induction l as [|r t IH]; [reflexivity|].
    cbn [map concat]. rewrite app_length, IH. cbn [c_fai_rec length]. lia.
Qed.

(* an empty name costs exactly one destination call: nine calls for that record *)
Lemma c_fai_rec_live_len : forall r,
  length (ix_live (c_fai_rec r)) = (if match f_name r with [] => true | _ => false end then 9 else 10).
Proof.
  intros r. unfold c_fai_rec, ix_live. cbn [filter].
  pose proof (fmt_N_nonempty (f_len r)). pose proof (fmt_N_nonempty (f_pos r)).
  pose proof (fmt_N_nonempty (f_lb r)). pose proof (fmt_N_nonempty (f_lw r)).
  destruct (fmt_N (f_len r)); [contradiction|]. destruct (fmt_N (f_pos r)); [contradiction|].
  destruct (fmt_N (f_lb r)); [contradiction|]. destruct (fmt_N (f_lw r)); [contradiction|].
  destruct (f_name r); reflexivity.
Qed.
