(* C14 — `?`-sequencing over a faulty sink: the generic layered writer and the operation runner. *)
From Coq Require Import List NArith Arith Bool Lia.
From NV Require Import Sinks.Sink Sinks.SinkProofs.
Import ListNotations.

(* a script without any Fail event (short writes and Interrupted only) *)
Definition no_fail (c : list fault) : Prop := Forall (fun f => forall e, f <> Fail e) c.

Lemma no_fail_benign : forall c, no_fail c -> benign c.
Proof.
  intros c H. unfold benign. eapply Forall_impl; [|exact H].
  intros f Hf e He. exfalso. exact (Hf e He).
Qed.

(* ------------------------------------------------------------------------------------- *)
(* flush, calls, call chains. *)

Lemma sink_flush_good : good [] sink_flush.
Proof.
  intros s. unfold sink_flush.
  destruct (next_event s) as [ev rest] eqn:Hev. apply next_event_script in Hev.
  assert (Hok : ev <> Full \/ True) by (right; exact I).
  destruct ev as [|k| |e].
  - split; [cbn; rewrite app_nil_r; reflexivity|]. cbn [sscript].
    destruct Hev as [[H1 [_ H3]]|H1].
    + exists []. split; [rewrite H1, H3; reflexivity|constructor].
    + exists [Full]. split; [exact H1|]. repeat constructor. intros e He. discriminate.
  - split; [cbn; rewrite app_nil_r; reflexivity|]. cbn [sscript].
    destruct Hev as [[_ [H2 _]]|H1]; [discriminate|].
    exists [Short k]. split; [exact H1|]. repeat constructor. intros e He. discriminate.
  - split; [cbn; rewrite app_nil_r; reflexivity|]. cbn [sscript].
    destruct Hev as [[_ [H2 _]]|H1]; [discriminate|].
    exists [Interrupted]. split; [exact H1|]. repeat constructor. intros e He. discriminate.
  - destruct Hev as [[_ [H2 _]]|H1]; [discriminate|].
    exists [], []. repeat split.
    + cbn. rewrite app_nil_r. reflexivity.
    + apply prefix_nil.
    + exact H1.
    + constructor.
Qed.

Lemma run_call_good : forall c, good (call_out c) (run_call c).
Proof.
  intros [b|]; cbn [call_out run_call]; [apply write_all_good|apply sink_flush_good].
Qed.

Lemma good_seq : forall o1 o2 (a b : sink -> res * sink),
  good o1 a -> good o2 b ->
  good (o1 ++ o2) (fun s => let (r, s1) := a s in match r with Ok => b s1 | _ => (r, s1) end).
Proof.
  intros o1 o2 a b Ha Hb s. specialize (Ha s).
  destruct (a s) as [[|e|] s1].
  - specialize (Hb s1). destruct (b s1) as [[|e|] s2].
    + eapply ok_ok; eassumption.
    + eapply ok_err; eassumption.
    + exact Hb.
  - apply err_weaken. exact Ha.
  - exact Ha.
Qed.

Lemma run_calls_good : forall cs, good (calls_out cs) (run_calls cs).
Proof.
  induction cs as [|c t IH].
  - intros s. cbn. apply ok_post_refl.
  - intros s. cbn [run_calls calls_out map concat].
    exact (good_seq _ _ _ _ (run_call_good c) IH s).
Qed.

(* ------------------------------------------------------------------------------------- *)
(* Stateful operations and their fault-free specification. *)

(* [out st]: what the operation writes on a sink that never fails; [next st]: its state then *)
Record spec (A : Type) := mkSpec { sp_out : A -> list byte; sp_next : A -> A }.
Arguments sp_out {A} _ _.
Arguments sp_next {A} _ _.
Arguments mkSpec {A} _ _.

Definition sgood {A : Type} (I : A -> Prop) (sp : spec A) (a : scomp A) : Prop :=
  forall st s, I st ->
    match a st s with
    | (Ok, st', s') => st' = sp_next sp st /\ I st' /\ ok_post s s' (sp_out sp st)
    | (Err e, _, s') => err_post s s' e (sp_out sp st)
    | (OutOfFuel, _, _) => False
    end.

Fixpoint ideal_out {A : Type} (sps : list (spec A)) (st : A) : list byte :=
  match sps with
  | [] => []
  | sp :: t => sp_out sp st ++ ideal_out t (sp_next sp st)
  end.

Fixpoint ideal_state {A : Type} (sps : list (spec A)) (st : A) : A :=
  match sps with
  | [] => st
  | sp :: t => ideal_state t (sp_next sp st)
  end.

(* the two possible shapes of a run: all operations returned Ok, or the j-th returned Err e
   and nothing was called afterwards *)
Lemma srun_shape : forall (A : Type) (I : A -> Prop) (sps : list (spec A)) (ops : list (scomp A)),
  Forall2 (sgood I) sps ops ->
  forall st s, I st ->
    let '(rs, st', s') := srun ops st s in
    (rs = repeat Ok (length ops) /\ st' = ideal_state sps st /\ I st' /\
     ok_post s s' (ideal_out sps st))
    \/ (exists j e, j < length ops /\ rs = repeat Ok j ++ [Err e] /\
                    err_post s s' e (ideal_out sps st)).
Proof.
  intros A I sps ops HF. induction HF as [|sp o sps' ops' Hg HF IH]; intros st s HI.
  - cbn. left. split; [reflexivity|]. split; [reflexivity|]. split; [exact HI|apply ok_post_refl].
  - cbn [srun]. specialize (Hg st s HI).
    destruct (o st s) as [[r st1] s1]. destruct r as [|e|].
    + destruct Hg as [Hst [HI1 Hok]]. specialize (IH st1 s1 HI1).
      destruct (srun ops' st1 s1) as [[rs st2] s2].
      destruct IH as [[Hrs [Hst2 [HI2 Hok2]]]|[j [e [Hj [Hrs Herr]]]]].
      * left. cbn [length repeat ideal_state ideal_out]. rewrite <- Hst.
        split; [rewrite Hrs; reflexivity|]. split; [exact Hst2|]. split; [exact HI2|].
        eapply ok_ok; eassumption.
      * right. exists (S j), e. cbn [length repeat app ideal_out]. rewrite <- Hst.
        split; [lia|]. split; [rewrite Hrs; reflexivity|].
        eapply ok_err; eassumption.
    + right. exists 0, e. cbn [length repeat app ideal_out].
      split; [lia|]. split; [reflexivity|].
      apply err_weaken. exact Hg.
    + contradiction.
Qed.

Lemma repeat_ok_no_err : forall n e, ~ In (Err e) (repeat Ok n).
Proof. intros n e H. apply repeat_spec in H. discriminate. Qed.

Lemma forall_ok_shape : forall j e, ~ Forall (fun r => r = Ok) (repeat Ok j ++ [Err e]).
Proof.
  intros j e H. apply Forall_app in H. destruct H as [_ H]. inversion H as [|x l Hx Hl]. discriminate.
Qed.

Section RunTheorems.
  Variable A : Type.
  Variable I : A -> Prop.
  Variable sps : list (spec A).
  Variable ops : list (scomp A).
  Hypothesis Hgood : Forall2 (sgood I) sps ops.

  (* if every operation returned Ok, the sink received exactly the fault-free output and the
     writer is in the fault-free state *)
  Theorem srun_all_ok_complete : forall st s rs st' s',
    I st -> srun ops st s = (rs, st', s') -> Forall (fun r => r = Ok) rs ->
    length rs = length ops /\ st' = ideal_state sps st /\
    sbytes s' = sbytes s ++ ideal_out sps st.
  Proof.
    intros st s rs st' s' HI Hrun Hall.
    pose proof (srun_shape A I sps ops Hgood st s HI) as H. rewrite Hrun in H.
    destruct H as [[Hrs [Hst [_ [Hb _]]]]|[j [e [_ [Hrs _]]]]].
    - repeat split; try assumption. rewrite Hrs. apply repeat_length.
    - exfalso. rewrite Hrs in Hall. exact (forall_ok_shape j e Hall).
  Qed.

  (* if the run consumed a Fail e event (e other than Interrupted), some operation — the last
     one called — returned Err e *)
  Theorem srun_failure_reported : forall st s rs st' s' c e,
    I st -> srun ops st s = (rs, st', s') ->
    sscript s = c ++ sscript s' -> In (Fail e) c -> e <> e_interrupted ->
    In (Err e) rs /\ exists j, rs = repeat Ok j ++ [Err e].
  Proof.
    intros st s rs st' s' c e HI Hrun Hc Hin Hne.
    pose proof (srun_shape A I sps ops Hgood st s HI) as H. rewrite Hrun in H.
    destruct H as [[_ [_ [_ [_ [c1 [Hs1 Hb1]]]]]]|[j [e' [_ [Hrs [p [c2 [_ [_ [Hs2 Hb2]]]]]]]]]].
    - exfalso. rewrite Hs1 in Hc. apply app_inv_tail in Hc. subst c1.
      unfold benign in Hb1. rewrite Forall_forall in Hb1. exact (Hne (Hb1 _ Hin e eq_refl)).
    - assert (Hc' : c = c2 ++ [Fail e']).
      { rewrite Hs2 in Hc. change (Fail e' :: sscript s') with ([Fail e'] ++ sscript s') in Hc.
        rewrite app_assoc in Hc. apply app_inv_tail in Hc. symmetry. exact Hc. }
      rewrite Hc' in Hin. apply in_app_or in Hin. destruct Hin as [Hin|Hin].
      + exfalso. unfold benign in Hb2. rewrite Forall_forall in Hb2.
        exact (Hne (Hb2 _ Hin e eq_refl)).
      + destruct Hin as [Hin|[]]. injection Hin as Hin. subst e'.
        split; [|exists j; exact Hrs]. rewrite Hrs. apply in_or_app. right. left. reflexivity.
  Qed.

  (* a destination that only writes short or returns Interrupted changes nothing *)
  Theorem srun_short_write_invariant : forall st s rs st' s',
    I st -> srun ops st s = (rs, st', s') -> no_fail (sscript s) ->
    rs = repeat Ok (length ops) /\ st' = ideal_state sps st /\
    sbytes s' = sbytes s ++ ideal_out sps st.
  Proof.
    intros st s rs st' s' HI Hrun Hnf.
    pose proof (srun_shape A I sps ops Hgood st s HI) as H. rewrite Hrun in H.
    destruct H as [[Hrs [Hst [_ [Hb _]]]]|[j [e [_ [_ [p [c [_ [_ [Hs _]]]]]]]]]].
    - repeat split; assumption.
    - exfalso. unfold no_fail in Hnf. rewrite Forall_forall in Hnf.
      apply (Hnf (Fail e)) with (e := e); [|reflexivity].
      rewrite Hs. apply in_or_app. right. left. reflexivity.
  Qed.

  (* whatever happens, the sink holds a prefix of the fault-free output *)
  Theorem srun_prefix : forall st s rs st' s',
    I st -> srun ops st s = (rs, st', s') ->
    exists p, sbytes s' = sbytes s ++ p /\ prefix p (ideal_out sps st).
  Proof.
    intros st s rs st' s' HI Hrun.
    pose proof (srun_shape A I sps ops Hgood st s HI) as H. rewrite Hrun in H.
    destruct H as [[_ [_ [_ [Hb _]]]]|[j [e [_ [_ [p [c [Hb [Hp _]]]]]]]]].
    - exists (ideal_out sps st). split; [exact Hb|apply prefix_refl].
    - exists p. split; assumption.
  Qed.

  (* [ideal_out] is what the same operations write on the sink that never fails *)
  Theorem srun_ideal : forall st, I st ->
    let '(rs, st', s') := srun ops st ideal_sink in
    rs = repeat Ok (length ops) /\ st' = ideal_state sps st /\ sbytes s' = ideal_out sps st.
  Proof.
    intros st HI. destruct (srun ops st ideal_sink) as [[rs st'] s'] eqn:Hrun.
    apply (srun_short_write_invariant st ideal_sink rs st' s' HI Hrun). constructor.
  Qed.
End RunTheorems.

(* ------------------------------------------------------------------------------------- *)
(* The generic layered writer. *)

Definition lw_spec (cs : list call) : spec unit := mkSpec (fun _ => calls_out cs) (fun st => st).

Lemma lw_exec_good : forall cs, sgood (fun _ => True) (lw_spec cs) (lw_exec cs).
Proof.
  intros cs st s _. unfold lw_exec. pose proof (run_calls_good cs s) as H.
  destruct (run_calls cs s) as [[|e|] s1]; cbn [lw_spec sp_out sp_next]; auto.
Qed.

Lemma lw_good_all : forall ops, Forall2 (sgood (fun _ => True)) (map lw_spec ops) (map lw_exec ops).
Proof.
  induction ops as [|o t IH]; cbn; constructor; [apply lw_exec_good|exact IH].
Qed.

Lemma lw_ideal_out : forall ops st, ideal_out (map lw_spec ops) st = lw_out ops.
Proof.
  induction ops as [|o t IH]; intros st; cbn; [reflexivity|].
  unfold lw_out in *. cbn. rewrite IH. reflexivity.
Qed.

Lemma lw_run_unfold : forall ops s rs s',
  lw_run ops s = (rs, s') -> exists st', srun (map lw_exec ops) tt s = (rs, st', s').
Proof.
  intros ops s rs s' H. unfold lw_run in H.
  destruct (srun (map lw_exec ops) tt s) as [[rs0 st0] s0]. inversion H. subst. eauto.
Qed.

Theorem lw_all_ok_complete : forall ops s rs s',
  lw_run ops s = (rs, s') -> Forall (fun r => r = Ok) rs ->
  length rs = length ops /\ sbytes s' = sbytes s ++ lw_out ops.
Proof.
  intros ops s rs s' H Hall. destruct (lw_run_unfold _ _ _ _ H) as [st' Hrun].
  destruct (srun_all_ok_complete _ _ _ _ (lw_good_all ops) tt s rs st' s' I Hrun Hall) as [Hl [_ Hb]].
  rewrite map_length in Hl. rewrite lw_ideal_out in Hb. split; assumption.
Qed.

Theorem lw_failure_reported : forall ops s rs s' c e,
  lw_run ops s = (rs, s') -> sscript s = c ++ sscript s' -> In (Fail e) c -> e <> e_interrupted ->
  In (Err e) rs.
Proof.
  intros ops s rs s' c e H Hc Hin Hne. destruct (lw_run_unfold _ _ _ _ H) as [st' Hrun].
  exact (proj1 (srun_failure_reported _ _ _ _ (lw_good_all ops) tt s rs st' s' c e I Hrun Hc Hin Hne)).
Qed.

Theorem lw_short_write_invariant : forall ops s rs s',
  lw_run ops s = (rs, s') -> no_fail (sscript s) ->
  rs = repeat Ok (length ops) /\ sbytes s' = sbytes s ++ lw_out ops.
Proof.
  intros ops s rs s' H Hnf. destruct (lw_run_unfold _ _ _ _ H) as [st' Hrun].
  destruct (srun_short_write_invariant _ _ _ _ (lw_good_all ops) tt s rs st' s' I Hrun Hnf) as [Hr [_ Hb]].
  rewrite map_length in Hr. rewrite lw_ideal_out in Hb. split; assumption.
Qed.

Theorem lw_prefix : forall ops s rs s',
  lw_run ops s = (rs, s') -> exists p, sbytes s' = sbytes s ++ p /\ prefix p (lw_out ops).
Proof.
  intros ops s rs s' H. destruct (lw_run_unfold _ _ _ _ H) as [st' Hrun].
  destruct (srun_prefix _ _ _ _ (lw_good_all ops) tt s rs st' s' I Hrun) as [p [Hb Hp]].
  rewrite lw_ideal_out in Hp. eauto.
Qed.

(* ------------------------------------------------------------------------------------- *)
(* write_all alone, in the vocabulary of the property. *)

Theorem write_all_short_invariant : forall buf s,
  no_fail (sscript s) ->
  exists s', write_all buf s = (Ok, s') /\ sbytes s' = sbytes s ++ buf.
Proof.
  intros buf s Hnf. pose proof (write_all_good buf s) as H.
  destruct (write_all buf s) as [[|e|] s'].
  - exists s'. split; [reflexivity|exact (proj1 H)].
  - exfalso. destruct H as [p [c [_ [_ [Hs _]]]]].
    unfold no_fail in Hnf. rewrite Forall_forall in Hnf.
    apply (Hnf (Fail e)) with (e := e); [|reflexivity].
    rewrite Hs. apply in_or_app. right. left. reflexivity.
  - contradiction.
Qed.

Theorem write_all_failure_reported : forall buf s r s' c e,
  write_all buf s = (r, s') -> sscript s = c ++ sscript s' -> In (Fail e) c -> e <> e_interrupted ->
  r = Err e /\ exists p, sbytes s' = sbytes s ++ p /\ prefix p buf.
Proof.
  intros buf s r s' c e Hw Hc Hin Hne. pose proof (write_all_good buf s) as H. rewrite Hw in H.
  destruct r as [|e'|].
  - exfalso. destruct H as [_ [c1 [Hs1 Hb1]]]. rewrite Hs1 in Hc. apply app_inv_tail in Hc. subst c1.
    unfold benign in Hb1. rewrite Forall_forall in Hb1. exact (Hne (Hb1 _ Hin e eq_refl)).
  - destruct H as [p [c2 [Hb [Hp [Hs2 Hb2]]]]].
    assert (Hc' : c = c2 ++ [Fail e']).
    { rewrite Hs2 in Hc. change (Fail e' :: sscript s') with ([Fail e'] ++ sscript s') in Hc.
      rewrite app_assoc in Hc. apply app_inv_tail in Hc. symmetry. exact Hc. }
    rewrite Hc' in Hin. apply in_app_or in Hin. destruct Hin as [Hin|Hin].
    + exfalso. unfold benign in Hb2. rewrite Forall_forall in Hb2. exact (Hne (Hb2 _ Hin e eq_refl)).
    + destruct Hin as [Hin|[]]. injection Hin as Hin. subst e'. split; [reflexivity|eauto].
  - contradiction.
Qed.

(* conversely an error result always comes from a consumed Fail event: with this sink
   write_all never manufactures WriteZero, and it never returns Interrupted *)
Theorem write_all_err_from_script : forall buf s e s',
  write_all buf s = (Err e, s') ->
  e <> e_interrupted /\ exists c, sscript s = c ++ Fail e :: sscript s' /\ benign c.
Proof.
  intros buf s e s' Hw. split; [exact (write_all_err_not_interrupted _ _ _ _ Hw)|].
  pose proof (write_all_good buf s) as H. rewrite Hw in H.
  destruct H as [p [c [_ [_ [Hs Hb]]]]]. eauto.
Qed.
