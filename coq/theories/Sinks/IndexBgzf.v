(* C14 — csi::io::Writer / tabix::io::Writer: write_index as the sequence of calls it makes on the
   bgzf::io::Writer it owns, then try_finish() / finish(self), then Drop.

     noodles-csi/src/io/writer/index.rs            write_index: magic, min_shift, depth, aux, refs, n_no_coor
     noodles-csi/src/io/writer/index/header.rs     write_aux (the header goes to a Vec FIRST: an
                                                   encoder error / panic of the header happens before
                                                   l_aux is written), write_header (shared with tabix)
     .../header/reference_sequence_names.rs        l_nm, then per name: NUL check, name, NUL
     .../reference_sequences{,/bins,/metadata}.rs  n_ref; n_bin (+1 with metadata); bin = id u32,
                                                   loffset u64, chunks; metadata pseudo-bin
     noodles-tabix/src/io/writer/index{,/reference_sequences/**}.rs   the tabix counterparts

   Every integer is one `writer.write_all(&n.to_le_bytes())?` on the BGZF writer (num.rs); lengths
   and ids pass through i32::try_from / u32::try_from (`XE InvalidInput`, nothing written by that
   step) and two places panic (`XP`): `i.checked_add(1).expect(..)` on a column index of usize::MAX
   and Bin::metadata_id(depth) for depth > 10.  The BYTES are C17's layout models
   NV.Index.CsiLayout.w_csi_bytes / w_tbi_bytes (imported read-only); this file adds the call
   boundaries and the ORDER of writes and encoder failures, and runs the chain on the BGZF writer
   state machine of NV.Sinks.Sink (bw_write_all per call: the bytes are staged, a frame is emitted
   whenever the staging buffer is full). *)
From Coq Require Import List NArith Arith Bool.
From NV Require Import Base.LE Index.Bins Index.Chunks Index.Indexer Index.CsiLoffset Index.Layout Index.CsiLayout.
From NV Require Import Sinks.Sink Sinks.IndexCalls.
Import ListNotations.
Close Scope N_scope.

Inductive xcall := XW (buf : list byte) | XE (e : errk) | XP.
(* the result of a call on the index writer: an io::Result or a panic *)
Inductive xres := XDone (r : res) | XPanic.

Definition xc_out (c : xcall) : list byte := match c with XW b => b | _ => [] end.
Definition x_out (cs : list xcall) : list byte := concat (map xc_out cs).

(* the first step that is not a write: where an infallible destination (a Vec) stops the chain *)
Fixpoint x_first_bad (cs : list xcall) : option xcall :=
  match cs with
  | [] => None
  | XW _ :: t => x_first_bad t
  | c :: _ => Some c
  end.

(* the bytes handed to the writer before the chain ends *)
Fixpoint x_accepted (cs : list xcall) : list byte :=
  match cs with
  | XW b :: t => b ++ x_accepted t
  | _ => []
  end.

(* i32::try_from(n).map_err(InvalidInput)?; write_i32_le *)
Definition x_i32 (n : N) : list xcall :=
  if (2147483648 <=? n)%N then [XE e_invalid_input] else [XW (le32 n)].
Definition x_u32 (n : N) : list xcall :=
  if (4294967296 <=? n)%N then [XE e_invalid_input] else [XW (le32 n)].
Definition x_u64 (n : N) : list xcall := [XW (le64 n)].

(* ---------- the tabix header (= CSI aux), header.rs::write_header ---------- *)
(* i.checked_add(1).expect(..); i32::try_from(j)?; write_i32_le *)
Definition x_col (i : N) : list xcall := if (i =? usize_max)%N then [XP] else x_i32 (i + 1).
Definition x_end (h : header) : list xcall :=
  if is_samvcf (h_format h) then
    match h_end h with Some _ => [XE e_invalid_input] | None => [XW (le32 0)] end
  else x_col (end_col h).
Definition x_name (n : list N) : list xcall :=
  if has_nul n then [XE e_invalid_input] else [XW n; XW [0%N]].
Definition x_names (names : list (list N)) : list xcall :=
  x_i32 (names_len names) ++ concat (map x_name names).
Definition x_header (h : header) : list xcall :=
  [XW (le32 (format_code (h_format h)))] ++ x_col (h_seq h) ++ x_col (h_beg h) ++ x_end h
  ++ [XW (le32 (h_meta h))] ++ x_i32 (h_skip h) ++ x_names (h_names h).

(* write_aux: the header is serialised into a Vec (which never fails) first; its own failure is
   the result, with nothing of the aux section written; otherwise l_aux and ONE write_all *)
Definition x_aux (h : option header) : list xcall :=
  match h with
  | None => x_i32 0 ++ [XW []]
  | Some hd =>
      match x_first_bad (x_header hd) with
      | Some c => [c]
      | None => x_i32 (N.of_nat (length (x_out (x_header hd)))) ++ [XW (x_out (x_header hd))]
      end
  end.

(* ---------- bins ---------- *)
Definition x_chunk (c : chunkp) : list xcall := x_u64 (fst c) ++ x_u64 (snd c).
Definition x_chunks (cs : list chunkp) : list xcall :=
  x_i32 (N.of_nat (length cs)) ++ concat (map x_chunk cs).
Definition x_meta_body (m : metadata) : list xcall :=
  [XW (le32 2)] ++ x_u64 (m_beg m) ++ x_u64 (m_end m) ++ x_u64 (m_mapped m) ++ x_u64 (m_unmapped m).
Definition has_some {A : Type} (o : option A) : bool := match o with Some _ => true | None => false end.
Definition plus_meta (n : N) (m : bool) : N := (n + if m then 1 else 0)%N.

(* CSI: i32::try_from(bins.len())?; `n_bin += 1` (an i32 overflow panics in a checked build) *)
Definition x_nbin_csi (n : N) (m : bool) : list xcall :=
  if (2147483648 <=? n)%N then [XE e_invalid_input]
  else if m && (n =? 2147483647)%N then [XP]
  else [XW (le32 (plus_meta n m))].
Definition x_csi_bin (lm : loffmap) (b : N * list chunk) : list xcall :=
  x_u32 (fst b) ++ x_u64 (stored_loffset lm (fst b)) ++ x_chunks (snd b).
Definition x_csi_meta (d : nat) (m : option metadata) : list xcall :=
  match m with
  | None => []
  | Some md => if (10 <? d)%nat then [XP] else x_u32 (metadata_id d) ++ x_u64 0 ++ x_meta_body md
  end.
Definition x_csi_ref (d : nat) (r : csi_ref) : list xcall :=
  x_nbin_csi (N.of_nat (length (cr_bins r))) (has_some (cr_meta r))
  ++ concat (map (x_csi_bin (cr_loffs r)) (cr_bins r)) ++ x_csi_meta d (cr_meta r).

Definition x_unplaced (u : option N) : list xcall := match u with Some n => x_u64 n | None => [] end.

(* csi/io/writer/index.rs::write_index *)
Definition c_csi (i : csi_index) : list xcall :=
  [XW csi_magic; XW (le32 (ci_ms i)); XW (le32 (N.of_nat (ci_depth i)))]
  ++ x_aux (ci_header i)
  ++ x_i32 (N.of_nat (length (ci_refs i))) ++ concat (map (x_csi_ref (ci_depth i)) (ci_refs i))
  ++ x_unplaced (ci_unplaced i).

(* tabix: n_bin.checked_add(1).ok_or(InvalidInput) *)
Definition x_nbin_tbi (n : N) (m : bool) : list xcall :=
  if (2147483648 <=? n)%N then [XE e_invalid_input]
  else if m && (n =? 2147483647)%N then [XE e_invalid_input]
  else [XW (le32 (plus_meta n m))].
Definition x_tbi_bin (b : binp) : list xcall := x_u32 (fst b) ++ x_chunks (snd b).
Definition x_tbi_meta (m : option metadata) : list xcall :=
  match m with None => [] | Some md => x_u32 bai_metadata_id ++ x_meta_body md end.
Definition x_tbi_ref (r : bai_ref) : list xcall :=
  x_nbin_tbi (N.of_nat (length (br_bins r))) (has_some (br_meta r))
  ++ concat (map x_tbi_bin (br_bins r)) ++ x_tbi_meta (br_meta r)
  ++ x_i32 (N.of_nat (length (br_intervals r))) ++ concat (map x_u64 (br_intervals r)).

(* tabix/io/writer/index.rs::write_index: magic, n_ref, then the header (a missing one is
   InvalidInput AFTER magic and n_ref were written), the references, n_no_coor *)
Definition c_tbi (i : tbi_index) : list xcall :=
  [XW tbi_magic] ++ x_i32 (N.of_nat (length (ti_refs i)))
  ++ match ti_header i with
     | None => [XE e_invalid_input]
     | Some h => x_header h ++ concat (map x_tbi_ref (ti_refs i)) ++ x_unplaced (ti_unplaced i)
     end.

(* ---------- the chain on the BGZF writer, and the life of the index writer ---------- *)
Section Ixb.
  Variable maxbuf : nat.
  Variable frames : list (list byte).

  (* `?`-chain of write_all calls on the BGZF writer *)
  Fixpoint x_run (cs : list xcall) (st : bw) (s : sink) : xres * bw * sink :=
    match cs with
    | [] => (XDone Ok, st, s)
    | XW b :: t =>
        let '(r, st1, s1) := bw_exec maxbuf frames (BWriteAll (length b)) st s in
        match r with
        | Ok => x_run t st1 s1
        | _ => (XDone r, st1, s1)
        end
    | XE e :: _ => (XDone (Err e), st, s)
    | XP :: _ => (XPanic, st, s)
    end.

  (* write_index(&index), then -- the caller stops at the first failure -- the finishing call
     [o] (get_mut().try_finish() or into_inner().finish()) *)
  Definition ixb_run (cs : list xcall) (o : bop) (s : sink) : list xres * bw * sink :=
    let '(r1, st1, s1) := x_run cs bw_init s in
    match r1 with
    | XDone Ok => let '(r2, st2, s2) := bw_exec maxbuf frames o st1 s1 in ([XDone Ok; XDone r2], st2, s2)
    | _ => ([r1], st1, s1)
    end.

  (* ... then the writer goes out of scope (also when unwinding from the panic) *)
  Definition ixb_life (cs : list xcall) (o : bop) (s : sink) : list xres * sink :=
    let '(rs, st, s1) := ixb_run cs o s in
    let (_, s2) := bw_drop frames st s1 in (rs, s2).

  Definition csi_life (i : csi_index) := ixb_life (c_csi i).
  Definition tbi_life (i : tbi_index) := ixb_life (c_tbi i).
End Ixb.

(* the calls a clean chain makes on the BGZF writer, as one format-layer operation *)
Definition x_bops (cs : list xcall) : list bop := map (fun c => BWriteAll (length (xc_out c))) cs.
Definition ixb_ops (cs : list xcall) (o : bop) : list (list bop) := [x_bops cs; [o]].
