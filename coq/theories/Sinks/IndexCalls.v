(* C14 — the index writers as the sequence of write_all calls they make.

   noodles-bam/src/bai/io/writer/index/** and noodles-bgzf/src/gzi/io/writer/index.rs write an
   index with one `writer.write_all(&n.to_le_bytes())?` per integer (write_u32_le / write_u64_le)
   and one write_all for the magic number; lengths and bin ids pass through
   `u32::try_from(..).map_err(|e| io::Error::new(InvalidInput, e))?` first, which can end the chain
   with an error of the encoder's own, nothing written by that step.  The BYTES are C17's layout
   models NV.Index.Layout.w_bai / w_gzi (imported read-only); this file adds the call boundaries:
   [c_bai i] / [c_gzi idx] are the steps in emission order, [ix_run] is the `?`-chain. *)
From Coq Require Import List NArith Arith Bool.
From NV Require Import Base.LE Index.Layout Sinks.Sink.
Import ListNotations.

Definition e_invalid_input : errk := 10%N.   (* io::ErrorKind::InvalidInput *)

Inductive icall := IW (buf : list byte) | IE (e : errk).

Fixpoint ix_run (cs : list icall) (s : sink) : res * sink :=
  match cs with
  | [] => (Ok, s)
  | IW b :: t =>
      let (r, s1) := write_all b s in
      match r with Ok => ix_run t s1 | _ => (r, s1) end
  | IE e :: _ => (Err e, s)
  end.

(* u32::try_from(n).map_err(InvalidInput)?; write_u32_le(writer, n)? *)
Definition ix_u32 (n : N) : list icall :=
  if (4294967296 <=? n)%N then [IE e_invalid_input] else [IW (le32 n)].

Definition ix_u64 (n : N) : list icall := [IW (le64 n)].

(* bins/chunks.rs *)
Definition c_chunk (c : chunkp) : list icall := ix_u64 (fst c) ++ ix_u64 (snd c).
Definition c_chunks (cs : list chunkp) : list icall :=
  ix_u32 (N.of_nat (length cs)) ++ concat (map c_chunk cs).

(* bins.rs: write_bin *)
Definition c_bin (b : binp) : list icall := ix_u32 (fst b) ++ c_chunks (snd b).

(* metadata.rs *)
Definition c_metadata (m : metadata) : list icall :=
  ix_u32 bai_metadata_id ++ ix_u32 2 ++ ix_u64 (m_beg m) ++ ix_u64 (m_end m)
  ++ ix_u64 (m_mapped m) ++ ix_u64 (m_unmapped m).

(* bins.rs: write_bins (n_bin = len, checked_add(1) with metadata) *)
Definition c_bins (bins : list binp) (m : option metadata) : list icall :=
  ix_u32 (N.of_nat (length bins) + match m with Some _ => 1 | None => 0 end)
  ++ concat (map c_bin bins)
  ++ match m with Some md => c_metadata md | None => [] end.

(* intervals.rs *)
Definition c_intervals (l : list N) : list icall :=
  ix_u32 (N.of_nat (length l)) ++ concat (map ix_u64 l).

Definition c_bai_ref (r : bai_ref) : list icall :=
  c_bins (br_bins r) (br_meta r) ++ c_intervals (br_intervals r).

(* index.rs: write_index *)
Definition c_bai (i : bai_index) : list icall :=
  [IW bai_magic] ++ ix_u32 (N.of_nat (length (bi_refs i))) ++ concat (map c_bai_ref (bi_refs i))
  ++ match bi_unplaced i with Some n => ix_u64 n | None => [] end.

(* gzi/io/writer/index.rs (u64::try_from(usize) cannot fail) *)
Definition c_gzi (idx : list (N * N)) : list icall :=
  ix_u64 (N.of_nat (length idx)) ++ concat (map c_chunk idx).

(* what the steps write when nothing fails, and whether the encoder itself can fail *)
Definition ic_out (c : icall) : list byte := match c with IW b => b | IE _ => [] end.
Definition ix_out (cs : list icall) : list byte := concat (map ic_out cs).
Definition ic_clean (c : icall) : bool := match c with IW _ => true | IE _ => false end.
Definition ix_clean (cs : list icall) : bool := forallb ic_clean cs.

Definition bai_write_index (i : bai_index) (s : sink) : res * sink := ix_run (c_bai i) s.
Definition gzi_write_index (idx : list (N * N)) (s : sink) : res * sink := ix_run (c_gzi idx) s.
