(* C14 — CSI / tabix write_index over the BGZF writer: the chain writes exactly C17's layout bytes,
   a well-formed index makes no encoder error, and the life write_index; try_finish/finish has the
   whole property (failure reported, complete file that C17's reader decodes, short-write invariant,
   prefix).  Encoder errors / panics: reported by write_index itself, and Drop still emits a
   complete BGZF stream of what had been accepted. *)
From Coq Require Import List NArith Arith Bool Lia.
From NV Require Import Base.LE Index.Bins Index.Chunks Index.Indexer Index.CsiLoffset Index.Layout Index.LayoutProofs
  Index.CsiLayout Index.CsiLayoutProofs.
From NV Require Import Sinks.Sink Sinks.SinkProofs Sinks.LayerProofs Sinks.BgzfProofs Sinks.Format Sinks.FormatProofs
  Sinks.IndexCalls Sinks.IndexBgzf.
Import ListNotations.
Close Scope N_scope.

(* ---- clean chains and their bytes ---- *)
Definition x_good (cs : list xcall) (bs : list byte) : Prop := x_first_bad cs = None /\ x_out cs = bs.

Lemma x_first_bad_app : forall a b,
  x_first_bad (a ++ b) = match x_first_bad a with Some c => Some c | None => x_first_bad b end.
Proof.
  induction a as [|[w|e|] t IH]; intros b; cbn [app x_first_bad]; [reflexivity|apply IH|reflexivity|reflexivity].
Qed.

Lemma x_out_app : forall a b, x_out (a ++ b) = x_out a ++ x_out b.
Proof. intros a b. unfold x_out. rewrite map_app, concat_app. reflexivity. Qed.

Lemma x_good_nil : x_good [] [].
Proof. split; reflexivity. Qed.

Lemma x_good_app : forall a b ba bb, x_good a ba -> x_good b bb -> x_good (a ++ b) (ba ++ bb).
Proof.
  intros a b ba bb [A1 A2] [B1 B2]. split.
  - rewrite x_first_bad_app, A1. exact B1.
  - rewrite x_out_app, A2, B2. reflexivity.
Qed.

Lemma x_good_w : forall b, x_good [XW b] b.
Proof. intros b. split; [reflexivity|]. unfold x_out. cbn [map concat xc_out]. apply app_nil_r. Qed.

Lemma x_good_concat : forall (A : Type) (f : A -> list xcall) (g : A -> list byte) l,
  (forall x, In x l -> x_good (f x) (g x)) -> x_good (concat (map f l)) (concat (map g l)).
Proof.
  intros A f g. induction l as [|x t IH]; intros H; cbn [map concat]; [apply x_good_nil|].
  apply x_good_app; [apply H; left; reflexivity|]. apply IH. intros y Hy. apply H. right. exact Hy.
Qed.

Lemma x_good_i32 : forall n, (n < 2147483648)%N -> x_good (x_i32 n) (le32 n).
Proof.
  intros n H. unfold x_i32. destruct (N.leb_spec 2147483648 n) as [L|L]; [lia|apply x_good_w].
Qed.

Lemma x_good_u32 : forall n, u32 n -> x_good (x_u32 n) (le32 n).
Proof.
  intros n H. unfold x_u32, u32 in *. destruct (N.leb_spec 4294967296 n) as [L|L]; [lia|apply x_good_w].
Qed.

Lemma x_good_u64 : forall n, x_good (x_u64 n) (le64 n).
Proof. intros n. apply x_good_w. Qed.

Lemma x_good_eq : forall cs b1 b2, x_good cs b1 -> b1 = b2 -> x_good cs b2.
Proof. intros cs b1 b2 H E. subst b2. exact H. Qed.

(* ---- header ---- *)
Lemma x_good_col : forall i, col_status i = SOk -> x_good (x_col i) (le32 (i + 1)).
Proof.
  intros i H. pose proof (col_status_ok i H) as Hle. unfold col_status in H. unfold x_col.
  destruct (N.eqb i usize_max); [discriminate|]. apply x_good_i32. unfold i32_max in Hle. lia.
Qed.

Lemma x_good_end : forall h, end_status h = SOk ->
  x_good (x_end h) (le32 (if is_samvcf (h_format h) then 0 else end_col h + 1)%N).
Proof.
  intros h H. unfold end_status in H. unfold x_end. destruct (is_samvcf (h_format h)).
  - destruct (h_end h); [discriminate|apply x_good_w].
  - apply x_good_col. exact H.
Qed.

Lemma has_nul_false : forall names n, existsb has_nul names = false -> In n names -> has_nul n = false.
Proof.
  induction names as [|x t IH]; intros n H Hin; [destruct Hin|].
  cbn [existsb] in H. apply orb_false_elim in H. destruct H as [H1 H2].
  destruct Hin as [Hin|Hin]; [subst x; exact H1|exact (IH n H2 Hin)].
Qed.

Lemma x_good_names : forall names, names_status names = SOk -> x_good (x_names names) (w_names names).
Proof.
  intros names H. unfold names_status in H. unfold x_names, w_names.
  destruct (N.ltb_spec i32_max (names_len names)) as [L|L]; [discriminate|].
  destruct (existsb has_nul names) eqn:E; [discriminate|].
  apply x_good_app; [apply x_good_i32; unfold i32_max in L; lia|].
  apply x_good_concat. intros n Hn. unfold x_name. rewrite (has_nul_false names n E Hn).
  unfold w_name. change [XW n; XW [0%N]] with ([XW n] ++ [XW [0%N]]). apply x_good_app; apply x_good_w.
Qed.

Lemma x_good_header : forall h, header_status h = SOk -> x_good (x_header h) (w_header h).
Proof.
  intros h H. unfold header_status in H.
  apply sseq_ok in H. destruct H as [H1 H]. apply sseq_ok in H. destruct H as [H2 H].
  apply sseq_ok in H. destruct H as [H3 H]. apply sseq_ok in H. destruct H as [H4 H5].
  unfold x_header, w_header.
  apply x_good_app; [apply x_good_w|]. apply x_good_app; [apply x_good_col; exact H1|].
  apply x_good_app; [apply x_good_col; exact H2|]. apply x_good_app; [apply x_good_end; exact H3|].
  apply x_good_app; [apply x_good_w|]. apply x_good_app; [|apply x_good_names; exact H5].
  apply x_good_i32. destruct (N.ltb_spec i32_max (h_skip h)) as [L|L]; [discriminate|]. unfold i32_max in L. lia.
Qed.

Lemma x_good_aux : forall h,
  match h with Some hd => header_status hd = SOk /\ (N.of_nat (length (w_header hd)) < 2147483648)%N | None => True end ->
  x_good (x_aux h) (w_aux h).
Proof.
  intros [hd|] H; unfold x_aux, w_aux.
  - destruct H as [Hs Hl]. destruct (x_good_header hd Hs) as [G1 G2]. rewrite G1, G2.
    apply x_good_app; [apply x_good_i32; exact Hl|apply x_good_w].
  - apply (x_good_eq _ (le32 0 ++ [])); [|apply app_nil_r].
    apply x_good_app; [apply x_good_i32; lia|apply x_good_w].
Qed.

(* ---- bins ---- *)
Lemma x_good_chunk : forall c, x_good (x_chunk c) (w_chunk c).
Proof. intros c. unfold x_chunk, w_chunk. apply x_good_app; apply x_good_u64. Qed.

Lemma x_good_chunks : forall cs, (N.of_nat (length cs) < 2147483648)%N -> x_good (x_chunks cs) (w_chunks cs).
Proof.
  intros cs H. unfold x_chunks, w_chunks. apply x_good_app; [apply x_good_i32; exact H|].
  apply x_good_concat. intros c _. apply x_good_chunk.
Qed.

Lemma x_good_meta_body : forall m, x_good (x_meta_body m) (w_metadata_body m).
Proof.
  intros m. unfold x_meta_body, w_metadata_body.
  apply x_good_app; [apply x_good_w|]. repeat (apply x_good_app; [apply x_good_u64|]). apply x_good_u64.
Qed.

Lemma x_good_nbin_csi : forall n (m : bool), (n + 1 < 2147483648)%N ->
  x_good (x_nbin_csi n m) (le32 (n + if m then 1 else 0)%N).
Proof.
  intros n m H. unfold x_nbin_csi, plus_meta.
  destruct (N.leb_spec 2147483648 n) as [L|L]; [lia|].
  replace (n =? 2147483647)%N with false by (symmetry; apply N.eqb_neq; lia).
  rewrite andb_false_r. apply x_good_w.
Qed.

Lemma x_good_nbin_tbi : forall n (m : bool), (n + 1 < 2147483648)%N ->
  x_good (x_nbin_tbi n m) (le32 (n + if m then 1 else 0)%N).
Proof.
  intros n m H. unfold x_nbin_tbi, plus_meta.
  destruct (N.leb_spec 2147483648 n) as [L|L]; [lia|].
  replace (n =? 2147483647)%N with false by (symmetry; apply N.eqb_neq; lia).
  rewrite andb_false_r. apply x_good_w.
Qed.

Lemma x_good_csi_bin : forall mid lm b, cbin_ok mid b -> x_good (x_csi_bin lm b) (w_csi_bin lm b).
Proof.
  intros mid lm b (H1 & _ & H3 & _). unfold x_csi_bin, w_csi_bin.
  apply x_good_app; [apply x_good_u32; exact H1|]. apply x_good_app; [apply x_good_u64|].
  apply x_good_chunks. exact H3.
Qed.

Lemma x_good_csi_ref : forall d r, (d <= 10)%nat -> cref_ok d r -> x_good (x_csi_ref d r) (w_csi_ref d r).
Proof.
  intros d r Hd (Hb & _ & Hlen & _ & _). unfold x_csi_ref, w_csi_ref.
  apply x_good_app.
  - apply (x_good_eq _ _ _ (x_good_nbin_csi _ (has_some (cr_meta r)) Hlen)).
    destruct (cr_meta r); reflexivity.
  - apply x_good_app.
    + apply x_good_concat. intros b Hin. rewrite Forall_forall in Hb. exact (x_good_csi_bin _ _ _ (Hb b Hin)).
    + unfold x_csi_meta, w_csi_meta. destruct (cr_meta r) as [md|]; [|apply x_good_nil].
      replace (10 <? d)%nat with false by (symmetry; apply Nat.ltb_ge; exact Hd).
      apply x_good_app; [apply x_good_u32; apply metadata_id_u32; exact Hd|].
      apply x_good_app; [apply x_good_u64|apply x_good_meta_body].
Qed.

Lemma x_good_unplaced : forall u, x_good (x_unplaced u) (w_unplaced u).
Proof. intros [n|]; [apply x_good_u64|apply x_good_nil]. Qed.

(* CSI: the calls add up to C17's layout and a well-formed index has no encoder error / panic *)
Theorem c_csi_good : forall i, csi_ok i -> x_good (c_csi i) (w_csi_bytes i).
Proof.
  intros i (Hms & Hd & Hg & Hh & Hn & Hr & Hu). unfold c_csi, w_csi_bytes.
  change [XW csi_magic; XW (le32 (ci_ms i)); XW (le32 (N.of_nat (ci_depth i)))]
    with ([XW csi_magic] ++ [XW (le32 (ci_ms i))] ++ [XW (le32 (N.of_nat (ci_depth i)))]).
  rewrite <- !app_assoc.
  apply x_good_app; [apply x_good_w|]. apply x_good_app; [apply x_good_w|]. apply x_good_app; [apply x_good_w|].
  apply x_good_app.
  { apply x_good_aux. destruct (ci_header i) as [hd|]; [|exact I].
    destruct Hh as [[Hs _] Hl]. split; assumption. }
  apply x_good_app; [apply x_good_i32; exact Hn|].
  apply x_good_app; [|apply x_good_unplaced].
  apply x_good_concat. intros r Hin. rewrite Forall_forall in Hr. apply x_good_csi_ref; auto.
Qed.

Lemma x_good_tbi_bin : forall b, bin_ok b -> x_good (x_tbi_bin b) (w_bin b).
Proof.
  intros b (H1 & _ & H3 & _). unfold x_tbi_bin, w_bin.
  apply x_good_app; [apply x_good_u32; exact H1|apply x_good_chunks; exact H3].
Qed.

Lemma x_good_tbi_ref : forall r, tref_ok r -> x_good (x_tbi_ref r) (w_bai_ref r).
Proof.
  intros r ((Hb & _) & Hlen & Hil). unfold x_tbi_ref, w_bai_ref, w_bins, w_intervals.
  rewrite <- !app_assoc.
  apply x_good_app.
  - apply (x_good_eq _ _ _ (x_good_nbin_tbi _ (has_some (br_meta r)) Hlen)).
    destruct (br_meta r); reflexivity.
  - apply x_good_app.
    + apply x_good_concat. intros b Hin. rewrite Forall_forall in Hb. exact (x_good_tbi_bin _ (Hb b Hin)).
    + apply x_good_app.
      * unfold x_tbi_meta. destruct (br_meta r) as [md|]; [|apply x_good_nil].
        apply x_good_app; [apply x_good_u32; unfold u32, bai_metadata_id; lia|apply x_good_meta_body].
      * apply x_good_app; [apply x_good_i32; exact Hil|].
        apply x_good_concat. intros x _. apply x_good_u64.
Qed.

Theorem c_tbi_good : forall i, tbi_ok i -> x_good (c_tbi i) (w_tbi_bytes i).
Proof.
  intros i (Hh & Hn & Hr & Hu). unfold c_tbi, w_tbi_bytes.
  destruct (ti_header i) as [h|]; [|contradiction]. destruct Hh as (Hs & _).
  apply x_good_app; [apply x_good_w|]. apply x_good_app; [apply x_good_i32; exact Hn|].
  apply x_good_app; [apply x_good_header; exact Hs|].
  apply x_good_app; [|apply x_good_unplaced].
  apply x_good_concat. intros r Hin. rewrite Forall_forall in Hr. apply x_good_tbi_ref; auto.
Qed.

(* ---- a clean chain on the BGZF writer is one format-layer operation ---- *)
Lemma x_bops_sum : forall cs, list_sum (map (fun c => length (xc_out c)) cs) = length (x_out cs).
Proof.
  induction cs as [|c t IH]; [reflexivity|].
  change (x_out (c :: t)) with (xc_out c ++ x_out t).
  change (list_sum (map (fun c0 => length (xc_out c0)) (c :: t)))
    with (length (xc_out c) + list_sum (map (fun c0 => length (xc_out c0)) t)).
  rewrite app_length, IH. reflexivity.
Qed.

Lemma x_bops_map : forall cs, x_bops cs = map BWriteAll (map (fun c => length (xc_out c)) cs).
Proof. intros cs. unfold x_bops. rewrite map_map. reflexivity. Qed.

Lemma x_accepted_clean : forall cs, x_first_bad cs = None -> x_accepted cs = x_out cs.
Proof.
  induction cs as [|[b|e|] t IH]; intros H; cbn [x_first_bad] in H; try discriminate; [reflexivity|].
  cbn [x_accepted]. rewrite (IH H). reflexivity.
Qed.

Lemma srun_length_le : forall (A : Type) (ops : list (scomp A)) st s,
  length (fst (fst (srun ops st s))) <= length ops.
Proof.
  intros A. induction ops as [|o t IH]; intros st s; cbn [srun]; [cbn; lia|].
  destruct (o st s) as [[r st1] s1]. destruct r as [|e|]; cbn [fst length]; try lia.
  specialize (IH st1 s1). destruct (srun t st1 s1) as [[rs2 st2] s2]. cbn [fst length] in *. lia.
Qed.

Section IxbProofs.
  Variable maxbuf : nat.
  Variable frames : list (list byte).
  Hypothesis maxbuf_pos : 0 < maxbuf.

  Lemma x_run_clean : forall cs st s, x_first_bad cs = None ->
    x_run maxbuf frames cs st s
    = let '(r, st', s') := bw_chain maxbuf frames (x_bops cs) st s in (XDone r, st', s').
  Proof.
    induction cs as [|[b|e|] t IH]; intros st s H; cbn [x_first_bad] in H; try discriminate.
    - reflexivity.
    - cbn [x_run x_bops map bw_chain xc_out].
      destruct (bw_exec maxbuf frames (BWriteAll (length b)) st s) as [[[|e|] st1] s1]; [|reflexivity|reflexivity].
      apply IH. exact H.
  Qed.

  Lemma ixb_run_clean : forall cs o s, x_first_bad cs = None ->
    ixb_run maxbuf frames cs o s
    = let '(rs, st', s') := fob_run_ops maxbuf frames (ixb_ops cs o) s in (map XDone rs, st', s').
  Proof.
    intros cs o s H. unfold ixb_run, fob_run_ops, ixb_ops. cbn [map srun].
    rewrite (x_run_clean cs bw_init s H).
    destruct (bw_chain maxbuf frames (x_bops cs) bw_init s) as [[[|e|] st1] s1]; [|reflexivity|reflexivity].
    cbn [bw_chain].
    destruct (bw_exec maxbuf frames o st1 s1) as [[[|e|] st2] s2]; reflexivity.
  Qed.

  Lemma ixb_out : forall cs o, o = BTryFinish \/ o = BFinish ->
    fob_out maxbuf frames (ixb_ops cs o) = bgzf_of_len maxbuf frames (length (x_out cs)).
  Proof.
    intros cs o Ho. unfold fob_out, ixb_ops. cbn [concat]. rewrite app_nil_r, x_bops_map.
    rewrite (writes_then_finish_out maxbuf frames maxbuf_pos _ o Ho), x_bops_sum. reflexivity.
  Qed.

  Lemma map_xdone_ok : forall rs, Forall (fun r => r = XDone Ok) (map XDone rs) -> Forall (fun r => r = Ok) rs.
  Proof.
    induction rs as [|r t IH]; intros H; [constructor|]. cbn [map] in H. inversion H as [|x l H1 H2]; subst.
    constructor; [injection H1 as H1; exact H1|apply IH; exact H2].
  Qed.

  (* THE LIFE OF AN INDEX WRITER over a clean chain whose bytes are [payload] *)
  Theorem ixb_property : forall cs payload o, x_good cs payload -> o = BTryFinish \/ o = BFinish ->
    forall s rs st' s', ixb_run maxbuf frames cs o s = (rs, st', s') ->
    (Forall (fun r => r = XDone Ok) rs ->
       rs = [XDone Ok; XDone Ok] /\ sbytes s' = sbytes s ++ bgzf_of_len maxbuf frames (length payload)) /\
    (forall c e, sscript s = c ++ sscript s' -> In (Fail e) c -> e <> e_interrupted ->
       rs = [XDone (Err e)] \/ rs = [XDone Ok; XDone (Err e)]) /\
    (no_fail (sscript s) ->
       rs = [XDone Ok; XDone Ok] /\ sbytes s' = sbytes s ++ bgzf_of_len maxbuf frames (length payload)) /\
    (exists p, sbytes s' = sbytes s ++ p /\ prefix p (bgzf_of_len maxbuf frames (length payload))).
  Proof.
    intros cs payload o [Hc Hp] Ho s rs st' s' H. subst payload.
    rewrite (ixb_run_clean cs o s Hc) in H.
    destruct (fob_run_ops maxbuf frames (ixb_ops cs o) s) as [[rs0 st0] s0] eqn:E.
    injection H as H1 H2 H3. subst rs st' s'.
    destruct (format_over_bgzf maxbuf frames maxbuf_pos _ _ _ _ _ E) as [P1 [P2 [P3 P4]]].
    rewrite (ixb_out cs o Ho) in *.
    split; [|split; [|split]].
    - intros Hall. apply map_xdone_ok in Hall. destruct (P1 Hall) as [L [_ B]]. split; [|exact B].
      cbn [ixb_ops length] in L. destruct rs0 as [|a [|b [|]]]; try discriminate.
      inversion Hall as [|x l Ha Hr]; subst. inversion Hr as [|x l Hb _]; subst. reflexivity.
    - intros c e Hs Hin Hne. destruct (P2 c e Hs Hin Hne) as [_ [j Hj]]. subst rs0.
      assert (Hlen : length (repeat Ok j ++ [Err e]) <= 2).
      { assert (G := srun_length_le _ (map (bw_chain maxbuf frames) (ixb_ops cs o)) bw_init s).
        unfold fob_run_ops in E. rewrite E in G. cbn [fst] in G. rewrite map_length in G. exact G. }
      rewrite app_length, repeat_length in Hlen. cbn [length] in Hlen.
      destruct j as [|[|j]]; [left; reflexivity|right; reflexivity|lia].
    - intros Hnf. destruct (P3 Hnf) as [R [_ B]]. split; [|exact B]. subst rs0. reflexivity.
    - exact P4.
  Qed.
End IxbProofs.

(* ---- encoder errors and panics: returned by write_index itself; Drop (also when unwinding)
        still emits a complete BGZF stream of the bytes accepted before ---- *)
Definition xres_of (c : xcall) : xres := match c with XE e => XDone (Err e) | XP => XPanic | XW _ => XDone Ok end.

Section IxbFailProofs.
  Variable maxbuf : nat.
  Variable frames : list (list byte).
  Hypothesis maxbuf_pos : 0 < maxbuf.

  Lemma x_run_bad : forall pre c post st s, x_first_bad pre = None -> (forall b, c <> XW b) ->
    x_run maxbuf frames (pre ++ c :: post) st s
    = let '(r, st', s') := bw_chain maxbuf frames (x_bops pre) st s in
      match r with Ok => (xres_of c, st', s') | _ => (XDone r, st', s') end.
  Proof.
    induction pre as [|[b|e|] t IH]; intros c post st s H Hc; cbn [x_first_bad] in H; try discriminate.
    - cbn [app x_bops map bw_chain]. destruct c as [b|e|]; [exfalso; exact (Hc b eq_refl)|reflexivity|reflexivity].
    - cbn [app x_run x_bops map bw_chain xc_out].
      destruct (bw_exec maxbuf frames (BWriteAll (length b)) st s) as [[[|e|] st1] s1]; [|reflexivity|reflexivity].
      apply IH; assumption.
  Qed.

  Lemma drop_is_try_finish : forall st s,
    snd (bw_drop frames st s) = snd (bw_exec maxbuf frames BTryFinish st s).
  Proof.
    intros st s. unfold bw_drop, bw_exec. destruct (alive st); [|reflexivity].
    destruct (bw_try_finish frames st s) as [[r st1] s1]. reflexivity.
  Qed.

  Theorem ixb_encoder_failure : forall pre c post o s,
    x_first_bad pre = None -> (forall b, c <> XW b) -> no_fail (sscript s) ->
    exists s2, ixb_life maxbuf frames (pre ++ c :: post) o s = ([xres_of c], s2) /\
      sbytes s2 = sbytes s ++ bgzf_of_len maxbuf frames (length (x_out pre)).
  Proof.
    intros pre c post o s Hp Hc Hnf.
    destruct (fob_run_ops maxbuf frames (ixb_ops pre BTryFinish) s) as [[rs0 st0] s0] eqn:E.
    destruct (format_over_bgzf maxbuf frames maxbuf_pos _ _ _ _ _ E) as [_ [_ [P3 _]]].
    destruct (P3 Hnf) as [R [_ B]]. rewrite (ixb_out maxbuf frames maxbuf_pos pre BTryFinish (or_introl eq_refl)) in B.
    unfold fob_run_ops, ixb_ops in E. cbn [map srun length repeat] in E, R.
    unfold ixb_life, ixb_run. rewrite (x_run_bad pre c post bw_init s Hp Hc).
    destruct (bw_chain maxbuf frames (x_bops pre) bw_init s) as [[r1 st1] s1].
    destruct r1 as [|e1|].
    - cbn [bw_chain] in E.
      pose proof (drop_is_try_finish st1 s1) as D.
      destruct (bw_exec maxbuf frames BTryFinish st1 s1) as [[r2 st2] s2]. cbn [snd] in D.
      assert (Hs : s2 = s0) by (destruct r2; inversion E; reflexivity).
      exists s0. split; [|exact B].
      destruct c as [b|e|]; [exfalso; exact (Hc b eq_refl)| |]; cbn [xres_of]; cbv iota beta;
        destruct (bw_drop frames st1 s1) as [st3 s3]; cbn [snd] in D; subst s3 s2; reflexivity.
    - inversion E; subst. discriminate.
    - inversion E; subst. discriminate.
  Qed.
End IxbFailProofs.

(* ---- the two writers ---- *)
Section IndexWriters.
  Variable maxbuf : nat.
  Variable frames : list (list byte).
  Hypothesis maxbuf_pos : 0 < maxbuf.

  Theorem csi_write_index_property : forall i o, csi_ok i -> o = BTryFinish \/ o = BFinish ->
    forall s rs st' s', ixb_run maxbuf frames (c_csi i) o s = (rs, st', s') ->
    (Forall (fun r => r = XDone Ok) rs ->
       rs = [XDone Ok; XDone Ok] /\
       sbytes s' = sbytes s ++ bgzf_of_len maxbuf frames (length (w_csi_bytes i)) /\
       read_csi (w_csi_bytes i) = Some (reread_csi i)) /\
    (forall c e, sscript s = c ++ sscript s' -> In (Fail e) c -> e <> e_interrupted ->
       rs = [XDone (Err e)] \/ rs = [XDone Ok; XDone (Err e)]) /\
    (no_fail (sscript s) ->
       rs = [XDone Ok; XDone Ok] /\ sbytes s' = sbytes s ++ bgzf_of_len maxbuf frames (length (w_csi_bytes i))) /\
    (exists p, sbytes s' = sbytes s ++ p /\ prefix p (bgzf_of_len maxbuf frames (length (w_csi_bytes i)))).
  Proof.
    intros i o Hok Ho s rs st' s' H.
    destruct (ixb_property maxbuf frames maxbuf_pos _ _ o (c_csi_good i Hok) Ho s rs st' s' H) as [P1 [P2 [P3 P4]]].
    split; [|split; [|split]]; auto.
    intros Hall. destruct (P1 Hall) as [A B]. split; [exact A|]. split; [exact B|].
    apply csi_layout_roundtrip. exact Hok.
  Qed.

  Theorem tbi_write_index_property : forall i o, tbi_ok i -> o = BTryFinish \/ o = BFinish ->
    forall s rs st' s', ixb_run maxbuf frames (c_tbi i) o s = (rs, st', s') ->
    (Forall (fun r => r = XDone Ok) rs ->
       rs = [XDone Ok; XDone Ok] /\
       sbytes s' = sbytes s ++ bgzf_of_len maxbuf frames (length (w_tbi_bytes i)) /\
       read_tbi (w_tbi_bytes i) = Some (reread_tbi i)) /\
    (forall c e, sscript s = c ++ sscript s' -> In (Fail e) c -> e <> e_interrupted ->
       rs = [XDone (Err e)] \/ rs = [XDone Ok; XDone (Err e)]) /\
    (no_fail (sscript s) ->
       rs = [XDone Ok; XDone Ok] /\ sbytes s' = sbytes s ++ bgzf_of_len maxbuf frames (length (w_tbi_bytes i))) /\
    (exists p, sbytes s' = sbytes s ++ p /\ prefix p (bgzf_of_len maxbuf frames (length (w_tbi_bytes i)))).
  Proof.
    intros i o Hok Ho s rs st' s' H.
    destruct (ixb_property maxbuf frames maxbuf_pos _ _ o (c_tbi_good i Hok) Ho s rs st' s' H) as [P1 [P2 [P3 P4]]].
    split; [|split; [|split]]; auto.
    intros Hall. destruct (P1 Hall) as [A B]. split; [exact A|]. split; [exact B|].
    apply tabix_roundtrip. exact Hok.
  Qed.

  (* an index below the staging buffer (every real CSI / tabix index of a few thousand bins):
     write_index returns Ok WITHOUT touching the destination, whatever its script -- so a
     destination failure can only be, and is, reported by the finishing call *)
  Theorem ixb_small_index : forall cs payload o, x_good cs payload -> o = BTryFinish \/ o = BFinish ->
    length payload < maxbuf ->
    forall s rs st' s', ixb_run maxbuf frames cs o s = (rs, st', s') ->
    exists r, rs = [XDone Ok; XDone r] /\
      (r = Ok -> sbytes s' = sbytes s ++ bgzf_of_len maxbuf frames (length payload)) /\
      (forall c e, sscript s = c ++ sscript s' -> In (Fail e) c -> e <> e_interrupted -> r = Err e) /\
      (no_fail (sscript s) -> r = Ok).
  Proof.
    intros cs payload o [Hc Hp] Ho Hlen s rs st' s' H. subst payload.
    unfold ixb_run in H. rewrite (x_run_clean maxbuf frames cs bw_init s Hc) in H.
    (* the chain of staged writes *)
    assert (Hch : forall ns st s0, alive st = true -> staged st + list_sum ns < maxbuf ->
              bw_chain maxbuf frames (map BWriteAll ns) st s0
              = (Ok, mkBw (staged st + list_sum ns) (nfl st) (alive st) (fin st), s0)).
    { induction ns as [|n t IH]; intros st s0 Ha Hlt; cbn [map bw_chain];
        [change (list_sum []) with 0 in *|change (list_sum (n :: t)) with (n + list_sum t) in *].
      - rewrite Nat.add_0_r. destruct st; reflexivity.
      - rewrite (bw_write_all_staged maxbuf frames maxbuf_pos n st s0 Ha) by lia.
        rewrite IH; cbn [staged alive nfl fin]; [|exact Ha|lia]. rewrite Nat.add_assoc. reflexivity. }
    rewrite x_bops_map in H. rewrite Hch in H; [|reflexivity|cbn [staged bw_init]; rewrite x_bops_sum; exact Hlen].
    cbn [staged bw_init Nat.add nfl alive fin] in H.
    set (ns := map (fun c => length (xc_out c)) cs) in *.
    assert (Hsum : list_sum ns < maxbuf) by (subst ns; rewrite x_bops_sum; exact Hlen).
    (* the same life as bw_run_ops (writes ++ [o]) *)
    assert (Hrun : forall r2 st2 s2, bw_exec maxbuf frames o (mkBw (list_sum ns) 0 true false) s = (r2, st2, s2) ->
              bw_run_ops maxbuf frames (map BWriteAll ns ++ [o]) s = (repeat Ok (length ns) ++ [r2], st2, s2)).
    { intros r2 st2 s2 E. unfold bw_run_ops. rewrite map_app, srun_app.
      rewrite (staged_writes_run maxbuf frames maxbuf_pos ns bw_init s eq_refl) by (cbn [staged bw_init]; lia).
      rewrite forallb_repeat_ok. cbn [map srun staged bw_init Nat.add nfl alive fin]. rewrite E.
      destruct r2; reflexivity. }
    destruct (bw_exec maxbuf frames o (mkBw (list_sum ns) 0 true false) s) as [[r2 st2] s2].
    injection H as H1 H2 H3. subst rs st' s'.
    destruct (small_file_error_at_finish maxbuf frames maxbuf_pos ns o s _ _ _ Ho Hsum (Hrun _ _ _ eq_refl))
      as [r [Hr [S1 [S2 S3]]]].
    apply app_inj_tail in Hr. destruct Hr as [_ Hr]. subst r.
    subst ns. rewrite x_bops_sum in S1.
    exists r2. repeat split; assumption.
  Qed.
End IndexWriters.
