(* C14 — the BGZF writer state machine over a faulty sink. *)
From Coq Require Import List NArith Arith Bool Lia.
From NV Require Import Sinks.Sink Sinks.SinkProofs Sinks.LayerProofs.
Import ListNotations.

Lemma split_sizes_concat : forall sizes bs, concat (split_sizes sizes bs) = bs.
Proof.
  induction sizes as [|n t IH]; intros bs; cbn [split_sizes concat].
  - apply app_nil_r.
  - rewrite IH. apply firstn_skipn.
Qed.

Lemma frame_pieces_concat : forall f, concat (frame_pieces f) = f.
Proof. intros f. unfold frame_pieces. apply split_sizes_concat. Qed.

Lemma calls_out_writes : forall ps, calls_out (map CWrite ps) = concat ps.
Proof.
  induction ps as [|p t IH]; [reflexivity|].
  unfold calls_out in *. cbn. rewrite IH. reflexivity.
Qed.

Lemma emit_frame_good : forall f, good f (emit_frame f).
Proof.
  intros f. unfold emit_frame.
  pose proof (run_calls_good (map CWrite (frame_pieces f))) as H.
  rewrite calls_out_writes, frame_pieces_concat in H. exact H.
Qed.

Lemma run_writes_err_ni : forall ps s e s',
  run_calls (map CWrite ps) s = (Err e, s') -> e <> e_interrupted.
Proof.
  induction ps as [|p t IH]; intros s e s' H; cbn [run_calls map run_call] in H; [discriminate|].
  destruct (write_all p s) as [[|e1|] s1] eqn:Ew.
  - eapply IH. exact H.
  - inversion H. subst. eapply write_all_err_not_interrupted. exact Ew.
  - discriminate.
Qed.

Section BgzfProofs.
  Variable maxbuf : nat.
  Variable frames : list (list byte).
  Hypothesis maxbuf_pos : 0 < maxbuf.

  (* between operations the staging buffer is never full *)
  Definition binv (st : bw) : Prop := staged st < maxbuf.

  Definition flush_out (st : bw) : list byte :=
    if Nat.eqb (staged st) 0 then [] else frame_at frames (nfl st).
  Definition flush_next (st : bw) : bw :=
    if Nat.eqb (staged st) 0 then st else mkBw 0 (S (nfl st)) (alive st) false.

  Lemma bw_flush_block_post : forall st s,
    match bw_flush_block frames st s with
    | (Ok, st', s') => st' = mkBw 0 (S (nfl st)) (alive st) false /\ ok_post s s' (frame_at frames (nfl st))
    | (Err e, st', s') => err_post s s' e (frame_at frames (nfl st)) /\ e <> e_interrupted
    | (OutOfFuel, _, _) => False
    end.
  Proof.
    intros st s. unfold bw_flush_block.
    pose proof (emit_frame_good (frame_at frames (nfl st)) s) as H.
    destruct (emit_frame (frame_at frames (nfl st)) s) as [[|e|] s1] eqn:Ee.
    - split; [reflexivity|exact H].
    - split; [exact H|].
      unfold emit_frame in Ee. eapply run_writes_err_ni. exact Ee.
    - exact H.
  Qed.

  Lemma bw_flush_post : forall st s,
    match bw_flush frames st s with
    | (Ok, st', s') => st' = flush_next st /\ ok_post s s' (flush_out st)
    | (Err e, st', s') => err_post s s' e (flush_out st) /\ e <> e_interrupted
    | (OutOfFuel, _, _) => False
    end.
  Proof.
    intros st s. unfold bw_flush, flush_out, flush_next.
    destruct (Nat.eqb (staged st) 0).
    - split; [reflexivity|apply ok_post_refl].
    - apply bw_flush_block_post.
  Qed.

  Lemma flush_next_inv : forall st, binv st -> binv (flush_next st).
  Proof.
    intros st H. unfold flush_next. destruct (Nat.eqb (staged st) 0); [exact H|exact maxbuf_pos].
  Qed.

  (* one write() call on the BGZF writer, entered with room in the staging buffer *)
  Lemma bw_write_post : forall n st s, 0 < n -> binv st ->
    let amt := Nat.min (maxbuf - staged st) n in
    let st1 := mkBw (staged st + amt) (nfl st) (alive st) (fin st) in
    0 < amt /\
    match bw_write maxbuf frames n st s with
    | (WOk k, st', s') =>
        k = amt /\
        if Nat.ltb (staged st1) maxbuf then st' = st1 /\ s' = s
        else st' = mkBw 0 (S (nfl st)) (alive st) false /\ ok_post s s' (frame_at frames (nfl st))
    | (WErr e, st', s') =>
        Nat.ltb (staged st1) maxbuf = false /\
        err_post s s' e (frame_at frames (nfl st)) /\ e <> e_interrupted
    end.
  Proof.
    intros n st s Hn Hinv amt st1. unfold binv in Hinv.
    assert (Hamt : 0 < amt) by (subst amt; lia).
    split; [exact Hamt|].
    unfold bw_write. fold amt. fold st1.
    destruct (Nat.ltb (staged st1) maxbuf) eqn:Elt.
    - split; [reflexivity|]. split; reflexivity.
    - pose proof (bw_flush_post st1 s) as Hf.
      unfold flush_next, flush_out in Hf.
      assert (Hnz : Nat.eqb (staged st1) 0 = false).
      { apply Nat.eqb_neq. subst st1. cbn [staged]. lia. }
      rewrite Hnz in Hf. cbn [nfl alive st1] in Hf.
      destruct (bw_flush frames st1 s) as [[[|e|] st2] s2].
      + destruct Hf as [Hst Hok]. split; [reflexivity|]. split; assumption.
      + destruct Hf as [Herr Hne]. split; [reflexivity|]. split; assumption.
      + contradiction.
  Qed.

  (* fault-free effect of write_all(n bytes) on the BGZF writer *)
  Fixpoint wa_spec (fuel n : nat) (st : bw) : list byte * bw :=
    match n with
    | O => ([], st)
    | S _ =>
        match fuel with
        | O => ([], st)
        | S f =>
            let amt := Nat.min (maxbuf - staged st) n in
            let st1 := mkBw (staged st + amt) (nfl st) (alive st) (fin st) in
            if Nat.ltb (staged st1) maxbuf then wa_spec f (n - amt) st1
            else
              let (o, st3) := wa_spec f (n - amt) (mkBw 0 (S (nfl st)) (alive st) false) in
              (frame_at frames (nfl st) ++ o, st3)
        end
    end.

  Lemma bw_write_all_fuel_post : forall fuel n st s, n < fuel -> binv st ->
    match bw_write_all_fuel maxbuf frames fuel n st s with
    | (Ok, st', s') =>
        st' = snd (wa_spec fuel n st) /\ binv st' /\ ok_post s s' (fst (wa_spec fuel n st))
    | (Err e, _, s') => err_post s s' e (fst (wa_spec fuel n st))
    | (OutOfFuel, _, _) => False
    end.
  Proof.
    induction fuel as [|f IH]; intros n st s Hlt Hinv; [lia|].
    destruct n as [|n'].
    - cbn. split; [reflexivity|]. split; [exact Hinv|apply ok_post_refl].
    - cbn [bw_write_all_fuel wa_spec].
      pose proof (bw_write_post (S n') st s (Nat.lt_0_succ n') Hinv) as Hw.
      cbv zeta in Hw. destruct Hw as [Hamt Hw].
      set (amt := Nat.min (maxbuf - staged st) (S n')) in *.
      destruct (bw_write maxbuf frames (S n') st s) as [[[k|e] st1] s1].
      + destruct Hw as [Hk Hw]. subst k.
        destruct amt as [|a] eqn:Ea; [lia|].
        destruct (Nat.ltb (staged st + S a) maxbuf) eqn:Elt; cbn [staged] in Hw; rewrite Elt in Hw;
          cbn [staged]; rewrite Elt.
        * destruct Hw as [Hst Hs]. subst st1 s1.
          apply IH; [lia|]. unfold binv. cbn [staged]. apply Nat.ltb_lt. exact Elt.
        * destruct Hw as [Hst Hok]. subst st1.
          assert (Hinv2 : binv (mkBw 0 (S (nfl st)) (alive st) false)) by exact maxbuf_pos.
          assert (Hlt2 : S n' - S a < f) by lia.
          specialize (IH (S n' - S a) (mkBw 0 (S (nfl st)) (alive st) false) s1 Hlt2 Hinv2).
          destruct (wa_spec f (S n' - S a) (mkBw 0 (S (nfl st)) (alive st) false)) as [o st3].
          destruct (bw_write_all_fuel maxbuf frames f (S n' - S a) (mkBw 0 (S (nfl st)) (alive st) false) s1)
            as [[[|e|] st4] s4]; cbn [fst snd] in *.
          -- destruct IH as [H1 [H2 H3]]. split; [exact H1|]. split; [exact H2|].
             eapply ok_ok; eassumption.
          -- eapply ok_err; eassumption.
          -- exact IH.
      + destruct Hw as [Elt [Herr Hne]]. cbn [staged] in Elt.
        apply N.eqb_neq in Hne. rewrite Hne.
        cbn [staged]. rewrite Elt.
        destruct (wa_spec f (S n' - amt) (mkBw 0 (S (nfl st)) (alive st) false)) as [o st3].
        cbn [fst]. apply err_weaken. exact Herr.
  Qed.

  Definition wa_out (n : nat) (st : bw) : list byte := fst (wa_spec (S n) n st).
  Definition wa_next (n : nat) (st : bw) : bw := snd (wa_spec (S n) n st).

  (* try_finish writes the EOF block unless one already terminates the stream *)
  Definition tf_out (st : bw) : list byte :=
    flush_out st ++ (if fin (flush_next st) then [] else BGZF_EOF).
  Definition tf_next (st : bw) : bw :=
    mkBw (staged (flush_next st)) (nfl (flush_next st)) (alive (flush_next st)) true.

  Lemma bw_try_finish_post : forall st s,
    match bw_try_finish frames st s with
    | (Ok, st', s') => st' = tf_next st /\ ok_post s s' (tf_out st)
    | (Err e, _, s') => err_post s s' e (tf_out st)
    | (OutOfFuel, _, _) => False
    end.
  Proof.
    intros st s. unfold bw_try_finish, tf_out, tf_next. pose proof (bw_flush_post st s) as Hf.
    destruct (bw_flush frames st s) as [[[|e|] st1] s1].
    - destruct Hf as [Hst Hok]. subst st1.
      destruct (fin (flush_next st)) eqn:Ef.
      + rewrite app_nil_r. split; [|exact Hok].
        destruct (flush_next st) as [a b c d]. cbn in *. subst d. reflexivity.
      + pose proof (write_all_good BGZF_EOF s1) as Hw.
        destruct (write_all BGZF_EOF s1) as [[|e|] s2].
        * split; [reflexivity|]. eapply ok_ok; eassumption.
        * eapply ok_err; eassumption.
        * exact Hw.
    - destruct Hf as [Herr _]. apply err_weaken. exact Herr.
    - exact Hf.
  Qed.

  (* fault-free specification of the four operations *)
  Definition bop_spec (o : bop) : spec bw :=
    match o with
    | BWriteAll n =>
        mkSpec (fun st => if alive st then wa_out n st else [])
               (fun st => if alive st then wa_next n st else st)
    | BFlush =>
        mkSpec (fun st => if alive st then flush_out st else [])
               (fun st => if alive st then flush_next st else st)
    | BTryFinish =>
        mkSpec (fun st => if alive st then tf_out st else [])
               (fun st => if alive st then tf_next st else st)
    | BFinish =>
        mkSpec (fun st => if alive st then tf_out st else [])
               (fun st => if alive st
                          then mkBw (staged (tf_next st)) (nfl (tf_next st)) false (fin (tf_next st))
                          else st)
    end.

  Lemma bw_exec_good : forall o, sgood binv (bop_spec o) (bw_exec maxbuf frames o).
  Proof.
    intros o st s Hinv. unfold bw_exec.
    destruct (alive st) eqn:Ea.
    - destruct o as [n| | |]; cbn [bop_spec sp_out sp_next]; rewrite Ea.
      + unfold bw_write_all, wa_out, wa_next.
        exact (bw_write_all_fuel_post (S n) n st s (Nat.lt_succ_diag_r n) Hinv).
      + pose proof (bw_flush_post st s) as H.
        destruct (bw_flush frames st s) as [[[|e|] st1] s1].
        * destruct H as [H1 H2]. split; [exact H1|]. split; [|exact H2].
          rewrite H1. apply flush_next_inv. exact Hinv.
        * tauto.
        * exact H.
      + pose proof (bw_try_finish_post st s) as H.
        destruct (bw_try_finish frames st s) as [[[|e|] st1] s1].
        * destruct H as [H1 H2]. split; [exact H1|]. split; [|exact H2].
          rewrite H1. exact (flush_next_inv st Hinv).
        * exact H.
        * exact H.
      + unfold bw_finish. pose proof (bw_try_finish_post st s) as H.
        destruct (bw_try_finish frames st s) as [[[|e|] st1] s1].
        * destruct H as [H1 H2]. rewrite H1. split; [reflexivity|]. split; [|exact H2].
          exact (flush_next_inv st Hinv).
        * exact H.
        * exact H.
    - destruct o; cbn [bop_spec sp_out sp_next]; rewrite Ea;
        (split; [reflexivity|]; split; [exact Hinv|apply ok_post_refl]).
  Qed.

  Lemma bw_good_all : forall ops,
    Forall2 (sgood binv) (map bop_spec ops) (map (bw_exec maxbuf frames) ops).
  Proof.
    induction ops as [|o t IH]; cbn; constructor; [apply bw_exec_good|exact IH].
  Qed.

  Lemma bw_init_inv : binv bw_init.
  Proof. exact maxbuf_pos. Qed.

  (* what the operations write on a sink that never fails, and the state they leave *)
  Definition bw_ideal_out (ops : list bop) : list byte := ideal_out (map bop_spec ops) bw_init.
  Definition bw_ideal_state (ops : list bop) : bw := ideal_state (map bop_spec ops) bw_init.

  Theorem bw_ideal : forall ops,
    let '(rs, st', s') := bw_run_ops maxbuf frames ops ideal_sink in
    rs = repeat Ok (length ops) /\ st' = bw_ideal_state ops /\ sbytes s' = bw_ideal_out ops.
  Proof.
    intros ops. unfold bw_run_ops.
    pose proof (srun_ideal _ _ _ _ (bw_good_all ops) bw_init bw_init_inv) as H.
    destruct (srun (map (bw_exec maxbuf frames) ops) bw_init ideal_sink) as [[rs st'] s'].
    rewrite map_length in H. exact H.
  Qed.

  Theorem bw_all_ok_complete : forall ops s rs st' s',
    bw_run_ops maxbuf frames ops s = (rs, st', s') -> Forall (fun r => r = Ok) rs ->
    length rs = length ops /\ st' = bw_ideal_state ops /\ sbytes s' = sbytes s ++ bw_ideal_out ops.
  Proof.
    intros ops s rs st' s' Hrun Hall.
    destruct (srun_all_ok_complete _ _ _ _ (bw_good_all ops) bw_init s rs st' s' bw_init_inv Hrun Hall)
      as [H1 [H2 H3]].
    rewrite map_length in H1. repeat split; assumption.
  Qed.

  Theorem bw_failure_reported : forall ops s rs st' s' c e,
    bw_run_ops maxbuf frames ops s = (rs, st', s') ->
    sscript s = c ++ sscript s' -> In (Fail e) c -> e <> e_interrupted ->
    In (Err e) rs /\ exists j, rs = repeat Ok j ++ [Err e].
  Proof.
    intros ops s rs st' s' c e Hrun Hc Hin Hne.
    exact (srun_failure_reported _ _ _ _ (bw_good_all ops) bw_init s rs st' s' c e bw_init_inv Hrun Hc Hin Hne).
  Qed.

  Theorem bw_short_write_invariant : forall ops s rs st' s',
    bw_run_ops maxbuf frames ops s = (rs, st', s') -> no_fail (sscript s) ->
    rs = repeat Ok (length ops) /\ st' = bw_ideal_state ops /\ sbytes s' = sbytes s ++ bw_ideal_out ops.
  Proof.
    intros ops s rs st' s' Hrun Hnf.
    destruct (srun_short_write_invariant _ _ _ _ (bw_good_all ops) bw_init s rs st' s' bw_init_inv Hrun Hnf)
      as [H1 [H2 H3]].
    rewrite map_length in H1. repeat split; assumption.
  Qed.

  Theorem bw_prefix : forall ops s rs st' s',
    bw_run_ops maxbuf frames ops s = (rs, st', s') ->
    exists p, sbytes s' = sbytes s ++ p /\ prefix p (bw_ideal_out ops).
  Proof.
    intros ops s rs st' s' Hrun.
    exact (srun_prefix _ _ _ _ (bw_good_all ops) bw_init s rs st' s' bw_init_inv Hrun).
  Qed.

  (* Drop of a writer that still owns its sink: the staged block (if any) then the EOF block *)
  Definition drop_out (st : bw) : list byte :=
    if alive st then tf_out st else [].

  Theorem bw_drop_emits : forall st s,
    no_fail (sscript s) ->
    let (st', s') := bw_drop frames st s in
    sbytes s' = sbytes s ++ drop_out st /\ no_fail (sscript s').
  Proof.
    intros st s Hnf. unfold bw_drop, drop_out. destruct (alive st).
    - pose proof (bw_try_finish_post st s) as H.
      destruct (bw_try_finish frames st s) as [[[|e|] st1] s1].
      + destruct H as [_ [Hb [c [Hs _]]]]. split; [exact Hb|].
        unfold no_fail in *. rewrite Hs in Hnf. apply Forall_app in Hnf. tauto.
      + exfalso. destruct H as [p [c [_ [_ [Hs _]]]]].
        unfold no_fail in Hnf. rewrite Forall_forall in Hnf.
        apply (Hnf (Fail e)) with (e := e); [|reflexivity].
        rewrite Hs. apply in_or_app. right. left. reflexivity.
      + contradiction.
    - split; [rewrite app_nil_r; reflexivity|exact Hnf].
  Qed.

  (* the whole life (operations, then Drop) on a sink that only writes short / interrupts *)
  Definition bw_life_out (ops : list bop) : list byte :=
    bw_ideal_out ops ++ drop_out (bw_ideal_state ops).

  Theorem bw_life_short_write : forall ops s rs s',
    bw_run maxbuf frames ops s = (rs, s') -> no_fail (sscript s) ->
    rs = repeat Ok (length ops) /\ sbytes s' = sbytes s ++ bw_life_out ops.
  Proof.
    intros ops s rs s' Hrun Hnf. unfold bw_run in Hrun.
    destruct (bw_run_ops maxbuf frames ops s) as [[rs0 st0] s0] eqn:Eo.
    destruct (bw_short_write_invariant ops s rs0 st0 s0 Eo Hnf) as [Hrs [Hst Hb]].
    assert (Hnf0 : no_fail (sscript s0)).
    { pose proof (srun_shape _ _ _ _ (bw_good_all ops) bw_init s bw_init_inv) as Hsh.
      unfold bw_run_ops in Eo. rewrite Eo in Hsh.
      destruct Hsh as [[_ [_ [_ [_ [c [Hs _]]]]]]|[j [e [_ [Hr _]]]]].
      - unfold no_fail in *. rewrite Hs in Hnf. apply Forall_app in Hnf. tauto.
      - exfalso. rewrite Hr in Hrs.
        assert (Hin : In (Err e) (repeat Ok (length ops))).
        { rewrite <- Hrs. apply in_or_app. right. left. reflexivity. }
        exact (repeat_ok_no_err _ _ Hin). }
    pose proof (bw_drop_emits st0 s0 Hnf0) as Hd.
    destruct (bw_drop frames st0 s0) as [st1 s1]. destruct Hd as [Hd _].
    inversion Hrun. subst rs s'. split; [exact Hrs|].
    rewrite Hd, Hb, Hst. unfold bw_life_out. rewrite app_assoc. reflexivity.
  Qed.

  (* ... hence byte-identical to the same life on the sink that never fails *)
  Corollary bw_life_short_write_invariant : forall ops s rs s',
    bw_run maxbuf frames ops s = (rs, s') -> no_fail (sscript s) ->
    rs = repeat Ok (length ops) /\
    sbytes s' = sbytes s ++ sbytes (snd (bw_run maxbuf frames ops ideal_sink)).
  Proof.
    intros ops s rs s' Hrun Hnf.
    destruct (bw_life_short_write ops s rs s' Hrun Hnf) as [Hrs Hb]. split; [exact Hrs|].
    destruct (bw_run maxbuf frames ops ideal_sink) as [rsi si] eqn:Ei.
    assert (Hnfi : no_fail (sscript ideal_sink)) by constructor.
    destruct (bw_life_short_write ops ideal_sink rsi si Ei Hnfi) as [_ Hbi].
    cbn [snd]. rewrite Hbi. cbn [sbytes ideal_sink app]. exact Hb.
  Qed.

  (* a life whose last call is try_finish() or finish(self): Drop has nothing left to write, so
     "every call returned Ok" does mean that the sink holds exactly the fault-free file *)
  Lemma ideal_state_app : forall (sps1 sps2 : list (spec bw)) st,
    ideal_state (sps1 ++ sps2) st = ideal_state sps2 (ideal_state sps1 st).
  Proof. induction sps1 as [|sp t IH]; intros sps2 st; cbn; [reflexivity|apply IH]. Qed.

  Lemma flush_next_staged : forall st, staged (flush_next st) = 0.
  Proof.
    intros st. unfold flush_next. destruct (Nat.eqb (staged st) 0) eqn:E; [|reflexivity].
    apply Nat.eqb_eq. exact E.
  Qed.

  Lemma bw_drop_finished : forall st s,
    alive st = false \/ (staged st = 0 /\ fin st = true) -> snd (bw_drop frames st s) = s.
  Proof.
    intros st s H. unfold bw_drop. destruct (alive st) eqn:Ea; [|reflexivity].
    destruct H as [H|[Hs Hf]]; [discriminate|].
    unfold bw_try_finish, bw_flush. rewrite Hs. cbn [Nat.eqb]. rewrite Hf. reflexivity.
  Qed.

  Theorem bw_finished_life_complete : forall ops o s rs s',
    o = BTryFinish \/ o = BFinish ->
    bw_run maxbuf frames (ops ++ [o]) s = (rs, s') -> Forall (fun r => r = Ok) rs ->
    sbytes s' = sbytes s ++ bw_ideal_out (ops ++ [o]).
  Proof.
    intros ops o s rs s' Ho Hrun Hall. unfold bw_run in Hrun.
    destruct (bw_run_ops maxbuf frames (ops ++ [o]) s) as [[rs0 st0] s0] eqn:Eo.
    pose proof (bw_drop_finished st0 s0) as Hd.
    destruct (bw_drop frames st0 s0) as [st1 s1]. cbn [snd] in Hd.
    inversion Hrun. subst rs0 s1.
    destruct (bw_all_ok_complete _ s rs st0 s0 Eo Hall) as [_ [Hst Hb]].
    rewrite Hd; [exact Hb|].
    rewrite Hst. unfold bw_ideal_state. rewrite map_app, ideal_state_app.
    set (stx := ideal_state (map bop_spec ops) bw_init).
    destruct Ho as [Ho|Ho]; subst o; cbn [map ideal_state bop_spec sp_next];
      destruct (alive stx) eqn:Ea.
    - right. unfold tf_next. cbn [staged fin]. split; [apply flush_next_staged|reflexivity].
    - left. exact Ea.
    - left. reflexivity.
    - left. exact Ea.
  Qed.
End BgzfProofs.
