(* C14 — bgzf::io::MultithreadedWriter over a faulty sink.

   noodles-bgzf/src/io/multithreaded_writer.rs as an instance of the ticket pipeline NV.Io.Sched
   (owned by C03, imported read-only), with the sink of NV.Sinks.Sink (fault scripts with
   Full / Short / Interrupted / Fail events) in the consumer:

     application thread   write()/flush() are line for line the staging logic of the
                          single-threaded Writer::write/flush, with send() in place of
                          flush_block(); the blocks it submits are therefore the frames the
                          single-threaded writer emits on a sink that never fails, and their
                          number is computed with [bw_run_ops] on [ideal_sink];
     pool task i          compress block i -> [frame_at frames i] (DEFLATE is not modelled: the
                          frames are opaque byte lists handed in from outside);
     writer thread        spawn_writer: for each ticket in submission order, wait for its result,
                          write_frame = 14 write_all calls ([emit_frame]); the first Err ends the
                          thread with that Err; when the channel is closed and drained it appends
                          BGZF_EOF with one write_all and returns Ok;
     finish()/send()      the thread's io::Result is what finish_inner() returns: from finish(),
                          or from the write()/flush() whose send() found the channel closed.
   The completion order of the pool tasks and every other scheduling choice is an explicit list of
   [act]ions; the theorems in MtProofs quantify over all of them. *)
From Coq Require Import List NArith Arith Bool.
From NV Require Import Sinks.Sink Io.Sched.
Import ListNotations.

(* the writer thread: its sink and the io::Result it has so far *)
Record mtc := mkMtc { mt_sink : sink; mt_res : res }.

Definition mtc_stopped (c : mtc) : bool := match mt_res c with Ok => false | _ => true end.

(* write_frame(&mut writer, ...)? *)
Definition mtc_step (c : mtc) (fr : list byte) : mtc :=
  if mtc_stopped c then c
  else let (r, s1) := emit_frame fr (mt_sink c) in mkMtc s1 r.

(* after the loop: writer.write_all(&BGZF_EOF)?; Ok(writer) *)
Definition mtc_finish (c : mtc) : mtc :=
  if mtc_stopped c then c
  else let (r, s1) := write_all BGZF_EOF (mt_sink c) in mkMtc s1 r.

(* operations of the application thread before finish() *)
Inductive mop := MWriteAll (n : nat) | MFlush.

Definition mop_bop (o : mop) : bop :=
  match o with MWriteAll n => BWriteAll n | MFlush => BFlush end.

(* number of blocks submitted by the operations followed by finish() (= flush + join) *)
Definition mt_nblocks (maxbuf : nat) (ops : list mop) : nat :=
  let '(_, st, _) := bw_run_ops maxbuf [] (map mop_bop ops ++ [BFlush]) ideal_sink in nfl st.

Section Mt.
  Variable P : nat.                      (* rayon::current_num_threads() *)
  Variable maxbuf : nat.
  Variable frames : list (list byte).

  (* write_tx is bounded(P); the writer thread holds one more ticket outside the channel *)
  Definition mt_can_submit (n : nat) (h : bool) : bool := n <? P.
  Definition mt_ready (i : nat) : bool := false.      (* every block gets a compress task *)

  Definition mt_init (s : sink) (ops : list mop) : st nat mtc :=
    init (mkMtc s Ok) (seq 0 (mt_nblocks maxbuf ops)).

  Definition mt_step : st nat mtc -> act -> st nat mtc :=
    step (frame_at frames) mt_ready mtc_step mtc_stopped mt_can_submit P.

  Definition mt_state (ops : list mop) (sched : list act) (s : sink) : st nat mtc :=
    fold_left mt_step sched (mt_init s ops).

  Definition mt_final (x : st nat mtc) : bool := final mtc_stopped x.

  (* the Result that finish() (or the write/flush that noticed the dead writer thread) returns,
     and the sink *)
  Definition mt_result (x : st nat mtc) : res * sink :=
    let c := mtc_finish (cs x) in (mt_res c, mt_sink c).

  Definition mt_life (ops : list mop) (sched : list act) (s : sink) : res * sink :=
    mt_result (mt_state ops sched s).

  (* ---- two executable strategies (for the correspondence check) ---- *)
  Definition mt_pick_fifo : st nat mtc -> act := default_pick mtc_stopped mt_can_submit P.

  (* the opposite extreme: submit and start as much as the window allows, complete the most
     recently started task first, let the writer thread run only when nothing else can *)
  Definition mt_pick_lifo (x : st nat mtc) : act :=
    let en := enabled mtc_stopped mt_can_submit P x in
    if en Submit then Submit
    else if en Start then Start
    else match rev (running x) with
         | t :: _ => Complete t
         | [] => mt_pick_fifo x
         end.

  Definition mt_iter (pick : st nat mtc -> act) (n : nat) (x : st nat mtc) : st nat mtc :=
    iter (frame_at frames) mt_ready mtc_step mtc_stopped mt_can_submit P pick n x.

  (* None = the strategy did not reach a final state (excluded for FIFO by
     SchedProofs.pipeline_terminates_default) *)
  Definition mt_model (lifo : bool) (ops : list mop) (s : sink) : option (res * sink) :=
    let n := mt_nblocks maxbuf ops in
    let x := mt_iter (if lifo then mt_pick_lifo else mt_pick_fifo) (5 * n) (mt_init s ops) in
    if mt_final x then Some (mt_result x) else None.
End Mt.

(* the calls of the same life done sequentially: every frame's 14 pieces, then the EOF block *)
Definition mt_calls (maxbuf : nat) (frames : list (list byte)) (ops : list mop) : list call :=
  map CWrite (concat (map (fun i => frame_pieces (frame_at frames i)) (seq 0 (mt_nblocks maxbuf ops)))
              ++ [BGZF_EOF]).

Definition mt_out (maxbuf : nat) (frames : list (list byte)) (ops : list mop) : list byte :=
  concat (map (frame_at frames) (seq 0 (mt_nblocks maxbuf ops))) ++ BGZF_EOF.
