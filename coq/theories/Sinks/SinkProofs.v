(* C14 — proofs about NV.Sinks.Sink. *)
From Coq Require Import List NArith Arith Bool Lia.
From NV Require Import Sinks.Sink.
Import ListNotations.

(* ------------------------------------------------------------------------------------- *)
(* Vocabulary. *)

(* an event that no write_all ever reports: everything but a Fail of a kind other than
   Interrupted *)
Definition benign_ev (f : fault) : Prop := forall e, f = Fail e -> e = e_interrupted.
Definition benign (c : list fault) : Prop := Forall benign_ev c.

Definition prefix (p l : list byte) : Prop := exists q, l = p ++ q.

(* the operation succeeded: exactly [out] was appended, only benign events were consumed *)
Definition ok_post (s s' : sink) (out : list byte) : Prop :=
  sbytes s' = sbytes s ++ out /\ exists c, sscript s = c ++ sscript s' /\ benign c.

(* the operation failed with e: the last consumed event is Fail e, the events before it are
   benign, and what was appended is a prefix of what the operation would have written *)
Definition err_post (s s' : sink) (e : errk) (out : list byte) : Prop :=
  exists p c, sbytes s' = sbytes s ++ p /\ prefix p out /\
              sscript s = c ++ Fail e :: sscript s' /\ benign c.

Lemma prefix_nil : forall l, prefix [] l.
Proof. intros l. exists l. reflexivity. Qed.

Lemma prefix_refl : forall l, prefix l l.
Proof. intros l. exists []. rewrite app_nil_r. reflexivity. Qed.

Lemma prefix_app_r : forall p l m, prefix p l -> prefix p (l ++ m).
Proof. intros p l m [q Hq]. exists (q ++ m). rewrite Hq, app_assoc. reflexivity. Qed.

Lemma prefix_app_l : forall a p l, prefix p l -> prefix (a ++ p) (a ++ l).
Proof. intros a p l [q Hq]. exists q. rewrite Hq, app_assoc. reflexivity. Qed.

Lemma benign_app : forall a b, benign a -> benign b -> benign (a ++ b).
Proof. intros a b Ha Hb. apply Forall_app. split; assumption. Qed.

Lemma ok_post_refl : forall s, ok_post s s [].
Proof.
  intros s. split; [rewrite app_nil_r; reflexivity|].
  exists []. split; [reflexivity|constructor].
Qed.

Lemma ok_ok : forall s s1 s2 o1 o2,
  ok_post s s1 o1 -> ok_post s1 s2 o2 -> ok_post s s2 (o1 ++ o2).
Proof.
  intros s s1 s2 o1 o2 [Hb1 [c1 [Hs1 Hc1]]] [Hb2 [c2 [Hs2 Hc2]]].
  split.
  - rewrite Hb2, Hb1, app_assoc. reflexivity.
  - exists (c1 ++ c2). split.
    + rewrite Hs1, Hs2, app_assoc. reflexivity.
    + apply benign_app; assumption.
Qed.

Lemma ok_err : forall s s1 s2 o1 o2 e,
  ok_post s s1 o1 -> err_post s1 s2 e o2 -> err_post s s2 e (o1 ++ o2).
Proof.
  intros s s1 s2 o1 o2 e [Hb1 [c1 [Hs1 Hc1]]] [p [c2 [Hb2 [Hp [Hs2 Hc2]]]]].
  exists (o1 ++ p), (c1 ++ c2). repeat split.
  - rewrite Hb2, Hb1, app_assoc. reflexivity.
  - apply prefix_app_l. exact Hp.
  - rewrite Hs1, Hs2, app_assoc. reflexivity.
  - apply benign_app; assumption.
Qed.

Lemma err_weaken : forall s s1 e o1 o2, err_post s s1 e o1 -> err_post s s1 e (o1 ++ o2).
Proof.
  intros s s1 e o1 o2 [p [c [Hb [Hp [Hs Hc]]]]].
  exists p, c. repeat split; try assumption. apply prefix_app_r. exact Hp.
Qed.

(* the specification of a plain (stateless) computation over the sink *)
Definition good (out : list byte) (a : sink -> res * sink) : Prop :=
  forall s,
    match a s with
    | (Ok, s') => ok_post s s' out
    | (Err e, s') => err_post s s' e out
    | (OutOfFuel, _) => False
    end.

(* ------------------------------------------------------------------------------------- *)
(* write_all. *)

Lemma next_event_script : forall s ev rest,
  next_event s = (ev, rest) ->
  (sscript s = [] /\ ev = Full /\ rest = []) \/ sscript s = ev :: rest.
Proof.
  intros s ev rest H. unfold next_event in H. destruct (sscript s) as [|x t].
  - left. inversion H. auto.
  - right. inversion H. reflexivity.
Qed.

Lemma write_all_fuel_good : forall fuel s buf,
  length (sscript s) < fuel ->
  match write_all_fuel fuel s buf with
  | (Ok, s') => ok_post s s' buf
  | (Err e, s') => err_post s s' e buf /\ e <> e_interrupted
  | (OutOfFuel, _) => False
  end.
Proof.
  induction fuel as [|f IH]; intros s buf Hlen; [lia|].
  destruct buf as [|b0 bt].
  - cbn [write_all_fuel]. apply ok_post_refl.
  - cbn [write_all_fuel]. unfold sink_write.
    destruct (next_event s) as [ev rest] eqn:Hev.
    apply next_event_script in Hev.
    assert (Hrest : length rest < f \/ (f = 0 /\ sscript s = [] /\ ev = Full /\ rest = [])).
    { destruct Hev as [[H1 [H2 H3]]|H1].
      - destruct f; [right; auto|left; subst rest; cbn; lia].
      - left. rewrite H1 in Hlen. cbn in Hlen. lia. }
    (* the consumed event, as a script fragment *)
    assert (Hcons : sscript s = rest \/ sscript s = ev :: rest).
    { destruct Hev as [[H1 [H2 H3]]|H1]; [left; congruence|right; exact H1]. }
    destruct ev as [|k| |e].
    + (* Full *)
      cbn [length]. set (s1 := mkSink _ _ _).
      assert (Hsk : skipn (S (length bt)) (b0 :: bt) = []).
      { apply skipn_all2. cbn. lia. }
      rewrite Hsk. destruct f; cbn [write_all_fuel];
      (split; [reflexivity|]);
      (destruct Hcons as [Hc|Hc];
       [exists []; split; [exact Hc|constructor]
       |exists [Full]; split; [exact Hc|repeat constructor; intros e He; discriminate]]).
    + (* Short k *)
      set (n := Nat.min (Nat.max k 1) (length (b0 :: bt))).
      assert (Hn : 1 <= n) by (subst n; cbn [length]; lia).
      destruct n as [|n'] eqn:En; [lia|].
      set (s1 := mkSink _ _ _).
      destruct Hrest as [Hr|[_ [_ [Hd _]]]]; [|discriminate].
      specialize (IH s1 (skipn (S n') (b0 :: bt)) Hr).
      destruct (write_all_fuel f s1 (skipn (S n') (b0 :: bt))) as [[|e|] s2].
      * destruct IH as [Hb [c [Hs Hc]]]. split.
        -- rewrite Hb. cbn [sbytes s1]. rewrite <- app_assoc, firstn_skipn. reflexivity.
        -- destruct Hcons as [Hc0|Hc0].
           ++ exists c. split; [rewrite Hc0; exact Hs|exact Hc].
           ++ exists (Short k :: c). split; [rewrite Hc0; cbn; f_equal; exact Hs|].
              constructor; [intros e He; discriminate|exact Hc].
      * destruct IH as [[p [c [Hb [Hp [Hs Hc]]]]] Hne]. split; [|exact Hne].
        exists (firstn (S n') (b0 :: bt) ++ p).
        destruct Hcons as [Hc0|Hc0].
        -- exists c. repeat split.
           ++ rewrite Hb. cbn [sbytes s1]. rewrite <- app_assoc. reflexivity.
           ++ rewrite <- (firstn_skipn (S n') (b0 :: bt)) at 2. apply prefix_app_l. exact Hp.
           ++ rewrite Hc0. exact Hs.
           ++ exact Hc.
        -- exists (Short k :: c). repeat split.
           ++ rewrite Hb. cbn [sbytes s1]. rewrite <- app_assoc. reflexivity.
           ++ rewrite <- (firstn_skipn (S n') (b0 :: bt)) at 2. apply prefix_app_l. exact Hp.
           ++ rewrite Hc0. cbn. f_equal. exact Hs.
           ++ constructor; [intros e' He; discriminate|exact Hc].
      * exact IH.
    + (* Interrupted *)
      cbn [N.eqb e_interrupted]. set (s1 := mkSink _ _ _).
      destruct Hrest as [Hr|[_ [_ [Hd _]]]]; [|discriminate].
      destruct Hcons as [Hc0|Hc0].
      { (* impossible: the script was empty, so the event would be Full *)
        destruct Hev as [[_ [Hd _]]|H1]; [discriminate|].
        rewrite H1 in Hc0. exfalso.
        assert (Hl : length (Interrupted :: rest) = length rest) by (rewrite Hc0; reflexivity).
        cbn in Hl. lia. }
      specialize (IH s1 (b0 :: bt) Hr).
      destruct (write_all_fuel f s1 (b0 :: bt)) as [[|e|] s2].
      * destruct IH as [Hb [c [Hs Hc]]]. split; [exact Hb|].
        exists (Interrupted :: c). split; [rewrite Hc0; cbn; f_equal; exact Hs|].
        constructor; [intros e He; discriminate|exact Hc].
      * destruct IH as [[p [c [Hb [Hp [Hs Hc]]]]] Hne]. split; [|exact Hne].
        exists p, (Interrupted :: c). repeat split; try assumption.
        -- rewrite Hc0. cbn. f_equal. exact Hs.
        -- constructor; [intros e' He; discriminate|exact Hc].
      * exact IH.
    + (* Fail e *)
      set (s1 := mkSink _ _ _).
      destruct Hrest as [Hr|[_ [_ [Hd _]]]]; [|discriminate].
      destruct Hcons as [Hc0|Hc0].
      { destruct Hev as [[_ [Hd _]]|H1]; [discriminate|].
        rewrite H1 in Hc0. exfalso.
        assert (Hl : length (Fail e :: rest) = length rest) by (rewrite Hc0; reflexivity).
        cbn in Hl. lia. }
      destruct (N.eqb e e_interrupted) eqn:Ee.
      * apply N.eqb_eq in Ee.
        specialize (IH s1 (b0 :: bt) Hr).
        destruct (write_all_fuel f s1 (b0 :: bt)) as [[|e'|] s2].
        -- destruct IH as [Hb [c [Hs Hc]]]. split; [exact Hb|].
           exists (Fail e :: c). split; [rewrite Hc0; cbn; f_equal; exact Hs|].
           constructor; [intros e' He; injection He as He'; rewrite <- He'; exact Ee|exact Hc].
        -- destruct IH as [[p [c [Hb [Hp [Hs Hc]]]]] Hne]. split; [|exact Hne].
           exists p, (Fail e :: c). repeat split; try assumption.
           ++ rewrite Hc0. cbn. f_equal. exact Hs.
           ++ constructor; [intros e'' He; injection He as He'; rewrite <- He'; exact Ee|exact Hc].
        -- exact IH.
      * apply N.eqb_neq in Ee. split; [|exact Ee].
        exists [], []. repeat split.
        -- cbn. rewrite app_nil_r. reflexivity.
        -- apply prefix_nil.
        -- exact Hc0.
        -- constructor.
Qed.

Lemma write_all_good : forall buf, good buf (write_all buf).
Proof.
  intros buf s. unfold write_all.
  pose proof (write_all_fuel_good (S (length (sscript s))) s buf (Nat.lt_succ_diag_r _)) as H.
  destruct (write_all_fuel (S (length (sscript s))) s buf) as [[|e|] s']; tauto.
Qed.

Lemma write_all_err_not_interrupted : forall buf s e s',
  write_all buf s = (Err e, s') -> e <> e_interrupted.
Proof.
  intros buf s e s' H. unfold write_all in H.
  pose proof (write_all_fuel_good (S (length (sscript s))) s buf (Nat.lt_succ_diag_r _)) as G.
  rewrite H in G. tauto.
Qed.
