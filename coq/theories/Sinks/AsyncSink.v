(* C14 — async writers over a faulty tokio AsyncWrite destination.

   The destination is the bytes it has accepted plus a poll script; every poll of
   AsyncWrite::poll_write consumes one event (harness/src/shared/c14_deep4.rs::AFaultySink):
     APending    Poll::Pending (the waker is called, the task polls again)
     AAccept k   Poll::Ready(Ok(min (max k 1) len))
     AErr e      Poll::Ready(Err(kind e)), nothing accepted
   An exhausted script accepts the whole buffer.  (NV.Async.WriteAll, C16's, has the first two
   events and proves content under partial writes; this model adds errors.)

   tokio::io::AsyncWriteExt::write_all (tokio/src/io/util/write_all.rs):
     while !buf.is_empty() { let n = ready!(poll_write(cx, buf))?;
                             (advance buf by n); if n == 0 { return Err(WriteZero) } }
   -- every Err is returned, ErrorKind::Interrupted included (unlike std's write_all); an empty
   buffer is not polled at all.  Each poll consumes one event, so the loop is written by recursion
   on the script.

   noodles-fastq/src/async/io/writer.rs::write_record is a `?`-chain of such calls:
     "@" name [" " description] "\n" sequence "\n" "+" "\n" quality_scores "\n". *)
From Coq Require Import List NArith Arith Bool.
From NV Require Import Sinks.Sink.
Import ListNotations.

Inductive aevent := APending | AAccept (k : nat) | AErr (e : errk).

Record asink := mkAs { as_bytes : list byte; as_script : list aevent; as_polls : nat }.

Fixpoint as_write_all_from (script : list aevent) (bytes : list byte) (polls : nat) (buf : list byte)
  : res * asink :=
  match buf with
  | [] => (Ok, mkAs bytes script polls)
  | _ :: _ =>
      match script with
      | [] => (Ok, mkAs (bytes ++ buf) [] (S polls))
      | APending :: p => as_write_all_from p bytes (S polls) buf
      | AAccept k :: p =>
          let n := Nat.min (Nat.max k 1) (length buf) in
          if Nat.eqb n 0 then (Err e_write_zero, mkAs bytes p (S polls))
          else as_write_all_from p (bytes ++ firstn n buf) (S polls) (skipn n buf)
      | AErr e :: p => (Err e, mkAs bytes p (S polls))
      end
  end.

Definition as_write_all (buf : list byte) (s : asink) : res * asink :=
  as_write_all_from (as_script s) (as_bytes s) (as_polls s) buf.

(* a `?`-chain of write_all(..).await calls: one operation of an async writer *)
Fixpoint as_chain (bufs : list (list byte)) (s : asink) : res * asink :=
  match bufs with
  | [] => (Ok, s)
  | b :: t =>
      let (r, s1) := as_write_all b s in
      match r with Ok => as_chain t s1 | _ => (r, s1) end
  end.

(* the operations of a life, the caller stopping at the first Err *)
Fixpoint as_run (ops : list (list (list byte))) (s : asink) : list res * asink :=
  match ops with
  | [] => ([], s)
  | o :: t =>
      let (r, s1) := as_chain o s in
      match r with
      | Ok => let (rs, s2) := as_run t s1 in (Ok :: rs, s2)
      | _ => ([r], s1)
      end
  end.

Definition as_out (ops : list (list (list byte))) : list byte := concat (map (@concat byte) ops).

(* ---- the async FASTQ writer ---- *)
Record fq_record := mkFq { fq_name : list byte; fq_desc : list byte; fq_seq : list byte; fq_qual : list byte }.

Definition LF : list byte := [10%N].

Definition fq_calls (r : fq_record) : list (list byte) :=
  [[64%N]; fq_name r]
  ++ (match fq_desc r with [] => [] | _ :: _ => [[32%N]; fq_desc r] end)
  ++ [LF; fq_seq r; LF; [43%N]; LF; fq_qual r; LF].

Definition fq_text (r : fq_record) : list byte := concat (fq_calls r).

Definition afq_run (recs : list fq_record) (s : asink) : list res * asink :=
  as_run (map fq_calls recs) s.
