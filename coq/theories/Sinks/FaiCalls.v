(* C14 wave 10 -- fai::io::Writer::write_index as the sequence of write_all calls it makes.

   noodles-fasta/src/fai/io/writer.rs: write_index = `for record in index { write_record(&mut
   self.inner, record)?; }`; writer/record.rs: write_record =
       writer.write_all(record.name())?;
       writeln!(writer, "\t{length}\t{offset}\t{line_base_count}\t{line_width}")
   io::Write::write_fmt drives core::fmt::write over an adapter whose write_str is
   `inner.write_all(s.as_bytes())` and which stops at (and returns) the first io::Error: one
   write_all per literal piece ("\t" x 4, "\n") and one per integer (u64 / NonZero<u64> Display
   without flags = pad_integral = one write_str of the digits).  So a record is the `?`-chain of TEN
   write_all calls below; a write_all of an empty name makes no call on the destination (std
   write_all loops `while !buf.is_empty()`, the model's write_all does the same).
   The BYTES are C17's NV.Index.TextIndex.w_fai (imported read-only); the encoder has no error of
   its own (no IE step).  [ix_run] / [icall] are NV.Sinks.IndexCalls'. *)
From Coq Require Import List NArith Arith Bool.
From NV Require Import Base.Decimal Index.TextIndex Sinks.Sink Sinks.IndexCalls.
Import ListNotations.
Close Scope N_scope.

Definition c_fai_rec (r : fai_rec) : list icall :=
  [ IW (f_name r);
    IW [TAB]; IW (fmt_N (f_len r));
    IW [TAB]; IW (fmt_N (f_pos r));
    IW [TAB]; IW (fmt_N (f_lb r));
    IW [TAB]; IW (fmt_N (f_lw r));
    IW [LF] ].

Definition c_fai (l : list fai_rec) : list icall := concat (map c_fai_rec l).

Definition fai_write_index (l : list fai_rec) (s : sink) : res * sink := ix_run (c_fai l) s.
