(* Proofs about NV.CramIdx.Gz (C19): the gzip member the writer model produces is read back by the
   reader model as the same text -- unconditionally for the stored-block compressor, and for any
   compressor whose stream C01's inflater inverts (the premise under which flate2's compressor
   enters) -- hence crai::fs::write followed by crai::fs::read returns the index, and the queries
   through a .crai file equal the queries through the index in memory. *)
From Coq Require Import List Arith NArith Bool Lia ZifyBool ZifyNat ZifyN.
From NV Require Import Base.LE Bgzf.Crc32 Bgzf.Crc32Proofs Bgzf.Frame Bgzf.Inflate Bgzf.InflateProofs.
From NV Require Import CramIdx.Crai CramIdx.Multi CramIdx.MultiProofs CramIdx.Transport CramIdx.TransportProofs CramIdx.Gz.
Import ListNotations.
Open Scope N_scope.

(* ---- the stored-block compressor, followed by anything ------------------------------------------ *)

Theorem inflate_raw_stored_tail : forall x limit tail, lenN x <= limit ->
  inflate_raw limit (deflate_stored x ++ tail) = Some (x, tail).
Proof.
  intros x limit tail Hl. unfold inflate_raw.
  pose proof (deflate_stored_length x) as Hlen.
  set (c := deflate_stored x) in *.
  assert (Hb : (length x < S (8 * length (c ++ tail)))%nat) by (rewrite app_length; unfold lenN in Hlen; lia).
  assert (E : blocks (S (8 * length (c ++ tail))) (S (8 * length (c ++ tail))) limit ([], c ++ tail) ob_empty
              = Some (([], tail), push_list x ob_empty)).
  { unfold c, deflate_stored. apply blocks_stored; [lia|exact Hb|cbn [ob_empty ob_len]; lia]. }
  rewrite E. rewrite push_list_rev. cbn [ob_empty ob_rev snd].
  rewrite app_nil_r, rev_append_rev, app_nil_r, rev_involutive. reflexivity.
Qed.

(* a compressor the inflater inverts, whatever follows its stream *)
Definition inflatable (comp : list N -> list N) : Prop :=
  forall t tail, lenN t <= gz_limit -> inflate_raw gz_limit (comp t ++ tail) = Some (t, tail).

Lemma deflate_stored_inflatable : inflatable deflate_stored.
Proof. intros t tail H. apply inflate_raw_stored_tail. exact H. Qed.

(* ---- header and trailer --------------------------------------------------------------------------- *)

Lemma gz_header_written : forall xfl rest, gz_header (gz_header_bytes xfl ++ rest) = GOk rest.
Proof. intros xfl rest. reflexivity. Qed.

Lemma le_dec_le32_app : forall a tl, a < two32 -> le_dec (firstn 4 (le32 a ++ tl)) = a.
Proof.
  intros a tl Ha. change (firstn 4 (le32 a ++ tl)) with (le_bytes 4 a).
  apply (le_dec_le_bytes 4). exact Ha.
Qed.

Lemma need_app : forall (a tl : list N), need (length a) (a ++ tl) = Some (a, tl).
Proof.
  intros a tl. unfold need. rewrite app_length.
  assert (E : (length a <=? length a + length tl)%nat = true) by lia. rewrite E.
  rewrite firstn_app, Nat.sub_diag, firstn_all, firstn_O, app_nil_r.
  rewrite skipn_app, Nat.sub_diag, skipn_all. reflexivity.
Qed.

Lemma trailer_accepts : forall text extra,
  match need 8 (gz_trailer text ++ extra) with
  | None => GErr GzEof
  | Some (t, _) =>
      if (le_dec (firstn 4 t) =? crc32 text) && (le_dec (skipn 4 t) =? lenN text mod two32)
      then GOk text else GErr GzInvalid
  end = GOk text.
Proof.
  intros text extra.
  assert (Hl : length (gz_trailer text) = 8%nat) by (unfold gz_trailer; rewrite app_length, !le32_length; reflexivity).
  rewrite <- Hl, need_app. unfold gz_trailer.
  rewrite le_dec_le32_app by (pose proof (crc32_bound text); unfold two32; lia).
  change (skipn 4 (le32 (crc32 text) ++ le32 (lenN text mod two32))) with (le_bytes 4 (lenN text mod two32)).
  rewrite (le_dec_le_bytes 4) by (change (256 ^ N.of_nat 4) with two32; apply N.mod_lt; discriminate).
  rewrite !N.eqb_refl. reflexivity.
Qed.

(* the member the writer produces -- any XFL, any payload the inflater inverts, anything after
   the member -- is gunzipped to the text *)
Theorem gunzip_frame : forall xfl deflated text extra,
  inflate_raw gz_limit (deflated ++ gz_trailer text ++ extra) = Some (text, gz_trailer text ++ extra) ->
  gunzip (gz_frame xfl deflated text ++ extra) = GOk text.
Proof.
  intros xfl deflated text extra H. unfold gunzip, gz_frame.
  rewrite <- !app_assoc, gz_header_written, H. apply trailer_accepts.
Qed.

(* what gunzip accepts carries the CRC-32 and the length (mod 2^32) of the data it returns *)
Theorem gunzip_accepts_only_checked : forall bs text,
  gunzip bs = GOk text ->
  exists body rest t r',
    gz_header bs = GOk body /\ inflate_raw gz_limit body = Some (text, rest) /\ need 8 rest = Some (t, r') /\
    le_dec (firstn 4 t) = crc32 text /\ le_dec (skipn 4 t) = lenN text mod two32.
Proof.
  intros bs text H. unfold gunzip in H.
  destruct (gz_header bs) as [body|e] eqn:Eh; [|discriminate].
  destruct (inflate_raw gz_limit body) as [[out rest]|] eqn:Ei; [|discriminate].
  destruct (need 8 rest) as [[t r']|] eqn:En; [|discriminate].
  destruct ((le_dec (firstn 4 t) =? crc32 out) && (le_dec (skipn 4 t) =? lenN out mod two32)) eqn:E; [|discriminate].
  injection H as H. subst out. apply andb_prop in E. destruct E as [E1 E2].
  apply N.eqb_eq in E1, E2. exists body, rest, t, r'. split; [reflexivity|]. split; [exact Ei|].
  split; [exact En|]. split; [exact E1|exact E2].
Qed.

(* ---- crai::fs::write then crai::fs::read ---------------------------------------------------------- *)

Section Comp.
Variable comp : list N -> list N.
Hypothesis Hcomp : inflatable comp.

Theorem crai_gz_roundtrip : forall es extra,
  Forall entry_fits es -> lenN (crai_text es) <= gz_limit ->
  read_crai_gz (write_crai_gz comp es ++ extra) = GOk es.
Proof.
  intros es extra Hfit Hlen. unfold read_crai_gz, write_crai_gz.
  rewrite gunzip_frame by (apply Hcomp; exact Hlen).
  rewrite (read_index_roundtrip es Hfit). reflexivity.
Qed.

Theorem query_via_gz_same : forall pos f es nrefs r lo hi,
  mfile_ok pos f -> Forall mcont_fits f -> index_m pos f = Ok es -> lenN (crai_text es) <= gz_limit ->
  query_via_gz comp nrefs es f r lo hi = GOk (query_region_m nrefs es f r lo hi).
Proof.
  intros pos f es nrefs r lo hi Hok Hfit Hidx Hlen. unfold query_via_gz.
  pose proof (crai_gz_roundtrip es [] (index_entries_fit pos f es Hok Hfit Hidx) Hlen) as H.
  rewrite app_nil_r in H. rewrite H. reflexivity.
Qed.

Theorem query_unmapped_via_gz_same : forall pos f es,
  mfile_ok pos f -> Forall mcont_fits f -> index_m pos f = Ok es -> lenN (crai_text es) <= gz_limit ->
  query_unmapped_via_gz comp es f = GOk (query_unmapped es f).
Proof.
  intros pos f es Hok Hfit Hidx Hlen. unfold query_unmapped_via_gz.
  pose proof (crai_gz_roundtrip es [] (index_entries_fit pos f es Hok Hfit Hidx) Hlen) as H.
  rewrite app_nil_r in H. rewrite H. reflexivity.
Qed.
End Comp.

(* the stored-block writer: no premise about the compressor *)
Theorem crai_gz_stored_roundtrip : forall es extra,
  Forall entry_fits es -> lenN (crai_text es) <= gz_limit ->
  read_crai_gz (write_crai_gz_stored es ++ extra) = GOk es.
Proof.
  intros es extra Hfit Hlen. unfold read_crai_gz, write_crai_gz_stored.
  rewrite gunzip_frame by (apply deflate_stored_inflatable; exact Hlen).
  rewrite (read_index_roundtrip es Hfit). reflexivity.
Qed.
