(* C19 -- the gzip layer of a .crai file: what crai::io::Reader (BufReader<flate2::read::GzDecoder>)
   and crai::io::Writer (flate2::write::GzEncoder, default level) do around the tab separated text
   of NV.CramIdx.Transport.

   Mirrors flate2 1.1 src/gz/mod.rs GzHeaderParser::parse (ID1 ID2 CM FLG MTIME XFL OS; reserved
   FLG bits refused; FEXTRA = XLEN + bytes; FNAME / FCOMMENT = bytes up to a NUL, at most 65535
   non-NUL bytes; FHCRC = the low 16 bits of the CRC-32 of every header byte before it) and
   src/gz/bufread.rs GzDecoder::read (single member: Header -> Body -> the 8 trailer bytes CRC32,
   ISIZE compared with the CRC-32 and the length mod 2^32 of the inflated data -> End; whatever
   follows the member is never read).  The DEFLATE stream is inflated by C01's executable RFC 1951
   inflater NV.Bgzf.Inflate.inflate_raw (imported read-only), the CRC-32 is NV.Bgzf.Crc32.crc32.

   Error kinds: a source that ends inside the header or the trailer is UnexpectedEof
   ([GzEof]); a refused header, a header CRC mismatch and a trailer mismatch are InvalidInput
   ([GzInvalid]).  A DEFLATE stream the inflater refuses is [GzBody]: flate2 reports a corrupt
   stream as InvalidInput and a truncated one as UnexpectedEof (after the lines decoded so far
   were parsed); the two are not told apart here and the compared cases never damage the body.
   read_index parses ALL lines before the trailer is looked at only when the text ends with a
   line feed -- true for every text the writer produces; the model parses the text after the
   trailer check, which gives the same result whenever the text is accepted or the member is
   intact (the compared cases damage the member only around texts that parse).

   Writer: GzEncoder writes the 10-byte header 1f 8b 08 00 00000000 XFL ff (XFL = 0 for the
   default level, 2 for the best, 4 for the fastest and for level 0), the DEFLATE stream of its
   compressor, then CRC32 and ISIZE little endian.  The compressor is a parameter [comp]
   (zlib-rs at level 6 in the implementation); [deflate_stored] (C01's stored-block writer) is
   the instance whose round trip is proved unconditionally.  Definitions only; proofs in
   GzProofs.v. *)
From Coq Require Import List Arith NArith Bool.
From NV Require Import Base.LE Bgzf.Crc32 Bgzf.Frame Bgzf.Inflate CramIdx.Crai CramIdx.Multi CramIdx.Transport.
Import ListNotations.
Open Scope N_scope.

Inductive gzerr : Type := GzEof | GzInvalid | GzBody | GzText.

Inductive gzres (A : Type) : Type := GOk (a : A) | GErr (e : gzerr).
Arguments GOk {A} a.
Arguments GErr {A} e.

(* read_into until the buffer is full: UnexpectedEof when the source ends first *)
Definition need (n : nat) (bs : list N) : option (list N * list N) :=
  if (n <=? length bs)%nat then Some (firstn n bs, skipn n bs) else None.

(* read_to_nul: (the bytes before the NUL, what follows it); [count] = bytes pushed so far *)
Fixpoint to_nul (bs : list N) (count : N) : gzres (list N * list N) :=
  match bs with
  | [] => GErr GzEof
  | b :: t =>
      if b =? 0 then GOk ([], t)
      else if count =? 65535 then GErr GzInvalid
      else match to_nul t (N.succ count) with
           | GOk (fld, r) => GOk (b :: fld, r)
           | GErr e => GErr e
           end
  end.

(* an optional header field: (bytes the header CRC sees, rest) *)
Definition gz_extra (on : bool) (bs : list N) : gzres (list N * list N) :=
  if on then
    match need 2 bs with
    | None => GErr GzEof
    | Some (x2, r1) =>
        match need (N.to_nat (le_dec x2)) r1 with
        | None => GErr GzEof
        | Some (ex, r2) => GOk (x2 ++ ex, r2)
        end
    end
  else GOk ([], bs).

Definition gz_zstring (on : bool) (bs : list N) : gzres (list N * list N) :=
  if on then
    match to_nul bs 0 with
    | GOk (fld, r) => GOk (fld ++ [0], r)
    | GErr e => GErr e
    end
  else GOk ([], bs).

(* GzHeaderParser::parse: what is left after the header *)
Definition gz_header (bs : list N) : gzres (list N) :=
  match need 10 bs with
  | None => GErr GzEof
  | Some (h, r0) =>
      if negb ((nth 0 h 0 =? 31) && (nth 1 h 0 =? 139)) then GErr GzInvalid
      else if negb (nth 2 h 0 =? 8) then GErr GzInvalid
      else
        let flg := nth 3 h 0 in
        if negb (N.land flg 224 =? 0) then GErr GzInvalid
        else
          match gz_extra (N.testbit flg 2) r0 with
          | GErr e => GErr e
          | GOk (s1, r1) =>
              match gz_zstring (N.testbit flg 3) r1 with
              | GErr e => GErr e
              | GOk (s2, r2) =>
                  match gz_zstring (N.testbit flg 4) r2 with
                  | GErr e => GErr e
                  | GOk (s3, r3) =>
                      if N.testbit flg 1 then
                        match need 2 r3 with
                        | None => GErr GzEof
                        | Some (c2, r4) =>
                            if le_dec c2 =? crc32 (h ++ s1 ++ s2 ++ s3) mod 65536
                            then GOk r4 else GErr GzInvalid
                        end
                      else GOk r3
                  end
              end
          end
  end.

(* no Vec holds more *)
Definition gz_limit : N := 18446744073709551616.

Definition two32 : N := 4294967296.

(* GzDecoder read to its end: the inflated data *)
Definition gunzip (bs : list N) : gzres (list N) :=
  match gz_header bs with
  | GErr e => GErr e
  | GOk body =>
      match inflate_raw gz_limit body with
      | None => GErr GzBody
      | Some (out, rest) =>
          match need 8 rest with
          | None => GErr GzEof
          | Some (t, _) =>
              if (le_dec (firstn 4 t) =? crc32 out) && (le_dec (skipn 4 t) =? lenN out mod two32)
              then GOk out else GErr GzInvalid
          end
      end
  end.

(* crai::io::Reader::read_index / crai::fs::read on the bytes of the file *)
Definition read_crai_gz (bs : list N) : gzres (list entry) :=
  match gunzip bs with
  | GErr e => GErr e
  | GOk text =>
      match read_index text with
      | Some es => GOk es
      | None => GErr GzText
      end
  end.

(* ---- the writer ------------------------------------------------------------------------------ *)

Definition gz_header_bytes (xfl : N) : list N := [31; 139; 8; 0; 0; 0; 0; 0; xfl; 255].

Definition gz_trailer (text : list N) : list N := le32 (crc32 text) ++ le32 (lenN text mod two32).

(* GzEncoder: header, the compressor's stream, trailer *)
Definition gz_frame (xfl : N) (deflated text : list N) : list N :=
  gz_header_bytes xfl ++ deflated ++ gz_trailer text.

(* crai::io::Writer::write_index + finish / crai::fs::write with the compressor [comp] *)
Definition write_crai_gz (comp : list N -> list N) (es : list entry) : list N :=
  gz_frame 0 (comp (crai_text es)) (crai_text es).

(* the stored-block instance (level 0: XFL = 4) *)
Definition write_crai_gz_stored (es : list entry) : list N :=
  gz_frame 4 (deflate_stored (crai_text es)) (crai_text es).

(* index -> crai::fs::write -> crai::fs::read -> query, as IndexedReader over a .crai on disk *)
Definition query_via_gz (comp : list N -> list N) (nrefs : N) (es : list entry) (f : list mcont)
           (r : N) (lo hi : option N) : gzres (result (list rec)) :=
  match read_crai_gz (write_crai_gz comp es) with
  | GOk es' => GOk (query_region_m nrefs es' f r lo hi)
  | GErr e => GErr e
  end.

Definition query_unmapped_via_gz (comp : list N -> list N) (es : list entry) (f : list mcont)
  : gzres (result (list rec)) :=
  match read_crai_gz (write_crai_gz comp es) with
  | GOk es' => GOk (query_unmapped es' f)
  | GErr e => GErr e
  end.

(* ---- observation for the correspondence check ------------------------------------------------- *)

Fixpoint beqb (a b : list N) : bool :=
  match a, b with
  | [], [] => true
  | x :: a', y :: b' => (x =? y) && beqb a' b'
  | _, _ => false
  end.

(* the file is header(XFL) ++ payload ++ trailer(text) for the text it inflates to: Some XFL *)
Definition gz_framed_as (bs : list N) : option N :=
  match gunzip bs with
  | GErr _ => None
  | GOk text =>
      let payload := firstn (length bs - 18) (skipn 10 bs) in
      let xfl := nth 8 bs 0 in
      if beqb (gz_frame xfl payload text) bs then Some xfl else None
  end.
