(* C19 -- region query over files holding placed records that cover no reference base (mapped
   reads with a soft-clip / insertion only CIGAR, placed reads without bases): the query view
   NV.CramIdx.ZeroSpan.as_bufz.  Proofs only. *)
From Coq Require Import List NArith Bool Lia ZifyBool ZifyNat ZifyN.
From NV Require Import CramIdx.Crai CramIdx.CraiProofs CramIdx.Multi CramIdx.MultiProofs
  CramIdx.BufViewProofs CramIdx.SpanProofs CramIdx.ZeroSpan.
Import ListNotations.
Open Scope N_scope.

(* ---- the new view is the old one wherever the old one was defined ---------------------------- *)

Lemma as_bufz_id : forall x, rec_ok x -> as_bufz x = as_buf x.
Proof. intros x H. unfold as_bufz. rewrite (wrec_id x H). reflexivity. Qed.

Lemma bufz_slice_as_buf : forall s, bufz_slice s = buf_slice (wslice_of s).
Proof.
  intros s. unfold bufz_slice, buf_slice, wslice_of. cbn [s_landmark s_len s_recs].
  rewrite map_map. reflexivity.
Qed.

Lemma bufz_file_as_buf : forall f, bufz_file f = buf_file (map wcont_of f).
Proof.
  intros f. unfold bufz_file, buf_file. rewrite map_map. apply map_ext. intros c.
  unfold bufz_cont, buf_cont, wcont_of. cbn [m_off m_hlen m_len m_slices]. rewrite map_map.
  f_equal. apply map_ext. exact bufz_slice_as_buf.
Qed.

Definition recs_ok (f : list mcont) : Prop :=
  Forall (fun c => Forall (fun s => Forall rec_ok (s_recs s)) (m_slices c)) f.

Lemma bufz_file_id : forall f, recs_ok f -> bufz_file f = buf_file f.
Proof.
  intros f H. unfold bufz_file, buf_file. apply map_ext_in. intros c Hc.
  unfold recs_ok in H. rewrite Forall_forall in H. specialize (H c Hc).
  unfold bufz_cont, buf_cont. f_equal. apply map_ext_in. intros s Hs.
  rewrite Forall_forall in H. specialize (H s Hs).
  unfold bufz_slice, buf_slice. f_equal. apply map_ext_in. intros x Hx.
  rewrite Forall_forall in H. exact (as_bufz_id x (H x Hx)).
Qed.

(* on the files of the earlier theorems (every record has start <= end) the query is the same *)
Theorem query_region_bufz_id : forall nrefs es f r lo hi,
  recs_ok f -> query_region_bufz nrefs es f r lo hi = query_region_buf nrefs es f r lo hi.
Proof. intros. unfold query_region_bufz, query_region_buf. rewrite (bufz_file_id f H). reflexivity. Qed.

(* the header contexts play no part in what the query filters *)
Lemma bufz_xfile : forall f, bufz_file (xfile f) = bufz_file f.
Proof.
  intros f. unfold bufz_file, xfile. rewrite map_map. apply map_ext. intros c.
  unfold bufz_cont, xcont. cbn [m_off m_hlen m_len m_slices]. rewrite map_map. reflexivity.
Qed.

(* ---- what the filter keeps -------------------------------------------------------------------- *)

Lemma selected_bufz : forall x r lo hi q,
  rid x = Some q ->
  selected r lo hi (as_bufz x)
  = (q =? r) && (lo <=? (if runm x then rs x else N.max (re x) (rs x))) && (rs x <=? hi).
Proof.
  intros x r lo hi q Hr. unfold selected, on_ref, intersects, as_bufz, as_buf, wrec, wend.
  cbn [rid rs re runm rname]. rewrite Hr. rewrite andb_assoc. reflexivity.
Qed.

(* a placed record that covers no reference base -- flagged unmapped or not -- is returned exactly
   for the regions of its reference that hold its POS *)
Theorem selected_zero_span : forall x r lo hi q,
  rid x = Some q -> re x < rs x ->
  selected r lo hi (as_bufz x) = (q =? r) && (lo <=? rs x) && (rs x <=? hi).
Proof.
  intros x r lo hi q Hr Hlt. rewrite (selected_bufz x r lo hi q Hr).
  rewrite N.max_r by lia. destruct (runm x); reflexivity.
Qed.

(* the earlier view loses such a mapped read: `5S` at POS 5 of sq0, region sq0:5-5 *)
Lemma as_buf_misses_zero_span :
  selected 0 5 5 (as_buf (mkrec 0 (Some 0) 5 4 false)) = false /\
  selected 0 5 5 (as_bufz (mkrec 0 (Some 0) 5 4 false)) = true.
Proof. split; reflexivity. Qed.

(* ---- query = scan ------------------------------------------------------------------------------ *)

(* Reader::query with the index fs/index.rs builds (record scan with the floor, 405565a) returns
   exactly what a scan keeps -- the converted records on the named reference whose
   [start, max(end, start)] (POS alone for a record flagged unmapped) intersects the region -- in
   file order, each once, for files whose placed records may cover no reference base *)
Theorem query_bufz_equals_scan : forall pos f es r lo hi,
  mfile_ok pos (map wcont_of f) -> index_x true pos f = Ok es ->
  query_m selected es (bufz_file f) r lo hi = Ok (scan_m (bufz_file f) r lo hi).
Proof.
  intros pos f es r lo hi Hok Hi. rewrite index_x_repaired in Hi. rewrite bufz_file_as_buf.
  exact (query_buf_equals_scan pos (map wcont_of f) es r lo hi Hok Hi).
Qed.

(* the whole chain index() -> query() on a written file *)
Theorem index_then_query_is_scan : forall pos nrefs f r lo hi,
  index_span_repaired = true ->
  mfile_ok pos (map wcont_of (xfile f)) -> r < nrefs ->
  index_then_query pos nrefs f r lo hi
  = Ok (scan_m (bufz_file f) r (fst (region_bounds lo hi)) (snd (region_bounds lo hi))).
Proof.
  intros pos nrefs f r lo hi Hsw Hok Hr. unfold index_then_query, index_real. rewrite Hsw.
  rewrite (index_repaired_lists_every_slice pos f Hok).
  unfold query_region_bufz, query_region_m.
  assert (E : (r <? nrefs) = true) by (apply N.ltb_lt; exact Hr). rewrite E. cbv zeta.
  rewrite <- (bufz_xfile f).
  apply (query_bufz_equals_scan pos (xfile f)); [exact Hok|].
  exact (index_repaired_lists_every_slice pos f Hok).
Qed.

(* a record that covers no reference base is in the answer of index() -> query() iff the region
   holds its POS on its reference *)
Corollary index_then_query_returns_zero_span_at_pos : forall pos nrefs f r lo hi x q,
  index_span_repaired = true ->
  mfile_ok pos (map wcont_of (xfile f)) -> r < nrefs ->
  In x (flat_map m_recs f) -> rid x = Some q -> re x < rs x ->
  (q =? r) && (fst (region_bounds lo hi) <=? rs x) && (rs x <=? snd (region_bounds lo hi)) = true ->
  exists l, index_then_query pos nrefs f r lo hi = Ok l /\ In (as_bufz x) l.
Proof.
  intros pos nrefs f r lo hi x q Hsw Hok Hr Hin Hq Hlt Hsel.
  eexists. split; [exact (index_then_query_is_scan pos nrefs f r lo hi Hsw Hok Hr)|].
  unfold scan_m. apply filter_In. split.
  - unfold bufz_file. rewrite flat_map_concat_map, map_map. rewrite <- flat_map_concat_map.
    apply in_flat_map. apply in_flat_map in Hin. destruct Hin as [c [Hc Hx]]. exists c. split; [exact Hc|].
    unfold m_recs in *. cbn [bufz_cont m_slices]. rewrite flat_map_concat_map, map_map, <- flat_map_concat_map.
    apply in_flat_map. apply in_flat_map in Hx. destruct Hx as [s [Hs Hxs]]. exists s. split; [exact Hs|].
    unfold bufz_slice, wslice. cbn [s_recs]. apply in_map. exact Hxs.
  - rewrite (selected_zero_span x r _ _ q Hq Hlt). exact Hsel.
Qed.
