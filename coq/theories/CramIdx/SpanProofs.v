(* C19 -- the span of an index entry when a slice holds placed records without bases
   (NV.CramIdx.Multi.index_x, switch index_span_repaired).  Proofs only. *)
From Coq Require Import List NArith Bool Lia ZifyBool ZifyNat ZifyN.
From NV Require Import CramIdx.Crai CramIdx.CraiProofs CramIdx.Multi CramIdx.MultiProofs.
Import ListNotations.
Open Scope N_scope.

(* a placed record: its CRAM end is at least start - 1 (read length >= 0) *)
Definition placed_ok (x : rec) : Prop := rs x <= re x + 1 /\ re x <= usize_max /\ rs x <= usize_max.

Lemma wrec_ok : forall x, placed_ok x -> rec_ok (wrec x).
Proof. intros x [H1 [H2 H3]]. unfold rec_ok, wrec, wend. cbn [rs re]. lia. Qed.

Lemma wrec_id : forall x, rec_ok x -> wrec x = x.
Proof.
  intros [n r s e u] [H1 _]. unfold wrec, wend. cbn [rname rid rs re runm] in *.
  rewrite N.max_l by exact H1. reflexivity.
Qed.

Lemma map_wrec_id : forall recs, Forall rec_ok recs -> map wrec recs = recs.
Proof.
  induction recs as [|x t IH]; intros H; [reflexivity|]. inversion H as [|? ? Hx Ht]; subst.
  cbn [map]. rewrite (wrec_id x Hx), (IH Ht). reflexivity.
Qed.

Lemma map_irec : forall rep recs, (rep = true \/ Forall rec_ok recs) -> map (irec rep) recs = map wrec recs.
Proof.
  intros rep recs [H|H].
  - subst rep. reflexivity.
  - destruct rep; [reflexivity|]. cbn [irec]. rewrite map_id, (map_wrec_id recs H). reflexivity.
Qed.

(* THE AGREEMENT, through the switch: the entry the header-context path produces for a
   single-reference / unmapped slice (context as the writer stores it) is the entry list the
   record scan would produce -- for ALL placed records once the scan is repaired, and for records
   with start <= end as the code is *)
Theorem context_path_agrees_with_scan : forall rep pos lm sl recs,
  recs <> [] -> Forall placed_ok recs -> (rep = true \/ Forall rec_ok recs) ->
  slice_ctx (map wrec recs) <> Multi ->
  [single_entry pos lm sl (slice_ctx (map wrec recs))] = multi_entries pos lm sl (map (irec rep) recs).
Proof.
  intros rep pos lm sl recs Hne Hp Hrep Hnm. rewrite (map_irec rep recs Hrep).
  apply single_entry_is_spec; [destruct recs; [contradiction|discriminate]| |exact Hnm].
  rewrite Forall_map. rewrite Forall_forall in *. intros x Hx. exact (wrec_ok x (Hp x Hx)).
Qed.

(* ... and as the code is, it fails on the class: a lone placed record without bases at POS 5 --
   the writer declares span 1, the scan computes end 4 < start 5 *)
Definition span_witness : list mcont :=
  [ mkmcont 100 20 900 [ mkslice 180 720 Multi [mkrec 0 (Some 0) 3 9 false; mkrec 1 (Some 1) 5 4 true] ] ].

Lemma index_x_unrepaired_panics : index_x false 100 span_witness = Panic.
Proof. vm_compute. reflexivity. Qed.

Lemma index_x_repaired_ok :
  index_x true 100 span_witness
  = Ok [mkentry (Some 0) (Some 3) 7 100 180 720; mkentry (Some 1) (Some 5) 1 100 180 720].
Proof. vm_compute. reflexivity. Qed.

(* the todo!(): the same record at POS 1 has no end at all *)
Lemma index_x_unrepaired_panics_at_pos_1 :
  index_x false 100 [ mkmcont 100 20 900 [ mkslice 180 720 Multi [mkrec 0 (Some 0) 3 9 false; mkrec 1 (Some 1) 1 0 true] ] ] = Panic.
Proof. vm_compute. reflexivity. Qed.

(* ---- repaired: the index lists every slice, whatever the records ------------------------------ *)

Definition wslice_of (s : slice) : slice := mkslice (s_landmark s) (s_len s) (s_ctx s) (map wrec (s_recs s)).
Definition wcont_of (c : mcont) : mcont := mkmcont (m_off c) (m_hlen c) (m_len c) (map wslice_of (m_slices c)).

Lemma slices_entries_x_repaired : forall ss pos len,
  slices_entries_x true pos len ss = slices_entries pos len (map wslice_of ss).
Proof.
  induction ss as [|s t IH]; intros pos len; [reflexivity|].
  cbn [slices_entries_x map slices_entries wslice_of s_landmark s_ctx s_recs].
  assert (E : match map wslice_of t with [] => len | s' :: _ => s_landmark s' end
              = match t with [] => len | s' :: _ => s_landmark s' end) by (destruct t; reflexivity).
  fold wslice_of. rewrite E.
  destruct ((match t with [] => len | s' :: _ => s_landmark s' end <? s_landmark s)
            || (len <? match t with [] => len | s' :: _ => s_landmark s' end)); [reflexivity|].
  assert (Hp : slice_panics true s = false) by (unfold slice_panics; destruct (s_ctx s); reflexivity).
  rewrite Hp, IH. reflexivity.
Qed.

Theorem index_x_repaired : forall f pos, index_x true pos f = index_m pos (map wcont_of f).
Proof.
  induction f as [|c t IH]; intros pos; [reflexivity|].
  cbn [index_x map index_m wcont_of m_len m_slices m_hlen]. rewrite slices_entries_x_repaired, IH. reflexivity.
Qed.

(* after the repair the index of a written file is, slice after slice, the per-slice entries
   computed from the records as the writer sees them -- placed records without bases included
   (span 1 at their start): it cannot panic *)
Theorem index_repaired_lists_every_slice : forall pos f,
  mfile_ok pos (map wcont_of (xfile f)) ->
  index_x true pos (xfile f) = Ok (flat_map mspec_entries (map wcont_of (xfile f))).
Proof. intros pos f H. rewrite index_x_repaired. exact (index_m_spec _ pos H). Qed.

(* ---- as the code is: outside the class it is the same index ----------------------------------- *)

Lemma irec_eq_outside : forall recs, existsb no_bases recs = false ->
  (forall x, In x recs -> rid x = None -> rs x <= re x) ->
  map (irec false) recs = map (irec true) recs.
Proof.
  induction recs as [|x t IH]; intros H Hu; [reflexivity|]. cbn [existsb] in H.
  apply orb_false_elim in H. destruct H as [Hx Ht]. cbn [map irec]. rewrite map_id.
  cbn [map irec] in IH. rewrite map_id in IH. rewrite <- (IH Ht (fun y Hy => Hu y (or_intror Hy))).
  f_equal. symmetry. destruct x as [n r s e u]. unfold wrec, wend. cbn [rname rid rs re runm].
  unfold no_bases in Hx. cbn [rid re rs] in Hx. destruct r as [q|].
  - rewrite N.max_l by lia. reflexivity.
  - specialize (Hu _ (or_introl eq_refl) eq_refl). cbn [rs re] in Hu. rewrite N.max_l by lia. reflexivity.
Qed.

Lemma underflows_outside : forall recs, existsb no_bases recs = false -> underflows recs = false.
Proof.
  intros recs H. unfold underflows. destruct (existsb _ (mapped_keys recs)) eqn:E; [|reflexivity].
  apply existsb_exists in E. destruct E as [r [Hr Hu]]. cbn zeta in Hu.
  apply In_mapped_keys in Hr. destruct Hr as [x [Hx Hrid]].
  pose proof (rstep_fold_bounds r recs (usize_max, 0)) as Hb. cbn zeta in Hb. destruct Hb as [_ [_ Hb]].
  specialize (Hb x Hx Hrid). rewrite <- range_of_unfold in Hb.
  assert (Hn : no_bases x = false).
  { destruct (no_bases x) eqn:En; [|reflexivity].
    assert (existsb no_bases recs = true) by (apply existsb_exists; exists x; split; assumption). congruence. }
  unfold no_bases in Hn. rewrite Hrid in Hn. lia.
Qed.

Definition unplaced_sane (s : slice) : Prop := forall x, In x (s_recs s) -> rid x = None -> rs x <= re x.

Lemma slices_entries_x_outside : forall ss pos len,
  existsb span_class_slice ss = false -> Forall unplaced_sane ss ->
  slices_entries_x false pos len ss = slices_entries_x true pos len ss.
Proof.
  induction ss as [|s t IH]; intros pos len H Hu; [reflexivity|].
  cbn [existsb] in H. apply orb_false_elim in H. destruct H as [Hs Ht].
  inversion Hu as [|? ? Hu1 Hu2]; subst. cbn [slices_entries_x]. rewrite (IH pos len Ht Hu2).
  unfold slice_panics, span_class_slice in *. destruct (s_ctx s) eqn:Ec; cbn [negb andb]; try reflexivity.
  rewrite (underflows_outside _ Hs), (irec_eq_outside _ Hs Hu1). reflexivity.
Qed.

(* AS THE CODE IS: on every file outside the class (no multi-reference slice holds a placed record
   without bases) index() is what it will be after the repair *)
Theorem index_x_outside_class : forall f pos,
  span_class f = false -> Forall (fun c => Forall unplaced_sane (m_slices c)) f ->
  index_x false pos f = index_x true pos f.
Proof.
  induction f as [|c t IH]; intros pos H Hu; [reflexivity|].
  unfold span_class in H. cbn [existsb] in H. apply orb_false_elim in H. destruct H as [Hc Ht].
  inversion Hu as [|? ? Hu1 Hu2]; subst. cbn [index_x].
  rewrite (slices_entries_x_outside _ pos (m_len c) Hc Hu1), (IH _ Ht Hu2). reflexivity.
Qed.
