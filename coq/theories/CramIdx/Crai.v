(* C19 -- CRAM index construction (noodles-cram src/fs/index.rs) and indexed region queries
   (src/io/reader/query.rs), over a file described by its container layout.

   noodles writes ONE slice per container (io/writer.rs DEFAULT_SLICES_PER_CONTAINER = 1), so a
   written file is a list of containers, each holding one slice.  A container is described by
     c_off       its byte offset in the file                       (truth, seen by a walker)
     c_hlen      the byte length of its header
     c_len       the `length` field of the header (bytes of all blocks)
     c_landmark  the landmark of the slice  (= size of the compression-header block)
     c_slen      the byte size of the slice (header block + data blocks)   (truth)
     c_ctx       the reference context stored in the slice header
     c_recs      the records of the slice.
   The writer computes c_ctx from the records: [slice_ctx] mirrors
   io/writer/container/slice.rs get_reference_sequence_context and
   container/reference_sequence_context.rs ReferenceSequenceContext::update.

   Records: [rname] is the ordinal in the read name (identity only), [rid] the reference id,
   [rs]/[re] alignment start / end (meaningful when rid <> None), [runm] the UNMAPPED flag
   (0x4; only query_unmapped looks at it -- NV.CramIdx.Multi). *)
From Coq Require Import List NArith Bool.
Import ListNotations.
Open Scope N_scope.

Record rec := mkrec { rname : N; rid : option N; rs : N; re : N; runm : bool }.

Inductive ctx := Single (r s e : N) | Unmapped | Multi.

Record container := mkcont {
  c_off : N; c_hlen : N; c_len : N; c_landmark : N; c_slen : N; c_ctx : ctx; c_recs : list rec }.

Record entry := mkentry {
  e_rid : option N; e_start : option N; e_span : N; e_off : N; e_landmark : N; e_slen : N }.

Inductive result (A : Type) := Ok (a : A) | Panic | ErrInvalidInput | ErrInvalidData | ErrUnexpectedEof.
Arguments Ok {A} a.
Arguments Panic {A}.
Arguments ErrInvalidInput {A}.
Arguments ErrInvalidData {A}.
Arguments ErrUnexpectedEof {A}.

Definition usize_max : N := 18446744073709551615.

(* ---- writer: reference context of a slice --------------------------------------------- *)

(* first record: (Some id, Some start, Some end) => Some(..), otherwise None *)
Definition ctx_init (x : rec) : ctx :=
  match rid x with Some r => Single r (rs x) (re x) | None => Unmapped end.

(* ReferenceSequenceContext::update *)
Definition ctx_update (c : ctx) (x : rec) : ctx :=
  match c, rid x with
  | Single r s e, Some r' =>
      if r' =? r then Single r' (N.min (rs x) s) (N.max (re x) e) else Multi
  | Single _ _ _, None => Multi
  | Unmapped, Some _ => Multi
  | Unmapped, None => Unmapped
  | Multi, _ => Multi
  end.

Definition slice_ctx (l : list rec) : ctx :=
  match l with [] => Unmapped | x :: t => fold_left ctx_update t (ctx_init x) end.

(* ---- fs::index ------------------------------------------------------------------------- *)

Definition is_unmapped (x : rec) : bool := match rid x with None => true | Some _ => false end.
Definition on_ref (r : N) (x : rec) : bool := match rid x with Some r' => r' =? r | None => false end.

(* sorted, duplicate-free insertion: the HashMap keys after sort_unstable *)
Fixpoint insert_key (k : N) (l : list N) : list N :=
  match l with
  | [] => [k]
  | h :: t => if k <? h then k :: l else if k =? h then l else h :: insert_key k t
  end.

Definition mapped_keys (recs : list rec) : list N :=
  fold_right (fun x acc => match rid x with Some r => insert_key r acc | None => acc end) [] recs.

(* SliceReferenceSequenceAlignmentRangeInclusive: start from Position(usize::MAX) / None, then
   min over starts, max over ends of the records of that reference *)
Definition range_of (r : N) (recs : list rec) : N * N :=
  fold_left (fun acc x => if on_ref r x then (N.min (fst acc) (rs x), N.max (snd acc) (re x)) else acc)
            recs (usize_max, 0).

(* push_index_records_for_multi_reference_slice: Option orders None first, so the unmapped entry
   (if any record has no reference) precedes the per-reference entries in ascending id order *)
Definition multi_entries (pos lm sl : N) (recs : list rec) : list entry :=
  (if existsb is_unmapped recs then [mkentry None None 0 pos lm sl] else [])
  ++ map (fun r => let lh := range_of r recs in
                   mkentry (Some r) (Some (fst lh)) (snd lh - fst lh + 1) pos lm sl)
         (mapped_keys recs).

(* push_index_record_for_single_reference_slice *)
Definition single_entry (pos lm sl : N) (c : ctx) : entry :=
  match c with
  | Single r s e => mkentry (Some r) (Some s) (e - s + 1) pos lm sl
  | _ => mkentry None None 0 pos lm sl
  end.

Definition container_entries (pos : N) (c : container) : list entry :=
  (* slice_length = container_len - landmark (single slice) *)
  let sl := c_len c - c_landmark c in
  match c_ctx c with
  | Multi => multi_entries pos (c_landmark c) sl (c_recs c)
  | x => [single_entry pos (c_landmark c) sl x]
  end.

(* the entries, ignoring the decoding failure *)
Fixpoint index_core (pos : N) (f : list container) : list entry :=
  match f with
  | [] => []
  | c :: t => container_entries pos c ++ index_core (pos + c_hlen c + c_len c) t
  end.

(* cram::fs::index: [pos] = position after the file header.  (Before the repair 8aa2016 index()
   decoded multi-reference slices with an empty reference repository and panicked on the first
   mapped record with bases; it now decodes without reference lookups and cannot fail on a
   well-formed file.) *)
Definition index (pos : N) (f : list container) : result (list entry) := Ok (index_core pos f).

(* ---- Reader::query ---------------------------------------------------------------------- *)

(* Region interval: unbounded start = Position::MIN, unbounded end = Position::MAX *)
Definition region_bounds (lo hi : option N) : N * N :=
  (match lo with Some a => a | None => 1 end, match hi with Some b => b | None => usize_max end).

(* query.rs `intersects`: start and end present and the intervals overlap *)
Definition intersects (lo hi : N) (x : rec) : bool :=
  match rid x with
  | None => false
  | Some _ => (lo <=? re x) && (rs x <=? hi)
  end.

(* The filter applied to the decoded records of a visited container: query.rs `intersects`
   compares the record's reference sequence id with the queried one, then the intervals.
   (Before the repair 6527417 only the interval was looked at -- [selected_old], finding F17:
   records of other references held by a multi-reference slice were returned.) *)
Definition selected (r lo hi : N) (x : rec) : bool := on_ref r x && intersects lo hi x.
Definition selected_old (r lo hi : N) (x : rec) : bool := intersects lo hi x.

(* seek(offset) + read_container *)
Fixpoint find_container (off : N) (f : list container) : option container :=
  match f with
  | [] => None
  | c :: t => if c_off c =? off then Some c else find_container off t
  end.

Definition opt_eqb (a : option N) (r : N) : bool :=
  match a with Some x => x =? r | None => false end.

(* Query::read_record_buf / read_next_container: ALL index entries are walked in order (no
   interval pruning); entries of other references are skipped; the container at the entry's
   offset is read and its slice at the entry's landmark is decoded and filtered -- with ONE
   slice per container, as here, that is the whole container (the selection by landmark and its
   InvalidData case are modelled by NV.CramIdx.Multi.query_m; under file_ok every entry carries
   the landmark of its container's only slice).  A seek that does not land on a container ends the
   iteration (read_container -> 0). *)
Fixpoint query_gen (sel : N -> N -> N -> rec -> bool) (es : list entry) (f : list container)
         (r lo hi : N) : list rec :=
  match es with
  | [] => []
  | e :: t =>
      if opt_eqb (e_rid e) r then
        match find_container (e_off e) f with
        | Some c => filter (sel r lo hi) (c_recs c) ++ query_gen sel t f r lo hi
        | None => []
        end
      else query_gen sel t f r lo hi
  end.

Definition query := query_gen selected.
Definition query_old := query_gen selected_old.

(* Reader::query: the region's name must be a reference of the header *)
Definition query_region (nrefs : N) (es : list entry) (f : list container)
           (r : N) (lo hi : option N) : result (list rec) :=
  if r <? nrefs then
    let b := region_bounds lo hi in Ok (query es f r (fst b) (snd b))
  else ErrInvalidInput.

(* ---- the specification side -------------------------------------------------------------- *)

(* what a full scan keeps *)
Definition scan (f : list container) (r lo hi : N) : list rec :=
  filter (selected r lo hi) (flat_map c_recs f).

(* entries the statement asks for, from the records alone (no reference context involved) *)
Definition spec_entries (c : container) : list entry :=
  multi_entries (c_off c) (c_landmark c) (c_slen c) (c_recs c).

(* well-formed layouts *)
Fixpoint layout_ok (pos : N) (f : list container) : Prop :=
  match f with
  | [] => True
  | c :: t => c_off c = pos /\ 0 < c_hlen c /\ c_len c = c_landmark c + c_slen c
              /\ layout_ok (pos + c_hlen c + c_len c) t
  end.

Definition rec_ok (x : rec) : Prop := rs x <= re x /\ re x <= usize_max.

Definition container_ok (c : container) : Prop :=
  c_recs c <> [] /\ c_ctx c = slice_ctx (c_recs c) /\ Forall rec_ok (c_recs c).

Definition file_ok (pos : N) (f : list container) : Prop :=
  layout_ok pos f /\ Forall container_ok f.

(* F17 input class (of the old filter): a slice holding a record of the queried reference AND a record of another
   reference whose coordinates fall in the interval *)
Definition f17_class (f : list container) (r lo hi : N) : Prop :=
  exists c x y, In c f /\ In x (c_recs c) /\ on_ref r x = true /\
                In y (c_recs c) /\ on_ref r y = false /\ intersects lo hi y = true.

(* helper for drivers: build a container whose context is the one the writer computes *)
Definition written (off hl len lm sl : N) (recs : list rec) : container :=
  mkcont off hl len lm sl (slice_ctx recs) recs.
