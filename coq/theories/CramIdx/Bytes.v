(* C19 -- cram::fs::index from the BYTES of the file: where the offset, landmark and slice length
   of an index entry (and the reference context of a single-reference slice) come from.

   The framing of containers is C13's model NV.Trunc.Cram (imported read-only): the file
   definition, the header container, [cram_parse_container] = container/header.rs read_header +
   container.rs read_container (CRC32 of the header checked, EOF container recognised).  Added
   here:
   * io/reader/container/block.rs read_block: method byte, content type byte, ITF8 content id,
     compressed and uncompressed sizes, the data, the CRC32 of all that      -> [r_block]
   * io/reader/container/slice/header.rs read_header / read_header_inner      -> [r_slice_header]
   * io/reader/container.rs slices(): src[landmarks[i] .. landmarks[i+1] | len] -> [slice_bytes]
   * fs/index.rs index(): position of the container, landmark, slice length    -> [walk]
   and the result is handed to [index_m] of NV.CramIdx.Multi.

   The reader is positioned by absolute offsets ([at_ pos file] = what is left to read at stream
   position [pos]).  Not modelled: the compression header and the data blocks (index() decodes
   the compression header of every container and the records of multi-reference slices; the
   records of those slices are an input here), and slice header blocks that are compressed (the
   writer never does that): [OutOfFuel] marks that case, the theorems exclude it.
   Definitions only; proofs in BytesProofs.v. *)
From Coq Require Import List Arith NArith ZArith Bool.
From NV Require Import Base.LE Trunc.Stream Trunc.Cram Bgzf.Crc32 CramIdx.Crai CramIdx.Multi.
Import ListNotations.
Open Scope N_scope.

Definition at_ (pos : N) (file : list N) : list N := skipn (N.to_nat pos) file.

Definition consumed (bs r : list N) : N := N.of_nat (length bs - length r).

Definition r_byte : rparser N :=
  r_bind (r_take 1) (fun h => r_ret (nth 0 h 0)).

(* what read_header_inner keeps *)
Record shdr := mkshdr { sh_rid : Z; sh_start : Z; sh_span : Z; sh_nrec : N; sh_nblocks : N }.

Definition ctx_of_shdr (h : shdr) : ctx :=
  if (sh_rid h =? -1)%Z then Unmapped
  else if (sh_rid h =? -2)%Z then Multi
  else Single (Z.to_N (sh_rid h)) (Z.to_N (sh_start h)) (Z.to_N (sh_start h + sh_span h - 1)).

Definition r_shdr_inner : rparser shdr :=
  r_bind r_itf8 (fun rid =>
  r_bind r_itf8 (fun start =>
  r_bind r_itf8 (fun span =>
  if negb (ctx_ok rid start span) then r_fail InvalidData else
  r_bind r_itf8_as (fun nrec =>
  r_bind r_ltf8_as (fun _counter =>
  r_bind r_itf8_as (fun nblocks =>
  r_bind r_itf8_as (fun nids =>
  r_bind (r_repeat (N.to_nat nids) r_itf8) (fun _ids =>
  r_bind r_itf8 (fun _embedded =>
  r_bind (r_take 16) (fun _md5 =>
  r_ret (mkshdr rid start span nrec nblocks))))))))))).

Section CRC.
  Variable crc : list N -> N.

  (* read_compression_method: 0..8; read_content_type: 0..5 *)
  Definition block_fields : rparser (N * N * N * list N) :=
    r_bind r_byte (fun m =>
    if 8 <? m then r_fail InvalidData else
    r_bind r_byte (fun t =>
    if 5 <? t then r_fail InvalidData else
    r_bind r_itf8 (fun _id =>
    r_bind r_itf8_as (fun csize =>
    r_bind r_itf8_as (fun usize =>
    r_bind (r_take csize) (fun data =>
    r_ret (m, t, usize, data))))))).

  Definition r_block : rparser (N * N * N * list N) :=
    r_bind (with_crc crc block_fields) (fun bc => r_ret (fst bc)).

  (* read_block_as(SliceHeader), block.decode(), read_header_inner (what follows the MD5 is
     taken as optional tags) *)
  Definition r_slice_header : rparser shdr :=
    r_bind r_block (fun b =>
      let '(m, t, usize, data) := b in
      if negb (t =? 2) then r_fail InvalidData
      else if (m =? 0) || (usize =? 0) then
        (fun rest => match r_shdr_inner data with
                     | POk h _ => POk h rest
                     | PErr e => PErr e
                     end)
      else r_fail OutOfFuel).

  (* Container::slices(): src.get(start..end) *)
  Definition slice_bytes (body : list N) (start nxt : N) : option (list N) :=
    if (start <=? nxt) && (nxt <=? N.of_nat (length body))
    then Some (firstn (N.to_nat (nxt - start)) (skipn (N.to_nat start) body))
    else None.

  Inductive bres (A : Type) : Type := BOk (a : A) | BErr (e : ekind).
  Arguments BOk {A} a.
  Arguments BErr {A} e.

  (* the slices of one container: (landmark, slice length, slice header) in order *)
  Fixpoint bslices (body : list N) (lms : list N) : bres (list (N * N * shdr)) :=
    match lms with
    | [] => BOk []
    | lm :: t =>
        let nxt := match t with [] => N.of_nat (length body) | l' :: _ => l' end in
        match slice_bytes body lm nxt with
        | None => BErr InvalidData
        | Some src =>
            match r_slice_header src with
            | PErr e => BErr e
            | POk sh _ =>
                match bslices body t with
                | BOk l => BOk ((lm, nxt - lm, sh) :: l)
                | BErr e => BErr e
                end
            end
        end
    end.

  (* the records of the slices are handed over slice by slice *)
  Fixpoint assign (shs : list (N * N * shdr)) (recs : list (list rec)) : list slice * list (list rec) :=
    match shs with
    | [] => ([], recs)
    | (lm, sl, sh) :: t =>
        let mine := match recs with [] => [] | x :: _ => x end in
        let rest := match recs with [] => [] | _ :: r => r end in
        let (ss, recs') := assign t rest in
        (mkslice lm sl (ctx_of_shdr sh) mine :: ss, recs')
    end.

  (* index(): the loop over containers *)
  Fixpoint walk (fuel : nat) (pos : N) (file : list N) (recs : list (list rec)) : bres (list mcont) :=
    match fuel with
    | O => BErr OutOfFuel
    | S k =>
        let bs := at_ pos file in
        match cram_parse_container crc bs with
        | PErr e => BErr e
        | POk (h, b, true) _ => BOk []
        | POk (h, b, false) r =>
            let used := consumed bs r in
            (* container_len: the length field = the size of the body that was read *)
            let lenb := N.of_nat (length b) in
            (* the header and the body were consumed: never taken, excluded like fuel *)
            if used <? lenb then BErr OutOfFuel else
            match bslices b (ch_landmarks h) with
            | BErr e => BErr e
            | BOk shs =>
                let (ss, recs') := assign shs recs in
                match walk k (pos + used) file recs' with
                | BErr e => BErr e
                | BOk cs => BOk (mkmcont pos (used - lenb) lenb ss :: cs)
                end
            end
        end
    end.

  (* Reader::read_header: file definition + header container (its SAM text is not looked at) *)
  Definition header_end (file : list N) : bres N :=
    match r_bind read_file_definition (fun _ => read_header_container crc (fun _ => None)) file with
    | POk _ r => BOk (consumed file r)
    | PErr e => BErr e
    end.

  Definition mfile_of_bytes (file : list N) (recs : list (list rec)) : bres (N * list mcont) :=
    match header_end file with
    | BErr e => BErr e
    | BOk p0 =>
        match walk (S (length file)) p0 file recs with
        | BOk f => BOk (p0, f)
        | BErr e => BErr e
        end
    end.

  Definition index_of_bytes (file : list N) (recs : list (list rec)) : bres (list entry) :=
    match mfile_of_bytes file recs with
    | BErr e => BErr e
    | BOk (p0, f) =>
        match index_m p0 f with
        | Ok es => BOk es
        | _ => BErr InvalidData
        end
    end.
End CRC.

Arguments BOk {A} a.
Arguments BErr {A} e.

(* the instance compared with the implementation *)
Definition index_of_bytes32 : list N -> list (list rec) -> bres (list entry) := index_of_bytes crc32.
