(* Proofs about NV.CramIdx.AsyncQuery (C19): a read program run over ANY reader that behaves like
   some delivery of the bytes (C12's [simulates]) returns what it returns on the bytes; the
   byte-by-byte and the grouped ITF8/LTF8 reads return the same; the polled seek lands on its
   target under every Pending script; hence the async query / query_unmapped under every poll
   script equal the sync ones under every delivery script. *)
From Coq Require Import List NArith ZArith Arith Bool Lia.
From NV Require Import Base.LE Io.Source Io.ReadExact Io.ReadExactProofs Io.Run Io.RunProofs.
From NV Require Import Async.ReadExact Async.ReadExactProofs.
From NV Require Import Cram.Itf8 Cram.Ltf8 Trunc.Stream Trunc.Cram.
From NV Require Import CramIdx.Crai CramIdx.CraiProofs CramIdx.Multi CramIdx.MultiProofs CramIdx.Bytes CramIdx.BytesProofs CramIdx.AsyncQuery.
Import ListNotations.
Local Open Scope nat_scope.

(* ---- programs over the bytes ---------------------------------------------------------------- *)

Lemma run_pure_bind : forall (A B : Type) (p : prog A) (f : A -> prog B) d,
  run_pure (p_bind p f) d = match run_pure p d with POk a r => run_pure (f a) r | PErr e => PErr e end.
Proof.
  intros A B p f. induction p as [a|e|n k IH|n k IH]; intros d; cbn [p_bind run_pure]; auto.
  destruct (n <=? length d); auto.
Qed.

Definition peq {A : Type} (p q : prog A) : Prop := forall d, run_pure p d = run_pure q d.

Lemma peq_refl : forall (A : Type) (p : prog A), peq p p.
Proof. intros A p d. reflexivity. Qed.

Lemma peq_bind : forall (A B : Type) (p q : prog A) (f h : A -> prog B),
  peq p q -> (forall a, peq (f a) (h a)) -> peq (p_bind p f) (p_bind q h).
Proof.
  intros A B p q f h Hp Hf d. rewrite !run_pure_bind, (Hp d).
  destruct (run_pure q d) as [a r|e]; [apply Hf|reflexivity].
Qed.

Lemma peq_read : forall (A : Type) n (k k' : list N -> prog A),
  (forall bs, peq (k bs) (k' bs)) -> peq (PRead n k) (PRead n k').
Proof. intros A n k k' H d. cbn [run_pure]. destruct (n <=? length d); [apply H|reflexivity]. Qed.

Lemma peq_take : forall (A : Type) n (k k' : list N -> prog A),
  (forall bs, peq (k bs) (k' bs)) -> peq (PTake n k) (PTake n k').
Proof. intros A n k k' H d. cbn [run_pure]. apply H. Qed.

Lemma p_each_pure : forall n d,
  run_pure (p_each n) d = if n <=? length d then POk (firstn n d) (skipn n d) else PErr UnexpectedEof.
Proof.
  induction n as [|n IH]; intros d; [reflexivity|].
  cbn [p_each run_pure]. destruct d as [|x d]; [reflexivity|].
  cbn [length Nat.leb firstn skipn]. rewrite run_pure_bind, IH.
  destruct (n <=? length d); reflexivity.
Qed.

Lemma p_bytes_gran : forall n, peq (p_bytes true n) (p_bytes false n).
Proof.
  intros n d. unfold p_bytes. rewrite p_each_pure. cbn [run_pure]. reflexivity.
Qed.

Lemma p_itf8_gran : peq (p_itf8 true) (p_itf8 false).
Proof.
  unfold p_itf8. apply peq_read. intros bs. apply peq_bind; [apply p_bytes_gran|intros a; apply peq_refl].
Qed.

Lemma p_ltf8_gran : peq (p_ltf8 true) (p_ltf8 false).
Proof.
  unfold p_ltf8. apply peq_read. intros bs. cbv zeta. apply peq_bind; [|intros a; apply peq_refl].
  destruct (Nat.eqb (ltf8_extra (nth 0 bs 0%N)) 8); [apply peq_refl|apply p_bytes_gran].
Qed.

Lemma p_as_gran : forall p q, peq p q -> peq (p_as p) (p_as q).
Proof. intros p q H. unfold p_as. apply peq_bind; [exact H|intros a; apply peq_refl]. Qed.

Lemma p_repeat_gran : forall (A : Type) n (p q : prog (A * list N)), peq p q -> peq (p_repeat n p) (p_repeat n q).
Proof.
  intros A n p q H. induction n as [|n IH]; [apply peq_refl|].
  cbn [p_repeat]. apply peq_bind; [exact H|]. intros a. apply peq_bind; [exact IH|intros b; apply peq_refl].
Qed.

Lemma p_dc_fields_gran : peq (p_dc_fields true) (p_dc_fields false).
Proof.
  unfold p_dc_fields. apply peq_read. intros b4. cbv zeta.
  destruct (negb (le_dec b4 <? 2147483648)%N); [apply peq_refl|].
  apply peq_bind; [apply p_itf8_gran|intros rid].
  apply peq_bind; [apply p_itf8_gran|intros start].
  apply peq_bind; [apply p_itf8_gran|intros span].
  destruct (negb (ctx_ok (fst rid) (fst start) (fst span))); [apply peq_refl|].
  apply peq_bind; [apply p_as_gran, p_itf8_gran|intros nrec].
  apply peq_bind; [apply p_as_gran, p_ltf8_gran|intros counter].
  apply peq_bind; [apply p_as_gran, p_ltf8_gran|intros bases].
  apply peq_bind; [apply p_as_gran, p_itf8_gran|intros nblocks].
  apply peq_bind; [apply p_as_gran, p_itf8_gran|intros nl].
  apply peq_bind; [apply p_repeat_gran, p_as_gran, p_itf8_gran|intros lms]. apply peq_refl.
Qed.

(* the byte-by-byte reads of the async reader and the grouped reads of the sync reader frame
   the same container on every byte string *)
Theorem p_read_container_gran : forall crc, peq (p_read_container crc true) (p_read_container crc false).
Proof.
  intros crc. unfold p_read_container, p_read_header.
  apply peq_bind; [|intros a; apply peq_refl].
  apply peq_bind; [apply p_dc_fields_gran|intros a; apply peq_refl].
Qed.

(* ---- programs over a reader ------------------------------------------------------------------- *)

Section Spec.
  Context {S : Type}.
  Variable rd : reader S.
  Variable Rep : S -> list N -> nat -> Prop.
  Hypothesis Hsim : simulates rd Rep.
  Variable req : nat -> nat.
  Variable fuelf : S -> nat -> nat.
  Hypothesis Hfuel : forall s d m n, Rep s d m -> m + n < fuelf s n.

  Definition rr_of {A : Type} (x : pres A) : rr A :=
    match x with POk a _ => RVal a | PErr e => RErr e end.

  (* whatever the reader's schedule and whatever sizes read_to_end asks for *)
  Theorem run_rd_spec : forall (A : Type) (p : prog A) s d m, Rep s d m ->
    exists s' d' m', run_rd rd req fuelf p s = (rr_of (run_pure p d), s')
      /\ Rep s' d' m' /\ (forall a r, run_pure p d = POk a r -> d' = r).
  Proof.
    intros A p. induction p as [a|e|n k IH|n k IH]; intros s d m HR.
    - exists s, d, m. cbn. split; [reflexivity|]. split; [exact HR|]. intros a0 r E. inversion E. reflexivity.
    - exists s, d, m. cbn. split; [reflexivity|]. split; [exact HR|]. intros a0 r E. discriminate E.
    - cbn [run_rd run_pure].
      destruct (read_exact_spec rd Rep Hsim (fuelf s n) s d m n HR (Hfuel s d m n HR)) as [s1 [m1 [E [HR1 _]]]].
      rewrite E. destruct (n <=? length d).
      + destruct (IH (firstn n d) s1 (skipn n d) m1 HR1) as [s2 [d2 [m2 [E2 [HR2 H2]]]]].
        exists s2, d2, m2. auto.
      + exists s1, (skipn n d), m1. cbn. split; [reflexivity|]. split; [exact HR1|]. intros a r X. discriminate X.
    - cbn [run_rd run_pure].
      destruct (drain_loop_spec rd Rep Hsim req (fuelf s n) s d m n [] HR (Hfuel s d m n HR)) as [s1 [m1 [E [HR1 _]]]].
      rewrite E. cbn [app].
      destruct (IH (firstn n d) s1 (skipn n d) m1 HR1) as [s2 [d2 [m2 [E2 [HR2 H2]]]]].
      exists s2, d2, m2. destruct (n <=? length d); auto.
  Qed.

  (* ---- the queries -------------------------------------------------------------------------- *)
  Variable crc : list N -> N.
  Variable f : list mcont.
  Variable file : list N.
  Variable seek : S -> N -> option S.
  Hypothesis Hseek : forall s d m off, Rep s d m -> exists s' m', seek s off = Some s' /\ Rep s' (at_ off file) m'.
  Variable g : bool.

  Lemma container_rd : forall s d m, Rep s d m ->
    exists s' d' m',
      run_rd rd req fuelf (p_read_container crc g) s = (rr_of (run_pure (p_read_container crc false) d), s')
      /\ Rep s' d' m' /\ (forall a r, run_pure (p_read_container crc false) d = POk a r -> d' = r).
  Proof.
    intros s d m HR.
    destruct (run_rd_spec _ (p_read_container crc g) s d m HR) as [s' [d' [m' [E [HR' H]]]]].
    assert (G : run_pure (p_read_container crc g) d = run_pure (p_read_container crc false) d)
      by (destruct g; [apply p_read_container_gran|reflexivity]).
    rewrite G in E, H. exists s', d', m'. auto.
  Qed.

  Lemma query_b_spec : forall es s d m r lo hi, Rep s d m ->
    exists s' d' m',
      query_b crc f rd req fuelf seek g es s r lo hi = (query_p crc f file es r lo hi, s') /\ Rep s' d' m'.
  Proof.
    induction es as [|e t IH]; intros s d m r lo hi HR.
    - exists s, d, m. auto.
    - cbn [query_b query_p]. destruct (opt_eqb (e_rid e) r); [|apply (IH s d m); exact HR].
      destruct (Hseek s d m (e_off e) HR) as [s1 [m1 [Es HR1]]]. rewrite Es.
      destruct (container_rd s1 _ m1 HR1) as [s2 [d2 [m2 [E2 [HR2 _]]]]]. rewrite E2.
      destruct (run_pure (p_read_container crc false) (at_ (e_off e) file)) as [[[[h hl] body] eof] rest|x]; cbn [rr_of].
      + destruct eof; [exists s2, d2, m2; auto|].
        destruct (visit crc f e h body) as [recs|x]; [|exists s2, d2, m2; auto].
        destruct (IH s2 d2 m2 r lo hi HR2) as [s3 [d3 [m3 [E3 HR3]]]]. rewrite E3.
        exists s3, d3, m3. split; [|exact HR3]. destruct (query_p crc f file t r lo hi); reflexivity.
      + exists s2, d2, m2. auto.
  Qed.

  Lemma queries_b_spec : forall nrefs es qs s d m, Rep s d m ->
    queries_b crc f rd req fuelf seek g nrefs es s qs
    = map (fun q => query_region_p crc f file nrefs es (fst (fst q)) (snd (fst q)) (snd q)) qs.
  Proof.
    intros nrefs es. induction qs as [|[[r lo] hi] t IH]; intros s d m HR; [reflexivity|].
    cbn [queries_b map fst snd]. unfold query_region_b, query_region_p.
    destruct (r <? nrefs)%N.
    - destruct (query_b_spec es s d m r (fst (region_bounds lo hi)) (snd (region_bounds lo hi)) HR) as [s' [d' [m' [E HR']]]].
      rewrite E. f_equal. apply (IH s' d' m' HR').
    - f_equal. apply (IH s d m HR).
  Qed.

  Lemma records_b_spec : forall fuel pos s d m, Rep s d m ->
    exists s' d' m',
      records_b crc f rd req fuelf g fuel pos s = (records_p crc f fuel pos d, s') /\ Rep s' d' m'.
  Proof.
    induction fuel as [|k IH]; intros pos s d m HR; [exists s, d, m; auto|].
    cbn [records_b records_p].
    destruct (container_rd s d m HR) as [s2 [d2 [m2 [E2 [HR2 H2]]]]]. rewrite E2.
    destruct (run_pure (p_read_container crc false) d) as [[[[h hl] body] eof] rest|x]; cbn [rr_of].
    - specialize (H2 _ _ eq_refl). subst d2.
      destruct eof; [exists s2, rest, m2; auto|].
      destruct (visit_all crc f pos h body) as [recs|x]; [|exists s2, rest, m2; auto].
      destruct (IH (pos + hl + N.of_nat (length body))%N s2 rest m2 HR2) as [s3 [d3 [m3 [E3 HR3]]]]. rewrite E3.
      exists s3, d3, m3. split; [|exact HR3].
      destruct (records_p crc f k (pos + hl + N.of_nat (length body))%N rest); reflexivity.
    - exists s2, d2, m2. auto.
  Qed.

  Lemma query_unmapped_b_spec : forall es s d m, Rep s d m ->
    fst (query_unmapped_b crc f file rd req fuelf seek g es s) = query_unmapped_p crc f file es.
  Proof.
    intros es s d m HR. unfold query_unmapped_b, query_unmapped_p.
    destruct (find entry_unmapped es) as [e|]; [|reflexivity].
    destruct (Hseek s d m (e_off e) HR) as [s1 [m1 [Es HR1]]]. rewrite Es.
    destruct (records_b_spec (Datatypes.S (length file)) (e_off e) s1 _ m1 HR1) as [s2 [d2 [m2 [E2 _]]]].
    rewrite E2. destruct (records_p crc f (Datatypes.S (length file)) (e_off e) (at_ (e_off e) file)); reflexivity.
  Qed.
End Spec.

(* ---- the polled seek lands on its target under every script --------------------------------- *)

Lemma seek_await_flight : forall sc fuel c off, length sc < fuel ->
  exists sc', seek_await fuel (mkSk c (Some off)) None sc = Some (off, mkSk off None, sc').
Proof.
  induction sc as [|b sc IH]; intros fuel c off Hf; (destruct fuel as [|fuel]; [inversion Hf|]).
  - cbn. exists []. reflexivity.
  - cbn [seek_await seek_poll sk_next]. destruct b.
    + cbn [sk_poll_complete]. apply IH. cbn [length] in Hf. lia.
    + cbn. exists sc. reflexivity.
Qed.

Theorem seek_await_lands : forall sc fuel c off, length sc < fuel ->
  exists sc', seek_await fuel (mkSk c None) (Some off) sc = Some (off, mkSk off None, sc').
Proof.
  induction sc as [|b sc IH]; intros fuel c off Hf; (destruct fuel as [|fuel]; [inversion Hf|]).
  - cbn. exists []. reflexivity.
  - cbn [seek_await seek_poll sk_next]. destruct b.
    + cbn [sk_poll_complete]. apply IH. cbn [length] in Hf. lia.
    + cbn [sk_poll_complete sk_target sk_pos]. destruct sc as [|b2 sc2].
      * cbn. exists []. reflexivity.
      * cbn [sk_next]. destruct b2.
        -- cbn [sk_poll_complete]. apply seek_await_flight. cbn [length] in Hf. lia.
        -- cbn. exists sc2. reflexivity.
Qed.

(* ---- the two instances ------------------------------------------------------------------------ *)

Definition a_rep (s : a_state) (d : list N) (m : nat) : Prop := rep_a (fst s) d m.

Lemma a_rd_simulates : simulates a_rd a_rep.
Proof.
  intros s d m n HR. unfold a_rd. pose proof (aread_simulates (fst s) d m n HR) as H.
  destruct (aread (fst s) n) as [[bs|] a'].
  - destruct H as [H1 [m' [Hm H2]]]. split; [exact H1|]. exists m'. split; [exact Hm|exact H2].
  - destruct H as [m' [Hm H2]]. exists m'. split; [exact Hm|exact H2].
Qed.

Lemma a_fuelf_ok : forall s d m n, a_rep s d m -> m + n < a_fuelf s n.
Proof. intros s d m n H. exact (rep_a_fuel (fst s) d m n H). Qed.

Lemma a_seek_ok : forall file s d m off, a_rep s d m ->
  exists s' m', a_seek file s off = Some s' /\ a_rep s' (at_ off file) m'.
Proof.
  intros file s d m off _. unfold a_seek.
  destruct (seek_await_lands (snd s) (Datatypes.S (Datatypes.S (length (snd s))))
              (N.of_nat (length file - length (a_data (fst s)))) off ltac:(lia)) as [sc' E].
  rewrite E. eexists. exists 0. split; [reflexivity|]. split; reflexivity.
Qed.

Lemma s_seek_ok : forall file s d m off, rep_src s d m ->
  exists s' m', s_seek file s off = Some s' /\ rep_src s' (at_ off file) m'.
Proof.
  intros file s d m off _. unfold s_seek. eexists. eexists. split; [reflexivity|]. split; reflexivity.
Qed.

(* the async query under ANY read poll script, ANY seek Pending script and ANY read_to_end request
   size returns, region after region on one reader, what the byte-level query returns *)
Theorem async_queries_closed : forall crc f file codes seeks chunk p0 nrefs es qs,
  async_queries crc f file codes seeks chunk p0 nrefs es qs
  = map (fun q => query_region_p crc f file nrefs es (fst (fst q)) (snd (fst q)) (snd q)) qs.
Proof.
  intros. unfold async_queries.
  apply (queries_b_spec a_rd a_rep a_rd_simulates (fun _ => chunk) a_fuelf a_fuelf_ok crc f file
           (a_seek file) (a_seek_ok file) true nrefs es qs (a_init file codes seeks p0) (at_ p0 file) 0).
  split; reflexivity.
Qed.

Theorem sync_queries_closed : forall crc f file script p0 nrefs es qs,
  sync_queries crc f file script p0 nrefs es qs
  = map (fun q => query_region_p crc f file nrefs es (fst (fst q)) (snd (fst q)) (snd q)) qs.
Proof.
  intros. unfold sync_queries.
  apply (queries_b_spec src_read rep_src src_simulates (fun _ => 32) src_fuel rep_src_fuel crc f file
           (s_seek file) (s_seek_ok file) false nrefs es qs (mkSource (at_ p0 file) script) (at_ p0 file)
           (n_interrupted script)).
  split; reflexivity.
Qed.

Theorem async_queries_equal_sync : forall crc f file codes seeks chunk script p0 nrefs es qs,
  async_queries crc f file codes seeks chunk p0 nrefs es qs = sync_queries crc f file script p0 nrefs es qs.
Proof. intros. rewrite async_queries_closed, sync_queries_closed. reflexivity. Qed.

Theorem async_query_unmapped_closed : forall crc f file codes seeks chunk p0 es,
  async_query_unmapped crc f file codes seeks chunk p0 es = query_unmapped_p crc f file es.
Proof.
  intros. unfold async_query_unmapped.
  apply (query_unmapped_b_spec a_rd a_rep a_rd_simulates (fun _ => chunk) a_fuelf a_fuelf_ok crc f file
           (a_seek file) (a_seek_ok file) true es (a_init file codes seeks p0) (at_ p0 file) 0).
  split; reflexivity.
Qed.

Theorem sync_query_unmapped_closed : forall crc f file script p0 es,
  sync_query_unmapped crc f file script p0 es = query_unmapped_p crc f file es.
Proof.
  intros. unfold sync_query_unmapped.
  apply (query_unmapped_b_spec src_read rep_src src_simulates (fun _ => 32) src_fuel rep_src_fuel crc f file
           (s_seek file) (s_seek_ok file) false es (mkSource (at_ p0 file) script) (at_ p0 file)
           (n_interrupted script)).
  split; reflexivity.
Qed.

Theorem async_query_unmapped_equals_sync : forall crc f file codes seeks chunk script p0 es,
  async_query_unmapped crc f file codes seeks chunk p0 es = sync_query_unmapped crc f file script p0 es.
Proof. intros. rewrite async_query_unmapped_closed, sync_query_unmapped_closed. reflexivity. Qed.

(* ---- the byte-level query is the layout-level query of NV.CramIdx.Multi ------------------------ *)

Local Open Scope N_scope.

Section Link.
  Variable crc : list N -> N.
  Variable file : list N.

  (* a container of the layout as the reader's program frames it in the file: the header (CRC
     verified, not the EOF container) and the body are read at its offset, the header stores the
     landmarks of the layout, and every slice starts with a slice header block *)
  Definition cont_read (c : mcont) : Prop :=
    exists h hl body rest,
      run_pure (p_read_container crc false) (at_ (m_off c) file) = POk (h, hl, body, false) rest /\
      m_len c = N.of_nat (length body) /\
      ch_landmarks h = map s_landmark (m_slices c) /\
      Forall (BytesProofs.slice_at crc body) (m_slices c).

  Lemma sel_slices_spec : forall body lm ss,
    sl_ok (N.of_nat (length body)) ss -> Forall (BytesProofs.slice_at crc body) ss ->
    sel_slices crc body (map s_landmark ss) ss lm
    = BOk (flat_map s_recs (filter (fun s => s_landmark s =? lm) ss)).
  Proof.
    intros body lm. induction ss as [|s t IH]; intros Hl Hs; [reflexivity|].
    inversion Hs as [|s' t' Hs1 Hs2]; subst s' t'.
    cbn [sl_ok] in Hl. destruct Hl as [Hn Hl]. specialize (IH Hl Hs2).
    cbn [map sel_slices filter].
    assert (Hnxt : match map s_landmark t with [] => N.of_nat (length body) | l' :: _ => l' end
                   = s_landmark s + s_len s).
    { destruct t as [|s2 t2]; cbn [map]; [exact Hn|exact Hn]. }
    rewrite Hnxt. destruct (s_landmark s =? lm) eqn:E.
    - destruct Hs1 as [src [sh [rest [H1 [H2 _]]]]]. rewrite H1, H2, IH. cbn [flat_map]. reflexivity.
    - exact IH.
  Qed.

  Lemma existsb_landmark : forall lm ss,
    existsb (fun l => l =? lm) (map s_landmark ss)
    = match filter (fun s => s_landmark s =? lm) ss with [] => false | _ => true end.
  Proof.
    intros lm. induction ss as [|s t IH]; [reflexivity|].
    cbn [map existsb filter]. destruct (s_landmark s =? lm); [reflexivity|exact IH].
  Qed.

  Lemma visit_spec : forall f e c h body,
    find_m (e_off e) f = Some c ->
    sl_ok (N.of_nat (length body)) (m_slices c) ->
    ch_landmarks h = map s_landmark (m_slices c) ->
    Forall (BytesProofs.slice_at crc body) (m_slices c) ->
    visit crc f e h body
    = match slices_at (e_landmark e) c with
      | [] => BErr InvalidData
      | ss => BOk (flat_map s_recs ss)
      end.
  Proof.
    intros f e c h body Hf Hl Hlm Hs. unfold visit, slices_of. rewrite Hf, Hlm.
    assert (Hc : comp_range_ok (mkchdr (ch_len h) (ch_rid h) (ch_start h) (ch_span h) (ch_nrec h)
                                 (ch_counter h) (ch_bases h) (ch_nblocks h) (map s_landmark (m_slices c))) body = true).
    { unfold comp_range_ok. cbn [ch_landmarks]. destruct (m_slices c) as [|s t]; [reflexivity|]. cbn [map].
      inversion Hs as [|s' t' Hs1 _]; subst s' t'. destruct Hs1 as [src [sh [rest [H1 _]]]].
      unfold slice_bytes in H1.
      destruct ((s_landmark s <=? s_landmark s + s_len s) && (s_landmark s + s_len s <=? N.of_nat (length body))) eqn:E; [|discriminate].
      apply andb_prop in E. destruct E as [E1 E2]. apply N.leb_le in E1, E2. apply N.leb_le. lia. }
    unfold comp_range_ok in *. cbn [ch_landmarks] in Hc. rewrite Hlm, Hc. cbn [negb].
    rewrite existsb_landmark, (sel_slices_spec body (e_landmark e) (m_slices c) Hl Hs).
    unfold slices_at. destruct (filter (fun s => s_landmark s =? e_landmark e) (m_slices c)); reflexivity.
  Qed.

  Definition lift_q (x : result (list rec)) : ares (list rec) :=
    match x with
    | Ok l => AOk l
    | ErrInvalidData => AErr InvalidData
    | ErrUnexpectedEof => AErr UnexpectedEof
    | ErrInvalidInput => AInvalidInput
    | Panic => AErr OutOfFuel
    end.

  Theorem query_p_is_query_m : forall f pos es r lo hi,
    mlayout_ok pos f -> Forall cont_read f ->
    Forall (fun e => exists c, In c f /\ e_off e = m_off c) es ->
    query_p crc f file es r lo hi = lift_q (query_m selected es f r lo hi).
  Proof.
    intros f pos es r lo hi Hl Hc. induction es as [|e t IH]; intros He; [reflexivity|].
    inversion He as [|e' t' He1 He2]; subst e' t'. specialize (IH He2).
    cbn [query_p query_m]. destruct (opt_eqb (e_rid e) r); [|exact IH].
    destruct He1 as [c [Hin Hoff]].
    pose proof (find_m_hit f pos c Hl Hin) as Hf. rewrite <- Hoff in Hf. rewrite Hf.
    rewrite Forall_forall in Hc. destruct (Hc c Hin) as [h [hl [body [rest [Hr [Hlen [Hlm Hs]]]]]]].
    rewrite Hoff, Hr.
    assert (Hsl : sl_ok (N.of_nat (length body)) (m_slices c)).
    { rewrite <- Hlen. clear - Hl Hin. revert pos Hl. induction f as [|x f' IHf]; intros pos Hl; [destruct Hin|].
      cbn [mlayout_ok] in Hl. destruct Hl as [_ [_ [Hx Hl]]].
      destruct Hin as [Hin|Hin]; [subst x; exact Hx|exact (IHf Hin _ Hl)]. }
    rewrite (visit_spec f e c h body Hf Hsl Hlm Hs).
    destruct (slices_at (e_landmark e) c) as [|s0 ss0]; [reflexivity|].
    rewrite IH. destruct (query_m selected t f r lo hi); reflexivity.
  Qed.
End Link.

(* the async reader's query, under every poll script, returns exactly what a scan keeps: on a
   well-formed file whose containers the reader frames as the layout says, with the index built
   by [index_m] *)
Theorem async_query_equals_scan : forall crc f file pos es codes seeks chunk p0 nrefs r lo hi,
  mfile_ok pos f -> index_m pos f = Ok es -> Forall (cont_read crc file) f ->
  (r <? nrefs)%N = true ->
  async_queries crc f file codes seeks chunk p0 nrefs es [(r, lo, hi)]
  = [AOk (scan_m f r (fst (region_bounds lo hi)) (snd (region_bounds lo hi)))].
Proof.
  intros crc f file pos es codes seeks chunk p0 nrefs r lo hi Hok Hi Hc Hr.
  rewrite async_queries_closed. cbn [map fst snd]. unfold query_region_p. rewrite Hr. cbv zeta.
  assert (He : Forall (fun e => exists c, In c f /\ e_off e = m_off c) es).
  { rewrite (index_m_spec f pos Hok) in Hi. inversion Hi. subst es. clear Hi.
    apply Forall_forall. intros e Hin. apply in_flat_map in Hin. destruct Hin as [c [Hc1 Hc2]].
    exists c. split; [exact Hc1|]. unfold mspec_entries in Hc2. exact (mspec_entries_off _ _ _ _ Hc2). }
  rewrite (query_p_is_query_m crc file f pos es r _ _ (proj1 Hok) Hc He).
  rewrite (query_m_equals_scan pos f es r _ _ Hok Hi). reflexivity.
Qed.
