(* Proofs about NV.CramIdx.Crai (C19). *)
From Coq Require Import List NArith Bool Lia ZifyBool ZifyN.
From NV Require Import CramIdx.Crai.
Import ListNotations.
Open Scope N_scope.
Arguments N.add : simpl never.
Arguments N.sub : simpl never.
Arguments N.min : simpl never.
Arguments N.max : simpl never.

(* ---------------------------------------------------------------------------------------- *)
(* keys                                                                                       *)

Fixpoint ssorted (l : list N) : Prop :=
  match l with
  | [] => True
  | h :: t => (forall x, In x t -> h < x) /\ ssorted t
  end.

Lemma In_insert_key : forall k l x, In x (insert_key k l) <-> x = k \/ In x l.
Proof.
  intros k l; induction l as [|h t IH]; intros x; cbn [insert_key In].
  - intuition.
  - destruct (k <? h) eqn:E1; [cbn [In]; intuition|].
    destruct (k =? h) eqn:E2.
    + apply N.eqb_eq in E2. subst h. cbn [In]. intuition.
    + cbn [In]. rewrite IH. intuition.
Qed.

Lemma ssorted_insert_key : forall k l, ssorted l -> ssorted (insert_key k l).
Proof.
  intros k l; induction l as [|h t IH]; intros Hs; cbn [insert_key].
  - cbn. split; [intros x []|exact I].
  - destruct Hs as [Hh Ht].
    destruct (k <? h) eqn:E1.
    + cbn [ssorted]. split; [|split; assumption].
      intros x [Hx|Hx]; [subst x; lia|]. specialize (Hh x Hx). lia.
    + destruct (k =? h) eqn:E2; [cbn [ssorted]; split; assumption|].
      cbn [ssorted]. split; [|apply IH; exact Ht].
      intros x Hx. apply In_insert_key in Hx. destruct Hx as [Hx|Hx]; [subst x; lia|apply Hh; exact Hx].
Qed.

Lemma ssorted_NoDup : forall l, ssorted l -> NoDup l.
Proof.
  induction l as [|h t IH]; intros Hs; [constructor|].
  destruct Hs as [Hh Ht]. constructor; [|apply IH; exact Ht].
  intros Hin. specialize (Hh h Hin). lia.
Qed.

Lemma ssorted_mapped_keys : forall recs, ssorted (mapped_keys recs).
Proof.
  induction recs as [|x t IH]; cbn [mapped_keys fold_right]; [exact I|].
  fold (mapped_keys t). destruct (rid x); [apply ssorted_insert_key; exact IH|exact IH].
Qed.

Lemma In_mapped_keys : forall recs r, In r (mapped_keys recs) <-> exists x, In x recs /\ rid x = Some r.
Proof.
  induction recs as [|x t IH]; intros r; cbn [mapped_keys fold_right].
  - split; [intros []|intros [x [[] _]]].
  - fold (mapped_keys t). destruct (rid x) as [rx|] eqn:Ex.
    + rewrite In_insert_key, IH. split.
      * intros [Hr|[y [Hy Hr]]]; [subst rx; exists x; split; [left; reflexivity|exact Ex]|].
        exists y; split; [right; exact Hy|exact Hr].
      * intros [y [[Hy|Hy] Hr]]; [subst y; left; congruence|right; exists y; split; assumption].
    + rewrite IH. split.
      * intros [y [Hy Hr]]; exists y; split; [right; exact Hy|exact Hr].
      * intros [y [[Hy|Hy] Hr]]; [subst y; congruence|exists y; split; assumption].
Qed.

Lemma on_ref_true : forall r x, on_ref r x = true <-> rid x = Some r.
Proof.
  intros r x; unfold on_ref; destruct (rid x) as [r'|]; split; intros H; try discriminate.
  - apply N.eqb_eq in H. subst r'. reflexivity.
  - injection H as H. subst r'. apply N.eqb_refl.
Qed.

Lemma existsb_on_ref_keys : forall recs r, existsb (on_ref r) recs = true <-> In r (mapped_keys recs).
Proof.
  intros recs r. rewrite existsb_exists, In_mapped_keys.
  split; intros [x [Hx Hr]]; exists x; (split; [exact Hx|]); apply on_ref_true; exact Hr.
Qed.

(* ---------------------------------------------------------------------------------------- *)
(* ranges                                                                                     *)

Definition rstep (r : N) (acc : N * N) (x : rec) : N * N :=
  if on_ref r x then (N.min (fst acc) (rs x), N.max (snd acc) (re x)) else acc.

Lemma range_of_unfold : forall r recs, range_of r recs = fold_left (rstep r) recs (usize_max, 0).
Proof. reflexivity. Qed.

Lemma rstep_fold_bounds : forall r recs acc,
  let res := fold_left (rstep r) recs acc in
  fst res <= fst acc /\ snd acc <= snd res /\
  (forall x, In x recs -> rid x = Some r -> fst res <= rs x /\ re x <= snd res).
Proof.
  intros r recs; induction recs as [|y t IH]; intros acc; cbn [fold_left].
  - cbn zeta. split; [lia|split; [lia|intros x []]].
  - specialize (IH (rstep r acc y)). cbn zeta in *. destruct IH as [H1 [H2 H3]].
    assert (Hs : fst (rstep r acc y) <= fst acc /\ snd acc <= snd (rstep r acc y)).
    { unfold rstep. destruct (on_ref r y); cbn [fst snd]; lia. }
    split; [lia|split; [lia|]].
    intros x [Hx|Hx] Hr; [|apply H3; assumption].
    subst y. assert (Ho : on_ref r x = true) by (apply on_ref_true; exact Hr).
    assert (Hx : fst (rstep r acc x) <= rs x /\ re x <= snd (rstep r acc x)).
    { unfold rstep. rewrite Ho. cbn [fst snd]. lia. }
    lia.
Qed.

(* the minimum / maximum are attained *)
Lemma rstep_cases : forall r acc y,
  (rstep r acc y = acc) \/
  (rid y = Some r /\ (fst (rstep r acc y) = fst acc \/ fst (rstep r acc y) = rs y)
                 /\ (snd (rstep r acc y) = snd acc \/ snd (rstep r acc y) = re y)).
Proof.
  intros r acc y. unfold rstep. destruct (on_ref r y) eqn:Ho; [right|left; reflexivity].
  apply on_ref_true in Ho. cbn [fst snd]. split; [exact Ho|]. split.
  - destruct (N.min_spec (fst acc) (rs y)) as [[_ Hm]|[_ Hm]]; rewrite Hm; auto.
  - destruct (N.max_spec (snd acc) (re y)) as [[_ Hm]|[_ Hm]]; rewrite Hm; auto.
Qed.

Lemma rstep_fold_attained : forall r recs acc,
  let res := fold_left (rstep r) recs acc in
  (fst res = fst acc \/ exists x, In x recs /\ rid x = Some r /\ rs x = fst res) /\
  (snd res = snd acc \/ exists x, In x recs /\ rid x = Some r /\ re x = snd res).
Proof.
  intros r recs; induction recs as [|y t IH]; intros acc; cbn [fold_left].
  - cbn zeta. split; left; reflexivity.
  - specialize (IH (rstep r acc y)). cbn zeta in *. destruct IH as [H1 H2].
    assert (K1 : forall P : rec -> Prop, (exists x, In x t /\ P x) -> exists x, In x (y :: t) /\ P x).
    { intros P [x [Hx HP]]. exists x. split; [right; exact Hx|exact HP]. }
    destruct (rstep_cases r acc y) as [Hc|[Hr [Hf Hs]]].
    + rewrite Hc in *. split.
      * destruct H1 as [H1|H1]; [left; exact H1|right; apply (K1 (fun x => rid x = Some r /\ rs x = _)); exact H1].
      * destruct H2 as [H2|H2]; [left; exact H2|right; apply (K1 (fun x => rid x = Some r /\ re x = _)); exact H2].
    + split.
      * destruct H1 as [H1|H1]; [|right; apply (K1 (fun x => rid x = Some r /\ rs x = _)); exact H1].
        destruct Hf as [Hf|Hf]; [left; congruence|].
        right. exists y. split; [left; reflexivity|split; [exact Hr|congruence]].
      * destruct H2 as [H2|H2]; [|right; apply (K1 (fun x => rid x = Some r /\ re x = _)); exact H2].
        destruct Hs as [Hs|Hs]; [left; congruence|].
        right. exists y. split; [left; reflexivity|split; [exact Hr|congruence]].
Qed.

(* ---------------------------------------------------------------------------------------- *)
(* the writer's slice context                                                                 *)

Lemma fold_ctx_multi : forall t, fold_left ctx_update t Multi = Multi.
Proof. induction t as [|x t IH]; cbn [fold_left ctx_update]; [reflexivity|exact IH]. Qed.

Lemma fold_ctx_unmapped : forall t c, fold_left ctx_update t Unmapped = c ->
  (c = Unmapped /\ Forall (fun x => rid x = None) t) \/ c = Multi.
Proof.
  induction t as [|x t IH]; intros c H; cbn [fold_left] in H.
  - left; split; [symmetry; exact H|constructor].
  - unfold ctx_update in H at 2. destruct (rid x) eqn:Ex.
    + rewrite fold_ctx_multi in H. right; symmetry; exact H.
    + destruct (IH c H) as [[Hc Hf]|Hc]; [left; split; [exact Hc|constructor; assumption]|right; exact Hc].
Qed.

Lemma fold_ctx_single : forall t r s e c, fold_left ctx_update t (Single r s e) = c ->
  c = Multi \/
  (Forall (fun x => rid x = Some r) t /\
   c = Single r (fst (fold_left (rstep r) t (s, e))) (snd (fold_left (rstep r) t (s, e)))).
Proof.
  induction t as [|x t IH]; intros r s e c H; cbn [fold_left] in *.
  - right; split; [constructor|symmetry; exact H].
  - unfold ctx_update in H at 2. destruct (rid x) as [r2|] eqn:Ex.
    + destruct (r2 =? r) eqn:E.
      * apply N.eqb_eq in E. subst r2.
        destruct (IH _ _ _ _ H) as [Hc|[Hf Hc]]; [left; exact Hc|right].
        split; [constructor; assumption|].
        assert (Ho : on_ref r x = true) by (apply on_ref_true; exact Ex).
        assert (Hst : rstep r (s, e) x = (N.min (rs x) s, N.max (re x) e)).
        { unfold rstep. rewrite Ho. cbn [fst snd]. f_equal; lia. }
        rewrite Hst. exact Hc.
      * rewrite fold_ctx_multi in H. left; symmetry; exact H.
    + rewrite fold_ctx_multi in H. left; symmetry; exact H.
Qed.

Lemma mapped_keys_all_on : forall r t, t <> [] -> Forall (fun x => rid x = Some r) t -> mapped_keys t = [r].
Proof.
  induction t as [|x t IH]; intros Hne Hf; [congruence|].
  inversion Hf as [|? ? Hx Ht]; subst. cbn [mapped_keys fold_right]. fold (mapped_keys t). rewrite Hx.
  destruct t as [|y t'].
  - reflexivity.
  - rewrite IH; [|discriminate|exact Ht]. cbn [insert_key]. rewrite N.ltb_irrefl, N.eqb_refl. reflexivity.
Qed.

Lemma mapped_keys_none : forall t, Forall (fun x => rid x = None) t -> mapped_keys t = [].
Proof.
  induction t as [|x t IH]; intros Hf; [reflexivity|].
  inversion Hf as [|? ? Hx Ht]; subst. cbn [mapped_keys fold_right]. fold (mapped_keys t). rewrite Hx. apply IH; exact Ht.
Qed.

Lemma existsb_unmapped_all_on : forall r t, Forall (fun x => rid x = Some r) t -> existsb is_unmapped t = false.
Proof.
  induction t as [|x t IH]; intros Hf; [reflexivity|].
  inversion Hf as [|? ? Hx Ht]; subst. cbn [existsb]. unfold is_unmapped at 1. rewrite Hx. cbn [orb]. apply IH; exact Ht.
Qed.

(* an entry computed from the slice header's context is the entry computed from the records *)
Lemma single_entry_is_spec : forall pos lm sl recs,
  recs <> [] -> Forall rec_ok recs -> slice_ctx recs <> Multi ->
  [single_entry pos lm sl (slice_ctx recs)] = multi_entries pos lm sl recs.
Proof.
  intros pos lm sl recs Hne Hok Hnm. destruct recs as [|x t]; [congruence|].
  unfold slice_ctx in *. unfold ctx_init in *. unfold multi_entries.
  inversion Hok as [|? ? Hx Ht]; subst. destruct Hx as [Hx1 Hx2].
  destruct (rid x) as [r|] eqn:Ex.
  - destruct (fold_ctx_single t r (rs x) (re x) _ eq_refl) as [Hc|[Hf Hc]]; [congruence|].
    rewrite Hc. cbn [single_entry].
    assert (Hall : Forall (fun y => rid y = Some r) (x :: t)) by (constructor; assumption).
    rewrite (existsb_unmapped_all_on r _ Hall), (mapped_keys_all_on r (x :: t)); [|discriminate|exact Hall].
    cbn [app map]. rewrite range_of_unfold. cbn [fold_left].
    assert (Ho : on_ref r x = true) by (apply on_ref_true; exact Ex).
    assert (Hst : rstep r (usize_max, 0) x = (rs x, re x)).
    { unfold rstep. rewrite Ho. cbn [fst snd]. f_equal; lia. }
    rewrite Hst. reflexivity.
  - destruct (fold_ctx_unmapped t _ eq_refl) as [[Hc Hf]|Hc]; [|congruence].
    rewrite Hc. cbn [single_entry existsb]. unfold is_unmapped at 1. rewrite Ex. cbn [orb].
    rewrite mapped_keys_none; [reflexivity|constructor; assumption].
Qed.

Lemma container_entries_spec : forall c,
  container_ok c -> c_len c = c_landmark c + c_slen c ->
  container_entries (c_off c) c = spec_entries c.
Proof.
  intros c [Hne [Hctx Hok]] Hlen. unfold container_entries, spec_entries.
  replace (c_len c - c_landmark c) with (c_slen c) by lia.
  rewrite Hctx.
  assert (Hs := single_entry_is_spec (c_off c) (c_landmark c) (c_slen c) (c_recs c) Hne Hok).
  destruct (slice_ctx (c_recs c)) eqn:Ec.
  - apply Hs. discriminate.
  - apply Hs. discriminate.
  - reflexivity.
Qed.

Lemma index_core_spec : forall f pos, file_ok pos f -> index_core pos f = flat_map spec_entries f.
Proof.
  induction f as [|c t IH]; intros pos [Hl Hc]; [reflexivity|].
  cbn [index_core flat_map]. cbn [layout_ok] in Hl. destruct Hl as [Hoff [Hh [Hlen Hl]]].
  inversion Hc as [|? ? Hc1 Hc2]; subst.
  rewrite container_entries_spec; [|exact Hc1|exact Hlen].
  rewrite IH; [reflexivity|split; assumption].
Qed.

(* ---------------------------------------------------------------------------------------- *)
(* properties of the per-slice entries                                                        *)

Lemma spec_entry_layout : forall c e, In e (spec_entries c) ->
  e_off e = c_off c /\ e_landmark e = c_landmark c /\ e_slen e = c_slen c.
Proof.
  intros c e. unfold spec_entries, multi_entries. rewrite in_app_iff, in_map_iff.
  intros [H|[r [H _]]].
  - destruct (existsb is_unmapped (c_recs c)); [destruct H as [H|[]]; subst e; cbn; auto|destruct H].
  - subst e. cbn. auto.
Qed.

Lemma spec_entries_rids : forall c,
  map e_rid (spec_entries c) =
  (if existsb is_unmapped (c_recs c) then [None] else []) ++ map Some (mapped_keys (c_recs c)).
Proof.
  intros c. unfold spec_entries, multi_entries. rewrite map_app, map_map. cbn [e_rid].
  destruct (existsb is_unmapped (c_recs c)); reflexivity.
Qed.

Lemma NoDup_map_Some : forall l : list N, NoDup l -> NoDup (map Some l).
Proof.
  induction l as [|h t IH]; intros H; [constructor|]. inversion H; subst. cbn [map]. constructor; [|auto].
  rewrite in_map_iff. intros [x [Hx Hin]]. injection Hx as Hx. subst x. contradiction.
Qed.

Lemma spec_entries_rids_NoDup : forall c, NoDup (map e_rid (spec_entries c)).
Proof.
  intros c. rewrite spec_entries_rids.
  assert (Hn : NoDup (map Some (mapped_keys (c_recs c)))).
  { apply NoDup_map_Some, ssorted_NoDup, ssorted_mapped_keys. }
  destruct (existsb is_unmapped (c_recs c)); cbn [app]; [|exact Hn].
  constructor; [|exact Hn]. rewrite in_map_iff. intros [x [Hx _]]. discriminate.
Qed.

(* an entry for reference r exists in a slice exactly when the slice holds a record of r *)
Lemma spec_entries_has_ref : forall c r,
  existsb (fun e => opt_eqb (e_rid e) r) (spec_entries c) = existsb (on_ref r) (c_recs c).
Proof.
  intros c r. apply eq_true_iff_eq. rewrite existsb_on_ref_keys, existsb_exists. split.
  - intros [e [He Hr]].
    assert (Hin : In (e_rid e) (map e_rid (spec_entries c))) by (apply in_map; exact He).
    rewrite spec_entries_rids, in_app_iff in Hin. unfold opt_eqb in Hr.
    destruct (e_rid e) as [x|]; [|discriminate]. apply N.eqb_eq in Hr. subst x.
    destruct Hin as [Hin|Hin].
    + destruct (existsb is_unmapped (c_recs c)); [destruct Hin as [Hin|[]]; discriminate|destruct Hin].
    + apply in_map_iff in Hin. destruct Hin as [k [Hk Hin]]. injection Hk as Hk. subst k. exact Hin.
  - intros Hin. unfold spec_entries, multi_entries.
    eexists. split; [apply in_app_iff; right; apply in_map; exact Hin|]. cbn. apply N.eqb_refl.
Qed.

(* every record of reference r lies inside the span of the slice's entry for r *)
Lemma spec_entries_cover : forall c x r,
  In x (c_recs c) -> rid x = Some r -> rec_ok x ->
  exists e st, In e (spec_entries c) /\ e_rid e = Some r /\ e_start e = Some st /\
               st <= rs x /\ re x <= st + e_span e - 1.
Proof.
  intros c x r Hx Hr [Hok1 Hok2].
  pose proof (rstep_fold_bounds r (c_recs c) (usize_max, 0)) as Hb. cbn zeta in Hb.
  destruct Hb as [_ [_ Hb]]. specialize (Hb x Hx Hr). rewrite <- range_of_unfold in Hb.
  exists (mkentry (Some r) (Some (fst (range_of r (c_recs c))))
                  (snd (range_of r (c_recs c)) - fst (range_of r (c_recs c)) + 1)
                  (c_off c) (c_landmark c) (c_slen c)), (fst (range_of r (c_recs c))).
  split.
  - unfold spec_entries, multi_entries. apply in_app_iff; right.
    apply (in_map (fun r0 => let lh := range_of r0 (c_recs c) in
                             mkentry (Some r0) (Some (fst lh)) (snd lh - fst lh + 1) (c_off c) (c_landmark c) (c_slen c))).
    apply In_mapped_keys. exists x; split; assumption.
  - cbn. split; [reflexivity|split; [reflexivity|lia]].
Qed.

(* the span is tight: its first and last positions are the start / end of records of r *)
Lemma spec_entries_tight : forall c e r st,
  Forall rec_ok (c_recs c) -> In e (spec_entries c) -> e_rid e = Some r -> e_start e = Some st ->
  (exists x, In x (c_recs c) /\ rid x = Some r /\ rs x = st) /\
  (exists y, In y (c_recs c) /\ rid y = Some r /\ re y = st + e_span e - 1).
Proof.
  intros c e r st Hok He Hr Hst. unfold spec_entries, multi_entries in He.
  apply in_app_iff in He. destruct He as [He|He].
  - destruct (existsb is_unmapped (c_recs c)); [destruct He as [He|[]]; subst e; discriminate|destruct He].
  - apply in_map_iff in He. destruct He as [k [He Hk]]. subst e. cbn in Hr, Hst |- *.
    injection Hr as Hr. subst k. injection Hst as Hst.
    apply In_mapped_keys in Hk. destruct Hk as [z [Hz Hrz]].
    pose proof (rstep_fold_bounds r (c_recs c) (usize_max, 0)) as Hb. cbn zeta in Hb.
    destruct Hb as [_ [_ Hb]]. specialize (Hb z Hz Hrz).
    pose proof (rstep_fold_attained r (c_recs c) (usize_max, 0)) as Ha. cbn zeta in Ha.
    rewrite <- range_of_unfold in Hb, Ha. cbn [fst snd] in Ha.
    assert (Hzok : rec_ok z) by (rewrite Forall_forall in Hok; apply Hok; exact Hz).
    destruct Hzok as [Hz1 Hz2]. destruct Ha as [Ha1 Ha2]. split.
    + destruct Ha1 as [Ha1|[x [Hx [Hrx Hsx]]]].
      * (* min = usize_max: then z itself starts there *)
        exists z. split; [exact Hz|split; [exact Hrz|]]. unfold usize_max in *. lia.
      * exists x. split; [exact Hx|split; [exact Hrx|lia]].
    + destruct Ha2 as [Ha2|[y [Hy [Hry Hey]]]].
      * exists z. split; [exact Hz|split; [exact Hrz|]]. lia.
      * exists y. split; [exact Hy|split; [exact Hry|]]. lia.
Qed.

(* ---------------------------------------------------------------------------------------- *)
(* query                                                                                          *)

Section Query.
Variable sel : N -> N -> N -> rec -> bool.
Variables (f : list container) (r lo hi : N).

Lemma query_skip : forall l es,
  (forall e, In e l -> opt_eqb (e_rid e) r = false) ->
  query_gen sel (l ++ es) f r lo hi = query_gen sel es f r lo hi.
Proof.
  induction l as [|e l IH]; intros es H; [reflexivity|].
  cbn [app query_gen]. rewrite (H e (or_introl eq_refl)). apply IH. intros e' He'. apply H. right; exact He'.
Qed.

Lemma query_block : forall c l es,
  find_container (c_off c) f = Some c ->
  (forall e, In e l -> e_off e = c_off c) ->
  NoDup (map e_rid l) ->
  query_gen sel (l ++ es) f r lo hi =
  (if existsb (fun e => opt_eqb (e_rid e) r) l then filter (sel r lo hi) (c_recs c) else [])
  ++ query_gen sel es f r lo hi.
Proof.
  intros c l; induction l as [|e l IH]; intros es Hfind Hoff Hnd; [reflexivity|].
  cbn [app query_gen existsb map] in *. inversion Hnd as [|? ? Hnin Hnd']; subst.
  destruct (opt_eqb (e_rid e) r) eqn:Er.
  - rewrite (Hoff e (or_introl eq_refl)), Hfind. cbn [orb]. f_equal.
    apply query_skip. intros e' He'.
    destruct (opt_eqb (e_rid e') r) eqn:Er'; [|reflexivity]. exfalso. apply Hnin.
    unfold opt_eqb in Er, Er'. destruct (e_rid e) as [a|] eqn:Ea; [|discriminate].
    destruct (e_rid e') as [b|] eqn:Eb; [|discriminate].
    apply N.eqb_eq in Er, Er'. subst a b. rewrite <- Eb. apply in_map. exact He'.
  - cbn [orb]. apply IH; [exact Hfind|intros e' He'; apply Hoff; right; exact He'|exact Hnd'].
Qed.

Definition visited (c : container) : list rec :=
  if existsb (on_ref r) (c_recs c) then filter (sel r lo hi) (c_recs c) else [].

Lemma query_spec_entries : forall g,
  (forall c, In c g -> find_container (c_off c) f = Some c) ->
  query_gen sel (flat_map spec_entries g) f r lo hi = flat_map visited g.
Proof.
  induction g as [|c g IH]; intros Hfind; [reflexivity|].
  cbn [flat_map]. rewrite (query_block c).
  - rewrite spec_entries_has_ref. unfold visited at 1. f_equal. apply IH.
    intros c' Hc'. apply Hfind. right; exact Hc'.
  - apply Hfind. left; reflexivity.
  - intros e He. apply (spec_entry_layout c e He).
  - apply spec_entries_rids_NoDup.
Qed.
End Query.

(* seeking to the offset of a container of a well laid out file finds that container *)
Lemma layout_offsets_ge : forall f pos c, layout_ok pos f -> In c f -> pos <= c_off c.
Proof.
  induction f as [|h t IH]; intros pos c Hl Hin; [destruct Hin|].
  cbn [layout_ok] in Hl. destruct Hl as [Hoff [Hh [Hlen Hl]]].
  destruct Hin as [Hin|Hin]; [subst h; lia|]. specialize (IH _ _ Hl Hin). lia.
Qed.

Lemma find_container_hit : forall f pos c, layout_ok pos f -> In c f -> find_container (c_off c) f = Some c.
Proof.
  induction f as [|h t IH]; intros pos c Hl Hin; [destruct Hin|].
  cbn [layout_ok] in Hl. destruct Hl as [Hoff [Hh [Hlen Hl]]]. cbn [find_container].
  destruct Hin as [Hin|Hin].
  - subst h. rewrite N.eqb_refl. reflexivity.
  - pose proof (layout_offsets_ge _ _ _ Hl Hin) as Hge.
    destruct (c_off h =? c_off c) eqn:E; [apply N.eqb_eq in E; lia|].
    apply (IH _ _ Hl Hin).
Qed.

Lemma filter_flat_map : forall (A B : Type) (p : B -> bool) (g : A -> list B) l,
  filter p (flat_map g l) = flat_map (fun a => filter p (g a)) l.
Proof.
  intros A B p g l; induction l as [|a l IH]; [reflexivity|].
  cbn [flat_map]. rewrite filter_app, IH. reflexivity.
Qed.

Lemma flat_map_ext_in : forall (A B : Type) (g h : A -> list B) l,
  (forall a, In a l -> g a = h a) -> flat_map g l = flat_map h l.
Proof.
  intros A B g h l; induction l as [|a l IH]; intros H; [reflexivity|].
  cbn [flat_map]. rewrite (H a (or_introl eq_refl)), IH; [reflexivity|]. intros b Hb. apply H. right; exact Hb.
Qed.

Lemma filter_none : forall (A : Type) (p : A -> bool) l, (forall x, In x l -> p x = false) -> filter p l = [].
Proof.
  intros A p l; induction l as [|x t IH]; intros H; [reflexivity|].
  cbn [filter]. rewrite (H x (or_introl eq_refl)). apply IH. intros y Hy. apply H. right; exact Hy.
Qed.

Lemma selected_on_ref : forall r lo hi x, selected r lo hi x = true -> on_ref r x = true.
Proof. intros r lo hi x H. unfold selected in H. apply andb_prop in H. apply H. Qed.

(* what the indexed query returns, for ANY record filter *)
Theorem query_gen_characterised : forall sel pos f r lo hi,
  file_ok pos f ->
  query_gen sel (index_core pos f) f r lo hi = flat_map (visited sel r lo hi) f.
Proof.
  intros sel pos f r lo hi Hok. rewrite (index_core_spec f pos Hok).
  apply query_spec_entries. intros c Hc. destruct Hok as [Hl _]. apply (find_container_hit f pos c Hl Hc).
Qed.

(* with the reference-aware filter the query equals the scan on every well-formed file *)
Theorem query_equals_scan : forall pos f r lo hi,
  file_ok pos f -> query (index_core pos f) f r lo hi = scan f r lo hi.
Proof.
  intros pos f r lo hi Hok. unfold query, scan.
  rewrite (query_gen_characterised _ _ _ _ _ _ Hok), filter_flat_map.
  apply flat_map_ext_in. intros c _. unfold visited.
  destruct (existsb (on_ref r) (c_recs c)) eqn:E; [reflexivity|].
  symmetry. assert (Hnone : forall x, In x (c_recs c) -> selected r lo hi x = false).
  { intros x Hx. destruct (selected r lo hi x) eqn:Es; [|reflexivity].
    apply selected_on_ref in Es.
    assert (Hex : existsb (on_ref r) (c_recs c) = true) by (apply existsb_exists; exists x; split; assumption).
    congruence. }
  apply filter_none. exact Hnone.
Qed.

(* with the interval-only filter of the old query.rs the query equals the scan outside the F17 class *)
Theorem query_old_equals_scan_outside_f17 : forall pos f r lo hi,
  file_ok pos f -> ~ f17_class f r lo hi -> query_old (index_core pos f) f r lo hi = scan f r lo hi.
Proof.
  intros pos f r lo hi Hok Hn.
  rewrite <- (query_equals_scan pos f r lo hi Hok). unfold query_old, query.
  rewrite !(query_gen_characterised _ _ _ _ _ _ Hok).
  apply flat_map_ext_in. intros c Hc. unfold visited.
  destruct (existsb (on_ref r) (c_recs c)) eqn:E; [|reflexivity].
  apply existsb_exists in E. destruct E as [x [Hx Hox]].
  apply filter_ext_in. intros y Hy. unfold selected_old, selected.
  destruct (on_ref r y) eqn:Eo; [reflexivity|]. cbn [andb].
  destruct (intersects lo hi y) eqn:Ei; [|reflexivity].
  exfalso. apply Hn. exists c, x, y. repeat split; assumption.
Qed.

(* ... and inside the class it does not: records of another reference are returned *)
Definition f17_witness : list container :=
  [written 100 20 60 10 50 [mkrec 0 (Some 0) 5 8 false; mkrec 1 (Some 1) 6 9 false]].

Lemma f17_witness_ok : file_ok 100 f17_witness.
Proof.
  split.
  - cbn. repeat split; reflexivity.
  - constructor; [|constructor]. split; [discriminate|split; [reflexivity|]].
    repeat constructor; cbn; unfold usize_max; lia.
Qed.

Lemma query_old_equals_scan_refuted :
  exists pos f r lo hi, file_ok pos f /\ query_old (index_core pos f) f r lo hi <> scan f r lo hi.
Proof.
  exists 100, f17_witness, 0, 1, 10. split; [exact f17_witness_ok|]. vm_compute. discriminate.
Qed.

(* results are in file order, each record at most once, when read names are distinct *)
Lemma scan_sublist_NoDup : forall f r lo hi,
  NoDup (map rname (flat_map c_recs f)) -> NoDup (map rname (scan f r lo hi)).
Proof.
  intros f r lo hi. unfold scan. generalize (flat_map c_recs f) as l.
  induction l as [|x t IH]; intros Hnd; [constructor|].
  cbn [map] in Hnd. inversion Hnd as [|? ? Hnin Hnd']; subst. cbn [filter].
  destruct (selected r lo hi x); [|apply IH; exact Hnd'].
  cbn [map]. constructor; [|apply IH; exact Hnd'].
  intros Hin. apply Hnin. apply in_map_iff in Hin. destruct Hin as [y [Hy Hin]].
  apply filter_In in Hin. rewrite <- Hy. apply in_map. apply Hin.
Qed.

(* ---------------------------------------------------------------------------------------- *)
(* statements in the form used by props/C19.v                                                 *)

Lemma spec_entries_ref_iff : forall c r,
  (exists e, In e (spec_entries c) /\ e_rid e = Some r) <-> (exists x, In x (c_recs c) /\ rid x = Some r).
Proof.
  intros c r. rewrite <- In_mapped_keys, <- existsb_on_ref_keys, <- spec_entries_has_ref, existsb_exists.
  split; intros [e [He Hr]]; exists e; (split; [exact He|]).
  - rewrite Hr. cbn. apply N.eqb_refl.
  - unfold opt_eqb in Hr. destruct (e_rid e) as [x|]; [|discriminate]. apply N.eqb_eq in Hr. subst x. reflexivity.
Qed.

Lemma spec_entries_unmapped_iff : forall c,
  (exists e, In e (spec_entries c) /\ e_rid e = None) <-> (exists x, In x (c_recs c) /\ rid x = None).
Proof.
  intros c. split.
  - intros [e [He Hr]].
    assert (Hin : In None (map e_rid (spec_entries c))) by (rewrite <- Hr; apply in_map; exact He).
    rewrite spec_entries_rids, in_app_iff in Hin. destruct Hin as [Hin|Hin].
    + destruct (existsb is_unmapped (c_recs c)) eqn:E; [|destruct Hin].
      apply existsb_exists in E. destruct E as [x [Hx Hu]]. exists x. split; [exact Hx|].
      unfold is_unmapped in Hu. destruct (rid x); [discriminate|reflexivity].
    + apply in_map_iff in Hin. destruct Hin as [k [Hk _]]. discriminate.
  - intros [x [Hx Hr]]. unfold spec_entries, multi_entries.
    assert (E : existsb is_unmapped (c_recs c) = true).
    { apply existsb_exists. exists x. split; [exact Hx|]. unfold is_unmapped. rewrite Hr. reflexivity. }
    rewrite E. eexists. split; [left; reflexivity|reflexivity].
Qed.

Theorem index_lists_every_slice : forall pos f, file_ok pos f -> index pos f = Ok (flat_map spec_entries f).
Proof. intros pos f H. unfold index. rewrite (index_core_spec f pos H). reflexivity. Qed.

Theorem index_span_covers_records : forall pos f es c x r,
  file_ok pos f -> index pos f = Ok es -> In c f -> In x (c_recs c) -> rid x = Some r ->
  exists e st, In e es /\ e_rid e = Some r /\ e_off e = c_off c /\ e_landmark e = c_landmark c /\
               e_slen e = c_slen c /\ e_start e = Some st /\ st <= rs x /\ re x <= st + e_span e - 1.
Proof.
  intros pos f es c x r Hok Hidx Hc Hx Hr. rewrite (index_lists_every_slice pos f Hok) in Hidx.
  injection Hidx as Hidx. subst es.
  assert (Hrok : rec_ok x).
  { destruct Hok as [_ Hf]. rewrite Forall_forall in Hf. destruct (Hf c Hc) as [_ [_ Hr']].
    rewrite Forall_forall in Hr'. apply Hr'. exact Hx. }
  destruct (spec_entries_cover c x r Hx Hr Hrok) as [e [st [He [H1 [H2 [H3 H4]]]]]].
  exists e, st. destruct (spec_entry_layout c e He) as [L1 [L2 L3]].
  split; [apply in_flat_map; exists c; split; assumption|]. repeat split; assumption.
Qed.

Theorem query_old_through_index_outside_f17 : forall pos f es r lo hi,
  file_ok pos f -> index pos f = Ok es -> ~ f17_class f r lo hi -> query_old es f r lo hi = scan f r lo hi.
Proof.
  intros pos f es r lo hi Hok Hidx Hn. unfold index in Hidx. injection Hidx as Hidx. subst es.
  apply query_old_equals_scan_outside_f17; assumption.
Qed.

Theorem query_through_index : forall pos f es r lo hi,
  file_ok pos f -> index pos f = Ok es -> query es f r lo hi = scan f r lo hi.
Proof.
  intros pos f es r lo hi Hok Hidx. unfold index in Hidx. injection Hidx as Hidx. subst es.
  apply query_equals_scan; assumption.
Qed.

(* files as the writer lays them out: chunks of records, contexts computed by [slice_ctx] *)
Lemma written_container_ok : forall off hl len lm sl recs,
  recs <> [] -> Forall rec_ok recs -> container_ok (written off hl len lm sl recs).
Proof. intros. unfold container_ok, written. cbn. repeat split; assumption. Qed.
