(* Proofs about NV.CramIdx.Bytes (C19): every entry of the index computed from the bytes points
   at a container header and a slice header block of the file. *)
From Coq Require Import List Arith NArith ZArith Bool Lia ZifyBool ZifyNat ZifyN.
From NV Require Import Base.LE Trunc.Stream Trunc.Cram CramIdx.Crai CramIdx.Multi CramIdx.Bytes.
Import ListNotations.
Open Scope N_scope.
Arguments N.add : simpl never.
Arguments N.sub : simpl never.

Lemma slice_entries_fields : forall pos lm sl c recs e,
  In e (slice_entries pos lm sl c recs) -> e_off e = pos /\ e_landmark e = lm /\ e_slen e = sl.
Proof.
  intros pos lm sl c recs e H. unfold slice_entries in H.
  assert (Hm : In e (multi_entries pos lm sl recs) -> e_off e = pos /\ e_landmark e = lm /\ e_slen e = sl).
  { unfold multi_entries. rewrite in_app_iff, in_map_iff. intros [H1|[r [H1 _]]].
    - destruct (existsb is_unmapped recs); [destruct H1 as [H1|[]]; subst e; cbn; auto|destruct H1].
    - subst e. cbn. auto. }
  destruct c as [r s e'| |]; [| |exact (Hm H)]; destruct H as [H|[]]; subst e; cbn; auto.
Qed.

(* what the entries of a slice with a single-reference / unmapped context carry *)
Lemma slice_entries_ctx : forall pos lm sl c recs e,
  In e (slice_entries pos lm sl c recs) ->
  (forall r s e', c = Single r s e' -> e_rid e = Some r /\ e_start e = Some s /\ e_span e = e' - s + 1) /\
  (c = Unmapped -> e_rid e = None /\ e_start e = None /\ e_span e = 0).
Proof.
  intros pos lm sl c recs e H. unfold slice_entries in H. destruct c as [r s e'| |].
  - destruct H as [H|[]]. subst e. split; [|discriminate].
    intros r0 s0 e0 E. injection E as E1 E2 E3. subst. cbn. auto.
  - destruct H as [H|[]]. subst e. split; [discriminate|]. intros _. cbn. auto.
  - split; discriminate.
Qed.

Section CRC.
Variable crc : list N -> N.

Definition per_slice (pos : N) (ss : list slice) : list entry :=
  flat_map (fun s => slice_entries pos (s_landmark s) (s_len s) (s_ctx s) (s_recs s)) ss.

(* the slices built from the bytes: landmarks as stored, lengths as index() computes them, and
   each one parses as a slice header block *)
Definition slice_at (body : list N) (s : slice) : Prop :=
  exists src sh rest,
    slice_bytes body (s_landmark s) (s_landmark s + s_len s) = Some src /\
    r_slice_header crc src = POk sh rest /\ s_ctx s = ctx_of_shdr sh.

Lemma assign_cons : forall lm sl sh t recs,
  fst (assign ((lm, sl, sh) :: t) recs) =
  mkslice lm sl (ctx_of_shdr sh) (match recs with [] => [] | x :: _ => x end)
  :: fst (assign t (match recs with [] => [] | _ :: r => r end)).
Proof.
  intros. cbn [assign]. destruct (assign t _) as [ss recs']. reflexivity.
Qed.

Lemma bslices_spec : forall body lms shs,
  bslices crc body lms = BOk shs ->
  forall recs pos,
    let ss := fst (assign shs recs) in
    map s_landmark ss = lms /\
    slices_entries pos (N.of_nat (length body)) ss = Ok (per_slice pos ss) /\
    Forall (slice_at body) ss.
Proof.
  intros body lms; induction lms as [|lm t IH]; intros shs H recs pos.
  - cbn [bslices] in H. injection H as H. subst shs. cbn. repeat split. constructor.
  - cbn [bslices] in H.
    set (nxt := match t with [] => N.of_nat (length body) | l' :: _ => l' end) in *.
    destruct (slice_bytes body lm nxt) as [src|] eqn:Esb; [|discriminate].
    destruct (r_slice_header crc src) as [sh rest|] eqn:Esh; [|discriminate].
    destruct (bslices crc body t) as [l|] eqn:Et; [|discriminate].
    injection H as H. subst shs.
    specialize (IH l eq_refl (match recs with [] => [] | _ :: r => r end) pos).
    cbn zeta in IH. destruct IH as [IH1 [IH2 IH3]].
    cbn zeta. rewrite assign_cons.
    set (tl := fst (assign l (match recs with [] => [] | _ :: r => r end))) in *.
    assert (Hb : lm <= nxt /\ nxt <= N.of_nat (length body)).
    { unfold slice_bytes in Esb.
      destruct ((lm <=? nxt) && (nxt <=? N.of_nat (length body))) eqn:E; [|discriminate]. lia. }
    assert (Hnxt : match tl with [] => N.of_nat (length body) | s' :: _ => s_landmark s' end = nxt).
    { unfold nxt. destruct t as [|l' t']; destruct tl as [|s' tl']; cbn [map] in IH1; try discriminate; [reflexivity|].
      injection IH1 as IH1 _. exact IH1. }
    split; [cbn [map s_landmark]; rewrite IH1; reflexivity|]. split.
    + cbn [slices_entries s_landmark]. rewrite Hnxt.
      assert (E : (nxt <? lm) || (N.of_nat (length body) <? nxt) = false) by lia.
      rewrite E, IH2. unfold per_slice. cbn [flat_map s_landmark s_len s_ctx s_recs]. reflexivity.
    + constructor; [|exact IH3]. exists src, sh, rest. cbn [s_landmark s_len s_ctx].
      replace (lm + (nxt - lm)) with nxt by lia. repeat split; assumption.
Qed.

(* a container of the file as [walk] sees it *)
Definition cont_at (file : list N) (c : mcont) : Prop :=
  exists h body rest,
    cram_parse_container crc (at_ (m_off c) file) = POk (h, body, false) rest /\
    m_len c = N.of_nat (length body) /\
    m_hlen c + m_len c = consumed (at_ (m_off c) file) rest /\
    map s_landmark (m_slices c) = ch_landmarks h /\
    Forall (slice_at body) (m_slices c).

Lemma walk_spec : forall fuel pos file recs f,
  walk crc fuel pos file recs = BOk f ->
  Forall (cont_at file) f /\
  index_m pos f = Ok (flat_map (fun c => per_slice (m_off c) (m_slices c)) f).
Proof.
  induction fuel as [|k IH]; intros pos file recs f H; [discriminate|].
  cbn [walk] in H.
  destruct (cram_parse_container crc (at_ pos file)) as [[[h b] eof] r|] eqn:Ep; [|discriminate].
  destruct eof.
  - injection H as H. subst f. split; [constructor|reflexivity].
  - destruct (consumed (at_ pos file) r <? N.of_nat (length b)) eqn:Eu; [discriminate|].
    destruct (bslices crc b (ch_landmarks h)) as [shs|] eqn:Eb; [|discriminate].
    destruct (assign shs recs) as [ss recs'] eqn:Ea.
    destruct (walk crc k (pos + consumed (at_ pos file) r) file recs') as [cs|] eqn:Ew; [|discriminate].
    injection H as H. subst f.
    destruct (IH _ _ _ _ Ew) as [IH1 IH2].
    pose proof (bslices_spec b (ch_landmarks h) shs Eb recs pos) as Hs. cbn zeta in Hs.
    rewrite Ea in Hs. cbn [fst] in Hs. destruct Hs as [Hs1 [Hs2 Hs3]].
    split.
    + constructor; [|exact IH1]. exists h, b, r. cbn [m_off m_len m_hlen m_slices].
      repeat split; try assumption. lia.
    + cbn [index_m m_len m_slices m_hlen flat_map m_off]. rewrite Hs2.
      replace (pos + (consumed (at_ pos file) r - N.of_nat (length b)) + N.of_nat (length b))
        with (pos + consumed (at_ pos file) r) by lia.
      rewrite IH2. reflexivity.
Qed.

(* Every entry of the index computed from the bytes: its offset is a position of the file where
   a container header parses (CRC verified, not the EOF container); its landmark is one of the
   landmarks stored in that header; body[landmark .. landmark + slice length] is a range of the
   body that starts with a slice header block (CRC verified); and when that header carries a
   single-reference / unmapped context the entry's reference, start and span are read from it. *)
Theorem entries_point_at_bytes : forall file recs es e,
  index_of_bytes crc file recs = BOk es -> In e es ->
  exists h body rest src sh rest',
    cram_parse_container crc (at_ (e_off e) file) = POk (h, body, false) rest /\
    In (e_landmark e) (ch_landmarks h) /\
    e_landmark e + e_slen e <= N.of_nat (length body) /\
    slice_bytes body (e_landmark e) (e_landmark e + e_slen e) = Some src /\
    r_slice_header crc src = POk sh rest' /\
    (forall r s e', ctx_of_shdr sh = Single r s e' ->
       e_rid e = Some r /\ e_start e = Some s /\ e_span e = e' - s + 1) /\
    (ctx_of_shdr sh = Unmapped -> e_rid e = None /\ e_start e = None /\ e_span e = 0).
Proof.
  intros file recs es e H Hin. unfold index_of_bytes, mfile_of_bytes in H.
  destruct (header_end crc file) as [p0|]; [|discriminate].
  destruct (walk crc (S (length file)) p0 file recs) as [f|] eqn:Ew; [|discriminate].
  destruct (walk_spec _ _ _ _ _ Ew) as [Hc Hi]. rewrite Hi in H. injection H as H. subst es.
  apply in_flat_map in Hin. destruct Hin as [c [Hcin He]].
  rewrite Forall_forall in Hc. destruct (Hc c Hcin) as [h [body [rest [Hp [Hlen [_ [Hlm Hsl]]]]]]].
  unfold per_slice in He. apply in_flat_map in He. destruct He as [s [Hs He]].
  destruct (slice_entries_fields _ _ _ _ _ _ He) as [F1 [F2 F3]].
  destruct (slice_entries_ctx _ _ _ _ _ _ He) as [C1 C2].
  rewrite Forall_forall in Hsl. destruct (Hsl s Hs) as [src [sh [rest' [Hsb [Hsh Hctx]]]]].
  exists h, body, rest, src, sh, rest'. rewrite F1, F2, F3.
  split; [exact Hp|]. split; [rewrite <- Hlm; apply in_map; exact Hs|].
  split.
  { unfold slice_bytes in Hsb.
    destruct ((s_landmark s <=? s_landmark s + s_len s) && (s_landmark s + s_len s <=? N.of_nat (length body))) eqn:E; [|discriminate]. lia. }
  split; [exact Hsb|]. split; [exact Hsh|]. rewrite <- Hctx. split; assumption.
Qed.

(* and the index from the bytes is the index of the layout read from the bytes *)
Theorem index_of_bytes_is_index_m : forall file recs p0 f,
  mfile_of_bytes crc file recs = BOk (p0, f) ->
  index_of_bytes crc file recs = match index_m p0 f with Ok es => BOk es | _ => BErr InvalidData end.
Proof. intros file recs p0 f H. unfold index_of_bytes. rewrite H. reflexivity. Qed.
End CRC.

(* ---- the entry of a single-reference slice carries what the slice header DECLARES ------------ *)

Lemma ctx_of_shdr_single : forall sh, (0 <= sh_rid sh)%Z ->
  ctx_of_shdr sh = Single (Z.to_N (sh_rid sh)) (Z.to_N (sh_start sh)) (Z.to_N (sh_start sh + sh_span sh - 1)).
Proof.
  intros sh H. unfold ctx_of_shdr.
  destruct (sh_rid sh =? -1)%Z eqn:E1; [lia|]. destruct (sh_rid sh =? -2)%Z eqn:E2; [lia|]. reflexivity.
Qed.

(* with the slice header fields as given (reference id >= 0, alignment start >= 1, span >= 1 --
   what ReferenceSequenceContext::try_from accepts): reference = the declared reference id,
   start = the declared alignment start, span = the declared alignment span *)
Theorem entry_fields_are_declared : forall crc file recs es e,
  index_of_bytes crc file recs = BOk es -> In e es ->
  exists h body rest src sh rest',
    cram_parse_container crc (at_ (e_off e) file) = POk (h, body, false) rest /\
    slice_bytes body (e_landmark e) (e_landmark e + e_slen e) = Some src /\
    r_slice_header crc src = POk sh rest' /\
    ((0 <= sh_rid sh)%Z -> (1 <= sh_start sh)%Z -> (1 <= sh_span sh)%Z ->
       e_rid e = Some (Z.to_N (sh_rid sh)) /\ e_start e = Some (Z.to_N (sh_start sh)) /\
       e_span e = Z.to_N (sh_span sh)) /\
    (sh_rid sh = (-1)%Z -> e_rid e = None /\ e_start e = None /\ e_span e = 0).
Proof.
  intros crc file recs es e Hi Hin.
  destruct (entries_point_at_bytes crc file recs es e Hi Hin) as [h [body [rest [src [sh [rest' [H1 [_ [_ [H4 [H5 [H6 H7]]]]]]]]]]]].
  exists h, body, rest, src, sh, rest'. split; [exact H1|]. split; [exact H4|]. split; [exact H5|]. split.
  - intros Hr Hs Hp. destruct (H6 _ _ _ (ctx_of_shdr_single sh Hr)) as [A [B C]].
    split; [exact A|]. split; [exact B|]. rewrite C. lia.
  - intros Hr. apply H7. unfold ctx_of_shdr. rewrite Hr. reflexivity.
Qed.
