(* C19 -- the chain cram::fs::index -> Reader::query (NV.CramIdx.ZeroSpan.index_then_query) on
   files whose containers hold SEVERAL slices and whose slices hold several references, with
   placed records that cover no reference base (check kind `mzq`: merged multi-slice containers).

   ZeroSpanProofs.index_then_query_is_scan is stated for any list of containers; here its answer
   is put in closed form over the RECORDS of the file alone, which shows that how the records are
   cut into slices and how the slices are grouped into containers cannot be observed through
   index() -> query(), and a two-slice container with a multi-reference slice that holds a mapped
   read without reference span is shown to satisfy the premises (the class is not the one-slice
   class of kind `zq`).  Proofs only (no new model function). *)
From Coq Require Import List NArith Bool Lia.
From NV Require Import CramIdx.Crai CramIdx.Multi CramIdx.SpanProofs CramIdx.ZeroSpan CramIdx.ZeroSpanProofs.
Import ListNotations.
Open Scope N_scope.

Lemma m_recs_bufz_cont : forall c, m_recs (bufz_cont c) = map as_bufz (m_recs c).
Proof.
  intros c. unfold m_recs, bufz_cont. cbn [m_slices].
  induction (m_slices c) as [|s t IH]; [reflexivity|].
  cbn [map flat_map]. rewrite map_app, IH. reflexivity.
Qed.

(* the records the query decodes, in file order: the converted records of the file *)
Lemma flat_recs_bufz : forall f, flat_map m_recs (bufz_file f) = map as_bufz (flat_map m_recs f).
Proof.
  intros f. unfold bufz_file. induction f as [|c t IH]; [reflexivity|].
  cbn [map flat_map]. rewrite map_app, IH, m_recs_bufz_cont. reflexivity.
Qed.

Theorem scan_bufz_is_filter_of_records : forall f r lo hi,
  scan_m (bufz_file f) r lo hi = filter (selected r lo hi) (map as_bufz (flat_map m_recs f)).
Proof. intros. unfold scan_m. rewrite flat_recs_bufz. reflexivity. Qed.

(* index() -> query() in closed form over the records of the file alone *)
Theorem index_then_query_closed_form : forall pos nrefs f r lo hi,
  index_span_repaired = true ->
  mfile_ok pos (map wcont_of (xfile f)) -> r < nrefs ->
  index_then_query pos nrefs f r lo hi
  = Ok (filter (selected r (fst (region_bounds lo hi)) (snd (region_bounds lo hi)))
               (map as_bufz (flat_map m_recs f))).
Proof.
  intros pos nrefs f r lo hi Hsw Hok Hr.
  rewrite (index_then_query_is_scan pos nrefs f r lo hi Hsw Hok Hr).
  rewrite scan_bufz_is_filter_of_records. reflexivity.
Qed.

(* the cut of the records into slices and of the slices into containers (and where the file
   starts) is not observable: two well-formed files with the same records in the same order
   answer every region alike *)
Theorem index_then_query_grouping_unobservable : forall pos pos' nrefs f g r lo hi,
  index_span_repaired = true ->
  mfile_ok pos (map wcont_of (xfile f)) -> mfile_ok pos' (map wcont_of (xfile g)) ->
  flat_map m_recs f = flat_map m_recs g -> r < nrefs ->
  index_then_query pos nrefs f r lo hi = index_then_query pos' nrefs g r lo hi.
Proof.
  intros pos pos' nrefs f g r lo hi Hsw Hf Hg E Hr.
  rewrite (index_then_query_closed_form pos nrefs f r lo hi Hsw Hf Hr).
  rewrite (index_then_query_closed_form pos' nrefs g r lo hi Hsw Hg Hr).
  rewrite E. reflexivity.
Qed.

(* membership: exactly the converted records of the named reference whose [start, max(end,start)]
   (POS alone when flagged unmapped) meets the region -- whatever slice and container hold them *)
Theorem index_then_query_membership : forall pos nrefs f r lo hi y,
  index_span_repaired = true ->
  mfile_ok pos (map wcont_of (xfile f)) -> r < nrefs ->
  (exists l, index_then_query pos nrefs f r lo hi = Ok l /\
     (In y l <-> exists x, In x (flat_map m_recs f) /\ y = as_bufz x /\
                  selected r (fst (region_bounds lo hi)) (snd (region_bounds lo hi)) (as_bufz x) = true)).
Proof.
  intros pos nrefs f r lo hi y Hsw Hok Hr. eexists. split.
  - exact (index_then_query_closed_form pos nrefs f r lo hi Hsw Hok Hr).
  - rewrite filter_In, in_map_iff. split.
    + intros [[x [E Hx]] Hs]. exists x. subst y. repeat split; assumption.
    + intros [x [Hx [E Hs]]]. subst y. split; [exists x; split; [reflexivity|exact Hx]|exact Hs].
Qed.

(* ---- the class holds multi-slice containers with multi-reference slices ------------------------ *)

(* one container of two slices at file offset 26: slice 0 = a `4M` read of sq0; slice 1 (multi
   reference) = a `5S` read at sq0:5 (CRAM end 4) and a `3M` read of sq1 *)
Definition mz_witness : list mcont :=
  [mkmcont 26 20 100
     [wslice 30 40 [mkrec 0 (Some 0) 2 5 false];
      wslice 70 30 [mkrec 1 (Some 0) 5 4 false; mkrec 2 (Some 1) 7 9 false]]].

Lemma mz_witness_ok : mfile_ok 26 (map wcont_of (xfile mz_witness)).
Proof.
  unfold mfile_ok. split.
  - cbn. repeat split; reflexivity.
  - repeat constructor; cbn; try discriminate; try reflexivity; unfold usize_max; cbn; lia.
Qed.

(* the zero-span read of the second slice is returned for sq0:5-5 together with the read of the
   first slice that covers position 5, in file order, by index() -> query() *)
Lemma mz_witness_answer :
  index_span_repaired = true ->
  index_then_query 26 2 mz_witness 0 (Some 5) (Some 5)
  = Ok [mkrec 0 (Some 0) 2 5 false; mkrec 1 (Some 0) 5 5 false].
Proof.
  intros Hsw. rewrite (index_then_query_closed_form 26 2 mz_witness 0 (Some 5) (Some 5) Hsw mz_witness_ok) by lia.
  reflexivity.
Qed.
