(* C19 -- Reader::query / query_unmapped over the BYTES of a file whose layout [Bytes.mfile_of_bytes]
   reads from those same bytes: no framing premise is left.

   [mfile_of_bytes crc file recs = BOk (p0, f)] (C13's parser frames the containers one after the
   other up to the EOF container, every landmark range starts with a slice header block) gives
   * [mlayout_ok p0 f]              -- the containers are back to back, the landmarks chain
   * [Forall (cont_read crc file) f] -- the reader's program frames each of them (ContainerLink)
   * [chain p0 f]                    -- each container is followed by the next one, the last one
                                        by the EOF container
   hence the byte-level query is [Multi.query_m], the byte-level query_unmapped is
   [Multi.query_unmapped], and with the records well-formed ([slice_ok]) both equal the scan --
   for the async reader under every poll / seek script and for the sync reader under every
   delivery script.  Proofs only. *)
From Coq Require Import List NArith ZArith Arith Bool Lia ZifyBool ZifyNat ZifyN.
From NV Require Import Base.LE Io.Source Trunc.Stream Trunc.StreamProofs Trunc.Cram.
From NV Require Import CramIdx.Crai CramIdx.CraiProofs CramIdx.Multi CramIdx.MultiProofs.
From NV Require Import CramIdx.Bytes CramIdx.BytesProofs CramIdx.AsyncQuery CramIdx.AsyncQueryProofs.
From NV Require Import CramIdx.ContainerLink.
Import ListNotations.
Local Open Scope N_scope.
Arguments N.add : simpl never.
Arguments N.sub : simpl never.

(* ---- a program leaves a suffix of its input --------------------------------------------------- *)

Lemma skipn_skipn' : forall (A : Type) (x y : nat) (l : list A), skipn x (skipn y l) = skipn (y + x) l.
Proof.
  intros A x y. induction y as [|y IH]; intros l; [reflexivity|].
  destruct l as [|a l]; [cbn; destruct x; reflexivity|]. cbn [skipn Nat.add]. apply IH.
Qed.

Lemma run_pure_suffix : forall (A : Type) (p : prog A) d a r,
  run_pure p d = POk a r -> (length r <= length d)%nat /\ r = skipn (length d - length r) d.
Proof.
  intros A p. induction p as [a|e|n k IH|n k IH]; intros d a0 r H; cbn [run_pure] in H.
  - inversion H. subst. split; [lia|]. rewrite Nat.sub_diag. reflexivity.
  - discriminate.
  - destruct (n <=? length d)%nat eqn:E; [|discriminate]. apply Nat.leb_le in E.
    destruct (IH _ _ _ _ H) as [H1 H2]. rewrite skipn_length in H1, H2. split; [lia|].
    rewrite H2 at 1. rewrite skipn_skipn'. f_equal. lia.
  - destruct (IH _ _ _ _ H) as [H1 H2]. rewrite skipn_length in H1, H2. split; [lia|].
    destruct (Nat.le_gt_cases n (length d)) as [Hn|Hn].
    + rewrite H2 at 1. rewrite skipn_skipn'. f_equal. lia.
    + assert (Hr : length r = 0%nat) by lia. destruct r as [|x r]; [|discriminate Hr].
      cbn [length]. rewrite Nat.sub_0_r, skipn_all. reflexivity.
Qed.

Lemma at_at : forall pos n file, skipn n (at_ pos file) = at_ (pos + N.of_nat n) file.
Proof. intros pos n file. unfold at_. rewrite skipn_skipn'. f_equal. lia. Qed.

Section CRC.
Variable crc : list N -> N.

Lemma parse_container_suffix : forall d h body eof r,
  cram_parse_container crc d = POk (h, body, eof) r ->
  (length r <= length d)%nat /\ r = skipn (length d - length r) d.
Proof.
  intros d h body eof r H. pose proof (container_program_is_framing_parser crc d) as P.
  rewrite H in P. exact (run_pure_suffix _ _ _ _ _ P).
Qed.

(* the header of a container takes at least the length field and the CRC *)
Lemma p_read_container_hl : forall d h hl body eof r,
  run_pure (p_read_container crc false) d = POk (h, hl, body, eof) r -> 4 <= hl.
Proof.
  intros d h hl body eof r H. unfold p_read_container, p_read_header in H.
  rewrite !run_pure_bind in H.
  destruct (run_pure (p_dc_fields false) d) as [[h0 tr] r0|e]; [|discriminate].
  cbn [run_pure] in H. destruct (4 <=? length r0)%nat; [|discriminate]. cbv zeta in H.
  destruct (crc (snd (h0, tr)) =? le_dec (firstn 4 r0)); [|discriminate]. cbn [run_pure fst snd] in H.
  set (L := if is_eof h0 (crc tr) then 0 else ch_len h0) in H. destruct (L =? 0).
  - cbn [run_pure] in H. destruct (N.to_nat eof_length <=? length (skipn 4 r0))%nat; [|discriminate].
    inversion H. lia.
  - cbn [run_pure] in H.
    destruct (N.of_nat (length (firstn (N.to_nat L) (skipn 4 r0))) <? L); [discriminate|].
    cbn [run_pure] in H. inversion H. lia.
Qed.

Lemma parse_container_hl : forall d h body eof r,
  cram_parse_container crc d = POk (h, body, eof) r ->
  4 <= N.of_nat (length d - length r) - N.of_nat (length body).
Proof.
  intros d h body eof r H. pose proof (container_program_is_framing_parser crc d) as P.
  rewrite H in P. exact (p_read_container_hl _ _ _ _ _ _ P).
Qed.

(* ---- what bslices says about the landmarks ---------------------------------------------------- *)

Lemma bslices_sl_ok : forall body lms shs recs,
  bslices crc body lms = BOk shs -> sl_ok (N.of_nat (length body)) (fst (assign shs recs)).
Proof.
  intros body lms. induction lms as [|lm t IH]; intros shs recs H.
  - cbn [bslices] in H. injection H as H. subst shs. exact I.
  - cbn [bslices] in H.
    set (nxt := match t with [] => N.of_nat (length body) | l' :: _ => l' end) in *.
    destruct (slice_bytes body lm nxt) as [src|] eqn:Esb; [|discriminate].
    destruct (r_slice_header crc src) as [sh rest|]; [|discriminate].
    destruct (bslices crc body t) as [l|] eqn:Et; [|discriminate].
    injection H as H. subst shs. rewrite assign_cons.
    pose proof (IH l (match recs with [] => [] | _ :: r => r end) eq_refl) as IH1.
    pose proof (bslices_spec crc body t l Et (match recs with [] => [] | _ :: r => r end) 0) as Hs.
    cbn zeta in Hs. destruct Hs as [Hs1 _].
    set (tl := fst (assign l (match recs with [] => [] | _ :: r => r end))) in *.
    assert (Hb : lm <= nxt).
    { unfold slice_bytes in Esb. destruct ((lm <=? nxt) && (nxt <=? N.of_nat (length body))) eqn:E; [|discriminate]. lia. }
    cbn [sl_ok]. split; [|exact IH1]. cbn [s_landmark s_len].
    unfold nxt in *. destruct t as [|l' t']; destruct tl as [|s' tl']; cbn [map] in Hs1; try discriminate.
    + lia.
    + injection Hs1 as Hs1 _. rewrite Hs1. lia.
Qed.

Lemma bslices_first_in_body : forall body lms shs,
  bslices crc body lms = BOk shs -> match lms with [] => True | l :: _ => l <= N.of_nat (length body) end.
Proof.
  intros body lms shs H. destruct lms as [|lm t]; [exact I|]. cbn [bslices] in H.
  set (nxt := match t with [] => N.of_nat (length body) | l' :: _ => l' end) in *.
  unfold slice_bytes in H. destruct ((lm <=? nxt) && (nxt <=? N.of_nat (length body))) eqn:E; [|discriminate]. lia.
Qed.

Variable file : list N.

(* ---- the containers follow one another, then the EOF container -------------------------------- *)

Definition framed (c : mcont) : Prop :=
  exists h body shs,
    cram_parse_container crc (at_ (m_off c) file)
      = POk (h, body, false) (at_ (m_off c + m_hlen c + m_len c) file) /\
    m_len c = N.of_nat (length body) /\
    m_hlen c = N.of_nat (length (at_ (m_off c) file) - length (at_ (m_off c + m_hlen c + m_len c) file))
               - N.of_nat (length body) /\
    bslices crc body (ch_landmarks h) = BOk shs.

Fixpoint chain (pos : N) (f : list mcont) : Prop :=
  match f with
  | [] => exists h b r, cram_parse_container crc (at_ pos file) = POk (h, b, true) r
  | c :: t => m_off c = pos /\ framed c /\ chain (pos + m_hlen c + m_len c) t
  end.

Lemma walk_chain : forall fuel pos recs f,
  walk crc fuel pos file recs = BOk f -> chain pos f /\ mlayout_ok pos f /\ (length f < fuel)%nat.
Proof.
  induction fuel as [|k IH]; intros pos recs f H; [discriminate|].
  cbn [walk] in H.
  destruct (cram_parse_container crc (at_ pos file)) as [[[h b] eof] r|] eqn:Ep; [|discriminate].
  destruct eof.
  - injection H as H. subst f. split; [|split; [exact I|cbn; lia]]. exists h, b, r. exact Ep.
  - destruct (consumed (at_ pos file) r <? N.of_nat (length b)) eqn:Eu; [discriminate|].
    destruct (bslices crc b (ch_landmarks h)) as [shs|] eqn:Eb; [|discriminate].
    destruct (assign shs recs) as [ss recs'] eqn:Ea.
    destruct (walk crc k (pos + consumed (at_ pos file) r) file recs') as [cs|] eqn:Ew; [|discriminate].
    injection H as H. subst f.
    destruct (IH _ _ _ Ew) as [IH1 [IH2 IH3]].
    destruct (parse_container_suffix _ _ _ _ _ Ep) as [Hle Hr].
    pose proof (parse_container_hl _ _ _ _ _ Ep) as Hhl.
    unfold consumed in *.
    set (used := N.of_nat (length (at_ pos file) - length r)) in *.
    set (lenb := N.of_nat (length b)) in *.
    assert (Hnext : pos + (used - lenb) + lenb = pos + used) by lia.
    assert (Hrest : r = at_ (pos + used) file).
    { rewrite Hr at 1. rewrite at_at. reflexivity. }
    split; [|split].
    + cbn [chain m_off m_hlen m_len]. split; [reflexivity|]. rewrite Hnext. split; [|exact IH1].
      exists h, b, shs. cbn [m_off m_hlen m_len]. rewrite Hnext, <- Hrest.
      split; [exact Ep|]. split; [reflexivity|]. split; [reflexivity|exact Eb].
    + cbn [mlayout_ok m_off m_hlen m_len m_slices]. split; [reflexivity|]. split; [lia|].
      rewrite Hnext. split; [|exact IH2].
      pose proof (bslices_sl_ok b (ch_landmarks h) shs recs Eb) as Hs. rewrite Ea in Hs. exact Hs.
    + cbn [length]. lia.
Qed.

(* ---- the records stream over a chain ----------------------------------------------------------- *)

Variable f : list mcont.      (* the whole layout (whose records a slice holds) *)

Lemma visit_all_framed : forall c h body shs,
  find_m (m_off c) f = Some c ->
  bslices crc body (ch_landmarks h) = BOk shs ->
  visit_all crc f (m_off c) h body = BOk (m_recs c).
Proof.
  intros c h body shs Hf Hb. unfold visit_all, comp_range_ok, slices_of. rewrite Hf, Hb.
  pose proof (bslices_first_in_body _ _ _ Hb) as H1.
  destruct (ch_landmarks h) as [|l t]; [reflexivity|].
  assert (E : (l <=? N.of_nat (length body)) = true) by lia. rewrite E. reflexivity.
Qed.

Lemma records_p_chain : forall f' fuel pos,
  chain pos f' -> (forall c, In c f' -> find_m (m_off c) f = Some c) -> (length f' < fuel)%nat ->
  records_p crc f fuel pos (at_ pos file) = AOk (flat_map m_recs f').
Proof.
  induction f' as [|c t IH]; intros fuel pos Hc Hf Hfuel; (destruct fuel as [|k]; [inversion Hfuel|]).
  - cbn [chain] in Hc. destruct Hc as [h [b [r Hp]]]. cbn [records_p].
    rewrite container_program_is_framing_parser, Hp. reflexivity.
  - cbn [chain] in Hc. destruct Hc as [Hoff [[h [body [shs [Hp [Hlen [Hhl Hb]]]]]] Hc]].
    cbn [records_p]. rewrite container_program_is_framing_parser. rewrite <- Hoff, Hp.
    rewrite <- Hhl, (visit_all_framed c h body shs (Hf c (or_introl eq_refl)) Hb).
    rewrite <- Hlen. rewrite Hoff in *. rewrite (IH k _ Hc); [reflexivity| |cbn [length] in Hfuel; lia].
    intros c' Hin. apply Hf. right. exact Hin.
Qed.

Lemma chain_from_off : forall f0 pos c, chain pos f0 -> In c f0 -> chain (m_off c) (from_off (m_off c) f0).
Proof.
  induction f0 as [|h t IH]; intros pos c Hc Hin; [destruct Hin|].
  cbn [from_off]. destruct (m_off h =? m_off c) eqn:E.
  - apply N.eqb_eq in E. rewrite <- E. pose proof Hc as Hc'. cbn [chain] in Hc'. destruct Hc' as [Hoff _].
    rewrite Hoff. exact Hc.
  - destruct Hin as [Hin|Hin]; [subst h; rewrite N.eqb_refl in E; discriminate|].
    cbn [chain] in Hc. destruct Hc as [_ [_ Hc]]. exact (IH _ _ Hc Hin).
Qed.

Lemma from_off_incl : forall f0 off c, In c (from_off off f0) -> In c f0.
Proof.
  induction f0 as [|h t IH]; intros off c H; [exact H|]. cbn [from_off] in H.
  destruct (m_off h =? off); [exact H|right; exact (IH _ _ H)].
Qed.

Lemma from_off_length : forall f0 off, (length (from_off off f0) <= length f0)%nat.
Proof.
  induction f0 as [|h t IH]; intros off; [cbn; lia|]. cbn [from_off].
  destruct (m_off h =? off); [lia|]. specialize (IH off). cbn [length]. lia.
Qed.

Lemma from_off_miss : forall f0 off, (forall c, In c f0 -> m_off c <> off) -> from_off off f0 = [].
Proof.
  induction f0 as [|h t IH]; intros off H; [reflexivity|]. cbn [from_off].
  destruct (m_off h =? off) eqn:E; [apply N.eqb_eq in E; exfalso; exact (H h (or_introl eq_refl) E)|].
  apply IH. intros c Hc. apply H. right. exact Hc.
Qed.

(* query_unmapped over the bytes = query_unmapped of the layout, when the unmapped entry points
   at a container of the layout *)
Lemma query_unmapped_p_is_query_unmapped : forall pos es,
  chain pos f -> mlayout_ok pos f -> (length f <= length file)%nat ->
  Forall (fun e => exists c, In c f /\ e_off e = m_off c) es ->
  query_unmapped_p crc f file es = lift_q (query_unmapped es f).
Proof.
  intros pos es Hc Hl Hlen He. unfold query_unmapped_p, query_unmapped.
  destruct (find entry_unmapped es) as [e|] eqn:Ef; [|reflexivity].
  apply find_some in Ef. destruct Ef as [Hin _]. rewrite Forall_forall in He.
  destruct (He e Hin) as [c [Hcin Hoff]]. rewrite Hoff.
  rewrite (records_p_chain (from_off (m_off c) f) (S (length file)) (m_off c)).
  - reflexivity.
  - exact (chain_from_off f pos c Hc Hcin).
  - intros c' Hc'. apply (find_m_hit f pos c' Hl). exact (from_off_incl _ _ _ Hc').
  - pose proof (from_off_length f (m_off c)). lia.
Qed.
End CRC.

(* ---- from mfile_of_bytes ------------------------------------------------------------------------- *)

Section FromBytes.
Variable crc : list N -> N.
Variables (file : list N) (recs : list (list rec)) (p0 : N) (f : list mcont).
Hypothesis Hm : mfile_of_bytes crc file recs = BOk (p0, f).

Lemma mfile_walk : walk crc (S (length file)) p0 file recs = BOk f.
Proof.
  unfold mfile_of_bytes in Hm. destruct (header_end crc file) as [q|]; [|discriminate].
  destruct (walk crc (S (length file)) q file recs) as [f'|] eqn:Ew; [|discriminate].
  injection Hm as H1 H2. subst q f'. exact Ew.
Qed.

Theorem mfile_layout : mlayout_ok p0 f.
Proof. exact (proj1 (proj2 (walk_chain crc file _ _ _ _ mfile_walk))). Qed.

Theorem mfile_chain : chain crc file p0 f.
Proof. exact (proj1 (walk_chain crc file _ _ _ _ mfile_walk)). Qed.

Lemma mfile_length : (length f <= length file)%nat.
Proof. pose proof (proj2 (proj2 (walk_chain crc file _ _ _ _ mfile_walk))). lia. Qed.

(* the reader's program frames every container of the layout: the premise [cont_read] of the
   query theorems holds *)
Theorem mfile_cont_read : Forall (cont_read crc file) f.
Proof.
  destruct (walk_spec crc _ _ _ _ _ mfile_walk) as [Hc _].
  rewrite Forall_forall in *. intros c Hin. apply cont_at_cont_read. exact (Hc c Hin).
Qed.

Lemma mfile_index : index_m p0 f = Ok (flat_map (fun c => per_slice (m_off c) (m_slices c)) f).
Proof. exact (proj2 (walk_spec crc _ _ _ _ _ mfile_walk)). Qed.

Lemma index_entries_point : forall es, index_m p0 f = Ok es ->
  Forall (fun e => exists c, In c f /\ e_off e = m_off c) es.
Proof.
  intros es H. rewrite mfile_index in H. injection H as H. subst es.
  apply Forall_forall. intros e Hin. apply in_flat_map in Hin. destruct Hin as [c [Hc He]].
  exists c. split; [exact Hc|]. unfold per_slice in He. apply in_flat_map in He. destruct He as [s [_ He]].
  exact (proj1 (slice_entries_fields _ _ _ _ _ _ He)).
Qed.

(* the region query over the bytes, with the index built from the bytes, IS the layout query *)
Theorem bytes_query_is_layout_query : forall es r lo hi,
  index_m p0 f = Ok es ->
  query_p crc f file es r lo hi = lift_q (query_m selected es f r lo hi).
Proof.
  intros es r lo hi Hi.
  exact (query_p_is_query_m crc file f p0 es r lo hi mfile_layout mfile_cont_read (index_entries_point es Hi)).
Qed.

Theorem bytes_query_unmapped_is_layout_query_unmapped : forall es,
  index_m p0 f = Ok es ->
  query_unmapped_p crc f file es = lift_q (query_unmapped es f).
Proof.
  intros es Hi.
  exact (query_unmapped_p_is_query_unmapped crc file f p0 es mfile_chain mfile_layout mfile_length
           (index_entries_point es Hi)).
Qed.

(* with well-formed records (non-empty slices, slice context = the context of the records,
   start <= end): the layout read from the bytes is a well-formed file *)
Hypothesis Hrecs : Forall (fun c => Forall slice_ok (m_slices c)) f.

Lemma mfile_ok_of_bytes : mfile_ok p0 f.
Proof. split; [exact mfile_layout|exact Hrecs]. Qed.

Theorem async_query_equals_scan_of_bytes : forall es codes seeks chunk q0 nrefs r lo hi,
  index_m p0 f = Ok es -> (r <? nrefs)%N = true ->
  async_queries crc f file codes seeks chunk q0 nrefs es [(r, lo, hi)]
  = [AOk (scan_m f r (fst (region_bounds lo hi)) (snd (region_bounds lo hi)))].
Proof.
  intros es codes seeks chunk q0 nrefs r lo hi Hi Hr.
  exact (async_query_equals_scan crc f file p0 es codes seeks chunk q0 nrefs r lo hi
           mfile_ok_of_bytes Hi mfile_cont_read Hr).
Qed.

Theorem sync_query_equals_scan_of_bytes : forall es script q0 nrefs r lo hi,
  index_m p0 f = Ok es -> (r <? nrefs)%N = true ->
  sync_queries crc f file script q0 nrefs es [(r, lo, hi)]
  = [AOk (scan_m f r (fst (region_bounds lo hi)) (snd (region_bounds lo hi)))].
Proof.
  intros es script q0 nrefs r lo hi Hi Hr.
  rewrite <- (async_queries_equal_sync crc f file [] [] 0%nat script q0 nrefs es).
  exact (async_query_equals_scan_of_bytes es [] [] 0%nat q0 nrefs r lo hi Hi Hr).
Qed.

Theorem async_query_unmapped_equals_scan_of_bytes : forall es codes seeks chunk q0,
  index_m p0 f = Ok es ->
  async_query_unmapped crc f file codes seeks chunk q0 es
  = AOk (filter unplaced_flagged (flat_map m_recs f)).
Proof.
  intros es codes seeks chunk q0 Hi.
  rewrite async_query_unmapped_closed, (bytes_query_unmapped_is_layout_query_unmapped es Hi).
  rewrite (query_unmapped_equals_scan_flagged p0 f es mfile_ok_of_bytes Hi). reflexivity.
Qed.

Theorem sync_query_unmapped_equals_scan_of_bytes : forall es script q0,
  index_m p0 f = Ok es ->
  sync_query_unmapped crc f file script q0 es
  = AOk (filter unplaced_flagged (flat_map m_recs f)).
Proof.
  intros es script q0 Hi.
  rewrite <- (async_query_unmapped_equals_sync crc f file [] [] 0%nat script q0 es).
  exact (async_query_unmapped_equals_scan_of_bytes es [] [] 0%nat q0 Hi).
Qed.
End FromBytes.
