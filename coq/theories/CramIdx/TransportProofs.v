(* Proofs about NV.CramIdx.Transport (C19): the index survives the .crai text, so every query
   through a .crai file gives the answer of the query through the index in memory. *)
From Coq Require Import List NArith Bool Lia ZifyBool ZifyN.
From NV Require Import CramIdx.Crai CramIdx.CraiProofs CramIdx.Multi CramIdx.MultiProofs CramIdx.Transport.
From NV Require Index.TextIndex Index.TextIndexProofs.
Import ListNotations.
Open Scope N_scope.
Arguments N.add : simpl never.
Arguments N.sub : simpl never.

Lemma of_to_crai : forall e, of_crai (to_crai e) = e.
Proof. intros [a b c d e f]. reflexivity. Qed.

Lemma to_crai_ok : forall e, entry_fits e -> TextIndexProofs.crai_ok (to_crai e).
Proof.
  intros e [H1 [H2 [H3 [H4 [H5 H6]]]]]. unfold TextIndexProofs.crai_ok, TextIndexProofs.fits_u64, to_crai.
  cbn [TextIndex.c_rid TextIndex.c_start TextIndex.c_span TextIndex.c_off TextIndex.c_land TextIndex.c_slen].
  unfold u64_lim in *. repeat split; try assumption.
Qed.

Theorem read_index_roundtrip : forall es, Forall entry_fits es -> read_index (crai_text es) = Some es.
Proof.
  intros es H. unfold read_index, crai_text.
  rewrite TextIndexProofs.crai_roundtrip.
  - cbn [option_map]. f_equal. rewrite map_map. rewrite <- (map_id es) at 2.
    apply map_ext. intros e. apply of_to_crai.
  - rewrite Forall_forall in *. intros r Hr. apply in_map_iff in Hr. destruct Hr as [e [He Hin]].
    subst r. apply to_crai_ok. apply H. exact Hin.
Qed.

(* ---- the entries of a well-formed file fit -------------------------------------------- *)

Lemma sl_ok_bound_any : forall pre len s post, sl_ok len (pre ++ s :: post) -> s_landmark s + s_len s <= len.
Proof.
  induction pre as [|a pre IH]; intros len s post H.
  - apply (sl_ok_bound len (s :: post) s post eq_refl H).
  - cbn [app sl_ok] in H. destruct H as [_ H]. apply (IH len s post H).
Qed.

Lemma multi_entry_fits : forall pos lm sl recs e,
  Forall rec_ok recs -> Forall rec_fits recs ->
  pos < u64_lim -> lm < u64_lim -> sl < u64_lim ->
  In e (multi_entries pos lm sl recs) -> entry_fits e.
Proof.
  intros pos lm sl recs e Hok Hfit Hp Hl Hs Hin.
  pose proof Hin as Hin0. rewrite <- spec_entries_pc in Hin0.
  unfold multi_entries in Hin. apply in_app_iff in Hin. destruct Hin as [Hin|Hin].
  - destruct (existsb is_unmapped recs); [|destruct Hin]. destruct Hin as [Hin|[]]. subst e.
    unfold entry_fits, u64_lim in *. cbn. repeat split; try assumption; reflexivity.
  - apply in_map_iff in Hin. destruct Hin as [r [He Hr]].
    assert (E1 : e_rid e = Some r) by (subst e; reflexivity).
    assert (E2 : e_start e = Some (fst (range_of r recs))) by (subst e; reflexivity).
    assert (E4 : e_off e = pos /\ e_landmark e = lm /\ e_slen e = sl) by (subst e; cbn; auto).
    destruct E4 as [E4 [E5 E6]].
    destruct (spec_entries_tight (pc pos lm sl recs) e r _ Hok Hin0 E1 E2) as [[x [Hx [Hrx Hsx]]] [y [Hy [Hry Hey]]]].
    cbn [pc c_recs] in Hx, Hy.
    rewrite Forall_forall in Hok, Hfit.
    pose proof (Hfit x Hx) as Fx. unfold rec_fits in Fx. rewrite Hrx in Fx. destruct Fx as [Fx1 Fx2].
    pose proof (Hok x Hx) as [Ox1 Ox2]. pose proof (Hok y Hy) as [Oy1 Oy2].
    unfold entry_fits. rewrite E1, E2, E4, E5, E6. unfold u64_lim, usize_max in *.
    repeat split; try assumption; lia.
Qed.

Lemma in_m_recs_slice : forall c s x, In s (m_slices c) -> In x (s_recs s) -> In x (m_recs c).
Proof. intros c s x Hs Hx. unfold m_recs. apply in_flat_map. exists s. split; assumption. Qed.

Theorem index_entries_fit : forall pos f es,
  mfile_ok pos f -> Forall mcont_fits f -> index_m pos f = Ok es -> Forall entry_fits es.
Proof.
  intros pos f es Hok Hfit Hidx. rewrite (index_m_spec f pos Hok) in Hidx. injection Hidx as Hidx. subst es.
  rewrite Forall_forall. intros e He. apply in_flat_map in He. destruct He as [c [Hc He]].
  destruct Hok as [Hlay Hsl].
  rewrite Forall_forall in Hfit, Hsl. destruct (Hfit c Hc) as [F1 [F2 F3]]. specialize (Hsl c Hc).
  assert (Hslok : sl_ok (m_len c) (m_slices c)).
  { clear - Hlay Hc. revert pos Hlay. induction f as [|h t IH]; intros pos Hlay; [destruct Hc|].
    cbn [mlayout_ok] in Hlay. destruct Hlay as [_ [_ [Hs Hl]]].
    destruct Hc as [Hc|Hc]; [subst h; exact Hs|apply (IH Hc _ Hl)]. }
  destruct (mspec_entry_layout c e Hslok He) as [pre [s [post [E [Hin _]]]]].
  assert (Hs : In s (m_slices c)) by (rewrite E; apply in_or_app; right; left; reflexivity).
  rewrite Forall_forall in Hsl. destruct (Hsl s Hs) as [_ [_ [Hrok _]]].
  rewrite E in Hslok. pose proof (sl_ok_bound_any _ _ _ _ Hslok) as Hb.
  apply (multi_entry_fits (m_off c) (s_landmark s) (s_len s) (s_recs s) e Hrok).
  - rewrite Forall_forall in *. intros x Hx. apply F3. apply (in_m_recs_slice c s x Hs Hx).
  - exact F1.
  - unfold u64_lim in *. lia.
  - unfold u64_lim in *. lia.
  - exact Hin.
Qed.

(* the via-file theorems: writing the index built by cram::fs::index to a .crai and reading it
   back gives the same answers as the index in memory, for every region *)
Theorem query_via_file_same : forall pos f es nrefs r lo hi,
  mfile_ok pos f -> Forall mcont_fits f -> index_m pos f = Ok es ->
  query_via_file nrefs es f r lo hi = Some (query_region_m nrefs es f r lo hi).
Proof.
  intros pos f es nrefs r lo hi Hok Hfit Hidx. unfold query_via_file.
  rewrite (read_index_roundtrip es (index_entries_fit pos f es Hok Hfit Hidx)). reflexivity.
Qed.

Theorem query_unmapped_via_file_same : forall pos f es,
  mfile_ok pos f -> Forall mcont_fits f -> index_m pos f = Ok es ->
  query_unmapped_via_file es f = Some (query_unmapped es f).
Proof.
  intros pos f es Hok Hfit Hidx. unfold query_unmapped_via_file.
  rewrite (read_index_roundtrip es (index_entries_fit pos f es Hok Hfit Hidx)). reflexivity.
Qed.
