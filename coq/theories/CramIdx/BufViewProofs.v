(* C19 -- the region query over the records as the reader converts them (NV.CramIdx.Multi.as_buf:
   a placed read flagged unmapped covers its POS only) equals the scan over those same records,
   with the index built from the CRAM records (whose entries may be wider): the query looks only at
   the reference id, container offset and landmark of an entry.  Proofs only. *)
From Coq Require Import List NArith Bool Lia ZifyBool ZifyNat ZifyN.
From NV Require Import CramIdx.Crai CramIdx.CraiProofs CramIdx.Multi CramIdx.MultiProofs.
Import ListNotations.
Open Scope N_scope.

Lemma query_m_keys : forall sel es es' f r lo hi,
  map ekey es = map ekey es' -> query_m sel es f r lo hi = query_m sel es' f r lo hi.
Proof.
  intros sel es. induction es as [|e t IH]; intros es' f r lo hi H; destruct es' as [|e' t']; try discriminate; [reflexivity|].
  cbn [map] in H. unfold ekey at 1 3 in H. injection H as H1 H2 H3 Ht.
  cbn [query_m]. rewrite H1, H2, H3, (IH t' f r lo hi Ht). reflexivity.
Qed.

Lemma as_buf_rid : forall x, rid (as_buf x) = rid x.
Proof. intros x. reflexivity. Qed.

Lemma mapped_keys_buf : forall recs, mapped_keys (map as_buf recs) = mapped_keys recs.
Proof.
  induction recs as [|x t IH]; [reflexivity|]. cbn [map mapped_keys fold_right].
  fold (mapped_keys (map as_buf t)). fold (mapped_keys t). rewrite IH, as_buf_rid. reflexivity.
Qed.

Lemma existsb_unmapped_buf : forall recs, existsb is_unmapped (map as_buf recs) = existsb is_unmapped recs.
Proof. induction recs as [|x t IH]; [reflexivity|]. cbn [map existsb]. rewrite IH. reflexivity. Qed.

Lemma multi_entries_keys_buf : forall pos lm sl recs,
  map ekey (multi_entries pos lm sl (map as_buf recs)) = map ekey (multi_entries pos lm sl recs).
Proof.
  intros pos lm sl recs. unfold multi_entries. rewrite existsb_unmapped_buf, mapped_keys_buf.
  rewrite !map_app, !map_map. f_equal.
Qed.

Lemma mspec_slices_keys_buf : forall ss pos lm,
  map ekey (mspec_slices pos lm (map buf_slice ss)) = map ekey (mspec_slices pos lm ss).
Proof.
  induction ss as [|s t IH]; intros pos lm; [reflexivity|].
  cbn [map mspec_slices buf_slice wslice s_len s_recs]. rewrite !map_app, multi_entries_keys_buf, IH. reflexivity.
Qed.

Lemma mspec_keys_buf : forall f,
  map ekey (flat_map mspec_entries (buf_file f)) = map ekey (flat_map mspec_entries f).
Proof.
  induction f as [|c t IH]; [reflexivity|]. cbn [buf_file map flat_map]. fold (buf_file t).
  rewrite !map_app, IH. f_equal. unfold mspec_entries, first_landmark. cbn [buf_cont m_off m_slices m_len].
  rewrite mspec_slices_keys_buf. destruct (m_slices c) as [|s ss]; reflexivity.
Qed.

Lemma sl_ok_buf : forall ss len, sl_ok len ss -> sl_ok len (map buf_slice ss).
Proof.
  induction ss as [|s t IH]; intros len H; [exact I|]. cbn [map sl_ok] in *. destruct H as [H1 H2].
  split; [|exact (IH len H2)]. destruct t as [|s' t']; exact H1.
Qed.

Lemma mlayout_ok_buf : forall f pos, mlayout_ok pos f -> mlayout_ok pos (buf_file f).
Proof.
  induction f as [|c t IH]; intros pos H; [exact I|]. cbn [buf_file map mlayout_ok] in *.
  destruct H as [H1 [H2 [H3 H4]]]. cbn [buf_cont m_off m_hlen m_len m_slices].
  split; [exact H1|]. split; [exact H2|]. split; [exact (sl_ok_buf _ _ H3)|exact (IH _ H4)].
Qed.

Lemma rec_ok_buf : forall x, rec_ok x -> rec_ok (as_buf x).
Proof. intros x [H1 H2]. unfold rec_ok, as_buf. cbn [rs re]. destruct (runm x); lia. Qed.

Lemma mfile_ok_buf : forall f pos, mfile_ok pos f -> mfile_ok pos (buf_file f).
Proof.
  intros f pos [Hl Hs]. split; [exact (mlayout_ok_buf f pos Hl)|].
  unfold buf_file. rewrite Forall_map. rewrite Forall_forall in *. intros c Hc. specialize (Hs c Hc).
  cbn [buf_cont m_slices]. rewrite Forall_map. rewrite Forall_forall in *. intros s Hsin.
  destruct (Hs s Hsin) as [Hne [_ [Hr Hlen]]]. unfold slice_ok, buf_slice, wslice. cbn [s_recs s_ctx s_len].
  split; [destruct (s_recs s); [contradiction|discriminate]|]. split; [reflexivity|]. split; [|exact Hlen].
  rewrite Forall_map. rewrite Forall_forall in *. intros x Hx. exact (rec_ok_buf x (Hr x Hx)).
Qed.

(* Reader::query with the index of the file returns exactly what a scan keeps: the records -- as
   the reader converts them -- on the named reference whose [start, end] intersects the region,
   in file order, each once; flags play no part *)
Theorem query_buf_equals_scan : forall pos f es r lo hi,
  mfile_ok pos f -> index_m pos f = Ok es ->
  query_m selected es (buf_file f) r lo hi = Ok (scan_m (buf_file f) r lo hi).
Proof.
  intros pos f es r lo hi Hok Hi.
  pose proof (mfile_ok_buf f pos Hok) as Hokb.
  rewrite (index_m_spec f pos Hok) in Hi. injection Hi as Hi. subst es.
  rewrite (query_m_keys selected _ (flat_map mspec_entries (buf_file f)) _ r lo hi) by (symmetry; apply mspec_keys_buf).
  exact (query_m_equals_scan pos (buf_file f) _ r lo hi Hokb (index_m_spec (buf_file f) pos Hokb)).
Qed.

(* a placed read flagged unmapped is hit exactly at its POS on its reference *)
Lemma selected_placed_unmapped : forall x r lo hi q,
  rid x = Some q -> runm x = true ->
  selected r lo hi (as_buf x) = (q =? r) && (lo <=? rs x) && (rs x <=? hi).
Proof.
  intros x r lo hi q Hr Hu. unfold selected, on_ref, intersects, as_buf. cbn [rid rs re]. rewrite Hr, Hu.
  rewrite andb_assoc. reflexivity.
Qed.
