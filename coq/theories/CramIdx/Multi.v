(* C19 -- CRAM index / indexed queries over containers that hold SEVERAL slices, and
   query_unmapped.  Definitions only; proofs in MultiProofs.v.

   noodles itself writes one slice per container, but its reader and cram::fs::index accept the
   general CRAM layout (htslib can write several slices per container).  A container is now
     m_off     its byte offset in the file                              (truth)
     m_hlen    byte length of its header
     m_len     the `length` field of the header (bytes of all blocks)
     m_slices  its slices, each with
       s_landmark  the landmark stored for it in the container header
       s_len       the true byte size of the slice (header block + data blocks)
       s_ctx       the reference context in the slice header
       s_recs      its records.

   Mirrors
   * noodles-cram/src/fs/index.rs  index(): the loop over container.slices() with
       slice_length = landmarks[i+1] - landmarks[i]   (i not last)
                    = container_len - landmarks[i]    (last slice)
     (io/reader/container.rs slices() hands out src[landmarks[i] .. landmarks[i+1] or src.len()]
      and fails with InvalidData when that range is not a range of the body -- before any
      subtraction could overflow)                                              -> [index_m]
   * noodles-cram/src/io/reader/query.rs  read_next_container (after the repair 944089d): an
     index entry of the queried reference makes the reader seek to the entry's CONTAINER offset
     and decode the slice(s) whose stored landmark is the entry's landmark; a landmark that is
     not stored in the container header is InvalidData                         -> [query_m]
     (before the repair ALL slices of the container were decoded for every entry: [query_m_v0])
   * noodles-cram/src/io/reader.rs  query_unmapped (after the repairs 47f309c, 5cbbdb3): seek to
     the container offset of the first index entry without reference id, then read every
     record up to the end and keep those without reference id whose UNMAPPED flag is set; no
     such entry = the empty answer                                             -> [query_unmapped]
     (before: SeekFrom::End(0) and an UnexpectedEof, and a filter on the flag alone:
     [query_unmapped_v0]) *)
From Coq Require Import List NArith Bool.
From NV Require Import CramIdx.Crai.
Import ListNotations.
Open Scope N_scope.

Record slice := mkslice { s_landmark : N; s_len : N; s_ctx : ctx; s_recs : list rec }.

Record mcont := mkmcont { m_off : N; m_hlen : N; m_len : N; m_slices : list slice }.

Definition m_recs (c : mcont) : list rec := flat_map s_recs (m_slices c).

(* push_index_records *)
Definition slice_entries (pos lm sl : N) (c : ctx) (recs : list rec) : list entry :=
  match c with
  | Multi => multi_entries pos lm sl recs
  | x => [single_entry pos lm sl x]
  end.

(* the loop over the slices of one container; [len] = container_len = body size *)
Fixpoint slices_entries (pos len : N) (ss : list slice) : result (list entry) :=
  match ss with
  | [] => Ok []
  | s :: t =>
      let nxt := match t with [] => len | s' :: _ => s_landmark s' end in
      (* container.slices(): src.get(start..end) *)
      if (nxt <? s_landmark s) || (len <? nxt) then ErrInvalidData
      else
        match slices_entries pos len t with
        | Ok es => Ok (slice_entries pos (s_landmark s) (nxt - s_landmark s) (s_ctx s) (s_recs s) ++ es)
        | e => e
        end
  end.

Fixpoint index_m (pos : N) (f : list mcont) : result (list entry) :=
  match f with
  | [] => Ok []
  | c :: t =>
      match slices_entries pos (m_len c) (m_slices c) with
      | Ok es =>
          match index_m (pos + m_hlen c + m_len c) t with
          | Ok es' => Ok (es ++ es')
          | e => e
          end
      | e => e
      end
  end.

(* seek(offset) + read_container *)
Fixpoint find_m (off : N) (f : list mcont) : option mcont :=
  match f with
  | [] => None
  | c :: t => if m_off c =? off then Some c else find_m off t
  end.

(* container.slices().zip(landmarks).filter(landmark == index_record.landmark()) *)
Definition slices_at (lm : N) (c : mcont) : list slice :=
  filter (fun s => s_landmark s =? lm) (m_slices c).

(* Query::read_record_buf / read_next_container.  The records come one by one; an error ends
   the iteration and is what a caller collecting the answer sees (records delivered before it
   are not part of the observation).  A seek that does not land on a container ends the
   iteration (read_container -> 0). *)
Fixpoint query_m (sel : N -> N -> N -> rec -> bool) (es : list entry) (f : list mcont)
         (r lo hi : N) : result (list rec) :=
  match es with
  | [] => Ok []
  | e :: t =>
      if opt_eqb (e_rid e) r then
        match find_m (e_off e) f with
        | None => Ok []
        | Some c =>
            match slices_at (e_landmark e) c with
            | [] => ErrInvalidData
            | ss =>
                match query_m sel t f r lo hi with
                | Ok l => Ok (filter (sel r lo hi) (flat_map s_recs ss) ++ l)
                | err => err
                end
            end
        end
      else query_m sel t f r lo hi
  end.

Definition query_region_m (nrefs : N) (es : list entry) (f : list mcont)
           (r : N) (lo hi : option N) : result (list rec) :=
  if r <? nrefs then
    let b := region_bounds lo hi in query_m selected es f r (fst b) (snd b)
  else ErrInvalidInput.

(* an index whose k-th entry carries a landmark that is not a slice (for the check of the
   InvalidData path) *)
Fixpoint bump_landmark (k : nat) (es : list entry) : list entry :=
  match es, k with
  | [], _ => []
  | e :: t, O => mkentry (e_rid e) (e_start e) (e_span e) (e_off e) (e_landmark e + 1) (e_slen e) :: t
  | e :: t, S k' => e :: bump_landmark k' t
  end.

(* -- before the repair 944089d: the whole container for every entry -- *)
Definition flat_c (c : mcont) : container :=
  mkcont (m_off c) (m_hlen c) (m_len c) 0 0 Multi (m_recs c).

Definition query_m_v0 (sel : N -> N -> N -> rec -> bool) (es : list entry) (f : list mcont)
           (r lo hi : N) : list rec :=
  query_gen sel es (map flat_c f) r lo hi.

(* ---- query_unmapped ------------------------------------------------------------------- *)

Definition entry_unmapped (e : entry) : bool :=
  match e_rid e with None => true | Some _ => false end.

(* seek(offset) then read containers to the end: the suffix of the file that starts with the
   container at [off].  (A seek elsewhere would make the real reader decode garbage; modelled
   as the end of the stream, as in [find_container].) *)
Fixpoint from_off (off : N) (f : list mcont) : list mcont :=
  match f with
  | [] => []
  | c :: t => if m_off c =? off then f else from_off off t
  end.

Definition unplaced_flagged (x : rec) : bool := is_unmapped x && runm x.

Definition query_unmapped (es : list entry) (f : list mcont) : result (list rec) :=
  match find entry_unmapped es with
  | Some e => Ok (filter unplaced_flagged (flat_map m_recs (from_off (e_off e) f)))
  | None => Ok []
  end.

(* -- before the repairs 47f309c / 5cbbdb3: without an entry the reader seeked to
   SeekFrom::End(0), PAST the EOF container, and the first read_container failed with
   UnexpectedEof; the filter looked at the flag only -- *)
Definition query_unmapped_v0 (es : list entry) (f : list mcont) : result (list rec) :=
  match find entry_unmapped es with
  | Some e => Ok (filter runm (flat_map m_recs (from_off (e_off e) f)))
  | None => ErrUnexpectedEof
  end.

(* ---- specification side ---------------------------------------------------------------- *)

Definition scan_m (f : list mcont) (r lo hi : N) : list rec :=
  filter (selected r lo hi) (flat_map m_recs f).

(* what a scan keeps when asked for the unplaced records *)
Definition scan_unplaced (f : list mcont) : list rec :=
  filter is_unmapped (flat_map m_recs f).

(* the entries the statement asks for, per slice, from the records alone, with the slice's true
   position in the container body and its true size *)
Fixpoint mspec_slices (pos lm : N) (ss : list slice) : list entry :=
  match ss with
  | [] => []
  | s :: t => multi_entries pos lm (s_len s) (s_recs s) ++ mspec_slices pos (lm + s_len s) t
  end.

Definition first_landmark (c : mcont) : N :=
  match m_slices c with [] => m_len c | s :: _ => s_landmark s end.

Definition mspec_entries (c : mcont) : list entry :=
  mspec_slices (m_off c) (first_landmark c) (m_slices c).

(* landmarks: each slice starts where the previous one ends, the last one ends the body *)
Fixpoint sl_ok (len : N) (ss : list slice) : Prop :=
  match ss with
  | [] => True
  | s :: t =>
      match t with
      | [] => len = s_landmark s + s_len s
      | s' :: _ => s_landmark s' = s_landmark s + s_len s
      end /\ sl_ok len t
  end.

Fixpoint mlayout_ok (pos : N) (f : list mcont) : Prop :=
  match f with
  | [] => True
  | c :: t => m_off c = pos /\ 0 < m_hlen c /\ sl_ok (m_len c) (m_slices c)
              /\ mlayout_ok (pos + m_hlen c + m_len c) t
  end.

Definition slice_ok (s : slice) : Prop :=
  s_recs s <> [] /\ s_ctx s = slice_ctx (s_recs s) /\ Forall rec_ok (s_recs s) /\ 0 < s_len s.

Definition mfile_ok (pos : N) (f : list mcont) : Prop :=
  mlayout_ok pos f /\ Forall (fun c => Forall slice_ok (m_slices c)) f.

(* number of slices of a container that hold a record of reference r *)
Definition holders (r : N) (c : mcont) : list slice :=
  filter (fun s => existsb (on_ref r) (s_recs s)) (m_slices c).

(* the embedding of the single-slice files of Crai.v *)
Definition of_container (c : container) : mcont :=
  mkmcont (c_off c) (c_hlen c) (c_len c) [mkslice (c_landmark c) (c_slen c) (c_ctx c) (c_recs c)].

(* query_unmapped_v0 input class: from the first container that holds an unplaced record on, a
   record carries the UNMAPPED flag iff it is unplaced *)
Fixpoint tail_clean (f : list mcont) : Prop :=
  match f with
  | [] => True
  | c :: t =>
      if existsb is_unmapped (m_recs c)
      then Forall (fun x => runm x = is_unmapped x) (flat_map m_recs f)
      else tail_clean t
  end.

(* helper for drivers *)
Definition wslice (lm sl : N) (recs : list rec) : slice := mkslice lm sl (slice_ctx recs) recs.

(* a file written by noodles (one slice per container) as a file of this model: every compared
   query case goes through [query_m], so the selection of the slice by landmark is modelled for
   single-slice containers too *)
Definition single_file (f : list container) : list mcont := map of_container f.

(* ---- the records as the QUERY sees them ---------------------------------------------------- *)

(* Query::read_next_container converts every decoded CRAM record with
   RecordBuf::try_from_alignment_record; `intersects` then tests the RecordBuf's reference id and
   [alignment_start, alignment_end] -- NOT the flags.  The CIGAR of a record flagged unmapped is
   empty (record.rs cigar(): Cigar::new(features, is_unmapped, read_length)), and
   RecordBuf::alignment_end of an empty CIGAR is the start itself: a PLACED read flagged unmapped
   (e.g. the unmapped mate placed at its mate's position) covers its POS only, whereas the CRAM
   record -- which fs::index and the writer's slice context use -- covers
   start .. start + read length - 1 ([re]).  A scan of the file returns the same RecordBufs. *)
Definition as_buf (x : rec) : rec :=
  mkrec (rname x) (rid x) (rs x) (if runm x then rs x else re x) (runm x).

Definition buf_slice (s : slice) : slice := wslice (s_landmark s) (s_len s) (map as_buf (s_recs s)).

Definition buf_cont (c : mcont) : mcont := mkmcont (m_off c) (m_hlen c) (m_len c) (map buf_slice (m_slices c)).

Definition buf_file (f : list mcont) : list mcont := map buf_cont f.

(* Reader::query on a file whose index is [es]: the entries select containers and slices, the
   records are the converted ones *)
Definition query_region_buf (nrefs : N) (es : list entry) (f : list mcont)
           (r : N) (lo hi : option N) : result (list rec) :=
  query_region_m nrefs es (buf_file f) r lo hi.

(* what of an index entry the query looks at *)
Definition ekey (e : entry) : option N * N * N := (e_rid e, e_off e, e_landmark e).

(* ---- placed records WITHOUT bases: the span of an index entry ------------------------------- *)

(* A record with a reference id and a position but read length 0 (an unmapped mate placed at its
   mate's position with SEQ `*`) has CRAM alignment end = start - 1: [re x] = rs x - 1, where 0
   stands for "no position" (Position::new(0) = None; None orders before every position, as 0
   does).  Two pieces of code compute an end from it:
   * the WRITER (io/writer/record.rs alignment_end, after the repair b02b368): start +
     max(span, 1) - 1, i.e. the record occupies at least its start -> [wend]; the slice header
     context (and through it the index entry of a single-reference slice) is built from it;
   * fs/index.rs push_index_records_for_multi_reference_slice: record.rs alignment_end =
     start + span - 1 with no such floor -> [re x] itself; per reference
     `usize::from(end) - usize::from(start) + 1` then underflows (a panic in a build with overflow
     checks) when the largest end is below the smallest start, and the `todo!()` is reached when
     no end is a position (a lone such record at POS 1).
   [index_span_repaired] says which of the two the record scan of fs/index.rs follows: false = the
   code as it is, true = after the proposed repair (/tmp/C19/fixes/04-...: the scan takes
   max(end, start), the writer's convention).  Flipping it is the only change needed once the
   repair is applied. *)
Definition index_span_repaired : bool := true.

Definition wend (x : rec) : N := N.max (re x) (rs x).

(* the record as the writer sees it *)
Definition wrec (x : rec) : rec := mkrec (rname x) (rid x) (rs x) (wend x) (runm x).

(* the record as the record scan of fs/index.rs sees it *)
Definition irec (rep : bool) (x : rec) : rec := if rep then wrec x else x.

(* a slice as the writer stores it: the header context comes from the writer's ends *)
Definition xslice (lm sl : N) (recs : list rec) : slice := mkslice lm sl (slice_ctx (map wrec recs)) recs.

Definition xcont (c : mcont) : mcont :=
  mkmcont (m_off c) (m_hlen c) (m_len c) (map (fun s => xslice (s_landmark s) (s_len s) (s_recs s)) (m_slices c)).

Definition xfile (f : list mcont) : list mcont := map xcont f.

(* some reference of the slice gets largest end < smallest start: the subtraction underflows
   (or, with no end at all, the todo!() is reached) *)
Definition underflows (recs : list rec) : bool :=
  existsb (fun r => let lh := range_of r recs in snd lh <? fst lh) (mapped_keys recs).

Definition slice_panics (rep : bool) (s : slice) : bool :=
  match s_ctx s with
  | Multi => negb rep && underflows (s_recs s)
  | _ => false
  end.

(* index(): per slice, in order: the range test of container.slices(), then push_index_records *)
Fixpoint slices_entries_x (rep : bool) (pos len : N) (ss : list slice) : result (list entry) :=
  match ss with
  | [] => Ok []
  | s :: t =>
      let nxt := match t with [] => len | s' :: _ => s_landmark s' end in
      if (nxt <? s_landmark s) || (len <? nxt) then ErrInvalidData
      else if slice_panics rep s then Panic
      else
        match slices_entries_x rep pos len t with
        | Ok es => Ok (slice_entries pos (s_landmark s) (nxt - s_landmark s) (s_ctx s) (map (irec rep) (s_recs s)) ++ es)
        | e => e
        end
  end.

Fixpoint index_x (rep : bool) (pos : N) (f : list mcont) : result (list entry) :=
  match f with
  | [] => Ok []
  | c :: t =>
      match slices_entries_x rep pos (m_len c) (m_slices c) with
      | Ok es =>
          match index_x rep (pos + m_hlen c + m_len c) t with
          | Ok es' => Ok (es ++ es')
          | e => e
          end
      | e => e
      end
  end.

(* cram::fs::index on a file written by the writer (records as decoded, contexts as stored) *)
Definition index_real (pos : N) (f : list mcont) : result (list entry) :=
  index_x index_span_repaired pos (xfile f).

(* the input class of the finding: a multi-reference slice holds a placed record without bases *)
Definition no_bases (x : rec) : bool := match rid x with Some _ => re x <? rs x | None => false end.

Definition span_class_slice (s : slice) : bool :=
  match s_ctx s with Multi => existsb no_bases (s_recs s) | _ => false end.

Definition span_class (f : list mcont) : bool :=
  existsb (fun c => existsb span_class_slice (m_slices c)) f.
