(* C19 -- the index on its way through a .crai file: cram::fs::index -> crai::io::Writer (tab
   separated decimal text inside gzip; the gzip layer is opaque here) -> crai::io::Reader ->
   Reader::query / query_unmapped.  The text layout and its reader are C17's model
   NV.Index.TextIndex (w_crai / read_crai, imported read-only); this file only converts between
   the index entries of NV.CramIdx.Crai and TextIndex's crai records (crai::Record holds exactly
   these six fields).  Definitions only; proofs in TransportProofs.v. *)
From Coq Require Import List NArith Bool.
From NV Require Import CramIdx.Crai CramIdx.Multi.
From NV Require Index.TextIndex.
Import ListNotations.
Open Scope N_scope.

Definition to_crai (e : entry) : TextIndex.crai_rec :=
  TextIndex.mkcrai (e_rid e) (e_start e) (e_span e) (e_off e) (e_landmark e) (e_slen e).

Definition of_crai (r : TextIndex.crai_rec) : entry :=
  mkentry (TextIndex.c_rid r) (TextIndex.c_start r) (TextIndex.c_span r)
          (TextIndex.c_off r) (TextIndex.c_land r) (TextIndex.c_slen r).

(* crai::io::Writer::write_index: the text handed to the gzip encoder *)
Definition crai_text (es : list entry) : list N := TextIndex.w_crai (map to_crai es).

(* crai::io::Reader::read_index on the decompressed text; None = io::Error *)
Definition read_index (bs : list N) : option (list entry) :=
  option_map (map of_crai) (TextIndex.read_crai bs).

(* index -> .crai -> index -> query, as IndexedReader over a file on disk does *)
Definition query_via_file (nrefs : N) (es : list entry) (f : list mcont)
           (r : N) (lo hi : option N) : option (result (list rec)) :=
  match read_index (crai_text es) with
  | Some es' => Some (query_region_m nrefs es' f r lo hi)
  | None => None
  end.

Definition query_unmapped_via_file (es : list entry) (f : list mcont) : option (result (list rec)) :=
  match read_index (crai_text es) with
  | Some es' => Some (query_unmapped es' f)
  | None => None
  end.

(* what the text format can carry: reference ids fit an i32, positions are >= 1, the rest u64 *)
Definition u64_lim : N := 18446744073709551616.

Definition entry_fits (e : entry) : Prop :=
  match e_rid e with Some id => id <= 2147483647 | None => True end /\
  match e_start e with Some p => 1 <= p /\ p < u64_lim | None => True end /\
  e_span e < u64_lim /\ e_off e < u64_lim /\ e_landmark e < u64_lim /\ e_slen e < u64_lim.

(* the same, as a condition on the file: reference ids fit an i32, starts are positions, the
   file is smaller than 2^64 bytes *)
Definition rec_fits (x : rec) : Prop :=
  match rid x with Some id => id <= 2147483647 /\ 1 <= rs x | None => True end.

Definition mcont_fits (c : mcont) : Prop :=
  m_off c < u64_lim /\ m_len c < u64_lim /\ Forall rec_fits (m_recs c).
