(* C19 -- Reader::query / query_unmapped from the BYTES of the file through a READER, sync and
   async: what the async reader (noodles-cram src/async/io/reader.rs, reader/query.rs,
   reader/container.rs, reader/container/header.rs, reader/num/{itf8,ltf8}.rs, reader/records.rs)
   does over C16's async source (NV.Async.ReadExact: awaited poll_read over a poll script) and
   what the sync reader (src/io/reader.rs, io/reader/query.rs, io/reader/container.rs,
   container/header.rs, num/{itf8,ltf8}.rs) does over C12's scripted source (NV.Io.Source).

   The reads a container costs are written ONCE as a read program [prog]:
     PRead n   read_exact of n bytes (tokio ReadExact / read_u8 / read_i32_le / read_i64, std
               read_exact): UnexpectedEof when fewer than n bytes are left
     PTake n   `reader.take(n).read_to_end(buf)`: up to n bytes, fewer when the source ends
   and run (a) over any reader in the sense of C12 ([run_rd]: read_exact = NV.Io.ReadExact's loop,
   read_to_end = NV.Async.ReadExact.drain_loop with arbitrary request sizes) and (b) over the
   bytes that are left ([run_pure]).  The two readers differ in the GRANULARITY of the ITF8/LTF8
   reads -- the async reader awaits read_u8 for every byte (read_i64 for the 8 trailing bytes of
   a 9-byte LTF8), the sync reader reads the first byte and then the rest with one read_exact --
   which is the parameter [g] (true = byte by byte).

   Modelled at the byte level: seek (tokio::io::seek::Seek over AsyncSeek::start_seek /
   poll_complete with a Pending script, [seek_await]), the container header with its CRC32, the
   EOF container, the body, Container::compression_header()'s range test, the landmark test of
   read_next_container, Container::slices() ranges and the slice header block (NV.CramIdx.Bytes).
   NOT modelled: the compression header, the data blocks and the decoding of records -- the
   records of a slice come from the layout [f] (the slice of the container at that offset, by
   position), as in NV.CramIdx.Multi.  Definitions only; proofs in AsyncQueryProofs.v. *)
From Coq Require Import List NArith ZArith Arith Bool.
From NV Require Import Base.LE Io.Source Io.ReadExact Io.Run Async.ReadExact.
From NV Require Import Cram.Itf8 Cram.Ltf8 Bgzf.Crc32 Trunc.Stream Trunc.Cram.
From NV Require Import CramIdx.Crai CramIdx.Multi CramIdx.Bytes.
Import ListNotations.
Open Scope N_scope.

(* ---- read programs ----------------------------------------------------------------------- *)

Inductive prog (A : Type) : Type :=
| PRet (a : A)
| PFail (e : ekind)
| PRead (n : nat) (k : list N -> prog A)
| PTake (n : nat) (k : list N -> prog A).
Arguments PRet {A} a.
Arguments PFail {A} e.
Arguments PRead {A} n k.
Arguments PTake {A} n k.

Fixpoint p_bind {A B : Type} (p : prog A) (f : A -> prog B) : prog B :=
  match p with
  | PRet a => f a
  | PFail e => PFail e
  | PRead n k => PRead n (fun bs => p_bind (k bs) f)
  | PTake n k => PTake n (fun bs => p_bind (k bs) f)
  end.

(* over the bytes that are left *)
Fixpoint run_pure {A : Type} (p : prog A) (d : list N) : pres A :=
  match p with
  | PRet a => POk a d
  | PFail e => PErr e
  | PRead n k => if (n <=? length d)%nat then run_pure (k (firstn n d)) (skipn n d) else PErr UnexpectedEof
  | PTake n k => run_pure (k (firstn n d)) (skipn n d)
  end.

Inductive rr (A : Type) : Type := RVal (a : A) | RErr (e : ekind).
Arguments RVal {A} a.
Arguments RErr {A} e.

Section RunRd.
  Context {S : Type}.
  Variable rd : reader S.
  Variable req : nat -> nat.           (* sizes read_to_end asks for *)
  Variable fuelf : S -> nat -> nat.

  Fixpoint run_rd {A : Type} (p : prog A) (s : S) : rr A * S :=
    match p with
    | PRet a => (RVal a, s)
    | PFail e => (RErr e, s)
    | PRead n k =>
        match read_exact rd (fuelf s n) s n with
        | (bs, XOk, s') => run_rd (k bs) s'
        | (_, XUnexpectedEof, s') => (RErr UnexpectedEof, s')
        | (_, XNoFuel, s') => (RErr OutOfFuel, s')
        end
    | PTake n k =>
        match drain_loop rd req (fuelf s n) s n [] with
        | (_, NV.Io.ReadExact.OutOfFuel, s') => (RErr OutOfFuel, s')
        | (bs, _, s') => run_rd (k bs) s'
        end
    end.
End RunRd.

(* ---- the reads of a container ------------------------------------------------------------ *)

(* n awaited read_u8 *)
Fixpoint p_each (n : nat) : prog (list N) :=
  match n with
  | O => PRet []
  | Datatypes.S n' => PRead 1 (fun h => p_bind (p_each n') (fun t => PRet (h ++ t)))
  end.

Definition p_bytes (g : bool) (n : nat) : prog (list N) :=
  if g then p_each n else PRead n (fun h => PRet h).

Definition itf8_extra (b0 : N) : nat :=
  if b0 <? 128 then 0 else if b0 <? 192 then 1 else if b0 <? 224 then 2 else if b0 <? 240 then 3 else 4.

(* the value and the bytes consumed (what the CrcReader has seen) *)
Definition p_itf8 (g : bool) : prog (Z * list N) :=
  PRead 1 (fun h =>
    p_bind (p_bytes g (itf8_extra (nth 0 h 0))) (fun t =>
      match read_itf8 (h ++ t) with
      | Some (v, _) => PRet (v, h ++ t)
      | None => PFail UnexpectedEof
      end)).

Definition ltf8_extra (b0 : N) : nat :=
  if b0 <? 128 then 0 else if b0 <? 192 then 1 else if b0 <? 224 then 2 else if b0 <? 240 then 3
  else if b0 <? 248 then 4 else if b0 <? 252 then 5 else if b0 <? 254 then 6 else if b0 <? 255 then 7 else 8.

Definition p_ltf8 (g : bool) : prog (Z * list N) :=
  PRead 1 (fun h =>
    let k := ltf8_extra (nth 0 h 0) in
    (* the 9-byte form: async read_i64, sync read_u64_be -- one read of 8 bytes in both *)
    p_bind (if Nat.eqb k 8 then PRead 8 (fun t => PRet t) else p_bytes g k) (fun t =>
      match read_ltf8 (h ++ t) with
      | Some (v, _) => PRet (v, h ++ t)
      | None => PFail UnexpectedEof
      end)).

Definition p_as (p : prog (Z * list N)) : prog (N * list N) :=
  p_bind p (fun vr => if (fst vr <? 0)%Z then PFail InvalidData else PRet (Z.to_N (fst vr), snd vr)).

Fixpoint p_repeat {A : Type} (n : nat) (p : prog (A * list N)) : prog (list A * list N) :=
  match n with
  | O => PRet ([], [])
  | Datatypes.S n' =>
      p_bind p (fun xr => p_bind (p_repeat n' p) (fun xsr => PRet (fst xr :: fst xsr, snd xr ++ snd xsr)))
  end.

(* container/header.rs read_header_inner up to the landmarks: the header and the bytes consumed *)
Definition p_dc_fields (g : bool) : prog (chdr * list N) :=
  PRead 4 (fun b4 =>
  let u := le_dec b4 in
  if negb (u <? 2147483648) then PFail InvalidData else
  p_bind (p_itf8 g) (fun rid =>
  p_bind (p_itf8 g) (fun start =>
  p_bind (p_itf8 g) (fun span =>
  if negb (ctx_ok (fst rid) (fst start) (fst span)) then PFail InvalidData else
  p_bind (p_as (p_itf8 g)) (fun nrec =>
  p_bind (p_as (p_ltf8 g)) (fun counter =>
  p_bind (p_as (p_ltf8 g)) (fun bases =>
  p_bind (p_as (p_itf8 g)) (fun nblocks =>
  p_bind (p_as (p_itf8 g)) (fun nl =>
  p_bind (p_repeat (N.to_nat (fst nl)) (p_as (p_itf8 g))) (fun lms =>
  PRet (mkchdr u (fst rid) (fst start) (fst span) (fst nrec) (fst counter) (fst bases) (fst nblocks) (fst lms),
        b4 ++ snd rid ++ snd start ++ snd span ++ snd nrec ++ snd counter ++ snd bases ++ snd nblocks
           ++ snd nl ++ snd lms))))))))))).

Section CRC.
  Variable crc : list N -> N.

  (* read_header: (header, bytes of the header incl. the CRC, 0 for the EOF container else the length) *)
  Definition p_read_header (g : bool) : prog (chdr * N * N) :=
    p_bind (p_dc_fields g) (fun hr =>
    PRead 4 (fun c4 =>
      let actual := crc (snd hr) in
      if actual =? le_dec c4
      then PRet (fst hr, N.of_nat (length (snd hr)) + 4, if is_eof (fst hr) actual then 0 else ch_len (fst hr))
      else PFail InvalidData)).

  (* read_container: (header, header length, body, true = EOF container) *)
  Definition p_read_container (g : bool) : prog (chdr * N * list N * bool) :=
    p_bind (p_read_header g) (fun x =>
      let '(h, hl, len) := x in
      if len =? 0 then PRead (N.to_nat eof_length) (fun b => PRet (h, hl, b, true))
      else PTake (N.to_nat len) (fun b =>
             if N.of_nat (length b) <? len then PFail UnexpectedEof else PRet (h, hl, b, false))).

  (* ---- what is done with a container that was read ------------------------------------- *)

  (* Container::compression_header(): src.get(..landmarks.first() or len) *)
  Definition comp_range_ok (h : chdr) (body : list N) : bool :=
    match ch_landmarks h with [] => true | l :: _ => l <=? N.of_nat (length body) end.

  (* container.slices().zip(landmarks).filter(landmark == lm): the slices are cut and their header
     blocks parsed one after the other; only those at [lm] are kept (an error in a slice that is
     not kept is dropped with it); [ss] = the slices of the layout, by position *)
  Fixpoint sel_slices (body : list N) (lms : list N) (ss : list slice) (lm : N) : bres (list rec) :=
    match lms with
    | [] => BOk []
    | l :: t =>
        let nxt := match t with [] => N.of_nat (length body) | l' :: _ => l' end in
        let mine := match ss with [] => [] | s :: _ => s_recs s end in
        let rest := match ss with [] => [] | _ :: r => r end in
        if l =? lm then
          match slice_bytes body l nxt with
          | None => BErr InvalidData
          | Some src =>
              match r_slice_header crc src with
              | PErr e => BErr e
              | POk _ _ =>
                  match sel_slices body t rest lm with
                  | BOk rs => BOk (mine ++ rs)
                  | BErr e => BErr e
                  end
              end
          end
        else sel_slices body t rest lm
    end.

  Variable f : list mcont.     (* the layout: whose records a slice holds *)

  Definition slices_of (off : N) : list slice :=
    match find_m off f with Some c => m_slices c | None => [] end.

  (* query.rs read_next_container after read_container *)
  Definition visit (e : entry) (h : chdr) (body : list N) : bres (list rec) :=
    if negb (comp_range_ok h body) then BErr InvalidData
    else if negb (existsb (fun l => l =? e_landmark e) (ch_landmarks h)) then BErr InvalidData
    else sel_slices body (ch_landmarks h) (slices_of (e_off e)) (e_landmark e).

  (* records.rs read_next_container after read_container: every slice *)
  Definition visit_all (off : N) (h : chdr) (body : list N) : bres (list rec) :=
    if negb (comp_range_ok h body) then BErr InvalidData
    else match bslices crc body (ch_landmarks h) with
         | BErr e => BErr e
         | BOk _ => BOk (flat_map s_recs (slices_of off))
         end.

  Inductive ares (A : Type) : Type := AOk (a : A) | AErr (e : ekind) | AInvalidInput.
  Arguments AOk {A} a.
  Arguments AErr {A} e.
  Arguments AInvalidInput {A}.

  Variable file : list N.

  (* ---- over a reader --------------------------------------------------------------------- *)
  Section Reader.
    Context {S : Type}.
    Variable rd : reader S.
    Variable req : nat -> nat.
    Variable fuelf : S -> nat -> nat.
    Variable seek : S -> N -> option S.     (* None: the seek did not complete within its fuel *)
    Variable g : bool.

    Fixpoint query_b (es : list entry) (s : S) (r lo hi : N) : ares (list rec) * S :=
      match es with
      | [] => (AOk [], s)
      | e :: t =>
          if opt_eqb (e_rid e) r then
            match seek s (e_off e) with
            | None => (AErr OutOfFuel, s)
            | Some s1 =>
                match run_rd rd req fuelf (p_read_container g) s1 with
                | (RErr x, s2) => (AErr x, s2)
                | (RVal (h, hl, body, true), s2) => (AOk [], s2)
                | (RVal (h, hl, body, false), s2) =>
                    match visit e h body with
                    | BErr x => (AErr x, s2)
                    | BOk recs =>
                        match query_b t s2 r lo hi with
                        | (AOk l, s3) => (AOk (filter (selected r lo hi) recs ++ l), s3)
                        | other => other
                        end
                    end
                end
            end
          else query_b t s r lo hi
      end.

    Definition query_region_b (nrefs : N) (es : list entry) (s : S) (r : N) (lo hi : option N)
      : ares (list rec) * S :=
      if r <? nrefs then
        let b := region_bounds lo hi in query_b es s r (fst b) (snd b)
      else (AInvalidInput, s).

    (* several queries, one after the other, on ONE reader *)
    Fixpoint queries_b (nrefs : N) (es : list entry) (s : S) (qs : list (N * option N * option N))
      : list (ares (list rec)) :=
      match qs with
      | [] => []
      | (r, lo, hi) :: t =>
          let '(a, s') := query_region_b nrefs es s r lo hi in a :: queries_b nrefs es s' t
      end.

    (* the records stream from the current position: containers up to the EOF container *)
    Fixpoint records_b (fuel : nat) (pos : N) (s : S) : ares (list rec) * S :=
      match fuel with
      | O => (AErr OutOfFuel, s)
      | Datatypes.S k =>
          match run_rd rd req fuelf (p_read_container g) s with
          | (RErr x, s2) => (AErr x, s2)
          | (RVal (h, hl, body, true), s2) => (AOk [], s2)
          | (RVal (h, hl, body, false), s2) =>
              match visit_all pos h body with
              | BErr x => (AErr x, s2)
              | BOk recs =>
                  match records_b k (pos + hl + N.of_nat (length body)) s2 with
                  | (AOk l, s3) => (AOk (recs ++ l), s3)
                  | other => other
                  end
              end
          end
      end.

    Definition query_unmapped_b (es : list entry) (s : S) : ares (list rec) * S :=
      match find entry_unmapped es with
      | None => (AOk [], s)
      | Some e =>
          match seek s (e_off e) with
          | None => (AErr OutOfFuel, s)
          | Some s1 =>
              match records_b (Datatypes.S (length file)) (e_off e) s1 with
              | (AOk l, s2) => (AOk (filter unplaced_flagged l), s2)
              | other => other
              end
          end
      end.
  End Reader.

  (* ---- over the bytes ---------------------------------------------------------------------- *)

  Fixpoint query_p (es : list entry) (r lo hi : N) : ares (list rec) :=
    match es with
    | [] => AOk []
    | e :: t =>
        if opt_eqb (e_rid e) r then
          match run_pure (p_read_container false) (at_ (e_off e) file) with
          | PErr x => AErr x
          | POk (h, hl, body, true) _ => AOk []
          | POk (h, hl, body, false) _ =>
              match visit e h body with
              | BErr x => AErr x
              | BOk recs =>
                  match query_p t r lo hi with
                  | AOk l => AOk (filter (selected r lo hi) recs ++ l)
                  | other => other
                  end
              end
          end
        else query_p t r lo hi
    end.

  Definition query_region_p (nrefs : N) (es : list entry) (r : N) (lo hi : option N) : ares (list rec) :=
    if r <? nrefs then
      let b := region_bounds lo hi in query_p es r (fst b) (snd b)
    else AInvalidInput.

  Fixpoint records_p (fuel : nat) (pos : N) (d : list N) : ares (list rec) :=
    match fuel with
    | O => AErr OutOfFuel
    | Datatypes.S k =>
        match run_pure (p_read_container false) d with
        | PErr x => AErr x
        | POk (h, hl, body, true) _ => AOk []
        | POk (h, hl, body, false) d' =>
            match visit_all pos h body with
            | BErr x => AErr x
            | BOk recs =>
                match records_p k (pos + hl + N.of_nat (length body)) d' with
                | AOk l => AOk (recs ++ l)
                | other => other
                end
            end
        end
    end.

  Definition query_unmapped_p (es : list entry) : ares (list rec) :=
    match find entry_unmapped es with
    | None => AOk []
    | Some e =>
        match records_p (Datatypes.S (length file)) (e_off e) (at_ (e_off e) file) with
        | AOk l => AOk (filter unplaced_flagged l)
        | other => other
        end
    end.

  (* ---- the async instance ------------------------------------------------------------------ *)

  (* AdvReader's AsyncSeek (harness/src/shared/c16_adversary.rs): start_seek records the target;
     poll_complete: Pending changes nothing, Ready moves to the recorded target (if any) and
     returns the position.  One event of the seek script per poll_complete call (true =
     Pending); exhausted = Ready. *)
  Record sk := mkSk { sk_pos : N; sk_target : option N }.

  Definition sk_poll_complete (s : sk) (pending : bool) : option N * sk :=
    if pending then (None, s)
    else match sk_target s with
         | Some t => (Some t, mkSk t None)
         | None => (Some (sk_pos s), s)
         end.

  Definition sk_next (sc : list bool) : bool * list bool :=
    match sc with [] => (false, []) | b :: r => (b, r) end.

  (* one poll of tokio::io::seek::Seek { seek, pos }: (Ready value, source, pos, rest of script) *)
  Definition seek_poll (s : sk) (pos : option N) (sc : list bool) : option N * sk * option N * list bool :=
    match pos with
    | Some p =>
        let '(ev, sc1) := sk_next sc in
        match sk_poll_complete s ev with
        | (None, s1) => (None, s1, Some p, sc1)
        | (Some _, s1) =>
            let s2 := mkSk (sk_pos s1) (Some p) in      (* start_seek(p); pos = None *)
            let '(ev2, sc2) := sk_next sc1 in
            match sk_poll_complete s2 ev2 with
            | (None, s3) => (None, s3, None, sc2)
            | (Some v, s3) => (Some v, s3, None, sc2)
            end
        end
    | None =>
        let '(ev, sc1) := sk_next sc in
        match sk_poll_complete s ev with
        | (None, s1) => (None, s1, None, sc1)
        | (Some v, s1) => (Some v, s1, None, sc1)
        end
    end.

  (* `.await`: the task polls again after every Pending *)
  Fixpoint seek_await (fuel : nat) (s : sk) (pos : option N) (sc : list bool) : option (N * sk * list bool) :=
    match fuel with
    | O => None
    | Datatypes.S k =>
        let '(v, s', pos', sc') := seek_poll s pos sc in
        match v with
        | Some p => Some (p, s', sc')
        | None => seek_await k s' pos' sc'
        end
    end.

  (* the async reader's state: the source (data left + read poll script) and the seek script *)
  Definition a_state : Type := (asource * list bool)%type.

  Definition a_rd : reader a_state := fun s n =>
    let '(x, a') := aread (fst s) n in (x, (a', snd s)).

  Definition a_fuelf (s : a_state) (n : nat) : nat := a_fuel (fst s) n.

  (* reader.seek(SeekFrom::Start(off)).await: the data left afterwards is the file from where the
     SOURCE is when the seek future is Ready *)
  Definition a_seek (s : a_state) (off : N) : option a_state :=
    let cur := N.of_nat (length file - length (a_data (fst s))) in
    match seek_await (Datatypes.S (Datatypes.S (length (snd s)))) (mkSk cur None) (Some off) (snd s) with
    | None => None
    | Some (_, src', sc') => Some (mkASource (at_ (sk_pos src') file) (a_polls (fst s)), sc')
    end.

  Definition a_init (codes : list nat) (seeks : list bool) (pos : N) : a_state :=
    (mkASource (at_ pos file) (polls_of codes), seeks).

  Definition async_queries (codes : list nat) (seeks : list bool) (chunk : nat) (p0 nrefs : N)
             (es : list entry) (qs : list (N * option N * option N)) : list (ares (list rec)) :=
    queries_b a_rd (fun _ => chunk) a_fuelf a_seek true nrefs es (a_init codes seeks p0) qs.

  Definition async_query_unmapped (codes : list nat) (seeks : list bool) (chunk : nat) (p0 : N)
             (es : list entry) : ares (list rec) :=
    fst (query_unmapped_b a_rd (fun _ => chunk) a_fuelf a_seek true es (a_init codes seeks p0)).

  (* ---- the sync instance: C12's scripted source (chunked deliveries, Interrupted) ---------- *)

  Definition s_seek (s : source) (off : N) : option source := Some (mkSource (at_ off file) (s_script s)).

  Definition sync_queries (script : list event) (p0 nrefs : N)
             (es : list entry) (qs : list (N * option N * option N)) : list (ares (list rec)) :=
    queries_b src_read (fun _ => 32%nat) src_fuel s_seek false nrefs es (mkSource (at_ p0 file) script) qs.

  Definition sync_query_unmapped (script : list event) (p0 : N) (es : list entry) : ares (list rec) :=
    fst (query_unmapped_b src_read (fun _ => 32%nat) src_fuel s_seek false es (mkSource (at_ p0 file) script)).
End CRC.

Arguments AOk {A} a.
Arguments AErr {A} e.
Arguments AInvalidInput {A}.

(* the instances compared with the implementation (CRC-32 of NV.Bgzf.Crc32) *)
Definition async_queries32 := async_queries crc32.
Definition async_query_unmapped32 := async_query_unmapped crc32.
Definition sync_queries32 := sync_queries crc32.
Definition sync_query_unmapped32 := sync_query_unmapped crc32.
