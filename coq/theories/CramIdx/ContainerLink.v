(* C19 -- the reader's container program IS C13's framing parser.

   [AsyncQuery.p_read_container crc g] is the read program of read_container (the reads the sync
   and the async reader issue); [Trunc.Cram.cram_parse_container crc] is C13's parser of the same
   code over the bytes that are left.  Proved here: on EVERY byte string the program returns the
   header, the body and the EOF flag the parser returns, leaves the same rest, and the header
   length it reports is what the parser consumed before the body.  Hence [BytesProofs.cont_at]
   (what [Bytes.walk] establishes for every container of the layout it reads from the bytes)
   gives [AsyncQueryProofs.cont_read], and the byte-level query theorems need no framing premise.
   Proofs only. *)
From Coq Require Import List NArith ZArith Arith Bool Lia ZifyBool ZifyNat ZifyN.
From NV Require Import Base.LE Cram.Bytes Cram.Itf8 Cram.Ltf8 Cram.IntProofs.
From NV Require Import Trunc.Stream Trunc.StreamProofs Trunc.Cram.
From NV Require Import CramIdx.Crai CramIdx.Multi CramIdx.Bytes CramIdx.BytesProofs.
From NV Require Import CramIdx.AsyncQuery CramIdx.AsyncQueryProofs.
Import ListNotations.
Local Open Scope nat_scope.

(* ---- a program that returns (value, bytes consumed) follows a parser ------------------------ *)

(* [T] = what the program does with the consumed bytes (the callers accumulate them) *)
Definition tracksF {A : Type} (T : list N -> list N) (p : prog (A * list N)) (q : rparser A) : Prop :=
  forall d, match q d with
            | POk v r => exists pre, d = pre ++ r /\ run_pure p d = POk (v, T pre) r
            | PErr e => run_pure p d = PErr e
            end.

Definition tracks {A : Type} (p : prog (A * list N)) (q : rparser A) : Prop := tracksF (fun t => t) p q.

Lemma tracksF_ext : forall (A : Type) T (p : prog (A * list N)) (q q' : rparser A),
  (forall d, q d = q' d) -> tracksF T p q -> tracksF T p q'.
Proof. intros A T p q q' H Ht d. rewrite <- H. apply Ht. Qed.

Lemma tracksF_bind : forall (A B : Type) T (p : prog (A * list N)) (q : rparser A)
    (F : A * list N -> prog (B * list N)) (G : A -> rparser B),
  tracks p q ->
  (forall a pre, tracksF (fun t => T (pre ++ t)) (F (a, pre)) (G a)) ->
  tracksF T (p_bind p F) (r_bind q G).
Proof.
  intros A B T p q F G Hp HF d. unfold r_bind. rewrite run_pure_bind.
  specialize (Hp d). destruct (q d) as [a r|e].
  - destruct Hp as [pre [Ed Ep]]. rewrite Ep. specialize (HF a pre r).
    destruct (G a r) as [b r'|e'].
    + destruct HF as [pre' [Er Ef]]. exists (pre ++ pre'). split; [|exact Ef].
      rewrite Ed, Er, app_assoc. reflexivity.
    + exact HF.
  - rewrite Hp. reflexivity.
Qed.

Lemma tracksF_ret : forall (A : Type) T (v : A) X, X = T [] -> tracksF T (PRet (v, X)) (r_ret v).
Proof. intros A T v X H d. unfold r_ret. exists []. split; [reflexivity|]. cbn [run_pure]. rewrite H. reflexivity. Qed.

Lemma tracksF_fail : forall (A : Type) T e, tracksF T (@PFail (A * list N) e) (r_fail e).
Proof. intros A T e d. reflexivity. Qed.

(* ---- read_exact n = r_take n ------------------------------------------------------------------ *)

Lemma r_take_cases : forall n d,
  r_take (N.of_nat n) d = if n <=? length d then POk (firstn n d) (skipn n d) else PErr UnexpectedEof.
Proof.
  intros n d. unfold r_take. rewrite take_spec, Nat2N.id.
  destruct (N.of_nat (length d) <? N.of_nat n)%N eqn:E; destruct (n <=? length d) eqn:E2; try reflexivity; lia.
Qed.

Lemma tracksF_read : forall (A : Type) T n (k : list N -> prog (A * list N)) (G : list N -> rparser A),
  (forall h, tracksF (fun t => T (h ++ t)) (k h) (G h)) ->
  tracksF T (PRead n k) (r_bind (r_take (N.of_nat n)) G).
Proof.
  intros A T n k G H d. unfold r_bind. rewrite r_take_cases. cbn [run_pure].
  destruct (n <=? length d); [|reflexivity].
  specialize (H (firstn n d) (skipn n d)). destruct (G (firstn n d) (skipn n d)) as [v r|e]; [|exact H].
  destruct H as [pre [E1 E2]]. exists (firstn n d ++ pre). split; [|exact E2].
  rewrite <- app_assoc, <- E1, firstn_skipn. reflexivity.
Qed.

(* ---- ITF8 / LTF8 ------------------------------------------------------------------------------ *)

Lemma take_be_cases : forall k acc bs,
  if k <=? length bs
  then exists v, take_be k acc bs = Some (v, skipn k bs) /\ take_be k acc (firstn k bs) = Some (v, [])
  else take_be k acc bs = None.
Proof.
  induction k as [|k IH]; intros acc bs.
  - cbn. exists acc. split; reflexivity.
  - destruct bs as [|b r]; [reflexivity|]. cbn [length take_be firstn skipn].
    change (S k <=? S (length r)) with (k <=? length r). apply IH.
Qed.

Lemma itf8_dec_extra : forall b0 r,
  if itf8_extra b0 <=? length r
  then exists u, itf8_dec (b0 :: r) = Some (u, skipn (itf8_extra b0) r)
                 /\ itf8_dec (b0 :: firstn (itf8_extra b0) r) = Some (u, [])
  else itf8_dec (b0 :: r) = None.
Proof.
  intros b0 r. unfold itf8_extra, itf8_dec.
  destruct (b0 <? 128)%N; [cbn; eexists; split; reflexivity|].
  destruct (b0 <? 192)%N;
    [pose proof (take_be_cases 1 0%N r) as H; destruct (1 <=? length r);
     [destruct H as [v [H1 H2]]; rewrite H1, H2; eexists; split; reflexivity|rewrite H; reflexivity]|].
  destruct (b0 <? 224)%N;
    [pose proof (take_be_cases 2 0%N r) as H; destruct (2 <=? length r);
     [destruct H as [v [H1 H2]]; rewrite H1, H2; eexists; split; reflexivity|rewrite H; reflexivity]|].
  destruct (b0 <? 240)%N;
    [pose proof (take_be_cases 3 0%N r) as H; destruct (3 <=? length r);
     [destruct H as [v [H1 H2]]; rewrite H1, H2; eexists; split; reflexivity|rewrite H; reflexivity]|].
  pose proof (take_be_cases 4 0%N r) as H; destruct (4 <=? length r);
     [destruct H as [v [H1 H2]]; rewrite H1, H2; eexists; split; reflexivity|rewrite H; reflexivity].
Qed.

Lemma with_prefix_cases : forall hi k r,
  if k <=? length r
  then exists u, with_prefix hi k r = Some (u, skipn k r) /\ with_prefix hi k (firstn k r) = Some (u, [])
  else with_prefix hi k r = None.
Proof.
  intros hi k r. unfold with_prefix. pose proof (take_be_cases k 0%N r) as H.
  destruct (k <=? length r).
  - destruct H as [v [H1 H2]]. rewrite H1, H2. eexists. split; reflexivity.
  - rewrite H. reflexivity.
Qed.

Lemma ltf8_dec_extra : forall b0 r,
  if ltf8_extra b0 <=? length r
  then exists u, ltf8_dec (b0 :: r) = Some (u, skipn (ltf8_extra b0) r)
                 /\ ltf8_dec (b0 :: firstn (ltf8_extra b0) r) = Some (u, [])
  else ltf8_dec (b0 :: r) = None.
Proof.
  intros b0 r. unfold ltf8_extra, ltf8_dec.
  destruct (b0 <? 128)%N; [cbn; eexists; split; reflexivity|].
  destruct (b0 <? 192)%N; [apply with_prefix_cases|].
  destruct (b0 <? 224)%N; [apply with_prefix_cases|].
  destruct (b0 <? 240)%N; [apply with_prefix_cases|].
  destruct (b0 <? 248)%N; [apply with_prefix_cases|].
  destruct (b0 <? 252)%N; [apply with_prefix_cases|].
  destruct (b0 <? 254)%N; [apply with_prefix_cases|].
  destruct (b0 <? 255)%N; apply with_prefix_cases.
Qed.

Lemma p_itf8_tracks : tracks (p_itf8 false) r_itf8.
Proof.
  intros d. unfold p_itf8, r_itf8, read_itf8. destruct d as [|b0 r]; [reflexivity|].
  cbn [run_pure length Nat.leb firstn skipn nth]. rewrite run_pure_bind.
  unfold p_bytes. cbn [run_pure]. pose proof (itf8_dec_extra b0 r) as H.
  destruct (itf8_extra b0 <=? length r).
  - destruct H as [u [H1 H2]]. rewrite H1. cbn [run_pure app]. rewrite H2. cbn [run_pure].
    exists (b0 :: firstn (itf8_extra b0) r). split; [|reflexivity].
    cbn [app]. rewrite firstn_skipn. reflexivity.
  - rewrite H. reflexivity.
Qed.

Lemma p_ltf8_tracks : tracks (p_ltf8 false) r_ltf8.
Proof.
  intros d. unfold p_ltf8, r_ltf8, read_ltf8. destruct d as [|b0 r]; [reflexivity|].
  cbn [run_pure length Nat.leb firstn skipn nth]. cbv zeta. rewrite run_pure_bind.
  assert (E : run_pure (if Nat.eqb (ltf8_extra b0) 8 then PRead 8 (fun t => PRet t) else p_bytes false (ltf8_extra b0)) r
              = if ltf8_extra b0 <=? length r then POk (firstn (ltf8_extra b0) r) (skipn (ltf8_extra b0) r)
                else PErr UnexpectedEof).
  { destruct (Nat.eqb (ltf8_extra b0) 8) eqn:E8.
    - apply Nat.eqb_eq in E8. rewrite E8. reflexivity.
    - reflexivity. }
  rewrite E. pose proof (ltf8_dec_extra b0 r) as H.
  destruct (ltf8_extra b0 <=? length r).
  - destruct H as [u [H1 H2]]. rewrite H1. cbn [run_pure app]. rewrite H2. cbn [run_pure].
    exists (b0 :: firstn (ltf8_extra b0) r). split; [|reflexivity].
    cbn [app]. rewrite firstn_skipn. reflexivity.
  - rewrite H. reflexivity.
Qed.

Lemma p_as_tracks : forall p q, tracks p q ->
  tracks (p_as p) (r_bind q (fun v => if (v <? 0)%Z then r_fail InvalidData else r_ret (Z.to_N v))).
Proof.
  intros p q H. unfold p_as, tracks. apply tracksF_bind; [exact H|].
  intros a pre. cbn [fst snd]. destruct (a <? 0)%Z; [apply tracksF_fail|].
  apply tracksF_ret. rewrite app_nil_r. reflexivity.
Qed.

Lemma p_itf8_as_tracks : tracks (p_as (p_itf8 false)) r_itf8_as.
Proof. exact (p_as_tracks _ _ p_itf8_tracks). Qed.

Lemma p_ltf8_as_tracks : tracks (p_as (p_ltf8 false)) r_ltf8_as.
Proof. exact (p_as_tracks _ _ p_ltf8_tracks). Qed.

Lemma p_repeat_tracks : forall (A : Type) n (p : prog (A * list N)) (q : rparser A),
  tracks p q -> tracks (p_repeat n p) (r_repeat n q).
Proof.
  intros A n p q H. induction n as [|n IH].
  - cbn [p_repeat r_repeat]. apply tracksF_ret. reflexivity.
  - cbn [p_repeat r_repeat]. unfold tracks. apply tracksF_bind; [exact H|]. intros a pre.
    apply tracksF_bind; [exact IH|]. intros b pre'. cbn [fst snd]. apply tracksF_ret.
    rewrite app_nil_r. reflexivity.
Qed.

(* ---- the container header --------------------------------------------------------------------- *)

Lemma r_bind_assoc : forall (A B C : Type) (p : rparser A) (f : A -> rparser B) (g : B -> rparser C) d,
  r_bind (r_bind p f) g d = r_bind p (fun a => r_bind (f a) g) d.
Proof. intros. unfold r_bind. destruct (p d); reflexivity. Qed.

Lemma p_dc_fields_tracks : tracks (p_dc_fields false) dc_fields.
Proof.
  unfold tracks.
  apply (tracksF_ext _ _ _
    (r_bind (r_take (N.of_nat 4)) (fun b4 =>
       if negb (le_dec b4 <? 2147483648)%N then r_fail InvalidData else
       r_bind r_itf8 (fun rid =>
       r_bind r_itf8 (fun start =>
       r_bind r_itf8 (fun span =>
       if negb (ctx_ok rid start span) then r_fail InvalidData else
       r_bind r_itf8_as (fun nrec =>
       r_bind r_ltf8_as (fun counter =>
       r_bind r_ltf8_as (fun bases =>
       r_bind r_itf8_as (fun nblocks =>
       r_bind r_itf8_as (fun nl =>
       r_bind (r_repeat (N.to_nat nl) r_itf8_as) (fun lms =>
       r_ret (mkchdr (le_dec b4) rid start span nrec counter bases nblocks lms))))))))))))).
  { intros d. unfold dc_fields, r_len32, r_u32le, r_landmarks, r_bind, r_ret, r_fail.
    change (N.of_nat 4) with 4%N.
    destruct (r_take 4 d) as [b4 r0|e]; [|reflexivity].
    destruct (le_dec b4 <? 2147483648)%N; [|reflexivity]. cbn [negb].
    destruct (r_itf8 r0) as [rid r1|e]; [|reflexivity].
    destruct (r_itf8 r1) as [start r2|e]; [|reflexivity].
    destruct (r_itf8 r2) as [span r3|e]; [|reflexivity].
    destruct (negb (ctx_ok rid start span)); [reflexivity|].
    destruct (r_itf8_as r3) as [nrec r4|e]; [|reflexivity].
    destruct (r_ltf8_as r4) as [counter r5|e]; [|reflexivity].
    destruct (r_ltf8_as r5) as [bases r6|e]; [|reflexivity].
    destruct (r_itf8_as r6) as [nblocks r7|e]; [|reflexivity].
    destruct (r_itf8_as r7) as [nl r8|e]; [|reflexivity].
    destruct (r_repeat (N.to_nat nl) r_itf8_as r8) as [lms r9|e]; reflexivity. }
  unfold p_dc_fields. apply tracksF_read. intros b4. cbv zeta.
  destruct (negb (le_dec b4 <? 2147483648)%N); [apply tracksF_fail|].
  apply tracksF_bind; [exact p_itf8_tracks|intros rid p1].
  apply tracksF_bind; [exact p_itf8_tracks|intros start p2].
  apply tracksF_bind; [exact p_itf8_tracks|intros span p3]. cbn [fst snd].
  destruct (negb (ctx_ok rid start span)); [apply tracksF_fail|].
  apply tracksF_bind; [exact p_itf8_as_tracks|intros nrec p4].
  apply tracksF_bind; [exact p_ltf8_as_tracks|intros counter p5].
  apply tracksF_bind; [exact p_ltf8_as_tracks|intros bases p6].
  apply tracksF_bind; [exact p_itf8_as_tracks|intros nblocks p7].
  apply tracksF_bind; [exact p_itf8_as_tracks|intros nl p8]. cbn [fst snd].
  apply tracksF_bind; [exact (p_repeat_tracks _ _ _ _ p_itf8_as_tracks)|intros lms p9]. cbn [fst snd].
  apply tracksF_ret. rewrite app_nil_r. reflexivity.
Qed.

Lemma firstn_consumed : forall (pre r : list N), firstn (length (pre ++ r) - length r) (pre ++ r) = pre.
Proof.
  intros pre r. rewrite app_length. replace (length pre + length r - length r) with (length pre) by lia.
  rewrite firstn_app, Nat.sub_diag, firstn_all, firstn_O, app_nil_r. reflexivity.
Qed.

Section CRC.
Variable crc : list N -> N.

(* read_header: the same header, the same length result; the program also reports how many bytes
   the header took *)
Lemma p_read_header_is_dc_read_header : forall d,
  match dc_read_header crc d with
  | POk (h, len) r => exists pre, d = pre ++ r /\
      run_pure (p_read_header crc false) d = POk (h, N.of_nat (length pre), len) r
  | PErr e => run_pure (p_read_header crc false) d = PErr e
  end.
Proof.
  intros d. unfold dc_read_header, p_read_header, r_bind, with_crc. rewrite run_pure_bind.
  pose proof (p_dc_fields_tracks d) as H.
  destruct (dc_fields d) as [h r|e]; [|rewrite H; reflexivity].
  destruct H as [pre [Ed Ep]]. rewrite Ep. cbn [fst snd]. rewrite Ed, firstn_consumed.
  unfold r_u32le, r_bind. change 4%N with (N.of_nat 4). rewrite r_take_cases. cbn [run_pure].
  destruct (4 <=? length r) eqn:E4; [|reflexivity]. unfold r_ret. cbv zeta.
  destruct (crc pre =? le_dec (firstn 4 r))%N; [|reflexivity]. cbn [fst snd run_pure].
  exists (pre ++ firstn 4 r). split.
  - rewrite <- app_assoc, firstn_skipn. reflexivity.
  - rewrite app_length, firstn_length_le by (apply Nat.leb_le; exact E4).
    replace (N.of_nat (length pre + 4)) with (N.of_nat (length pre) + 4)%N by lia. reflexivity.
Qed.

(* read_container = cram_parse_container, on every byte string *)
Theorem container_program_is_framing_parser : forall d,
  run_pure (p_read_container crc false) d
  = match cram_parse_container crc d with
    | POk (h, body, eof) r =>
        POk (h, (N.of_nat (length d - length r) - N.of_nat (length body))%N, body, eof) r
    | PErr e => PErr e
    end.
Proof.
  intros d. unfold cram_parse_container, p_read_container. unfold r_bind at 1. rewrite run_pure_bind.
  pose proof (p_read_header_is_dc_read_header d) as H.
  destruct (dc_read_header crc d) as [[h len] r|e]; [|rewrite H; reflexivity].
  destruct H as [pre [Ed Ep]]. rewrite Ep. cbn [fst snd].
  destruct (len =? 0)%N eqn:E0.
  - unfold r_bind, r_ret. change eof_length with (N.of_nat 15). rewrite r_take_cases, Nat2N.id. cbn [run_pure].
    destruct (15 <=? length r) eqn:E; [|reflexivity]. f_equal. f_equal. f_equal. f_equal.
    rewrite Ed, app_length, skipn_length, firstn_length_le by (apply Nat.leb_le; exact E).
    apply Nat.leb_le in E. lia.
  - unfold r_bind, r_ret. replace len with (N.of_nat (N.to_nat len)) at 2 by apply N2Nat.id.
    rewrite r_take_cases. cbn [run_pure].
    destruct (N.to_nat len <=? length r) eqn:E.
    + apply Nat.leb_le in E. rewrite firstn_length_le by exact E.
      assert (El : (N.of_nat (N.to_nat len) <? len)%N = false) by lia. rewrite El. cbn [run_pure].
      f_equal. f_equal. f_equal. f_equal.
      rewrite Ed, app_length, skipn_length. lia.
    + apply Nat.leb_gt in E. rewrite firstn_length, Nat.min_r by lia.
      assert (El : (N.of_nat (length r) <? len)%N = true) by lia. rewrite El. reflexivity.
Qed.

(* the same for the async reader's byte-by-byte reads *)
Corollary container_program_is_framing_parser_g : forall g d,
  run_pure (p_read_container crc g) d
  = match cram_parse_container crc d with
    | POk (h, body, eof) r =>
        POk (h, (N.of_nat (length d - length r) - N.of_nat (length body))%N, body, eof) r
    | PErr e => PErr e
    end.
Proof.
  intros g d. rewrite <- container_program_is_framing_parser.
  destruct g; [apply p_read_container_gran|reflexivity].
Qed.

(* ---- what [walk] establishes is what the query theorems ask for ------------------------------- *)

Lemma cont_at_cont_read : forall file c, cont_at crc file c -> cont_read crc file c.
Proof.
  intros file c [h [body [rest [Hp [Hlen [_ [Hlm Hs]]]]]]]. unfold cont_read.
  eexists h, _, body, rest. rewrite container_program_is_framing_parser, Hp.
  split; [reflexivity|]. split; [exact Hlen|]. split; [symmetry; exact Hlm|exact Hs].
Qed.
End CRC.
