(* C19 -- the records as the QUERY sees them when a placed record covers no reference base.

   NV.CramIdx.Multi.as_buf gives a record flagged unmapped the interval [start, start] and every
   other record its CRAM interval [rs, re].  A MAPPED read whose CIGAR consumes no reference base
   (soft clips / insertions only, e.g. `5S`, `2S3I`) has CRAM end = start - 1 (re x = rs x - 1, as
   the placed records without bases of Multi.v), but the RecordBuf the query filters has
     alignment_span() = None          (record_buf.rs: a CIGAR reference span of 0 is "no span")
     alignment_end()  = Some(start)   (record_buf.rs alignment_end, the `None => Some(start)` arm)
   so query.rs `intersects` tests [start, start] for it as well: the record is returned exactly
   for the regions of its reference that hold its POS.  [as_bufz] is that conversion for ALL placed
   records: the end is floored at the start first (Multi.wrec -- the same floor the writer's slice
   header and, since 405565a, the record scan of fs/index.rs apply), then as_buf.  On records with
   start <= end it is as_buf (ZeroSpanProofs.as_bufz_id). *)
From Coq Require Import List NArith Bool.
From NV Require Import CramIdx.Crai CramIdx.Multi.
Import ListNotations.
Open Scope N_scope.

Definition as_bufz (x : rec) : rec := as_buf (wrec x).

Definition bufz_slice (s : slice) : slice := wslice (s_landmark s) (s_len s) (map as_bufz (s_recs s)).

Definition bufz_cont (c : mcont) : mcont := mkmcont (m_off c) (m_hlen c) (m_len c) (map bufz_slice (m_slices c)).

Definition bufz_file (f : list mcont) : list mcont := map bufz_cont f.

(* Reader::query on a file whose index is [es] *)
Definition query_region_bufz (nrefs : N) (es : list entry) (f : list mcont)
           (r : N) (lo hi : option N) : result (list rec) :=
  query_region_m nrefs es (bufz_file f) r lo hi.

(* cram::fs::index, then Reader::query with that index, on a written file: the whole call chain of
   the check kind `zq` (index errors and panics are passed on) *)
Definition index_then_query (pos nrefs : N) (f : list mcont) (r : N) (lo hi : option N) : result (list rec) :=
  match index_real pos f with
  | Ok es => query_region_bufz nrefs es f r lo hi
  | Panic => Panic
  | ErrInvalidInput => ErrInvalidInput
  | ErrInvalidData => ErrInvalidData
  | ErrUnexpectedEof => ErrUnexpectedEof
  end.
