(* Proofs about NV.CramIdx.Multi (C19): index over multi-slice containers, the query over them,
   query_unmapped_v0. *)
From Coq Require Import List NArith Bool Lia ZifyBool ZifyN.
From NV Require Import CramIdx.Crai CramIdx.CraiProofs CramIdx.Multi.
Import ListNotations.
Open Scope N_scope.
Arguments N.add : simpl never.
Arguments N.sub : simpl never.
Arguments N.min : simpl never.
Arguments N.max : simpl never.

(* ---------------------------------------------------------------------------------------- *)
(* index                                                                                      *)

Definition pc (pos lm sl : N) (recs : list rec) : container := mkcont pos 0 0 lm sl Multi recs.

Lemma spec_entries_pc : forall pos lm sl recs, spec_entries (pc pos lm sl recs) = multi_entries pos lm sl recs.
Proof. reflexivity. Qed.

Lemma slice_entries_spec : forall pos lm sl recs,
  recs <> [] -> Forall rec_ok recs ->
  slice_entries pos lm sl (slice_ctx recs) recs = multi_entries pos lm sl recs.
Proof.
  intros pos lm sl recs Hne Hok. unfold slice_entries.
  pose proof (single_entry_is_spec pos lm sl recs Hne Hok) as Hs.
  destruct (slice_ctx recs) eqn:E.
  - apply Hs. discriminate.
  - apply Hs. discriminate.
  - reflexivity.
Qed.

Lemma sl_ok_bound : forall len ss s t, ss = s :: t -> sl_ok len ss -> s_landmark s + s_len s <= len.
Proof.
  intros len ss; induction ss as [|a ss IH]; intros s t E H; [discriminate|].
  injection E as E1 E2. subst a ss. cbn [sl_ok] in H. destruct H as [H1 H2].
  destruct t as [|s' t'].
  - lia.
  - specialize (IH s' t' eq_refl H2). lia.
Qed.

Lemma slices_entries_spec : forall ss pos len lm,
  sl_ok len ss -> Forall slice_ok ss ->
  match ss with [] => True | s :: _ => s_landmark s = lm end ->
  slices_entries pos len ss = Ok (mspec_slices pos lm ss).
Proof.
  induction ss as [|s t IH]; intros pos len lm Hl Hs Hlm; [reflexivity|].
  pose proof (Forall_inv Hs) as Hs1. pose proof (Forall_inv_tail Hs) as Hs2.
  destruct Hs1 as [Hne [Hctx [Hrok _]]]. cbn beta in Hlm.
  pose proof (sl_ok_bound len (s :: t) s t eq_refl Hl) as Hb.
  cbn [sl_ok] in Hl. destruct Hl as [Hl1 Hl2].
  cbn [slices_entries mspec_slices].
  destruct t as [|s' t'].
  - assert (E : (len <? s_landmark s) || (len <? len) = false) by lia.
    rewrite E. cbn [slices_entries mspec_slices]. rewrite app_nil_r, Hctx, slice_entries_spec by assumption.
    rewrite app_nil_r. f_equal. f_equal; lia.
  - pose proof (sl_ok_bound len (s' :: t') s' t' eq_refl Hl2) as Hb'.
    assert (E : (s_landmark s' <? s_landmark s) || (len <? s_landmark s') = false) by lia.
    rewrite E. rewrite (IH pos len (lm + s_len s) Hl2 Hs2) by lia.
    rewrite Hctx, slice_entries_spec by assumption.
    f_equal. f_equal. f_equal; lia.
Qed.

Lemma index_m_spec : forall f pos, mfile_ok pos f -> index_m pos f = Ok (flat_map mspec_entries f).
Proof.
  induction f as [|c t IH]; intros pos [Hl Hc]; [reflexivity|].
  cbn [index_m flat_map]. cbn [mlayout_ok] in Hl. destruct Hl as [Hoff [Hh [Hsl Hl]]].
  inversion Hc as [|? ? Hc1 Hc2]; subst.
  unfold mspec_entries at 1.
  rewrite (slices_entries_spec (m_slices c) (m_off c) (m_len c) (first_landmark c) Hsl Hc1).
  - rewrite IH; [reflexivity|split; assumption].
  - unfold first_landmark. destruct (m_slices c); [exact I|reflexivity].
Qed.

(* the entries of a container, slice by slice *)
Fixpoint sum_len (ss : list slice) : N :=
  match ss with [] => 0 | s :: t => s_len s + sum_len t end.

Lemma mspec_slices_in : forall ss pos lm e,
  In e (mspec_slices pos lm ss) ->
  exists pre s post, ss = pre ++ s :: post /\
    In e (multi_entries pos (lm + sum_len pre) (s_len s) (s_recs s)).
Proof.
  induction ss as [|s t IH]; intros pos lm e H; [destruct H|].
  cbn [mspec_slices] in H. apply in_app_iff in H. destruct H as [H|H].
  - exists [], s, t. split; [reflexivity|]. cbn [sum_len]. replace (lm + 0) with lm by lia. exact H.
  - destruct (IH pos (lm + s_len s) e H) as [pre [s0 [post [E Hin]]]].
    exists (s :: pre), s0, post. split; [rewrite E; reflexivity|].
    cbn [sum_len]. replace (lm + (s_len s + sum_len pre)) with (lm + s_len s + sum_len pre) by lia. exact Hin.
Qed.

(* under sl_ok the stored landmark of a slice is its true position: the first landmark plus
   the sizes of the slices before it *)
Lemma sl_ok_landmark : forall pre len s post first,
  sl_ok len (pre ++ s :: post) ->
  match pre ++ s :: post with [] => True | a :: _ => s_landmark a = first end ->
  s_landmark s = first + sum_len pre.
Proof.
  induction pre as [|a pre IH]; intros len s post first Hl Hf.
  - cbn [app] in Hf. cbn [sum_len]. lia.
  - cbn [app] in Hl, Hf. cbn [sl_ok] in Hl. destruct Hl as [Hl1 Hl2]. cbn [sum_len].
    assert (Hn : match pre ++ s :: post with [] => True | b :: _ => s_landmark b = first + s_len a end).
    { destruct (pre ++ s :: post); [exact I|lia]. }
    rewrite (IH len s post (first + s_len a) Hl2 Hn). lia.
Qed.

Lemma mspec_entry_layout : forall c e,
  sl_ok (m_len c) (m_slices c) -> In e (mspec_entries c) ->
  exists pre s post, m_slices c = pre ++ s :: post /\
    In e (multi_entries (m_off c) (s_landmark s) (s_len s) (s_recs s)) /\
    e_off e = m_off c /\ e_landmark e = s_landmark s /\ e_slen e = s_len s /\
    s_landmark s = first_landmark c + sum_len pre.
Proof.
  intros c e Hl He. unfold mspec_entries in He.
  destruct (mspec_slices_in _ _ _ _ He) as [pre [s [post [E Hin]]]].
  assert (Hlm : s_landmark s = first_landmark c + sum_len pre).
  { rewrite E in Hl. apply (sl_ok_landmark pre (m_len c) s post (first_landmark c) Hl).
    unfold first_landmark. rewrite E. destruct (pre ++ s :: post); [exact I|reflexivity]. }
  rewrite <- Hlm in Hin.
  exists pre, s, post. split; [exact E|]. split; [exact Hin|].
  rewrite <- spec_entries_pc in Hin. destruct (spec_entry_layout _ _ Hin) as [L1 [L2 L3]].
  cbn in L1, L2, L3. repeat split; assumption.
Qed.

(* the last slice ends the container body *)
Lemma sl_ok_total : forall ss len first,
  ss <> [] -> sl_ok len ss ->
  match ss with [] => True | a :: _ => s_landmark a = first end ->
  len = first + sum_len ss.
Proof.
  induction ss as [|a t IH]; intros len first Hne Hl Hf; [congruence|].
  cbn [sl_ok] in Hl. destruct Hl as [Hl1 Hl2]. cbn [sum_len].
  destruct t as [|b t'].
  - cbn [sum_len]. lia.
  - rewrite (IH len (first + s_len a)); [lia|discriminate|exact Hl2|lia].
Qed.

(* the single-slice files of Crai.v are the one-slice instance *)
Lemma index_m_of_container : forall f pos,
  layout_ok pos f -> index_m pos (map of_container f) = Ok (index_core pos f).
Proof.
  induction f as [|c t IH]; intros pos Hl; [reflexivity|].
  cbn [layout_ok] in Hl. destruct Hl as [Hoff [Hh [Hlen Hl]]].
  cbn [map index_m index_core]. unfold of_container. cbn [m_slices m_len m_hlen slices_entries s_landmark s_ctx s_recs].
  assert (E : (c_len c <? c_landmark c) || (c_len c <? c_len c) = false) by lia.
  rewrite E. fold (of_container). change (fun c0 => mkmcont (c_off c0) (c_hlen c0) (c_len c0) [mkslice (c_landmark c0) (c_slen c0) (c_ctx c0) (c_recs c0)]) with of_container.
  rewrite (IH _ Hl). rewrite app_nil_r.
  unfold container_entries, slice_entries. cbn [s_ctx s_recs]. destruct (c_ctx c); reflexivity.
Qed.

(* ---------------------------------------------------------------------------------------- *)
(* query                                                                                      *)

Section Query.
Variable sel : N -> N -> N -> rec -> bool.
Variables (f : list container) (r lo hi : N).

Lemma query_block_gen : forall c l es,
  find_container (c_off c) f = Some c ->
  (forall e, In e l -> e_off e = c_off c) ->
  query_gen sel (l ++ es) f r lo hi =
  flat_map (fun e => if opt_eqb (e_rid e) r then filter (sel r lo hi) (c_recs c) else []) l
  ++ query_gen sel es f r lo hi.
Proof.
  intros c l; induction l as [|e l IH]; intros es Hfind Hoff; [reflexivity|].
  cbn [app query_gen flat_map].
  assert (IH' := IH es Hfind (fun e' He' => Hoff e' (or_intror He'))).
  destruct (opt_eqb (e_rid e) r) eqn:Er.
  - rewrite (Hoff e (or_introl eq_refl)), Hfind, IH', app_assoc. reflexivity.
  - exact IH'.
Qed.
End Query.

Lemma visit_nodup : forall (X : list rec) r l,
  NoDup (map e_rid l) ->
  flat_map (fun e => if opt_eqb (e_rid e) r then X else []) l =
  if existsb (fun e => opt_eqb (e_rid e) r) l then X else [].
Proof.
  intros X r l; induction l as [|e l IH]; intros Hnd; [reflexivity|].
  cbn [map] in Hnd. inversion Hnd as [|? ? Hnin Hnd']; subst.
  cbn [flat_map existsb]. rewrite (IH Hnd').
  destruct (opt_eqb (e_rid e) r) eqn:Er; [|reflexivity]. cbn [orb].
  destruct (existsb (fun e0 => opt_eqb (e_rid e0) r) l) eqn:Ex; [|apply app_nil_r].
  exfalso. apply existsb_exists in Ex. destruct Ex as [e' [He' Er']]. apply Hnin.
  unfold opt_eqb in Er, Er'. destruct (e_rid e) as [a|] eqn:Ea; [|discriminate].
  destruct (e_rid e') as [b|] eqn:Eb; [|discriminate].
  apply N.eqb_eq in Er, Er'. subst a b. rewrite <- Eb. apply in_map. exact He'.
Qed.

(* visiting the entries of the slices of one container *)
Lemma visit_slices : forall (X : list rec) r ss pos lm,
  flat_map (fun e => if opt_eqb (e_rid e) r then X else []) (mspec_slices pos lm ss) =
  flat_map (fun s => if existsb (on_ref r) (s_recs s) then X else []) ss.
Proof.
  intros X r ss; induction ss as [|s t IH]; intros pos lm; [reflexivity|].
  cbn [mspec_slices flat_map]. rewrite flat_map_app, IH. f_equal.
  rewrite <- spec_entries_pc, visit_nodup by apply spec_entries_rids_NoDup.
  rewrite spec_entries_has_ref. reflexivity.
Qed.

Lemma m_layout_offsets_ge : forall f pos c, mlayout_ok pos f -> In c f -> pos <= m_off c.
Proof.
  induction f as [|h t IH]; intros pos c Hl Hin; [destruct Hin|].
  cbn [mlayout_ok] in Hl. destruct Hl as [Hoff [Hh [Hlen Hl]]].
  destruct Hin as [Hin|Hin]; [subst h; lia|]. specialize (IH _ _ Hl Hin). lia.
Qed.

Lemma find_flat_hit : forall f pos c, mlayout_ok pos f -> In c f ->
  find_container (m_off c) (map flat_c f) = Some (flat_c c).
Proof.
  induction f as [|h t IH]; intros pos c Hl Hin; [destruct Hin|].
  cbn [mlayout_ok] in Hl. destruct Hl as [Hoff [Hh [Hlen Hl]]]. cbn [map find_container].
  destruct Hin as [Hin|Hin].
  - subst h. cbn [flat_c c_off]. rewrite N.eqb_refl. reflexivity.
  - pose proof (m_layout_offsets_ge _ _ _ Hl Hin) as Hge. cbn [flat_c c_off].
    destruct (m_off h =? m_off c) eqn:E; [apply N.eqb_eq in E; lia|].
    apply (IH _ _ Hl Hin).
Qed.

Definition mvisited (sel : N -> N -> N -> rec -> bool) (r lo hi : N) (c : mcont) : list rec :=
  flat_map (fun s => if existsb (on_ref r) (s_recs s) then filter (sel r lo hi) (m_recs c) else [])
           (m_slices c).

Lemma mspec_entries_off : forall ss pos lm e, In e (mspec_slices pos lm ss) -> e_off e = pos.
Proof.
  induction ss as [|s t IH]; intros pos lm e H; [destruct H|].
  cbn [mspec_slices] in H. apply in_app_iff in H. destruct H as [H|H]; [|apply (IH _ _ _ H)].
  rewrite <- spec_entries_pc in H. apply spec_entry_layout in H. cbn in H. apply H.
Qed.

Lemma query_mspec : forall sel f0 r lo hi g,
  (forall c, In c g -> find_container (m_off c) (map flat_c f0) = Some (flat_c c)) ->
  query_gen sel (flat_map mspec_entries g) (map flat_c f0) r lo hi = flat_map (mvisited sel r lo hi) g.
Proof.
  intros sel f0 r lo hi; induction g as [|c g IH]; intros Hfind; [reflexivity|].
  cbn [flat_map].
  rewrite (query_block_gen sel (map flat_c f0) r lo hi (flat_c c)).
  - rewrite IH by (intros c' Hc'; apply Hfind; right; exact Hc').
    f_equal. unfold mspec_entries. rewrite visit_slices. reflexivity.
  - apply Hfind. left; reflexivity.
  - intros e He. cbn [flat_c c_off]. apply (mspec_entries_off _ _ _ _ He).
Qed.

(* what the indexed query returns on multi-slice containers, for ANY record filter: per
   container, the filtered records of the WHOLE container once per slice that holds a record of
   the queried reference *)
Theorem query_m_v0_characterised : forall sel pos f es r lo hi,
  mfile_ok pos f -> index_m pos f = Ok es ->
  query_m_v0 sel es f r lo hi = flat_map (mvisited sel r lo hi) f.
Proof.
  intros sel pos f es r lo hi Hok Hidx. rewrite (index_m_spec f pos Hok) in Hidx.
  injection Hidx as Hidx. subst es. unfold query_m_v0. apply query_mspec.
  intros c Hc. destruct Hok as [Hl _]. apply (find_flat_hit f pos c Hl Hc).
Qed.

Lemma flat_map_nil : forall (A B : Type) (g : A -> list B) l, (forall a, In a l -> g a = []) -> flat_map g l = [].
Proof.
  intros A B g l; induction l as [|a l IH]; intros H; [reflexivity|].
  cbn [flat_map]. rewrite (H a (or_introl eq_refl)), IH; [reflexivity|]. intros b Hb. apply H. right; exact Hb.
Qed.

Lemma existsb_flat_map : forall (p : rec -> bool) ss,
  existsb p (flat_map s_recs ss) = existsb (fun s => existsb p (s_recs s)) ss.
Proof.
  intros p ss; induction ss as [|s t IH]; [reflexivity|].
  cbn [flat_map existsb]. rewrite existsb_app, IH. reflexivity.
Qed.

(* once-per-holder: with at most one holder the container is visited at most once *)
Lemma visit_single_holder : forall (X : list rec) r ss,
  (length (filter (fun s => existsb (on_ref r) (s_recs s)) ss) <= 1)%nat ->
  flat_map (fun s => if existsb (on_ref r) (s_recs s) then X else []) ss =
  if existsb (fun s => existsb (on_ref r) (s_recs s)) ss then X else [].
Proof.
  intros X r ss; induction ss as [|s t IH]; intros Hlen; [reflexivity|].
  cbn [flat_map existsb filter] in *.
  destruct (existsb (on_ref r) (s_recs s)) eqn:E.
  - cbn [orb length] in *.
    assert (Hnil : filter (fun s0 => existsb (on_ref r) (s_recs s0)) t = []).
    { destruct (filter (fun s0 => existsb (on_ref r) (s_recs s0)) t); [reflexivity|cbn [length] in Hlen; lia]. }
    rewrite flat_map_nil; [apply app_nil_r|].
    intros a Ha. destruct (existsb (on_ref r) (s_recs a)) eqn:Ea; [|reflexivity].
    exfalso. assert (Hin : In a (filter (fun s0 => existsb (on_ref r) (s_recs s0)) t)).
    { apply filter_In. split; assumption. }
    rewrite Hnil in Hin. destruct Hin.
  - cbn [orb app]. apply IH. exact Hlen.
Qed.

(* the query equals the scan when no container has two slices holding the queried reference *)
Theorem query_m_v0_equals_scan : forall pos f es r lo hi,
  mfile_ok pos f -> index_m pos f = Ok es ->
  (forall c, In c f -> (length (holders r c) <= 1)%nat) ->
  query_m_v0 selected es f r lo hi = scan_m f r lo hi.
Proof.
  intros pos f es r lo hi Hok Hidx Hone.
  rewrite (query_m_v0_characterised _ _ _ _ _ _ _ Hok Hidx). unfold scan_m.
  rewrite filter_flat_map. apply flat_map_ext_in. intros c Hc. unfold mvisited.
  rewrite visit_single_holder by (apply Hone; exact Hc).
  rewrite <- existsb_flat_map. fold (m_recs c).
  destruct (existsb (on_ref r) (m_recs c)) eqn:E; [reflexivity|].
  symmetry. apply filter_none. intros x Hx.
  destruct (selected r lo hi x) eqn:Es; [|reflexivity].
  apply selected_on_ref in Es.
  assert (Hex : existsb (on_ref r) (m_recs c) = true) by (apply existsb_exists; exists x; split; assumption).
  congruence.
Qed.

(* ... and it returns records twice when one does *)
Definition dup_witness : list mcont :=
  [mkmcont 100 20 90 [wslice 10 40 [mkrec 0 (Some 0) 5 8 false];
                      wslice 50 40 [mkrec 1 (Some 0) 7 9 false]]].

Lemma dup_witness_ok : mfile_ok 100 dup_witness.
Proof.
  split.
  - cbn. repeat split; reflexivity.
  - repeat constructor; cbn; try discriminate; unfold usize_max; try reflexivity; intros H; discriminate H.
Qed.

Lemma query_m_v0_duplicates :
  exists pos f es r lo hi, mfile_ok pos f /\ index_m pos f = Ok es /\
    map rname (query_m_v0 selected es f r lo hi) = [0; 1; 0; 1] /\ map rname (scan_m f r lo hi) = [0; 1].
Proof.
  exists 100, dup_witness, (flat_map mspec_entries dup_witness), 0, 1, 100.
  split; [exact dup_witness_ok|]. split; [rewrite (index_m_spec _ _ dup_witness_ok); reflexivity|].
  vm_compute. split; reflexivity.
Qed.

(* ---------------------------------------------------------------------------------------- *)
(* query_unmapped_v0                                                                             *)

Lemma find_app_none : forall (A : Type) (p : A -> bool) l1 l2, find p l1 = None -> find p (l1 ++ l2) = find p l2.
Proof.
  intros A p l1 l2; induction l1 as [|a l1 IH]; intros H; [reflexivity|].
  cbn [find app] in *. destruct (p a); [discriminate|]. apply IH. exact H.
Qed.

Lemma find_app_some : forall (A : Type) (p : A -> bool) l1 l2 x, find p l1 = Some x -> find p (l1 ++ l2) = Some x.
Proof.
  intros A p l1 l2 x; induction l1 as [|a l1 IH]; intros H; [discriminate|].
  cbn [find app] in *. destruct (p a); [exact H|]. apply IH. exact H.
Qed.

(* the first entry without reference id among the entries of one slice *)
Lemma find_unmapped_multi : forall pos lm sl recs,
  find entry_unmapped (multi_entries pos lm sl recs) =
  if existsb is_unmapped recs then Some (mkentry None None 0 pos lm sl) else None.
Proof.
  intros pos lm sl recs. unfold multi_entries.
  destruct (existsb is_unmapped recs); [reflexivity|]. cbn [app].
  induction (mapped_keys recs) as [|k l IH]; [reflexivity|]. cbn [map find entry_unmapped e_rid]. exact IH.
Qed.

Lemma find_unmapped_slices : forall ss pos lm,
  match find entry_unmapped (mspec_slices pos lm ss) with
  | Some e => e_off e = pos /\ existsb is_unmapped (flat_map s_recs ss) = true
  | None => existsb is_unmapped (flat_map s_recs ss) = false
  end.
Proof.
  induction ss as [|s t IH]; intros pos lm; [reflexivity|].
  cbn [mspec_slices flat_map]. rewrite existsb_app.
  destruct (existsb is_unmapped (s_recs s)) eqn:E.
  - rewrite (find_app_some _ _ _ _ (mkentry None None 0 pos lm (s_len s))).
    + split; reflexivity.
    + rewrite find_unmapped_multi, E. reflexivity.
  - rewrite find_app_none by (rewrite find_unmapped_multi, E; reflexivity).
    cbn [orb]. apply IH.
Qed.

Lemma from_off_hit : forall f pos, mlayout_ok pos f ->
  match f with [] => True | c :: _ => from_off (m_off c) f = f end.
Proof.
  intros f pos Hl. destruct f as [|c t]; [exact I|]. cbn [from_off]. rewrite N.eqb_refl. reflexivity.
Qed.

Lemma filter_ext_in' : forall (p q : rec -> bool) l, Forall (fun x => p x = q x) l -> filter p l = filter q l.
Proof.
  intros p q l; induction l as [|x t IH]; intros H; [reflexivity|].
  inversion H as [|? ? Hx Ht]; subst. cbn [filter]. rewrite Hx, (IH Ht). reflexivity.
Qed.

Lemma query_unmapped_v0_spec : forall f pos f0,
  mlayout_ok pos f -> tail_clean f ->
  (forall c, In c f -> from_off (m_off c) f0 = from_off (m_off c) f) ->
  query_unmapped_v0 (flat_map mspec_entries f) f0 =
  if existsb is_unmapped (flat_map m_recs f) then Ok (scan_unplaced f) else ErrUnexpectedEof.
Proof.
  induction f as [|c t IH]; intros pos f0 Hl Hclean Hsuffix; [reflexivity|].
  cbn [mlayout_ok] in Hl. destruct Hl as [Hoff [Hh [Hsl Hl]]].
  cbn [tail_clean] in Hclean. unfold query_unmapped_v0, scan_unplaced. cbn [flat_map].
  pose proof (find_unmapped_slices (m_slices c) (m_off c) (first_landmark c)) as Hf.
  fold (mspec_entries c) in Hf. fold (m_recs c) in Hf. rewrite existsb_app.
  destruct (find entry_unmapped (mspec_entries c)) as [e|] eqn:Ef.
  - destruct Hf as [He Hex]. rewrite (find_app_some _ _ _ _ e Ef). rewrite Hex in Hclean.
    rewrite Hex. cbn [orb].
    rewrite He, (Hsuffix c (or_introl eq_refl)). cbn [from_off]. rewrite N.eqb_refl.
    cbn [flat_map]. f_equal. apply filter_ext_in'. exact Hclean.
  - rewrite Hf in Hclean. rewrite (find_app_none _ _ _ _ Ef). rewrite Hf. cbn [orb].
    rewrite filter_app.
    assert (Hnone : filter is_unmapped (m_recs c) = []).
    { apply filter_none. intros x Hx. destruct (is_unmapped x) eqn:Eu; [|reflexivity].
      assert (Hex : existsb is_unmapped (m_recs c) = true) by (apply existsb_exists; exists x; split; assumption).
      congruence. }
    rewrite Hnone. cbn [app].
    apply (IH (pos + m_hlen c + m_len c) f0 Hl Hclean).
    intros c' Hc'. rewrite (Hsuffix c' (or_intror Hc')). cbn [from_off].
    pose proof (m_layout_offsets_ge _ _ _ Hl Hc') as Hge.
    destruct (m_off c =? m_off c') eqn:E; [apply N.eqb_eq in E; lia|reflexivity].
Qed.

(* query_unmapped_v0 through the index = the unplaced records a scan keeps, when there is one *)
Theorem query_unmapped_v0_equals_scan : forall pos f es,
  mfile_ok pos f -> index_m pos f = Ok es -> tail_clean f ->
  existsb is_unmapped (flat_map m_recs f) = true ->
  query_unmapped_v0 es f = Ok (scan_unplaced f).
Proof.
  intros pos f es Hok Hidx Hclean Hex. rewrite (index_m_spec f pos Hok) in Hidx.
  injection Hidx as Hidx. subst es. destruct Hok as [Hl _].
  rewrite (query_unmapped_v0_spec f pos f Hl Hclean) by (intros c _; reflexivity).
  rewrite Hex. reflexivity.
Qed.

(* ... and an error instead of the empty answer when the file holds no unplaced record *)
Lemma tail_clean_none : forall f, existsb is_unmapped (flat_map m_recs f) = false -> tail_clean f.
Proof.
  induction f as [|c t IH]; intros H; [exact I|].
  cbn [flat_map] in H. rewrite existsb_app in H. apply orb_false_iff in H. destruct H as [H1 H2].
  cbn [tail_clean]. rewrite H1. apply IH. exact H2.
Qed.

Theorem query_unmapped_v0_none_errors : forall pos f es,
  mfile_ok pos f -> index_m pos f = Ok es ->
  existsb is_unmapped (flat_map m_recs f) = false ->
  query_unmapped_v0 es f = ErrUnexpectedEof /\ scan_unplaced f = [].
Proof.
  intros pos f es Hok Hidx Hex. rewrite (index_m_spec f pos Hok) in Hidx.
  injection Hidx as Hidx. subst es. destruct Hok as [Hl _].
  rewrite (query_unmapped_v0_spec f pos f Hl (tail_clean_none f Hex)) by (intros c _; reflexivity).
  rewrite Hex. split; [reflexivity|].
  unfold scan_unplaced. apply filter_none. intros x Hx.
  destruct (is_unmapped x) eqn:Eu; [|reflexivity].
  assert (E : existsb is_unmapped (flat_map m_recs f) = true) by (apply existsb_exists; exists x; split; assumption).
  congruence.
Qed.

(* coordinate-sorted files: the unplaced records come last; then [tail_clean] only asks that the
   container holding the first unplaced record holds no placed record with the UNMAPPED flag
   and that unplaced records carry the flag *)
Definition placed_flagged (x : rec) : bool := negb (is_unmapped x) && runm x.

Lemma tail_clean_sorted : forall f,
  Forall (fun x => is_unmapped x = true -> runm x = true) (flat_map m_recs f) ->
  (forall pre c post, f = pre ++ c :: post -> existsb is_unmapped (m_recs c) = true ->
     Forall (fun x => is_unmapped x = true) (flat_map m_recs post)) ->
  (forall c, In c f -> existsb is_unmapped (m_recs c) = true -> existsb placed_flagged (m_recs c) = false) ->
  tail_clean f.
Proof.
  induction f as [|c t IH]; intros Hflag Hlast Hbound; [exact I|].
  cbn [tail_clean]. destruct (existsb is_unmapped (m_recs c)) eqn:E.
  - cbn [flat_map] in *. apply Forall_app in Hflag. destruct Hflag as [Hf1 Hf2].
    apply Forall_app. split.
    + specialize (Hbound c (or_introl eq_refl) E).
      rewrite Forall_forall in *. intros x Hx. specialize (Hf1 x Hx).
      destruct (is_unmapped x) eqn:Eu; [apply Hf1; reflexivity|].
      destruct (runm x) eqn:Er; [|reflexivity]. exfalso.
      assert (Hex : existsb placed_flagged (m_recs c) = true).
      { apply existsb_exists. exists x. split; [exact Hx|]. unfold placed_flagged. rewrite Eu, Er. reflexivity. }
      congruence.
    + specialize (Hlast [] c t eq_refl E). rewrite Forall_forall in *. intros x Hx.
      rewrite (Hlast x Hx). apply Hf2; [exact Hx|apply Hlast; exact Hx].
  - cbn [flat_map] in Hflag. apply Forall_app in Hflag. destruct Hflag as [_ Hf2].
    apply IH; [exact Hf2| |].
    + intros pre c' post Ef Ec'. apply (Hlast (c :: pre) c' post); [rewrite Ef; reflexivity|exact Ec'].
    + intros c' Hc'. apply Hbound. right; exact Hc'.
Qed.

(* outside that class the answer differs: a placed record carrying the UNMAPPED flag that shares
   its container with the first unplaced record is returned, one in an earlier container is not *)
Definition unm_witness : list mcont :=
  [mkmcont 100 20 50 [wslice 10 40 [mkrec 0 (Some 0) 5 8 true]];
   mkmcont 170 20 50 [wslice 10 40 [mkrec 1 (Some 0) 9 9 true; mkrec 2 None 0 0 true]]].

Lemma unm_witness_ok : mfile_ok 100 unm_witness.
Proof.
  split.
  - cbn. repeat split; reflexivity.
  - repeat constructor; cbn; try discriminate; unfold usize_max; try reflexivity; intros H; discriminate H.
Qed.

Lemma query_unmapped_v0_boundary :
  exists pos f es, mfile_ok pos f /\ index_m pos f = Ok es /\
    option_map (map rname) (match query_unmapped_v0 es f with Ok l => Some l | _ => None end) = Some [1; 2] /\
    map rname (scan_unplaced f) = [2] /\
    map rname (filter runm (flat_map m_recs f)) = [0; 1; 2].
Proof.
  exists 100, unm_witness, (flat_map mspec_entries unm_witness).
  split; [exact unm_witness_ok|]. split; [rewrite (index_m_spec _ _ unm_witness_ok); reflexivity|].
  vm_compute. repeat split; reflexivity.
Qed.

(* ---------------------------------------------------------------------------------------- *)
(* every record is covered by the entry of its own slice                                      *)

Lemma mspec_slices_contains : forall pre s post pos lm e,
  In e (multi_entries pos (lm + sum_len pre) (s_len s) (s_recs s)) ->
  In e (mspec_slices pos lm (pre ++ s :: post)).
Proof.
  induction pre as [|a pre IH]; intros s post pos lm e H.
  - cbn [app mspec_slices sum_len] in *. replace (lm + 0) with lm in H by lia.
    apply in_or_app. left. exact H.
  - cbn [app mspec_slices]. apply in_or_app. right. apply IH.
    cbn [sum_len] in H. replace (lm + s_len a + sum_len pre) with (lm + (s_len a + sum_len pre)) by lia. exact H.
Qed.

Theorem index_m_span_covers_records : forall pos f es c s x r,
  mfile_ok pos f -> index_m pos f = Ok es ->
  In c f -> In s (m_slices c) -> In x (s_recs s) -> rid x = Some r ->
  exists e st, In e es /\ e_rid e = Some r /\ e_off e = m_off c /\ e_landmark e = s_landmark s /\
               e_slen e = s_len s /\ e_start e = Some st /\ st <= rs x /\ re x <= st + e_span e - 1.
Proof.
  intros pos f es c s x r Hok Hidx Hc Hs Hx Hr.
  rewrite (index_m_spec f pos Hok) in Hidx. injection Hidx as Hidx. subst es.
  destruct Hok as [Hlay Hsl]. rewrite Forall_forall in Hsl. pose proof (Hsl c Hc) as Hsc.
  rewrite Forall_forall in Hsc. destruct (Hsc s Hs) as [_ [_ [Hrok _]]].
  assert (Hrx : rec_ok x) by (rewrite Forall_forall in Hrok; apply Hrok; exact Hx).
  assert (Hslok : sl_ok (m_len c) (m_slices c)).
  { clear - Hlay Hc. revert pos Hlay. induction f as [|h t IH]; intros pos Hlay; [destruct Hc|].
    cbn [mlayout_ok] in Hlay. destruct Hlay as [_ [_ [Hs Hl]]].
    destruct Hc as [Hc|Hc]; [subst h; exact Hs|apply (IH Hc _ Hl)]. }
  destruct (in_split _ _ Hs) as [pre [post E]].
  assert (Hlm : s_landmark s = first_landmark c + sum_len pre).
  { rewrite E in Hslok. apply (sl_ok_landmark pre (m_len c) s post (first_landmark c) Hslok).
    unfold first_landmark. rewrite E. destruct (pre ++ s :: post); [exact I|reflexivity]. }
  destruct (spec_entries_cover (pc (m_off c) (s_landmark s) (s_len s) (s_recs s)) x r Hx Hr Hrx)
    as [e [st [He [H1 [H2 [H3 H4]]]]]].
  exists e, st. destruct (spec_entry_layout _ _ He) as [L1 [L2 L3]]. cbn in L1, L2, L3.
  split.
  - apply in_flat_map. exists c. split; [exact Hc|]. unfold mspec_entries. rewrite E.
    apply mspec_slices_contains. rewrite <- Hlm. rewrite <- spec_entries_pc. exact He.
  - repeat split; assumption.
Qed.

(* ======================================================================================== *)
(* the repaired query (944089d): only the slice at the entry's landmark                       *)

Lemma find_m_hit : forall f pos c, mlayout_ok pos f -> In c f -> find_m (m_off c) f = Some c.
Proof.
  induction f as [|h t IH]; intros pos c Hl Hin; [destruct Hin|].
  cbn [mlayout_ok] in Hl. destruct Hl as [Hoff [Hh [Hlen Hl]]]. cbn [find_m].
  destruct Hin as [Hin|Hin].
  - subst h. rewrite N.eqb_refl. reflexivity.
  - pose proof (m_layout_offsets_ge _ _ _ Hl Hin) as Hge.
    destruct (m_off h =? m_off c) eqn:E; [apply N.eqb_eq in E; lia|].
    apply (IH _ _ Hl Hin).
Qed.

(* the entries with the STORED landmarks *)
Definition stored_entries (pos : N) (ss : list slice) : list entry :=
  flat_map (fun s => multi_entries pos (s_landmark s) (s_len s) (s_recs s)) ss.

Lemma mspec_slices_stored : forall ss pos len lm,
  sl_ok len ss -> match ss with [] => True | a :: _ => s_landmark a = lm end ->
  mspec_slices pos lm ss = stored_entries pos ss.
Proof.
  induction ss as [|s t IH]; intros pos len lm Hl Hlm; [reflexivity|].
  cbn [sl_ok] in Hl. destruct Hl as [Hl1 Hl2]. cbn beta iota in Hlm.
  unfold stored_entries. cbn [mspec_slices flat_map]. rewrite <- Hlm. f_equal.
  apply (IH pos len (s_landmark s + s_len s) Hl2).
  destruct t as [|s' t']; [exact I|exact Hl1].
Qed.

(* landmarks grow strictly when every slice has a positive size *)
Lemma sl_ok_increasing : forall t len s,
  sl_ok len (s :: t) -> Forall (fun x => 0 < s_len x) (s :: t) ->
  Forall (fun s' => s_landmark s < s_landmark s') t.
Proof.
  induction t as [|s' t' IH]; intros len s Hl Hp; [constructor|].
  cbn [sl_ok] in Hl. destruct Hl as [Hl1 Hl2].
  pose proof (Forall_inv Hp) as Hp1. pose proof (Forall_inv_tail Hp) as Hp2. cbn beta in Hp1.
  constructor; [lia|].
  pose proof (IH len s' Hl2 Hp2) as Hi.
  rewrite Forall_forall in *. intros x Hx. specialize (Hi x Hx). lia.
Qed.

Lemma sl_ok_landmarks_NoDup : forall ss len,
  sl_ok len ss -> Forall (fun x => 0 < s_len x) ss -> NoDup (map s_landmark ss).
Proof.
  induction ss as [|s t IH]; intros len Hl Hp; [constructor|].
  cbn [map]. constructor.
  - pose proof (sl_ok_increasing t len s Hl Hp) as Hi. rewrite Forall_forall in Hi.
    rewrite in_map_iff. intros [x [Hx Hin]]. specialize (Hi x Hin). lia.
  - cbn [sl_ok] in Hl. destruct Hl as [_ Hl2]. apply (IH len Hl2 (Forall_inv_tail Hp)).
Qed.

Lemma filter_unique_landmark : forall l s,
  NoDup (map s_landmark l) -> In s l -> filter (fun x => s_landmark x =? s_landmark s) l = [s].
Proof.
  induction l as [|a l IH]; intros s Hnd Hin; [destruct Hin|].
  cbn [map] in Hnd. inversion Hnd as [|? ? Hnin Hnd']; subst. cbn [filter].
  destruct Hin as [Hin|Hin].
  - subst a. rewrite N.eqb_refl. f_equal. apply filter_none. intros x Hx.
    destruct (s_landmark x =? s_landmark s) eqn:E; [|reflexivity]. exfalso. apply Hnin.
    apply N.eqb_eq in E. rewrite <- E. apply in_map. exact Hx.
  - destruct (s_landmark a =? s_landmark s) eqn:E.
    + exfalso. apply Hnin. apply N.eqb_eq in E. rewrite E. apply in_map. exact Hin.
    + apply IH; assumption.
Qed.

Section QueryFixed.
Variable sel : N -> N -> N -> rec -> bool.
Variables (f : list mcont) (r lo hi : N).

Definition recs_at (c : mcont) (lm : N) : list rec := flat_map s_recs (slices_at lm c).

Lemma query_m_block : forall c l es,
  find_m (m_off c) f = Some c ->
  (forall e, In e l -> e_off e = m_off c /\ slices_at (e_landmark e) c <> []) ->
  query_m sel (l ++ es) f r lo hi =
  match query_m sel es f r lo hi with
  | Ok rest =>
      Ok (flat_map (fun e => if opt_eqb (e_rid e) r
                             then filter (sel r lo hi) (recs_at c (e_landmark e)) else []) l ++ rest)
  | err => err
  end.
Proof.
  intros c l; induction l as [|e l IH]; intros es Hfind Hl.
  - cbn [app flat_map]. destruct (query_m sel es f r lo hi); reflexivity.
  - cbn [app query_m flat_map].
    assert (IH' := IH es Hfind (fun e' He' => Hl e' (or_intror He'))).
    destruct (Hl e (or_introl eq_refl)) as [Hoff Hne].
    destruct (opt_eqb (e_rid e) r) eqn:Er.
    + rewrite Hoff, Hfind. unfold recs_at at 1.
      destruct (slices_at (e_landmark e) c) as [|s0 ss0] eqn:Es; [congruence|].
      rewrite IH'. destruct (query_m sel es f r lo hi); try reflexivity.
      rewrite app_assoc. reflexivity.
    + rewrite IH'. destruct (query_m sel es f r lo hi); reflexivity.
Qed.

Definition fvisited (c : mcont) : list rec :=
  flat_map (fun s => if existsb (on_ref r) (s_recs s) then filter (sel r lo hi) (s_recs s) else [])
           (m_slices c).

Lemma stored_entries_visit : forall c ss,
  incl ss (m_slices c) -> NoDup (map s_landmark (m_slices c)) ->
  flat_map (fun e => if opt_eqb (e_rid e) r
                     then filter (sel r lo hi) (recs_at c (e_landmark e)) else [])
           (stored_entries (m_off c) ss) =
  flat_map (fun s => if existsb (on_ref r) (s_recs s) then filter (sel r lo hi) (s_recs s) else []) ss.
Proof.
  intros c ss; induction ss as [|s t IH]; intros Hincl Hnd; [reflexivity|].
  unfold stored_entries in *. cbn [flat_map]. rewrite flat_map_app.
  rewrite IH by (try exact Hnd; intros x Hx; apply Hincl; right; exact Hx). f_equal.
  assert (Hs : In s (m_slices c)) by (apply Hincl; left; reflexivity).
  rewrite (flat_map_ext_in _ _
            (fun e => if opt_eqb (e_rid e) r
                      then filter (sel r lo hi) (recs_at c (e_landmark e)) else [])
            (fun e => if opt_eqb (e_rid e) r then filter (sel r lo hi) (s_recs s) else [])).
  - rewrite <- spec_entries_pc, visit_nodup by apply spec_entries_rids_NoDup.
    rewrite spec_entries_has_ref. reflexivity.
  - intros e He. rewrite <- spec_entries_pc in He. apply spec_entry_layout in He.
    cbn in He. destruct He as [_ [He _]]. rewrite He. unfold recs_at, slices_at.
    rewrite (filter_unique_landmark _ s Hnd Hs). cbn [flat_map]. rewrite app_nil_r. reflexivity.
Qed.

Lemma stored_entries_hit : forall c ss e,
  incl ss (m_slices c) -> In e (stored_entries (m_off c) ss) ->
  e_off e = m_off c /\ slices_at (e_landmark e) c <> [].
Proof.
  intros c ss e Hincl He. unfold stored_entries in He. apply in_flat_map in He.
  destruct He as [s [Hs He]]. rewrite <- spec_entries_pc in He. apply spec_entry_layout in He.
  cbn in He. destruct He as [H1 [H2 _]]. split; [exact H1|].
  rewrite H2. unfold slices_at. intros Hnil.
  assert (Hin : In s (filter (fun x => s_landmark x =? s_landmark s) (m_slices c))).
  { apply filter_In. split; [apply Hincl; exact Hs|apply N.eqb_refl]. }
  rewrite Hnil in Hin. destruct Hin.
Qed.

Lemma query_m_spec_g : forall g,
  (forall c, In c g -> find_m (m_off c) f = Some c /\ sl_ok (m_len c) (m_slices c) /\
                       Forall (fun x => 0 < s_len x) (m_slices c)) ->
  query_m sel (flat_map mspec_entries g) f r lo hi = Ok (flat_map fvisited g).
Proof.
  induction g as [|c g IH]; intros Hg; [reflexivity|].
  destruct (Hg c (or_introl eq_refl)) as [Hfind [Hsl Hpos]].
  cbn [flat_map]. unfold mspec_entries at 1.
  rewrite (mspec_slices_stored (m_slices c) (m_off c) (m_len c) (first_landmark c) Hsl)
    by (unfold first_landmark; destruct (m_slices c); [exact I|reflexivity]).
  rewrite (query_m_block c).
  - rewrite IH by (intros c' Hc'; apply Hg; right; exact Hc').
    rewrite stored_entries_visit; [reflexivity|apply incl_refl|].
    apply (sl_ok_landmarks_NoDup _ _ Hsl Hpos).
  - exact Hfind.
  - intros e He. apply (stored_entries_hit c (m_slices c) e (incl_refl _) He).
Qed.
End QueryFixed.

Lemma mfile_ok_container : forall pos f c, mfile_ok pos f -> In c f ->
  find_m (m_off c) f = Some c /\ sl_ok (m_len c) (m_slices c) /\ Forall (fun x => 0 < s_len x) (m_slices c).
Proof.
  intros pos f c [Hl Hs] Hc. split; [apply (find_m_hit f pos c Hl Hc)|]. split.
  - clear - Hl Hc. revert pos Hl. induction f as [|h t IH]; intros pos Hl; [destruct Hc|].
    cbn [mlayout_ok] in Hl. destruct Hl as [_ [_ [Hsl Hl]]].
    destruct Hc as [Hc|Hc]; [subst h; exact Hsl|apply (IH Hc _ Hl)].
  - rewrite Forall_forall in Hs. specialize (Hs c Hc). rewrite Forall_forall in *.
    intros s Hin. destruct (Hs s Hin) as [_ [_ [_ Hp]]]. exact Hp.
Qed.

(* what the repaired query returns, for ANY record filter: slice after slice in file order, the
   filtered records of exactly the slices that hold a record of the queried reference *)
Theorem query_m_characterised : forall sel pos f es r lo hi,
  mfile_ok pos f -> index_m pos f = Ok es ->
  query_m sel es f r lo hi = Ok (flat_map (fvisited sel r lo hi) f).
Proof.
  intros sel pos f es r lo hi Hok Hidx. rewrite (index_m_spec f pos Hok) in Hidx.
  injection Hidx as Hidx. subst es. apply query_m_spec_g.
  intros c Hc. apply (mfile_ok_container pos f c Hok Hc).
Qed.

(* the query equals the scan on EVERY well-formed file, whatever the number of slices *)
Theorem query_m_equals_scan : forall pos f es r lo hi,
  mfile_ok pos f -> index_m pos f = Ok es ->
  query_m selected es f r lo hi = Ok (scan_m f r lo hi).
Proof.
  intros pos f es r lo hi Hok Hidx.
  rewrite (query_m_characterised _ _ _ _ _ _ _ Hok Hidx). f_equal. unfold scan_m.
  rewrite filter_flat_map. apply flat_map_ext_in. intros c _. unfold fvisited, m_recs.
  rewrite filter_flat_map. apply flat_map_ext_in. intros s _.
  destruct (existsb (on_ref r) (s_recs s)) eqn:E; [reflexivity|].
  symmetry. apply filter_none. intros x Hx.
  destruct (selected r lo hi x) eqn:Es; [|reflexivity].
  apply selected_on_ref in Es.
  assert (Hex : existsb (on_ref r) (s_recs s) = true) by (apply existsb_exists; exists x; split; assumption).
  congruence.
Qed.

(* the witness on which the old query repeated the records is now answered like the scan *)
Lemma query_m_no_duplicates_on_witness :
  query_m selected (flat_map mspec_entries dup_witness) dup_witness 0 1 100 = Ok (scan_m dup_witness 0 1 100).
Proof. vm_compute. reflexivity. Qed.

(* an entry whose landmark is not a slice of its container is InvalidData *)
Lemma query_m_bad_landmark :
  query_m selected (bump_landmark 1 (flat_map mspec_entries dup_witness)) dup_witness 0 1 100 = ErrInvalidData.
Proof. vm_compute. reflexivity. Qed.

(* ======================================================================================== *)
(* the repaired query_unmapped (47f309c, 5cbbdb3)                                             *)

Lemma unplaced_flagged_unmapped : forall x, unplaced_flagged x = true -> is_unmapped x = true.
Proof. intros x H. unfold unplaced_flagged in H. apply andb_prop in H. apply H. Qed.

Lemma query_unmapped_spec : forall f pos f0,
  mlayout_ok pos f ->
  (forall c, In c f -> from_off (m_off c) f0 = from_off (m_off c) f) ->
  query_unmapped (flat_map mspec_entries f) f0 = Ok (filter unplaced_flagged (flat_map m_recs f)).
Proof.
  induction f as [|c t IH]; intros pos f0 Hl Hsuffix; [reflexivity|].
  cbn [mlayout_ok] in Hl. destruct Hl as [Hoff [Hh [Hsl Hl]]].
  unfold query_unmapped. cbn [flat_map].
  pose proof (find_unmapped_slices (m_slices c) (m_off c) (first_landmark c)) as Hf.
  fold (mspec_entries c) in Hf. fold (m_recs c) in Hf.
  destruct (find entry_unmapped (mspec_entries c)) as [e|] eqn:Ef.
  - destruct Hf as [He Hex]. rewrite (find_app_some _ _ _ _ e Ef).
    rewrite He, (Hsuffix c (or_introl eq_refl)). cbn [from_off]. rewrite N.eqb_refl.
    reflexivity.
  - rewrite (find_app_none _ _ _ _ Ef). rewrite filter_app.
    assert (Hnone : filter unplaced_flagged (m_recs c) = []).
    { apply filter_none. intros x Hx. destruct (unplaced_flagged x) eqn:Eu; [|reflexivity].
      apply unplaced_flagged_unmapped in Eu.
      assert (Hex : existsb is_unmapped (m_recs c) = true) by (apply existsb_exists; exists x; split; assumption).
      congruence. }
    rewrite Hnone. cbn [app].
    apply (IH (pos + m_hlen c + m_len c) f0 Hl).
    intros c' Hc'. rewrite (Hsuffix c' (or_intror Hc')). cbn [from_off].
    pose proof (m_layout_offsets_ge _ _ _ Hl Hc') as Hge.
    destruct (m_off c =? m_off c') eqn:E; [apply N.eqb_eq in E; lia|reflexivity].
Qed.

(* query_unmapped through the index = the records a scan keeps with the same test (no reference
   id and the UNMAPPED flag), on EVERY well-formed file *)
Theorem query_unmapped_equals_scan_flagged : forall pos f es,
  mfile_ok pos f -> index_m pos f = Ok es ->
  query_unmapped es f = Ok (filter unplaced_flagged (flat_map m_recs f)).
Proof.
  intros pos f es Hok Hidx. rewrite (index_m_spec f pos Hok) in Hidx.
  injection Hidx as Hidx. subst es. destruct Hok as [Hl _].
  apply (query_unmapped_spec f pos f Hl). intros c _. reflexivity.
Qed.

(* ... which are all the unplaced records when unplaced records carry the flag *)
Theorem query_unmapped_equals_scan : forall pos f es,
  mfile_ok pos f -> index_m pos f = Ok es ->
  Forall (fun x => is_unmapped x = true -> runm x = true) (flat_map m_recs f) ->
  query_unmapped es f = Ok (scan_unplaced f).
Proof.
  intros pos f es Hok Hidx Hflag. rewrite (query_unmapped_equals_scan_flagged pos f es Hok Hidx).
  f_equal. unfold scan_unplaced. apply filter_ext_in'.
  rewrite Forall_forall in *. intros x Hx. specialize (Hflag x Hx). unfold unplaced_flagged.
  destruct (is_unmapped x); [rewrite Hflag; reflexivity|reflexivity].
Qed.

(* the two witnesses of the old behaviour *)
Lemma query_unmapped_on_witnesses :
  query_unmapped (flat_map mspec_entries unm_witness) unm_witness = Ok (scan_unplaced unm_witness) /\
  query_unmapped (flat_map mspec_entries dup_witness) dup_witness = Ok [].
Proof. vm_compute. split; reflexivity. Qed.

(* ---------------------------------------------------------------------------------------- *)
(* the one-slice query of Crai.v ([query_gen]) is the one-slice instance of [query_m]          *)

(* the landmark an index entry carries is the landmark of the container at its offset *)
Definition lm_agree (f : list container) (e : entry) : Prop :=
  forall c, find_container (e_off e) f = Some c -> e_landmark e = c_landmark c.

Lemma find_m_single_file : forall off f,
  find_m off (single_file f) = option_map of_container (find_container off f).
Proof.
  intros off f. unfold single_file. induction f as [|c t IH]; [reflexivity|].
  cbn [map find_m find_container]. unfold of_container at 1. cbn [m_off].
  destruct (c_off c =? off); [reflexivity|exact IH].
Qed.

Theorem query_m_single_instance : forall sel es f r lo hi,
  Forall (lm_agree f) es ->
  query_m sel es (single_file f) r lo hi = Ok (query_gen sel es f r lo hi).
Proof.
  intros sel es f r lo hi. induction es as [|e t IH]; intros Hag; [reflexivity|].
  inversion Hag as [|e' t' He Ht]; subst e' t'. specialize (IH Ht).
  cbn [query_m query_gen]. destruct (opt_eqb (e_rid e) r); [|exact IH].
  rewrite find_m_single_file. destruct (find_container (e_off e) f) as [c|] eqn:Ef; cbn [option_map]; [|reflexivity].
  specialize (He c Ef). unfold slices_at, of_container. cbn [m_slices filter s_landmark].
  rewrite He, N.eqb_refl. rewrite IH. cbn [flat_map s_recs]. rewrite app_nil_r. reflexivity.
Qed.

(* a landmark that is not the container's: the one-slice form of the InvalidData path *)
Lemma query_m_single_bad_landmark : forall sel e t f r lo hi c,
  opt_eqb (e_rid e) r = true -> find_container (e_off e) f = Some c -> e_landmark e <> c_landmark c ->
  query_m sel (e :: t) (single_file f) r lo hi = ErrInvalidData.
Proof.
  intros sel e t f r lo hi c Hr Hf Hne. cbn [query_m]. rewrite Hr, find_m_single_file, Hf. cbn [option_map].
  unfold slices_at, of_container. cbn [m_slices filter s_landmark].
  destruct (c_landmark c =? e_landmark e) eqn:E; [apply N.eqb_eq in E; congruence|reflexivity].
Qed.

Lemma container_entries_at : forall pos c e, In e (container_entries pos c) ->
  e_off e = pos /\ e_landmark e = c_landmark c.
Proof.
  intros pos c e Hin. unfold container_entries in Hin.
  assert (Hm : forall sl recs, In e (multi_entries pos (c_landmark c) sl recs) -> e_off e = pos /\ e_landmark e = c_landmark c).
  { intros sl recs H. unfold multi_entries in H. apply in_app_or in H. destruct H as [H|H].
    - destruct (existsb is_unmapped recs); [|destruct H]. destruct H as [H|[]]. subst e. split; reflexivity.
    - apply in_map_iff in H. destruct H as [k [H _]]. subst e. split; reflexivity. }
  destruct (c_ctx c); try (destruct Hin as [Hin|[]]; subst e; split; reflexivity).
  exact (Hm _ _ Hin).
Qed.

Lemma index_core_points : forall f pos, layout_ok pos f ->
  Forall (fun e => exists c, In c f /\ e_off e = c_off c /\ e_landmark e = c_landmark c) (index_core pos f).
Proof.
  induction f as [|c t IH]; intros pos Hl; [constructor|].
  cbn [layout_ok] in Hl. destruct Hl as [Hoff [Hh [Hlen Hl]]]. cbn [index_core].
  apply Forall_app. split.
  - apply Forall_forall. intros e He. destruct (container_entries_at _ _ _ He) as [H1 H2].
    exists c. split; [left; reflexivity|]. split; [congruence|exact H2].
  - specialize (IH _ Hl). apply Forall_forall. intros e He.
    rewrite Forall_forall in IH. destruct (IH e He) as [c' [Hin H]]. exists c'. split; [right; exact Hin|exact H].
Qed.

Lemma index_core_lm_agree : forall f pos, layout_ok pos f -> Forall (lm_agree f) (index_core pos f).
Proof.
  intros f pos Hl. pose proof (index_core_points f pos Hl) as H. rewrite Forall_forall in *.
  intros e He. destruct (H e He) as [c [Hin [Ho Hlm]]]. intros c' Hf.
  rewrite Ho, (find_container_hit f pos c Hl Hin) in Hf. inversion Hf. subst c'. exact Hlm.
Qed.

(* every theorem about the one-slice query holds of [query_m] on the same file *)
Theorem query_m_single_index : forall sel pos f r lo hi, layout_ok pos f ->
  query_m sel (index_core pos f) (single_file f) r lo hi = Ok (query_gen sel (index_core pos f) f r lo hi).
Proof. intros. apply query_m_single_instance. apply (index_core_lm_agree f pos). assumption. Qed.

Theorem query_m_single_characterised : forall sel pos f r lo hi, file_ok pos f ->
  query_m sel (index_core pos f) (single_file f) r lo hi =
  Ok (flat_map (fun c => if existsb (on_ref r) (c_recs c) then filter (sel r lo hi) (c_recs c) else []) f).
Proof.
  intros sel pos f r lo hi H. rewrite (query_m_single_index sel pos f r lo hi (proj1 H)).
  rewrite (query_gen_characterised sel pos f r lo hi H). reflexivity.
Qed.

Theorem query_m_single_through_index : forall pos f es r lo hi,
  file_ok pos f -> index pos f = Ok es -> query_m selected es (single_file f) r lo hi = Ok (scan f r lo hi).
Proof.
  intros pos f es r lo hi H Hi. unfold index in Hi. inversion Hi. subst es.
  rewrite (query_m_single_index selected pos f r lo hi (proj1 H)).
  pose proof (query_through_index pos f (index_core pos f) r lo hi H eq_refl) as Q. unfold query in Q. rewrite Q. reflexivity.
Qed.

Theorem query_m_single_old_outside_f17 : forall pos f es r lo hi,
  file_ok pos f -> index pos f = Ok es -> ~ f17_class f r lo hi ->
  query_m selected_old es (single_file f) r lo hi = Ok (scan f r lo hi).
Proof.
  intros pos f es r lo hi H Hi Hn. unfold index in Hi. inversion Hi. subst es.
  rewrite (query_m_single_index selected_old pos f r lo hi (proj1 H)).
  pose proof (query_old_through_index_outside_f17 pos f (index_core pos f) r lo hi H eq_refl Hn) as Q.
  unfold query_old in Q. rewrite Q. reflexivity.
Qed.
