(* C03 — Multithreaded BGZF I/O equals single-threaded I/O under every schedule.
   Property theorems only.  Models: NV.Io.Sched (generic ticket pipeline: bounded channel of
   tickets, FIFO pool start, completion in ANY order, in-order consumer that may stop),
   NV.Bgzf.MtWriter (multithreaded_writer.rs + builder.rs next to io::Writer) and NV.Bgzf.MtReader
   (multithreaded_reader.rs next to io::Reader, one run segment read to the end; the reader after
   the repairs of mtr-frame-error-discarded-by-pause and mtr-read-hangs-after-buffer-count-corrupt-blocks).
   A schedule is an arbitrary list of actions (Submit | Start | Complete t | Take | Emit); disabled
   actions are no-ops, so the theorems quantify over every interleaving and completion order. *)
From Coq Require Import List Arith Bool NArith.
From NV Require Import Io.Sched Io.SchedProofs Bgzf.MtWriter Bgzf.MtWriterProofs Bgzf.MtReader Bgzf.MtReaderProofs.
Import ListNotations.

(* ---------------------------------------------------------------- generic pipeline *)

(* For EVERY schedule: once the pipeline is final (drained, or the consumer stopped on an error)
   the consumer is in exactly the state the sequential loop reaches over the items in submission
   order (and stops where the sequential loop stops). *)
Theorem pipeline_output_is_submission_order :
  forall (item res cst : Type) (f : item -> res) (ready : item -> bool) (cstep : cst -> res -> cst) (stopped : cst -> bool)
         (can_submit : nat -> bool -> bool) (pool : nat) (c0 : cst) (xs : list item) (sched : list act),
    final stopped (run f ready cstep stopped can_submit pool c0 xs sched) = true ->
    cs (run f ready cstep stopped can_submit pool c0 xs sched) = st_consume cstep stopped c0 (map f xs).
Proof. exact SchedProofs.pipeline_output_is_submission_order. Qed.
Print Assumptions pipeline_output_is_submission_order.

(* ... and in every reachable state the consumer has processed exactly a prefix, in order *)
Theorem pipeline_prefix_invariant :
  forall (item res cst : Type) (f : item -> res) (ready : item -> bool) (cstep : cst -> res -> cst) (stopped : cst -> bool)
         (can_submit : nat -> bool -> bool) (pool : nat) (c0 : cst) (xs : list item) (sched : list act),
    let s := run f ready cstep stopped can_submit pool c0 xs sched in
    exists rest, xs = cons s ++ rest /\ cs s = st_consume cstep stopped c0 (map f (cons s)).
Proof. exact SchedProofs.prefix_invariant. Qed.
Print Assumptions pipeline_prefix_invariant.

(* progress: every reachable non-final state has an enabled action (pool >= 1, an empty window
   admits a submission): no deadlock between the bounded channel, the pool and the consumer *)
Theorem c03_progress :
  forall (item res cst : Type) (f : item -> res) (ready : item -> bool) (cstep : cst -> res -> cst) (stopped : cst -> bool)
         (can_submit : nat -> bool -> bool) (pool : nat),
    0 < pool -> can_submit 0 false = true ->
    forall (c0 : cst) (xs : list item) (sched : list act),
      final stopped (run f ready cstep stopped can_submit pool c0 xs sched) = false ->
      exists a, enabled stopped can_submit pool (run f ready cstep stopped can_submit pool c0 xs sched) a = true.
Proof. exact SchedProofs.pipeline_progress. Qed.
Print Assumptions c03_progress.

(* the measure 5|todo| + 2|chan| + |hold| + 2|pending| + |running| strictly decreases along every
   enabled action ... *)
Theorem c03_measure_decreases :
  forall (item res cst : Type) (f : item -> res) (ready : item -> bool) (cstep : cst -> res -> cst) (stopped : cst -> bool)
         (can_submit : nat -> bool -> bool) (pool : nat),
    0 < pool -> forall (s : st item cst) (a : act),
    enabled stopped can_submit pool s a = true ->
    measure (step f ready cstep stopped can_submit pool s a) < measure s.
Proof. exact SchedProofs.step_measure. Qed.
Print Assumptions c03_measure_decreases.

(* ... hence any strategy that keeps choosing enabled actions (one exists by c03_progress) reaches
   a final state within 5 * |items| steps: finish()/join returns. *)
Theorem c03_finish_terminates :
  forall (item res cst : Type) (f : item -> res) (ready : item -> bool) (cstep : cst -> res -> cst) (stopped : cst -> bool)
         (can_submit : nat -> bool -> bool) (pool : nat),
    0 < pool ->
    forall (pick : st item cst -> act) (c0 : cst) (xs : list item),
      (forall s, wf item cst s -> final stopped s = false -> enabled stopped can_submit pool s (pick s) = true) ->
      final stopped (iter f ready cstep stopped can_submit pool pick (5 * length xs) (init c0 xs)) = true.
Proof. exact SchedProofs.pipeline_terminates. Qed.
Print Assumptions c03_finish_terminates.

(* window bound: never more than W outstanding tickets, never more than [pool] running tasks *)
Theorem c03_window_bound :
  forall (item res cst : Type) (f : item -> res) (ready : item -> bool) (cstep : cst -> res -> cst) (stopped : cst -> bool)
         (can_submit : nat -> bool -> bool) (pool : nat),
    0 < pool ->
    forall W : nat,
      (forall n h, can_submit n h = true -> n + length (olist (if h then Some tt else None)) < W) ->
      forall (c0 : cst) (xs : list item) (sched : list act),
        bounded item cst pool W (run f ready cstep stopped can_submit pool c0 xs sched).
Proof. exact SchedProofs.pipeline_window_bound. Qed.
Print Assumptions c03_window_bound.

(* the scheduler the harness forces through the gate (release order -> schedule) is one of the
   schedules the theorems quantify over *)
Theorem c03_drive_is_a_schedule :
  forall (item res cst : Type) (f : item -> res) (ready : item -> bool) (cstep : cst -> res -> cst) (stopped : cst -> bool)
         (can_submit : nat -> bool -> bool) (pool fuel : nat) (s : st item cst) (rel : list nat),
    fst (drive f ready cstep stopped can_submit pool fuel s rel)
    = fold_left (step f ready cstep stopped can_submit pool) (snd (drive f ready cstep stopped can_submit pool fuel s rel)) s.
Proof. exact SchedProofs.drive_is_run. Qed.
Print Assumptions c03_drive_is_a_schedule.

(* ---------------------------------------------------------------- writer *)

(* For every write/flush sequence, every framing function (compression level, DEFLATE
   implementation), every sink fault position, every pool size and EVERY schedule that reaches
   finish(): the sink state (accepted chunks in order, number of calls, error) of the multithreaded
   writer is that of the single-threaded writer. *)
Theorem c03_writer_equals_st :
  forall (chunk : Type) (frame_of : blk -> list chunk) (eof : chunk) (fail_at : option nat) (P : nat)
         (ops : list op) (sched : list act),
    w_final chunk (w_run chunk frame_of fail_at P ops sched) = true ->
    mt_writer chunk frame_of eof fail_at P ops sched = st_writer chunk frame_of eof fail_at ops.
Proof. exact writer_equals_st. Qed.
Print Assumptions c03_writer_equals_st.

(* the block-list formulation of the single-threaded writer used above is the op-by-op Writer
   (stage, compress+write each block at once, stop at the first error, try_finish) *)
Theorem c03_st_writer_is_op_by_op :
  forall (chunk : Type) (frame_of : blk -> list chunk) (eof : chunk) (fail_at : option nat) (ops : list op),
    st_writer_direct chunk frame_of eof fail_at ops = st_writer chunk frame_of eof fail_at ops.
Proof. exact st_writer_direct_eq. Qed.
Print Assumptions c03_st_writer_is_op_by_op.

(* without a fault the sink receives every chunk of every block in submission order, then EOF *)
Theorem c03_writer_complete :
  forall (chunk : Type) (frame_of : blk -> list chunk) (eof : chunk) (P : nat) (ops : list op) (sched : list act),
    w_final chunk (w_run chunk frame_of None P ops sched) = true ->
    serr (mt_writer chunk frame_of eof None P ops sched) = false /\
    acc (mt_writer chunk frame_of eof None P ops sched) = all_chunks chunk frame_of eof ops.
Proof. intros; apply writer_no_fault_complete; [reflexivity|assumption]. Qed.
Print Assumptions c03_writer_complete.

(* a sink failing at call j (one the sequential writer reaches) surfaces: the joined writer thread
   reports the error (returned by write, flush or finish), the sink holds exactly the chunks
   before call j, and no later chunk is emitted *)
Theorem c03_error_surfaces :
  forall (chunk : Type) (frame_of : blk -> list chunk) (eof : chunk) (P j : nat) (ops : list op) (sched : list act),
    j < length (all_chunks chunk frame_of eof ops) ->
    w_final chunk (w_run chunk frame_of (Some j) P ops sched) = true ->
    serr (mt_writer chunk frame_of eof (Some j) P ops sched) = true /\
    acc (mt_writer chunk frame_of eof (Some j) P ops sched) = firstn j (all_chunks chunk frame_of eof ops).
Proof. intros; apply writer_error_surfaces; [reflexivity|assumption|assumption]. Qed.
Print Assumptions c03_error_surfaces.

Theorem c03_writer_finish_terminates :
  forall (chunk : Type) (frame_of : blk -> list chunk) (fail_at : option nat) (P : nat),
    0 < P -> forall ops,
    w_final chunk (iter frame_of w_ready (write_frame fail_at) serr (w_can_submit P) P
                        (default_pick serr (w_can_submit P) P)
                        (5 * length (stage ops)) (w_init chunk ops)) = true.
Proof. exact writer_finish_terminates_default. Qed.
Print Assumptions c03_writer_finish_terminates.

Theorem c03_writer_window :
  forall (chunk : Type) (frame_of : blk -> list chunk) (fail_at : option nat) (P : nat),
    0 < P -> forall ops sched, bounded blk (sink chunk) P (S P) (w_run chunk frame_of fail_at P ops sched).
Proof. exact writer_window. Qed.
Print Assumptions c03_writer_window.

(* ---------------------------------------------------------------- reader (one segment, read to the end) *)

(* PARTIAL w.r.t. the property text.  The Gallina reader model is at block granularity: what the
   application receives is the sequence of blocks (index, length, position, size) and the error
   flag.  The byte cursor inside the current block (read(n) splitting a block, the uoffset installed
   by seek_to_virtual_position) is the same code in Reader and MultithreadedReader (Block/Data) and
   is NOT modelled; seeks appear as "the segment is abandoned after k tickets" (theorem
   c03_reader_segment_after_k_tickets) followed by a fresh segment.  The statement over op
   sequences with byte counts and seeks is checked on the implementation only (L3).  The full
   statement, for a sequence of segments (frames from the seek target, tickets taken before the
   next seek, schedule of that segment): *)
Definition c03_reader_equals_st_full_statement : Prop :=
  forall (P : nat) (segments : list (list frame * nat * list act)),
    Forall (fun seg => let '(frames, k, sched) := seg in
              length (cons (r_run P frames sched)) = k ->
              cs (r_run P frames sched) = st_reader app0 (firstn k frames)) segments.

Theorem c03_reader_equals_st_partial :
  forall (P : nat) (frames : list frame) (sched : list act),
    r_final (r_run P frames sched) = true ->
    cs (r_run P frames sched) = st_reader app0 frames.
Proof. exact reader_equals_st. Qed.
Print Assumptions c03_reader_equals_st_partial.

Theorem c03_reader_prefix :
  forall (P : nat) (frames : list frame) (sched : list act),
    exists taken rest, submitted frames = taken ++ rest /\
      cs (r_run P frames sched) = st_consume app_step rerr app0 taken.
Proof. exact reader_prefix. Qed.
Print Assumptions c03_reader_prefix.

(* a seek (pause) abandons the segment in some reachable state: if the application has taken k
   tickets by then, it is in the state of the sequential reader after the first k frames *)
Theorem c03_reader_segment_after_k_tickets :
  forall (P : nat) (frames : list frame) (sched : list act) (k : nat),
    length (cons (r_run P frames sched)) = k ->
    cs (r_run P frames sched) = st_consume app_step rerr app0 (firstn k (submitted frames)).
Proof. exact reader_segment_after_k. Qed.
Print Assumptions c03_reader_segment_after_k_tickets.

(* a corrupt block (parse_block error) is returned by the read that reaches it under every schedule *)
Theorem c03_reader_error_surfaces :
  forall (P : nat) (frames : list frame) (sched : list act),
    r_final (r_run P frames sched) = true ->
    rerr (st_consume app_step rerr app0 (submitted frames)) = true ->
    rerr (cs (r_run P frames sched)) = true.
Proof. exact reader_error_surfaces. Qed.
Print Assumptions c03_reader_error_surfaces.

(* a frame-level error (truncated frame, BSIZE < 25; candidate F9, repaired in /repo by
   "fix: bgzf MultithreadedReader reported a truncated or malformed frame as a clean EOF"): the
   read that reaches the bad frame returns the error under every schedule, as in io::Reader
   (c03_reader_equals_st_partial covers data and positions) *)
Theorem c03_reader_frame_error_from_read :
  forall (P : nat) (frames : list frame) (sched : list act),
    frame_error frames = true ->
    r_final (r_run P frames sched) = true ->
    rerr (cs (r_run P frames sched)) = true.
Proof. exact reader_frame_error_from_read. Qed.
Print Assumptions c03_reader_frame_error_from_read.

Theorem c03_reader_terminates :
  forall P, 0 < P -> forall frames,
    r_final (iter (fun fr => fr) r_ready app_step rerr (r_can_submit P) P (default_pick rerr (r_can_submit P) P)
                  (5 * length (submitted frames)) (init app0 (submitted frames))) = true.
Proof. exact reader_terminates_default. Qed.
Print Assumptions c03_reader_terminates.

Theorem c03_reader_window :
  forall P, 0 < P -> forall frames sched, bounded frame app P (P + 2) (r_run P frames sched).
Proof. exact reader_window. Qed.
Print Assumptions c03_reader_window.

(* ---------------------------------------------------------------- non-vacuity *)
(* three blocks, pool of 2: tasks complete in the order 1, 2, 0 (block 0 last); the schedule
   reaches a final state and the blocks come out as 0, 1, 2 *)
Example c03_out_of_order_schedule :
  let ops := [WriteAll 10; Flush; WriteAll 20; Flush; WriteAll 30] in
  c03_writer_model 2 None ops [1; 2; 0]
  = Some ([(0, 10); (10, 20); (30, 30)]%N, true, 43, false)
  /\ c03_st_writer_model None ops = ([(0, 10); (10, 20); (30, 30)]%N, true, 43, false).
Proof. split; vm_compute; reflexivity. Qed.

(* the same with the sink failing at call 20 (inside the second frame): error, one complete block *)
Example c03_fault_schedule :
  c03_writer_model 2 (Some 20) [WriteAll 10; Flush; WriteAll 20; Flush; WriteAll 30] [1; 2; 0]
  = Some ([(0, 10)]%N, false, 21, true).
Proof. vm_compute; reflexivity. Qed.

(* a release order that needs more threads than the pool has is infeasible: the model is stuck *)
Example c03_infeasible_release_order :
  c03_writer_model 1 None [WriteAll 10; Flush; WriteAll 20; Flush; WriteAll 30] [2; 1; 0] = None.
Proof. vm_compute; reflexivity. Qed.

(* a write larger than the staging buffer is split at MAX_BUF = 65495 *)
Example c03_stage_split : stage [WriteAll 5; WriteAll 131000] = [(0, 65495); (65495, 65495); (130990, 15)]%N.
Proof. vm_compute; reflexivity. Qed.

(* reader: 4 frames (one empty), the third corrupt; inflate tasks complete in reverse order *)
Example c03_reader_corrupt_block :
  c03_reader_model 4 [mk_frame 0 50 100 Good; mk_frame 1 28 0 Good; mk_frame 2 60 200 BadBlock; mk_frame 3 28 0 Good]%N
                   [3; 2; 1; 0]
  = Some ([(0, 100)]%N, 78%N, true, false).
Proof. vm_compute; reflexivity. Qed.

(* reader: a truncated third frame: its error ticket needs no pool task, so the release order only
   names the two inflate tasks; the error surfaces from read after the two good blocks *)
Example c03_reader_truncated_frame :
  c03_reader_model 2 [mk_frame 0 50 100 Good; mk_frame 1 60 200 Good; mk_frame 2 70 300 BadFrame; mk_frame 3 28 0 Good]%N
                   [1; 0]
  = Some ([(0, 100); (1, 200)]%N, 110%N, true, false).
Proof. vm_compute; reflexivity. Qed.
