(* C03 — Multithreaded BGZF I/O equals single-threaded I/O under every schedule.
   Property theorems only.  Models: NV.Io.Sched (generic ticket pipeline: bounded channel of
   tickets, FIFO pool start, completion in ANY order, in-order consumer that may stop),
   NV.Bgzf.MtWriter (multithreaded_writer.rs + builder.rs next to io::Writer) and NV.Bgzf.MtReader
   (multithreaded_reader.rs next to io::Reader, one run segment read to the end; the reader after
   the repairs of mtr-frame-error-discarded-by-pause and mtr-read-hangs-after-buffer-count-corrupt-blocks).
   A schedule is an arbitrary list of actions (Submit | Start | Complete t | Take | Emit); disabled
   actions are no-ops, so the theorems quantify over every interleaving and completion order.
   Module OPS at the end: NV.Bgzf.MtReaderOps -- MultithreadedReader OP HISTORIES with seeks, byte
   cursor, get_mut and finish, proved equal to the single-threaded reader model of property C02
   (NV.Bgzf.ReaderOps) for every pool size and every schedule. *)
From Coq Require Import List Arith Bool NArith.
From NV Require Import Io.Sched Io.SchedProofs Bgzf.MtWriter Bgzf.MtWriterProofs Bgzf.MtReader Bgzf.MtReaderProofs.
From NV Require Bgzf.Vpos Bgzf.Gzi Bgzf.ReaderOps Bgzf.MtReaderOps Bgzf.MtReaderOpsProofs.
From NV Require Bgzf.MtReaderErr Bgzf.MtReaderErrProofs Io.SchedFair.
From NV Require Bgzf.ReaderErrFuelProofs.
From NV Require Bgzf.MtReaderBridge Bgzf.MtReaderBridgeProofs Bgzf.MtWriterBridge Bgzf.MtWriterBridgeProofs Bgzf.MtStageBridgeProofs.
From NV Require Sinks.Sink Sinks.SinkProofs Sinks.Mt Sinks.MtApp Bgzf.MtWriterApi.
Import ListNotations.

(* ---------------------------------------------------------------- generic pipeline *)

(* For EVERY schedule: once the pipeline is final (drained, or the consumer stopped on an error)
   the consumer is in exactly the state the sequential loop reaches over the items in submission
   order (and stops where the sequential loop stops). *)
Theorem pipeline_output_is_submission_order :
  forall (item res cst : Type) (f : item -> res) (ready : item -> bool) (cstep : cst -> res -> cst) (stopped : cst -> bool)
         (can_submit : nat -> bool -> bool) (pool : nat) (c0 : cst) (xs : list item) (sched : list act),
    final stopped (run f ready cstep stopped can_submit pool c0 xs sched) = true ->
    cs (run f ready cstep stopped can_submit pool c0 xs sched) = st_consume cstep stopped c0 (map f xs).
Proof. exact SchedProofs.pipeline_output_is_submission_order. Qed.
Print Assumptions pipeline_output_is_submission_order.

(* ... and in every reachable state the consumer has processed exactly a prefix, in order *)
Theorem pipeline_prefix_invariant :
  forall (item res cst : Type) (f : item -> res) (ready : item -> bool) (cstep : cst -> res -> cst) (stopped : cst -> bool)
         (can_submit : nat -> bool -> bool) (pool : nat) (c0 : cst) (xs : list item) (sched : list act),
    let s := run f ready cstep stopped can_submit pool c0 xs sched in
    exists rest, xs = cons s ++ rest /\ cs s = st_consume cstep stopped c0 (map f (cons s)).
Proof. exact SchedProofs.prefix_invariant. Qed.
Print Assumptions pipeline_prefix_invariant.

(* progress: every reachable non-final state has an enabled action (pool >= 1, an empty window
   admits a submission): no deadlock between the bounded channel, the pool and the consumer *)
Theorem c03_progress :
  forall (item res cst : Type) (f : item -> res) (ready : item -> bool) (cstep : cst -> res -> cst) (stopped : cst -> bool)
         (can_submit : nat -> bool -> bool) (pool : nat),
    0 < pool -> can_submit 0 false = true ->
    forall (c0 : cst) (xs : list item) (sched : list act),
      final stopped (run f ready cstep stopped can_submit pool c0 xs sched) = false ->
      exists a, enabled stopped can_submit pool (run f ready cstep stopped can_submit pool c0 xs sched) a = true.
Proof. exact SchedProofs.pipeline_progress. Qed.
Print Assumptions c03_progress.

(* the measure 5|todo| + 2|chan| + |hold| + 2|pending| + |running| strictly decreases along every
   enabled action ... *)
Theorem c03_measure_decreases :
  forall (item res cst : Type) (f : item -> res) (ready : item -> bool) (cstep : cst -> res -> cst) (stopped : cst -> bool)
         (can_submit : nat -> bool -> bool) (pool : nat),
    0 < pool -> forall (s : st item cst) (a : act),
    enabled stopped can_submit pool s a = true ->
    measure (step f ready cstep stopped can_submit pool s a) < measure s.
Proof. exact SchedProofs.step_measure. Qed.
Print Assumptions c03_measure_decreases.

(* ... hence any strategy that keeps choosing enabled actions (one exists by c03_progress) reaches
   a final state within 5 * |items| steps: finish()/join returns. *)
Theorem c03_finish_terminates :
  forall (item res cst : Type) (f : item -> res) (ready : item -> bool) (cstep : cst -> res -> cst) (stopped : cst -> bool)
         (can_submit : nat -> bool -> bool) (pool : nat),
    0 < pool ->
    forall (pick : st item cst -> act) (c0 : cst) (xs : list item),
      (forall s, wf item cst s -> final stopped s = false -> enabled stopped can_submit pool s (pick s) = true) ->
      final stopped (iter f ready cstep stopped can_submit pool pick (5 * length xs) (init c0 xs)) = true.
Proof. exact SchedProofs.pipeline_terminates. Qed.
Print Assumptions c03_finish_terminates.

(* window bound: never more than W outstanding tickets, never more than [pool] running tasks *)
Theorem c03_window_bound :
  forall (item res cst : Type) (f : item -> res) (ready : item -> bool) (cstep : cst -> res -> cst) (stopped : cst -> bool)
         (can_submit : nat -> bool -> bool) (pool : nat),
    0 < pool ->
    forall W : nat,
      (forall n h, can_submit n h = true -> n + length (olist (if h then Some tt else None)) < W) ->
      forall (c0 : cst) (xs : list item) (sched : list act),
        bounded item cst pool W (run f ready cstep stopped can_submit pool c0 xs sched).
Proof. exact SchedProofs.pipeline_window_bound. Qed.
Print Assumptions c03_window_bound.

(* the scheduler the harness forces through the gate (release order -> schedule) is one of the
   schedules the theorems quantify over *)
Theorem c03_drive_is_a_schedule :
  forall (item res cst : Type) (f : item -> res) (ready : item -> bool) (cstep : cst -> res -> cst) (stopped : cst -> bool)
         (can_submit : nat -> bool -> bool) (pool fuel : nat) (s : st item cst) (rel : list nat),
    fst (drive f ready cstep stopped can_submit pool fuel s rel)
    = fold_left (step f ready cstep stopped can_submit pool) (snd (drive f ready cstep stopped can_submit pool fuel s rel)) s.
Proof. exact SchedProofs.drive_is_run. Qed.
Print Assumptions c03_drive_is_a_schedule.

(* ---------------------------------------------------------------- writer *)

(* For every write/flush sequence, every framing function (compression level, DEFLATE
   implementation), every sink fault position, every pool size and EVERY schedule that reaches
   finish(): the sink state (accepted chunks in order, number of calls, error) of the multithreaded
   writer is that of the single-threaded writer. *)
Theorem c03_writer_equals_st :
  forall (chunk : Type) (frame_of : blk -> list chunk) (eof : chunk) (fail_at : option nat) (P : nat)
         (ops : list op) (sched : list act),
    w_final chunk (w_run chunk frame_of fail_at P ops sched) = true ->
    mt_writer chunk frame_of eof fail_at P ops sched = st_writer chunk frame_of eof fail_at ops.
Proof. exact writer_equals_st. Qed.
Print Assumptions c03_writer_equals_st.

(* the block-list formulation of the single-threaded writer used above is the op-by-op Writer
   (stage, compress+write each block at once, stop at the first error, try_finish) *)
Theorem c03_st_writer_is_op_by_op :
  forall (chunk : Type) (frame_of : blk -> list chunk) (eof : chunk) (fail_at : option nat) (ops : list op),
    st_writer_direct chunk frame_of eof fail_at ops = st_writer chunk frame_of eof fail_at ops.
Proof. exact st_writer_direct_eq. Qed.
Print Assumptions c03_st_writer_is_op_by_op.

(* without a fault the sink receives every chunk of every block in submission order, then EOF *)
Theorem c03_writer_complete :
  forall (chunk : Type) (frame_of : blk -> list chunk) (eof : chunk) (P : nat) (ops : list op) (sched : list act),
    w_final chunk (w_run chunk frame_of None P ops sched) = true ->
    serr (mt_writer chunk frame_of eof None P ops sched) = false /\
    acc (mt_writer chunk frame_of eof None P ops sched) = all_chunks chunk frame_of eof ops.
Proof. intros; apply writer_no_fault_complete; [reflexivity|assumption]. Qed.
Print Assumptions c03_writer_complete.

(* a sink failing at call j (one the sequential writer reaches) surfaces: the joined writer thread
   reports the error (returned by write, flush or finish), the sink holds exactly the chunks
   before call j, and no later chunk is emitted *)
Theorem c03_error_surfaces :
  forall (chunk : Type) (frame_of : blk -> list chunk) (eof : chunk) (P j : nat) (ops : list op) (sched : list act),
    j < length (all_chunks chunk frame_of eof ops) ->
    w_final chunk (w_run chunk frame_of (Some j) P ops sched) = true ->
    serr (mt_writer chunk frame_of eof (Some j) P ops sched) = true /\
    acc (mt_writer chunk frame_of eof (Some j) P ops sched) = firstn j (all_chunks chunk frame_of eof ops).
Proof. intros; apply writer_error_surfaces; [reflexivity|assumption|assumption]. Qed.
Print Assumptions c03_error_surfaces.

Theorem c03_writer_finish_terminates :
  forall (chunk : Type) (frame_of : blk -> list chunk) (fail_at : option nat) (P : nat),
    0 < P -> forall ops,
    w_final chunk (iter frame_of w_ready (write_frame fail_at) serr (w_can_submit P) P
                        (default_pick serr (w_can_submit P) P)
                        (5 * length (stage ops)) (w_init chunk ops)) = true.
Proof. exact writer_finish_terminates_default. Qed.
Print Assumptions c03_writer_finish_terminates.

Theorem c03_writer_window :
  forall (chunk : Type) (frame_of : blk -> list chunk) (fail_at : option nat) (P : nat),
    0 < P -> forall ops sched, bounded blk (sink chunk) P (S P) (w_run chunk frame_of fail_at P ops sched).
Proof. exact writer_window. Qed.
Print Assumptions c03_writer_window.

(* ---------------------------------------------------------------- reader (one segment, read to the end) *)

(* PARTIAL w.r.t. the property text.  The Gallina reader model is at block granularity: what the
   application receives is the sequence of blocks (index, length, position, size) and the error
   flag.  The byte cursor inside the current block (read(n) splitting a block, the uoffset installed
   by seek_to_virtual_position) is the same code in Reader and MultithreadedReader (Block/Data) and
   is NOT modelled; seeks appear as "the segment is abandoned after k tickets" (theorem
   c03_reader_segment_after_k_tickets) followed by a fresh segment.  The statement over op
   sequences with byte counts and seeks is proved in Module OPS below for well-formed files
   (OPS.c03_mt_reader_equals_st); what stays PARTIAL is a history that runs into a corrupt block:
   this block-granular segment theorem covers it only up to the first seek.  The full
   statement of THIS block-granular model, for a sequence of segments (frames from the seek target, tickets taken before the
   next seek, schedule of that segment): *)
Definition c03_reader_equals_st_full_statement : Prop :=
  forall (P : nat) (segments : list (list frame * nat * list act)),
    Forall (fun seg => let '(frames, k, sched) := seg in
              length (cons (r_run P frames sched)) = k ->
              cs (r_run P frames sched) = st_reader app0 (firstn k frames)) segments.

Theorem c03_reader_equals_st_partial :
  forall (P : nat) (frames : list frame) (sched : list act),
    r_final (r_run P frames sched) = true ->
    cs (r_run P frames sched) = st_reader app0 frames.
Proof. exact reader_equals_st. Qed.
Print Assumptions c03_reader_equals_st_partial.

Theorem c03_reader_prefix :
  forall (P : nat) (frames : list frame) (sched : list act),
    exists taken rest, submitted frames = taken ++ rest /\
      cs (r_run P frames sched) = st_consume app_step rerr app0 taken.
Proof. exact reader_prefix. Qed.
Print Assumptions c03_reader_prefix.

(* a seek (pause) abandons the segment in some reachable state: if the application has taken k
   tickets by then, it is in the state of the sequential reader after the first k frames *)
Theorem c03_reader_segment_after_k_tickets :
  forall (P : nat) (frames : list frame) (sched : list act) (k : nat),
    length (cons (r_run P frames sched)) = k ->
    cs (r_run P frames sched) = st_consume app_step rerr app0 (firstn k (submitted frames)).
Proof. exact reader_segment_after_k. Qed.
Print Assumptions c03_reader_segment_after_k_tickets.

(* a corrupt block (parse_block error) is returned by the read that reaches it under every schedule *)
Theorem c03_reader_error_surfaces :
  forall (P : nat) (frames : list frame) (sched : list act),
    r_final (r_run P frames sched) = true ->
    rerr (st_consume app_step rerr app0 (submitted frames)) = true ->
    rerr (cs (r_run P frames sched)) = true.
Proof. exact reader_error_surfaces. Qed.
Print Assumptions c03_reader_error_surfaces.

(* a frame-level error (truncated frame, BSIZE < 25; candidate F9, repaired in /repo by
   "fix: bgzf MultithreadedReader reported a truncated or malformed frame as a clean EOF"): the
   read that reaches the bad frame returns the error under every schedule, as in io::Reader
   (c03_reader_equals_st_partial covers data and positions) *)
Theorem c03_reader_frame_error_from_read :
  forall (P : nat) (frames : list frame) (sched : list act),
    frame_error frames = true ->
    r_final (r_run P frames sched) = true ->
    rerr (cs (r_run P frames sched)) = true.
Proof. exact reader_frame_error_from_read. Qed.
Print Assumptions c03_reader_frame_error_from_read.

Theorem c03_reader_terminates :
  forall P, 0 < P -> forall frames,
    r_final (iter (fun fr => fr) r_ready app_step rerr (r_can_submit P) P (default_pick rerr (r_can_submit P) P)
                  (5 * length (submitted frames)) (init app0 (submitted frames))) = true.
Proof. exact reader_terminates_default. Qed.
Print Assumptions c03_reader_terminates.

Theorem c03_reader_window :
  forall P, 0 < P -> forall frames sched, bounded frame app P (P + 2) (r_run P frames sched).
Proof. exact reader_window. Qed.
Print Assumptions c03_reader_window.

(* ---------------------------------------------------------------- non-vacuity *)
(* three blocks, pool of 2: tasks complete in the order 1, 2, 0 (block 0 last); the schedule
   reaches a final state and the blocks come out as 0, 1, 2 *)
Example c03_out_of_order_schedule :
  let ops := [WriteAll 10; Flush; WriteAll 20; Flush; WriteAll 30] in
  c03_writer_model 2 None ops [1; 2; 0]
  = Some ([(0, 10); (10, 20); (30, 30)]%N, true, 43, false)
  /\ c03_st_writer_model None ops = ([(0, 10); (10, 20); (30, 30)]%N, true, 43, false).
Proof. split; vm_compute; reflexivity. Qed.

(* the same with the sink failing at call 20 (inside the second frame): error, one complete block *)
Example c03_fault_schedule :
  c03_writer_model 2 (Some 20) [WriteAll 10; Flush; WriteAll 20; Flush; WriteAll 30] [1; 2; 0]
  = Some ([(0, 10)]%N, false, 21, true).
Proof. vm_compute; reflexivity. Qed.

(* a release order that needs more threads than the pool has is infeasible: the model is stuck *)
Example c03_infeasible_release_order :
  c03_writer_model 1 None [WriteAll 10; Flush; WriteAll 20; Flush; WriteAll 30] [2; 1; 0] = None.
Proof. vm_compute; reflexivity. Qed.

(* a write larger than the staging buffer is split at MAX_BUF = 65495 *)
Example c03_stage_split : stage [WriteAll 5; WriteAll 131000] = [(0, 65495); (65495, 65495); (130990, 15)]%N.
Proof. vm_compute; reflexivity. Qed.

(* reader: 4 frames (one empty), the third corrupt; inflate tasks complete in reverse order *)
Example c03_reader_corrupt_block :
  c03_reader_model 4 [mk_frame 0 50 100 Good; mk_frame 1 28 0 Good; mk_frame 2 60 200 BadBlock; mk_frame 3 28 0 Good]%N
                   [3; 2; 1; 0]
  = Some ([(0, 100)]%N, 78%N, true, false).
Proof. vm_compute; reflexivity. Qed.

(* reader: a truncated third frame: its error ticket needs no pool task, so the release order only
   names the two inflate tasks; the error surfaces from read after the two good blocks *)
Example c03_reader_truncated_frame :
  c03_reader_model 2 [mk_frame 0 50 100 Good; mk_frame 1 60 200 Good; mk_frame 2 70 300 BadFrame; mk_frame 3 28 0 Good]%N
                   [1; 0]
  = Some ([(0, 100); (1, 200)]%N, 110%N, true, false).
Proof. vm_compute; reflexivity. Qed.

(* ============================================================================================
   OP HISTORIES of the MultithreadedReader (model: NV.Bgzf.MtReaderOps -- State::{Paused, Running,
   Done}, resume/pause with the reader thread's read-ahead over the worker_count + 2 buffers,
   read_block over the ticket pipeline NV.Io.Sched, fill_buf / consume / read / read_exact /
   default_read_exact / read to the end / virtual_position on Block+Data, seek_to_virtual_position
   with the repaired "no block read here" case, seek_with_index, get_mut, finish) against the
   single-threaded reader model of property C02 (NV.Bgzf.ReaderOps, the reader after its repair).
   ============================================================================================ *)
Module OPS.
Import NV.Bgzf.Vpos NV.Bgzf.Gzi NV.Bgzf.ReaderOps NV.Io.Sched NV.Bgzf.MtReaderOps NV.Bgzf.MtReaderOpsProofs.

(* FULL STATEMENT of the reader half of the property over parsed well-formed files: for EVERY file
   (frames of positive size with at most 65536 data bytes each, empty blocks anywhere), EVERY pool
   size P >= 1, EVERY scheduler (which pipeline actions -- the reader thread reads the next frame,
   a pool thread starts a task, ANY running task completes, the application takes a ticket / a
   result -- are played during each wait for a block, i.e. every completion order and every
   interleaving; tickets and tasks in flight at a seek are dropped), EVERY index and EVERY history of
   operations (read, read_exact, default_read_exact, fill_buf, consume, read to the end,
   seek_to_virtual_position, seek_with_index): the result of each operation and the virtual
   position after it are exactly those of the single-threaded reader. *)
Theorem c03_mt_reader_equals_st :
  forall (P : nat) (sch : nat -> list act) (f : file) (idx : gzi_index) (ops : list op),
    (0 < P)%nat -> Forall (fun b => (0 < csize b /\ flen b <= 65536)%N) f ->
    m_run P sch f idx (m_init f) (map MOp ops) = ReaderOps.run true f idx (ReaderOps.init f) ops.
Proof. intros P sch f idx ops HP Hf. exact (mt_reader_equals_st P sch HP f idx ops Hf). Qed.
Print Assumptions c03_mt_reader_equals_st.

(* hence nothing depends on the pool size or the schedule *)
Theorem c03_mt_reader_schedule_indep :
  forall P sch P' sch' f idx ops,
    (0 < P)%nat -> (0 < P')%nat -> Forall (fun b => (0 < csize b /\ flen b <= 65536)%N) f ->
    m_run P sch f idx (m_init f) (map MOp ops) = m_run P' sch' f idx (m_init f) (map MOp ops).
Proof. intros. rewrite !c03_mt_reader_equals_st by assumption. reflexivity. Qed.
Print Assumptions c03_mt_reader_schedule_indep.

(* The schedules quantified over are ALL complete schedules: a wait for a block ("pull") plays the
   scheduler's actions and then a canonical completion; when the scheduler's own actions already
   end the wait, the canonical part does nothing ... *)
Theorem c03_mt_pull_any_complete_schedule :
  forall P seg s, pfinal (fold_left (pstep P) seg (start_pull s)) = true ->
    pull_with P seg s = fold_left (pstep P) seg (start_pull s).
Proof. exact pull_complete_schedule. Qed.
Print Assumptions c03_mt_pull_any_complete_schedule.

(* ... and every wait does end (no deadlock between the reader thread, the worker_count + 2
   buffers, the pool and the application, for any pool >= 1): read_block returns. *)
Theorem c03_mt_pull_ends :
  forall P, (0 < P)%nat -> forall s, SchedProofs.wf frame rdr s -> pfinal (pcomplete P s) = true.
Proof. exact pcomplete_final. Qed.
Print Assumptions c03_mt_pull_ends.

(* Whatever the schedule, read_block leaves the application where the single-threaded reader's
   read_nonempty_block loop leaves it (empty blocks skipped, the last frame taken is current). *)
Theorem c03_mt_pull_is_next_nonempty :
  forall P, (0 < P)%nat -> forall seg s, SchedProofs.wf frame rdr s ->
    let s' := pull_with P seg s in
    SchedProofs.wf frame rdr s' /\
    match next_nonempty (remaining s) (r_position (cs s)) with
    | None =>
        remaining s' = [] /\
        cs s' = mkRdr true (r_position (cs s)) (r_blk (cs s)) (S (pulls (cs s)))
    | Some (b, p, r, np) =>
        remaining s' = r /\
        cs s' = mkRdr (flen b =? 0)%N np (mkBlk p (csize b) (fdata b) 0) (S (pulls (cs s)))
    end.
Proof. exact pull_spec. Qed.
Print Assumptions c03_mt_pull_is_next_nonempty.

(* finish() after ANY history, under every schedule: it returns (no panic, the join ends), hands
   the inner reader back (at an offset inside the file), and everything delivered before is what
   the single-threaded reader delivers. *)
Theorem c03_mt_finish_returns :
  forall (P : nat) (sch : nat -> list act) (f : file) (idx : gzi_index) (ops : list op),
    (0 < P)%nat -> Forall (fun b => (0 < csize b /\ flen b <= 65536)%N) f ->
    exists off vp,
      m_run P sch f idx (m_init f) (map MOp ops ++ [Finish])
      = ReaderOps.run true f idx (ReaderOps.init f) ops ++ [(OPos (Ok off), vp)] /\ (off <= csum f)%N.
Proof. intros P sch f idx ops HP Hf. exact (finish_returns P sch HP f idx ops Hf). Qed.
Print Assumptions c03_mt_finish_returns.

(* get_mut() directly before a seek to a frame boundary (the documented use) changes nothing:
   on the ops both readers have, the history equals the single-threaded reader's. *)
Theorem c03_mt_get_mut_before_seek :
  forall (P : nat) (sch : nat -> list act) (f : file) (idx : gzi_index) (ops : list mop),
    (0 < P)%nat -> Forall (fun b => (0 < csize b /\ flen b <= 65536)%N) f -> guarded f ops ->
    sel ops (m_run P sch f idx (m_init f) ops) = ReaderOps.run true f idx (ReaderOps.init f) (strip ops).
Proof. intros P sch f idx ops HP Hf G. exact (mt_reader_get_mut_before_seek P sch HP f idx ops Hf G). Qed.
Print Assumptions c03_mt_get_mut_before_seek.

(* what pause() (get_mut, finish, seek) does to the blocks in flight: they are dropped, and the
   reader thread stops at most worker_count + 2 frames past what the application has taken *)
Theorem c03_mt_pause_readahead_bound :
  forall P, (0 < P)%nat -> forall fuel (s : pst),
    exists k, todo (drain P fuel s) = skipn k (todo s) /\
      (k = 0 \/ k + length (chan s) + (if is_some (hold s) then 1 else 0) <= P + 2)%nat.
Proof. intros P HP. exact (drain_spec P (fun _ => []) HP). Qed.
Print Assumptions c03_mt_pause_readahead_bound.

(* get_mut() NOT followed by a seek is outside the property (the inner reader is where the
   read-ahead left it, and reading on skips the frames in flight): the model shows it.  P = 1:
   after the first block, get_mut leaves the inner reader 1 + 3 frames into the file; the read
   after the current block is exhausted continues with frame 4, not frame 1 (and the reported
   virtual position, 60:0, is not where that frame ends, 150:0). *)
Example c03_get_mut_then_read_skips_blocks :
  let f := [mkFrame 30 [1]; mkFrame 30 [2]; mkFrame 30 [3]; mkFrame 30 [4]; mkFrame 30 [5]; mkFrame 28 []]%N in
  m_run 1 (fun _ => []) f [] (m_init f) [MOp (Read 1); GetMut; MOp (Read 1)]
  = [ (OBytes (Ok [1]), Ok (pack 30 0)); (OPos (Ok 120), Ok (pack 30 0)); (OBytes (Ok [5]), Ok (pack 60 0)) ]%N.
Proof. vm_compute. reflexivity. Qed.

(* non-vacuity: data, an empty block, data, the EOF marker; pool of 2; during the first wait all
   frames are read, three tasks started and completed in the order 2, 0, 1 before any result is
   taken; a seek to the empty block lands on the data block after it, get_mut + seek to the end
   leaves an empty block there, finish hands the inner reader back at the end of the file. *)
Example c03_mt_reader_example :
  let f := [mkFrame 30 [1; 2; 3]; mkFrame 28 []; mkFrame 31 [4; 5; 6; 7]; mkFrame 28 []]%N in
  let sch := sch_of [[0; 0; 0; 1; 1; 1; 6; 4; 5; 2; 3]; []; [0; 1; 4]]%nat in
  let ops := [MOp (Read 2); MOp FillBuf; MOp (Consume 1); MOp (ReadExact 3); MOp (Seek (pack 30 0));
              MOp (Read 10); GetMut; MOp (Seek (pack 117 0)); MOp FillBuf]%N in
  m_run 2 sch f [] (m_init f) (ops ++ [Finish])
  = [ (OBytes (Ok [1; 2]), Ok (pack 0 2)); (OBytes (Ok [3]), Ok (pack 0 2)); (OUnit, Ok (pack 30 0));
      (OBytes (Ok [4; 5; 6]), Ok (pack 58 3)); (OPos (Ok (pack 30 0)), Ok (pack 58 0));
      (OBytes (Ok [4; 5; 6; 7]), Ok (pack 89 0)); (OPos (Ok 117), Ok (pack 89 0));
      (OPos (Ok (pack 117 0)), Ok (pack 117 0));
      (OBytes (Ok []), Ok (pack 117 0)); (OPos (Ok 117), Ok (pack 117 0)) ]%N
  /\ guarded f ops
  /\ sel ops (m_run 2 sch f [] (m_init f) ops) = ReaderOps.run true f [] (ReaderOps.init f) (strip ops).
Proof. vm_compute. repeat split; try reflexivity; discriminate. Qed.
End OPS.

(* ============================================================================================
   OP HISTORIES THAT CONTINUE AFTER A CORRUPT BLOCK OR A FRAME ERROR
   (model: NV.Bgzf.MtReaderErr -- parsed files whose frames may be SEarly: parse_frame fails, block
   untouched; SLate: inflate / CRC fails after block_initialize; SFrame: read_frame_into fails, last
   frame of the file -- the MultithreadedReader after e327f10 / 137acf0 / 1d90f27 with the Err
   ticket recycled and self.buffer / self.position untouched, next to the single-threaded Reader
   with its error paths written out, [fxe] = false: the tree as it is, [fxe] = true: after the
   repair proposed for finding str-failed-block-stays-current-after-inflate-error).
   ============================================================================================ *)
Module ERR.
Import NV.Bgzf.Vpos NV.Bgzf.Gzi NV.Bgzf.ReaderOps NV.Io.Sched NV.Bgzf.MtReaderOps NV.Bgzf.MtReaderErr
       NV.Bgzf.MtReaderErrProofs.

(* THE STATEMENT THE PROPERTY ASKS FOR on such files: for every file, pool size, schedule, index
   and history the multithreaded reader gives, op by op, the results (errors included) and virtual
   positions of the single-threaded reader of the tree as it is. *)
Definition c03_err_mt_equals_st_full_statement : Prop :=
  forall (P : nat) (sch : nat -> list act) (f : efile) (idx : gzi_index) (ops : list op),
    (0 < P)%nat -> ewf f ->
    em_run P sch f idx (em_init f) (map MOp ops) = e_run false f idx (e_init f) ops.

(* It does NOT hold (finding str-failed-block-stays-current-after-inflate-error): data, a block
   with a flipped CRC bit, data, EOF marker; read 5, read 100, read 100.  The single-threaded
   reader reports position 0:0 after the error and then hands out the 7 unverified bytes. *)
Theorem c03_err_pinned_st_refuted : ~ c03_err_mt_equals_st_full_statement.
Proof. exact err_full_statement_refuted. Qed.
Print Assumptions c03_err_pinned_st_refuted.

(* POSITIVE THEOREM 1 (the tree as it is): on every file WITHOUT a late-failing block -- bad gzip /
   BGZF header fields, ISIZE out of range, BSIZE < 25, a truncated last frame, anywhere and any
   number of them -- the full statement holds: every history, continuing after every error, every
   pool size, every schedule. *)
Theorem c03_err_mt_equals_st_pinned :
  forall (P : nat) (sch : nat -> list act) (f : efile) (idx : gzi_index) (ops : list op),
    (0 < P)%nat -> ewf f -> no_late f ->
    em_run P sch f idx (em_init f) (map MOp ops) = e_run false f idx (e_init f) ops.
Proof. exact mt_err_equals_st_pinned. Qed.
Print Assumptions c03_err_mt_equals_st_pinned.

(* POSITIVE THEOREM 2 (after the proposed repair of the single-threaded reader): ALL files, late
   failures included, on every history in which no seek runs into a late-failing block while the
   current block still has unread data ([e_safe], a decidable condition on file + history). *)
Theorem c03_err_mt_equals_st_repaired :
  forall (P : nat) (sch : nat -> list act) (f : efile) (idx : gzi_index) (ops : list op),
    (0 < P)%nat -> ewf f -> e_safe f idx (e_init f) ops = true ->
    em_run P sch f idx (em_init f) (map MOp ops) = e_run true f idx (e_init f) ops.
Proof. intros P sch f idx ops HP. exact (mt_err_equals_st P sch HP f idx ops). Qed.
Print Assumptions c03_err_mt_equals_st_repaired.

(* the excluded class is real: a failed seek onto a corrupt block while the current block has
   unread data leaves the multithreaded reader serving the old block out of its own buffer *)
Example c03_err_unsafe_seek_differs :
  let f := [mkE (mkFrame 33 [10; 11; 12; 13; 14]) SGood; mkE (mkFrame 35 [20; 21]) (SLate 2 [20; 21]); mkE (mkFrame 28 []) SGood]%N in
  let ops := [Read 2; Seek (pack 33 0); Read 10]%N in
  e_safe f [] (e_init f) ops = false /\
  em_run 1 (fun _ => []) f [] (em_init f) (map MOp ops) <> e_run true f [] (e_init f) ops.
Proof. split; [vm_compute; reflexivity|]. intro H. vm_compute in H. discriminate. Qed.

(* the two single-threaded readers differ only through late failures *)
Theorem c03_err_st_pinned_is_repaired :
  forall (f : efile) (idx : gzi_index) (ops : list op) (st : estate),
    no_late f -> no_late (e_rest st) -> e_run false f idx st ops = e_run true f idx st ops.
Proof. exact st_pinned_is_repaired. Qed.
Print Assumptions c03_err_st_pinned_is_repaired.

(* hence nothing depends on the pool size or the schedule, errors included *)
Theorem c03_err_schedule_indep :
  forall P sch P' sch' f idx ops,
    (0 < P)%nat -> (0 < P')%nat -> ewf f -> e_safe f idx (e_init f) ops = true ->
    em_run P sch f idx (em_init f) (map MOp ops) = em_run P' sch' f idx (em_init f) (map MOp ops).
Proof. intros. rewrite !c03_err_mt_equals_st_repaired by assumption. reflexivity. Qed.
Print Assumptions c03_err_schedule_indep.

(* what one wait for a block delivers, whatever the schedule: the results are taken in file order
   up to and including the first block with data or the FIRST ERROR (the error ticket of a frame
   error is answered by the reader thread itself, that of a corrupt block by its pool task); the
   application's block and position are untouched by an error *)
Theorem c03_err_pull_is_sequential :
  forall P, (0 < P)%nat -> forall seg (s : epst), SchedProofs.wf eframe erdr s ->
    let s' := epull_with P seg s in
    SchedProofs.wf eframe erdr s' /\
    (cs s', eremaining s')
    = seq_run erd_step erd_stopped
              (mkER true (er_position (cs s)) (er_blk (cs s)) (S (epulls (cs s))) None) (eremaining s).
Proof. exact epull_spec. Qed.
Print Assumptions c03_err_pull_is_sequential.

(* every wait ends, also after any number of errors (the buffer of an Err ticket is recycled:
   repair of mtr-read-hangs-after-buffer-count-corrupt-blocks) *)
Theorem c03_err_pull_ends :
  forall P, (0 < P)%nat -> forall s, SchedProofs.wf eframe erdr s -> epfinal (epcomplete P s) = true.
Proof. exact epcomplete_final. Qed.
Print Assumptions c03_err_pull_ends.

(* finish() after any such history returns and hands the inner reader back *)
Theorem c03_err_finish_returns :
  forall (P : nat) (sch : nat -> list act) (f : efile) (idx : gzi_index) (ops : list op),
    (0 < P)%nat -> ewf f -> e_safe f idx (e_init f) ops = true ->
    exists off vp,
      em_run P sch f idx (em_init f) (map MOp ops ++ [Finish])
      = e_run true f idx (e_init f) ops ++ [(OPos (Ok off), vp)] /\ (off <= ecsum f)%N.
Proof. intros P sch f idx ops HP. exact (mt_err_finish_returns P sch HP f idx ops). Qed.
Print Assumptions c03_err_finish_returns.

(* non-vacuity: a CRC failure, then a header failure, data, a truncated last frame; pool of 2, the
   inflate tasks of the first wait complete in the order 2, 1, 0.  Each error is returned once, by
   the read that reaches it; reading goes on with the next block; after the truncated frame the
   input is at its end; a seek back onto the corrupt block fails again; finish returns. *)
Example c03_err_example :
  let f := [mkE (mkFrame 33 [10; 11; 12; 13; 14]) SGood; mkE (mkFrame 35 [20; 21]) (SLate 2 [20; 21]);
            mkE (mkFrame 30 [30]) SEarly; mkE (mkFrame 31 [40; 41; 42]) SGood;
            mkE (mkFrame 25 [50]) (SFrame UnexpectedEof)]%N in
  let sch := sch_of [[0; 0; 0; 1; 1; 1; 6; 5; 4]]%nat in
  let ops := [Read 5; Read 9; Read 9; Read 9; Read 9; Read 9; Seek (pack 33 0); Read 9]%N in
  em_run 2 sch f [] (em_init f) (map MOp ops ++ [Finish])
  = [ (OBytes (Ok [10; 11; 12; 13; 14]), Ok (pack 33 0)); (OBytes (Err InvalidData), Ok (pack 33 0));
      (OBytes (Err InvalidData), Ok (pack 33 0)); (OBytes (Ok [40; 41; 42]), Ok (pack 64 0));
      (OBytes (Err UnexpectedEof), Ok (pack 64 0)); (OBytes (Ok []), Ok (pack 64 0));
      (OPos (Err InvalidData), Ok (pack 64 0)); (OBytes (Err InvalidData), Ok (pack 64 0));
      (OPos (Ok 154), Ok (pack 64 0)) ]%N
  /\ e_safe f [] (e_init f) ops = true /\ ewf f.
Proof.
  split; [vm_compute; reflexivity|]. split; [vm_compute; reflexivity|].
  repeat constructor; vm_compute; congruence.
Qed.
End ERR.

(* ============================================================================================
   LIVENESS UNDER INFINITE SCHEDULES (NV.Io.SchedFair; generic pipeline, hence writer thread,
   reader thread and every wait of the application)
   ============================================================================================ *)
Module FAIR.
Import NV.Io.SchedFair.

(* whatever the (infinite) schedule, at most [measure s] of its actions ever take effect: there is
   no infinite run of enabled actions *)
Theorem c03_effective_steps_bounded :
  forall (item res cst : Type) (f : item -> res) (ready : item -> bool) (cstep : cst -> res -> cst)
         (stopped : cst -> bool) (can_submit : nat -> bool -> bool) (pool : nat),
    0 < pool -> forall (sigma : nat -> act) (n : nat) (s : st item cst),
    effective item res cst f ready cstep stopped can_submit pool sigma n s
    + measure (prefix_run item res cst f ready cstep stopped can_submit pool sigma n s) <= measure s.
Proof. exact effective_bounded. Qed.
Print Assumptions c03_effective_steps_bounded.

(* FAIR TERMINATION: under every infinite schedule that, while the pipeline is not final,
   eventually plays some action that is enabled when it is played, a final state is reached:
   finish()/join and every wait return *)
Theorem c03_fair_terminates :
  forall (item res cst : Type) (f : item -> res) (ready : item -> bool) (cstep : cst -> res -> cst)
         (stopped : cst -> bool) (can_submit : nat -> bool -> bool) (pool : nat),
    0 < pool -> forall (sigma : nat -> act) (s : st item cst),
    fair item res cst f ready cstep stopped can_submit pool sigma s ->
    exists n, final stopped (prefix_run item res cst f ready cstep stopped can_submit pool sigma n s) = true.
Proof. exact fair_terminates. Qed.
Print Assumptions c03_fair_terminates.

(* the fairness assumption can always be met: every reachable non-final state has an enabled action *)
Theorem c03_fair_satisfiable :
  forall (item res cst : Type) (f : item -> res) (ready : item -> bool) (cstep : cst -> res -> cst)
         (stopped : cst -> bool) (can_submit : nat -> bool -> bool) (pool : nat),
    0 < pool -> can_submit 0 false = true ->
    forall (sigma : nat -> act) (k : nat) (s : st item cst), wf item cst s ->
      final stopped (prefix_run item res cst f ready cstep stopped can_submit pool sigma k s) = false ->
      exists a, enabled stopped can_submit pool (prefix_run item res cst f ready cstep stopped can_submit pool sigma k s) a = true.
Proof. exact fair_satisfiable. Qed.
Print Assumptions c03_fair_satisfiable.

(* instance: MultithreadedWriter::finish() under a fair scheduler, any sink fault position *)
Theorem c03_writer_fair_finish :
  forall (chunk : Type) (frame_of : blk -> list chunk) (fail_at : option nat) (P : nat),
    0 < P -> forall ops (sigma : nat -> act),
    fair blk (list chunk) (sink chunk) frame_of w_ready (write_frame fail_at) serr (w_can_submit P) P sigma (w_init chunk ops) ->
    exists n, w_final chunk (prefix_run blk (list chunk) (sink chunk) frame_of w_ready (write_frame fail_at) serr
                                      (w_can_submit P) P sigma n (w_init chunk ops)) = true.
Proof. intros chunk frame_of fail_at P HP ops sigma. apply fair_terminates. exact HP. Qed.
Print Assumptions c03_writer_fair_finish.
End FAIR.

(* ============================================================================================
   THE WRITER AT API-CALL LEVEL (application-thread model: property C14's NV.Sinks.MtApp, imported
   read-only; combined in NV.Bgzf.MtWriterApi)
   ============================================================================================ *)
Module API.
Import NV.Sinks.Sink NV.Sinks.SinkProofs NV.Sinks.Mt NV.Sinks.MtApp NV.Bgzf.MtWriterApi.

(* EVERY joint schedule of application thread, pool and writer thread, EVERY fault script: all
   calls but the last return Ok; the last one returns the writer thread's result r, which with the
   sink is that of the sequential `?`-chain; r = Ok only from finish(), and then the sink holds
   exactly the single-threaded writer's file *)
Theorem c03_writer_api_equals_st :
  forall P maxbuf frames, 0 < maxbuf -> forall ops sched s,
    let x := mta_run P maxbuf frames ops sched s in
    m_done x = true ->
    exists j r s',
      m_rs x = repeat Ok j ++ [r] /\ j <= length ops /\
      mt_result (m_pipe x) = (r, s') /\
      run_calls (mt_calls maxbuf frames ops) s = (r, s') /\
      (r = Ok -> j = length ops /\ sbytes s' = sbytes s ++ st_file maxbuf frames ops).
Proof. exact mtw_api_equals_st. Qed.
Print Assumptions c03_writer_api_equals_st.

(* a consumed sink failure is the result of exactly one call -- the last one made -- and the sink
   holds a prefix of the single-threaded file *)
Theorem c03_writer_api_failure_reported :
  forall P maxbuf frames, 0 < maxbuf -> forall ops sched s c e,
    let x := mta_run P maxbuf frames ops sched s in
    m_done x = true ->
    sscript s = c ++ sscript (snd (mt_result (m_pipe x))) -> In (Fail e) c -> e <> e_interrupted ->
    (exists j, j <= length ops /\ m_rs x = repeat Ok j ++ [Err e]) /\
    exists p, sbytes (snd (mt_result (m_pipe x))) = sbytes s ++ p /\ prefix p (st_file maxbuf frames ops).
Proof. exact mtw_api_failure_reported. Qed.
Print Assumptions c03_writer_api_failure_reported.
End API.

(* ============================================================================================
   ONE READER MODEL (round 8; NV.Bgzf.MtReaderBridge): the op-level model of Module OPS is the
   restriction of the error model of Module ERR to files all of whose frames are good, and
   OutOfFuel is unreachable in the error model.
   ============================================================================================ *)
Module ONE.
Import NV.Bgzf.Vpos NV.Bgzf.Gzi NV.Bgzf.ReaderOps NV.Io.Sched NV.Bgzf.MtReaderOps NV.Bgzf.MtReaderErr
       NV.Bgzf.MtReaderErrProofs NV.Bgzf.MtReaderBridge NV.Bgzf.MtReaderBridgeProofs.

(* BRIDGE: for EVERY parsed file f (no well-formedness hypothesis), pool size >= 1, schedule, index
   and history -- get_mut and finish included -- the error model run on [goods f] (every frame
   SGood) produces exactly the history of the op-level model on f.  So there is ONE model of the
   MultithreadedReader; everything proved about NV.Bgzf.MtReaderOps is a statement about
   NV.Bgzf.MtReaderErr on all-good files, and both are compared with noodles-bgzf (kinds rh, rhv). *)
Theorem c03_err_model_restricts_to_ops_model :
  forall (P : nat) (sch : nat -> list act) (f : file) (idx : gzi_index) (ops : list mop),
    (0 < P)%nat ->
    em_run P sch (goods f) idx (em_init (goods f)) ops = m_run P sch f idx (m_init f) ops.
Proof. intros P sch f idx ops HP. exact (err_model_restricts_to_ops_model P sch HP f idx ops). Qed.
Print Assumptions c03_err_model_restricts_to_ops_model.

(* the bridge is state by state: the embedding commutes with every single operation *)
Theorem c03_err_model_step_is_ops_model_step :
  forall (P : nat) (sch : nat -> list act) (f : file) (idx : gzi_index) (m : mstate) (o : mop),
    (0 < P)%nat -> em_ok (emb m) ->
    em_step P sch (goods f) idx (emb m) o
    = (emb (fst (m_step P sch f idx m o)), snd (m_step P sch f idx m o)).
Proof. intros P sch f idx m o HP Hok. exact (emb_step P sch HP f idx m o Hok). Qed.
Print Assumptions c03_err_model_step_is_ops_model_step.

(* the pipeline part of the bridge, generic: the ticket pipeline commutes with any map of its
   items and consumer states that respects ready / step / stopped, action by action *)
Theorem c03_pipeline_commutes_with_maps :
  forall (A B C D : Type) (g : A -> B) (h : C -> D) (readyA : A -> bool) (readyB : B -> bool)
         (stepA : C -> A -> C) (stepB : D -> B -> D) (stopA : C -> bool) (stopB : D -> bool)
         (can : nat -> bool -> bool) (pool : nat),
    (forall x, readyB (g x) = readyA x) -> (forall c x, stepB (h c) (g x) = h (stepA c x)) ->
    (forall c, stopB (h c) = stopA c) ->
    forall s a,
      Sched.step (fun x : B => x) readyB stepB stopB can pool (map_st g h s) a
      = map_st g h (Sched.step (fun x : A => x) readyA stepA stopA can pool s a).
Proof. exact map_step. Qed.
Print Assumptions c03_pipeline_commutes_with_maps.

(* OLD THEOREM AS A COROLLARY: OPS.c03_mt_reader_equals_st re-derived THROUGH the error model --
   the op-level multithreaded model equals the error-path single-threaded reader (of the tree as it
   is and of the repaired one) on the embedded file ... *)
Theorem c03_ops_model_equals_err_st :
  forall (P : nat) (sch : nat -> list act) (f : file) (idx : gzi_index) (ops : list op) (fxe : bool),
    (0 < P)%nat -> Forall (fun b => (0 < csize b /\ flen b <= 65536)%N) f ->
    m_run P sch f idx (m_init f) (map MOp ops) = e_run fxe (goods f) idx (e_init (goods f)) ops.
Proof. exact ops_model_equals_err_st. Qed.
Print Assumptions c03_ops_model_equals_err_st.

(* ... and the two single-threaded models (C02's ReaderOps and the error-path reader) agree on
   well-formed files, for every history *)
Theorem c03_st_models_agree :
  forall (f : file) (idx : gzi_index) (ops : list op) (fxe : bool),
    Forall (fun b => (0 < csize b /\ flen b <= 65536)%N) f ->
    e_run fxe (goods f) idx (e_init (goods f)) ops = ReaderOps.run true f idx (ReaderOps.init f) ops.
Proof. exact st_models_agree. Qed.
Print Assumptions c03_st_models_agree.

(* OUT OF FUEL IS UNREACHABLE in the error model of the MultithreadedReader: for EVERY file
   (corrupt blocks, broken last frame, no size hypothesis), pool size >= 1, schedule, index and
   history (get_mut / finish included) no operation result and no virtual position is OutOfFuel:
   the fuel of the read-to-end loop (2 + bytes of the current block + bytes ahead) and of
   default_read_exact (1 + n) is never exhausted. *)
Theorem c03_err_out_of_fuel_unreachable :
  forall (P : nat) (sch : nat -> list act) (f : efile) (idx : gzi_index) (ops : list mop),
    (0 < P)%nat -> Forall fuel_free (em_run P sch f idx (em_init f) ops).
Proof. intros P sch f idx ops HP. exact (em_run_fuel_free P sch HP f idx ops). Qed.
Print Assumptions c03_err_out_of_fuel_unreachable.

(* ... and in the SINGLE-THREADED error-path reader model, of the tree as it is and of the repaired
   one, from EVERY state: so the "OutOfFuel = OutOfFuel" case of the equalities of Module ERR never
   occurs on either side *)
Theorem c03_err_st_out_of_fuel_unreachable :
  forall (fxe : bool) (f : efile) (idx : gzi_index) (ops : list op) (st : estate),
    Forall fuel_free (e_run fxe f idx st ops).
Proof. exact NV.Bgzf.ReaderErrFuelProofs.e_run_fuel_free. Qed.
Print Assumptions c03_err_st_out_of_fuel_unreachable.

(* the same for the op-level model (through the bridge) *)
Theorem c03_ops_out_of_fuel_unreachable :
  forall (P : nat) (sch : nat -> list act) (f : file) (idx : gzi_index) (ops : list mop),
    (0 < P)%nat -> Forall fuel_free (m_run P sch f idx (m_init f) ops).
Proof. exact ops_model_fuel_free. Qed.
Print Assumptions c03_ops_out_of_fuel_unreachable.

(* fuel is irrelevant: once a loop has ended without exhausting its fuel, more fuel changes nothing *)
Theorem c03_err_more_fuel_changes_nothing :
  forall P sch k m n acc,
    snd (em_read_all_loop P sch k m n acc) <> OutOfFuel ->
    em_read_all_loop P sch (S k) m n acc = em_read_all_loop P sch k m n acc.
Proof. exact all_loop_mono. Qed.
Print Assumptions c03_err_more_fuel_changes_nothing.

(* THE OPEN POINT RAISED BY C02 -- `position` is not advanced over a frame that fails to be read,
   parsed or inflated, so the virtual positions of all later blocks lag by the size of the failed
   frames.  BOTH readers do exactly that: after one read_block call the position is the position
   before plus the sizes of the GOOD frames taken ([gsum]), for every schedule of the wait
   (multithreaded) and for both parse modes and both [fxe] (single-threaded).  The property
   compares the two readers, and they lag equally (the equalities of Module ERR include the
   virtual position after every op), so MT = ST holds; whether the common lag is itself wanted is
   C02's question, not C03's. *)
Theorem c03_err_mt_position_counts_good_frames_only :
  forall P, (0 < P)%nat -> forall seg (s : epst), SchedProofs.wf eframe erdr s ->
    exists pre, eremaining s = pre ++ eremaining (epull_with P seg s) /\
      er_position (cs (epull_with P seg s)) = (er_position (cs s) + gsum pre)%N.
Proof. exact mt_pull_position_good_only. Qed.
Print Assumptions c03_err_mt_position_counts_good_frames_only.

Theorem c03_err_st_position_counts_good_frames_only :
  forall fxe m fs st st' r, e_loop fxe m fs st = (st', r) ->
    exists pre, fs = pre ++ e_rest st' /\ e_position st' = (e_position st + gsum pre)%N.
Proof. exact st_position_good_only. Qed.
Print Assumptions c03_err_st_position_counts_good_frames_only.

(* the lag, in both readers: good 33 bytes, CRC failure 35 bytes, good 31 bytes at offset 68 --
   one byte into the third block both report 33:1, not 68:1 *)
Example c03_err_position_lag_is_common :
  let f := [mkE (mkFrame 33 [10; 11]) SGood; mkE (mkFrame 35 [20; 21]) (SLate 2 [20; 21]);
            mkE (mkFrame 31 [40; 41; 42]) SGood; mkE (mkFrame 28 []) SGood]%N in
  let ops := [Read 2; Read 9; Read 1]%N in
  em_run 2 (fun _ => []) f [] (em_init f) (map MOp ops)
  = [ (OBytes (Ok [10; 11]), Ok (pack 33 0)); (OBytes (Err InvalidData), Ok (pack 33 0));
      (OBytes (Ok [40]), Ok (pack 33 1)) ]%N
  /\ e_run true f [] (e_init f) ops = em_run 2 (fun _ => []) f [] (em_init f) (map MOp ops).
Proof. vm_compute. split; reflexivity. Qed.

(* non-vacuity: the embedded example of Module OPS, run through the error model *)
Example c03_bridge_example :
  let f := [mkFrame 30 [1; 2; 3]; mkFrame 28 []; mkFrame 31 [4; 5; 6; 7]; mkFrame 28 []]%N in
  let sch := sch_of [[0; 0; 0; 1; 1; 1; 6; 4; 5; 2; 3]; []; [0; 1; 4]]%nat in
  let ops := [MOp (Read 2); MOp FillBuf; MOp (Consume 1); MOp (ReadExact 3); MOp (Seek (pack 30 0));
              MOp (ReadAll 10); GetMut; MOp (Seek (pack 117 0)); MOp FillBuf; Finish; MOp (Read 1)]%N in
  em_run 2 sch (goods f) [] (em_init (goods f)) ops = m_run 2 sch f [] (m_init f) ops
  /\ length (m_run 2 sch f [] (m_init f) ops) = 11%nat.
Proof. vm_compute. split; reflexivity. Qed.
End ONE.

(* ============================================================================================
   ONE WRITER MODEL (round 8; NV.Bgzf.MtWriterBridge): C03's MtWriter (abstract chunks, a sink that
   fails at ONE call index) and property C14's Sinks.Mt (byte frames, arbitrary fault scripts) are
   two images of one pipeline state under EVERY schedule, for chunks := the non-empty pieces
   write_frame hands to write_all and the script Full^j ++ [Fail e]; the staging arithmetic of the
   two models submits the same number of blocks.
   ============================================================================================ *)
Module ONEW.
Import NV.Sinks.Sink NV.Sinks.Mt NV.Bgzf.MtReaderBridge NV.Bgzf.MtWriterBridge NV.Bgzf.MtWriterBridgeProofs
       NV.Bgzf.MtStageBridgeProofs.

(* the two staging functions (C03: N, offsets, fuel n / MAX_BUF + 3; C14: nat, fuel n + 1) submit
   the same number of blocks for every op list *)
Theorem c03_writer_models_stage_alike :
  forall ops : list op, mt_nblocks (N.to_nat MAX_BUF) (map mop_of ops) = length (stage ops).
Proof. exact stage_count_agrees. Qed.
Print Assumptions c03_writer_models_stage_alike.

(* LOCK STEP: for every error kind e <> Interrupted, framing fr, fault position, pool size, op list
   and EVERY schedule, the state of C03's writer pipeline and the state of C14's are the images
   (forget the index / forget the block, embed the sink) of ONE pipeline state: same channel,
   tickets, pool and done sets, and the writer thread's sink and io::Result correspond *)
Theorem c03_writer_models_lockstep :
  forall (e : errk), N.eqb e e_interrupted = false ->
  forall (fr : blk -> list byte) (fa : option nat) (P : nat) (ops : list op) (sched : list act),
    w_run (list byte) (fun b => pieces (fr b)) fa P ops sched
      = map_st snd (fun k => k) (ix_run fr fa P (stage ops) sched) /\
    mt_state P (N.to_nat MAX_BUF) (map fr (stage ops)) (map mop_of ops) sched (mkSink [] (script_from e fa 0) 0)
      = map_st fst (emb_sink e fa) (ix_run fr fa P (stage ops) sched).
Proof. exact writer_models_one. Qed.
Print Assumptions c03_writer_models_lockstep.

(* hence what finish() (or the call that finds the writer thread dead) returns and the sink are the
   same in both models under the same schedule, and finish() can return in one iff in the other *)
Theorem c03_writer_models_same_result :
  forall (e : errk), N.eqb e e_interrupted = false ->
  forall (fr : blk -> list byte) (fa : option nat) (P : nat) (ops : list op) (sched : list act),
    let k := mt_writer (list byte) (fun b => pieces (fr b)) BGZF_EOF fa P ops sched in
    mt_result (mt_state P (N.to_nat MAX_BUF) (map fr (stage ops)) (map mop_of ops) sched
                        (mkSink [] (script_from e fa 0) 0))
      = (mt_res (emb_sink e fa k), mt_sink (emb_sink e fa k)) /\
    mt_final (mt_state P (N.to_nat MAX_BUF) (map fr (stage ops)) (map mop_of ops) sched
                       (mkSink [] (script_from e fa 0) 0))
      = w_final (list byte) (w_run (list byte) (fun b => pieces (fr b)) fa P ops sched).
Proof. exact writer_models_one_result. Qed.
Print Assumptions c03_writer_models_same_result.

(* C14's main theorem transported to C03's model (a C03 writer theorem as a corollary of C14's):
   whatever the schedule, once finish() can return, C03's multithreaded writer has the result and
   the sink of the sequential chain of write_all calls over the scripted sink *)
Theorem c03_writer_is_sequential_chain_via_c14 :
  forall (e : errk), N.eqb e e_interrupted = false ->
  forall (fr : blk -> list byte) (fa : option nat) (P : nat) (ops : list op) (sched : list act),
    w_final (list byte) (w_run (list byte) (fun b => pieces (fr b)) fa P ops sched) = true ->
    let k := mt_writer (list byte) (fun b => pieces (fr b)) BGZF_EOF fa P ops sched in
    (mt_res (emb_sink e fa k), mt_sink (emb_sink e fa k))
    = run_calls (mt_calls (N.to_nat MAX_BUF) (map fr (stage ops)) (map mop_of ops))
                (mkSink [] (script_from e fa 0) 0).
Proof. exact c03_writer_is_sequential_chain. Qed.
Print Assumptions c03_writer_is_sequential_chain_via_c14.

(* one write_frame of a block in the two models: 14 write_all calls on the scripted sink =
   fold of C03's sink over the non-empty pieces *)
Theorem c03_writer_frame_step_alike :
  forall (e : errk), N.eqb e e_interrupted = false ->
  forall (fa : option nat) (k : MtWriter.sink (list byte)) (f : list byte),
    mtc_step (emb_sink e fa k) f = emb_sink e fa (write_frame fa k (pieces f)).
Proof. exact frame_sim. Qed.
Print Assumptions c03_writer_frame_step_alike.

(* the strategy run by the correspondence kind wapi is one of the joint schedules the API theorems
   of Module API quantify over *)
Theorem c03_writer_api_case_is_a_schedule :
  forall P maxbuf frames plan ops script rs s',
    NV.Bgzf.MtWriterApi.c03_writer_api_case P maxbuf frames plan ops script = Some (rs, s') ->
    exists sched, let x := NV.Sinks.MtApp.mta_run P maxbuf frames ops sched (mkSink [] script 0) in
      NV.Sinks.MtApp.m_done x = true /\ rs = NV.Sinks.MtApp.m_rs x /\ s' = snd (mt_result (NV.Sinks.MtApp.m_pipe x)).
Proof. exact NV.Bgzf.MtWriterApi.c03_writer_api_case_is_a_run. Qed.
Print Assumptions c03_writer_api_case_is_a_schedule.

(* non-vacuity: two blocks, the sink fails at call 20 (inside the second frame), pool of 2 *)
Example c03_writer_bridge_example :
  let f1 := map N.of_nat (seq 1 40) in
  let f2 := map N.of_nat (seq 101 30) in
  c03_writer_bridge_case 2 [f1; f2] 3%N (Some 20) [WriteAll 10; Flush; WriteAll 20]
  = Some (13%N, 21, f1 ++ firstn 10 f2).
Proof. vm_compute. reflexivity. Qed.
End ONEW.
