(* C01 — BGZF write/read is the identity and every emitted file is well-formed BGZF.
   Property theorems only; each is closed by [exact] of a lemma of theories/Bgzf/*Proofs.v.
   Models: NV.Bgzf.Writer (io/writer.rs, deflate.rs::encode), NV.Bgzf.Frame (io/writer/frame.rs,
   io/reader/frame.rs), NV.Bgzf.Reader (io/reader.rs read_to_end), NV.Bgzf.Crc32.
   DEFLATE is external: [deflate] / [inflate] are universally quantified functions constrained by
   the three hypotheses below (validated on every block of every case by the harness). *)
From Coq Require Import List NArith.
From NV Require Import Base.LE Bgzf.Crc32 Bgzf.Crc32Proofs Bgzf.Frame Bgzf.FrameProofs
  Bgzf.Writer Bgzf.Reader Bgzf.ReaderProofs Bgzf.WriterProofs.
Import ListNotations.
Open Scope N_scope.

(* level 0 expands a staging buffer (<= 65495 bytes) by at most 15 bytes *)
Definition H_l0 (deflate : N -> list N -> list N) : Prop :=
  forall x, lenN x <= 65495 -> lenN (deflate 0 x) <= 65510.
(* inflating what deflate produced, into a buffer of the original length, gives the original *)
Definition H_rt (deflate : N -> list N -> list N) (inflate : list N -> N -> option (list N)) : Prop :=
  forall l x, lenN x <= 65536 -> inflate (deflate l x) (lenN x) = Some x.
(* the CDATA of the EOF marker (03 00) inflates to the empty string *)
Definition H_eof (inflate : list N -> N -> option (list N)) : Prop := inflate [3; 0] 0 = Some [].

(* ROUND TRIP.  For every DEFLATE implementation satisfying the hypotheses, every compression
   level, every script of write / write_all / flush / try_finish calls (each with its own buffer;
   try_finish may occur anywhere, the writer stays usable after it) and every way
   of disposing of the writer (finish | try_finish+into_inner | drop | try_finish then drop):
   read_to_end of a reader over the sink returns exactly the concatenation of the bytes the
   calls accepted, with result Ok. *)
Theorem c01_roundtrip :
  forall deflate lvl, H_l0 deflate ->
  forall inflate, H_rt deflate inflate -> H_eof inflate ->
  forall ops e,
    let o := run_script deflate lvl ops e in
    reader_read_to_end inflate (o_sink o) = (accepted ops (o_results o), Ok tt).
Proof. exact writer_reader_roundtrip. Qed.
Print Assumptions c01_roundtrip.

(* WELL-FORMED OUTPUT, scripts of write / write_all / flush.  The sink is the frames of a list of
   blocks followed by EXACTLY ONE 28-byte EOF marker, for every ending -- including try_finish
   followed by drop (fix be585e3).  The blocks are non-empty, at most 65495 bytes, and concatenate
   to the accepted bytes; each frame is 26 + |cdata| <= 65536 bytes long, its BSIZE field + 1 is
   its own length, its first 16 bytes are the gzip/BC constants, it parses (by the reader's
   parse_frame) to its cdata, CRC32 = crc32 block and ISIZE = |block|, and its cdata inflate to
   the block.  No call fails or panics and the ending returns Ok. *)
Theorem c01_wellformed :
  forall deflate lvl, H_l0 deflate ->
  forall inflate, H_rt deflate inflate ->
  forall ops e, no_try_finish ops ->
    let o := run_script deflate lvl ops e in
    exists blocks,
      o_sink o = frames_bytes (map (wframe deflate lvl) blocks) ++ eof_block /\
      Forall (frame_wf deflate lvl inflate) blocks /\
      concat blocks = accepted ops (o_results o) /\
      o_end o = Ok tt /\
      Forall (fun r => is_ok (fst r)) (o_results o) /\ length (o_results o) = length ops.
Proof. exact writer_wellformed_single. Qed.
Print Assumptions c01_wellformed.

(* WELL-FORMED OUTPUT, histories that also call try_finish in the middle (write, try_finish,
   write, drop ...).  The sink is a non-empty sequence of SEGMENTS, each the frames of a list of
   blocks followed by one EOF marker: frames.., EOF, frames.., EOF.  Only the first segment may
   have no block (try_finish on a fresh writer), so two markers are never adjacent and the file
   ends with exactly one; try_finish on a finished stream writes nothing.  All blocks are
   well-formed frames as above and concatenate to the accepted bytes. *)
Theorem c01_wellformed_segments :
  forall deflate lvl, H_l0 deflate ->
  forall inflate, H_rt deflate inflate ->
  forall ops e,
    let o := run_script deflate lvl ops e in
    exists segs,
      o_sink o = segs_bytes deflate lvl segs /\ segs <> [] /\ tail_nonempty segs /\
      Forall (Forall (frame_wf deflate lvl inflate)) segs /\
      concat (concat segs) = accepted ops (o_results o) /\
      o_end o = Ok tt /\
      Forall (fun r => is_ok (fst r)) (o_results o) /\ length (o_results o) = length ops /\
      (no_try_finish ops -> exists blocks, segs = [blocks]).
Proof. exact writer_wellformed_full. Qed.
Print Assumptions c01_wellformed_segments.

Theorem c01_segments_unfold :
  forall deflate lvl segs,
    segs_bytes deflate lvl segs =
      concat (map (fun seg => frames_bytes (map (wframe deflate lvl) seg) ++ eof_block) segs) /\
    (tail_nonempty segs <-> match segs with [] => True | _ :: t => Forall (fun s => s <> []) t end) /\
    (forall ops, no_try_finish ops <-> Forall (fun o => o <> OTryFinish) ops).
Proof. intros deflate lvl segs. repeat split; intros H; exact H. Qed.
Print Assumptions c01_segments_unfold.

(* frame_wf spelled out (so that the statement above can be read without the theories) *)
Theorem c01_frame_wf_unfold :
  forall deflate lvl inflate b,
    frame_wf deflate lvl inflate b <->
    (let c := enc deflate lvl b in
     let f := frame_bytes c (crc32 b) (lenN b) in
     b <> [] /\ lenN b <= 65495 /\ lenN f = 26 + lenN c /\ lenN f <= 65536 /\
     bsize_of f + 1 = lenN f /\
     firstn 16 f = [31; 139; 8; 4; 0; 0; 0; 0; 0; 255; 6; 0; 66; 67; 2; 0] /\
     parse_frame f = Ok (lenN f, c, crc32 b, lenN b) /\
     inflate c (lenN b) = Some b).
Proof. intros deflate lvl inflate b. reflexivity. Qed.
Print Assumptions c01_frame_wf_unfold.

(* Write::write accepts exactly min(65495 - staged, |buf|) bytes and keeps the invariant *)
Theorem c01_write_amt :
  forall deflate lvl, H_l0 deflate ->
  forall st closed cur buf, inv deflate lvl st closed cur ->
    exists st' cur',
      let amt := N.min (65495 - lenN (w_staging st)) (lenN buf) in
      write deflate lvl st buf = (st', Ok amt) /\ inv deflate lvl st' closed cur' /\
      content st' closed cur' = content st closed cur ++ firstn (N.to_nat amt) buf.
Proof. exact write_inv. Qed.
Print Assumptions c01_write_amt.

(* deflate.rs::encode never reaches unreachable!() for a staging buffer *)
Theorem c01_no_unreachable :
  forall deflate lvl, H_l0 deflate ->
  forall x, lenN x <= 65495 -> encode deflate lvl x = Ok (enc deflate lvl x, crc32 x).
Proof. exact encode_ok. Qed.
Print Assumptions c01_no_unreachable.

(* EOF marker: 28 bytes, the frame of the empty block with CDATA 03 00, accepted by the reader's
   frame parser, and read as the empty stream *)
Theorem c01_eof :
  length eof_block = 28%nat /\
  eof_block = frame_bytes [3; 0] (crc32 []) (lenN (@nil N)) /\
  parse_frame eof_block = Ok (28, [3; 0], 0, 0) /\
  bsize_of eof_block + 1 = 28 /\
  forall inflate, H_eof inflate -> reader_read_to_end inflate eof_block = ([], Ok tt).
Proof.
  split; [exact eof_block_length|]. split; [exact eof_block_is_frame|].
  split; [exact parse_frame_eof|]. split; [reflexivity|]. exact read_eof_block.
Qed.
Print Assumptions c01_eof.

(* BSIZE arithmetic for every cdata length: write_frame succeeds iff |cdata| <= 65510, and then
   the BSIZE field (bytes 16,17, little endian) + 1 equals the frame length 26 + |cdata|; a longer
   cdata leaves the 16 fixed header bytes in the sink and fails with InvalidInput *)
Theorem c01_bsize :
  forall c crc isz,
    (lenN c <= 65510 -> isz <= 4294967295 ->
       write_frame c crc isz = (frame_bytes c crc isz, Ok (26 + lenN c)) /\
       bsize_of (frame_bytes c crc isz) + 1 = lenN (frame_bytes c crc isz) /\
       lenN (frame_bytes c crc isz) = 26 + lenN c) /\
    (65510 < lenN c -> write_frame c crc isz = (header_prefix, Err InvalidInput)).
Proof.
  intros c crc isz. split.
  - intros Hc Hi. split; [exact (write_frame_ok c crc isz Hc Hi)|].
    split; [exact (bsize_of_frame c crc isz Hc)|exact (frame_bytes_lenN c crc isz)].
  - exact (write_frame_too_large c crc isz).
Qed.
Print Assumptions c01_bsize.

(* the reader on any concatenation of well-formed frames returns the concatenation of the blocks *)
Theorem c01_reader_frames :
  forall inflate fs, Forall (good_frame inflate) fs ->
    reader_read_to_end inflate (frames_bytes fs) = (concat (map fst fs), Ok tt).
Proof. exact reader_read_to_end_frames. Qed.
Print Assumptions c01_reader_frames.

Theorem c01_crc32_bound : forall l, crc32 l < 4294967296.
Proof. exact crc32_bound. Qed.
Print Assumptions c01_crc32_bound.

(* ---- non-vacuity: the three hypotheses are jointly satisfiable, and a concrete script ---- *)
Definition toy_deflate (_ : N) (x : list N) : list N := 1 :: x.
Definition toy_inflate (c : list N) (n : N) : option (list N) :=
  match c with
  | 1 :: d => if lenN d =? n then Some d else None
  | [3; 0] => if n =? 0 then Some [] else None
  | _ => None
  end.

Example c01_hypotheses_satisfiable :
  H_l0 toy_deflate /\ H_rt toy_deflate toy_inflate /\ H_eof toy_inflate.
Proof.
  split; [|split].
  - intros x Hx. unfold toy_deflate. rewrite lenN_cons. apply N.le_trans with (1 + 65495).
    + apply N.add_le_mono_l. exact Hx.
    + discriminate.
  - intros l x _. unfold toy_deflate, toy_inflate. rewrite N.eqb_refl. reflexivity.
  - reflexivity.
Qed.

Example c01_example :
  let o := run_script toy_deflate 6
             [OWrite [110; 111]; OFlush; OFlush; OWriteAll [111; 100; 108; 101; 115]] ETryFinishDrop in
  o_results o = [(Ok (Some 2), Ok 2); (Ok None, Ok 1900544); (Ok None, Ok 1900544); (Ok None, Ok 1900549)] /\
  o_end o = Ok tt /\ o_pos o = Some 89 /\ lenN (o_sink o) = 89 /\
  reader_read_to_end toy_inflate (o_sink o) = ([110; 111; 111; 100; 108; 101; 115], Ok tt).
Proof. vm_compute. repeat split; reflexivity. Qed.

(* write, try_finish, try_finish, write, drop: frames, EOF, frames, EOF (29 + 28 + 29 + 28 bytes) *)
Example c01_example_reopened :
  let o := run_script toy_deflate 6 [OWriteAll [1; 2]; OTryFinish; OTryFinish; OWrite [3; 4]] EDrop in
  o_sink o = frame_bytes [1; 1; 2] (crc32 [1; 2]) 2 ++ eof_block
             ++ frame_bytes [1; 3; 4] (crc32 [3; 4]) 2 ++ eof_block /\
  lenN (o_sink o) = 114 /\
  reader_read_to_end toy_inflate (o_sink o) = ([1; 2; 3; 4], Ok tt).
Proof. vm_compute. repeat split; reflexivity. Qed.
