(* C01 placeholder: replaced below once the proofs exist *)
From Coq Require Import List NArith.
From NV Require Import Base.LE Bgzf.Crc32 Bgzf.Frame Bgzf.Writer Bgzf.Reader.
Import ListNotations.
Open Scope N_scope.

Theorem c01_eof_crc : crc32 [] = 0.
Proof. vm_compute. reflexivity. Qed.
Print Assumptions c01_eof_crc.
