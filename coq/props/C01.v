(* C01 — BGZF write/read is the identity and every emitted file is well-formed BGZF.
   Property theorems only; each is closed by [exact] of a lemma of theories/Bgzf/*Proofs.v.
   Models: NV.Bgzf.Writer (io/writer.rs, deflate.rs::encode), NV.Bgzf.Frame (io/writer/frame.rs,
   io/reader/frame.rs), NV.Bgzf.Reader (io/reader.rs read_to_end), NV.Bgzf.Crc32.
   DEFLATE: the general theorems quantify over functions [deflate] / [inflate] constrained by the
   three hypotheses below.  NV.Bgzf.Inflate gives an executable RFC 1951 inflater [inflate] (stored,
   fixed and dynamic blocks; compared with zlib-rs through the real reader on every frame of every
   case) and a concrete level-0 compressor [deflate_stored]; for that codec the three hypotheses
   are THEOREMS (c01_codec_premises) and the *_level0_unconditional theorems have no premise. *)
From Coq Require Import List NArith.
From NV Require Import Base.LE Bgzf.Crc32 Bgzf.Crc32Proofs Bgzf.Frame Bgzf.FrameProofs
  Bgzf.Writer Bgzf.Reader Bgzf.ReaderProofs Bgzf.WriterProofs
  Bgzf.Inflate Bgzf.InflateProofs Bgzf.InflateFuel Bgzf.InflateHuffman Bgzf.InflateFixed Bgzf.InflateTokens Bgzf.InflateBody Bgzf.InflateDynamic Bgzf.Level0Proofs
  Bgzf.InflateSpec Bgzf.InflateStream Bgzf.InflateSound Bgzf.InflateReader Bgzf.InflateEnc Bgzf.ReaderCalls Bgzf.ReaderCallsProofs.
Import ListNotations.
Open Scope N_scope.

(* level 0 expands a staging buffer (<= 65495 bytes) by at most 15 bytes *)
Definition H_l0 (deflate : N -> list N -> list N) : Prop :=
  forall x, lenN x <= 65495 -> lenN (deflate 0 x) <= 65510.
(* inflating what deflate produced, into a buffer of the original length, gives the original *)
Definition H_rt (deflate : N -> list N -> list N) (inflate : list N -> N -> option (list N)) : Prop :=
  forall l x, lenN x <= 65536 -> inflate (deflate l x) (lenN x) = Some x.
(* the CDATA of the EOF marker (03 00) inflates to the empty string *)
Definition H_eof (inflate : list N -> N -> option (list N)) : Prop := inflate [3; 0] 0 = Some [].

(* ROUND TRIP.  For every DEFLATE implementation satisfying the hypotheses, every compression
   level, every script of write / write_all / flush / try_finish calls (each with its own buffer;
   try_finish may occur anywhere, the writer stays usable after it) and every way
   of disposing of the writer (finish | try_finish+into_inner | drop | try_finish then drop):
   read_to_end of a reader over the sink returns exactly the concatenation of the bytes the
   calls accepted, with result Ok. *)
Theorem c01_roundtrip :
  forall deflate lvl, H_l0 deflate ->
  forall inflate, H_rt deflate inflate -> H_eof inflate ->
  forall ops e,
    let o := run_script deflate lvl ops e in
    reader_read_to_end inflate (o_sink o) = (accepted ops (o_results o), Ok tt).
Proof. exact writer_reader_roundtrip. Qed.
Print Assumptions c01_roundtrip.

(* WELL-FORMED OUTPUT, scripts of write / write_all / flush.  The sink is the frames of a list of
   blocks followed by EXACTLY ONE 28-byte EOF marker, for every ending -- including try_finish
   followed by drop (fix be585e3).  The blocks are non-empty, at most 65495 bytes, and concatenate
   to the accepted bytes; each frame is 26 + |cdata| <= 65536 bytes long, its BSIZE field + 1 is
   its own length, its first 16 bytes are the gzip/BC constants, it parses (by the reader's
   parse_frame) to its cdata, CRC32 = crc32 block and ISIZE = |block|, and its cdata inflate to
   the block.  No call fails or panics and the ending returns Ok. *)
Theorem c01_wellformed :
  forall deflate lvl, H_l0 deflate ->
  forall inflate, H_rt deflate inflate ->
  forall ops e, no_try_finish ops ->
    let o := run_script deflate lvl ops e in
    exists blocks,
      o_sink o = frames_bytes (map (wframe deflate lvl) blocks) ++ eof_block /\
      Forall (frame_wf deflate lvl inflate) blocks /\
      concat blocks = accepted ops (o_results o) /\
      o_end o = Ok tt /\
      Forall (fun r => is_ok (fst r)) (o_results o) /\ length (o_results o) = length ops.
Proof. exact writer_wellformed_single. Qed.
Print Assumptions c01_wellformed.

(* WELL-FORMED OUTPUT, histories that also call try_finish in the middle (write, try_finish,
   write, drop ...).  The sink is a non-empty sequence of SEGMENTS, each the frames of a list of
   blocks followed by one EOF marker: frames.., EOF, frames.., EOF.  Only the first segment may
   have no block (try_finish on a fresh writer), so two markers are never adjacent and the file
   ends with exactly one; try_finish on a finished stream writes nothing.  All blocks are
   well-formed frames as above and concatenate to the accepted bytes. *)
Theorem c01_wellformed_segments :
  forall deflate lvl, H_l0 deflate ->
  forall inflate, H_rt deflate inflate ->
  forall ops e,
    let o := run_script deflate lvl ops e in
    exists segs,
      o_sink o = segs_bytes deflate lvl segs /\ segs <> [] /\ tail_nonempty segs /\
      Forall (Forall (frame_wf deflate lvl inflate)) segs /\
      concat (concat segs) = accepted ops (o_results o) /\
      o_end o = Ok tt /\
      Forall (fun r => is_ok (fst r)) (o_results o) /\ length (o_results o) = length ops /\
      (no_try_finish ops -> exists blocks, segs = [blocks]).
Proof. exact writer_wellformed_full. Qed.
Print Assumptions c01_wellformed_segments.

Theorem c01_segments_unfold :
  forall deflate lvl segs,
    segs_bytes deflate lvl segs =
      concat (map (fun seg => frames_bytes (map (wframe deflate lvl) seg) ++ eof_block) segs) /\
    (tail_nonempty segs <-> match segs with [] => True | _ :: t => Forall (fun s => s <> []) t end) /\
    (forall ops, no_try_finish ops <-> Forall (fun o => o <> OTryFinish) ops).
Proof. intros deflate lvl segs. repeat split; intros H; exact H. Qed.
Print Assumptions c01_segments_unfold.

(* frame_wf spelled out (so that the statement above can be read without the theories) *)
Theorem c01_frame_wf_unfold :
  forall deflate lvl inflate b,
    frame_wf deflate lvl inflate b <->
    (let c := enc deflate lvl b in
     let f := frame_bytes c (crc32 b) (lenN b) in
     b <> [] /\ lenN b <= 65495 /\ lenN f = 26 + lenN c /\ lenN f <= 65536 /\
     bsize_of f + 1 = lenN f /\
     firstn 16 f = [31; 139; 8; 4; 0; 0; 0; 0; 0; 255; 6; 0; 66; 67; 2; 0] /\
     parse_frame f = Ok (lenN f, c, crc32 b, lenN b) /\
     inflate c (lenN b) = Some b).
Proof. intros deflate lvl inflate b. reflexivity. Qed.
Print Assumptions c01_frame_wf_unfold.

(* Write::write accepts exactly min(65495 - staged, |buf|) bytes and keeps the invariant *)
Theorem c01_write_amt :
  forall deflate lvl, H_l0 deflate ->
  forall st closed cur buf, inv deflate lvl st closed cur ->
    exists st' cur',
      let amt := N.min (65495 - lenN (w_staging st)) (lenN buf) in
      write deflate lvl st buf = (st', Ok amt) /\ inv deflate lvl st' closed cur' /\
      content st' closed cur' = content st closed cur ++ firstn (N.to_nat amt) buf.
Proof. exact write_inv. Qed.
Print Assumptions c01_write_amt.

(* deflate.rs::encode never reaches unreachable!() for a staging buffer *)
Theorem c01_no_unreachable :
  forall deflate lvl, H_l0 deflate ->
  forall x, lenN x <= 65495 -> encode deflate lvl x = Ok (enc deflate lvl x, crc32 x).
Proof. exact encode_ok. Qed.
Print Assumptions c01_no_unreachable.

(* EOF marker: 28 bytes, the frame of the empty block with CDATA 03 00, accepted by the reader's
   frame parser, and read as the empty stream *)
Theorem c01_eof :
  length eof_block = 28%nat /\
  eof_block = frame_bytes [3; 0] (crc32 []) (lenN (@nil N)) /\
  parse_frame eof_block = Ok (28, [3; 0], 0, 0) /\
  bsize_of eof_block + 1 = 28 /\
  forall inflate, H_eof inflate -> reader_read_to_end inflate eof_block = ([], Ok tt).
Proof.
  split; [exact eof_block_length|]. split; [exact eof_block_is_frame|].
  split; [exact parse_frame_eof|]. split; [reflexivity|]. exact read_eof_block.
Qed.
Print Assumptions c01_eof.

(* BSIZE arithmetic for every cdata length: write_frame succeeds iff |cdata| <= 65510, and then
   the BSIZE field (bytes 16,17, little endian) + 1 equals the frame length 26 + |cdata|; a longer
   cdata leaves the 16 fixed header bytes in the sink and fails with InvalidInput *)
Theorem c01_bsize :
  forall c crc isz,
    (lenN c <= 65510 -> isz <= 4294967295 ->
       write_frame c crc isz = (frame_bytes c crc isz, Ok (26 + lenN c)) /\
       bsize_of (frame_bytes c crc isz) + 1 = lenN (frame_bytes c crc isz) /\
       lenN (frame_bytes c crc isz) = 26 + lenN c) /\
    (65510 < lenN c -> write_frame c crc isz = (header_prefix, Err InvalidInput)).
Proof.
  intros c crc isz. split.
  - intros Hc Hi. split; [exact (write_frame_ok c crc isz Hc Hi)|].
    split; [exact (bsize_of_frame c crc isz Hc)|exact (frame_bytes_lenN c crc isz)].
  - exact (write_frame_too_large c crc isz).
Qed.
Print Assumptions c01_bsize.

(* the reader on any concatenation of well-formed frames returns the concatenation of the blocks *)
Theorem c01_reader_frames :
  forall inflate fs, Forall (good_frame inflate) fs ->
    reader_read_to_end inflate (frames_bytes fs) = (concat (map fst fs), Ok tt).
Proof. exact reader_read_to_end_frames. Qed.
Print Assumptions c01_reader_frames.

Theorem c01_crc32_bound : forall l, crc32 l < 4294967296.
Proof. exact crc32_bound. Qed.
Print Assumptions c01_crc32_bound.

(* ==== DEFLATE made concrete ==================================================================== *)

(* the executable inflater inverts the stored-block compressor, for EVERY byte string (any length:
   one stored block per 65535 bytes, BFINAL on the last) *)
Theorem c01_inflate_stored_correct : forall x, inflate (deflate_stored x) (lenN x) = Some x.
Proof. exact inflate_stored_correct. Qed.
Print Assumptions c01_inflate_stored_correct.

(* size of the level-0 stream: 5 bytes per stored block, max 1 (ceil (|x| / 65535)) blocks;
   the empty input gives the 5 bytes 01 00 00 ff ff; a staging buffer gives exactly |x| + 5 *)
Theorem c01_deflate_stored_size :
  (forall x, lenN (deflate_stored x) = lenN x + 5 * N.max 1 ((lenN x + 65534) / 65535)) /\
  deflate_stored [] = [1; 0; 0; 255; 255] /\
  (forall x, lenN x <= 65535 ->
     deflate_stored x = 1 :: le16 (lenN x) ++ le16 (65535 - lenN x) ++ x /\
     lenN (deflate_stored x) = lenN x + 5).
Proof.
  split; [exact deflate_stored_length|]. split; [exact deflate_stored_empty|].
  exact deflate_stored_single.
Qed.
Print Assumptions c01_deflate_stored_size.

(* the three DEFLATE premises hold for (deflate_l0 = deflate_stored at every level, inflate) *)
Theorem c01_codec_premises : H_l0 deflate_l0 /\ H_rt deflate_l0 inflate /\ H_eof inflate.
Proof.
  split; [exact l0_bound|]. split; [exact l0_roundtrip|exact inflate_eof_cdata].
Qed.
Print Assumptions c01_codec_premises.

(* ROUND TRIP, no premise: writer with the stored-block codec, reader with the executable inflater *)
Theorem c01_roundtrip_level0_unconditional :
  forall lvl ops e,
    let o := run_script deflate_l0 lvl ops e in
    reader_read_to_end inflate (o_sink o) = (accepted ops (o_results o), Ok tt).
Proof. exact roundtrip_level0. Qed.
Print Assumptions c01_roundtrip_level0_unconditional.

Theorem c01_wellformed_level0_unconditional :
  forall lvl ops e, no_try_finish ops ->
    let o := run_script deflate_l0 lvl ops e in
    exists blocks,
      o_sink o = frames_bytes (map (wframe deflate_l0 lvl) blocks) ++ eof_block /\
      Forall (frame_wf deflate_l0 lvl inflate) blocks /\
      concat blocks = accepted ops (o_results o) /\
      o_end o = Ok tt /\
      Forall (fun r => is_ok (fst r)) (o_results o) /\ length (o_results o) = length ops.
Proof. exact wellformed_level0. Qed.
Print Assumptions c01_wellformed_level0_unconditional.

Theorem c01_wellformed_segments_level0_unconditional :
  forall lvl ops e,
    let o := run_script deflate_l0 lvl ops e in
    exists segs,
      o_sink o = segs_bytes deflate_l0 lvl segs /\ segs <> [] /\ tail_nonempty segs /\
      Forall (Forall (frame_wf deflate_l0 lvl inflate)) segs /\
      concat (concat segs) = accepted ops (o_results o) /\
      o_end o = Ok tt /\
      Forall (fun r => is_ok (fst r)) (o_results o) /\ length (o_results o) = length ops /\
      (no_try_finish ops -> exists blocks, segs = [blocks]).
Proof. exact wellformed_segments_level0. Qed.
Print Assumptions c01_wellformed_segments_level0_unconditional.

Theorem c01_no_unreachable_level0_unconditional :
  forall lvl x, lenN x <= 65495 -> encode deflate_l0 lvl x = Ok (enc deflate_l0 lvl x, crc32 x).
Proof. exact no_unreachable_level0. Qed.
Print Assumptions c01_no_unreachable_level0_unconditional.

(* deflate.rs::encode never reaches unreachable!() for ANY first attempt at the requested level,
   as soon as level 0 of the codec is the stored-block compressor (zlib-rs: compared byte for byte
   on every level-0 block of every run) *)
Theorem c01_no_unreachable_stored_fallback :
  forall (deflate : N -> list N -> list N) lvl,
    (forall x, lenN x <= 65495 -> deflate 0 x = deflate_stored x) ->
    forall x, lenN x <= 65495 -> encode deflate lvl x = Ok (enc deflate lvl x, crc32 x).
Proof. exact no_unreachable_stored_fallback. Qed.
Print Assumptions c01_no_unreachable_stored_fallback.

(* every frame of the level-0 writer carries one final stored block: |cdata| = |block| + 5 *)
Theorem c01_level0_cdata :
  forall lvl b, lenN b <= 65495 ->
    enc deflate_l0 lvl b = stored_block true b /\ lenN (enc deflate_l0 lvl b) = lenN b + 5.
Proof. exact enc_level0. Qed.
Print Assumptions c01_level0_cdata.

(* the general round trip with the executable inflater: H_eof is no longer a premise *)
Theorem c01_roundtrip_concrete_inflate :
  forall deflate lvl, H_l0 deflate -> H_rt deflate inflate ->
  forall ops e,
    let o := run_script deflate lvl ops e in
    reader_read_to_end inflate (o_sink o) = (accepted ops (o_results o), Ok tt).
Proof.
  intros deflate lvl Hl0 Hrt.
  exact (writer_reader_roundtrip deflate lvl Hl0 inflate Hrt inflate_eof_cdata).
Qed.
Print Assumptions c01_roundtrip_concrete_inflate.

(* the same for any compressor whose level 0 is the stored-block compressor (what zlib-rs does,
   compared byte for byte on every run): the only premise left is that the executable inflater
   inverts the compressor (H_rt; for levels 1..9 of zlib-rs this is tested, not proved) *)
Theorem c01_roundtrip_stored_level0 :
  forall deflate lvl,
    (forall x, lenN x <= 65495 -> deflate 0 x = deflate_stored x) -> H_rt deflate inflate ->
  forall ops e,
    let o := run_script deflate lvl ops e in
    reader_read_to_end inflate (o_sink o) = (accepted ops (o_results o), Ok tt).
Proof.
  intros deflate lvl H0 Hrt.
  exact (writer_reader_roundtrip deflate lvl (l0_bound_of_stored deflate H0) inflate Hrt inflate_eof_cdata).
Qed.
Print Assumptions c01_roundtrip_stored_level0.

(* SAFETY of the inflater on arbitrary (hostile) CDATA: it is a total function, never produces
   more than the limit (the reader passes ISIZE <= 65536), and [inflate c n] -- decode into a
   buffer of n bytes -- returns exactly n bytes or fails *)
Theorem c01_inflate_bounded :
  (forall limit src out rest, inflate_raw limit src = Some (out, rest) -> lenN out <= limit) /\
  (forall c n d, inflate c n = Some d -> lenN d = n).
Proof. split; [exact inflate_raw_bounded|exact inflate_exact_length]. Qed.
Print Assumptions c01_inflate_bounded.

(* the limit only cuts: if the stream inflates to [out] under some limit L then under any limit n
   the inflater returns the same output when it fits and fails otherwise; hence the reader's
   decode-into-n-bytes succeeds exactly when the stream inflates to n bytes *)
Theorem c01_inflate_limit_independent :
  forall L c out rest, inflate_raw L c = Some (out, rest) ->
    (forall n, inflate_raw n c = if lenN out <=? n then Some (out, rest) else None) /\
    (forall n, inflate c n = if lenN out =? n then Some out else None).
Proof.
  intros L c out rest H. split; [exact (inflate_raw_relimit L c out rest H)|exact (inflate_spec L c out rest H)].
Qed.
Print Assumptions c01_inflate_limit_independent.

(* the fuel of the inflater is never the reason for a failure: every symbol consumes >= 1 input bit
   and every block >= 3, so ANY fuel above the number of input bits gives the result of inflate_raw
   (which supplies 8 |src| + 1); likewise the code-length reader never runs out of its fuel *)
Theorem c01_inflate_fuel_sufficient :
  (forall f cf limit src, (8 * length src < f)%nat -> (8 * length src < cf)%nat ->
     match blocks f cf limit ([], src) ob_empty with
     | None => None
     | Some (s, o) => Some (rev_append (ob_rev o) [], snd s)
     end = inflate_raw limit src) /\
  (forall f1 f2 cl need acc s, (need <= f1)%nat -> (need <= f2)%nat ->
     read_lens f1 cl need acc s = read_lens f2 cl need acc s).
Proof. split; [exact inflate_fuel_sufficient|exact read_lens_fuel]. Qed.
Print Assumptions c01_inflate_fuel_sufficient.

(* HUFFMAN CODES.  The tree built from a list of code lengths is the canonical code of RFC 1951
   3.2.2: its leaves, left to right, followed by the symbols that did not fit, are the symbols with
   a non-zero length in (length, symbol) order, each leaf at the depth of its length; nothing left
   over (= not over-subscribed) means all of them are leaves; a gap (incomplete code) is never
   followed by a leaf or by left-over symbols *)
Theorem c01_huffman_canonical :
  forall lens,
    leaves 0 (fst (mk_tree lens)) ++ snd (mk_tree lens) = sorted_syms lens /\
    (snd (mk_tree lens) = [] -> leaves 0 (fst (mk_tree lens)) = sorted_syms lens) /\
    (hcomplete (fst (mk_tree lens)) = false -> snd (mk_tree lens) = []).
Proof. exact mk_tree_canonical. Qed.
Print Assumptions c01_huffman_canonical.

(* DECODING.  bits_all s = the bits still to be read (LSB-first within each byte).  If they start
   with the path of a leaf, hdecode returns that symbol and consumes exactly those bits; whatever
   hdecode returns is the leaf at the end of the bits it consumed; a path determines its symbol
   (prefix code); every symbol with a non-zero length has a code of exactly that many bits which
   hdecode decodes; and the fixed trees carry the code table of RFC 1951 3.2.6 *)
Theorem c01_huffman_decode :
  (forall t p x, path_to t p x -> forall s rest, bits_all s = p ++ rest ->
     exists s', hdecode t s = Some (x, s') /\ bits_all s' = rest) /\
  (forall t s x s', hdecode t s = Some (x, s') ->
     exists p, path_to t p x /\ bits_all s = p ++ bits_all s') /\
  (forall t p x y, path_to t p x -> path_to t p y -> x = y) /\
  (forall lens len sym, snd (mk_tree lens) = [] -> In (len, sym) (sorted_syms lens) ->
     exists code, length code = len /\ path_to (fst (mk_tree lens)) code sym /\
       forall s rest, bits_all s = code ++ rest ->
         exists s', hdecode (fst (mk_tree lens)) s = Some (sym, s') /\ bits_all s' = rest) /\
  (find_path fixed_lt 0 = Some [false; false; true; true; false; false; false; false] /\
   find_path fixed_lt 143 = Some [true; false; true; true; true; true; true; true] /\
   find_path fixed_lt 144 = Some [true; true; false; false; true; false; false; false; false] /\
   find_path fixed_lt 255 = Some [true; true; true; true; true; true; true; true; true] /\
   find_path fixed_lt 256 = Some [false; false; false; false; false; false; false] /\
   find_path fixed_lt 279 = Some [false; false; true; false; true; true; true] /\
   find_path fixed_lt 280 = Some [true; true; false; false; false; false; false; false] /\
   find_path fixed_lt 287 = Some [true; true; false; false; false; true; true; true] /\
   find_path fixed_dt 0 = Some [false; false; false; false; false] /\
   find_path fixed_dt 29 = Some [true; true; true; false; true] /\
   find_path fixed_dt 30 = None) /\
  (forall t x p, find_path t x = Some p -> path_to t p x).
Proof.
  destruct hdecode_correct as [H1 [H2 H3]].
  split; [exact H1|]. split; [exact H2|]. split; [exact H3|]. split; [exact mk_tree_decodes|].
  split; [exact fixed_code_table|exact find_path_sound].
Qed.
Print Assumptions c01_huffman_decode.

(* a second compressor inverted by the inflater, this time through the Huffman path: one final
   fixed-Huffman block (BTYPE = 1) coding every byte as a literal with the 3.2.6 code, then
   end-of-block, packed LSB-first.  For EVERY byte string x (bytes < 256, any length) *)
Theorem c01_inflate_fixed_lit_correct :
  forall x, Forall (fun b => b < 256) x -> inflate (deflate_fixed_lit x) (lenN x) = Some x.
Proof. exact inflate_fixed_lit_correct. Qed.
Print Assumptions c01_inflate_fixed_lit_correct.

(* FIXED-HUFFMAN BLOCKS AGAINST A DECLARATIVE SPECIFICATION.  A block body is a sequence of LZ77
   tokens (TLit b | TMatch len dist); [expand] is its meaning on byte lists (a match copies byte by
   byte from dist bytes back, overlapping allowed); [deflate_fixed_tokens] is the encoding of RFC
   1951 3.2.5 / 3.2.6 (symbol = last table base <= value, extra bits LSB-first, fixed Huffman codes
   MSB-first, BFINAL = 1, BTYPE = 01, packed LSB-first).  For EVERY valid token sequence (literals
   < 256, lengths 3..258, distances 1..32768 not reaching before the start) the inflater decodes
   the encoding to the expansion *)
Theorem c01_inflate_fixed_tokens_correct :
  forall ts, tokens_ok ts [] ->
    inflate (deflate_fixed_tokens ts) (lenN (expand ts [])) = Some (expand ts []).
Proof. exact inflate_fixed_tokens_correct. Qed.
Print Assumptions c01_inflate_fixed_tokens_correct.

(* BLOCK BODIES UNDER ARBITRARY TREES.  For any literal/length tree lt (not a bare leaf) and distance
   tree dt in which every symbol the tokens use, and end-of-block, has a code: [codes] decodes the
   encoding of the tokens under those trees followed by the end-of-block code to the expansion,
   consuming exactly that encoding; and every symbol with a length 1..15 in a not over-subscribed
   description has a code in the tree built from it *)
Theorem c01_block_body_any_trees :
  (forall lt dt ts f limit s o rest,
     not_leaf lt -> has_code lt 256 -> Forall (token_coded lt dt) ts ->
     win_ok o -> tokens_ok ts (ob_list o) ->
     bits_all s = flat_map (enc_token_in lt dt) ts ++ code_in lt 256 ++ rest ->
     (bits_left s < f)%nat -> lenN (expand ts (ob_list o)) <= limit ->
     exists s' o', codes f limit lt dt s o = Some (s', o') /\
       win_ok o' /\ ob_list o' = expand ts (ob_list o) /\ bits_all s' = rest) /\
  (forall lens k, snd (mk_tree lens) = [] -> (k < length lens)%nat -> (1 <= nth k lens O <= 15)%nat ->
     has_code (fst (mk_tree lens)) (N.of_nat k)).
Proof. split; [exact codes_tokens_in|exact mk_tree_codes_all]. Qed.
Print Assumptions c01_block_body_any_trees.

(* DYNAMIC-HUFFMAN BLOCKS AGAINST A DECLARATIVE SPECIFICATION (RFC 1951 3.2.7).  A block is described
   by the 19 code lengths cll of the code-length alphabet, the code lengths ll (257..286) of the
   literal/length alphabet and dl (1..30) of the distance alphabet, and a token sequence;
   [deflate_dynamic] is its encoding (BFINAL = 1, BTYPE = 10, HLIT, HDIST, HCLEN = 15, the 19 lengths
   in the permuted order, ll ++ dl each coded by its own code-length symbol, the tokens under the
   canonical codes of ll / dl, end-of-block; packed LSB-first).  Whenever the descriptions pass the
   inflater's acceptance rules (dyn_ok: cll complete; ll, dl complete or a single 1-bit code; the
   end-of-block symbol has a code; every length value used has a code-length code) and every symbol
   the tokens use has a non-zero length, the inflater decodes the block to the expansion *)
Theorem c01_inflate_dynamic_correct :
  forall cll ll dl ts,
    dyn_ok cll ll dl ->
    Forall (token_coded (fst (mk_tree ll)) (fst (mk_tree dl))) ts ->
    tokens_ok ts [] ->
    inflate (deflate_dynamic cll ll dl ts) (lenN (expand ts [])) = Some (expand ts []).
Proof. exact inflate_dynamic_correct. Qed.
Print Assumptions c01_inflate_dynamic_correct.

(* the side conditions are decidable and satisfiable: a concrete dynamic block for "abbbb" *)
Theorem c01_dynamic_example :
  dyn_ok ex_cll ex_ll ex_dl /\
  Forall (token_coded (fst (mk_tree ex_ll)) (fst (mk_tree ex_dl))) ex_ts /\
  tokens_ok ex_ts [] /\
  expand ex_ts [] = [97; 98; 98; 98; 98] /\
  inflate (deflate_dynamic ex_cll ex_ll ex_dl ex_ts) 5 = Some [97; 98; 98; 98; 98].
Proof. exact dynamic_example. Qed.
Print Assumptions c01_dynamic_example.

(* the window trie of the inflater is an implementation detail: in every state reached from the
   empty buffer it holds exactly the output list; a literal appends one byte, a stored block its
   bytes, and a match (length n, distance 1 <= d <= |out|) appends the list-level LZ77 copy
   lz_copy (byte by byte, overlapping allowed: RFC 1951 3.2.3) *)
Theorem c01_inflate_window_faithful :
  win_ok ob_empty /\
  (forall b o, win_ok o -> win_ok (push b o) /\ ob_list (push b o) = ob_list o ++ [b]) /\
  (forall l o, win_ok o -> win_ok (push_list l o) /\ ob_list (push_list l o) = ob_list o ++ l) /\
  (forall n dist o, win_ok o -> 1 <= dist -> dist <= ob_len o ->
     win_ok (copy_match n (ob_len o - dist) o) /\
     ob_list (copy_match n (ob_len o - dist) o)
       = lz_copy n (length (ob_list o) - N.to_nat dist) (ob_list o)) /\
  (forall fuel cf limit s s' o', blocks fuel cf limit s ob_empty = Some (s', o') -> win_ok o').
Proof. exact window_faithful. Qed.
Print Assumptions c01_inflate_window_faithful.

(* a frame the reader model accepts inflates to exactly ISIZE <= 65536 bytes with the CRC of the
   trailer; a frame whose CDATA inflate (under whatever limit) to a different length than ISIZE
   is rejected with InvalidData; one whose CDATA inflate to ISIZE bytes is accepted iff the CRC
   matches *)
Theorem c01_reader_rejects_isize_mismatch :
  (forall frame bs cdata crc isize bs' d,
     parse_frame frame = Ok (bs, cdata, crc, isize) ->
     parse_block inflate frame = Ok (bs', d) ->
     lenN d = isize /\ lenN d <= 65536 /\ crc32 d = crc) /\
  (forall frame bs cdata crc isize L out rest,
     parse_frame frame = Ok (bs, cdata, crc, isize) ->
     inflate_raw L cdata = Some (out, rest) -> lenN out <> isize ->
     parse_block inflate frame = Err InvalidData) /\
  (forall frame bs cdata crc isize L out rest,
     parse_frame frame = Ok (bs, cdata, crc, isize) ->
     inflate_raw L cdata = Some (out, rest) -> lenN out = isize ->
     parse_block inflate frame = if crc32 out =? crc then Ok (bs, out) else Err InvalidData).
Proof.
  split; [exact parse_block_isize|]. split; [exact parse_block_rejects_length_mismatch|exact parse_block_accepts].
Qed.
Print Assumptions c01_reader_rejects_isize_mismatch.

(* ---- the DEFLATE stream syntax as a declarative specification (NV.Bgzf.InflateSpec):
   [deflate_denotes c out] = the bits of c begin with a sequence of stored / fixed / dynamic blocks
   (BFINAL on the last one only; dynamic headers with any HCLEN and the repeat codes 16 / 17 / 18;
   canonical codes; LZ77 tokens valid w.r.t. the output so far, also across blocks) that stands for
   out.  The specification does not mention the inflater. ---- *)

(* COMPLETENESS, multi-block streams and the full dynamic header: every byte string that is a
   DEFLATE stream for out is inflated to out (under any limit that out fits) -- whatever a
   conforming compressor, e.g. zlib-rs at levels 1..9, chose to emit *)
Theorem c01_inflate_complete :
  (forall c out limit, Forall is_byte c -> deflate_denotes c out -> lenN out <= limit ->
     exists rest, inflate_raw limit c = Some (out, rest)) /\
  (forall c out, Forall is_byte c -> deflate_denotes c out -> inflate c (lenN out) = Some out).
Proof. split; [exact inflate_raw_complete|exact inflate_complete]. Qed.
Print Assumptions c01_inflate_complete.

(* SOUNDNESS: whatever the inflater accepts is a well-formed DEFLATE stream denoting what it
   returns; together: the inflater decides the specification, and a stream denotes one string *)
Theorem c01_inflate_sound :
  (forall limit c out rest, Forall is_byte c -> inflate_raw limit c = Some (out, rest) -> deflate_denotes c out) /\
  (forall c n out, Forall is_byte c -> (inflate c n = Some out <-> deflate_denotes c out /\ lenN out = n)) /\
  (forall c out1 out2, Forall is_byte c -> deflate_denotes c out1 -> deflate_denotes c out2 -> out1 = out2).
Proof.
  split; [exact inflate_raw_sound|]. split; [exact inflate_iff_denotes|exact deflate_denotes_functional].
Qed.
Print Assumptions c01_inflate_sound.

(* READER ACCEPTANCE IMPLIES A WELL-FORMED MEMBER: a frame the reader model accepts has the gzip/BC
   header parse_frame checks, CDATA that are a well-formed DEFLATE stream denoting exactly the
   bytes returned, ISIZE = their number <= 65536 and CRC32 = their CRC-32; and conversely every such
   frame is accepted and yields those bytes *)
Theorem c01_reader_accepts_only_wellformed :
  (forall frame bs d, Forall is_byte frame -> parse_block inflate frame = Ok (bs, d) ->
     exists cdata crc isize,
       parse_frame frame = Ok (bs, cdata, crc, isize) /\
       deflate_denotes cdata d /\ lenN d = isize /\ isize <= 65536 /\ crc32 d = crc) /\
  (forall frame bs cdata crc isize d,
     Forall is_byte frame -> parse_frame frame = Ok (bs, cdata, crc, isize) ->
     deflate_denotes cdata d -> lenN d = isize -> crc32 d = crc ->
     parse_block inflate frame = Ok (bs, d)).
Proof. split; [exact reader_accepts_only_wellformed|exact reader_accepts_wellformed]. Qed.
Print Assumptions c01_reader_accepts_only_wellformed.

(* THE READER SIDE OF H_rt IS DISCHARGED: for every compressor that is conforming (its output is a
   byte string that is a DEFLATE stream denoting its input -- a statement about the compressor
   alone) the round-trip premise holds for the executable inflater, at every level; with level 0 =
   deflate_stored the whole round trip follows.  The reader never mis-decodes what any conforming
   compressor wrote. *)
Theorem c01_reader_decodes_conforming :
  forall deflate, conforming deflate -> H_rt deflate inflate.
Proof. exact conforming_roundtrip. Qed.
Print Assumptions c01_reader_decodes_conforming.

Theorem c01_roundtrip_conforming_compressor :
  forall deflate lvl,
    (forall x, lenN x <= 65495 -> deflate 0 x = deflate_stored x) -> conforming deflate ->
  forall ops e,
    let o := run_script deflate lvl ops e in
    reader_read_to_end inflate (o_sink o) = (accepted ops (o_results o), Ok tt).
Proof.
  intros deflate lvl H0 Hc.
  exact (writer_reader_roundtrip deflate lvl (l0_bound_of_stored deflate H0) inflate
           (conforming_roundtrip deflate Hc) inflate_eof_cdata).
Qed.
Print Assumptions c01_roundtrip_conforming_compressor.

(* THE ENCODER INTO THE SPECIFICATION.  [deflate_blocks] (the function the correspondence run, kind
   ms, compares byte for byte with an independent Rust encoder whose output the real reader decodes)
   maps every non-empty list of valid blocks -- stored chunks of <= 65535 bytes; fixed blocks of
   valid tokens; dynamic blocks with an acceptable header whose symbols have codes -- to a byte
   string that is a DEFLATE stream for the concatenated meaning of the blocks, and the inflater
   decodes it to that meaning *)
Theorem c01_encoder_in_spec :
  (forall bs off out, bs <> [] -> stream_valid off bs out ->
     stream_denotes off (enc_stream off bs) out (norm_stream off bs) (stream_out bs out)) /\
  (forall bs, bs <> [] -> stream_valid 0 bs [] ->
     deflate_denotes (deflate_blocks bs) (stream_out bs []) /\
     inflate (deflate_blocks bs) (lenN (stream_out bs [])) = Some (stream_out bs [])).
Proof. split; [exact enc_stream_denotes|exact inflate_deflate_blocks]. Qed.
Print Assumptions c01_encoder_in_spec.

(* ---- non-vacuity: the three hypotheses are jointly satisfiable, and a concrete script ---- *)
Definition toy_deflate (_ : N) (x : list N) : list N := 1 :: x.
Definition toy_inflate (c : list N) (n : N) : option (list N) :=
  match c with
  | 1 :: d => if lenN d =? n then Some d else None
  | [3; 0] => if n =? 0 then Some [] else None
  | _ => None
  end.

Example c01_hypotheses_satisfiable :
  H_l0 toy_deflate /\ H_rt toy_deflate toy_inflate /\ H_eof toy_inflate.
Proof.
  split; [|split].
  - intros x Hx. unfold toy_deflate. rewrite lenN_cons. apply N.le_trans with (1 + 65495).
    + apply N.add_le_mono_l. exact Hx.
    + discriminate.
  - intros l x _. unfold toy_deflate, toy_inflate. rewrite N.eqb_refl. reflexivity.
  - reflexivity.
Qed.

Example c01_example :
  let o := run_script toy_deflate 6
             [OWrite [110; 111]; OFlush; OFlush; OWriteAll [111; 100; 108; 101; 115]] ETryFinishDrop in
  o_results o = [(Ok (Some 2), Ok 2); (Ok None, Ok 1900544); (Ok None, Ok 1900544); (Ok None, Ok 1900549)] /\
  o_end o = Ok tt /\ o_pos o = Some 89 /\ lenN (o_sink o) = 89 /\
  reader_read_to_end toy_inflate (o_sink o) = ([110; 111; 111; 100; 108; 101; 115], Ok tt).
Proof. vm_compute. repeat split; reflexivity. Qed.

(* write, try_finish, try_finish, write, drop: frames, EOF, frames, EOF (29 + 28 + 29 + 28 bytes) *)
Example c01_example_reopened :
  let o := run_script toy_deflate 6 [OWriteAll [1; 2]; OTryFinish; OTryFinish; OWrite [3; 4]] EDrop in
  o_sink o = frame_bytes [1; 1; 2] (crc32 [1; 2]) 2 ++ eof_block
             ++ frame_bytes [1; 3; 4] (crc32 [3; 4]) 2 ++ eof_block /\
  lenN (o_sink o) = 114 /\
  reader_read_to_end toy_inflate (o_sink o) = ([1; 2; 3; 4], Ok tt).
Proof. vm_compute. repeat split; reflexivity. Qed.

(* the unconditional round trip on a concrete script, computed: a stored block per frame *)
Example c01_example_level0 :
  let o := run_script deflate_l0 0 [OWriteAll [110; 111]; OFlush; OWrite [111; 100]] EDrop in
  o_sink o = frame_bytes [1; 2; 0; 253; 255; 110; 111] (crc32 [110; 111]) 2
             ++ frame_bytes [1; 2; 0; 253; 255; 111; 100] (crc32 [111; 100]) 2 ++ eof_block /\
  reader_read_to_end inflate (o_sink o) = ([110; 111; 111; 100], Ok tt).
Proof. vm_compute. split; reflexivity. Qed.

(* the inflater on fixed-Huffman and dynamic-Huffman streams produced by zlib (raw deflate of
   "noodles" at level 6; of 40 x 'a' ++ 40 x 'b' ++ "noodles" with Z_FILTERED... ) *)
Example c01_inflate_fixed :
  inflate [203; 203; 207; 79; 201; 73; 45; 6; 0] 7 = Some [110; 111; 111; 100; 108; 101; 115].
Proof. vm_compute. reflexivity. Qed.

Example c01_inflate_dynamic :
  inflate [85; 142; 187; 10; 128; 48; 12; 69; 231; 155; 79; 233; 20; 133; 142; 25; 130; 160; 184; 247; 15; 84; 112; 16; 5; 253; 127; 208; 150; 244; 97; 58; 244; 114; 233; 57; 13; 205; 223; 140; 223; 200; 164; 33; 232; 160; 189; 247; 200; 29; 151; 164; 195; 20; 114; 94; 246; 187; 3; 227; 188; 174; 245; 216; 30; 33; 98; 136; 48; 28; 204; 64; 118; 139; 67; 122; 26; 89; 171; 126; 10; 19; 180; 185; 126; 232; 16; 79; 93; 164; 217; 46; 250; 18; 100; 29; 131; 12; 119; 40; 65; 42; 28; 25; 169; 222; 156; 94] 250
  = Some [10; 73; 73; 73; 73; 70; 70; 70; 70; 61; 71; 65; 84; 84; 65; 67; 65; 50; 53; 53; 9; 73; 73; 73; 73; 70; 70; 70; 70; 48; 9; 73; 73; 73; 73; 70; 70; 70; 70; 65; 67; 71; 84; 73; 73; 73; 73; 70; 70; 70; 70; 99; 104; 114; 49; 9; 48; 9; 110; 111; 111; 100; 108; 101; 115; 61; 10; 10; 48; 9; 61; 61; 48; 9; 42; 9; 71; 65; 84; 84; 65; 67; 65; 10; 71; 65; 84; 84; 65; 67; 65; 61; 42; 9; 99; 104; 114; 49; 9; 65; 67; 71; 84; 71; 65; 84; 84; 65; 67; 65; 73; 73; 73; 73; 70; 70; 70; 70; 99; 104; 114; 49; 9; 110; 111; 111; 100; 108; 101; 115; 99; 104; 114; 49; 9; 110; 111; 111; 100; 108; 101; 115; 48; 9; 73; 73; 73; 73; 70; 70; 70; 70; 42; 9; 42; 9; 42; 9; 73; 73; 73; 73; 70; 70; 70; 70; 48; 9; 71; 65; 84; 84; 65; 67; 65; 50; 53; 53; 9; 65; 67; 71; 84; 99; 104; 114; 49; 9; 71; 65; 84; 84; 65; 67; 65; 48; 9; 10; 110; 111; 111; 100; 108; 101; 115; 42; 9; 110; 111; 111; 100; 108; 101; 115; 42; 9; 61; 42; 9; 73; 73; 73; 73; 70; 70; 70; 70; 50; 53; 53; 9; 61; 73; 73; 73; 73; 70; 70; 70; 70; 42; 9; 73; 73; 73; 73; 70; 70; 70; 70].
Proof. vm_compute. reflexivity. Qed.

Example c01_fixed_lit_example :
  deflate_fixed_lit [110; 111; 111; 100; 108; 101; 115] = [203; 203; 207; 79; 201; 73; 45; 6; 0].
Proof. vm_compute. reflexivity. Qed.

(* a three-block stream (fixed, stored, dynamic with HCLEN = 12 and the repeat codes 16 and 18, a
   match reaching back into the first block) is a DEFLATE stream of the specification *)
Definition ex_ms_blocks : list block :=
  [BFixed [TLit 97]; BStored [] [98; 99];
   BDynamic (mk_dyn_hdr 258 4 [2; 0; 2; 0; 0; 0; 0; 0; 0; 0; 0; 3; 0; 2; 0; 3]%nat
               [CRep18 97; CLen 3; CRep16 6; CRep18 138; CRep18 14; CLen 4; CLen 4; CLen 2; CRep16 3])
            [TLit 97; TLit 98; TMatch 3 1; TMatch 3 2; TMatch 3 4; TLit 103; TMatch 3 3]].

Example c01_multiblock_example :
  stream_out ex_ms_blocks [] = [97; 98; 99; 97; 98; 98; 98; 98; 98; 98; 98; 98; 98; 98; 103; 98; 98; 103] /\
  inflate (deflate_blocks ex_ms_blocks) 18 = Some (stream_out ex_ms_blocks []) /\
  deflate_denotes (deflate_blocks ex_ms_blocks) (stream_out ex_ms_blocks []).
Proof.
  assert (H : inflate (deflate_blocks ex_ms_blocks) 18 = Some (stream_out ex_ms_blocks [])) by (vm_compute; reflexivity).
  split; [vm_compute; reflexivity|]. split; [exact H|].
  exact (proj1 (inflate_sound _ _ _ (pack_bits_bytes _ _) H)).
Qed.

(* The direct path of Read::read (a >= 65536-byte buffer offered when the block is exhausted is
   inflated into directly: read_block_into_buf / parse_block_into_buf) is unobservable.  For EVERY
   source byte string (damaged frames, empty members, truncation included) and EVERY sequence of
   buffer lengths, the reader as written (fp = true) returns call by call the same bytes / error
   kinds and ends in the same state (inner stream, position, block position / size, data len / pos,
   readable window) as the reader without that branch (fill_buf + copy + consume), also across
   errors (block_invalidate).  Concrete inflater, no premise. *)
Theorem c01_reader_direct_path_unobservable : forall src ns,
  run_reads inflate true (rinit src) ns = run_reads inflate false (rinit src) ns.
Proof. exact (reader_direct_path_unobservable inflate inflate_exact_length). Qed.
Print Assumptions c01_reader_direct_path_unobservable.

