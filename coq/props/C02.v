(* C02 — BGZF virtual positions name bytes: tell / seek / gzi are mutually consistent.
   Property theorems only. *)
From Coq Require Import List NArith.
From NV Require Import Bgzf.Vpos Bgzf.VposProofs.
Import ListNotations.
Open Scope N_scope.

Theorem vpos_pack_unpack : forall c u, u < 65536 -> unpack (pack c u) = (c, u).
Proof. exact pack_unpack. Qed.
Print Assumptions vpos_pack_unpack.

Theorem vpos_order : forall c1 u1 c2 u2, u1 < 65536 -> u2 < 65536 ->
  (pack c1 u1 < pack c2 u2 <-> lex_lt (c1, u1) (c2, u2)).
Proof. exact pack_order. Qed.
Print Assumptions vpos_order.
