(* C02 — BGZF virtual positions name bytes: tell / seek / gzi are mutually consistent.
   Property theorems only; each is closed by [exact] of a lemma proved in theories/Bgzf and is
   followed by Print Assumptions.

   Models: NV.Bgzf.Vpos (virtual_position.rs), NV.Bgzf.Gzi (gzi/index.rs), NV.Bgzf.ReaderOps
   (io/reader.rs + io/block.rs + io/block/data.rs over an already parsed file = list of frames
   {csize; fdata}), NV.Bgzf.FlatRef (the flat-array reference: offset + window over
   D = concat of the frames' data, and [denote] : virtual position -> flat offset).

   ReaderOps takes a switch fx: fx = true is the reader of the current tree (after the fix:
   commits b3c56a0, f83424c, 17d0b85), fx = false the reader as originally pinned.  The original
   reader violated the property on two input classes (seek-eof-stale-block,
   direct-read-at-eof-stale-len), reproduced on the real crate by this check before the repair;
   the fx = false model reproduces them ([c02_old_seek_eof_refuted], [c02_old_direct_read_refuted],
   [c02_old_full_statement_refuted]).  For the current reader the statement holds with no
   exclusion ([c02_reader_refines_flat]); [c02_reader_refines_flat_either] is the common proof,
   for both readers, with the two classes excluded through [ops_ok] when fx = false. *)
From Coq Require Import List NArith Bool.
From NV Require Import Bgzf.Vpos Bgzf.VposProofs Bgzf.Gzi Bgzf.ReaderOps Bgzf.FlatRef Bgzf.ReaderOpsProofs
  Bgzf.ReaderTellProofs Bgzf.WriterTell Bgzf.GziBs Bgzf.GziBsProofs Bgzf.SeekBytes.
From NV Require Bgzf.Frame Bgzf.Writer Bgzf.WriterTellProofs Bgzf.WriterTellRows Bgzf.Reader Bgzf.Inflate
  Bgzf.SeekBytesProofs Bgzf.SeekBytesBoundary Sinks.Sink Bgzf.WriterTellSink Bgzf.WriterTellSinkProofs Bgzf.SeekBytesHistProofs Bgzf.SeekBytesShift Bgzf.SeekBytesReloc Bgzf.SeekBytesShiftOps.
Import ListNotations.
Open Scope N_scope.

Theorem vpos_pack_unpack : forall c u, u < 65536 -> unpack (pack c u) = (c, u).
Proof. exact pack_unpack. Qed.
Print Assumptions vpos_pack_unpack.

(* numeric comparison of virtual positions is positional (lexicographic) comparison *)
Theorem vpos_order : forall c1 u1 c2 u2, u1 < 65536 -> u2 < 65536 ->
  (pack c1 u1 < pack c2 u2 <-> lex_lt (c1, u1) (c2, u2)).
Proof. exact pack_order. Qed.
Print Assumptions vpos_order.

(* For EVERY well-formed frame list f (any number of frames, empty frames anywhere, with or
   without trailing empty frame, every frame 1 <= csize, data <= 65536 bytes, file shorter than
   2^48) and EVERY history of reader calls {read n, read_exact n, std read_exact n, fill_buf,
   consume n, seek v, seek by uncompressed offset, read-to-end with an n-byte buffer} whose seeks
   name byte boundaries: the flat reference accepts the history, every call returns what the flat
   reference returns (for read-to-end the reference IS the closed form: all of D from the current
   offset on), and after every call virtual_position() is Ok v with denote f v = the flat offset. *)
Theorem c02_reader_refines_flat : forall f ops,
  wf f -> total_csize f <= MAX_COMPRESSED_POSITION -> ops_valid f ops ->
  exists fl, frun f (mkF 0 0) ops = Some fl /\
             Forall2 (agrees f) (run true f (gzi_of f) (init f) ops) fl.
Proof. exact reader_refines_flat_repaired. Qed.
Print Assumptions c02_reader_refines_flat.

(* both readers, the pinned one outside its two known classes *)
Theorem c02_reader_refines_flat_either : forall fx f ops,
  wf f -> total_csize f <= MAX_COMPRESSED_POSITION ->
  ops_ok fx f (gzi_of f) (init f) ops ->
  exists fl, frun f (mkF 0 0) ops = Some fl /\
             Forall2 (agrees f) (run fx f (gzi_of f) (init f) ops) fl.
Proof. exact reader_refines_flat. Qed.
Print Assumptions c02_reader_refines_flat_either.

(* the reader before the repair: the two classes, and the refutation of the full statement *)
Theorem c02_old_seek_eof_refuted :
  run false wit_file (gzi_of wit_file) (init wit_file) [Read 5; Seek (pack 61 0); Read 5]
  = [ (OBytes (Ok [104; 101; 108; 108; 111]), Ok (pack 33 0));
      (OPos (Ok (pack 61 0)), Ok (pack 0 0));
      (OBytes (Ok [104; 101; 108; 108; 111]), Ok (pack 33 0)) ].
Proof. exact seek_eof_stale_witness. Qed.
Print Assumptions c02_old_seek_eof_refuted.

Theorem c02_old_direct_read_refuted :
  run false wit_noeof (gzi_of wit_noeof) (init wit_noeof) [Read 65536; Read 65536]
  = [ (OBytes (Ok [104; 101; 108; 108; 111]), Ok (pack 33 0));
      (OBytes (Ok [170; 170; 170; 170; 170]), Ok (pack 33 0)) ].
Proof. exact direct_read_stale_witness. Qed.
Print Assumptions c02_old_direct_read_refuted.

Theorem c02_old_full_statement_refuted : ~ old_full_statement.
Proof. exact old_full_statement_refuted. Qed.
Print Assumptions c02_old_full_statement_refuted.

(* seeking by uncompressed offset through the file's gzi index lands on the same byte; the
   u16 conversion cannot fail unless the offset is the end of the data and the last frame is a
   full 65536-byte one *)
Theorem c02_gzi : forall f p, wf f -> total_csize f <= MAX_COMPRESSED_POSITION ->
  p <= total_dlen f /\ (p = total_dlen f -> forall q b, f = q ++ [b] -> flen b < 65536) ->
  exists v, gzi_query (gzi_of f) p = Ok v /\ denote f v = Some p.
Proof. exact gzi_lands. Qed.
Print Assumptions c02_gzi.

(* Positions told during sequential reading never decrease AS NUMBERS (u64 order = Ord on
   VirtualPosition by vpos_order): for any valid history (seeks allowed) followed by one call
   that is not a seek, the position reported before that call is <= the one reported after it. *)
Theorem c02_tell_monotone : forall f ops o st v1 v2,
  wf f -> total_csize f <= MAX_COMPRESSED_POSITION -> ops_valid f (ops ++ [o]) -> is_seek o = false ->
  st = run_state true f (gzi_of f) (init f) ops ->
  virtual_position st = Ok v1 ->
  virtual_position (fst (step true f (gzi_of f) st o)) = Ok v2 -> v1 <= v2.
Proof. exact tell_monotone. Qed.
Print Assumptions c02_tell_monotone.

(* ... and both positions are defined (virtual_position() does not panic) *)
Theorem c02_tell_monotone_defined : forall f ops o,
  wf f -> total_csize f <= MAX_COMPRESSED_POSITION -> ops_valid f (ops ++ [o]) -> is_seek o = false ->
  let st := run_state true f (gzi_of f) (init f) ops in
  exists v1 v2, virtual_position st = Ok v1 /\
                virtual_position (fst (step true f (gzi_of f) st o)) = Ok v2 /\ v1 <= v2.
Proof. exact tell_monotone_defined. Qed.
Print Assumptions c02_tell_monotone_defined.

(* the same along a whole history without seeks: the list of reported positions is a
   nondecreasing list of numbers *)
Theorem c02_tell_monotone_run : forall f ops,
  wf f -> total_csize f <= MAX_COMPRESSED_POSITION -> ops_valid f ops ->
  forallb (fun o => negb (is_seek o)) ops = true ->
  exists vs, map snd (run true f (gzi_of f) (init f) ops) = map Ok vs /\ nondecr 0 vs.
Proof. exact tell_monotone_run. Qed.
Print Assumptions c02_tell_monotone_run.

(* the flat offsets the told positions denote never go backwards either *)
Theorem c02_tell_offsets_monotone : forall f ops,
  wf f -> total_csize f <= MAX_COMPRESSED_POSITION -> ops_valid f ops ->
  forallb (fun o => negb (is_seek o)) ops = true ->
  exists fl, Forall2 (agrees f) (run true f (gzi_of f) (init f) ops) fl /\ nondecr 0 (map snd fl).
Proof. exact tell_monotone_flat. Qed.
Print Assumptions c02_tell_offsets_monotone.

(* After ANY valid history, seek v with denote f v = Some i succeeds, and reading to the end with
   any non-empty buffer (read until a call returns 0 bytes) returns exactly D from byte i on; the
   position then told denotes the end of the data. *)
Theorem c02_seek_then_read_to_end : forall f ops v i n,
  wf f -> total_csize f <= MAX_COMPRESSED_POSITION -> ops_valid f ops ->
  denote f v = Some i -> 0 < n ->
  let st := run_state true f (gzi_of f) (init f) ops in
  let st1 := fst (seek true f st v) in
  snd (seek true f st v) = Ok v /\
  snd (read_all true st1 n) = Ok (skipn (N.to_nat i) (concat (chunks f))) /\
  exists ve, virtual_position (fst (read_all true st1 n)) = Ok ve /\
             denote f ve = Some (total_dlen f).
Proof. exact seek_then_read_to_end. Qed.
Print Assumptions c02_seek_then_read_to_end.

(* IndexedReader: io::Seek::seek(SeekFrom::Start(p)) is the gzi query followed by Reader::seek, and
   its read_exact is std's default loop.  After ANY valid history, for every offset p the file's
   index can express: the seek returns p, the position then told denotes p, and read_exact(n)
   returns exactly D[p .. p+n) when that many bytes exist and UnexpectedEof otherwise. *)
Theorem c02_indexed_reader_seek : forall f ops p n,
  wf f -> total_csize f <= MAX_COMPRESSED_POSITION -> ops_valid f ops -> seeku_ok f p ->
  let st := run_state true f (gzi_of f) (init f) ops in
  let st1 := fst (seek_by_uncompressed_position true f (gzi_of f) st p) in
  snd (seek_by_uncompressed_position true f (gzi_of f) st p) = Ok p /\
  (exists v, virtual_position st1 = Ok v /\ denote f v = Some p) /\
  snd (read_exact_std true st1 n)
  = if p + n <=? total_dlen f then Ok (slice (concat (chunks f)) p n) else Err UnexpectedEof.
Proof. exact indexed_reader_seek. Qed.
Print Assumptions c02_indexed_reader_seek.

(* WRITER SIDE.  The writer is C01's model NV.Bgzf.Writer (write / write_all / flush / try_finish
   over a sink that accepts every byte; DEFLATE is a parameter, the only premise being that
   level 0 expands a staging buffer by at most 15 bytes, as in C01).  Split ANY script at ANY
   point into ops1 ++ ops2: the position told after ops1 (= just before the byte with flat index
   |accepted ops1| is written) names that byte in the finished file: F is the frame table of the
   final sink (BSIZE+1 and ISIZE per frame, ending = finish() or flush()+into_inner()); a fresh
   reader model sought there succeeds and reads to the end exactly D from that byte on.  No call
   of the script panics or fails. *)
Theorem c02_writer_tell : forall (deflate : N -> list N -> list N) (lvl : N),
  (forall x, Frame.lenN x <= Writer.MAX_BUF_SIZE ->
             Frame.lenN (deflate 0 x) <= Writer.MAX_COMPRESSED_SIZE) ->
  forall ops1 ops2 fin n st1 obs1 p1 st2 obs2 p2,
  Writer.run_ops deflate lvl Writer.w_init ops1 = (st1, obs1, p1) ->
  Writer.run_ops deflate lvl st1 ops2 = (st2, obs2, p2) ->
  let stf := wt_finish deflate lvl fin st2 in
  let D := Writer.accepted ops1 obs1 ++ Writer.accepted ops2 obs2 in
  let F := sink_file (S (length (Writer.w_sink stf))) (Writer.w_sink stf) D in
  Frame.lenN (Writer.w_sink stf) <= Writer.MAX_COMPRESSED_POSITION -> 0 < n ->
  p1 = false /\ p2 = false /\
  exists v, Writer.virtual_position st1 = Frame.Ok v /\
    snd (seek true F (init F) v) = Ok v /\
    snd (read_all true (fst (seek true F (init F) v)) n)
      = Ok (skipn (length (Writer.accepted ops1 obs1)) D).
Proof. exact WriterTellProofs.writer_tell. Qed.
Print Assumptions c02_writer_tell.

(* non-vacuity: with the identity as DEFLATE (it satisfies the premise) a script, its told
   positions, and what a fresh reader reads to the end from each *)
Example c02_example_writer_tell :
  wtell_run (fun _ x => x) 6 [Writer.OWrite [1; 2; 3]; Writer.OFlush; Writer.OWriteAll [4; 5]] true 70000
  = [ (Frame.Ok (pack 0 0), Ok (pack 0 0), Ok [1; 2; 3; 4; 5]);
      (Frame.Ok (pack 0 3), Ok (pack 0 3), Ok [4; 5]);
      (Frame.Ok (pack 29 0), Ok (pack 29 0), Ok [4; 5]);
      (Frame.Ok (pack 29 2), Ok (pack 29 2), Ok []) ].
Proof. vm_compute. reflexivity. Qed.

(* a single read after a seek hands out a prefix of the stream from exactly the named byte *)
Theorem c02_seek_then_read : forall f s v j s1 x n,
  fstep f s (Seek v) = Some (s1, x) -> denote f v = Some j ->
  off s1 = j /\
  exists k, k <= n /\ snd (f_read (chunks f) s1 n) = Ok (slice (concat (chunks f)) j k).
Proof. exact flat_seek_then_read. Qed.
Print Assumptions c02_seek_then_read.

(* non-vacuity: a history with both seek forms, a seek to the end of file, 64 KiB reads at the
   end and a gzi seek satisfies the hypotheses, and this is what it observes *)
Example c02_example_valid :
  wf wit_file /\ total_csize wit_file <= MAX_COMPRESSED_POSITION /\
  ops_valid wit_file
         [Read 3; Seek (pack 0 5); FillBuf; Seek (pack 61 0); Read 70000; SeekU 2; ReadExact 3; Read 70000].
Proof. exact example_valid. Qed.

Example c02_example_read_all :
  run true wit_file (gzi_of wit_file) (init wit_file) [Read 1; Seek (pack 0 2); ReadAll 2; ReadAll 70000]
  = [ (OBytes (Ok [104]), Ok (pack 0 1));
      (OPos (Ok (pack 0 2)), Ok (pack 0 2));
      (OBytes (Ok [108; 108; 111]), Ok (pack 61 0));
      (OBytes (Ok []), Ok (pack 61 0)) ].
Proof. vm_compute. reflexivity. Qed.

Example c02_example_run :
  run true wit_file (gzi_of wit_file) (init wit_file)
      [Read 3; Seek (pack 0 5); FillBuf; Seek (pack 61 0); Read 70000; SeekU 2; ReadExact 3; Read 70000]
  = [ (OBytes (Ok [104; 101; 108]), Ok (pack 0 3));
      (OPos (Ok (pack 0 5)), Ok (pack 33 0));
      (OBytes (Ok []), Ok (pack 61 0));
      (OPos (Ok (pack 61 0)), Ok (pack 61 0));
      (OBytes (Ok []), Ok (pack 61 0));
      (OPos (Ok 2), Ok (pack 0 2));
      (OBytes (Ok [108; 108; 111]), Ok (pack 33 0));
      (OBytes (Ok []), Ok (pack 61 0)) ].
Proof. vm_compute. reflexivity. Qed.

Example c02_example_repaired_witnesses :
  run true wit_file (gzi_of wit_file) (init wit_file) [Read 5; Seek (pack 61 0); Read 5]
  = [ (OBytes (Ok [104; 101; 108; 108; 111]), Ok (pack 33 0));
      (OPos (Ok (pack 61 0)), Ok (pack 61 0));
      (OBytes (Ok []), Ok (pack 61 0)) ] /\
  run true wit_noeof (gzi_of wit_noeof) (init wit_noeof) [Read 65536; Read 65536]
  = [ (OBytes (Ok [104; 101; 108; 108; 111]), Ok (pack 33 0));
      (OBytes (Ok []), Ok (pack 33 0)) ].
Proof. exact repaired_witnesses. Qed.

(* ---- deepening wave 5 ------------------------------------------------------------------ *)

(* EXACT slice::partition_point.  GziBs.partition_point_bs is core::slice's binary search (size /
   half loop, final probe of `base`); on every slice partitioned by the predicate it returns what
   the prefix form used by the theorems above returns, so those keep their statements ... *)
Theorem c02_partition_point_exact : forall (A : Type) (p : A -> bool) (l : list A),
  partitioned p l -> partition_point_bs p l = partition_point p l.
Proof. exact (@partition_point_bs_sorted). Qed.
Print Assumptions c02_partition_point_exact.

(* ... in particular Index::query on every index sorted by uncompressed offset (repeated offsets
   allowed), and the history runner over the index of the file *)
Theorem c02_gzi_query_exact_sorted : forall idx pos,
  sorted_u idx -> gzi_query_bs idx pos = gzi_query idx pos.
Proof. exact gzi_query_bs_sorted. Qed.
Print Assumptions c02_gzi_query_exact_sorted.

Theorem c02_run_exact_sorted : forall fx f idx ops st,
  sorted_u idx -> run_bs fx f idx st ops = run fx f idx st ops.
Proof. exact run_bs_sorted. Qed.
Print Assumptions c02_run_exact_sorted.

(* the main theorem and the gzi theorem restated over the exact query (what the driver runs) *)
Theorem c02_reader_refines_flat_exact_gzi : forall f ops,
  wf f -> total_csize f <= MAX_COMPRESSED_POSITION -> ops_valid f ops ->
  exists fl, frun f (mkF 0 0) ops = Some fl /\
             Forall2 (agrees f) (run_bs true f (gzi_of f) (init f) ops) fl.
Proof. exact reader_refines_flat_bs. Qed.
Print Assumptions c02_reader_refines_flat_exact_gzi.

Theorem c02_gzi_exact : forall f p, wf f -> total_csize f <= MAX_COMPRESSED_POSITION ->
  p <= total_dlen f /\ (p = total_dlen f -> forall q b, f = q ++ [b] -> flen b < 65536) ->
  exists v, gzi_query_bs (gzi_of f) p = Ok v /\ denote f v = Some p.
Proof. exact gzi_lands_bs. Qed.
Print Assumptions c02_gzi_exact.

(* ANY index (unsorted, duplicated, hostile values): the entry the binary search selects is an
   entry of the index (or the implicit (0,0)) at or before pos, so `pos - uncompressed_pos` never
   underflows (no panic), and the answer is that entry's block offset with the relative offset, or
   InvalidData exactly when the relative offset does not fit u16 / the block offset 48 bits *)
Theorem c02_gzi_query_any_index : forall idx pos,
  let e := gzi_entry_bs idx pos in
  (e = (0, 0) \/ In e idx) /\ snd e <= pos /\
  gzi_query_bs idx pos =
    if (pos - snd e <? 65536) && (fst e <=? MAX_COMPRESSED_POSITION)
    then Ok (pack (fst e) (pos - snd e)) else Err InvalidData.
Proof. exact gzi_query_bs_spec. Qed.
Print Assumptions c02_gzi_query_any_index.

Theorem c02_gzi_query_no_panic : forall idx pos, gzi_query_bs idx pos <> Panic.
Proof. exact gzi_query_bs_no_panic. Qed.
Print Assumptions c02_gzi_query_no_panic.

(* the two forms do differ on an unsorted index (so the distinction is not vacuous) *)
Example c02_example_unsorted_gzi :
  gzi_query [(100, 50); (200, 10); (300, 20)] 30 = Ok (pack 0 30) /\
  gzi_query_bs [(100, 50); (200, 10); (300, 20)] 30 = Ok (pack 300 10).
Proof. exact bs_differs_unsorted. Qed.

(* WRITER, LIST FORM: every row of wtell_run -- one per position the writer tells, before the
   first call and after each -- is (Ok v, seek = Ok v, read-to-end = the accepted bytes from the
   index of the next byte on); the script does not panic; there is one row per call plus one. *)
Theorem c02_writer_tell_rows : forall (deflate : N -> list N -> list N) (lvl : N),
  (forall x, Frame.lenN x <= Writer.MAX_BUF_SIZE ->
             Frame.lenN (deflate 0 x) <= Writer.MAX_COMPRESSED_SIZE) ->
  forall ops fin n st obs p,
  Writer.run_ops deflate lvl Writer.w_init ops = (st, obs, p) ->
  let stf := wt_finish deflate lvl fin st in
  Frame.lenN (Writer.w_sink stf) <= Writer.MAX_COMPRESSED_POSITION -> 0 < n ->
  p = false /\
  length (wtell_run deflate lvl ops fin n) = S (length ops) /\
  forall k, (k <= length ops)%nat -> exists v,
    nth k (wtell_run deflate lvl ops fin n) (Frame.Panic, Unmodelled, Unmodelled)
    = (Frame.Ok v, Ok v,
       Ok (skipn (length (Writer.accepted (firstn k ops) (firstn k obs))) (Writer.accepted ops obs))).
Proof. exact WriterTellRows.writer_tell_rows. Qed.
Print Assumptions c02_writer_tell_rows.

(* SEEK TO ARBITRARY (HOSTILE) VIRTUAL POSITIONS over the BYTES of the file (any bytes, any v,
   any previous block), with C01's frame parser, CRC-32 and inflater: seek(v) succeeds if and only
   if a chain `empty frames*, then a frame with data or fewer than 18 bytes` parses at the block
   offset of v -- the in-block offset is irrelevant (it is clamped) ... *)
Theorem c02_seek_succeeds_iff : forall fb b0 v,
  fst (seek_bytes Inflate.inflate fb b0 v) = Ok v
  <-> SeekBytesProofs.chain_ok Inflate.inflate (bytes_from fb (vcomp v)).
Proof. exact (SeekBytesProofs.seek_bytes_ok_iff Inflate.inflate SeekBytesProofs.inflate_len). Qed.
Print Assumptions c02_seek_succeeds_iff.

(* ... every other seek fails with InvalidData or UnexpectedEof: no panic, fuel never runs out *)
Theorem c02_seek_total : forall fb b0 v,
  fst (seek_bytes Inflate.inflate fb b0 v) = Ok v \/
  fst (seek_bytes Inflate.inflate fb b0 v) = Err InvalidData \/
  fst (seek_bytes Inflate.inflate fb b0 v) = Err UnexpectedEof.
Proof. exact (SeekBytesProofs.seek_bytes_total Inflate.inflate SeekBytesProofs.inflate_len). Qed.
Print Assumptions c02_seek_total.

(* ... and a block offset at or beyond `end of file - 17` is always accepted: the reader then
   holds an empty block there and tells (c, 0) *)
Theorem c02_seek_beyond_end : forall fb b0 v,
  Frame.lenN fb < vcomp v + 18 -> vcomp v <= MAX_COMPRESSED_POSITION ->
  seek_bytes Inflate.inflate fb b0 v = (Ok v, Ok (pack (vcomp v) 0)).
Proof. exact (SeekBytesProofs.seek_bytes_beyond_end Inflate.inflate SeekBytesProofs.inflate_len). Qed.
Print Assumptions c02_seek_beyond_end.

(* on the parsed file: the frame-level seek accepts exactly the block offsets not strictly inside
   a frame, whatever the in-block offset *)
Theorem c02_seek_frames_ok_iff : forall fx f st v,
  snd (seek fx f st v) = Ok v <-> drop_to f 0 (vcomp v) <> None.
Proof. exact SeekBytesProofs.seek_frames_ok_iff. Qed.
Print Assumptions c02_seek_frames_ok_iff.

Example c02_example_hostile_seeks :
  seek_bytes Inflate.inflate Frame.eof_block (mkBlk 0 0 0 0) (pack 0 7) = (Ok (pack 0 7), Ok (pack 28 0)) /\
  seek_bytes Inflate.inflate Frame.eof_block (mkBlk 0 0 0 0) (pack 5 0) = (Err InvalidData, Ok (pack 0 0)) /\
  seek_bytes Inflate.inflate Frame.eof_block (mkBlk 0 0 0 0) (pack 11 0) = (Ok (pack 11 0), Ok (pack 11 0)) /\
  seek_bytes Inflate.inflate Frame.eof_block (mkBlk 0 0 0 0) (pack 4000 9) = (Ok (pack 4000 9), Ok (pack 4000 0)).
Proof. exact SeekBytesProofs.seek_bytes_examples. Qed.

(* the byte-level seek and the frame-level seek of the main theorems are the same function wherever
   the latter is defined: for bytes that encode the frame list (a concatenation of frames that
   read_frame splits off and parse_block turns into (csize, data)), every block offset at a frame
   boundary or at/after the end, every in-block offset, every previous state: same result, same
   position told.  Together with c02_seek_then_read_to_end: denote f v defined => the seek over
   the bytes succeeds and lands on the named byte. *)
Theorem c02_seek_bytes_is_seek_at_boundaries : forall fb f st v r,
  SeekBytesBoundary.encodes Inflate.inflate fb f -> drop_to f 0 (vcomp v) = Some r ->
  seek_bytes Inflate.inflate fb (blk_of st) v
  = (snd (seek true f st v), virtual_position (fst (seek true f st v))).
Proof. exact (SeekBytesBoundary.seek_bytes_boundary Inflate.inflate SeekBytesProofs.inflate_len). Qed.
Print Assumptions c02_seek_bytes_is_seek_at_boundaries.

Example c02_example_encodes :
  SeekBytesBoundary.encodes Inflate.inflate Frame.eof_block [mkFrame 28 []].
Proof. exact SeekBytesBoundary.encodes_eof. Qed.

(* AFTER AN ERROR (repair da5f8c7: block_invalidate).  When the loop that looks for the next block
   (read_nonempty_block_with, used by read / fill_buf / seek) fails on a frame - bad header, bad
   BSIZE / ISIZE, short file, inflate or CRC failure - the failed block is NOT the current block:
   (1) if anything at all is readable afterwards, the block is the untouched previous block (so
       no byte of the failed block is ever delivered; after an inflate / CRC failure the previous
       block is left exhausted because its buffer was overwritten);
   (2) if the previous block was exhausted (always the case when read / fill_buf load a block),
       the position told is unchanged - or has advanced over well-formed EMPTY frames that were
       skipped before the failing one, to the end of the last of them. *)
Theorem c02_failed_block_not_current : forall fuel src pos b pos' b' e,
  rnb Inflate.inflate fuel src pos b = (pos', b', Err e) ->
  (k_cur b' < k_len b' -> b' = b) /\
  (k_len b <= k_cur b ->
   blk_vpos b' = blk_vpos b \/ exists p s, b' = mkBlk p s 0 0 /\ pos' = p + s).
Proof. exact (SeekBytesProofs.failed_block_not_current Inflate.inflate). Qed.
Print Assumptions c02_failed_block_not_current.

(* the same as seen through Read::read (buffers < 65536 bytes) of the byte-level reader that goes
   on after errors: a failing call leaves nothing readable and tells the position told before it
   (or one advanced over empty frames only) *)
Theorem c02_failed_read_tells_same_position : forall s n s' e,
  read_b Inflate.inflate s n = (s', Err e) ->
  k_len (s_blk s') <= k_cur (s_blk s') /\
  (blk_vpos (s_blk s') = blk_vpos (s_blk s) \/
   exists p sz, s_blk s' = mkBlk p sz 0 0 /\ s_position s' = p + sz).
Proof. exact (SeekBytesProofs.read_b_err Inflate.inflate). Qed.
Print Assumptions c02_failed_read_tells_same_position.

(* WRITER OVER A FAILING DESTINATION (wave 9).  The writer model of NV.Bgzf.WriterTellSink runs over
   C14's sink with a fault script (any mix of full / short writes, Interrupted, failures of any
   kind at any inner write call); the script's calls GO ON after a call returned Err.  Whatever
   happened in between: if the ending (finish(), or flush() + into_inner()) returns Ok and the
   file left behind holds exactly position() bytes - i.e. no failed call left part of a frame in
   it - then the position told at ANY point of the history, in particular right after a call that
   returned Err (when the staging buffer still holds the bytes of the frame that could not be
   written, and those a failed write() had already taken), names in that file the next byte
   taken: a fresh reader sought there succeeds and reads to the end exactly the bytes taken from
   that point on.  No call panics, whatever the script (p1 = p2 = false).
   For the writer as pinned (fxe = false) the premise excludes try_finish from the history (the
   ending may be finish()): see c02_writer_failed_try_finish_refuted. *)
Theorem c02_writer_tell_failing_sink : forall (deflate : N -> list N -> list N) (fxe : bool) (lvl : N),
  (forall x, Frame.lenN x <= Writer.MAX_BUF_SIZE ->
             Frame.lenN (deflate 0 x) <= Writer.MAX_COMPRESSED_SIZE) ->
  forall script ops1 ops2 fin n st1 obs1 D1 p1 st2 obs2 D2 p2 stf,
  fxe = true \/ Forall WriterTellSinkProofs.not_tf (ops1 ++ ops2) ->
  WriterTellSink.f_run_ops deflate fxe lvl (WriterTellSink.f_init script) ops1 = (st1, obs1, D1, p1) ->
  WriterTellSink.f_run_ops deflate fxe lvl st1 ops2 = (st2, obs2, D2, p2) ->
  WriterTellSink.f_end deflate fxe lvl fin st2 = (stf, WriterTellSink.FOk tt) ->
  let sb := Sink.sbytes (WriterTellSink.f_snk stf) in
  Frame.lenN sb = WriterTellSink.f_pos stf ->
  let D := D1 ++ D2 in
  let F := sink_file (S (length sb)) sb D in
  Frame.lenN sb <= Writer.MAX_COMPRESSED_POSITION -> 0 < n ->
  p1 = false /\ p2 = false /\
  exists v, WriterTellSink.f_vpos st1 = Frame.Ok v /\
    snd (seek true F (init F) v) = Ok v /\
    snd (read_all true (fst (seek true F (init F) v)) n) = Ok (skipn (length D1) D).
Proof. exact WriterTellSinkProofs.writer_tell_sink. Qed.
Print Assumptions c02_writer_tell_failing_sink.

(* the pinned try_finish adds 28 to the position although the EOF block was NOT written: a
   destination refuses one write (nothing accepted), then accepts everything; try_finish() -> Err,
   write_all [1;2;3] -> Ok, finish() -> Ok.  The file is exactly one data frame + EOF block (57
   bytes), but the position told before the write_all is (28, 0) - inside the data frame - and
   position() ends at 85; with the repair (fxe = true) the same history tells (0, 0) and 57. *)
Theorem c02_writer_failed_try_finish_refuted :
  WriterTellSinkProofs.rf_run false =
  ([(WriterTellSink.FErr 5, 0)], false, [WriterTellSink.FOk None], false, WriterTellSink.FOk tt, true,
   Frame.Ok (pack 28 0), Unmodelled, 85, 57) /\
  WriterTellSinkProofs.rf_run true =
  ([(WriterTellSink.FErr 5, 0)], false, [WriterTellSink.FOk None], false, WriterTellSink.FOk tt, true,
   Frame.Ok (pack 0 0), Ok (pack 0 0), 57, 57).
Proof.
  split; [exact WriterTellSinkProofs.writer_tell_sink_pinned_refuted
         | exact WriterTellSinkProofs.writer_tell_sink_repaired_example].
Qed.
Print Assumptions c02_writer_failed_try_finish_refuted.

(* READER STATE PAST A SEEK (wave 9): SeekBytes.seek_b is Reader::seek on the byte-level reader
   state (bytes ahead of the inner cursor, Reader::position, the block), so that histories go on
   after a failed seek and after a seek onto bytes that merely parse as a frame (kind hrs).
   (1) what a seek inside a history returns and tells is exactly what the one-seek model says:
       c02_seek_succeeds_iff / c02_seek_total / c02_seek_beyond_end /
       c02_seek_bytes_is_seek_at_boundaries therefore hold for every seek of a history *)
Theorem c02_seek_in_history_is_seek_bytes : forall fb s v,
  (snd (seek_b Inflate.inflate fb s v), blk_vpos (s_blk (fst (seek_b Inflate.inflate fb s v))))
  = seek_bytes Inflate.inflate fb (s_blk s) v.
Proof. exact (SeekBytesHistProofs.seek_b_seek_bytes Inflate.inflate). Qed.
Print Assumptions c02_seek_in_history_is_seek_bytes.

(* (2) a FAILED seek leaves the previous block: untouched if anything of it is still readable -
       and then the following reads are served from it first, although the inner stream has
       moved; if it was exhausted the position told is unchanged (or advanced over empty frames) *)
Theorem c02_failed_seek_state : forall fb s v s' e,
  seek_b Inflate.inflate fb s v = (s', Err e) ->
  (k_cur (s_blk s') < k_len (s_blk s') ->
   s_blk s' = s_blk s /\
   forall n, snd (read_b Inflate.inflate s' n) = Ok (N.min n (k_len (s_blk s) - k_cur (s_blk s)))) /\
  (k_len (s_blk s) <= k_cur (s_blk s) ->
   blk_vpos (s_blk s') = blk_vpos (s_blk s) \/
   exists p sz, s_blk s' = mkBlk p sz 0 0 /\ s_position s' = p + sz).
Proof.
  intros fb s v s' e H. split.
  - intros Hlt. exact (SeekBytesHistProofs.failed_seek_serves_previous_block Inflate.inflate fb s v s' e H Hlt).
  - exact (proj2 (SeekBytesHistProofs.seek_b_err Inflate.inflate fb s v s' e H)).
Qed.
Print Assumptions c02_failed_seek_state.

(* (3) a seek and all the reads after it see the file only through the bytes from the block
       offset on: a seek onto an `accidental frame` (bytes inside a frame that parse as a frame)
       and the history after it are those of ANY file with the same bytes from that offset on *)
Theorem c02_seek_then_reads_depend_on_suffix : forall fb fb' s v ns,
  bytes_from fb (vcomp v) = bytes_from fb' (vcomp v) ->
  hops_b Inflate.inflate fb s (BSeek v :: map BRead ns)
  = hops_b Inflate.inflate fb' s (BSeek v :: map BRead ns).
Proof. exact (SeekBytesHistProofs.seek_then_reads_suffix Inflate.inflate). Qed.
Print Assumptions c02_seek_then_reads_depend_on_suffix.

(* THE SHIFT THEOREM AFTER A SUCCESSFUL SEEK (wave 10; byte-level reader, byte counts and told
   positions).  A reader over the bytes fb reads from the start WITHOUT ERROR (any read sizes, any
   successful seeks in between: ops) and tells v.  A reader over the same bytes in ANY state s
   (after errors, after failed seeks, anywhere) seeks to v: if the seek succeeds, every read call
   after it delivers as many bytes as the same call of the reader that simply goes on reading
   from where v was told, and every position told after those calls is the same:
       seek(v); read n1; tell; read n2; tell ...  =  (read from the start up to v); read n1; tell ...
   No well-formedness of the rest of the file is assumed: errors later in the file are met by
   both readers in the same call.  (The two readers are NOT in the same state after a seek to a
   block end - the seek loads the next block at once - the proof is a bisimulation.) *)
Theorem c02_seek_to_told_position_shift : forall fb ops v s s' ns,
  let s0 := mkBst fb 0 (mkBlk 0 0 0 0) in
  SeekBytesShift.all_ok (hops_b Inflate.inflate fb s0 ops) ->
  blk_vpos (s_blk (state_b Inflate.inflate fb s0 ops)) = Ok v ->
  seek_b Inflate.inflate fb s v = (s', Ok v) ->
  reads_b Inflate.inflate s' ns = reads_b Inflate.inflate (state_b Inflate.inflate fb s0 ops) ns.
Proof. exact (SeekBytesShift.seek_then_reads_as_from_start Inflate.inflate). Qed.
Print Assumptions c02_seek_to_told_position_shift.

(* ... and when v is inside a block (in-block offset > 0) the seek cannot fail and restores the
   reader state EXACTLY (bytes ahead of the inner stream, Reader::position, the block, its cursor),
   whatever state the seeking reader was in *)
Theorem c02_seek_to_told_position_inside_block : forall fb ops v s,
  let s0 := mkBst fb 0 (mkBlk 0 0 0 0) in
  SeekBytesShift.all_ok (hops_b Inflate.inflate fb s0 ops) ->
  blk_vpos (s_blk (state_b Inflate.inflate fb s0 ops)) = Ok v -> 0 < vuncomp v ->
  seek_b Inflate.inflate fb s v = (state_b Inflate.inflate fb s0 ops, Ok v).
Proof. exact (SeekBytesShift.seek_told_inside_block_succeeds Inflate.inflate). Qed.
Print Assumptions c02_seek_to_told_position_inside_block.

(* the form the correspondence check runs (kind hshift: SeekBytesShift.hshift_run is compared with
   two real readers; the harness asserts the conclusions on the REAL rows) *)
Theorem c02_hshift_run_shift : forall fb ops1 mid ns h1 v rowsA x t rowsB,
  SeekBytesShift.hshift_run fb ops1 mid ns = (h1, Ok v, rowsA, Some (x, t, rowsB)) ->
  SeekBytesShift.all_ok h1 ->
  (x = Ok v -> rowsB = rowsA) /\ (0 < vuncomp v -> x = Ok v /\ t = Ok v).
Proof.
  intros fb ops1 mid ns h1 v rowsA x t rowsB H Hok. split.
  - exact (SeekBytesShift.hshift_run_shift fb ops1 mid ns h1 v rowsA x t rowsB H Hok).
  - exact (SeekBytesShift.hshift_run_inside_block fb ops1 mid ns h1 v rowsA x t rowsB H Hok).
Qed.
Print Assumptions c02_hshift_run_shift.

(* THE RELOCATION FORM of the shift theorem (wave 10): a reader in any state seeks to v = (c, u) in
   the bytes fb and the seek succeeds.  Then a FRESH reader over the bytes of fb from c on - a file
   of its own - seeks to (0, u) successfully, and every read call after the first seek returns the
   byte count, and tells the position MOVED BY c, of the same call after the second
   (SeekBytesReloc.sht: c added to the compressed part; the 2^48 assert of
   Block::virtual_position is evaluated on the moved position). *)
Theorem c02_seek_then_reads_relocated : forall fb s v s' ns,
  seek_b Inflate.inflate fb s v = (s', Ok v) ->
  let fb' := bytes_from fb (vcomp v) in
  let v' := pack 0 (vuncomp v) in
  let k := seek_b Inflate.inflate fb' (mkBst fb' 0 (mkBlk 0 0 0 0)) v' in
  snd k = Ok v' /\
  reads_b Inflate.inflate s' ns
  = map (SeekBytesReloc.shrow (vcomp v)) (reads_b Inflate.inflate (fst k) ns).
Proof. exact (SeekBytesReloc.seek_then_reads_reloc_fresh Inflate.inflate). Qed.
Print Assumptions c02_seek_then_reads_relocated.

(* the state itself: Reader::position and the block position moved by c, everything else equal;
   and a successful seek does not depend on the state of the reader that makes it *)
Theorem c02_seek_state_relocated : forall fb s t v s',
  seek_b Inflate.inflate fb s v = (s', Ok v) ->
  seek_b Inflate.inflate fb t v = (s', Ok v) /\
  exists s'', seek_b Inflate.inflate (bytes_from fb (vcomp v)) s (pack 0 (vuncomp v))
              = (s'', Ok (pack 0 (vuncomp v))) /\ s' = SeekBytesReloc.shs (vcomp v) s''.
Proof.
  intros fb s t v s' H. split.
  - exact (SeekBytesReloc.seek_b_ok_any_state Inflate.inflate fb s t v s' H).
  - exact (SeekBytesReloc.seek_reloc Inflate.inflate fb s v s' H).
Qed.
Print Assumptions c02_seek_state_relocated.

(* the form the correspondence check runs (kind hreloc) *)
Theorem c02_hreloc_run_relocated : forall fb mid v ns x t rowsB x' t' rowsC tm rowsM,
  SeekBytesReloc.hreloc_run fb mid v ns = ((x, t, rowsB), (x', t', rowsC), (tm, rowsM)) ->
  x = Ok v -> x' = Ok (pack 0 (vuncomp v)) /\ t = tm /\ rowsB = rowsM.
Proof. exact SeekBytesReloc.hreloc_run_reloc. Qed.
Print Assumptions c02_hreloc_run_relocated.

(* ---- wave 10c: the shift theorem for continuations with FURTHER SEEKS ------------------------
   After a successful seek to a position v that a reader told after an error-free history from the
   start, ANY history of read and seek calls (seeks anywhere, failing or not, reads after errors)
   gives the same rows (result, position told) as the same history carried on by the reader that
   told v — provided v is inside a block, or the history does not START with a seek that fails.
   (When v is a block end the seeking reader has the next block loaded, the other one the exhausted
   previous block; a failing seek leaves the block it found, so only then can the two differ.) *)
Theorem c02_seek_to_told_position_shift_ops : forall fb ops v s s' ops2,
  let s0 := mkBst fb 0 (mkBlk 0 0 0 0) in
  SeekBytesShift.all_ok (hops_b Inflate.inflate fb s0 ops) ->
  blk_vpos (s_blk (state_b Inflate.inflate fb s0 ops)) = Ok v ->
  seek_b Inflate.inflate fb s v = (s', Ok v) ->
  0 < vuncomp v \/
  SeekBytesShiftOps.first_seek_ok Inflate.inflate fb (state_b Inflate.inflate fb s0 ops) ops2 ->
  hops_b Inflate.inflate fb s' ops2 = hops_b Inflate.inflate fb (state_b Inflate.inflate fb s0 ops) ops2.
Proof. exact (SeekBytesShiftOps.seek_then_ops_as_from_start Inflate.inflate). Qed.
Print Assumptions c02_seek_to_told_position_shift_ops.

(* with no premise on the continuation: its first call still returns the same in both readers
   (a failing first seek fails with the same error) *)
Theorem c02_seek_to_told_position_first_call : forall fb ops v s s' o,
  let s0 := mkBst fb 0 (mkBlk 0 0 0 0) in
  SeekBytesShift.all_ok (hops_b Inflate.inflate fb s0 ops) ->
  blk_vpos (s_blk (state_b Inflate.inflate fb s0 ops)) = Ok v ->
  seek_b Inflate.inflate fb s v = (s', Ok v) ->
  snd (step_b Inflate.inflate fb s' o) = snd (step_b Inflate.inflate fb (state_b Inflate.inflate fb s0 ops) o).
Proof. exact (SeekBytesShiftOps.seek_then_first_call_same_result Inflate.inflate). Qed.
Print Assumptions c02_seek_to_told_position_first_call.

(* readers related by the bisimulation of the shift proof (same bytes ahead, same position, blocks
   equal or both exhausted with the same end) agree on every history of reads and seeks, errors
   and failed seeks included *)
Theorem c02_bisimilar_readers_same_history : forall fb ops s t,
  SeekBytesShift.R s t -> hops_b Inflate.inflate fb s ops = hops_b Inflate.inflate fb t ops.
Proof. exact (SeekBytesShiftOps.R_hops Inflate.inflate). Qed.
Print Assumptions c02_bisimilar_readers_same_history.

(* the form the correspondence check runs (kind hshifts) *)
Theorem c02_hshiftops_run_shift : forall fb ops1 mid ops2 h1 v rowsA x t rowsB,
  SeekBytesShiftOps.hshiftops_run fb ops1 mid ops2 = (h1, Ok v, rowsA, Some (x, t, rowsB)) ->
  SeekBytesShift.all_ok h1 -> x = Ok v ->
  0 < vuncomp v \/ SeekBytesShiftOps.first_row_ok ops2 rowsA -> rowsB = rowsA.
Proof. exact SeekBytesShiftOps.hshiftops_run_shift. Qed.
Print Assumptions c02_hshiftops_run_shift.
