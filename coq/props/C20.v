(* C20 -- Format autodetection picks the written format; conversions keep content.   (partial)

   Property theorems only.  The model is NV.Util.Detect: detect_compression / detect_format /
   Builder::build_from_reader of noodles-util's alignment and variant reader builders as pure
   functions of the first fill_buf window, and the leading bytes the generic writers emit.

   The model follows the tree after the repairs of F13 (detect-short-input-error) and F14
   (detect-sam-as-cram): read at most 4 (3) inflated bytes, and "CRAM" followed by a graphic byte or
   TAB is SAM text.

   PARTIAL: (1) DEFLATE is not modelled -- BGZF compression [bgzf] and flate2's MultiGzDecoder
   over a window [gunzip] are universally quantified functions constrained by the three premises
   H_magic / H_prefix / H_whole of each theorem (validated against the real libraries on every
   run of the correspondence check); (2) only the detection half of the property is proved; that
   the records read back equal the records written, and conversions, rest on C05/C06/C07/C09/C10
   and are evaluated on the implementation only (L3 oracle of harness/src/bin/c20.rs). *)
From Coq Require Import List NArith.
From NV Require Import Util.Detect Util.DetectProofs.
Import ListNotations.
Open Scope N_scope.

(* The statement one would like: every stream of the generic writer, whatever the first read
   delivers, is detected as written.  It is FALSE for the faithful model (detection sees only the
   first fill_buf window: c20_short_window_refuted); the theorems that follow carry exactly the
   side conditions the proof needs. *)
Definition c20_detect_written_full_statement : Prop :=
  forall (bgzf : list N -> list N) (gunzip : list N -> inflated),
    (forall p, exists r, bgzf p = 31 :: 139 :: r) ->
    (forall p m, exists n, avail (gunzip (firstn m (bgzf p))) = firstn n p) ->
    (forall p, gunzip (bgzf p) = mk_inflated p None) ->
    forall f c amb s k, (1 <= k)%nat -> written_a bgzf f c amb s ->
      detect_a (window s k) (gunzip (window s k)) = Ok (f, c).

(* Alignments.  For every stream s the generic alignment writer emits for (format f,
   compression c) -- SAM text with any header lines and any records whose names the SAM writer
   accepts, BAM, CRAM with a major version that is a control byte other than TAB (1..4 exist),
   each raw or BGZF-compressed -- and every size k of the first read: the builder decides exactly
   (f, c), provided the first window is large enough:
     raw SAM: no condition, except k >= 5 in the class amb = true (header-less and the first read
              name starts with "CRAM");
     raw BAM / CRAM: k >= 4;
     BGZF: k >= 2 and either the decoder gets 4 bytes out of the window or the window is the
           whole stream. *)
Theorem c20_detect_written_partial :
  forall (bgzf : list N -> list N) (gunzip : list N -> inflated)
    (H_magic : forall p, exists r, bgzf p = 31 :: 139 :: r)
    (H_prefix : forall p m, exists n, avail (gunzip (firstn m (bgzf p))) = firstn n p)
    (H_whole : forall p, gunzip (bgzf p) = mk_inflated p None),
  forall f c amb s k,
    written_a bgzf f c amb s -> window_ok_a gunzip f c amb s k ->
    detect_a (window s k) (gunzip (window s k)) = Ok (f, c).
Proof. exact detect_written_a_partial. Qed.
Print Assumptions c20_detect_written_partial.

(* Variants: VCF text (begins "##fileformat=VCFv") and BCF, raw or BGZF-compressed. *)
Theorem c20_detect_written_variant_partial :
  forall (bgzf : list N -> list N) (gunzip : list N -> inflated)
    (H_magic : forall p, exists r, bgzf p = 31 :: 139 :: r)
    (H_prefix : forall p m, exists n, avail (gunzip (firstn m (bgzf p))) = firstn n p)
    (H_whole : forall p, gunzip (bgzf p) = mk_inflated p None),
  forall f c s k,
    written_v bgzf f c s -> window_ok_v gunzip f c s k ->
    detect_v (window s k) (gunzip (window s k)) = Ok (f, c).
Proof. exact detect_written_v_partial. Qed.
Print Assumptions c20_detect_written_variant_partial.

(* When the first read delivers the whole stream (it fits BufReader's 8 KiB buffer) there is NO
   side condition: this includes the BGZF-compressed SAM of an empty header and no records
   (formerly F13) and the header-less SAM whose first read is named CRAM... (formerly F14). *)
Theorem c20_detect_written_whole_stream :
  forall (bgzf : list N -> list N) (gunzip : list N -> inflated)
    (H_magic : forall p, exists r, bgzf p = 31 :: 139 :: r)
    (H_prefix : forall p m, exists n, avail (gunzip (firstn m (bgzf p))) = firstn n p)
    (H_whole : forall p, gunzip (bgzf p) = mk_inflated p None),
  forall f c amb s k,
    written_a bgzf f c amb s -> (length s <= Nat.min k BUF_CAP)%nat ->
    detect_a (window s k) (gunzip (window s k)) = Ok (f, c).
Proof. exact detect_written_whole_a. Qed.
Print Assumptions c20_detect_written_whole_stream.

Theorem c20_detect_written_whole_stream_variant :
  forall (bgzf : list N -> list N) (gunzip : list N -> inflated)
    (H_magic : forall p, exists r, bgzf p = 31 :: 139 :: r)
    (H_prefix : forall p m, exists n, avail (gunzip (firstn m (bgzf p))) = firstn n p)
    (H_whole : forall p, gunzip (bgzf p) = mk_inflated p None),
  forall f c s k,
    written_v bgzf f c s -> (length s <= Nat.min k BUF_CAP)%nat ->
    detect_v (window s k) (gunzip (window s k)) = Ok (f, c).
Proof. exact detect_written_whole_v. Qed.
Print Assumptions c20_detect_written_whole_stream_variant.

(* SAM text accepted by the SAM writer never begins with the gzip or the BAM magic; it begins with
   the CRAM magic only in the amb class, and then the next byte is a graphic character or TAB *)
Theorem c20_sam_text_not_magic :
  forall hdr recs, forallb sam_line_ok recs = true ->
    (forall r, sam_text hdr recs <> 31 :: 139 :: r) /\
    (forall r, sam_text hdr recs <> BAM_MAGIC ++ r) /\
    (sam_first_name_cram hdr recs = false -> forall r, sam_text hdr recs <> CRAM_MAGIC ++ r) /\
    (forall r, sam_text hdr recs = CRAM_MAGIC ++ r -> exists b r', r = b :: r' /\ sam_cont b = true).
Proof. exact sam_text_not_magic. Qed.
Print Assumptions c20_sam_text_not_magic.

(* magic numbers: pairwise distinct, none a prefix of another, none begins with '@', '#', '*' *)
Theorem c20_magic_numbers_distinct :
  BAM_MAGIC <> CRAM_MAGIC /\ firstn 3 BAM_MAGIC <> BCF_MAGIC /\ firstn 3 CRAM_MAGIC <> BCF_MAGIC /\
  firstn 2 BAM_MAGIC <> GZIP_MAGIC /\ firstn 2 CRAM_MAGIC <> GZIP_MAGIC /\ firstn 2 BCF_MAGIC <> GZIP_MAGIC /\
  (forall m, In m [BAM_MAGIC; CRAM_MAGIC; BCF_MAGIC; GZIP_MAGIC] ->
             hd 0 m <> 64 /\ hd 0 m <> 35 /\ hd 0 m <> 42).
Proof. exact magic_numbers_distinct. Qed.
Print Assumptions c20_magic_numbers_distinct.

(* autodetection never decides (CRAM, BGZF): the builder's InvalidData branch needs an override *)
Theorem c20_detect_never_cram_bgzf : forall w i, detect_a w i <> Ok (Cram, CBgzf).
Proof. exact detect_a_never_cram_bgzf. Qed.
Print Assumptions c20_detect_never_cram_bgzf.

(* fewer than 4 inflated bytes: a clean end of the stream is answered SAM; only a decoder error
   (a member cut off inside the window, a bad header) is reported *)
Theorem c20_gz_short_payload :
  forall r i, (length (avail i) < 4)%nat ->
    detect_a (31 :: 139 :: r) i = match stop i with None => Ok (Sam, CBgzf) | Some e => Err e end.
Proof. exact detect_a_gz_short. Qed.
Print Assumptions c20_gz_short_payload.

(* ---- what still fails (known finding detect-short-first-read) ---- *)

(* a short first read: raw BAM / CRAM / BCF are taken for SAM / VCF when the first read delivers
   fewer bytes than the magic; a header-less SAM whose first read is named CRAM... is taken for
   CRAM when the first read delivers exactly four bytes; any BGZF stream is taken for raw SAM/VCF
   when it delivers one byte *)
Theorem c20_short_window_refuted :
  (forall rest i, detect_a (window (bam_payload rest) 3) i = Ok (Sam, CNone)) /\
  (forall major minor rest i, detect_a (window (cram_stream major minor rest) 3) i = Ok (Sam, CNone)) /\
  (forall rest i, detect_v (window (bcf_payload rest) 2) i = Ok (Vcf, CNone)) /\
  (forall i, detect_a (window (sam_text [] [mk_sam_line (Some [67; 82; 65; 77; 49]) [52; 9; 42]]) 4) i
             = Ok (Cram, CNone)).
Proof. exact short_window_raw_refuted. Qed.
Print Assumptions c20_short_window_refuted.

Theorem c20_short_window_gz_refuted :
  forall (bgzf : list N -> list N) (gunzip : list N -> inflated)
    (H_magic : forall p, exists r, bgzf p = 31 :: 139 :: r),
  forall p,
    detect_a (window (bgzf p) 1) (gunzip (window (bgzf p) 1)) = Ok (Sam, CNone) /\
    detect_v (window (bgzf p) 1) (gunzip (window (bgzf p) 1)) = Ok (Vcf, CNone).
Proof. exact short_window_gz_refuted. Qed.
Print Assumptions c20_short_window_gz_refuted.

(* ---- non-vacuity: concrete instances of the hypotheses ---- *)

(* a toy "BGZF" (gzip magic + stored payload) and its decoder satisfy the three premises, so the
   theorems above are not vacuous in their oracle hypotheses *)
Definition toy_bgzf (p : list N) : list N := 31 :: 139 :: p.
Definition toy_gunzip (w : list N) : inflated := mk_inflated (skipn 2 w) None.
Example c20_oracle_premises_satisfiable :
  (forall p, exists r, toy_bgzf p = 31 :: 139 :: r) /\
  (forall p m, exists n, avail (toy_gunzip (firstn m (toy_bgzf p))) = firstn n p) /\
  (forall p, toy_gunzip (toy_bgzf p) = mk_inflated p None).
Proof.
  split; [intro p; exists p; reflexivity|]. split; [|intro p; reflexivity].
  intros p m. unfold toy_gunzip, toy_bgzf. cbn [avail].
  destruct m as [|[|m]]; [exists 0%nat; reflexivity|exists 0%nat; reflexivity|].
  exists m. reflexivity.
Qed.

(* the unconditional statement is false already for the toy oracle: a BAM whose first read
   delivers one byte *)
Theorem c20_detect_written_full_statement_refuted : ~ c20_detect_written_full_statement.
Proof.
  intro H.
  specialize (H toy_bgzf toy_gunzip (proj1 c20_oracle_premises_satisfiable)
                (proj1 (proj2 c20_oracle_premises_satisfiable))
                (proj2 (proj2 c20_oracle_premises_satisfiable))
                Bam CBgzf false (toy_bgzf (bam_payload [])) 1%nat (le_n 1) (WBam toy_bgzf [])).
  vm_compute in H. discriminate.
Qed.
Print Assumptions c20_detect_written_full_statement_refuted.

(* formerly F13: the BGZF-compressed SAM of an empty header and no records, delivered whole *)
Example c20_example_f13_repaired :
  written_a toy_bgzf Sam CBgzf false (toy_bgzf (sam_text [] [])) /\
  detect_a (window (toy_bgzf (sam_text [] [])) 100) (toy_gunzip (window (toy_bgzf (sam_text [] [])) 100))
    = Ok (Sam, CBgzf).
Proof. split; [apply (WSamGz toy_bgzf [] []); reflexivity|vm_compute; reflexivity]. Qed.

(* formerly F14: header-less SAM whose first read is named "CRAM1", resp. exactly "CRAM" *)
Example c20_example_f14_repaired :
  let recs1 := [mk_sam_line (Some [67; 82; 65; 77; 49]) [52; 9; 42]] in
  let recs2 := [mk_sam_line (Some [67; 82; 65; 77]) [52; 9; 42]] in
  forallb sam_line_ok recs1 = true /\ sam_first_name_cram [] recs1 = true /\
  detect_a (window (sam_text [] recs1) 100) (mk_inflated [] None) = Ok (Sam, CNone) /\
  detect_a (window (sam_text [] recs2) 100) (mk_inflated [] None) = Ok (Sam, CNone) /\
  detect_a (window (cram_stream 3 0 [0; 0]) 100) (mk_inflated [] None) = Ok (Cram, CNone) /\
  cram_major_ok 1 = true /\ cram_major_ok 2 = true /\ cram_major_ok 3 = true /\ cram_major_ok 4 = true.
Proof. repeat split. Qed.

Example c20_example_samgz :
  let s := toy_bgzf (sam_text [] [mk_sam_line (Some [114; 49]) [52; 9; 42]]) in
  written_a toy_bgzf Sam CBgzf false s /\
  detect_a (window s 100) (toy_gunzip (window s 100)) = Ok (Sam, CBgzf).
Proof. split; [apply WSamGz; reflexivity|vm_compute; reflexivity]. Qed.

Example c20_example_bam :
  detect_a (window (toy_bgzf (bam_payload [0;0;0;0])) 8192) (toy_gunzip (window (toy_bgzf (bam_payload [0;0;0;0])) 8192))
    = Ok (Bam, CBgzf)
  /\ detect_v (window (bcf_payload [0]) 3) (mk_inflated [] None) = Ok (Bcf, CNone).
Proof. split; vm_compute; reflexivity. Qed.
