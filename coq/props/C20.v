(* C20 -- Format autodetection picks the written format; conversions keep content.   (partial)

   Property theorems only.  The model is NV.Util.Detect: detect_compression / detect_format /
   Builder::build_from_reader of noodles-util's alignment and variant reader builders as pure
   functions of the first fill_buf window, and the leading bytes the generic writers emit.

   The model follows the tree after the repairs of F13 (detect-short-input-error) and F14
   (detect-sam-as-cram): read at most 4 (3) inflated bytes, and "CRAM" followed by a graphic byte or
   TAB is SAM text.

   PARTIAL: (1) DEFLATE is not modelled -- BGZF compression [bgzf] and flate2's MultiGzDecoder
   over a window [gunzip] are universally quantified functions constrained by the three premises
   H_magic / H_prefix / H_whole of each theorem (validated against the real libraries on every
   run of the correspondence check); (2) only the detection half of the property is proved; that
   the records read back equal the records written, and conversions, rest on C05/C06/C07/C09/C10
   and are evaluated on the implementation only (L3 oracle of harness/src/bin/c20.rs).

   Deepening round 4: /repo contains the detection repair 5c79ec5 (read the first 8 KiB ahead),
   so the UNCONDITIONAL statement is the main theorem (c20_detect_written, _variant: every stream
   of the generic writers, every delivery script).  The theorems about the tree before that
   repair (one fill_buf window) are kept as history under the names c20_v0_*.  New: the async
   reader builders (NV.Util.AsyncFill: async detection = sync detection for every poll script)
   and the SAM <-> BAM conversions record by record (NV.Util.Convert, corollaries of C05/C06).

   Second part of the file (deepening round 2): the window over a source with a delivery script
   (NV.Util.Fill: the current builders and the builders repaired by patch 06), the decisions that
   do not look at content (NV.Util.Dispatch: path extensions, builder defaults, the inner dispatch
   of readers and writers, indexed readers and index discovery, finish). *)
From Coq Require Import List NArith.
From NV Require Import Io.Source Async.ReadExact Util.Detect Util.DetectProofs Util.Fill Util.FillProofs
                       Util.AsyncFill Util.AsyncFillProofs Util.Dispatch Util.DispatchProofs.
Import ListNotations.
Open Scope N_scope.

(* ---- history: the tree before 5c79ec5 (detection on ONE fill_buf window) ------------------
   The unconditional statement over first-read sizes k was FALSE for that tree (detection saw only
   what the first read delivered: c20_v0_short_window_refuted); the v0 theorems carry exactly the
   side conditions the proof needed.  [window s k] with k >= 8192 is also the window of HEAD, so
   the whole-stream corollaries and the facts about magic numbers below apply to HEAD unchanged. *)
Definition c20_v0_detect_written_unconditional : Prop :=
  forall (bgzf : list N -> list N) (gunzip : list N -> inflated),
    (forall p, exists r, bgzf p = 31 :: 139 :: r) ->
    (forall p m, exists n, avail (gunzip (firstn m (bgzf p))) = firstn n p) ->
    (forall p, gunzip (bgzf p) = mk_inflated p None) ->
    forall f c amb s k, (1 <= k)%nat -> written_a bgzf f c amb s ->
      detect_a (window s k) (gunzip (window s k)) = Ok (f, c).

(* Alignments.  For every stream s the generic alignment writer emits for (format f,
   compression c) -- SAM text with any header lines and any records whose names the SAM writer
   accepts, BAM, CRAM with a major version that is a control byte other than TAB (1..4 exist),
   each raw or BGZF-compressed -- and every size k of the first read: the builder decides exactly
   (f, c), provided the first window is large enough:
     raw SAM: no condition, except k >= 5 in the class amb = true (header-less and the first read
              name starts with "CRAM");
     raw BAM / CRAM: k >= 4;
     BGZF: k >= 2 and either the decoder gets 4 bytes out of the window or the window is the
           whole stream. *)
Theorem c20_v0_detect_written_partial :
  forall (bgzf : list N -> list N) (gunzip : list N -> inflated)
    (H_magic : forall p, exists r, bgzf p = 31 :: 139 :: r)
    (H_prefix : forall p m, exists n, avail (gunzip (firstn m (bgzf p))) = firstn n p)
    (H_whole : forall p, gunzip (bgzf p) = mk_inflated p None),
  forall f c amb s k,
    written_a bgzf f c amb s -> window_ok_a gunzip f c amb s k ->
    detect_a (window s k) (gunzip (window s k)) = Ok (f, c).
Proof. exact detect_written_a_partial. Qed.
Print Assumptions c20_v0_detect_written_partial.

(* Variants: VCF text (begins "##fileformat=VCFv") and BCF, raw or BGZF-compressed. *)
Theorem c20_v0_detect_written_variant_partial :
  forall (bgzf : list N -> list N) (gunzip : list N -> inflated)
    (H_magic : forall p, exists r, bgzf p = 31 :: 139 :: r)
    (H_prefix : forall p m, exists n, avail (gunzip (firstn m (bgzf p))) = firstn n p)
    (H_whole : forall p, gunzip (bgzf p) = mk_inflated p None),
  forall f c s k,
    written_v bgzf f c s -> window_ok_v gunzip f c s k ->
    detect_v (window s k) (gunzip (window s k)) = Ok (f, c).
Proof. exact detect_written_v_partial. Qed.
Print Assumptions c20_v0_detect_written_variant_partial.

(* When the first read delivers the whole stream (it fits BufReader's 8 KiB buffer) there is NO
   side condition: this includes the BGZF-compressed SAM of an empty header and no records
   (formerly F13) and the header-less SAM whose first read is named CRAM... (formerly F14). *)
Theorem c20_detect_written_whole_stream :
  forall (bgzf : list N -> list N) (gunzip : list N -> inflated)
    (H_magic : forall p, exists r, bgzf p = 31 :: 139 :: r)
    (H_prefix : forall p m, exists n, avail (gunzip (firstn m (bgzf p))) = firstn n p)
    (H_whole : forall p, gunzip (bgzf p) = mk_inflated p None),
  forall f c amb s k,
    written_a bgzf f c amb s -> (length s <= Nat.min k BUF_CAP)%nat ->
    detect_a (window s k) (gunzip (window s k)) = Ok (f, c).
Proof. exact detect_written_whole_a. Qed.
Print Assumptions c20_detect_written_whole_stream.

Theorem c20_detect_written_whole_stream_variant :
  forall (bgzf : list N -> list N) (gunzip : list N -> inflated)
    (H_magic : forall p, exists r, bgzf p = 31 :: 139 :: r)
    (H_prefix : forall p m, exists n, avail (gunzip (firstn m (bgzf p))) = firstn n p)
    (H_whole : forall p, gunzip (bgzf p) = mk_inflated p None),
  forall f c s k,
    written_v bgzf f c s -> (length s <= Nat.min k BUF_CAP)%nat ->
    detect_v (window s k) (gunzip (window s k)) = Ok (f, c).
Proof. exact detect_written_whole_v. Qed.
Print Assumptions c20_detect_written_whole_stream_variant.

(* SAM text accepted by the SAM writer never begins with the gzip or the BAM magic; it begins with
   the CRAM magic only in the amb class, and then the next byte is a graphic character or TAB *)
Theorem c20_sam_text_not_magic :
  forall hdr recs, forallb sam_line_ok recs = true ->
    (forall r, sam_text hdr recs <> 31 :: 139 :: r) /\
    (forall r, sam_text hdr recs <> BAM_MAGIC ++ r) /\
    (sam_first_name_cram hdr recs = false -> forall r, sam_text hdr recs <> CRAM_MAGIC ++ r) /\
    (forall r, sam_text hdr recs = CRAM_MAGIC ++ r -> exists b r', r = b :: r' /\ sam_cont b = true).
Proof. exact sam_text_not_magic. Qed.
Print Assumptions c20_sam_text_not_magic.

(* magic numbers: pairwise distinct, none a prefix of another, none begins with '@', '#', '*' *)
Theorem c20_magic_numbers_distinct :
  BAM_MAGIC <> CRAM_MAGIC /\ firstn 3 BAM_MAGIC <> BCF_MAGIC /\ firstn 3 CRAM_MAGIC <> BCF_MAGIC /\
  firstn 2 BAM_MAGIC <> GZIP_MAGIC /\ firstn 2 CRAM_MAGIC <> GZIP_MAGIC /\ firstn 2 BCF_MAGIC <> GZIP_MAGIC /\
  (forall m, In m [BAM_MAGIC; CRAM_MAGIC; BCF_MAGIC; GZIP_MAGIC] ->
             hd 0 m <> 64 /\ hd 0 m <> 35 /\ hd 0 m <> 42).
Proof. exact magic_numbers_distinct. Qed.
Print Assumptions c20_magic_numbers_distinct.

(* autodetection never decides (CRAM, BGZF): the builder's InvalidData branch needs an override *)
Theorem c20_detect_never_cram_bgzf : forall w i, detect_a w i <> Ok (Cram, CBgzf).
Proof. exact detect_a_never_cram_bgzf. Qed.
Print Assumptions c20_detect_never_cram_bgzf.

(* fewer than 4 inflated bytes: a clean end of the stream is answered SAM; only a decoder error
   (a member cut off inside the window, a bad header) is reported *)
Theorem c20_gz_short_payload :
  forall r i, (length (avail i) < 4)%nat ->
    detect_a (31 :: 139 :: r) i = match stop i with None => Ok (Sam, CBgzf) | Some e => Err e end.
Proof. exact detect_a_gz_short. Qed.
Print Assumptions c20_gz_short_payload.

(* ---- what failed before 5c79ec5 (finding detect-short-first-read, fixed) ---- *)

(* a short first read: raw BAM / CRAM / BCF are taken for SAM / VCF when the first read delivers
   fewer bytes than the magic; a header-less SAM whose first read is named CRAM... is taken for
   CRAM when the first read delivers exactly four bytes; any BGZF stream is taken for raw SAM/VCF
   when it delivers one byte *)
Theorem c20_v0_short_window_refuted :
  (forall rest i, detect_a (window (bam_payload rest) 3) i = Ok (Sam, CNone)) /\
  (forall major minor rest i, detect_a (window (cram_stream major minor rest) 3) i = Ok (Sam, CNone)) /\
  (forall rest i, detect_v (window (bcf_payload rest) 2) i = Ok (Vcf, CNone)) /\
  (forall i, detect_a (window (sam_text [] [mk_sam_line (Some [67; 82; 65; 77; 49]) [52; 9; 42]]) 4) i
             = Ok (Cram, CNone)).
Proof. exact short_window_raw_refuted. Qed.
Print Assumptions c20_v0_short_window_refuted.

Theorem c20_v0_short_window_gz_refuted :
  forall (bgzf : list N -> list N) (gunzip : list N -> inflated)
    (H_magic : forall p, exists r, bgzf p = 31 :: 139 :: r),
  forall p,
    detect_a (window (bgzf p) 1) (gunzip (window (bgzf p) 1)) = Ok (Sam, CNone) /\
    detect_v (window (bgzf p) 1) (gunzip (window (bgzf p) 1)) = Ok (Vcf, CNone).
Proof. exact short_window_gz_refuted. Qed.
Print Assumptions c20_v0_short_window_gz_refuted.

(* ---- non-vacuity: concrete instances of the hypotheses ---- *)

(* a toy "BGZF" (gzip magic + stored payload) and its decoder satisfy the three premises, so the
   theorems above are not vacuous in their oracle hypotheses *)
Definition toy_bgzf (p : list N) : list N := 31 :: 139 :: p.
Definition toy_gunzip (w : list N) : inflated := mk_inflated (skipn 2 w) None.
Example c20_oracle_premises_satisfiable :
  (forall p, exists r, toy_bgzf p = 31 :: 139 :: r) /\
  (forall p m, exists n, avail (toy_gunzip (firstn m (toy_bgzf p))) = firstn n p) /\
  (forall p, toy_gunzip (toy_bgzf p) = mk_inflated p None).
Proof.
  split; [intro p; exists p; reflexivity|]. split; [|intro p; reflexivity].
  intros p m. unfold toy_gunzip, toy_bgzf. cbn [avail].
  destruct m as [|[|m]]; [exists 0%nat; reflexivity|exists 0%nat; reflexivity|].
  exists m. reflexivity.
Qed.

(* the unconditional statement is false already for the toy oracle: a BAM whose first read
   delivers one byte *)
Theorem c20_v0_detect_written_unconditional_refuted : ~ c20_v0_detect_written_unconditional.
Proof.
  intro H.
  specialize (H toy_bgzf toy_gunzip (proj1 c20_oracle_premises_satisfiable)
                (proj1 (proj2 c20_oracle_premises_satisfiable))
                (proj2 (proj2 c20_oracle_premises_satisfiable))
                Bam CBgzf false (toy_bgzf (bam_payload [])) 1%nat (le_n 1) (WBam toy_bgzf [])).
  vm_compute in H. discriminate.
Qed.
Print Assumptions c20_v0_detect_written_unconditional_refuted.

(* formerly F13: the BGZF-compressed SAM of an empty header and no records, delivered whole *)
Example c20_example_f13_repaired :
  written_a toy_bgzf Sam CBgzf false (toy_bgzf (sam_text [] [])) /\
  detect_a (window (toy_bgzf (sam_text [] [])) 100) (toy_gunzip (window (toy_bgzf (sam_text [] [])) 100))
    = Ok (Sam, CBgzf).
Proof. split; [apply (WSamGz toy_bgzf [] []); reflexivity|vm_compute; reflexivity]. Qed.

(* formerly F14: header-less SAM whose first read is named "CRAM1", resp. exactly "CRAM" *)
Example c20_example_f14_repaired :
  let recs1 := [mk_sam_line (Some [67; 82; 65; 77; 49]) [52; 9; 42]] in
  let recs2 := [mk_sam_line (Some [67; 82; 65; 77]) [52; 9; 42]] in
  forallb sam_line_ok recs1 = true /\ sam_first_name_cram [] recs1 = true /\
  detect_a (window (sam_text [] recs1) 100) (mk_inflated [] None) = Ok (Sam, CNone) /\
  detect_a (window (sam_text [] recs2) 100) (mk_inflated [] None) = Ok (Sam, CNone) /\
  detect_a (window (cram_stream 3 0 [0; 0]) 100) (mk_inflated [] None) = Ok (Cram, CNone) /\
  cram_major_ok 1 = true /\ cram_major_ok 2 = true /\ cram_major_ok 3 = true /\ cram_major_ok 4 = true.
Proof. repeat split. Qed.

Example c20_example_samgz :
  let s := toy_bgzf (sam_text [] [mk_sam_line (Some [114; 49]) [52; 9; 42]]) in
  written_a toy_bgzf Sam CBgzf false s /\
  detect_a (window s 100) (toy_gunzip (window s 100)) = Ok (Sam, CBgzf).
Proof. split; [apply WSamGz; reflexivity|vm_compute; reflexivity]. Qed.

Example c20_example_bam :
  detect_a (window (toy_bgzf (bam_payload [0;0;0;0])) 8192) (toy_gunzip (window (toy_bgzf (bam_payload [0;0;0;0])) 8192))
    = Ok (Bam, CBgzf)
  /\ detect_v (window (bcf_payload [0]) 3) (mk_inflated [] None) = Ok (Bcf, CNone).
Proof. split; vm_compute; reflexivity. Qed.

(* ======================================================================================== *)
(* Deepening round 2.                                                                        *)

(* ---- (1) the window over a source with a delivery script -------------------------------- *)

(* HEAD (5c79ec5): the builders read the first 8 KiB ahead with take(8192).read_to_end:
   whatever the script (read sizes, Interrupted results), the window is the first 8 KiB of the
   stream *)
Theorem c20_window : forall src,
  first_window_fix src = WOk (firstn BUF_CAP (s_data src)).
Proof. exact first_window_fix_spec. Qed.
Print Assumptions c20_window.

(* history (before 5c79ec5): one read; [window s k] above is "the first read delivers k bytes" *)
Theorem c20_v0_window : forall s sc,
  first_window_cur (mkSource s sc) =
    match sc with
    | [] => WOk (firstn BUF_CAP s)
    | Interrupted :: _ => WInterrupted
    | Deliver k :: _ => WOk (window s (Nat.max k 1))
    end.
Proof. exact first_window_cur_spec. Qed.
Print Assumptions c20_v0_window.

(* THE MAIN THEOREM (HEAD): every stream of the generic writers is detected as written for EVERY
   delivery script -- no condition on read sizes.  Fourth oracle premise
   H_window: from the first 8 KiB of a BGZF stream the decoder gets the 4 bytes asked for, unless
   the whole stream fits the window (checked on the real libraries by the hz cases). *)
Theorem c20_detect_written :
  forall (bgzf : list N -> list N) (gunzip : list N -> inflated)
    (H_magic : forall p, exists r, bgzf p = 31 :: 139 :: r)
    (H_prefix : forall p m, exists n, avail (gunzip (firstn m (bgzf p))) = firstn n p)
    (H_whole : forall p, gunzip (bgzf p) = mk_inflated p None)
    (H_window : forall p, (4 <= length (avail (gunzip (firstn BUF_CAP (bgzf p)))))%nat \/
                          (length (bgzf p) <= BUF_CAP)%nat),
  forall f c amb s sc,
    written_a bgzf f c amb s ->
    build_src_a true None None gunzip (mkSource s sc) = BOk (f, c).
Proof. exact detect_written_repaired_a. Qed.
Print Assumptions c20_detect_written.

Theorem c20_detect_written_variant :
  forall (bgzf : list N -> list N) (gunzip : list N -> inflated)
    (H_magic : forall p, exists r, bgzf p = 31 :: 139 :: r)
    (H_prefix : forall p m, exists n, avail (gunzip (firstn m (bgzf p))) = firstn n p)
    (H_whole : forall p, gunzip (bgzf p) = mk_inflated p None)
    (H_window : forall p, (4 <= length (avail (gunzip (firstn BUF_CAP (bgzf p)))))%nat \/
                          (length (bgzf p) <= BUF_CAP)%nat),
  forall f c s sc,
    written_v bgzf f c s ->
    build_src_v true None None gunzip (mkSource s sc) = BOk (f, c).
Proof. exact detect_written_repaired_v. Qed.
Print Assumptions c20_detect_written_variant.

(* the decision is a function of the stream alone (any stream, any overrides) *)
Theorem c20_script_independent :
  forall gunzip oc ofa ofv s sc sc',
    build_src_a true oc ofa gunzip (mkSource s sc) = build_src_a true oc ofa gunzip (mkSource s sc') /\
    build_src_v true oc ofv gunzip (mkSource s sc) = build_src_v true oc ofv gunzip (mkSource s sc').
Proof.
  intros. split; [apply build_src_fix_script_independent_a|apply build_src_fix_script_independent_v].
Qed.
Print Assumptions c20_script_independent.

(* history (before 5c79ec5): the window conditions are about the first delivery; an
   Interrupted first read made the builder fail with ErrorKind::Interrupted *)
Theorem c20_v0_detect_written_first_delivery :
  forall (bgzf : list N -> list N) (gunzip : list N -> inflated)
    (H_magic : forall p, exists r, bgzf p = 31 :: 139 :: r)
    (H_prefix : forall p m, exists n, avail (gunzip (firstn m (bgzf p))) = firstn n p)
    (H_whole : forall p, gunzip (bgzf p) = mk_inflated p None),
  forall f c amb s k sc,
    written_a bgzf f c amb s -> window_ok_a gunzip f c amb s (Nat.max k 1) ->
    build_src_a false None None gunzip (mkSource s (Deliver k :: sc)) = BOk (f, c).
Proof. exact detect_written_current_a. Qed.
Print Assumptions c20_v0_detect_written_first_delivery.

Theorem c20_v0_interrupted_first_read : forall gunzip s sc,
  build_src_a false None None gunzip (mkSource s (Interrupted :: sc)) = BInterrupted /\
  build_src_v false None None gunzip (mkSource s (Interrupted :: sc)) = BInterrupted.
Proof. exact current_interrupted_first_read. Qed.
Print Assumptions c20_v0_interrupted_first_read.

(* the toy oracle also satisfies the fourth premise *)
Example c20_oracle_premise_window_satisfiable : forall p,
  (4 <= length (avail (toy_gunzip (firstn BUF_CAP (toy_bgzf p)))))%nat \/
  (length (toy_bgzf p) <= BUF_CAP)%nat.
Proof.
  intro p. unfold toy_gunzip, toy_bgzf. cbn [avail].
  assert (C : (6 <= BUF_CAP)%nat) by (apply PeanoNat.Nat.leb_le; reflexivity).
  rewrite skipn_length, firstn_length. cbn [length].
  revert C. generalize BUF_CAP. intros c C.
  destruct (PeanoNat.Nat.le_gt_cases 4 (length p)) as [H|H].
  - left. apply PeanoNat.Nat.le_add_le_sub_r.
    apply PeanoNat.Nat.min_glb; [exact C|]. cbn. do 2 apply le_n_S. exact H.
  - right. apply PeanoNat.Nat.le_trans with 6%nat; [|exact C].
    do 2 apply le_n_S. apply PeanoNat.Nat.lt_le_incl. exact H.
Qed.

(* ---- (2) path extensions ------------------------------------------------------------------ *)

(* the conventional names select the conventional writer, for every non-empty stem *)
Theorem c20_conventional_names : forall a stem, stem <> [] ->
  build_writer_path_a a None None (stem ++ 46 :: X_SAM) = Ok KSam /\
  build_writer_path_a a None None (stem ++ 46 :: X_BAM) = Ok KBam /\
  build_writer_path_a a None None (stem ++ 46 :: X_CRAM) = Ok KCram /\
  build_writer_path_a a None None ((stem ++ 46 :: X_SAM) ++ 46 :: X_GZ) = Ok KSamGz /\
  build_writer_path_a a None None ((stem ++ 46 :: X_SAM) ++ 46 :: X_BGZ) = Ok KSamGz.
Proof. exact conventional_names_a. Qed.
Print Assumptions c20_conventional_names.

Theorem c20_conventional_names_variant : forall stem, stem <> [] ->
  build_writer_path_v None None (stem ++ 46 :: X_VCF) = KVcf /\
  build_writer_path_v None None (stem ++ 46 :: X_BCF) = KBcf /\
  build_writer_path_v None None ((stem ++ 46 :: X_VCF) ++ 46 :: X_GZ) = KVcfGz /\
  build_writer_path_v None None ((stem ++ 46 :: X_VCF) ++ 46 :: X_BGZ) = KVcfGz.
Proof. exact conventional_names_v. Qed.
Print Assumptions c20_conventional_names_variant.

(* with nothing set every name builds a writer, and which one depends on the extension only *)
Theorem c20_path_autodetect_total : forall a name,
  build_writer_path_a a None None name =
    match extension name with
    | Some e =>
        if eqb_bytes e X_SAM then Ok KSam
        else if eqb_bytes e X_BAM then Ok KBam
        else if eqb_bytes e X_CRAM then Ok KCram
        else if is_gz_ext e then Ok KSamGz
        else Ok KSam
    | None => Ok KSam
    end.
Proof. exact path_autodetect_total_a. Qed.
Print Assumptions c20_path_autodetect_total.

Theorem c20_path_autodetect_total_variant : forall name,
  build_writer_path_v None None name =
    match extension name with
    | Some e =>
        if eqb_bytes e X_VCF then KVcf
        else if eqb_bytes e X_BCF then KBcf
        else if is_gz_ext e then KVcfGz
        else KVcf
    | None => KVcf
    end.
Proof. exact path_autodetect_total_v. Qed.
Print Assumptions c20_path_autodetect_total_variant.

(* ---- (3) the inner dispatch --------------------------------------------------------------- *)

(* every builder ends in the same total table (format, compression) -> Inner variant: the variant
   names its pair, every variant is reached from its pair, and the only pair without a variant is
   (CRAM, BGZF) *)
Theorem c20_inner_dispatch :
  (forall e f c k, inner_a e f c = Ok k -> akind_fmt k = f /\ akind_comp k = c) /\
  (forall e k, inner_a e (akind_fmt k) (akind_comp k) = Ok k) /\
  (forall e f c e', inner_a e f c = Err e' -> f = Cram /\ c = CBgzf /\ e' = e) /\
  (forall f c, vkind_fmt (inner_v f c) = f /\ vkind_comp (inner_v f c) = c) /\
  (forall k, inner_v (vkind_fmt k) (vkind_comp k) = k).
Proof.
  split; [exact inner_a_sound|]. split; [exact inner_a_complete|]. split; [exact inner_a_err|].
  split; [exact inner_v_sound|exact inner_v_complete].
Qed.
Print Assumptions c20_inner_dispatch.

(* every configuration of the writer builders (sync and async): the reader builder constructs,
   for the pair the writer was built for, the variant with the same codec and framing *)
Theorem c20_writer_reader_counterpart :
  (forall a oc ofm k, build_writer_a a oc ofm = Ok k ->
     writer_pair_a oc ofm = (akind_fmt k, akind_comp k) /\
     inner_a InvalidData (akind_fmt k) (akind_comp k) = Ok k) /\
  (forall oc ofm,
     writer_pair_v oc ofm = (vkind_fmt (build_writer_v oc ofm), vkind_comp (build_writer_v oc ofm))) /\
  (forall a oc ofm e, build_writer_a a oc ofm = Err e <->
     (ofm = Some Cram /\ oc = Some CBgzf /\ e = writer_cram_bgzf_err a)).
Proof.
  split; [exact writer_reader_counterpart_a|]. split; [exact writer_reader_counterpart_v|].
  exact build_writer_a_err.
Qed.
Print Assumptions c20_writer_reader_counterpart.

Theorem c20_writer_defaults :
  (forall a, build_writer_a a None None = Ok KSam) /\
  (forall a, build_writer_a a None (Some Sam) = Ok KSam) /\
  (forall a, build_writer_a a None (Some Bam) = Ok KBam) /\
  (forall a, build_writer_a a None (Some Cram) = Ok KCram) /\
  build_writer_v None None = KVcf /\ build_writer_v None (Some Vcf) = KVcf /\
  build_writer_v None (Some Bcf) = KBcf.
Proof. exact writer_defaults. Qed.
Print Assumptions c20_writer_defaults.

(* the autodetecting reader builder constructs, for a stream of writer variant k, reader variant k *)
Theorem c20_reader_variant_of_writer :
  forall (bgzf : list N -> list N) (gunzip : list N -> inflated)
    (H_magic : forall p, exists r, bgzf p = 31 :: 139 :: r)
    (H_prefix : forall p m, exists n, avail (gunzip (firstn m (bgzf p))) = firstn n p)
    (H_whole : forall p, gunzip (bgzf p) = mk_inflated p None),
  (forall k amb s n,
     written_by_a bgzf k amb s -> window_ok_a gunzip (akind_fmt k) (akind_comp k) amb s n ->
     build_reader_kind_a None None (window s n) (gunzip (window s n)) = Ok k) /\
  (forall k s n,
     written_by_v bgzf k s -> window_ok_v gunzip (vkind_fmt k) (vkind_comp k) s n ->
     build_reader_kind_v None None (window s n) (gunzip (window s n)) = Ok k).
Proof.
  intros. split; [apply reader_variant_of_writer_a|apply reader_variant_of_writer_v]; assumption.
Qed.
Print Assumptions c20_reader_variant_of_writer.

(* path -> writer variant -> its stream -> repaired reader builder over any delivery script:
   the pair of that variant *)
Theorem c20_path_writer_reader_roundtrip :
  forall (bgzf : list N -> list N) (gunzip : list N -> inflated)
    (H_magic : forall p, exists r, bgzf p = 31 :: 139 :: r)
    (H_prefix : forall p m, exists n, avail (gunzip (firstn m (bgzf p))) = firstn n p)
    (H_whole : forall p, gunzip (bgzf p) = mk_inflated p None)
    (H_window : forall p, (4 <= length (avail (gunzip (firstn BUF_CAP (bgzf p)))))%nat \/
                          (length (bgzf p) <= BUF_CAP)%nat),
  (forall a name k amb s sc,
     build_writer_path_a a None None name = Ok k -> written_by_a bgzf k amb s ->
     build_src_a true None None gunzip (mkSource s sc) = BOk (akind_fmt k, akind_comp k) /\
     inner_a InvalidData (akind_fmt k) (akind_comp k) = Ok k) /\
  (forall name s sc,
     written_by_v bgzf (build_writer_path_v None None name) s ->
     build_src_v true None None gunzip (mkSource s sc)
       = BOk (vkind_fmt (build_writer_path_v None None name), vkind_comp (build_writer_path_v None None name))).
Proof.
  intros. split.
  - intros. eapply path_writer_reader_roundtrip_a; eassumption.
  - intros. eapply path_writer_reader_roundtrip_v; eassumption.
Qed.
Print Assumptions c20_path_writer_reader_roundtrip.

(* ---- (2b) indexed readers and index discovery --------------------------------------------- *)

(* no index set: the candidates <src>.<ext> are tried in a fixed order; the first one that is not
   missing decides (a usable one is loaded; an unusable one is the error, later candidates are not
   tried); all missing: NotFound *)
Theorem c20_index_discovery :
  (forall k d, indexable_a k = true -> discover_a k PNone d = first_present d (candidates_a k)) /\
  (forall k d, indexable_v k = true -> discover_v k PNone d = first_present d (candidates_v k)) /\
  candidates_a KSamGz = [XCsi] /\ candidates_a KBam = [XBai; XCsi] /\ candidates_a KCram = [XCrai] /\
  candidates_v KVcfGz = [XTbi; XCsi] /\ candidates_v KBcf = [XCsi].
Proof.
  split; [exact discover_a_spec|]. split; [exact discover_v_spec|]. repeat split.
Qed.
Print Assumptions c20_index_discovery.

Theorem c20_index_preset : forall d,
  discover_a KSamGz PBinning d = IOk FromBuilder /\ discover_a KBam PBinning d = IOk FromBuilder /\
  discover_a KCram PCrai d = IOk FromBuilder /\
  discover_a KSamGz PCrai d = discover_a KSamGz PNone d /\
  discover_a KBam PCrai d = discover_a KBam PNone d /\
  discover_a KCram PBinning d = discover_a KCram PNone d /\
  discover_v KVcfGz PBinning d = IOk FromBuilder /\ discover_v KBcf PBinning d = IOk FromBuilder.
Proof. exact discover_preset. Qed.
Print Assumptions c20_index_preset.

Theorem c20_index_precedence : forall d,
  (d XBai = FValid -> discover_a KBam PNone d = IOk (FromFile XBai)) /\
  (d XBai = FMissing -> d XCsi = FValid -> discover_a KBam PNone d = IOk (FromFile XCsi)) /\
  (forall e, e <> ENotFound -> d XBai = FBad e -> discover_a KBam PNone d = IErr e) /\
  (d XTbi = FValid -> discover_v KVcfGz PNone d = IOk (FromFile XTbi)) /\
  (d XTbi = FMissing -> d XCsi = FValid -> discover_v KVcfGz PNone d = IOk (FromFile XCsi)) /\
  (forall e, e <> ENotFound -> d XTbi = FBad e -> discover_v KVcfGz PNone d = IErr e).
Proof. exact discover_precedence. Qed.
Print Assumptions c20_index_precedence.

Theorem c20_index_only_valid_candidates :
  (forall k p d x, discover_a k p d = IOk (FromFile x) -> In x (candidates_a k) /\ d x = FValid) /\
  (forall k p d x, discover_v k p d = IOk (FromFile x) -> In x (candidates_v k) /\ d x = FValid) /\
  (forall k p s, preset_only_a k p = IOk s -> s = FromBuilder) /\
  (forall k p s, preset_only_v k p = IOk s -> s = FromBuilder) /\
  (forall k, indexable_a k = true -> preset_only_a k PNone = IErr EInvalidInput) /\
  (forall k, indexable_v k = true -> preset_only_v k PNone = IErr EInvalidInput).
Proof.
  split; [exact discover_a_from_file|]. split; [exact discover_v_from_file|]. exact preset_only_spec.
Qed.
Print Assumptions c20_index_only_valid_candidates.

(* the indexed builders accept exactly the pairs whose Inner variant is BGZF SAM/BAM/VCF/BCF or
   CRAM -- i.e. what the conventional names x.sam.gz, x.bam, x.cram, x.vcf.gz, x.bcf produce *)
Theorem c20_indexed_pairs :
  (forall f c, indexed_kind_a f c =
     match inner_a InvalidData f c with
     | Ok k => if indexable_a k then IOk k else IErr EInvalidData
     | Err _ => IErr EInvalidData
     end) /\
  (forall f c, indexed_kind_v f c = if indexable_v (inner_v f c) then IOk (inner_v f c) else IErr EInvalidData).
Proof. split; [exact indexed_kind_a_spec|exact indexed_kind_v_spec]. Qed.
Print Assumptions c20_indexed_pairs.

(* index file names *)
Theorem c20_index_paths :
  (forall src x y, index_path src x = index_path src y -> x = y) /\
  (forall src x, src <> [] ->
     extension (index_path src x) = Some (iext_bytes x) /\ file_stem (index_path src x) = src).
Proof. split; [exact index_path_injective|exact index_path_extension]. Qed.
Print Assumptions c20_index_paths.

(* ---- (4) finish --------------------------------------------------------------------------- *)

Theorem c20_finish_table :
  (forall k, finish_v Sync k = (if is_bgzf_kind k then BgzfTryFinish else BufFlush) /\
             finish_v Async k = AsyncShutdown) /\
  (forall k, finish_a Sync k = match k with
                               | KCram => CramFinish
                               | _ => match akind_comp k with CBgzf => BgzfTryFinish | CNone => BufFlush end
                               end /\
             finish_a Async k = AsyncShutdown).
Proof. split; [exact finish_v_table|exact finish_a_table]. Qed.
Print Assumptions c20_finish_table.

(* variant::io::Writer::finish over a destination that accepts everything (block-level model):
   after a run that ends with finish nothing is pending and everything written is at the
   destination in order; a BGZF stream then ends with the EOF block; finish is idempotent and
   dropping a finished writer adds nothing *)
Theorem c20_variant_writer_finish :
  (forall k ops, let st := vw_run k (ops ++ [OpFinish]) in
     vw_pending st = [] /\ vw_delivered st = ops_payload ops) /\
  (forall k ops, let st := vw_run k ops in
     is_bgzf_kind k = true ->
     vw_fin (vw_finish st) = true /\ (1 <= vw_eofs (vw_finish st))%nat) /\
  (forall st, vw_finish (vw_finish st) = vw_finish st) /\
  (forall st, vw_drop (vw_finish st) = vw_finish st).
Proof.
  split; [exact vw_run_finished|]. split; [|split; [exact vw_finish_idempotent|exact vw_drop_after_finish]].
  intros k ops st Hk.
  destruct (vw_finish_complete st (vw_run_inv k ops)) as [_ [_ [_ H]]].
  apply H. unfold st. clear H. revert Hk.
  assert (G : forall ops s, vw_kind (fold_left vw_step ops s) = vw_kind s).
  { induction ops0 as [|o ops0 IH]; intro s; [reflexivity|]. cbn [fold_left]. rewrite IH.
    destruct o; [reflexivity|apply vw_finish_kind]. }
  unfold vw_run. rewrite G. cbn [vw_new vw_kind]. exact (fun x => x).
Qed.
Print Assumptions c20_variant_writer_finish.

(* non-vacuity: concrete runs *)
Example c20_example_finish :
  let st := vw_run KVcfGz [OpWrite [35; 35]; OpFinish; OpFinish; OpWrite [49]; OpFinish] in
  vw_delivered st = [35; 35; 49] /\ vw_blocks st = 2%nat /\ vw_eofs st = 2%nat /\ vw_fin st = true /\
  vw_eofs (vw_run KBcf [OpFinish; OpFinish]) = 1%nat /\
  vw_delivered (vw_run KVcf [OpWrite [35]; OpFinish]) = [35] /\
  vw_delivered (vw_run KVcf [OpWrite [35]]) = [].
Proof. repeat split. Qed.

Example c20_example_paths :
  build_writer_path_a Sync None None [120; 46; 115; 97; 109; 46; 103; 122] = Ok KSamGz /\  (* x.sam.gz *)
  build_writer_path_a Sync None None [120; 46; 103; 122] = Ok KSamGz /\                  (* x.gz *)
  build_writer_path_a Sync None (Some Cram) [120; 46; 103; 122] = Err InvalidInput /\    (* CRAM to x.gz *)
  build_writer_path_a Async None (Some Cram) [120; 46; 103; 122] = Err InvalidData /\
  build_writer_path_a Sync None None [120] = Ok KSam /\
  build_writer_path_v None None [120; 46; 98; 99; 102; 46; 103; 122] = KVcfGz /\         (* x.bcf.gz: VCF! *)
  index_path [120; 46; 98; 97; 109] XBai = [120; 46; 98; 97; 109; 46; 98; 97; 105].      (* x.bam.bai *)
Proof. repeat split. Qed.

(* ======================================================================================== *)
(* Deepening round 4.                                                                        *)

(* ---- (5) the async reader builders --------------------------------------------------------- *)

(* the async builders read ahead with tokio's take(8192).read_to_end over a source that answers
   every poll as its script says (Pending / Ready with at most k bytes; C16's asource): for EVERY
   poll script and every sequence of request sizes the window is the first 8 KiB of the stream,
   and Cursor(prefix).chain(reader) then delivers the whole stream *)
Theorem c20_async_window : forall req data polls,
  first_window_async req (mkASource data polls) = WOk (firstn BUF_CAP data) /\
  async_chained req (mkASource data polls) = data.
Proof. intros. split; [apply first_window_async_spec|apply async_chained_spec]. Qed.
Print Assumptions c20_async_window.

(* the sync read-ahead loses nothing either: prefix ++ what is left in the source = the stream *)
Theorem c20_read_ahead_lossless : forall src, sync_chained src = s_data src.
Proof. exact sync_chained_spec. Qed.
Print Assumptions c20_read_ahead_lossless.

(* async detection = sync detection: any overrides, any stream, any poll script, any request
   sizes, any sync delivery script *)
Theorem c20_async_detection_equals_sync :
  (forall oc ofm gunzip req s polls sc,
     build_async_a oc ofm gunzip req (mkASource s polls) = build_src_a true oc ofm gunzip (mkSource s sc)) /\
  (forall oc ofm gunzip req s polls sc,
     build_async_v oc ofm gunzip req (mkASource s polls) = build_src_v true oc ofm gunzip (mkSource s sc)).
Proof. split; [exact build_async_eq_sync_a|exact build_async_eq_sync_v]. Qed.
Print Assumptions c20_async_detection_equals_sync.

(* hence every stream of the generic writers is detected as written by the async builders *)
Theorem c20_detect_written_async :
  forall (bgzf : list N -> list N) (gunzip : list N -> inflated)
    (H_magic : forall p, exists r, bgzf p = 31 :: 139 :: r)
    (H_prefix : forall p m, exists n, avail (gunzip (firstn m (bgzf p))) = firstn n p)
    (H_whole : forall p, gunzip (bgzf p) = mk_inflated p None)
    (H_window : forall p, (4 <= length (avail (gunzip (firstn BUF_CAP (bgzf p)))))%nat \/
                          (length (bgzf p) <= BUF_CAP)%nat),
  (forall f c amb s req polls, written_a bgzf f c amb s ->
     build_async_a None None gunzip req (mkASource s polls) = BOk (f, c)) /\
  (forall f c s req polls, written_v bgzf f c s ->
     build_async_v None None gunzip req (mkASource s polls) = BOk (f, c)).
Proof.
  intros. split; intros.
  - eapply detect_written_async_a; eassumption.
  - eapply detect_written_async_v; eassumption.
Qed.
Print Assumptions c20_detect_written_async.

Example c20_example_async :
  let polls := [PPending; PReady 1; PPending; PPending; PReady 2; PReady 1] in
  build_async_a None None toy_gunzip (fun _ => 32%nat) (mkASource (toy_bgzf (bam_payload [0;0;0;0])) polls)
    = BOk (Bam, CBgzf) /\
  build_async_v None None toy_gunzip (fun _ => 1%nat) (mkASource (bcf_payload [0]) polls) = BOk (Bcf, CNone) /\
  async_window_case [0; 2; 0; 3]%nat 7%nat [66; 65; 77; 1; 9] = (WOk [66; 65; 77; 1; 9], [66; 65; 77; 1; 9]).
Proof. repeat split; vm_compute; reflexivity. Qed.

(* ---- (6) conversions SAM <-> BAM, record by record ------------------------------------------ *)
From Coq Require Import ZArith.
From NV Require Import Base.Decimal Sam.Fields Sam.FieldsProofs Sam.Record Sam.RecordProofs Sam.BamAgree
                       Util.Convert Util.ConvertProofs.
From NV Require Bam.Record Bam.Encode Bam.Decode Bam.CodecProofs.

(* Content preservation through the generic reader and writer is a corollary of C06's record
   round trip, C05's BAM codec theorem and the data-model bridge of NV.Sam.BamAgree (imported
   read-only).  Float text is C06's oracle (four premises).  wf_rec / wf_bits / wf_refs: C06's
   domain (flags < 4096, MAPQ <= 255, CIGAR operations well formed, TLEN in i32, field values in
   the range of their type, distinct tags; distinct valid reference names); the single quality
   score 9 (the text `*`) is excluded as in C06.

   SAM -> BAM: the line the SAM writer emits for r goes through the generic reader (lazy record:
   integer fields typed Int32/UInt32 -- [lazy_i]) into the BAM writer.  Either the BAM encoder
   rejects it, or the block decodes to exactly norm (to_bam_d (lazy_i (norm_i r))), which is r's
   BAM form up to: integer tags by value, bases in BAM's 16-letter alphabet, a user CG field
   dropped.  Every other column, every other field, their order: unchanged. *)
Theorem c20_convert_sam_to_bam :
  forall (fmt32 fmtd32 : N -> bytes) (parse32 : bytes -> option N) (parse32p : bytes -> option (N * bytes)),
    (forall b, finite32 b = true -> parse32 (fmt32 b) = Some b) ->
    (forall b, PR (fmt32 b)) ->
    (forall b rest, finite32 b = true -> (rest = [] \/ exists r, rest = 44 :: r) ->
                    parse32p (fmtd32 b ++ rest) = Some (b, rest)) ->
    (forall b, PR (fmtd32 b)) ->
    forall refs r t,
      wf_refs refs -> wf_rec r -> wf_bits r -> r_qual r <> [9] ->
      write_record fmt32 fmtd32 refs r = Some t ->
      match convert_sam_bam parse32 parse32p refs t with
      | CvOk out =>
          Bam.Decode.decode out = Bam.Record.Ok (Bam.CodecProofs.norm (to_bam_d (lazy_i (norm_i r))))
          /\ by_value (Bam.CodecProofs.norm (to_bam_d (lazy_i (norm_i r))))
             = by_value (Bam.CodecProofs.norm (to_bam_d r))
      | CvWriteErr =>
          exists e, Bam.Encode.encode (Bam.Record.lenN refs) (to_bam_d (lazy_i (norm_i r))) = Bam.Record.Err e
      | _ => False
      end.
Proof. exact convert_sam_bam_preserves. Qed.
Print Assumptions c20_convert_sam_to_bam.

(* BAM -> SAM: the block the BAM writer emits for r goes through the generic reader into the SAM
   writer.  Either the SAM writer rejects it, or the line parses to r with bases in BAM's
   alphabet, a user CG field dropped (norm_s) and integer tags in the smallest type (norm_i). *)
Theorem c20_convert_bam_to_sam :
  forall (fmt32 fmtd32 : N -> bytes) (parse32 : bytes -> option N) (parse32p : bytes -> option (N * bytes)),
    (forall b, finite32 b = true -> parse32 (fmt32 b) = Some b) ->
    (forall b, PR (fmt32 b)) ->
    (forall b rest, finite32 b = true -> (rest = [] \/ exists r, rest = 44 :: r) ->
                    parse32p (fmtd32 b ++ rest) = Some (b, rest)) ->
    (forall b, PR (fmtd32 b)) ->
    forall refs nref r block,
      wf_refs refs -> wf_rec r -> wf_bits r -> r_qual r <> [9] ->
      Bam.Encode.encode nref (to_bam_d r) = Bam.Record.Ok block ->
      match convert_bam_sam fmt32 fmtd32 refs block with
      | CvOk t => parse_line parse32 parse32p refs t = POk (norm_i (norm_s r))
      | CvWriteErr => write_record fmt32 fmtd32 refs (norm_s r) = None
      | _ => False
      end.
Proof. exact convert_bam_sam_preserves. Qed.
Print Assumptions c20_convert_bam_to_sam.

(* SAM -> BAM -> SAM: what comes back is r up to the same three normalisations *)
Theorem c20_convert_sam_bam_sam :
  forall (fmt32 fmtd32 : N -> bytes) (parse32 : bytes -> option N) (parse32p : bytes -> option (N * bytes)),
    (forall b, finite32 b = true -> parse32 (fmt32 b) = Some b) ->
    (forall b, PR (fmt32 b)) ->
    (forall b rest, finite32 b = true -> (rest = [] \/ exists r, rest = 44 :: r) ->
                    parse32p (fmtd32 b ++ rest) = Some (b, rest)) ->
    (forall b, PR (fmtd32 b)) ->
    forall refs r t out,
      wf_refs refs -> wf_rec r -> wf_bits r -> r_qual r <> [9] ->
      write_record fmt32 fmtd32 refs r = Some t ->
      convert_sam_bam parse32 parse32p refs t = CvOk out ->
      match convert_bam_sam fmt32 fmtd32 refs out with
      | CvOk t' => parse_line parse32 parse32p refs t' = POk (norm_i (norm_s r))
      | CvWriteErr => write_record fmt32 fmtd32 refs (norm_s (lazy_i (norm_i r))) = None
      | _ => False
      end.
Proof. exact convert_sam_bam_sam. Qed.
Print Assumptions c20_convert_sam_bam_sam.

(* The file level, SAM -> BAM: the header text and the lines the SAM writer emits for a whole data
   set (h, rs), piped through the generic reader into the generic BAM writer (uncompressed
   stream).  Either the BAM writer rejects the header or a record, or the BAM reader
   (C05's Bam.File.read_file: header block, then records until the clean end) reads the produced
   stream to its END as the same header and, record for record and in order, r's BAM form up to
   the three normalisations above.  (How sam::io::Reader cuts the stream into header and lines is
   not part of the model: the input is given as header text + list of lines.) *)
From NV Require Import Sam.Header Sam.HeaderProofs Util.ConvertFile Util.ConvertFileProofs.
From NV Require Bam.File.
Theorem c20_convert_sam_to_bam_file :
  forall (fmt32 fmtd32 : N -> bytes) (parse32 : bytes -> option N) (parse32p : bytes -> option (N * bytes)),
    (forall b, finite32 b = true -> parse32 (fmt32 b) = Some b) ->
    (forall b, PR (fmt32 b)) ->
    (forall b rest, finite32 b = true -> (rest = [] \/ exists r, rest = 44 :: r) ->
                    parse32p (fmtd32 b ++ rest) = Some (b, rest)) ->
    (forall b, PR (fmtd32 b)) ->
    forall h t rs lines,
      wf_header h -> wf_refs (map sq_name (h_sq h)) ->
      Forall (fun r => wf_rec r /\ wf_bits r /\ r_qual r <> [9]) rs ->
      write_header h = Some t ->
      written_lines fmt32 fmtd32 (map sq_name (h_sq h)) rs lines ->
      match convert_sam_bam_file parse32 parse32p t lines with
      | CfOk file =>
          Bam.File.read_file file
          = Bam.Record.Ok (h, (map (fun r => Bam.CodecProofs.norm (to_bam_d (lazy_i (norm_i r)))) rs,
                               Bam.File.EndEof))
          /\ Forall (fun r => by_value (Bam.CodecProofs.norm (to_bam_d (lazy_i (norm_i r))))
                              = by_value (Bam.CodecProofs.norm (to_bam_d r))) rs
      | CfWriteErr => True
      | _ => False
      end.
Proof. exact convert_sam_bam_file_preserves. Qed.
Print Assumptions c20_convert_sam_to_bam_file.

(* what stays open (kept visible): the generic statement below for CRAM (C07's container model);
   for SAM <-> BAM (file level, from bytes, through BGZF) and VCF <-> BCF (records and the record
   section of a file) it is proved further down (round 7) on the domains of C05/C06/C09/C10; the
   VCF/BCF HEADER block of a converted file (the header text is copied; hctx and the string maps
   as functions of the header) is C09/C10 territory and an input of the variant models. *)
Definition c20_conversions_full_statement
    (A B : Type) (read_a : list N -> option (list A)) (write_b : list A -> option (list N))
    (read_b : list N -> option (list B)) (same : A -> B -> Prop) : Prop :=
  forall file recs out, read_a file = Some recs -> write_b recs = Some out ->
    exists recs', read_b out = Some recs' /\ Forall2 same recs recs'.

(* non-vacuity: a record with an integer tag, a CG user field and lower-case bases, no floats *)
Example c20_example_convert :
  let refs := [[115; 113; 48]] in
  let line := [114; 9; 48; 9; 115; 113; 48; 9; 51; 9; 51; 48; 9; 50; 77; 9; 42; 9; 48; 9; 48; 9;
               97; 78; 9; 73; 73; 9; 78; 72; 58; 105; 58; 55; 10] in   (* r 0 sq0 3 30 2M * 0 0 aN II NH:i:7 *)
  exists out t',
    convert_sam_bam (fun _ => None) (fun _ => None) refs line = CvOk out /\
    convert_bam_sam (fun _ => []) (fun _ => []) refs out = CvOk t' /\
    t' = [114; 9; 48; 9; 115; 113; 48; 9; 51; 9; 51; 48; 9; 50; 77; 9; 42; 9; 48; 9; 48; 9;
          65; 78; 9; 73; 73; 9; 78; 72; 58; 105; 58; 55; 10].            (* ... AN II NH:i:7 *)
Proof. eexists. eexists. split; [vm_compute; reflexivity|]. split; vm_compute; reflexivity. Qed.

(* ==================================================================================== *)
(* Deepening round 7: conversions at FILE level from bytes, through BGZF, and VCF <-> BCF. *)
From NV Require Import Util.ConvertFile2 Util.ConvertFile2Proofs.
From NV Require Sam.File Bgzf.Frame Bgzf.Writer Bgzf.Reader Bgzf.Inflate.

(* SAM -> BAM for a whole data set FROM BYTES: the input is the text the SAM writer emits for
   (h, rs) -- one byte string; the split into header and record lines is the reader's (C06's
   Sam.File.read_file: read_header through the header adapter, then read_record per line until
   Ok(0)), no longer an input.  Conclusion as c20_convert_sam_to_bam_file, with the write-error arm
   spelled out. *)
Theorem c20_convert_sam_to_bam_bytes :
  forall (fmt32 fmtd32 : N -> bytes) (parse32 : bytes -> option N) (parse32p : bytes -> option (N * bytes)),
    (forall b, finite32 b = true -> parse32 (fmt32 b) = Some b) ->
    (forall b, PR (fmt32 b)) ->
    (forall b rest, finite32 b = true -> (rest = [] \/ exists r, rest = 44 :: r) ->
                    parse32p (fmtd32 b ++ rest) = Some (b, rest)) ->
    (forall b, PR (fmtd32 b)) ->
    forall h rs t,
      wf_header h -> wf_refs (Sam.File.refs_of h) ->
      Forall (fun r => wf_rec r /\ wf_bits r /\ r_qual r <> [9]) rs ->
      Sam.File.write_file fmt32 fmtd32 h rs = Some t ->
      match convert_sam_bam_bytes parse32 parse32p t with
      | CfOk file =>
          Bam.File.read_file file
          = Bam.Record.Ok (h, (map (fun r => Bam.CodecProofs.norm (to_bam_d (lazy_i (norm_i r)))) rs,
                               Bam.File.EndEof))
          /\ Forall (fun r => by_value (Bam.CodecProofs.norm (to_bam_d (lazy_i (norm_i r))))
                              = by_value (Bam.CodecProofs.norm (to_bam_d r))) rs
      | CfWriteErr =>
          exists e, Bam.File.write_file h (map (fun r => to_bam_d (lazy_i (norm_i r))) rs) = Bam.Record.Err e
      | _ => False
      end.
Proof. exact convert_sam_bam_bytes_preserves. Qed.
Print Assumptions c20_convert_sam_to_bam_bytes.

(* BAM -> SAM for a whole data set: the uncompressed stream the BAM writer emits for (h, rs)
   through the generic reader (lazy bam::Record per block) into the SAM writer: either the SAM
   writer rejects the header or a record, or the SAM reader reads the produced TEXT (from bytes)
   to its end as the same header and, record for record, r with bases in BAM's alphabet, a user CG
   field dropped and integer tags in the smallest type. *)
Theorem c20_convert_bam_to_sam_file :
  forall (fmt32 fmtd32 : N -> bytes) (parse32 : bytes -> option N) (parse32p : bytes -> option (N * bytes)),
    (forall b, finite32 b = true -> parse32 (fmt32 b) = Some b) ->
    (forall b, PR (fmt32 b)) ->
    (forall b rest, finite32 b = true -> (rest = [] \/ exists r, rest = 44 :: r) ->
                    parse32p (fmtd32 b ++ rest) = Some (b, rest)) ->
    (forall b, PR (fmtd32 b)) ->
    forall h rs file,
      wf_header h -> wf_refs (Sam.File.refs_of h) -> Forall (fun r => wf_rec r /\ wf_bits r) rs ->
      Bam.File.write_file h (map to_bam_d rs) = Bam.Record.Ok file ->
      match convert_bam_sam_file fmt32 fmtd32 file with
      | CbOk text => Sam.File.read_file parse32 parse32p text
                     = Some (h, (map (fun r => norm_rec (norm_s r)) rs, Sam.File.FEof))
      | CbWriteErr => Sam.File.write_file fmt32 fmtd32 h (map norm_s rs) = None
      | _ => False
      end.
Proof. exact convert_bam_sam_file_preserves. Qed.
Print Assumptions c20_convert_bam_to_sam_file.

(* SAM -> BAM -> SAM at file level, from bytes to bytes *)
Theorem c20_convert_sam_bam_sam_file :
  forall (fmt32 fmtd32 : N -> bytes) (parse32 : bytes -> option N) (parse32p : bytes -> option (N * bytes)),
    (forall b, finite32 b = true -> parse32 (fmt32 b) = Some b) ->
    (forall b, PR (fmt32 b)) ->
    (forall b rest, finite32 b = true -> (rest = [] \/ exists r, rest = 44 :: r) ->
                    parse32p (fmtd32 b ++ rest) = Some (b, rest)) ->
    (forall b, PR (fmtd32 b)) ->
    forall h rs t,
      wf_header h -> wf_refs (Sam.File.refs_of h) ->
      Forall (fun r => wf_rec r /\ wf_bits r /\ r_qual r <> [9]) rs ->
      Sam.File.write_file fmt32 fmtd32 h rs = Some t ->
      match convert_sam_bam_sam_bytes fmt32 fmtd32 parse32 parse32p t with
      | Some (CbOk text) => Sam.File.read_file parse32 parse32p text
                            = Some (h, (map (fun r => norm_i (norm_s r)) rs, Sam.File.FEof))
      | Some CbWriteErr => Sam.File.write_file fmt32 fmtd32 h (map (fun r => norm_s (lazy_i (norm_i r))) rs) = None
      | None => exists e, Bam.File.write_file h (map (fun r => to_bam_d (lazy_i (norm_i r))) rs) = Bam.Record.Err e
      | _ => False
      end.
Proof. exact convert_sam_bam_sam_bytes_preserves. Qed.
Print Assumptions c20_convert_sam_bam_sam_file.

(* THE BGZF LAYER at file level, for EVERY codec: deflate / inflate are universally quantified
   under the three premises of C01's writer/reader theorem (the level-0 fallback fits a block;
   inflate inverts deflate on a block; the EOF block's CDATA inflate to nothing).  The stream the
   BAM side writes goes through bgzf::io::Writer (write_all, finish) and is read through
   bgzf::io::Reader::read_to_end: nothing is lost, so both file theorems hold through BGZF. *)
Theorem c20_bgzf_layer_lossless :
  forall (deflate : N -> list N -> list N) (inflate : list N -> N -> option (list N)) (lvl : N),
    (forall x, Bgzf.Frame.lenN x <= Bgzf.Writer.MAX_BUF_SIZE ->
               Bgzf.Frame.lenN (deflate 0 x) <= Bgzf.Writer.MAX_COMPRESSED_SIZE) ->
    (forall l x, Bgzf.Frame.lenN x <= Bgzf.Frame.BGZF_MAX_ISIZE -> inflate (deflate l x) (Bgzf.Frame.lenN x) = Some x) ->
    inflate [3; 0] 0 = Some [] ->
    forall bs, bgzf_unwrap inflate (bgzf_wrap deflate lvl bs) = Some bs.
Proof. exact bgzf_unwrap_wrap. Qed.
Print Assumptions c20_bgzf_layer_lossless.

Theorem c20_convert_sam_to_bam_bgzf :
  forall (fmt32 fmtd32 : N -> bytes) (parse32 : bytes -> option N) (parse32p : bytes -> option (N * bytes)),
    (forall b, finite32 b = true -> parse32 (fmt32 b) = Some b) ->
    (forall b, PR (fmt32 b)) ->
    (forall b rest, finite32 b = true -> (rest = [] \/ exists r, rest = 44 :: r) ->
                    parse32p (fmtd32 b ++ rest) = Some (b, rest)) ->
    (forall b, PR (fmtd32 b)) ->
  forall (deflate : N -> list N -> list N) (inflate : list N -> N -> option (list N)) (lvl : N),
    (forall x, Bgzf.Frame.lenN x <= Bgzf.Writer.MAX_BUF_SIZE ->
               Bgzf.Frame.lenN (deflate 0 x) <= Bgzf.Writer.MAX_COMPRESSED_SIZE) ->
    (forall l x, Bgzf.Frame.lenN x <= Bgzf.Frame.BGZF_MAX_ISIZE -> inflate (deflate l x) (Bgzf.Frame.lenN x) = Some x) ->
    inflate [3; 0] 0 = Some [] ->
    forall h rs t,
      wf_header h -> wf_refs (Sam.File.refs_of h) ->
      Forall (fun r => wf_rec r /\ wf_bits r /\ r_qual r <> [9]) rs ->
      Sam.File.write_file fmt32 fmtd32 h rs = Some t ->
      match convert_sam_bam_bgzf parse32 parse32p deflate lvl t with
      | CfOk out => exists file, bgzf_unwrap inflate out = Some file /\
          Bam.File.read_file file
          = Bam.Record.Ok (h, (map (fun r => Bam.CodecProofs.norm (to_bam_d (lazy_i (norm_i r)))) rs,
                               Bam.File.EndEof))
          /\ Forall (fun r => by_value (Bam.CodecProofs.norm (to_bam_d (lazy_i (norm_i r))))
                              = by_value (Bam.CodecProofs.norm (to_bam_d r))) rs
      | CfWriteErr =>
          exists e, Bam.File.write_file h (map (fun r => to_bam_d (lazy_i (norm_i r))) rs) = Bam.Record.Err e
      | _ => False
      end.
Proof. exact convert_sam_bam_bgzf_preserves. Qed.
Print Assumptions c20_convert_sam_to_bam_bgzf.

Theorem c20_convert_bam_bgzf_to_sam :
  forall (fmt32 fmtd32 : N -> bytes) (parse32 : bytes -> option N) (parse32p : bytes -> option (N * bytes)),
    (forall b, finite32 b = true -> parse32 (fmt32 b) = Some b) ->
    (forall b, PR (fmt32 b)) ->
    (forall b rest, finite32 b = true -> (rest = [] \/ exists r, rest = 44 :: r) ->
                    parse32p (fmtd32 b ++ rest) = Some (b, rest)) ->
    (forall b, PR (fmtd32 b)) ->
  forall (deflate : N -> list N -> list N) (inflate : list N -> N -> option (list N)) (lvl : N),
    (forall x, Bgzf.Frame.lenN x <= Bgzf.Writer.MAX_BUF_SIZE ->
               Bgzf.Frame.lenN (deflate 0 x) <= Bgzf.Writer.MAX_COMPRESSED_SIZE) ->
    (forall l x, Bgzf.Frame.lenN x <= Bgzf.Frame.BGZF_MAX_ISIZE -> inflate (deflate l x) (Bgzf.Frame.lenN x) = Some x) ->
    inflate [3; 0] 0 = Some [] ->
    forall h rs file,
      wf_header h -> wf_refs (Sam.File.refs_of h) -> Forall (fun r => wf_rec r /\ wf_bits r) rs ->
      Bam.File.write_file h (map to_bam_d rs) = Bam.Record.Ok file ->
      match convert_bam_sam_bgzf fmt32 fmtd32 inflate (bgzf_wrap deflate lvl file) with
      | CbOk text => Sam.File.read_file parse32 parse32p text
                     = Some (h, (map (fun r => norm_rec (norm_s r)) rs, Sam.File.FEof))
      | CbWriteErr => Sam.File.write_file fmt32 fmtd32 h (map norm_s rs) = None
      | _ => False
      end.
Proof. exact convert_bam_sam_bgzf_preserves. Qed.
Print Assumptions c20_convert_bam_bgzf_to_sam.

(* the premises are satisfiable: C01's stored-block compressor and executable inflater (the
   instance the correspondence check runs) *)
Theorem c20_bgzf_layer_level0 : forall lvl bs,
  bgzf_unwrap Bgzf.Inflate.inflate (bgzf_wrap Bgzf.Inflate.deflate_l0 lvl bs) = Some bs.
Proof. exact bgzf_unwrap_wrap_l0. Qed.
Print Assumptions c20_bgzf_layer_level0.

(* ---- VCF <-> BCF ---- *)
(* One record datatype for both formats (C09's vrec = what a RecordBuf holds; C10's bridge puts the
   BCF writer and reader on it).  hctx / the two string maps are inputs.  Float text is C09's
   oracle (four premises).  rec_ok: C09's domain of the line theorem; conv_dom: C10's bcf_dom (the
   conditions the BCF writer checks, ranges of the format), outside the class string-special-chars
   (bcf_special, decidable, exact), the two u32 size bounds of the frame.

   VCF -> BCF: the line the VCF writer emits for r, through the generic reader (lazy vcf::Record,
   every accessor forced by the encoder) into the BCF writer (write_site asks for variant_span):
   the conversion SUCCEEDS, and the BCF reader reads the produced block -- whatever follows it --
   as a record with the CONTENT of r (NV.Bcf.Bridge.content: REF bases resolved, trailing missing
   sample values, first-allele phasing before 4.4, lone-missing vectors). *)
From NV Require Import Text.TextBase Vcf.Values Vcf.Span Vcf.Line Vcf.LineProofs.
From NV Require Import Bcf.StringMap Bcf.StringMapProofs Bcf.Record Bcf.RecordTyped Bcf.Bridge Bcf.BridgeProofs Bcf.ColumnProofs.
From NV Require Bcf.Lazy Bcf.LazyEagerProofs Bcf.LazySiteProofs.
From NV Require Import Util.ConvertVariant Util.ConvertVariantProofs.
Open Scope N_scope.

Theorem c20_convert_vcf_to_bcf :
  forall (fmt_float : N -> list N) (prs_float : list N -> option N) (FOK : N -> Prop),
    (forall b, FOK b -> prs_float (fmt_float b) = Some b) ->
    (forall b x, FOK b -> In x (fmt_float b) -> x <> 44 /\ x <> 9 /\ x <> 10 /\ x <> 59 /\ x <> 58) ->
    (forall b, FOK b -> fmt_float b <> Values.dot) ->
    (forall b, FOK b -> fmt_float b <> []) ->
    forall v45 strings contigs h r t n rest,
      wf strings -> wf contigs ->
      rec_ok fmt_float FOK h r -> write_line fmt_float h r = Some t ->
      rec_span v45 (canon h r) = TextBase.Ok n ->
      conv_dom strings contigs h (Z.of_N n) (canon h r) ->
      exists bs b,
        convert_vcf_bcf prs_float v45 strings contigs h t = VvOk bs /\
        bcf_read strings contigs h (bs ++ rest) = Typed.ROk b /\
        content (h_v44 h) b = content (h_v44 h) r.
Proof. exact convert_vcf_bcf_preserves. Qed.
Print Assumptions c20_convert_vcf_to_bcf.

(* ... from ANY line with samples, written or not: whatever record the lazy reader makes of it, if
   that record is in BCF's domain the conversion writes it and the BCF reader gives back bback of
   it (the record with every sample row completed to one value per key) *)
Theorem c20_convert_vcf_to_bcf_any_line :
  forall (prs_float : list N -> option N) v45 strings contigs h t a n rest,
    wf strings -> wf contigs ->
    read_lazy prs_float h t = Some a -> rec_span v45 a = TextBase.Ok n ->
    bcf_samples_dom strings contigs h (Z.of_N n) a -> bcf_special a = false ->
    (forall sb, enc_site strings contigs (site_of h (Z.of_N n) a) (info_fields a)
                  (Z.of_nat (length (r_keys a))) = Ints.Ok sb -> (Z.of_nat (length sb) <= 4294967295)%Z) ->
    (forall fb, enc_fields strings (fmt_fields h a) = Ints.Ok fb -> (Z.of_nat (length fb) <= 4294967295)%Z) ->
    exists bs,
      convert_vcf_bcf prs_float v45 strings contigs h t = VvOk bs /\
      bcf_read strings contigs h (bs ++ rest) = Typed.ROk (bback h a).
Proof. exact convert_vcf_bcf_any_line. Qed.
Print Assumptions c20_convert_vcf_to_bcf_any_line.

(* BCF -> VCF: the lazy bcf::Record of a block through the VCF writer.  If the record the lazy path
   hands out (t') is in C09's domain and the VCF writer accepts it, the conversion emits exactly
   that line + LF, and BOTH VCF readers read the line back as canon of the record. *)
Theorem c20_convert_bcf_to_vcf :
  forall (fmt_float : N -> list N) (prs_float : list N -> option N) (FOK : N -> Prop),
    (forall b, FOK b -> prs_float (fmt_float b) = Some b) ->
    (forall b x, FOK b -> In x (fmt_float b) -> x <> 44 /\ x <> 9 /\ x <> 10 /\ x <> 59 /\ x <> 58) ->
    (forall b, FOK b -> fmt_float b <> Values.dot) ->
    (forall b, FOK b -> fmt_float b <> []) ->
    forall strings contigs h bs t' l,
      Lazy.lazy_read (h_v44 h) strings contigs (ik_of h) (fk_of h) bs = Typed.ROk t' ->
      rec_ok fmt_float FOK h (vrec_of t') -> write_line fmt_float h (vrec_of t') = Some l ->
      convert_bcf_vcf fmt_float strings contigs h bs = VvOk (l ++ [10]) /\
      read_eager prs_float h l = Some (canon h (vrec_of t')) /\
      read_lazy prs_float h l = Some (canon h (vrec_of t')).
Proof. exact convert_bcf_vcf_preserves. Qed.
Print Assumptions c20_convert_bcf_to_vcf.

(* ... and that lazy record is the record of the EAGER BCF reader up to C10's trec_norm, on every
   block the eager reader accepts (C10's lazy = eager; lazy_agree = the record's Characters are ASCII) *)
Theorem c20_convert_bcf_to_vcf_reads_as_eager : forall strings contigs h bs t,
  LazySiteProofs.byte_list bs ->
  dec_record_typed strings contigs (ik_of h) (fk_of h) (Z.of_nat (h_nsamples h)) bs = Typed.ROk t ->
  LazyEagerProofs.lazy_agree strings contigs (ik_of h) (fk_of h) (Z.of_nat (h_nsamples h)) bs = true ->
  exists t', Lazy.lazy_read (h_v44 h) strings contigs (ik_of h) (fk_of h) bs = Typed.ROk t' /\
             Lazy.trec_norm (h_v44 h) t' = Lazy.trec_norm (h_v44 h) t.
Proof. exact convert_bcf_vcf_reads_as_eager. Qed.
Print Assumptions c20_convert_bcf_to_vcf_reads_as_eager.

(* THE RECORD SECTION OF A FILE, VCF -> BCF: the lines the VCF writer emits for rs converted one
   after the other; the run succeeds, the produced bytes are exactly the concatenated blocks, and
   the BCF reader's loop (read_record_buf until the input is used up) reads them to their END as
   exactly as many records, each with the content of its source record.  (The header block of the
   file is the header text, copied; it is not part of this statement.) *)
Theorem c20_convert_vcf_to_bcf_file :
  forall (fmt_float : N -> list N) (prs_float : list N -> option N) (FOK : N -> Prop),
    (forall b, FOK b -> prs_float (fmt_float b) = Some b) ->
    (forall b x, FOK b -> In x (fmt_float b) -> x <> 44 /\ x <> 9 /\ x <> 10 /\ x <> 59 /\ x <> 58) ->
    (forall b, FOK b -> fmt_float b <> Values.dot) ->
    (forall b, FOK b -> fmt_float b <> []) ->
    forall v45 strings contigs h rs ts,
      wf strings -> wf contigs ->
      Forall2 (conv_rec_ok fmt_float FOK v45 strings contigs h) rs ts ->
      forall i, exists out bs',
        convert_vcf_bcf_lines prs_float v45 strings contigs h i ts = VfOk out /\
        (forall fuel, (length out < fuel)%nat -> bcf_read_all fuel strings contigs h out = Some bs') /\
        map (content (h_v44 h)) bs' = map (content (h_v44 h)) rs.
Proof. exact convert_vcf_bcf_lines_preserve. Qed.
Print Assumptions c20_convert_vcf_to_bcf_file.

(* non-vacuity: one sites-only record `c0 5 . A G . . DP=7` under a header with INFO DP, VCF -> BCF
   (the block is read back with DP = 7) -> VCF (the same line + LF) *)
Example c20_example_convert_variant :
  let dp := [68; 80] in
  let h := {| h_v44 := false; h_infos := [(dp, (NCount 1, TInteger))]; h_formats := []; h_nsamples := 0%nat |} in
  let line := [99;48;9;53;9;46;9;65;9;71;9;46;9;46;9;68;80;61;55] in   (* c0 5 . A G . . DP=7 *)
  exists strings contigs bs b,
    build_strings [(dp, None)] = Some strings /\ build_contigs [([99;48], None)] = Some contigs /\
    convert_vcf_bcf (fun _ => None) false strings contigs h line = VvOk bs /\
    bcf_read strings contigs h bs = Typed.ROk b /\ r_info b = [(dp, Some (VInteger 7%Z))] /\
    convert_bcf_vcf (fun _ => []) strings contigs h bs = VvOk (line ++ [10]).
Proof.
  eexists. eexists. eexists. eexists.
  split; [vm_compute; reflexivity|]. split; [vm_compute; reflexivity|].
  split; [vm_compute; reflexivity|]. split; [vm_compute; reflexivity|]. split; vm_compute; reflexivity.
Qed.

(* ------------------------------------------------------------------------------------------ *)
(* Round 10: THE VARIANT HEADER BLOCK.  VCF -> BCF for a whole file where nothing about the header is
   a parameter: the lookup tables are C09's hctx_of_header of the parsed header, the string maps are
   C10's maps_of_header (StringMaps::try_from(&header), the maps the BCF writer keeps), the 4.5
   switch of variant_span comes from the header's file format, the BCF header block is C10's
   write_prefix; the produced stream is read by C10's BCF FILE reader (read_header + the record loop
   with one reused RecordBuf). *)
From NV Require Vcf.Header Vcf.HeaderProofs Vcf.HdrFrameProofs Vcf.File Bcf.File Bcf.FileProofs.
From NV Require Import Util.ConvertVariantHdr Util.ConvertVariantHdrProofs.
Open Scope N_scope.

(* from the parsed header value: the BCF writer accepts the header, every record is in the
   conversion's domain under the tables and maps OF THAT HEADER; then the conversion succeeds and the
   BCF file reader reads the output as the same header and, to its clean end, the records with the
   content of the source records *)
Theorem c20_convert_vcf_to_bcf_file_with_header :
  forall (fmt_float : N -> list N) (prs_float : list N -> option N) (FOK : N -> Prop),
    (forall b, FOK b -> prs_float (fmt_float b) = Some b) ->
    (forall b x, FOK b -> In x (fmt_float b) -> x <> 44 /\ x <> 9 /\ x <> 10 /\ x <> 59 /\ x <> 58) ->
    (forall b, FOK b -> fmt_float b <> Values.dot) ->
    (forall b, FOK b -> fmt_float b <> []) ->
    forall hd p rs ts,
      HeaderProofs.header_ok hd -> File.hdr_defs_ok hd = true -> HdrFrameProofs.hdr_vals_framed hd ->
      Bcf.File.write_prefix hd = Some p ->
      (forall s c, Bcf.File.maps_of_header hd = Some (s, c) ->
         Forall2 (conv_rec_ok fmt_float FOK (ff_ge45 (Header.hh_ff hd)) s c (File.hctx_of_header hd)) rs ts) ->
      exists out backs,
        convert_vcf_bcf_hdr prs_float hd ts = HvOk out /\
        Bcf.File.bcf_read_file out = Bcf.File.FOk (hd, (backs, Bcf.File.EndEof)) /\
        map (content (h_v44 (File.hctx_of_header hd))) backs = map (content (h_v44 (File.hctx_of_header hd))) rs.
Proof. exact convert_vcf_bcf_hdr_preserves. Qed.
Print Assumptions c20_convert_vcf_to_bcf_file_with_header.

(* ... and from the BYTES of the header text the VCF writer emits for hd (the VCF reader's header
   parse, C09's read_header_text, is inside the model) *)
Theorem c20_convert_vcf_to_bcf_file_from_header_bytes :
  forall (fmt_float : N -> list N) (prs_float : list N -> option N) (FOK : N -> Prop),
    (forall b, FOK b -> prs_float (fmt_float b) = Some b) ->
    (forall b x, FOK b -> In x (fmt_float b) -> x <> 44 /\ x <> 9 /\ x <> 10 /\ x <> 59 /\ x <> 58) ->
    (forall b, FOK b -> fmt_float b <> Values.dot) ->
    (forall b, FOK b -> fmt_float b <> []) ->
    forall hd ls p rs ts,
      HeaderProofs.header_ok hd -> File.hdr_defs_ok hd = true -> HdrFrameProofs.hdr_vals_framed hd ->
      Header.write_header hd = Some ls -> Bcf.File.write_prefix hd = Some p ->
      (forall s c, Bcf.File.maps_of_header hd = Some (s, c) ->
         Forall2 (conv_rec_ok fmt_float FOK (ff_ge45 (Header.hh_ff hd)) s c (File.hctx_of_header hd)) rs ts) ->
      exists out backs,
        convert_vcf_bcf_hfile prs_float (File.with_lf ls) ts = HvOk out /\
        Bcf.File.bcf_read_file out = Bcf.File.FOk (hd, (backs, Bcf.File.EndEof)) /\
        map (content (h_v44 (File.hctx_of_header hd))) backs = map (content (h_v44 (File.hctx_of_header hd))) rs.
Proof. exact convert_vcf_bcf_hfile_preserves. Qed.
Print Assumptions c20_convert_vcf_to_bcf_file_from_header_bytes.

(* non-vacuity, everything computed from BYTES: a 4.3 header text with INFO DP and contig c0 and the line
   `c0 5 . A G . . DP=7`: the conversion emits a BCF file whose header C10's file reader reads as the
   header the VCF reader parsed, and one record with DP = 7 *)
Example c20_example_convert_variant_file_with_header :
  let htext := [35;35;102;105;108;101;102;111;114;109;97;116;61;86;67;70;118;52;46;51;10;35;35;73;78;70;79;61;60;73;68;61;68;80;44;78;117;109;98;101;114;61;49;44;84;121;112;101;61;73;110;116;101;103;101;114;44;68;101;115;99;114;105;112;116;105;111;110;61;34;100;34;62;10;35;35;99;111;110;116;105;103;61;60;73;68;61;99;48;62;10;35;67;72;82;79;77;9;80;79;83;9;73;68;9;82;69;70;9;65;76;84;9;81;85;65;76;9;70;73;76;84;69;82;9;73;78;70;79;10] in
  let line := [99;48;9;53;9;46;9;65;9;71;9;46;9;46;9;68;80;61;55] in
  exists out hd b,
    convert_vcf_bcf_hfile (fun _ => None) htext [line] = HvOk out /\
    fst (File.read_header_text htext) = Some hd /\
    Bcf.File.bcf_read_file out = Bcf.File.FOk (hd, ([b], Bcf.File.EndEof)) /\ r_info b = [([68; 80], Some (VInteger 7%Z))].
Proof.
  eexists. eexists. eexists.
  split; [vm_compute; reflexivity|]. split; [vm_compute; reflexivity|]. split; vm_compute; reflexivity.
Qed.

(* ------------------------------------------------------------------------------------------------ *)
(* wave 10c: BCF -> VCF for the WHOLE file with the header block (NV.Util.ConvertVariantHdrRev):
   the BCF prefix is read by C10's read_prefix (magic, version, l_text, header text -> header value
   and the reader's string maps), the VCF writer emits the header lines and one line per lazy
   bcf::Record (sample-count check included) under the tables of THAT header. *)
From NV Require Vcf.FileProofs.
From NV Require Import Util.ConvertVariantHdrRev Util.ConvertVariantHdrRevProofs.
Open Scope N_scope.

(* a run succeeds EXACTLY when C10's lazy BCF file reader reads the source to its clean end and C09's
   VCF file writer accepts the header and records read; the output is that writer's text *)
Theorem c20_convert_bcf_to_vcf_file_is_read_then_write :
  forall (fmt_float : N -> list N) bs out,
    convert_bcf_vcf_hfile fmt_float bs = BhOk out <->
    exists hd rs, Bcf.File.bcf_read_file_lazy bs = Bcf.File.FOk (hd, (rs, Bcf.File.EndEof)) /\
                  File.write_file fmt_float hd rs = Some out.
Proof.
  intros fmt_float bs out. split.
  - apply convert_bcf_vcf_hfile_is_read_then_write.
  - intros (hd & rs & Hr & Hw). exact (convert_bcf_vcf_hfile_complete fmt_float bs hd rs out Hr Hw).
Qed.
Print Assumptions c20_convert_bcf_to_vcf_file_is_read_then_write.

(* THE FILE WITH ITS HEADER, BCF -> VCF: on a successful run the source is (hd, rs) for the lazy BCF
   file reader; when hd is in C09's header domain and the records read are in the VCF writer's
   round-trip domain under the tables of that header, both VCF file readers read the output back as
   the same header and canon of the same records, to a clean Ok(0) *)
Theorem c20_convert_bcf_to_vcf_file_with_header :
  forall (fmt_float : N -> list N) (prs_float : list N -> option N) (FOK : N -> Prop),
    (forall b, FOK b -> prs_float (fmt_float b) = Some b) ->
    (forall b x, FOK b -> In x (fmt_float b) -> x <> 44 /\ x <> 9 /\ x <> 10 /\ x <> 59 /\ x <> 58) ->
    (forall b, FOK b -> fmt_float b <> Values.dot) ->
    (forall b, FOK b -> fmt_float b <> []) ->
    (forall b x, FOK b -> In x (fmt_float b) -> x <> 13) ->
    forall valid bs out,
      convert_bcf_vcf_hfile fmt_float bs = BhOk out ->
      exists hd rs,
        Bcf.File.bcf_read_file_lazy bs = Bcf.File.FOk (hd, (rs, Bcf.File.EndEof)) /\
        (HeaderProofs.header_ok hd -> File.hdr_defs_ok hd = true -> Vcf.FileProofs.header_framed hd ->
         Forall (rec_ok fmt_float FOK (File.hctx_of_header hd)) rs -> Vcf.FileProofs.first_chrom_ok rs ->
         (forall s, (forall b, In b s -> In b out) -> valid s = true) ->
         File.read_file_eager prs_float valid out =
           Some (hd, (map (canon (File.hctx_of_header hd)) rs, true)) /\
         File.read_file_lazy prs_float valid out =
           Some (hd, (map (fun r => Some (canon (File.hctx_of_header hd) r)) rs, true))).
Proof. exact convert_bcf_vcf_hfile_preserves. Qed.
Print Assumptions c20_convert_bcf_to_vcf_file_with_header.

(* ... for a BCF file whose header block the BCF writer emitted for hd, followed by ANY record section:
   the header conditions are conditions on the header that was WRITTEN into the BCF file, and the VCF
   output reads back as that header *)
Theorem c20_convert_bcf_to_vcf_file_written_header :
  forall (fmt_float : N -> list N) (prs_float : list N -> option N) (FOK : N -> Prop),
    (forall b, FOK b -> prs_float (fmt_float b) = Some b) ->
    (forall b x, FOK b -> In x (fmt_float b) -> x <> 44 /\ x <> 9 /\ x <> 10 /\ x <> 59 /\ x <> 58) ->
    (forall b, FOK b -> fmt_float b <> Values.dot) ->
    (forall b, FOK b -> fmt_float b <> []) ->
    (forall b x, FOK b -> In x (fmt_float b) -> x <> 13) ->
    forall valid hd p rest out,
      HeaderProofs.header_ok hd -> File.hdr_defs_ok hd = true -> HdrFrameProofs.hdr_vals_framed hd ->
      Bcf.File.write_prefix hd = Some p ->
      convert_bcf_vcf_hfile fmt_float (p ++ rest) = BhOk out ->
      exists s c rs,
        Bcf.File.maps_of_header hd = Some (s, c) /\
        Bcf.File.read_lazy (Bcf.File.file_fuel rest) s c (File.hctx_of_header hd) rest = (rs, Bcf.File.EndEof) /\
        (Forall (rec_ok fmt_float FOK (File.hctx_of_header hd)) rs -> Vcf.FileProofs.first_chrom_ok rs ->
         (forall t, (forall b, In b t -> In b out) -> valid t = true) ->
         File.read_file_eager prs_float valid out =
           Some (hd, (map (canon (File.hctx_of_header hd)) rs, true)) /\
         File.read_file_lazy prs_float valid out =
           Some (hd, (map (fun r => Some (canon (File.hctx_of_header hd) r)) rs, true))).
Proof. exact convert_bcf_vcf_hfile_written_prefix. Qed.
Print Assumptions c20_convert_bcf_to_vcf_file_written_header.

(* non-vacuity, everything computed from BYTES: the BCF file the VCF -> BCF example produced goes back
   to the VCF text it came from, header lines and record line *)
Example c20_example_convert_variant_file_there_and_back :
  let htext := [35;35;102;105;108;101;102;111;114;109;97;116;61;86;67;70;118;52;46;51;10;35;35;73;78;70;79;61;60;73;68;61;68;80;44;78;117;109;98;101;114;61;49;44;84;121;112;101;61;73;110;116;101;103;101;114;44;68;101;115;99;114;105;112;116;105;111;110;61;34;100;34;62;10;35;35;99;111;110;116;105;103;61;60;73;68;61;99;48;62;10;35;67;72;82;79;77;9;80;79;83;9;73;68;9;82;69;70;9;65;76;84;9;81;85;65;76;9;70;73;76;84;69;82;9;73;78;70;79;10] in
  let line := [99;48;9;53;9;46;9;65;9;71;9;46;9;46;9;68;80;61;55] in
  exists bcf,
    convert_vcf_bcf_hfile (fun _ => None) htext [line] = HvOk bcf /\
    convert_bcf_vcf_hfile (fun _ => []) bcf = BhOk (htext ++ line ++ [10]) /\
    (* cut inside l_text: UnexpectedEof; cut inside a header line: that line's parse error comes first *)
    convert_bcf_vcf_hfile (fun _ => []) (firstn 8 bcf) = BhReadHeaderErr true /\
    convert_bcf_vcf_hfile (fun _ => []) (firstn 40 bcf) = BhReadHeaderErr false.
Proof.
  eexists. split; [vm_compute; reflexivity|]. split; [vm_compute; reflexivity|]. split; vm_compute; reflexivity.
Qed.
