(* C20 -- Format autodetection picks the written format; conversions keep content.   (partial)

   Property theorems only.  The model is NV.Util.Detect: detect_compression / detect_format /
   Builder::build_from_reader of noodles-util's alignment and variant reader builders as pure
   functions of the first fill_buf window, and the leading bytes the generic writers emit.

   PARTIAL: (1) DEFLATE is not modelled -- BGZF compression [bgzf] and flate2's MultiGzDecoder
   over a window [gunzip] are universally quantified functions constrained by the three premises
   H_magic / H_prefix / H_whole of each theorem (validated against the real libraries on every
   run of the correspondence check); (2) only the detection half of the property is proved; that
   the records read back equal the records written, and conversions, rest on C05/C06/C07/C09/C10
   and are evaluated on the implementation only (L3 oracle of harness/src/bin/c20.rs). *)
From Coq Require Import List NArith.
From NV Require Import Util.Detect Util.DetectProofs.
Import ListNotations.
Open Scope N_scope.

(* The statement one would like: every stream of the generic writer, whatever the first read
   delivers, is detected as written.  It is FALSE for the faithful model (see the _refuted
   lemmas below); the theorems that follow carry exactly the side conditions the proof needs. *)
Definition c20_detect_written_full_statement : Prop :=
  forall (bgzf : list N -> list N) (gunzip : list N -> inflated),
    (forall p, exists r, bgzf p = 31 :: 139 :: r) ->
    (forall p m, exists n, avail (gunzip (firstn m (bgzf p))) = firstn n p) ->
    (forall p, gunzip (bgzf p) = mk_inflated p UnexpectedEof) ->
    forall f c amb s k, (1 <= k)%nat -> written_a bgzf f c amb s ->
      detect_a (window s k) (gunzip (window s k)) = Ok (f, c).

(* Alignments.  For every stream s the generic alignment writer emits for (format f,
   compression c) -- SAM text with any header lines and any records whose names the SAM writer
   accepts, BAM, CRAM, each raw or BGZF-compressed -- outside the F14 class (amb = false:
   not a header-less SAM whose first read name starts with "CRAM"), and every size k of the first
   read: the builder decides exactly (f, c), provided the first window is large enough:
     raw SAM: no condition at all;  raw BAM / CRAM: k >= 4;
     BGZF: k >= 2 and the decoder gets 4 bytes out of the window (excludes F13 and short reads). *)
Theorem c20_detect_written_partial :
  forall (bgzf : list N -> list N) (gunzip : list N -> inflated)
    (H_magic : forall p, exists r, bgzf p = 31 :: 139 :: r)
    (H_prefix : forall p m, exists n, avail (gunzip (firstn m (bgzf p))) = firstn n p),
  forall f c s k,
    written_a bgzf f c false s -> window_ok_a gunzip f c s k ->
    detect_a (window s k) (gunzip (window s k)) = Ok (f, c).
Proof. exact detect_written_a_partial. Qed.
Print Assumptions c20_detect_written_partial.

(* Variants: VCF text (begins "##fileformat=VCFv") and BCF, raw or BGZF-compressed. *)
Theorem c20_detect_written_variant_partial :
  forall (bgzf : list N -> list N) (gunzip : list N -> inflated)
    (H_magic : forall p, exists r, bgzf p = 31 :: 139 :: r)
    (H_prefix : forall p m, exists n, avail (gunzip (firstn m (bgzf p))) = firstn n p),
  forall f c s k,
    written_v bgzf f c s -> window_ok_v gunzip f c s k ->
    detect_v (window s k) (gunzip (window s k)) = Ok (f, c).
Proof. exact detect_written_v_partial. Qed.
Print Assumptions c20_detect_written_variant_partial.

(* When the first read delivers the whole stream (it fits BufReader's 8 KiB buffer), the only
   side condition left is F13: a BGZF-compressed SAM must have at least 4 bytes of text. *)
Theorem c20_detect_written_whole_stream :
  forall (bgzf : list N -> list N) (gunzip : list N -> inflated)
    (H_magic : forall p, exists r, bgzf p = 31 :: 139 :: r)
    (H_prefix : forall p m, exists n, avail (gunzip (firstn m (bgzf p))) = firstn n p)
    (H_whole : forall p, gunzip (bgzf p) = mk_inflated p UnexpectedEof),
  forall f c s k,
    written_a bgzf f c false s -> (length s <= Nat.min k BUF_CAP)%nat ->
    (forall hdr recs, s = bgzf (sam_text hdr recs) -> (4 <= length (sam_text hdr recs))%nat) ->
    detect_a (window s k) (gunzip (window s k)) = Ok (f, c).
Proof. exact detect_written_whole_a. Qed.
Print Assumptions c20_detect_written_whole_stream.

Theorem c20_detect_written_whole_stream_variant :
  forall (bgzf : list N -> list N) (gunzip : list N -> inflated)
    (H_magic : forall p, exists r, bgzf p = 31 :: 139 :: r)
    (H_prefix : forall p m, exists n, avail (gunzip (firstn m (bgzf p))) = firstn n p)
    (H_whole : forall p, gunzip (bgzf p) = mk_inflated p UnexpectedEof),
  forall f c s k,
    written_v bgzf f c s -> (length s <= Nat.min k BUF_CAP)%nat ->
    detect_v (window s k) (gunzip (window s k)) = Ok (f, c).
Proof. exact detect_written_whole_v. Qed.
Print Assumptions c20_detect_written_whole_stream_variant.

(* SAM text accepted by the SAM writer never begins with the gzip or the BAM magic, and begins
   with the CRAM magic only in the F14 class *)
Theorem c20_sam_text_not_magic :
  forall hdr recs, forallb sam_line_ok recs = true ->
    (forall r, sam_text hdr recs <> 31 :: 139 :: r) /\
    (forall r, sam_text hdr recs <> BAM_MAGIC ++ r) /\
    (sam_first_name_cram hdr recs = false -> forall r, sam_text hdr recs <> CRAM_MAGIC ++ r).
Proof. exact sam_text_not_magic. Qed.
Print Assumptions c20_sam_text_not_magic.

(* magic numbers: pairwise distinct, none a prefix of another, none begins with '@', '#', '*' *)
Theorem c20_magic_numbers_distinct :
  BAM_MAGIC <> CRAM_MAGIC /\ firstn 3 BAM_MAGIC <> BCF_MAGIC /\ firstn 3 CRAM_MAGIC <> BCF_MAGIC /\
  firstn 2 BAM_MAGIC <> GZIP_MAGIC /\ firstn 2 CRAM_MAGIC <> GZIP_MAGIC /\ firstn 2 BCF_MAGIC <> GZIP_MAGIC /\
  (forall m, In m [BAM_MAGIC; CRAM_MAGIC; BCF_MAGIC; GZIP_MAGIC] ->
             hd 0 m <> 64 /\ hd 0 m <> 35 /\ hd 0 m <> 42).
Proof. exact magic_numbers_distinct. Qed.
Print Assumptions c20_magic_numbers_distinct.

(* autodetection never decides (CRAM, BGZF): the builder's InvalidData branch needs an override *)
Theorem c20_detect_never_cram_bgzf : forall w i, detect_a w i <> Ok (Cram, CBgzf).
Proof. exact detect_a_never_cram_bgzf. Qed.
Print Assumptions c20_detect_never_cram_bgzf.

(* ---- what fails (each reproduced against the real builders, see known_findings.d/C20.json) ---- *)

(* F13: the BGZF-compressed SAM of an empty header and no records, delivered whole, makes the
   builder fail with UnexpectedEof instead of answering SAM *)
Theorem c20_f13_refuted :
  forall (bgzf : list N -> list N) (gunzip : list N -> inflated)
    (H_magic : forall p, exists r, bgzf p = 31 :: 139 :: r)
    (H_whole : forall p, gunzip (bgzf p) = mk_inflated p UnexpectedEof),
    (length (bgzf []) <= BUF_CAP)%nat ->
    exists s k, written_a bgzf Sam CBgzf false s /\ (length s <= Nat.min k BUF_CAP)%nat /\
                detect_a (window s k) (gunzip (window s k)) = Err UnexpectedEof.
Proof. exact f13_refuted. Qed.
Print Assumptions c20_f13_refuted.

(* F14: a header-less SAM whose first read name starts with CRAM is detected as CRAM *)
Theorem c20_f14_refuted :
  exists hdr recs, forallb sam_line_ok recs = true /\ sam_first_name_cram hdr recs = true /\
    forall i, detect_a (window (sam_text hdr recs) 8192) i = Ok (Cram, CNone).
Proof. exact f14_refuted. Qed.
Print Assumptions c20_f14_refuted.

(* a short first read: raw BAM / CRAM / BCF are taken for SAM / VCF when the first read delivers
   fewer bytes than the magic, any BGZF stream when it delivers one byte *)
Theorem c20_short_window_refuted :
  (forall rest i, detect_a (window (bam_payload rest) 3) i = Ok (Sam, CNone)) /\
  (forall major minor rest i, detect_a (window (cram_stream major minor rest) 3) i = Ok (Sam, CNone)) /\
  (forall rest i, detect_v (window (bcf_payload rest) 2) i = Ok (Vcf, CNone)).
Proof. exact short_window_raw_refuted. Qed.
Print Assumptions c20_short_window_refuted.

Theorem c20_short_window_gz_refuted :
  forall (bgzf : list N -> list N) (gunzip : list N -> inflated)
    (H_magic : forall p, exists r, bgzf p = 31 :: 139 :: r),
  forall p,
    detect_a (window (bgzf p) 1) (gunzip (window (bgzf p) 1)) = Ok (Sam, CNone) /\
    detect_v (window (bgzf p) 1) (gunzip (window (bgzf p) 1)) = Ok (Vcf, CNone).
Proof. exact short_window_gz_refuted. Qed.
Print Assumptions c20_short_window_gz_refuted.

(* ---- non-vacuity: concrete instances of the hypotheses ---- *)

(* a toy "BGZF" (gzip magic + stored payload) and its decoder satisfy the three premises, so the
   theorems above are not vacuous in their oracle hypotheses *)
Definition toy_bgzf (p : list N) : list N := 31 :: 139 :: p.
Definition toy_gunzip (w : list N) : inflated := mk_inflated (skipn 2 w) UnexpectedEof.
Example c20_oracle_premises_satisfiable :
  (forall p, exists r, toy_bgzf p = 31 :: 139 :: r) /\
  (forall p m, exists n, avail (toy_gunzip (firstn m (toy_bgzf p))) = firstn n p) /\
  (forall p, toy_gunzip (toy_bgzf p) = mk_inflated p UnexpectedEof).
Proof.
  split; [intro p; exists p; reflexivity|]. split; [|intro p; reflexivity].
  intros p m. unfold toy_gunzip, toy_bgzf. cbn [avail].
  destruct m as [|[|m]]; [exists 0%nat; reflexivity|exists 0%nat; reflexivity|].
  exists m. reflexivity.
Qed.

(* the unconditional statement is false already for the toy oracle: a BAM whose first read
   delivers one byte *)
Theorem c20_detect_written_full_statement_refuted : ~ c20_detect_written_full_statement.
Proof.
  intro H.
  specialize (H toy_bgzf toy_gunzip (proj1 c20_oracle_premises_satisfiable)
                (proj1 (proj2 c20_oracle_premises_satisfiable))
                (proj2 (proj2 c20_oracle_premises_satisfiable))
                Bam CBgzf false (toy_bgzf (bam_payload [])) 1%nat (le_n 1) (WBam toy_bgzf [])).
  vm_compute in H. discriminate.
Qed.
Print Assumptions c20_detect_written_full_statement_refuted.

(* a header-less SAM with one read named "r1", BGZF-compressed, delivered whole: (SAM, BGZF);
   and a read named "CRA" (not the F14 class) raw: SAM *)
Example c20_example_samgz :
  let s := toy_bgzf (sam_text [] [mk_sam_line (Some [114; 49]) [52; 9; 42]]) in
  written_a toy_bgzf Sam CBgzf false s /\
  detect_a (window s 100) (toy_gunzip (window s 100)) = Ok (Sam, CBgzf).
Proof. split; [apply WSamGz; reflexivity|vm_compute; reflexivity]. Qed.

Example c20_example_cra :
  let recs := [mk_sam_line (Some [67; 82; 65]) [52; 9; 42]] in
  forallb sam_line_ok recs = true /\ sam_first_name_cram [] recs = false /\
  detect_a (window (sam_text [] recs) 100) (mk_inflated [] UnexpectedEof) = Ok (Sam, CNone).
Proof. repeat split. Qed.

Example c20_example_bam :
  detect_a (window (toy_bgzf (bam_payload [0;0;0;0])) 8192) (toy_gunzip (window (toy_bgzf (bam_payload [0;0;0;0])) 8192))
    = Ok (Bam, CBgzf)
  /\ detect_v (window (bcf_payload [0]) 3) (mk_inflated [] UnexpectedEof) = Ok (Bcf, CNone).
Proof. split; vm_compute; reflexivity. Qed.
