(* C20 -- Format autodetection picks the written format; conversions keep content.   (partial)

   Property theorems only.  The model is NV.Util.Detect: detect_compression / detect_format /
   Builder::build_from_reader of noodles-util's alignment and variant reader builders as pure
   functions of the first fill_buf window, and the leading bytes the generic writers emit.

   The model follows the tree after the repairs of F13 (detect-short-input-error) and F14
   (detect-sam-as-cram): read at most 4 (3) inflated bytes, and "CRAM" followed by a graphic byte or
   TAB is SAM text.

   PARTIAL: (1) DEFLATE is not modelled -- BGZF compression [bgzf] and flate2's MultiGzDecoder
   over a window [gunzip] are universally quantified functions constrained by the three premises
   H_magic / H_prefix / H_whole of each theorem (validated against the real libraries on every
   run of the correspondence check); (2) only the detection half of the property is proved; that
   the records read back equal the records written, and conversions, rest on C05/C06/C07/C09/C10
   and are evaluated on the implementation only (L3 oracle of harness/src/bin/c20.rs).

   Second part of the file (deepening round 2): the window over a source with a delivery script
   (NV.Util.Fill: the current builders and the builders repaired by patch 06), the decisions that
   do not look at content (NV.Util.Dispatch: path extensions, builder defaults, the inner dispatch
   of readers and writers, indexed readers and index discovery, finish). *)
From Coq Require Import List NArith.
From NV Require Import Io.Source Util.Detect Util.DetectProofs Util.Fill Util.FillProofs Util.Dispatch Util.DispatchProofs.
Import ListNotations.
Open Scope N_scope.

(* The statement one would like: every stream of the generic writer, whatever the first read
   delivers, is detected as written.  It is FALSE for the faithful model (detection sees only the
   first fill_buf window: c20_short_window_refuted); the theorems that follow carry exactly the
   side conditions the proof needs. *)
Definition c20_detect_written_full_statement : Prop :=
  forall (bgzf : list N -> list N) (gunzip : list N -> inflated),
    (forall p, exists r, bgzf p = 31 :: 139 :: r) ->
    (forall p m, exists n, avail (gunzip (firstn m (bgzf p))) = firstn n p) ->
    (forall p, gunzip (bgzf p) = mk_inflated p None) ->
    forall f c amb s k, (1 <= k)%nat -> written_a bgzf f c amb s ->
      detect_a (window s k) (gunzip (window s k)) = Ok (f, c).

(* Alignments.  For every stream s the generic alignment writer emits for (format f,
   compression c) -- SAM text with any header lines and any records whose names the SAM writer
   accepts, BAM, CRAM with a major version that is a control byte other than TAB (1..4 exist),
   each raw or BGZF-compressed -- and every size k of the first read: the builder decides exactly
   (f, c), provided the first window is large enough:
     raw SAM: no condition, except k >= 5 in the class amb = true (header-less and the first read
              name starts with "CRAM");
     raw BAM / CRAM: k >= 4;
     BGZF: k >= 2 and either the decoder gets 4 bytes out of the window or the window is the
           whole stream. *)
Theorem c20_detect_written_partial :
  forall (bgzf : list N -> list N) (gunzip : list N -> inflated)
    (H_magic : forall p, exists r, bgzf p = 31 :: 139 :: r)
    (H_prefix : forall p m, exists n, avail (gunzip (firstn m (bgzf p))) = firstn n p)
    (H_whole : forall p, gunzip (bgzf p) = mk_inflated p None),
  forall f c amb s k,
    written_a bgzf f c amb s -> window_ok_a gunzip f c amb s k ->
    detect_a (window s k) (gunzip (window s k)) = Ok (f, c).
Proof. exact detect_written_a_partial. Qed.
Print Assumptions c20_detect_written_partial.

(* Variants: VCF text (begins "##fileformat=VCFv") and BCF, raw or BGZF-compressed. *)
Theorem c20_detect_written_variant_partial :
  forall (bgzf : list N -> list N) (gunzip : list N -> inflated)
    (H_magic : forall p, exists r, bgzf p = 31 :: 139 :: r)
    (H_prefix : forall p m, exists n, avail (gunzip (firstn m (bgzf p))) = firstn n p)
    (H_whole : forall p, gunzip (bgzf p) = mk_inflated p None),
  forall f c s k,
    written_v bgzf f c s -> window_ok_v gunzip f c s k ->
    detect_v (window s k) (gunzip (window s k)) = Ok (f, c).
Proof. exact detect_written_v_partial. Qed.
Print Assumptions c20_detect_written_variant_partial.

(* When the first read delivers the whole stream (it fits BufReader's 8 KiB buffer) there is NO
   side condition: this includes the BGZF-compressed SAM of an empty header and no records
   (formerly F13) and the header-less SAM whose first read is named CRAM... (formerly F14). *)
Theorem c20_detect_written_whole_stream :
  forall (bgzf : list N -> list N) (gunzip : list N -> inflated)
    (H_magic : forall p, exists r, bgzf p = 31 :: 139 :: r)
    (H_prefix : forall p m, exists n, avail (gunzip (firstn m (bgzf p))) = firstn n p)
    (H_whole : forall p, gunzip (bgzf p) = mk_inflated p None),
  forall f c amb s k,
    written_a bgzf f c amb s -> (length s <= Nat.min k BUF_CAP)%nat ->
    detect_a (window s k) (gunzip (window s k)) = Ok (f, c).
Proof. exact detect_written_whole_a. Qed.
Print Assumptions c20_detect_written_whole_stream.

Theorem c20_detect_written_whole_stream_variant :
  forall (bgzf : list N -> list N) (gunzip : list N -> inflated)
    (H_magic : forall p, exists r, bgzf p = 31 :: 139 :: r)
    (H_prefix : forall p m, exists n, avail (gunzip (firstn m (bgzf p))) = firstn n p)
    (H_whole : forall p, gunzip (bgzf p) = mk_inflated p None),
  forall f c s k,
    written_v bgzf f c s -> (length s <= Nat.min k BUF_CAP)%nat ->
    detect_v (window s k) (gunzip (window s k)) = Ok (f, c).
Proof. exact detect_written_whole_v. Qed.
Print Assumptions c20_detect_written_whole_stream_variant.

(* SAM text accepted by the SAM writer never begins with the gzip or the BAM magic; it begins with
   the CRAM magic only in the amb class, and then the next byte is a graphic character or TAB *)
Theorem c20_sam_text_not_magic :
  forall hdr recs, forallb sam_line_ok recs = true ->
    (forall r, sam_text hdr recs <> 31 :: 139 :: r) /\
    (forall r, sam_text hdr recs <> BAM_MAGIC ++ r) /\
    (sam_first_name_cram hdr recs = false -> forall r, sam_text hdr recs <> CRAM_MAGIC ++ r) /\
    (forall r, sam_text hdr recs = CRAM_MAGIC ++ r -> exists b r', r = b :: r' /\ sam_cont b = true).
Proof. exact sam_text_not_magic. Qed.
Print Assumptions c20_sam_text_not_magic.

(* magic numbers: pairwise distinct, none a prefix of another, none begins with '@', '#', '*' *)
Theorem c20_magic_numbers_distinct :
  BAM_MAGIC <> CRAM_MAGIC /\ firstn 3 BAM_MAGIC <> BCF_MAGIC /\ firstn 3 CRAM_MAGIC <> BCF_MAGIC /\
  firstn 2 BAM_MAGIC <> GZIP_MAGIC /\ firstn 2 CRAM_MAGIC <> GZIP_MAGIC /\ firstn 2 BCF_MAGIC <> GZIP_MAGIC /\
  (forall m, In m [BAM_MAGIC; CRAM_MAGIC; BCF_MAGIC; GZIP_MAGIC] ->
             hd 0 m <> 64 /\ hd 0 m <> 35 /\ hd 0 m <> 42).
Proof. exact magic_numbers_distinct. Qed.
Print Assumptions c20_magic_numbers_distinct.

(* autodetection never decides (CRAM, BGZF): the builder's InvalidData branch needs an override *)
Theorem c20_detect_never_cram_bgzf : forall w i, detect_a w i <> Ok (Cram, CBgzf).
Proof. exact detect_a_never_cram_bgzf. Qed.
Print Assumptions c20_detect_never_cram_bgzf.

(* fewer than 4 inflated bytes: a clean end of the stream is answered SAM; only a decoder error
   (a member cut off inside the window, a bad header) is reported *)
Theorem c20_gz_short_payload :
  forall r i, (length (avail i) < 4)%nat ->
    detect_a (31 :: 139 :: r) i = match stop i with None => Ok (Sam, CBgzf) | Some e => Err e end.
Proof. exact detect_a_gz_short. Qed.
Print Assumptions c20_gz_short_payload.

(* ---- what still fails (known finding detect-short-first-read) ---- *)

(* a short first read: raw BAM / CRAM / BCF are taken for SAM / VCF when the first read delivers
   fewer bytes than the magic; a header-less SAM whose first read is named CRAM... is taken for
   CRAM when the first read delivers exactly four bytes; any BGZF stream is taken for raw SAM/VCF
   when it delivers one byte *)
Theorem c20_short_window_refuted :
  (forall rest i, detect_a (window (bam_payload rest) 3) i = Ok (Sam, CNone)) /\
  (forall major minor rest i, detect_a (window (cram_stream major minor rest) 3) i = Ok (Sam, CNone)) /\
  (forall rest i, detect_v (window (bcf_payload rest) 2) i = Ok (Vcf, CNone)) /\
  (forall i, detect_a (window (sam_text [] [mk_sam_line (Some [67; 82; 65; 77; 49]) [52; 9; 42]]) 4) i
             = Ok (Cram, CNone)).
Proof. exact short_window_raw_refuted. Qed.
Print Assumptions c20_short_window_refuted.

Theorem c20_short_window_gz_refuted :
  forall (bgzf : list N -> list N) (gunzip : list N -> inflated)
    (H_magic : forall p, exists r, bgzf p = 31 :: 139 :: r),
  forall p,
    detect_a (window (bgzf p) 1) (gunzip (window (bgzf p) 1)) = Ok (Sam, CNone) /\
    detect_v (window (bgzf p) 1) (gunzip (window (bgzf p) 1)) = Ok (Vcf, CNone).
Proof. exact short_window_gz_refuted. Qed.
Print Assumptions c20_short_window_gz_refuted.

(* ---- non-vacuity: concrete instances of the hypotheses ---- *)

(* a toy "BGZF" (gzip magic + stored payload) and its decoder satisfy the three premises, so the
   theorems above are not vacuous in their oracle hypotheses *)
Definition toy_bgzf (p : list N) : list N := 31 :: 139 :: p.
Definition toy_gunzip (w : list N) : inflated := mk_inflated (skipn 2 w) None.
Example c20_oracle_premises_satisfiable :
  (forall p, exists r, toy_bgzf p = 31 :: 139 :: r) /\
  (forall p m, exists n, avail (toy_gunzip (firstn m (toy_bgzf p))) = firstn n p) /\
  (forall p, toy_gunzip (toy_bgzf p) = mk_inflated p None).
Proof.
  split; [intro p; exists p; reflexivity|]. split; [|intro p; reflexivity].
  intros p m. unfold toy_gunzip, toy_bgzf. cbn [avail].
  destruct m as [|[|m]]; [exists 0%nat; reflexivity|exists 0%nat; reflexivity|].
  exists m. reflexivity.
Qed.

(* the unconditional statement is false already for the toy oracle: a BAM whose first read
   delivers one byte *)
Theorem c20_detect_written_full_statement_refuted : ~ c20_detect_written_full_statement.
Proof.
  intro H.
  specialize (H toy_bgzf toy_gunzip (proj1 c20_oracle_premises_satisfiable)
                (proj1 (proj2 c20_oracle_premises_satisfiable))
                (proj2 (proj2 c20_oracle_premises_satisfiable))
                Bam CBgzf false (toy_bgzf (bam_payload [])) 1%nat (le_n 1) (WBam toy_bgzf [])).
  vm_compute in H. discriminate.
Qed.
Print Assumptions c20_detect_written_full_statement_refuted.

(* formerly F13: the BGZF-compressed SAM of an empty header and no records, delivered whole *)
Example c20_example_f13_repaired :
  written_a toy_bgzf Sam CBgzf false (toy_bgzf (sam_text [] [])) /\
  detect_a (window (toy_bgzf (sam_text [] [])) 100) (toy_gunzip (window (toy_bgzf (sam_text [] [])) 100))
    = Ok (Sam, CBgzf).
Proof. split; [apply (WSamGz toy_bgzf [] []); reflexivity|vm_compute; reflexivity]. Qed.

(* formerly F14: header-less SAM whose first read is named "CRAM1", resp. exactly "CRAM" *)
Example c20_example_f14_repaired :
  let recs1 := [mk_sam_line (Some [67; 82; 65; 77; 49]) [52; 9; 42]] in
  let recs2 := [mk_sam_line (Some [67; 82; 65; 77]) [52; 9; 42]] in
  forallb sam_line_ok recs1 = true /\ sam_first_name_cram [] recs1 = true /\
  detect_a (window (sam_text [] recs1) 100) (mk_inflated [] None) = Ok (Sam, CNone) /\
  detect_a (window (sam_text [] recs2) 100) (mk_inflated [] None) = Ok (Sam, CNone) /\
  detect_a (window (cram_stream 3 0 [0; 0]) 100) (mk_inflated [] None) = Ok (Cram, CNone) /\
  cram_major_ok 1 = true /\ cram_major_ok 2 = true /\ cram_major_ok 3 = true /\ cram_major_ok 4 = true.
Proof. repeat split. Qed.

Example c20_example_samgz :
  let s := toy_bgzf (sam_text [] [mk_sam_line (Some [114; 49]) [52; 9; 42]]) in
  written_a toy_bgzf Sam CBgzf false s /\
  detect_a (window s 100) (toy_gunzip (window s 100)) = Ok (Sam, CBgzf).
Proof. split; [apply WSamGz; reflexivity|vm_compute; reflexivity]. Qed.

Example c20_example_bam :
  detect_a (window (toy_bgzf (bam_payload [0;0;0;0])) 8192) (toy_gunzip (window (toy_bgzf (bam_payload [0;0;0;0])) 8192))
    = Ok (Bam, CBgzf)
  /\ detect_v (window (bcf_payload [0]) 3) (mk_inflated [] None) = Ok (Bcf, CNone).
Proof. split; vm_compute; reflexivity. Qed.

(* ======================================================================================== *)
(* Deepening round 2.                                                                        *)

(* ---- (1) the window over a source with a delivery script -------------------------------- *)

(* the builders repaired by /tmp/C20/fixes/06-detect-short-first-read.diff read the first 8 KiB
   with take(8192).read_to_end: whatever the script (read sizes, Interrupted results), the window
   is the first 8 KiB of the stream *)
Theorem c20_repaired_window : forall src,
  first_window_fix src = WOk (firstn BUF_CAP (s_data src)).
Proof. exact first_window_fix_spec. Qed.
Print Assumptions c20_repaired_window.

(* the current builders: one read; [window s k] above is "the first read delivers k bytes" *)
Theorem c20_current_window : forall s sc,
  first_window_cur (mkSource s sc) =
    match sc with
    | [] => WOk (firstn BUF_CAP s)
    | Interrupted :: _ => WInterrupted
    | Deliver k :: _ => WOk (window s (Nat.max k 1))
    end.
Proof. exact first_window_cur_spec. Qed.
Print Assumptions c20_current_window.

(* THE FULL STATEMENT for the repaired builders: every stream of the generic writers is detected
   as written for EVERY delivery script -- no condition on read sizes.  Fourth oracle premise
   H_window: from the first 8 KiB of a BGZF stream the decoder gets the 4 bytes asked for, unless
   the whole stream fits the window (checked on the real libraries by the hz cases). *)
Theorem c20_detect_written_repaired :
  forall (bgzf : list N -> list N) (gunzip : list N -> inflated)
    (H_magic : forall p, exists r, bgzf p = 31 :: 139 :: r)
    (H_prefix : forall p m, exists n, avail (gunzip (firstn m (bgzf p))) = firstn n p)
    (H_whole : forall p, gunzip (bgzf p) = mk_inflated p None)
    (H_window : forall p, (4 <= length (avail (gunzip (firstn BUF_CAP (bgzf p)))))%nat \/
                          (length (bgzf p) <= BUF_CAP)%nat),
  forall f c amb s sc,
    written_a bgzf f c amb s ->
    build_src_a true None None gunzip (mkSource s sc) = BOk (f, c).
Proof. exact detect_written_repaired_a. Qed.
Print Assumptions c20_detect_written_repaired.

Theorem c20_detect_written_repaired_variant :
  forall (bgzf : list N -> list N) (gunzip : list N -> inflated)
    (H_magic : forall p, exists r, bgzf p = 31 :: 139 :: r)
    (H_prefix : forall p m, exists n, avail (gunzip (firstn m (bgzf p))) = firstn n p)
    (H_whole : forall p, gunzip (bgzf p) = mk_inflated p None)
    (H_window : forall p, (4 <= length (avail (gunzip (firstn BUF_CAP (bgzf p)))))%nat \/
                          (length (bgzf p) <= BUF_CAP)%nat),
  forall f c s sc,
    written_v bgzf f c s ->
    build_src_v true None None gunzip (mkSource s sc) = BOk (f, c).
Proof. exact detect_written_repaired_v. Qed.
Print Assumptions c20_detect_written_repaired_variant.

(* the repaired decision is a function of the stream alone (any stream, any overrides) *)
Theorem c20_repaired_script_independent :
  forall gunzip oc ofa ofv s sc sc',
    build_src_a true oc ofa gunzip (mkSource s sc) = build_src_a true oc ofa gunzip (mkSource s sc') /\
    build_src_v true oc ofv gunzip (mkSource s sc) = build_src_v true oc ofv gunzip (mkSource s sc').
Proof.
  intros. split; [apply build_src_fix_script_independent_a|apply build_src_fix_script_independent_v].
Qed.
Print Assumptions c20_repaired_script_independent.

(* the current builders over a source: the window conditions are about the first delivery; an
   Interrupted first read makes the builder fail with ErrorKind::Interrupted *)
Theorem c20_detect_written_current :
  forall (bgzf : list N -> list N) (gunzip : list N -> inflated)
    (H_magic : forall p, exists r, bgzf p = 31 :: 139 :: r)
    (H_prefix : forall p m, exists n, avail (gunzip (firstn m (bgzf p))) = firstn n p)
    (H_whole : forall p, gunzip (bgzf p) = mk_inflated p None),
  forall f c amb s k sc,
    written_a bgzf f c amb s -> window_ok_a gunzip f c amb s (Nat.max k 1) ->
    build_src_a false None None gunzip (mkSource s (Deliver k :: sc)) = BOk (f, c).
Proof. exact detect_written_current_a. Qed.
Print Assumptions c20_detect_written_current.

Theorem c20_current_interrupted_first_read : forall gunzip s sc,
  build_src_a false None None gunzip (mkSource s (Interrupted :: sc)) = BInterrupted /\
  build_src_v false None None gunzip (mkSource s (Interrupted :: sc)) = BInterrupted.
Proof. exact current_interrupted_first_read. Qed.
Print Assumptions c20_current_interrupted_first_read.

(* the toy oracle also satisfies the fourth premise *)
Example c20_oracle_premise_window_satisfiable : forall p,
  (4 <= length (avail (toy_gunzip (firstn BUF_CAP (toy_bgzf p)))))%nat \/
  (length (toy_bgzf p) <= BUF_CAP)%nat.
Proof.
  intro p. unfold toy_gunzip, toy_bgzf. cbn [avail].
  assert (C : (6 <= BUF_CAP)%nat) by (apply PeanoNat.Nat.leb_le; reflexivity).
  rewrite skipn_length, firstn_length. cbn [length].
  revert C. generalize BUF_CAP. intros c C.
  destruct (PeanoNat.Nat.le_gt_cases 4 (length p)) as [H|H].
  - left. apply PeanoNat.Nat.le_add_le_sub_r.
    apply PeanoNat.Nat.min_glb; [exact C|]. cbn. do 2 apply le_n_S. exact H.
  - right. apply PeanoNat.Nat.le_trans with 6%nat; [|exact C].
    do 2 apply le_n_S. apply PeanoNat.Nat.lt_le_incl. exact H.
Qed.

(* ---- (2) path extensions ------------------------------------------------------------------ *)

(* the conventional names select the conventional writer, for every non-empty stem *)
Theorem c20_conventional_names : forall a stem, stem <> [] ->
  build_writer_path_a a None None (stem ++ 46 :: X_SAM) = Ok KSam /\
  build_writer_path_a a None None (stem ++ 46 :: X_BAM) = Ok KBam /\
  build_writer_path_a a None None (stem ++ 46 :: X_CRAM) = Ok KCram /\
  build_writer_path_a a None None ((stem ++ 46 :: X_SAM) ++ 46 :: X_GZ) = Ok KSamGz /\
  build_writer_path_a a None None ((stem ++ 46 :: X_SAM) ++ 46 :: X_BGZ) = Ok KSamGz.
Proof. exact conventional_names_a. Qed.
Print Assumptions c20_conventional_names.

Theorem c20_conventional_names_variant : forall stem, stem <> [] ->
  build_writer_path_v None None (stem ++ 46 :: X_VCF) = KVcf /\
  build_writer_path_v None None (stem ++ 46 :: X_BCF) = KBcf /\
  build_writer_path_v None None ((stem ++ 46 :: X_VCF) ++ 46 :: X_GZ) = KVcfGz /\
  build_writer_path_v None None ((stem ++ 46 :: X_VCF) ++ 46 :: X_BGZ) = KVcfGz.
Proof. exact conventional_names_v. Qed.
Print Assumptions c20_conventional_names_variant.

(* with nothing set every name builds a writer, and which one depends on the extension only *)
Theorem c20_path_autodetect_total : forall a name,
  build_writer_path_a a None None name =
    match extension name with
    | Some e =>
        if eqb_bytes e X_SAM then Ok KSam
        else if eqb_bytes e X_BAM then Ok KBam
        else if eqb_bytes e X_CRAM then Ok KCram
        else if is_gz_ext e then Ok KSamGz
        else Ok KSam
    | None => Ok KSam
    end.
Proof. exact path_autodetect_total_a. Qed.
Print Assumptions c20_path_autodetect_total.

Theorem c20_path_autodetect_total_variant : forall name,
  build_writer_path_v None None name =
    match extension name with
    | Some e =>
        if eqb_bytes e X_VCF then KVcf
        else if eqb_bytes e X_BCF then KBcf
        else if is_gz_ext e then KVcfGz
        else KVcf
    | None => KVcf
    end.
Proof. exact path_autodetect_total_v. Qed.
Print Assumptions c20_path_autodetect_total_variant.

(* ---- (3) the inner dispatch --------------------------------------------------------------- *)

(* every builder ends in the same total table (format, compression) -> Inner variant: the variant
   names its pair, every variant is reached from its pair, and the only pair without a variant is
   (CRAM, BGZF) *)
Theorem c20_inner_dispatch :
  (forall e f c k, inner_a e f c = Ok k -> akind_fmt k = f /\ akind_comp k = c) /\
  (forall e k, inner_a e (akind_fmt k) (akind_comp k) = Ok k) /\
  (forall e f c e', inner_a e f c = Err e' -> f = Cram /\ c = CBgzf /\ e' = e) /\
  (forall f c, vkind_fmt (inner_v f c) = f /\ vkind_comp (inner_v f c) = c) /\
  (forall k, inner_v (vkind_fmt k) (vkind_comp k) = k).
Proof.
  split; [exact inner_a_sound|]. split; [exact inner_a_complete|]. split; [exact inner_a_err|].
  split; [exact inner_v_sound|exact inner_v_complete].
Qed.
Print Assumptions c20_inner_dispatch.

(* every configuration of the writer builders (sync and async): the reader builder constructs,
   for the pair the writer was built for, the variant with the same codec and framing *)
Theorem c20_writer_reader_counterpart :
  (forall a oc ofm k, build_writer_a a oc ofm = Ok k ->
     writer_pair_a oc ofm = (akind_fmt k, akind_comp k) /\
     inner_a InvalidData (akind_fmt k) (akind_comp k) = Ok k) /\
  (forall oc ofm,
     writer_pair_v oc ofm = (vkind_fmt (build_writer_v oc ofm), vkind_comp (build_writer_v oc ofm))) /\
  (forall a oc ofm e, build_writer_a a oc ofm = Err e <->
     (ofm = Some Cram /\ oc = Some CBgzf /\ e = writer_cram_bgzf_err a)).
Proof.
  split; [exact writer_reader_counterpart_a|]. split; [exact writer_reader_counterpart_v|].
  exact build_writer_a_err.
Qed.
Print Assumptions c20_writer_reader_counterpart.

Theorem c20_writer_defaults :
  (forall a, build_writer_a a None None = Ok KSam) /\
  (forall a, build_writer_a a None (Some Sam) = Ok KSam) /\
  (forall a, build_writer_a a None (Some Bam) = Ok KBam) /\
  (forall a, build_writer_a a None (Some Cram) = Ok KCram) /\
  build_writer_v None None = KVcf /\ build_writer_v None (Some Vcf) = KVcf /\
  build_writer_v None (Some Bcf) = KBcf.
Proof. exact writer_defaults. Qed.
Print Assumptions c20_writer_defaults.

(* the autodetecting reader builder constructs, for a stream of writer variant k, reader variant k *)
Theorem c20_reader_variant_of_writer :
  forall (bgzf : list N -> list N) (gunzip : list N -> inflated)
    (H_magic : forall p, exists r, bgzf p = 31 :: 139 :: r)
    (H_prefix : forall p m, exists n, avail (gunzip (firstn m (bgzf p))) = firstn n p)
    (H_whole : forall p, gunzip (bgzf p) = mk_inflated p None),
  (forall k amb s n,
     written_by_a bgzf k amb s -> window_ok_a gunzip (akind_fmt k) (akind_comp k) amb s n ->
     build_reader_kind_a None None (window s n) (gunzip (window s n)) = Ok k) /\
  (forall k s n,
     written_by_v bgzf k s -> window_ok_v gunzip (vkind_fmt k) (vkind_comp k) s n ->
     build_reader_kind_v None None (window s n) (gunzip (window s n)) = Ok k).
Proof.
  intros. split; [apply reader_variant_of_writer_a|apply reader_variant_of_writer_v]; assumption.
Qed.
Print Assumptions c20_reader_variant_of_writer.

(* path -> writer variant -> its stream -> repaired reader builder over any delivery script:
   the pair of that variant *)
Theorem c20_path_writer_reader_roundtrip :
  forall (bgzf : list N -> list N) (gunzip : list N -> inflated)
    (H_magic : forall p, exists r, bgzf p = 31 :: 139 :: r)
    (H_prefix : forall p m, exists n, avail (gunzip (firstn m (bgzf p))) = firstn n p)
    (H_whole : forall p, gunzip (bgzf p) = mk_inflated p None)
    (H_window : forall p, (4 <= length (avail (gunzip (firstn BUF_CAP (bgzf p)))))%nat \/
                          (length (bgzf p) <= BUF_CAP)%nat),
  (forall a name k amb s sc,
     build_writer_path_a a None None name = Ok k -> written_by_a bgzf k amb s ->
     build_src_a true None None gunzip (mkSource s sc) = BOk (akind_fmt k, akind_comp k) /\
     inner_a InvalidData (akind_fmt k) (akind_comp k) = Ok k) /\
  (forall name s sc,
     written_by_v bgzf (build_writer_path_v None None name) s ->
     build_src_v true None None gunzip (mkSource s sc)
       = BOk (vkind_fmt (build_writer_path_v None None name), vkind_comp (build_writer_path_v None None name))).
Proof.
  intros. split.
  - intros. eapply path_writer_reader_roundtrip_a; eassumption.
  - intros. eapply path_writer_reader_roundtrip_v; eassumption.
Qed.
Print Assumptions c20_path_writer_reader_roundtrip.

(* ---- (2b) indexed readers and index discovery --------------------------------------------- *)

(* no index set: the candidates <src>.<ext> are tried in a fixed order; the first one that is not
   missing decides (a usable one is loaded; an unusable one is the error, later candidates are not
   tried); all missing: NotFound *)
Theorem c20_index_discovery :
  (forall k d, indexable_a k = true -> discover_a k PNone d = first_present d (candidates_a k)) /\
  (forall k d, indexable_v k = true -> discover_v k PNone d = first_present d (candidates_v k)) /\
  candidates_a KSamGz = [XCsi] /\ candidates_a KBam = [XBai; XCsi] /\ candidates_a KCram = [XCrai] /\
  candidates_v KVcfGz = [XTbi; XCsi] /\ candidates_v KBcf = [XCsi].
Proof.
  split; [exact discover_a_spec|]. split; [exact discover_v_spec|]. repeat split.
Qed.
Print Assumptions c20_index_discovery.

Theorem c20_index_preset : forall d,
  discover_a KSamGz PBinning d = IOk FromBuilder /\ discover_a KBam PBinning d = IOk FromBuilder /\
  discover_a KCram PCrai d = IOk FromBuilder /\
  discover_a KSamGz PCrai d = discover_a KSamGz PNone d /\
  discover_a KBam PCrai d = discover_a KBam PNone d /\
  discover_a KCram PBinning d = discover_a KCram PNone d /\
  discover_v KVcfGz PBinning d = IOk FromBuilder /\ discover_v KBcf PBinning d = IOk FromBuilder.
Proof. exact discover_preset. Qed.
Print Assumptions c20_index_preset.

Theorem c20_index_precedence : forall d,
  (d XBai = FValid -> discover_a KBam PNone d = IOk (FromFile XBai)) /\
  (d XBai = FMissing -> d XCsi = FValid -> discover_a KBam PNone d = IOk (FromFile XCsi)) /\
  (forall e, e <> ENotFound -> d XBai = FBad e -> discover_a KBam PNone d = IErr e) /\
  (d XTbi = FValid -> discover_v KVcfGz PNone d = IOk (FromFile XTbi)) /\
  (d XTbi = FMissing -> d XCsi = FValid -> discover_v KVcfGz PNone d = IOk (FromFile XCsi)) /\
  (forall e, e <> ENotFound -> d XTbi = FBad e -> discover_v KVcfGz PNone d = IErr e).
Proof. exact discover_precedence. Qed.
Print Assumptions c20_index_precedence.

Theorem c20_index_only_valid_candidates :
  (forall k p d x, discover_a k p d = IOk (FromFile x) -> In x (candidates_a k) /\ d x = FValid) /\
  (forall k p d x, discover_v k p d = IOk (FromFile x) -> In x (candidates_v k) /\ d x = FValid) /\
  (forall k p s, preset_only_a k p = IOk s -> s = FromBuilder) /\
  (forall k p s, preset_only_v k p = IOk s -> s = FromBuilder) /\
  (forall k, indexable_a k = true -> preset_only_a k PNone = IErr EInvalidInput) /\
  (forall k, indexable_v k = true -> preset_only_v k PNone = IErr EInvalidInput).
Proof.
  split; [exact discover_a_from_file|]. split; [exact discover_v_from_file|]. exact preset_only_spec.
Qed.
Print Assumptions c20_index_only_valid_candidates.

(* the indexed builders accept exactly the pairs whose Inner variant is BGZF SAM/BAM/VCF/BCF or
   CRAM -- i.e. what the conventional names x.sam.gz, x.bam, x.cram, x.vcf.gz, x.bcf produce *)
Theorem c20_indexed_pairs :
  (forall f c, indexed_kind_a f c =
     match inner_a InvalidData f c with
     | Ok k => if indexable_a k then IOk k else IErr EInvalidData
     | Err _ => IErr EInvalidData
     end) /\
  (forall f c, indexed_kind_v f c = if indexable_v (inner_v f c) then IOk (inner_v f c) else IErr EInvalidData).
Proof. split; [exact indexed_kind_a_spec|exact indexed_kind_v_spec]. Qed.
Print Assumptions c20_indexed_pairs.

(* index file names *)
Theorem c20_index_paths :
  (forall src x y, index_path src x = index_path src y -> x = y) /\
  (forall src x, src <> [] ->
     extension (index_path src x) = Some (iext_bytes x) /\ file_stem (index_path src x) = src).
Proof. split; [exact index_path_injective|exact index_path_extension]. Qed.
Print Assumptions c20_index_paths.

(* ---- (4) finish --------------------------------------------------------------------------- *)

Theorem c20_finish_table :
  (forall k, finish_v Sync k = (if is_bgzf_kind k then BgzfTryFinish else BufFlush) /\
             finish_v Async k = AsyncShutdown) /\
  (forall k, finish_a Sync k = match k with
                               | KCram => CramFinish
                               | _ => match akind_comp k with CBgzf => BgzfTryFinish | CNone => BufFlush end
                               end /\
             finish_a Async k = AsyncShutdown).
Proof. split; [exact finish_v_table|exact finish_a_table]. Qed.
Print Assumptions c20_finish_table.

(* variant::io::Writer::finish over a destination that accepts everything (block-level model):
   after a run that ends with finish nothing is pending and everything written is at the
   destination in order; a BGZF stream then ends with the EOF block; finish is idempotent and
   dropping a finished writer adds nothing *)
Theorem c20_variant_writer_finish :
  (forall k ops, let st := vw_run k (ops ++ [OpFinish]) in
     vw_pending st = [] /\ vw_delivered st = ops_payload ops) /\
  (forall k ops, let st := vw_run k ops in
     is_bgzf_kind k = true ->
     vw_fin (vw_finish st) = true /\ (1 <= vw_eofs (vw_finish st))%nat) /\
  (forall st, vw_finish (vw_finish st) = vw_finish st) /\
  (forall st, vw_drop (vw_finish st) = vw_finish st).
Proof.
  split; [exact vw_run_finished|]. split; [|split; [exact vw_finish_idempotent|exact vw_drop_after_finish]].
  intros k ops st Hk.
  destruct (vw_finish_complete st (vw_run_inv k ops)) as [_ [_ [_ H]]].
  apply H. unfold st. clear H. revert Hk.
  assert (G : forall ops s, vw_kind (fold_left vw_step ops s) = vw_kind s).
  { induction ops0 as [|o ops0 IH]; intro s; [reflexivity|]. cbn [fold_left]. rewrite IH.
    destruct o; [reflexivity|apply vw_finish_kind]. }
  unfold vw_run. rewrite G. cbn [vw_new vw_kind]. exact (fun x => x).
Qed.
Print Assumptions c20_variant_writer_finish.

(* non-vacuity: concrete runs *)
Example c20_example_finish :
  let st := vw_run KVcfGz [OpWrite [35; 35]; OpFinish; OpFinish; OpWrite [49]; OpFinish] in
  vw_delivered st = [35; 35; 49] /\ vw_blocks st = 2%nat /\ vw_eofs st = 2%nat /\ vw_fin st = true /\
  vw_eofs (vw_run KBcf [OpFinish; OpFinish]) = 1%nat /\
  vw_delivered (vw_run KVcf [OpWrite [35]; OpFinish]) = [35] /\
  vw_delivered (vw_run KVcf [OpWrite [35]]) = [].
Proof. repeat split. Qed.

Example c20_example_paths :
  build_writer_path_a Sync None None [120; 46; 115; 97; 109; 46; 103; 122] = Ok KSamGz /\  (* x.sam.gz *)
  build_writer_path_a Sync None None [120; 46; 103; 122] = Ok KSamGz /\                  (* x.gz *)
  build_writer_path_a Sync None (Some Cram) [120; 46; 103; 122] = Err InvalidInput /\    (* CRAM to x.gz *)
  build_writer_path_a Async None (Some Cram) [120; 46; 103; 122] = Err InvalidData /\
  build_writer_path_a Sync None None [120] = Ok KSam /\
  build_writer_path_v None None [120; 46; 98; 99; 102; 46; 103; 122] = KVcfGz /\         (* x.bcf.gz: VCF! *)
  index_path [120; 46; 98; 97; 109] XBai = [120; 46; 98; 97; 109; 46; 98; 97; 105].      (* x.bam.bai *)
Proof. repeat split. Qed.
