From Coq Require Import List NArith.
From NV Require Import Util.Detect.
Import ListNotations.
Open Scope N_scope.
Example c20_example : detect_a [66;65;77;1] (mk_inflated [] UnexpectedEof) = Ok (Bam, CNone).
Proof. vm_compute. reflexivity. Qed.
